/-
  C08 (and the zero-gap-open part of C09) for the Go SOURCE TEXT: align/align.go, align/global.go,
  align/local.go — `(SubstitutionMatrix).Get`, `decideOnStep`, `traceAlignmentSteps`, `Global`,
  `argmax`, `traceAlignmentStepsLocal`, `Local` — as translated statement by statement on every run
  into `Bio.Generated.GoSrc` (float64 scores as `Int`, a `block{score, step}` as `Int × UInt8`, a
  `Step` as its byte, the matrix `map[[2]byte]float64` as an association list keyed by `[a, b]`;
  `none` = the Go code panics, or a `for cond { }` loop ran out of `fuel`):

  * the translated functions ARE the hand-written model `Bio/Model/Align.lean`, for ALL inputs,
    including the panic: `Global`/`Local` return `none` exactly when the model's `globalP`/`localP`
    do, i.e. when an entry of `Align.needed a b` is missing from the matrix;
  * the fuel needed by the traceback loops is `len(a) + len(b) + 1` (one iteration per step, at
    most `len(a) + len(b)` steps, plus the iteration that leaves the loop); this bound is attained
    (`Global("x", "")` needs 2);
  * hence the results of `Bio/Props/C08.lean` and `C09.lean` hold for the source text.

  Steps are encoded by `encStep` (none 0, match 1, deletion 2, insertion 3) and decoded by `decStep`.
  Helper lemmas: `Bio/Lemmas/GoSrcAlign1.lean`, `Bio/Lemmas/GoSrcAlign.lean`.  Guarded by the
  translator's `<f>_Found` flags (see `Bio.Lemmas.GoSrc`).
-/
import Bio.Lemmas.GoSrcAlign
import Bio.Props.C09
namespace Bio.Props.C08Go
open Bio Bio.GoRt Bio.Generated Bio.GoSrcLemmas

/-- every translator flag this file depends on; the non-vacuity examples below are stated as
`allFound = false ∨ …` so that a source the translator no longer recognises is not an alarm -/
def allFound : Bool :=
  GoSrc.Matrix_Get_Found && GoSrc.decideOnStep_Found && GoSrc.traceAlignmentSteps_Found && GoSrc.Global_Found
    && GoSrc.argmax_Found && GoSrc.traceAlignmentStepsLocal_Found && GoSrc.Local_Found

/-- "all needed entries present": every pair the DP reads is a key of the translated matrix -/
def neededPresent (m : List (List UInt8 × Int)) (a b : Bytes) : Prop :=
  ∀ p ∈ Align.needed a b, (matOf m p.1 p.2).isSome = true

instance (m : List (List UInt8 × Int)) (a b : Bytes) : Decidable (neededPresent m a b) := by
  unfold neededPresent; infer_instance

/-! ## 1. The translated functions are the model -/

/-- `Get`: the value when the pair is a key, a panic otherwise. -/
theorem go_Matrix_Get : GoSrc.Matrix_Get_Found = true →
    ∀ (m : List (List UInt8 × Int)) (a b : UInt8), GoSrc.Matrix_Get m a b = matOf m a b :=
  fun h m a b => Matrix_Get_eq h m a b

/-- `decideOnStep` is the model's, with the same tie order; it never panics. -/
theorem go_decideOnStep : GoSrc.decideOnStep_Found = true →
    ∀ x y z : Int, GoSrc.decideOnStep x y z
      = some (let c := Align.decideOnStep x y z; (c.score, encStep c.step)) :=
  fun h x y z => decideOnStep_eq h x y z

/-- `argmax` on the flattened table (row-major, cells as `block`s) is the model's `argmax`:
the flat index `i * (len(b)+1) + j` of the first maximal cell `(i, j)`. -/
theorem go_argmax : GoSrc.argmax_Found = true →
    ∀ (m : Align.Mat) (loc : Bool) (a b : Bytes),
      GoSrc.argmax ((Align.table m loc a b).flatten.map encCell)
        = some (((Align.argmax (Align.table m loc a b)).1 * (b.length + 1)
            + (Align.argmax (Align.table m loc a b)).2.1 : Nat) : Int) := by
  intro h m loc a b
  rw [← alnFlat_eq_flatten, argmax_eq h]
  rfl

/-- `traceAlignmentSteps` on the flattened global table is the model's traceback and score. -/
theorem go_traceAlignmentSteps : GoSrc.traceAlignmentSteps_Found = true →
    ∀ (m : Align.Mat) (a b : Bytes) (fuel : Nat), a.length + b.length + 1 ≤ fuel →
      GoSrc.traceAlignmentSteps fuel ((Align.table m false a b).flatten.map encCell) (len b + 1)
        = some ((Align.globalT m a b).1.map encStep, (Align.globalT m a b).2) := by
  intro h m a b fuel hf
  rw [← alnFlat_eq_flatten, traceAlignmentSteps_eq h fuel m a b hf]

/-- For ALL inputs: the translated `Global` is the model's `globalP` — the same steps and score, and
a panic (`none`) on exactly the inputs where the model panics (a needed entry is missing). -/
theorem go_Global : GoSrc.Global_Found = true → GoSrc.Matrix_Get_Found = true →
    GoSrc.decideOnStep_Found = true → GoSrc.traceAlignmentSteps_Found = true →
    ∀ (a b : Bytes) (m : List (List UInt8 × Int)) (fuel : Nat), a.length + b.length + 1 ≤ fuel →
      GoSrc.Global fuel a b m = (Align.globalP (matOf m) a b).map fun r => (r.1.map encStep, r.2) :=
  fun hF hM hD hT a b m fuel hf => Global_eq hF hM hD hT a b m fuel hf

/-- For ALL inputs: the translated `Local` is the model's `localP`. -/
theorem go_Local : GoSrc.Local_Found = true → GoSrc.Matrix_Get_Found = true →
    GoSrc.decideOnStep_Found = true → GoSrc.traceAlignmentStepsLocal_Found = true →
    GoSrc.argmax_Found = true →
    ∀ (a b : Bytes) (m : List (List UInt8 × Int)) (fuel : Nat), a.length + b.length + 1 ≤ fuel →
      GoSrc.Local fuel a b m
        = (Align.localP (matOf m) a b).map fun r => (r.1.map encStep, r.2.1, r.2.2.1, r.2.2.2) :=
  fun hF hM hD hT hA a b m fuel hf => Local_eq hF hM hD hT hA a b m fuel hf

/-! ## 2. Panics -/

/-- With all needed entries present and enough fuel, neither function panics. -/
theorem go_no_panic : GoSrc.Global_Found = true → GoSrc.Local_Found = true → GoSrc.Matrix_Get_Found = true →
    GoSrc.decideOnStep_Found = true → GoSrc.traceAlignmentSteps_Found = true →
    GoSrc.traceAlignmentStepsLocal_Found = true → GoSrc.argmax_Found = true →
    ∀ (a b : Bytes) (m : List (List UInt8 × Int)) (fuel : Nat), a.length + b.length + 1 ≤ fuel →
      neededPresent m a b →
      (GoSrc.Global fuel a b m).isSome = true ∧ (GoSrc.Local fuel a b m).isSome = true := by
  intro hG hL hM hD hT hTL hA a b m fuel hf hn
  rw [Global_eq hG hM hD hT a b m fuel hf, Local_eq hL hM hD hTL hA a b m fuel hf,
    Align.globalP_isSome _ a b hn, Align.localP_isSome _ a b hn]
  exact ⟨rfl, rfl⟩

/-- A missing needed entry makes both functions panic (whatever the fuel). -/
theorem go_panic_of_missing : GoSrc.Global_Found = true → GoSrc.Local_Found = true →
    GoSrc.Matrix_Get_Found = true → GoSrc.decideOnStep_Found = true →
    ∀ (a b : Bytes) (m : List (List UInt8 × Int)) (fuel : Nat) (p : UInt8 × UInt8),
      p ∈ Align.needed a b → matOf m p.1 p.2 = none →
      GoSrc.Global fuel a b m = none ∧ GoSrc.Local fuel a b m = none := by
  intro hG hL hM hD a b m fuel p hp hm
  have : ((Align.needed a b).all fun p => (matOf m p.1 p.2).isSome) = false := by
    rw [List.all_eq_false]
    exact ⟨p, hp, by simp [hm]⟩
  rw [Global_dp hG hM hD, Local_dp hL hM hD, aln_all_ok, this]
  exact ⟨rfl, rfl⟩

/-- With enough fuel, the panic happens exactly when a needed entry is missing. -/
theorem go_panic_iff : GoSrc.Global_Found = true → GoSrc.Local_Found = true → GoSrc.Matrix_Get_Found = true →
    GoSrc.decideOnStep_Found = true → GoSrc.traceAlignmentSteps_Found = true →
    GoSrc.traceAlignmentStepsLocal_Found = true → GoSrc.argmax_Found = true →
    ∀ (a b : Bytes) (m : List (List UInt8 × Int)) (fuel : Nat), a.length + b.length + 1 ≤ fuel →
      (GoSrc.Global fuel a b m = none ↔ ¬ neededPresent m a b) ∧
      (GoSrc.Local fuel a b m = none ↔ ¬ neededPresent m a b) := by
  intro hG hL hM hD hT hTL hA a b m fuel hf
  by_cases hn : neededPresent m a b
  · have := go_no_panic hG hL hM hD hT hTL hA a b m fuel hf hn
    constructor
    · constructor
      · intro h; rw [h] at this; exact absurd this.1 (by simp)
      · intro h; exact absurd hn h
    · constructor
      · intro h; rw [h] at this; exact absurd this.2 (by simp)
      · intro h; exact absurd hn h
  · have hall : ((Align.needed a b).all fun p => (matOf m p.1 p.2).isSome) = false := by
      cases h : ((Align.needed a b).all fun p => (matOf m p.1 p.2).isSome) with
      | false => rfl
      | true => exact absurd (fun p hp => List.all_eq_true.mp h p hp) hn
    obtain ⟨p, hp, hm⟩ := List.all_eq_false.mp hall
    have hm' : matOf m p.1 p.2 = none := by
      cases h : matOf m p.1 p.2 with
      | none => rfl
      | some v => rw [h] at hm; exact absurd rfl hm
    have := go_panic_of_missing hG hL hM hD a b m fuel p hp hm'
    exact ⟨⟨fun _ => hn, fun _ => this.1⟩, ⟨fun _ => hn, fun _ => this.2⟩⟩

/-! ## 3. C08 for the source text: valid alignments that score what they claim -/

/-- `Global` (enough fuel, all needed entries present) returns steps and a score such that the
decoded steps, re-scored with the documented scoring from the starts of `a` and `b`, consume exactly
all of `a` and all of `b` and score exactly the returned score. -/
theorem go_global_valid : GoSrc.Global_Found = true → GoSrc.Matrix_Get_Found = true →
    GoSrc.decideOnStep_Found = true → GoSrc.traceAlignmentSteps_Found = true →
    ∀ (a b : Bytes) (m : List (List UInt8 × Int)) (fuel : Nat), a.length + b.length + 1 ≤ fuel →
      neededPresent m a b →
      ∃ steps score, GoSrc.Global fuel a b m = some (steps, score) ∧
        Align.rescore (Align.total (matOf m)) .none a b (steps.map decStep) = some (score, [], []) := by
  intro hF hM hD hT a b m fuel hf hn
  refine ⟨_, _, by rw [Global_eq hF hM hD hT a b m fuel hf, Align.globalP_isSome _ a b hn]; rfl, ?_⟩
  rw [map_decStep_encStep]
  exact Align.global_valid _ a b

/-- The same as an implication from the returned value (a returned value implies that all needed
entries were present). -/
theorem go_global_valid_of_some : GoSrc.Global_Found = true → GoSrc.Matrix_Get_Found = true →
    GoSrc.decideOnStep_Found = true → GoSrc.traceAlignmentSteps_Found = true →
    ∀ (a b : Bytes) (m : List (List UInt8 × Int)) (fuel : Nat) (steps : List UInt8) (score : Int),
      a.length + b.length + 1 ≤ fuel → GoSrc.Global fuel a b m = some (steps, score) →
      Align.rescore (Align.total (matOf m)) .none a b (steps.map decStep) = some (score, [], []) := by
  intro hF hM hD hT a b m fuel steps score hf h
  rw [Global_eq hF hM hD hT a b m fuel hf] at h
  unfold Align.globalP at h
  split at h
  · simp only [Option.map_some, Option.some.injEq, Prod.mk.injEq] at h
    obtain ⟨rfl, rfl⟩ := h
    rw [map_decStep_encStep]
    exact Align.global_valid _ a b
  · exact absurd h (by simp)

/-- `Local` under non-positive gap scores (`Align.gapScoresNonPos`: gap-open ≤ 0, every
`(x, Gap)` with `x ∈ a` ≤ 0, every `(Gap, y)` with `y ∈ b` ≤ 0): either no steps and score 0, or
non-negative start offsets, a positive score, and the decoded steps — applied from the returned
offsets — stay inside `a` and `b` and score exactly the returned score. -/
theorem go_local_valid : GoSrc.Local_Found = true → GoSrc.Matrix_Get_Found = true →
    GoSrc.decideOnStep_Found = true → GoSrc.traceAlignmentStepsLocal_Found = true →
    GoSrc.argmax_Found = true →
    ∀ (a b : Bytes) (m : List (List UInt8 × Int)) (fuel : Nat), a.length + b.length + 1 ≤ fuel →
      neededPresent m a b → Align.gapScoresNonPos (Align.total (matOf m)) a b →
      ∃ steps ai bi score, GoSrc.Local fuel a b m = some (steps, ai, bi, score) ∧
        ((steps = [] ∧ score = 0) ∨
         (0 ≤ ai ∧ 0 ≤ bi ∧ 0 < score ∧
           ∃ ra rb, Align.rescore (Align.total (matOf m)) .none (a.drop ai.toNat) (b.drop bi.toNat)
             (steps.map decStep) = some (score, ra, rb))) := by
  intro hF hM hD hT hA a b m fuel hf hn hg
  refine ⟨_, _, _, _, by rw [Local_eq hF hM hD hT hA a b m fuel hf, Align.localP_isSome _ a b hn]; rfl, ?_⟩
  rcases Align.local_valid _ a b hg with ⟨h1, h2⟩ | h
  · left; exact ⟨by rw [h1]; rfl, h2⟩
  · right; rw [map_decStep_encStep]; exact h

/-- The same as an implication from the returned value. -/
theorem go_local_valid_of_some : GoSrc.Local_Found = true → GoSrc.Matrix_Get_Found = true →
    GoSrc.decideOnStep_Found = true → GoSrc.traceAlignmentStepsLocal_Found = true →
    GoSrc.argmax_Found = true →
    ∀ (a b : Bytes) (m : List (List UInt8 × Int)) (fuel : Nat) (steps : List UInt8) (ai bi score : Int),
      a.length + b.length + 1 ≤ fuel → Align.gapScoresNonPos (Align.total (matOf m)) a b →
      GoSrc.Local fuel a b m = some (steps, ai, bi, score) →
      (steps = [] ∧ score = 0) ∨
      (0 ≤ ai ∧ 0 ≤ bi ∧ 0 < score ∧
        ∃ ra rb, Align.rescore (Align.total (matOf m)) .none (a.drop ai.toNat) (b.drop bi.toNat)
          (steps.map decStep) = some (score, ra, rb)) := by
  intro hF hM hD hT hA a b m fuel steps ai bi score hf hg h
  rw [Local_eq hF hM hD hT hA a b m fuel hf] at h
  unfold Align.localP at h
  split at h
  · simp only [Option.map_some, Option.some.injEq, Prod.mk.injEq] at h
    obtain ⟨rfl, rfl, rfl, rfl⟩ := h
    rcases Align.local_valid _ a b hg with ⟨h1, h2⟩ | h
    · left; exact ⟨by rw [h1]; rfl, h2⟩
    · right; rw [map_decStep_encStep]; exact h
  · exact absurd h (by simp)

/-! ## 4. C09 for the source text: optimality with a zero gap-open score -/

/-- With a zero gap-open score, the score returned by `Global` is the maximum over all alignments
of `a` and `b` (step lists that consume both exactly), attained by the returned steps. -/
theorem go_global_optimal_zero_open : GoSrc.Global_Found = true → GoSrc.Matrix_Get_Found = true →
    GoSrc.decideOnStep_Found = true → GoSrc.traceAlignmentSteps_Found = true →
    ∀ (a b : Bytes) (m : List (List UInt8 × Int)) (fuel : Nat), a.length + b.length + 1 ≤ fuel →
      neededPresent m a b → Align.total (matOf m) Align.GAP Align.GAP = 0 →
      ∃ steps score, GoSrc.Global fuel a b m = some (steps, score) ∧
        Align.rescore (Align.total (matOf m)) .none a b (steps.map decStep) = some (score, [], []) ∧
        ∀ s v, Align.rescore (Align.total (matOf m)) .none a b s = some (v, [], []) → v ≤ score := by
  intro hF hM hD hT a b m fuel hf hn h0
  refine ⟨_, _, by rw [Global_eq hF hM hD hT a b m fuel hf, Align.globalP_isSome _ a b hn]; rfl, ?_, ?_⟩
  · rw [map_decStep_encStep]
    exact Align.global_valid _ a b
  · exact Align.global_optimal_zero_open _ a b h0

/-- With a zero gap-open score, the score returned by `Local` is non-negative and no alignment of
any substring `a[i..i')` with any substring `b[j..j')` scores more. -/
theorem go_local_optimal_zero_open : GoSrc.Local_Found = true → GoSrc.Matrix_Get_Found = true →
    GoSrc.decideOnStep_Found = true → GoSrc.traceAlignmentStepsLocal_Found = true →
    GoSrc.argmax_Found = true →
    ∀ (a b : Bytes) (m : List (List UInt8 × Int)) (fuel : Nat), a.length + b.length + 1 ≤ fuel →
      neededPresent m a b → Align.total (matOf m) Align.GAP Align.GAP = 0 →
      ∃ steps ai bi score, GoSrc.Local fuel a b m = some (steps, ai, bi, score) ∧ 0 ≤ score ∧
        ∀ i i' j j', i ≤ i' → i' ≤ a.length → j ≤ j' → j' ≤ b.length →
          ∀ s v, Align.rescore (Align.total (matOf m)) .none ((a.drop i).take (i' - i))
              ((b.drop j).take (j' - j)) s = some (v, [], []) → v ≤ score := by
  intro hF hM hD hT hA a b m fuel hf hn h0
  refine ⟨_, _, _, _, by rw [Local_eq hF hM hD hT hA a b m fuel hf, Align.localP_isSome _ a b hn]; rfl, ?_, ?_⟩
  · exact (Align.local_optimal_zero_open' _ a b h0).2
  · exact (Align.local_optimal_zero_open' _ a b h0).1

/-! ## Non-vacuity / concrete instances -/

section Examples

/-- The matrix of the examples, as the translated map: match 3, mismatch −3, per-character gap −1,
gap-open −1, over the bytes `a b c d q x y z` and the gap 255. -/
def exChars : List UInt8 := [97, 98, 99, 100, 113, 120, 121, 122, 255]
def exL : List (List UInt8 × Int) :=
  exChars.flatMap fun x => exChars.map fun y =>
    ([x, y], if x == 255 && y == 255 then -1 else if x == 255 || y == 255 then -1 else if x == y then 3 else -3)

/-- the same with gap-open 0 -/
def exL0 : List (List UInt8 × Int) :=
  exChars.flatMap fun x => exChars.map fun y =>
    ([x, y], if x == 255 && y == 255 then 0 else if x == 255 || y == 255 then -1 else if x == y then 3 else -3)

/-- a genuinely partial matrix: only what "ab" against "aab" needs -/
def exPart : List (List UInt8 × Int) :=
  [([97, 97], 2), ([97, 98], -1), ([98, 97], -1), ([98, 98], 2),
   ([97, 255], -1), ([98, 255], -1), ([255, 97], -1), ([255, 98], -1), ([255, 255], -3)]

example : allFound = false ∨ allFound = true := by decide

/-- "abc" against "bcd": a deletion, two matches, an insertion; −1−1 + 3 + 3 −1−1 = 2.
Evaluated on the translated code itself (fuel 7 = 3 + 3 + 1). -/
example : allFound = false ∨
    GoSrc.Global 7 [97, 98, 99] [98, 99, 100] exL = some ([2, 1, 1, 3], 2) := by decide +kernel

/-- fuel below the number of loop iterations: no claim (`none`); 5 = 4 steps + 1 is enough here -/
example : allFound = false ∨
    (GoSrc.Global 4 [97, 98, 99] [98, 99, 100] exL = none ∧
     GoSrc.Global 5 [97, 98, 99] [98, 99, 100] exL = some ([2, 1, 1, 3], 2)) := by decide +kernel

/-- the bound `len(a) + len(b) + 1` is attained: "a" against "" needs 2 -/
example : allFound = false ∨
    (GoSrc.Global 1 [97] [] exL = none ∧ GoSrc.Global 2 [97] [] exL = some ([2], -2)) := by decide +kernel

/-- a local alignment with a deletion and an insertion inside, found at offsets 1 and 2:
"q ab x cd" against "zz ab c y d"; 3+3 −1−1 +3 −1−1 +3 = 8 -/
example : allFound = false ∨
    GoSrc.Local 14 [113, 97, 98, 120, 99, 100] [122, 122, 97, 98, 99, 121, 100] exL
      = some ([1, 1, 2, 1, 3, 1], 1, 2, 8) := by decide +kernel

/-- an empty local answer (all mismatches), and empty inputs -/
example : allFound = false ∨
    (GoSrc.Local 3 [97] [98] exL = some ([], -1, -1, 0) ∧ GoSrc.Local 1 [] [] exL = some ([], -1, -1, 0)
      ∧ GoSrc.Global 1 [] [] [] = some ([], 0)) := by decide +kernel

/-- the helpers, evaluated -/
example : allFound = false ∨
    (GoSrc.Matrix_Get exPart 97 98 = some (-1) ∧ GoSrc.Matrix_Get exPart 99 98 = none
      ∧ GoSrc.decideOnStep 1 1 1 = some (1, 1) ∧ GoSrc.decideOnStep 0 1 1 = some (1, 2)
      ∧ GoSrc.decideOnStep 0 0 1 = some (1, 3)
      ∧ GoSrc.argmax [(0, 0), (2, 1), (5, 1), (5, 2), (1, 3)] = some 2) := by decide +kernel

/-- hypotheses of the theorems above are satisfiable, non-trivially -/
example : neededPresent exL [97, 98, 99] [98, 99, 100] := by decide +kernel
example : neededPresent exL [113, 97, 98, 120, 99, 100] [122, 122, 97, 98, 99, 121, 100] := by
  decide +kernel
example : neededPresent exPart [97, 98] [97, 97, 98] := by decide +kernel
example : ([97, 98, 99] : Bytes).length + ([98, 99, 100] : Bytes).length + 1 ≤ 7 := by decide

example : Align.gapScoresNonPos (Align.total (matOf exL))
    [113, 97, 98, 120, 99, 100] [122, 122, 97, 98, 99, 121, 100] := by
  refine ⟨by decide +kernel, ?_, ?_⟩ <;> decide +kernel

example : Align.total (matOf exL0) Align.GAP Align.GAP = 0 := by decide +kernel
example : neededPresent exL0 [97, 98, 99, 100] [97, 100] := by decide +kernel

/-- the decoded steps of the first example re-score to the returned score -/
example : Align.rescore (Align.total (matOf exL)) .none [97, 98, 99] [98, 99, 100]
    (([2, 1, 1, 3] : List UInt8).map decStep) = some (2, [], []) := by decide +kernel

/-- and those of the local example, from the returned offsets -/
example : Align.rescore (Align.total (matOf exL)) .none
    (([113, 97, 98, 120, 99, 100] : Bytes).drop 1) (([122, 122, 97, 98, 99, 121, 100] : Bytes).drop 2)
    (([1, 1, 2, 1, 3, 1] : List UInt8).map decStep) = some (8, [], []) := by decide +kernel

/-- zero gap-open: a competing alignment scores less than what `Global` returns -/
example : allFound = false ∨
    GoSrc.Global 7 [97, 98, 99, 100] [97, 100] exL0 = some ([1, 2, 2, 1], 4) := by decide +kernel
example : Align.rescore (Align.total (matOf exL0)) .none [97, 98, 99, 100] [97, 100]
    [.mch, .mch, .del, .del] = some (-2, [], []) := by decide +kernel

/-- a missing needed entry: the hypothesis of `go_panic_of_missing`, and the panic itself, on the
translated code -/
example : ((99 : UInt8), Align.GAP) ∈ Align.needed [97, 99] [97] ∧ matOf exPart 99 Align.GAP = none := by
  decide +kernel
example : allFound = false ∨
    (GoSrc.Global 100 [97, 99] [97] exPart = none ∧ GoSrc.Local 100 [97, 99] [97] exPart = none
      ∧ GoSrc.Global 6 [97, 98] [97, 97, 98] exPart = some ([3, 1, 1], 0)
      ∧ GoSrc.Local 6 [97, 98] [97, 97, 98] exPart = some ([1, 1], 0, 1, 4)) := by decide +kernel

/-- the theorems applied: the translated code agrees with the (separately evaluated) model -/
private theorem flags (h : allFound = true) :
    GoSrc.Matrix_Get_Found = true ∧ GoSrc.decideOnStep_Found = true ∧ GoSrc.traceAlignmentSteps_Found = true
      ∧ GoSrc.Global_Found = true ∧ GoSrc.argmax_Found = true ∧ GoSrc.traceAlignmentStepsLocal_Found = true
      ∧ GoSrc.Local_Found = true := by
  simp only [allFound, Bool.and_eq_true] at h
  obtain ⟨⟨⟨⟨⟨⟨a, b⟩, c⟩, d⟩, e⟩, f⟩, g⟩ := h
  exact ⟨a, b, c, d, e, f, g⟩

example : allFound = false ∨
    GoSrc.Global 1000 [97, 98, 99] [98, 99, 100] exL
      = (Align.globalP (matOf exL) [97, 98, 99] [98, 99, 100]).map fun r => (r.1.map encStep, r.2) := by
  by_cases h : allFound = true
  · obtain ⟨hM, hD, hT, hG, hA, hTL, hL⟩ := flags h
    exact Or.inr (go_Global hG hM hD hT _ _ _ _ (by decide))
  · left; simpa using h

example : Align.globalP (matOf exL) [97, 98, 99] [98, 99, 100] = some ([.del, .mch, .mch, .ins], 2) := by
  decide +kernel

end Examples

end Bio.Props.C08Go
