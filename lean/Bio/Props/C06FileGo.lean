/-
  C06 / C07 / C11 / C18, FILE level, for the Go SOURCE TEXT of the four `File` wrappers —
  `bed.File` (formats/bed/iter.go), `sam.File`, `sam.FileHeader` (formats/sam/iter.go), `newick.File`
  (formats/newick/newick.go) — as translated on every run, statement by statement, into
  `Bio.Generated.GoSrc.bed_File`, `sam_File`, `sam_FileHeader`, `newick_File`:

      func File(file string) iter.Seq2[*T, error] {
        return func(yield func(*T, error) bool) {
          f, err := aio.Open(file)
          if err != nil { yield(nil, err); return }
          defer f.Close()
          for x, err := range Reader(f) { if !yield(x, err) { break } }
        }
      }

  `o` below stands for `aio.Open` — a PARAMETER `name ↦ (reader state, error)`: the opened (possibly
  decompressed) file as an abstract `bufio.Reader` (`BufRd`; `ByteRd` for newick), or an error; NOTHING is
  assumed about it.  `defer f.Close()` is not modelled.  The `for … range Reader(f)` loop is Go
  range-over-func: the translation runs the translated inner iterator (`bed_Reader`, `sam_Reader`,
  `sam_ReaderHeader`, `newick_Reader` — the last also threads the `Node` heap) with the loop body as its
  HISTORY consumer, tests for the Go run-time panic "range function continued iteration after function for
  loop body returned false" (`none`), and returns the log the body built.  In the vocabulary of
  `Bio.Lemmas.GoSrcFile` (namespace `FileW`): the body is `fwd yield` (`log ↦ log ++ [item]`, continue iff
  `yield` says so), the replay of an inner history is `SamRd.runG (fwd yield)`, the consumer handed to the
  inner iterator is `fwdC yield = fun h => (runG (fwd yield) h).2`.

  For EACH of the four functions, for ARBITRARY library parameters (`strconv.*`, `hex.DecodeString`), an
  ARBITRARY `aio.Open`, every file name and EVERY history consumer:

  1. `go_*_file_open_error` (C07): `aio.Open` failed — the result is exactly ONE item `(nil, that error)`
     (for newick with the heap untouched), whatever the consumer answers, for any fuel.
  2. `go_*_file_eq_reader` (C06): `aio.Open` succeeded — `File file = Reader (the opened stream)`, as
     functions of the consumer (for newick: same log AND same final heap).  Fuel as for the inner
     theorems: `text lines + 1` of the opened stream (`len + 1` for newick), so at most
     `len(remaining bytes) + 1`.
  3. `go_*_file_no_panic` (C11 / C18): with that fuel the result is never `none`; and through the nested
     layers: the inner iterator returns a history `inner` under the loop body, the run-time-panic test
     `!(run inner.dropLast).2` FAILS, the replay gives back `inner`, and that is what `File` returns.
     For `FileHeader` also for ANY fuel (`go_sam_fileHeader_no_runtime_panic`): `none` only if
     `ReaderHeader` itself ran out of fuel.
     `go_*_file_early_stop` (C18, nested `File → Reader → …` layers): the log `L` is a prefix of the log
     `I'` of the consumer that never stops (which, when the file opened, is `Reader`'s uninterrupted log);
     the consumer answered `true` on every proper prefix; an item it declined is the LAST; a consumer that
     first declines at item `k + 1` of `I'` gets exactly `k + 1` items; "at most `k` items" gets
     `I'.take k`.  These hold in BOTH cases (opened / not opened): no hypothesis on `aio.Open`.
  4. Concrete runs (`decide +kernel`): a toy `aio.Open` that knows one name.

  DEVIATIONS from the statements asked for: none is false.  Remarks:
  * (2) is stated with the fuel bound of the inner theorems, as asked.  (The equation very likely holds
    for every fuel — both sides run out of fuel together — but that needs, for each inner iterator, "the
    result depends on the consumer only through its answers on the iterator's own log", which is proved
    only for `ReaderHeader` (`SamRd.rhSpec_go_on`); with too little fuel both sides are `none`/no claim.)
  * (3) early stop, "a consumer declining at the k-th item sees exactly k": stated, as in
    `C04IterGo.go_bed_reader_early_stop`, for an item that EXISTS in the uninterrupted run
    (`k < I'.length`); when the file did not open `I'` is the single error item, about which the consumer
    is not asked — the clauses hold trivially (a consumer "declining" it still sees exactly that one item).
  * newick (2)/(3): the heap IS covered — `newick_File = newick_Reader` as pairs `(log, final heap)`
    (`FileW.readsDone_fwdC`: the `read()` calls made under the loop body are those made under `yield`).

  Guarded by the translator's `_Found` flags (see `Bio.Lemmas.GoSrc`).
-/
import Bio.Lemmas.GoSrcFile
import Bio.Props.C04IterGo
import Bio.Props.C05IterGo
import Bio.Props.C03ReaderGo
set_option linter.unusedVariables false
namespace Bio.Props.C06FileGo
open Bio Bio.GoRt Bio.Generated Bio.GoSrcLemmas Bio.GoSrcLemmas.FileW
open Bio.GoSrcLemmas.SamRd (runG OItem)

/-- every translator flag this file depends on; the non-vacuity examples below are stated as
`allFound = false ∨ …` so that a source the translator no longer recognises is not an alarm -/
def allFound : Bool :=
  GoSrc.bed_File_Found && GoSrc.sam_File_Found && GoSrc.sam_FileHeader_Found && GoSrc.newick_File_Found
    && C04IterGo.allFound && C03ReaderGo.allFound && C05IterGo.allFound

/-! ## 0. The loop body, spelled out; the generic fact -/

/-- the forwarding body; the replay `runG` of an inner history through it (what follows an item on which
the body answered `false` is ignored); the consumer handed to the inner iterator -/
example {α : Type} (y : List α → Bool) (log l : List α) (item x : α) :
    fwd y log item = (log ++ [item], y (log ++ [item]))
    ∧ runG (fwd y) [] = ([], true)
    ∧ runG (fwd y) (l ++ [x])
        = (if (runG (fwd y) l).2 = true then fwd y (runG (fwd y) l).1 x else runG (fwd y) l)
    ∧ fwdC y l = (runG (fwd y) l).2 :=
  ⟨rfl, rfl, SamRd.runG_concat _ _ _, rfl⟩

/-- THE GENERIC FACT behind (2): the forwarding range-over-func loop is the identity on iterators that
respect their consumer.  If the inner history `L` has the take-through discipline for the consumer
`fwdC y` (the iterator went on only after a `true`), then the run-time-panic test fails, the replay gives
back `L` itself, and the OUTER consumer `y` said `true` on every proper prefix of `L`; and cutting an item
list by `fwdC y` is cutting it by `y`. -/
theorem go_file_forwarding {α : Type} (y : List α → Bool) :
    (∀ L : List α, (∀ j, j + 1 < L.length → fwdC y (L.take (j + 1)) = true) →
      (runG (fwd y) L.dropLast).2 = true ∧ (runG (fwd y) L).1 = L
      ∧ (∀ j, j + 1 < L.length → y (L.take (j + 1)) = true))
    ∧ (∀ xs : List α, takeThroughH (fwdC y) [] xs = takeThroughH y [] xs) :=
  ⟨fun L h => ⟨(fwd_replay y L h).1, (fwd_replay y L h).2.1, (fwd_replay y L h).2.2.1⟩,
    takeThroughH_fwdC y⟩

/-! ## 1. bed.File -/

/-- C07: the path cannot be opened — exactly ONE item, `(nil, err)`, the consumer's verdict ignored; for
ARBITRARY parameters, consumer and fuel. -/
theorem go_bed_file_open_error : GoSrc.bed_File_Found = true →
    ∀ (o : Bytes → BufRd × GoErr) (f : Bytes → Int × GoErr) (g : Bytes → Int → Int → Int × GoErr)
      (fuel : Nat) (file : Bytes) (yield : List BedIt.GoItem → Bool), (o file).2 ≠ GoErr.nil →
    GoSrc.bed_File o f g fuel file yield = some [(none, (o file).2)] := by
  intro hFl o f g fuel file yield ho
  rw [bed_File_spec hFl, if_pos ho]

/-- C06, THE MAIN THEOREM: the path opens — `File(file)` IS `Reader(f)` on the opened stream, for EVERY
history consumer (fuel: `text lines + 1` of the opened stream). -/
theorem go_bed_file_eq_reader : GoSrc.bed_File_Found = true → GoSrc.bed_Reader_Found = true →
    GoSrc.bed_read_Found = true → GoSrc.parseLine_Found = true →
    ∀ (o : Bytes → BufRd × GoErr) (f : Bytes → Int × GoErr) (g : Bytes → Int → Int → Int × GoErr)
      (fuel : Nat) (file : Bytes), (o file).2 = GoErr.nil →
      (textLines (o file).1.ending (o file).1.rest).length + 1 ≤ fuel →
    ∀ yield : List BedIt.GoItem → Bool,
      GoSrc.bed_File o f g fuel file yield = GoSrc.bed_Reader f g fuel (o file).1 yield :=
  fun hFl hR hF hP o f g fuel file ho hfuel yield => bed_File_raw hFl hR hF hP o f g fuel file yield ho hfuel

/-- the fuel hypothesis is satisfiable for every stream: `len(remaining bytes) + 1` always suffices -/
example (r : BufRd) : (textLines r.ending r.rest).length + 1 ≤ r.rest.length + 1 :=
  C04IterGo.go_bed_reader_fuel r.ending r.rest

/-- C11 / C18: never `none` (whether or not the path opens); and when it opens, through the layers: the
inner `Reader` returns a history under the loop body, the run-time-panic test fails on it, its replay is
itself, and it is what `File` returns. -/
theorem go_bed_file_no_panic : GoSrc.bed_File_Found = true → GoSrc.bed_Reader_Found = true →
    GoSrc.bed_read_Found = true → GoSrc.parseLine_Found = true →
    ∀ (o : Bytes → BufRd × GoErr) (f : Bytes → Int × GoErr) (g : Bytes → Int → Int → Int × GoErr)
      (fuel : Nat) (file : Bytes) (yield : List BedIt.GoItem → Bool),
      ((o file).2 = GoErr.nil → (textLines (o file).1.ending (o file).1.rest).length + 1 ≤ fuel) →
    GoSrc.bed_File o f g fuel file yield ≠ none
    ∧ ((o file).2 = GoErr.nil → ∃ inner, GoSrc.bed_Reader f g fuel (o file).1 (fwdC yield) = some inner
        ∧ (runG (fwd yield) inner.dropLast).2 = true ∧ (runG (fwd yield) inner).1 = inner
        ∧ GoSrc.bed_File o f g fuel file yield = some inner) := by
  intro hFl hR hF hP o f g fuel file yield hfuel
  refine ⟨by rw [bed_File_log hFl hR hF hP o f g fuel file yield hfuel]; simp, fun ho => ?_⟩
  have h1 := (C04IterGo.go_bed_reader_log hR hF hP f g (o file).1.rest (o file).1.ending (fwdC yield) fuel
    (hfuel ho)).2
  have h2 := (C04IterGo.go_bed_reader_log hR hF hP f g (o file).1.rest (o file).1.ending yield fuel
    (hfuel ho)).2
  obtain ⟨a, b, c⟩ := after_layers yield ((BedIt.goBedItems f g (o file).1.ending (o file).1.rest).map BedIt.goItem)
  refine ⟨_, h1, a, b, ?_⟩
  rw [go_bed_file_eq_reader hFl hR hF hP o f g fuel file ho (hfuel ho), c]
  exact h2

/-- C18, nested layers `File → Reader → read`, EVERY history consumer `y`, path opened or not: `File`
returns a log `L`; with the consumer that never stops it returns `I'` (when the path opened: the
uninterrupted log of `Reader` on the opened stream); (b) `L` is a prefix of `I'`; (a) `y` answered `true`
on every proper prefix history and an item after which `y` answered `false` is the last one: nothing is
handed over after the consumer declined; (c) if `y` first declines at item `k + 1` of `I'`, the log is
exactly the first `k + 1` items; if it never declines before the last item, the log is `I'`; the stateful
"at most `k` items" (`k ≥ 1`) sees `I'.take k`. -/
theorem go_bed_file_early_stop : GoSrc.bed_File_Found = true → GoSrc.bed_Reader_Found = true →
    GoSrc.bed_read_Found = true → GoSrc.parseLine_Found = true →
    ∀ (o : Bytes → BufRd × GoErr) (f : Bytes → Int × GoErr) (g : Bytes → Int → Int → Int × GoErr)
      (fuel : Nat) (file : Bytes) (y : List BedIt.GoItem → Bool),
      ((o file).2 = GoErr.nil → (textLines (o file).1.ending (o file).1.rest).length + 1 ≤ fuel) →
    ∃ L I', GoSrc.bed_File o f g fuel file y = some L
      ∧ GoSrc.bed_File o f g fuel file (fun _ => true) = some I'
      ∧ ((o file).2 = GoErr.nil → GoSrc.bed_Reader f g fuel (o file).1 (fun _ => true) = some I')
      ∧ L <+: I'
      ∧ (∀ i, i + 1 < L.length → y (L.take (i + 1)) = true)
      ∧ (∀ i, i < L.length → y (L.take (i + 1)) = false → i + 1 = L.length)
      ∧ (∀ k, k < I'.length → (∀ j, j < k → y (I'.take (j + 1)) = true) → y (I'.take (k + 1)) = false →
          L = I'.take (k + 1) ∧ L.length = k + 1)
      ∧ ((∀ j, j + 1 < I'.length → y (I'.take (j + 1)) = true) → L = I')
      ∧ (∀ k, 1 ≤ k → GoSrc.bed_File o f g fuel file (fun l => decide (l.length < k)) = some (I'.take k)) := by
  intro hFl hR hF hP o f g fuel file y hfuel
  have hl := fun y => bed_File_log hFl hR hF hP o f g fuel file y hfuel
  obtain ⟨h0, h1, h2, h3, h4, h5, h6⟩ := takeThroughH_early_stop y (bedFileItems o f g file)
  have hall : GoSrc.bed_File o f g fuel file (fun _ => true) = some (bedFileItems o f g file) := by
    rw [hl, h0]
  refine ⟨_, _, hl y, hall, fun ho => ?_, h1, h2, h3, h4, h5, fun k hk => by rw [hl, h6 k hk]⟩
  rw [← go_bed_file_eq_reader hFl hR hF hP o f g fuel file ho (hfuel ho), hall]

/-! ## 2. sam.File -/

/-- C07: the path cannot be opened — exactly ONE item, `(nil, err)`, the consumer's verdict ignored. -/
theorem go_sam_file_open_error : GoSrc.sam_File_Found = true →
    ∀ (h : Bytes → Bytes × GoErr) (o : Bytes → BufRd × GoErr) (f : Bytes → Int × GoErr)
      (g : Bytes → Int → Bytes × GoErr) (fuel : Nat) (file : Bytes) (yield : List OItem → Bool),
      (o file).2 ≠ GoErr.nil →
    GoSrc.sam_File h o f g fuel file yield = some [(none, (o file).2)] := by
  intro hFl h o f g fuel file yield ho
  rw [sam_File_spec hFl, if_pos ho]

/-- C06: the path opens — `File(file)` IS `Reader(f)` on the opened stream, for EVERY history consumer. -/
theorem go_sam_file_eq_reader : GoSrc.sam_File_Found = true → GoSrc.sam_Reader_Found = true →
    GoSrc.sam_ReaderHeader_Found = true → GoSrc.sam_parseLine_Found = true → GoSrc.parseInts_Found = true →
    GoSrc.parseTags_Found = true → GoSrc.splitTag_Found = true →
    ∀ (h : Bytes → Bytes × GoErr) (o : Bytes → BufRd × GoErr) (f : Bytes → Int × GoErr)
      (g : Bytes → Int → Bytes × GoErr) (fuel : Nat) (file : Bytes), (o file).2 = GoErr.nil →
      (textLines (o file).1.ending (o file).1.rest).length + 1 ≤ fuel →
    ∀ yield : List OItem → Bool,
      GoSrc.sam_File h o f g fuel file yield = GoSrc.sam_Reader h f g fuel (o file).1 yield :=
  fun hFl hRd hR hF hI hT hS h o f g fuel file ho hfuel yield =>
    sam_File_raw hFl hRd hR hF hI hT hS h o f g fuel file yield ho hfuel

/-- C11 / C18: never `none`; when the path opens, through the THREE layers `File → Reader → ReaderHeader`:
the inner `Reader` (itself a range-over-func loop over `ReaderHeader`, whose own run-time-panic test fails:
`C03ReaderGo.go_sam_reader_no_runtime_panic`) returns a history under the loop body of `File`, the
run-time-panic test of `File` fails on it, its replay is itself, and it is what `File` returns. -/
theorem go_sam_file_no_panic : GoSrc.sam_File_Found = true → GoSrc.sam_Reader_Found = true →
    GoSrc.sam_ReaderHeader_Found = true → GoSrc.sam_parseLine_Found = true → GoSrc.parseInts_Found = true →
    GoSrc.parseTags_Found = true → GoSrc.splitTag_Found = true →
    ∀ (h : Bytes → Bytes × GoErr) (o : Bytes → BufRd × GoErr) (f : Bytes → Int × GoErr)
      (g : Bytes → Int → Bytes × GoErr) (fuel : Nat) (file : Bytes) (yield : List OItem → Bool),
      ((o file).2 = GoErr.nil → (textLines (o file).1.ending (o file).1.rest).length + 1 ≤ fuel) →
    GoSrc.sam_File h o f g fuel file yield ≠ none
    ∧ ((o file).2 = GoErr.nil → ∃ inner, GoSrc.sam_Reader h f g fuel (o file).1 (fwdC yield) = some inner
        ∧ (runG (fwd yield) inner.dropLast).2 = true ∧ (runG (fwd yield) inner).1 = inner
        ∧ GoSrc.sam_File h o f g fuel file yield = some inner) := by
  intro hFl hRd hR hF hI hT hS h o f g fuel file yield hfuel
  refine ⟨by rw [sam_File_log hFl hRd hR hF hI hT hS h o f g fuel file yield hfuel]; simp, fun ho => ?_⟩
  have h1 := C03ReaderGo.go_sam_reader_log hRd hR hF hI hT hS h f g (o file).1.rest (o file).1.ending
    (fwdC yield) fuel (hfuel ho)
  have h2 := C03ReaderGo.go_sam_reader_log hRd hR hF hI hT hS h f g (o file).1.rest (o file).1.ending
    yield fuel (hfuel ho)
  obtain ⟨a, b, c⟩ := after_layers yield
    ((SamIt.goItems (SamP.lineSpec h f g) (o file).1.ending (o file).1.rest).filterMap SamRd.pick)
  refine ⟨_, h1, a, b, ?_⟩
  rw [go_sam_file_eq_reader hFl hRd hR hF hI hT hS h o f g fuel file ho (hfuel ho), c]
  exact h2

/-- C18, nested layers `File → Reader → ReaderHeader`, EVERY history consumer `y`, path opened or not
(clauses as in `go_bed_file_early_stop`). -/
theorem go_sam_file_early_stop : GoSrc.sam_File_Found = true → GoSrc.sam_Reader_Found = true →
    GoSrc.sam_ReaderHeader_Found = true → GoSrc.sam_parseLine_Found = true → GoSrc.parseInts_Found = true →
    GoSrc.parseTags_Found = true → GoSrc.splitTag_Found = true →
    ∀ (h : Bytes → Bytes × GoErr) (o : Bytes → BufRd × GoErr) (f : Bytes → Int × GoErr)
      (g : Bytes → Int → Bytes × GoErr) (fuel : Nat) (file : Bytes) (y : List OItem → Bool),
      ((o file).2 = GoErr.nil → (textLines (o file).1.ending (o file).1.rest).length + 1 ≤ fuel) →
    ∃ L I', GoSrc.sam_File h o f g fuel file y = some L
      ∧ GoSrc.sam_File h o f g fuel file (fun _ => true) = some I'
      ∧ ((o file).2 = GoErr.nil → GoSrc.sam_Reader h f g fuel (o file).1 (fun _ => true) = some I')
      ∧ L <+: I'
      ∧ (∀ i, i + 1 < L.length → y (L.take (i + 1)) = true)
      ∧ (∀ i, i < L.length → y (L.take (i + 1)) = false → i + 1 = L.length)
      ∧ (∀ k, k < I'.length → (∀ j, j < k → y (I'.take (j + 1)) = true) → y (I'.take (k + 1)) = false →
          L = I'.take (k + 1) ∧ L.length = k + 1)
      ∧ ((∀ j, j + 1 < I'.length → y (I'.take (j + 1)) = true) → L = I')
      ∧ (∀ k, 1 ≤ k → GoSrc.sam_File h o f g fuel file (fun l => decide (l.length < k)) = some (I'.take k)) := by
  intro hFl hRd hR hF hI hT hS h o f g fuel file y hfuel
  have hl := fun y => sam_File_log hFl hRd hR hF hI hT hS h o f g fuel file y hfuel
  obtain ⟨h0, h1, h2, h3, h4, h5, h6⟩ := takeThroughH_early_stop y (samFileItems h o f g file)
  have hall : GoSrc.sam_File h o f g fuel file (fun _ => true) = some (samFileItems h o f g file) := by
    rw [hl, h0]
  refine ⟨_, _, hl y, hall, fun ho => ?_, h1, h2, h3, h4, h5, fun k hk => by rw [hl, h6 k hk]⟩
  rw [← go_sam_file_eq_reader hFl hRd hR hF hI hT hS h o f g fuel file ho (hfuel ho), hall]

/-! ## 3. sam.FileHeader -/

/-- C07: the path cannot be opened — exactly ONE item, `(SAMOrHeader{}, err)`, the verdict ignored. -/
theorem go_sam_fileHeader_open_error : GoSrc.sam_FileHeader_Found = true →
    ∀ (h : Bytes → Bytes × GoErr) (o : Bytes → BufRd × GoErr) (f : Bytes → Int × GoErr)
      (g : Bytes → Int → Bytes × GoErr) (fuel : Nat) (file : Bytes) (yield : List SamIt.GoItem → Bool),
      (o file).2 ≠ GoErr.nil →
    GoSrc.sam_FileHeader h o f g fuel file yield = some [((none, none), (o file).2)] := by
  intro hFl h o f g fuel file yield ho
  rw [sam_FileHeader_spec hFl, if_pos ho]

/-- C06: the path opens — `FileHeader(file)` IS `ReaderHeader(f)` on the opened stream. -/
theorem go_sam_fileHeader_eq_reader : GoSrc.sam_FileHeader_Found = true →
    GoSrc.sam_ReaderHeader_Found = true → GoSrc.sam_parseLine_Found = true → GoSrc.parseInts_Found = true →
    GoSrc.parseTags_Found = true → GoSrc.splitTag_Found = true →
    ∀ (h : Bytes → Bytes × GoErr) (o : Bytes → BufRd × GoErr) (f : Bytes → Int × GoErr)
      (g : Bytes → Int → Bytes × GoErr) (fuel : Nat) (file : Bytes), (o file).2 = GoErr.nil →
      (textLines (o file).1.ending (o file).1.rest).length + 1 ≤ fuel →
    ∀ yield : List SamIt.GoItem → Bool,
      GoSrc.sam_FileHeader h o f g fuel file yield = GoSrc.sam_ReaderHeader h f g fuel (o file).1 yield :=
  fun hFl hR hF hI hT hS h o f g fuel file ho hfuel yield =>
    sam_FileHeader_raw hFl hR hF hI hT hS h o f g fuel file yield ho hfuel

/-- For ANY fuel, reader and consumer (the path opened): whenever the inner `ReaderHeader`, run with the
loop body as its consumer, returns a history, the run-time-panic test fails and `FileHeader` returns that
very history; so `FileHeader` is `none` ONLY when `ReaderHeader` itself is (out of fuel).  (The generic
lemma `FileW.fwd_replay` on the take-through discipline of `ReaderHeader`, `SamRd.rhSpec_go_on`.) -/
theorem go_sam_fileHeader_no_runtime_panic : GoSrc.sam_FileHeader_Found = true →
    GoSrc.sam_ReaderHeader_Found = true → GoSrc.sam_parseLine_Found = true → GoSrc.parseInts_Found = true →
    GoSrc.parseTags_Found = true → GoSrc.splitTag_Found = true →
    ∀ (h : Bytes → Bytes × GoErr) (o : Bytes → BufRd × GoErr) (f : Bytes → Int × GoErr)
      (g : Bytes → Int → Bytes × GoErr) (fuel : Nat) (file : Bytes) (yield : List SamIt.GoItem → Bool),
      (o file).2 = GoErr.nil →
    (∀ inner, GoSrc.sam_ReaderHeader h f g fuel (o file).1 (fwdC yield) = some inner →
      (runG (fwd yield) inner.dropLast).2 = true
      ∧ GoSrc.sam_FileHeader h o f g fuel file yield = some inner)
    ∧ (GoSrc.sam_FileHeader h o f g fuel file yield = none
        ↔ GoSrc.sam_ReaderHeader h f g fuel (o file).1 (fwdC yield) = none) := by
  intro hFl hR hF hI hT hS h o f g fuel file yield ho
  have key := fun inner hin => sam_FileHeader_some hFl hR hF hI hT hS h o f g fuel file yield ho inner hin
  refine ⟨key, ?_⟩
  cases hin : GoSrc.sam_ReaderHeader h f g fuel (o file).1 (fwdC yield) with
  | none =>
    rw [sam_FileHeader_spec hFl, if_neg (by simpa using ho), hin]
    exact ⟨fun _ => rfl, fun _ => rfl⟩
  | some inner => rw [(key inner hin).2]

/-- C11 / C18: with `text lines + 1` fuel never `none`; through the layers as in `go_bed_file_no_panic`. -/
theorem go_sam_fileHeader_no_panic : GoSrc.sam_FileHeader_Found = true →
    GoSrc.sam_ReaderHeader_Found = true → GoSrc.sam_parseLine_Found = true → GoSrc.parseInts_Found = true →
    GoSrc.parseTags_Found = true → GoSrc.splitTag_Found = true →
    ∀ (h : Bytes → Bytes × GoErr) (o : Bytes → BufRd × GoErr) (f : Bytes → Int × GoErr)
      (g : Bytes → Int → Bytes × GoErr) (fuel : Nat) (file : Bytes) (yield : List SamIt.GoItem → Bool),
      ((o file).2 = GoErr.nil → (textLines (o file).1.ending (o file).1.rest).length + 1 ≤ fuel) →
    GoSrc.sam_FileHeader h o f g fuel file yield ≠ none
    ∧ ((o file).2 = GoErr.nil → ∃ inner,
        GoSrc.sam_ReaderHeader h f g fuel (o file).1 (fwdC yield) = some inner
        ∧ (runG (fwd yield) inner.dropLast).2 = true ∧ (runG (fwd yield) inner).1 = inner
        ∧ GoSrc.sam_FileHeader h o f g fuel file yield = some inner) := by
  intro hFl hR hF hI hT hS h o f g fuel file yield hfuel
  refine ⟨by rw [sam_FileHeader_log hFl hR hF hI hT hS h o f g fuel file yield hfuel]; simp, fun ho => ?_⟩
  have h1 := C03IterGo.go_readerHeader_raw hR hF hI hT hS h f g (o file).1.rest (o file).1.ending
    (fwdC yield) fuel (hfuel ho)
  obtain ⟨a, b, c⟩ := after_layers yield
    (SamIt.goItems (SamP.lineSpec h f g) (o file).1.ending (o file).1.rest)
  exact ⟨_, h1, a, b,
    (go_sam_fileHeader_no_runtime_panic hFl hR hF hI hT hS h o f g fuel file yield ho).1 _ h1 |>.2⟩

/-- C18, nested layers `FileHeader → ReaderHeader`, EVERY history consumer `y`, path opened or not
(clauses as in `go_bed_file_early_stop`). -/
theorem go_sam_fileHeader_early_stop : GoSrc.sam_FileHeader_Found = true →
    GoSrc.sam_ReaderHeader_Found = true → GoSrc.sam_parseLine_Found = true → GoSrc.parseInts_Found = true →
    GoSrc.parseTags_Found = true → GoSrc.splitTag_Found = true →
    ∀ (h : Bytes → Bytes × GoErr) (o : Bytes → BufRd × GoErr) (f : Bytes → Int × GoErr)
      (g : Bytes → Int → Bytes × GoErr) (fuel : Nat) (file : Bytes) (y : List SamIt.GoItem → Bool),
      ((o file).2 = GoErr.nil → (textLines (o file).1.ending (o file).1.rest).length + 1 ≤ fuel) →
    ∃ L I', GoSrc.sam_FileHeader h o f g fuel file y = some L
      ∧ GoSrc.sam_FileHeader h o f g fuel file (fun _ => true) = some I'
      ∧ ((o file).2 = GoErr.nil → GoSrc.sam_ReaderHeader h f g fuel (o file).1 (fun _ => true) = some I')
      ∧ L <+: I'
      ∧ (∀ i, i + 1 < L.length → y (L.take (i + 1)) = true)
      ∧ (∀ i, i < L.length → y (L.take (i + 1)) = false → i + 1 = L.length)
      ∧ (∀ k, k < I'.length → (∀ j, j < k → y (I'.take (j + 1)) = true) → y (I'.take (k + 1)) = false →
          L = I'.take (k + 1) ∧ L.length = k + 1)
      ∧ ((∀ j, j + 1 < I'.length → y (I'.take (j + 1)) = true) → L = I')
      ∧ (∀ k, 1 ≤ k →
          GoSrc.sam_FileHeader h o f g fuel file (fun l => decide (l.length < k)) = some (I'.take k)) := by
  intro hFl hR hF hI hT hS h o f g fuel file y hfuel
  have hl := fun y => sam_FileHeader_log hFl hR hF hI hT hS h o f g fuel file y hfuel
  obtain ⟨h0, h1, h2, h3, h4, h5, h6⟩ := takeThroughH_early_stop y (samFileHeaderItems h o f g file)
  have hall : GoSrc.sam_FileHeader h o f g fuel file (fun _ => true)
      = some (samFileHeaderItems h o f g file) := by
    rw [hl, h0]
  refine ⟨_, _, hl y, hall, fun ho => ?_, h1, h2, h3, h4, h5, fun k hk => by rw [hl, h6 k hk]⟩
  rw [← go_sam_fileHeader_eq_reader hFl hR hF hI hT hS h o f g fuel file ho (hfuel ho), hall]

/-! ## 4. newick.File (the `Node` heap is threaded through) -/

/-- C07: the path cannot be opened — exactly ONE item, `(nil, err)`, the consumer's verdict ignored, and
the heap is untouched (nothing was allocated). -/
theorem go_newick_file_open_error : GoSrc.newick_File_Found = true →
    ∀ (o : Bytes → ByteRd × GoErr) (pf : NwkRd.PF) (fuel : Nat) (heap : NwkRd.Heap) (file : Bytes)
      (yield : List NwkIt.GoItem → Bool), (o file).2 ≠ GoErr.nil →
    GoSrc.newick_File o pf fuel heap file yield = some ([(-1, (o file).2)], heap) := by
  intro hFl o pf fuel heap file yield ho
  rw [newick_File_spec hFl, if_pos ho]

/-- C06: the path opens — `File(file)` IS `Reader(f)` on the opened stream, for EVERY history consumer:
the same log AND the same final heap (the same `read()` calls were made: no allocation more, none less). -/
theorem go_newick_file_eq_reader : GoSrc.newick_File_Found = true → GoSrc.newick_Reader_Found = true →
    GoSrc.newick_read_Found = true → GoSrc.newick_nextToken_Found = true →
    GoSrc.nameFromText_Found = true → GoSrc.quoted_Found = true →
    ∀ (o : Bytes → ByteRd × GoErr) (pf : NwkRd.PF) (fuel : Nat) (heap : NwkRd.Heap) (file : Bytes),
      (o file).2 = GoErr.nil → (o file).1.rest.length + 1 ≤ fuel →
    ∀ yield : List NwkIt.GoItem → Bool,
      GoSrc.newick_File o pf fuel heap file yield = GoSrc.newick_Reader pf fuel heap (o file).1 yield :=
  fun hFl hF hR hT hN hQ o pf fuel heap file ho hfuel yield =>
    newick_File_raw hFl hF hR hT hN hQ o pf fuel heap file yield ho hfuel

/-- C11 / C18: never `none`; when the path opens, through the layers: the inner `Reader` returns a history
and a heap under the loop body, the run-time-panic test fails, the replay of the history is itself, and
`File` returns that history with that heap. -/
theorem go_newick_file_no_panic : GoSrc.newick_File_Found = true → GoSrc.newick_Reader_Found = true →
    GoSrc.newick_read_Found = true → GoSrc.newick_nextToken_Found = true →
    GoSrc.nameFromText_Found = true → GoSrc.quoted_Found = true →
    ∀ (o : Bytes → ByteRd × GoErr) (pf : NwkRd.PF) (fuel : Nat) (heap : NwkRd.Heap) (file : Bytes)
      (yield : List NwkIt.GoItem → Bool),
      ((o file).2 = GoErr.nil → (o file).1.rest.length + 1 ≤ fuel) →
    GoSrc.newick_File o pf fuel heap file yield ≠ none
    ∧ ((o file).2 = GoErr.nil → ∃ inner heap',
        GoSrc.newick_Reader pf fuel heap (o file).1 (fwdC yield) = some (inner, heap')
        ∧ (runG (fwd yield) inner.dropLast).2 = true ∧ (runG (fwd yield) inner).1 = inner
        ∧ GoSrc.newick_File o pf fuel heap file yield = some (inner, heap')) := by
  intro hFl hF hR hT hN hQ o pf fuel heap file yield hfuel
  refine ⟨by rw [newick_File_log hFl hF hR hT hN hQ o pf fuel heap file yield hfuel]; simp, fun ho => ?_⟩
  have h1 := (C05IterGo.go_newick_reader_log hF hR hT hN hQ pf heap (o file).1 (fwdC yield) fuel (hfuel ho)).1
  have h2 := (C05IterGo.go_newick_reader_log hF hR hT hN hQ pf heap (o file).1 yield fuel (hfuel ho)).1
  obtain ⟨a, b, c⟩ := after_layers yield (NwkIt.goItems pf fuel heap (o file).1)
  refine ⟨_, _, h1, a, b, ?_⟩
  rw [go_newick_file_eq_reader hFl hF hR hT hN hQ o pf fuel heap file ho (hfuel ho), h2, c,
    readsDone_fwdC yield _ [] rfl]

/-- C18, nested layers `File → Reader → read`, EVERY history consumer `y`, path opened or not: the clauses
of `go_bed_file_early_stop` about the logs; and the heap `H` handed back is the initial heap with cells
appended (cells that existed before are never written); when the consumer stops early the heap is that of
`Reader` on the opened stream under the same consumer (`go_newick_file_eq_reader`), i.e. the trees not
asked for are never allocated (`C05IterGo.go_newick_reader_heap`, `go_newick_reader_stop_at`). -/
theorem go_newick_file_early_stop : GoSrc.newick_File_Found = true → GoSrc.newick_Reader_Found = true →
    GoSrc.newick_read_Found = true → GoSrc.newick_nextToken_Found = true →
    GoSrc.nameFromText_Found = true → GoSrc.quoted_Found = true →
    ∀ (o : Bytes → ByteRd × GoErr) (pf : NwkRd.PF) (fuel : Nat) (heap : NwkRd.Heap) (file : Bytes)
      (y : List NwkIt.GoItem → Bool),
      ((o file).2 = GoErr.nil → (o file).1.rest.length + 1 ≤ fuel) →
    ∃ L H I' H', GoSrc.newick_File o pf fuel heap file y = some (L, H)
      ∧ GoSrc.newick_File o pf fuel heap file (fun _ => true) = some (I', H')
      ∧ ((o file).2 = GoErr.nil → GoSrc.newick_Reader pf fuel heap (o file).1 (fun _ => true) = some (I', H'))
      ∧ L <+: I'
      ∧ (∀ i, i + 1 < L.length → y (L.take (i + 1)) = true)
      ∧ (∀ i, i < L.length → y (L.take (i + 1)) = false → i + 1 = L.length)
      ∧ (∀ k, k < I'.length → (∀ j, j < k → y (I'.take (j + 1)) = true) → y (I'.take (k + 1)) = false →
          L = I'.take (k + 1) ∧ L.length = k + 1)
      ∧ ((∀ j, j + 1 < I'.length → y (I'.take (j + 1)) = true) → L = I')
      ∧ (∀ k, 1 ≤ k →
          (GoSrc.newick_File o pf fuel heap file (fun l => decide (l.length < k))).map (·.1) = some (I'.take k))
      ∧ (∃ ext, H = heap ++ ext) := by
  intro hFl hF hR hT hN hQ o pf fuel heap file y hfuel
  have hl := fun y => newick_File_log hFl hF hR hT hN hQ o pf fuel heap file y hfuel
  obtain ⟨h0, h1, h2, h3, h4, h5, h6⟩ := takeThroughH_early_stop y (newickFileItems o pf fuel heap file)
  have hall : GoSrc.newick_File o pf fuel heap file (fun _ => true)
      = some (newickFileItems o pf fuel heap file, newickFileHeap o pf fuel heap file (fun _ => true)) := by
    rw [hl, h0]
  refine ⟨_, _, _, _, hl y, hall, fun ho => ?_, h1, h2, h3, h4, h5,
    fun k hk => by rw [hl, h6 k hk]; rfl, ?_⟩
  · rw [← go_newick_file_eq_reader hFl hF hR hT hN hQ o pf fuel heap file ho (hfuel ho), hall]
  · by_cases ho : (o file).2 = GoErr.nil
    · obtain ⟨log, heap', D, hrun, _, _, _, hext, _⟩ :=
        C05IterGo.go_newick_reader_heap hF hR hT hN hQ pf heap (o file).1 y fuel (hfuel ho)
      have := hl y
      rw [go_newick_file_eq_reader hFl hF hR hT hN hQ o pf fuel heap file ho (hfuel ho), hrun] at this
      simp only [Option.some.injEq, Prod.mk.injEq] at this
      rw [← this.2]; exact hext
    · exact ⟨[], by simp [newickFileHeap, ho]⟩

/-! ## 5. Concrete runs of the translated closures -/

/-- the flags -/
example : allFound = false ∨ (GoSrc.bed_File_Found = true ∧ GoSrc.sam_File_Found = true
    ∧ GoSrc.sam_FileHeader_Found = true ∧ GoSrc.newick_File_Found = true ∧ C04IterGo.allFound = true
    ∧ C03ReaderGo.allFound = true ∧ C05IterGo.allFound = true) := by decide

/-- `a.bed`, `a.sam`, `a.nwk`, `x` -/
def nameBed : Bytes := [97, 46, 98, 101, 100]
def nameSam : Bytes := [97, 46, 115, 97, 109]
def nameNwk : Bytes := [97, 46, 110, 119, 107]
def nameX : Bytes := [120]

/-- a toy `aio.Open`: `a.bed` opens on the two-record text `C04IterGo.exIn2`; `a.sam` on the same text
but the source FAILS after it; any other name cannot be opened -/
def openBed (name : Bytes) : BufRd × GoErr :=
  if name = nameBed then (⟨C04IterGo.exIn2, .eof⟩, GoErr.nil)
  else if name = nameSam then (⟨C04IterGo.exIn2, .fail⟩, GoErr.nil)
  else (⟨[], .eof⟩, GoErr.other)

/-- the hypotheses of (1) and (2)–(3) on it -/
example : (openBed nameX).2 ≠ GoErr.nil ∧ (openBed nameBed).2 = GoErr.nil
    ∧ (textLines (openBed nameBed).1.ending (openBed nameBed).1.rest).length + 1 ≤ 3
    ∧ ((openBed nameX).2 = GoErr.nil →
        (textLines (openBed nameX).1.ending (openBed nameX).1.rest).length + 1 ≤ 0) := by
  decide +kernel

set_option synthInstance.maxSize 4096 in
/-- `bed.File("a.bed")` read completely: the two records — what `Reader` returns on the opened stream;
stopped after one item (a consumer that always declines; the stateful "at most one item"); the inner
`Reader` under the loop body handed over ONE item too; `"x"` cannot be opened: ONE error item, whatever the
consumer answers, even without fuel; a stream that fails after the two records: a final error item -/
example : allFound = false ∨ (
    GoSrc.bed_File openBed BedRd.atoiP BedRd.puP 3 nameBed (fun _ => true) = some [C04IterGo.r1, C04IterGo.r2]
    ∧ GoSrc.bed_Reader BedRd.atoiP BedRd.puP 3 (openBed nameBed).1 (fun _ => true)
      = some [C04IterGo.r1, C04IterGo.r2]
    ∧ GoSrc.bed_File openBed BedRd.atoiP BedRd.puP 3 nameBed (fun _ => false) = some [C04IterGo.r1]
    ∧ GoSrc.bed_File openBed BedRd.atoiP BedRd.puP 3 nameBed (fun l => decide (l.length < 1))
      = some [C04IterGo.r1]
    ∧ GoSrc.bed_Reader BedRd.atoiP BedRd.puP 3 (openBed nameBed).1 (fwdC (fun _ => false))
      = some [C04IterGo.r1]
    ∧ GoSrc.bed_File openBed BedRd.atoiP BedRd.puP 3 nameBed (fun l => decide (l.length < 2))
      = some [C04IterGo.r1, C04IterGo.r2]
    ∧ GoSrc.bed_File openBed BedRd.atoiP BedRd.puP 0 nameX (fun _ => false) = some [(none, GoErr.other)]
    ∧ GoSrc.bed_File openBed BedRd.atoiP BedRd.puP 0 nameX (fun _ => true) = some [(none, GoErr.other)]
    ∧ GoSrc.bed_File openBed BedRd.atoiP BedRd.puP 3 nameSam (fun _ => true)
      = some [C04IterGo.r1, C04IterGo.r2, (none, GoErr.other)]
    -- too little fuel for the inner loop: `none` (no claim)
    ∧ GoSrc.bed_File openBed BedRd.atoiP BedRd.puP 2 nameBed (fun _ => true) = none) := by
  decide +kernel

/-- an instance of the hypotheses of clause (c) of `go_bed_file_early_stop` with `k = 1`: go on at item 1,
decline at item 2 -/
example : (fun l : List BedIt.GoItem => decide (l.length < 2)) ([C04IterGo.r1, C04IterGo.r2].take 1) = true
    ∧ (fun l : List BedIt.GoItem => decide (l.length < 2)) ([C04IterGo.r1, C04IterGo.r2].take 2) = false := by
  decide

/-- a toy `aio.Open` for SAM: `a.sam` opens on `C03ReaderGo.exTwo` (one header line, two records) -/
def openSam (name : Bytes) : BufRd × GoErr :=
  if name = nameSam then (⟨C03ReaderGo.exTwo, .eof⟩, GoErr.nil) else (⟨[], .eof⟩, GoErr.eof)

example : (openSam nameX).2 ≠ GoErr.nil ∧ (openSam nameSam).2 = GoErr.nil
    ∧ (textLines (openSam nameSam).1.ending (openSam nameSam).1.rest).length + 1 ≤ 4 := by
  decide +kernel

set_option synthInstance.maxSize 4096 in
/-- `sam.File("a.sam")`: the two records (the header dropped by `Reader`); stopped after one; `"x"` cannot
be opened: ONE error item carrying the error of `aio.Open` (here, absurdly, `io.EOF`: it is still
reported), the verdict ignored -/
example : allFound = false ∨ (
    GoSrc.sam_File SamP.hexP openSam BedRd.atoiP (SamP.pfP Sam.exPf) 4 nameSam (fun _ => true)
      = some [(some C03ReaderGo.t1, GoErr.nil), (some C03ReaderGo.t2, GoErr.nil)]
    ∧ GoSrc.sam_File SamP.hexP openSam BedRd.atoiP (SamP.pfP Sam.exPf) 4 nameSam (fun l => decide (l.length < 1))
      = some [(some C03ReaderGo.t1, GoErr.nil)]
    ∧ GoSrc.sam_File SamP.hexP openSam BedRd.atoiP (SamP.pfP Sam.exPf) 4 nameSam (fun _ => false)
      = some [(some C03ReaderGo.t1, GoErr.nil)]
    ∧ GoSrc.sam_File SamP.hexP openSam BedRd.atoiP (SamP.pfP Sam.exPf) 0 nameX (fun _ => false)
      = some [(none, GoErr.eof)]
    ∧ GoSrc.sam_File SamP.hexP openSam BedRd.atoiP (SamP.pfP Sam.exPf) 0 nameX (fun _ => true)
      = some [(none, GoErr.eof)]) := by
  decide +kernel

set_option synthInstance.maxSize 4096 in
/-- `sam.FileHeader("a.sam")`: the header line and the two records; stopped after the header line; after
the first record; `"x"`: ONE error item -/
example : allFound = false ∨ (
    GoSrc.sam_FileHeader SamP.hexP openSam BedRd.atoiP (SamP.pfP Sam.exPf) 4 nameSam (fun _ => true)
      = some [((some C03IterGo.exHd, none), GoErr.nil), ((none, some C03ReaderGo.t1), GoErr.nil),
              ((none, some C03ReaderGo.t2), GoErr.nil)]
    ∧ GoSrc.sam_FileHeader SamP.hexP openSam BedRd.atoiP (SamP.pfP Sam.exPf) 4 nameSam (fun _ => false)
      = some [((some C03IterGo.exHd, none), GoErr.nil)]
    ∧ GoSrc.sam_FileHeader SamP.hexP openSam BedRd.atoiP (SamP.pfP Sam.exPf) 4 nameSam
        (fun l => decide (l.length < 2))
      = some [((some C03IterGo.exHd, none), GoErr.nil), ((none, some C03ReaderGo.t1), GoErr.nil)]
    ∧ GoSrc.sam_FileHeader SamP.hexP openSam BedRd.atoiP (SamP.pfP Sam.exPf) 0 nameX (fun _ => false)
      = some [((none, none), GoErr.eof)]) := by
  decide +kernel

/-- a toy `aio.Open` for newick: `a.nwk` opens on `(a,b)c;(d)e;` (`C05IterGo.exIn`) -/
def openNwk (name : Bytes) : ByteRd × GoErr :=
  if name = nameNwk then (⟨none, C05IterGo.exIn, .eof⟩, GoErr.nil) else (⟨none, [], .eof⟩, GoErr.other)

example : (openNwk nameX).2 ≠ GoErr.nil ∧ (openNwk nameNwk).2 = GoErr.nil
    ∧ (openNwk nameNwk).1.rest.length + 1 ≤ 13 := by decide +kernel

set_option synthInstance.maxSize 4096 in
/-- `newick.File("a.nwk")`: two trees and the six cells allocated (the last one by the `read()` that met
`io.EOF`); stopped after the first tree: its three cells only; `"x"`: ONE error item, the heap (here one
old cell) untouched -/
example : allFound = false ∨ (
    GoSrc.newick_File openNwk C05IterGo.exPf 13 [] nameNwk (fun _ => true)
      = some ([(0, GoErr.nil), (3, GoErr.nil)],
          [([99], none, [1, 2]), ([97], none, []), ([98], none, []), ([101], none, [4]), ([100], none, []),
           ([], none, [])])
    ∧ GoSrc.newick_File openNwk C05IterGo.exPf 13 [] nameNwk (fun l => decide (l.length < 1))
      = some ([(0, GoErr.nil)], [([99], none, [1, 2]), ([97], none, []), ([98], none, [])])
    ∧ GoSrc.newick_File openNwk C05IterGo.exPf 13 [] nameNwk (fun _ => false)
      = GoSrc.newick_Reader C05IterGo.exPf 13 [] (openNwk nameNwk).1 (fun _ => false)
    ∧ GoSrc.newick_File openNwk C05IterGo.exPf 0 [([7], none, [])] nameX (fun _ => false)
      = some ([(-1, GoErr.other)], [([7], none, [])])) := by
  decide +kernel

end Bio.Props.C06FileGo
