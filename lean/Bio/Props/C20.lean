/-
  C20 — align.SubstitutionMatrix `Symmetrical` / `GoString` and
  formats/smtext `ReadNCBI` (model: `Bio.Model.Matrix`).

  1. `symmetrical_spec_*` : `Symmetrical` panics exactly when two mirrored pairs
     carry different scores; otherwise the result holds every original pair and
     its mirror image with the original score, and nothing else.
  2. `goString_sorted_once`, `quarterText_spec` : `GoString` prints every pair
     exactly once, in ascending key order, with a score text that denotes
     exactly the score.
  3. `read_render` : `ReadNCBI` recovers exactly the table, whatever the layout
     (whitespace runs, leading/trailing whitespace, LF / CR LF, comment and empty
     lines anywhere, missing final terminator).
  4. `read_rejects_*` : a row with the wrong number of values, a non-numeric score
     or a multi-byte label makes `ReadNCBI` fail, wherever the row occurs.
-/
import Bio.Lemmas.Matrix
namespace Bio.Matrix

/-! ## 1. `Symmetrical` -/

/-- (a) `Symmetrical` panics exactly when some pair and its mirror image carry
different scores.  (Holds for every `m`; `KeyUnique m` is the map invariant.) -/
theorem symmetrical_spec_none (m : M) (_h : KeyUnique m) :
    symmetrical m = none ↔
      ∃ e ∈ m, e.1.1 ≠ e.1.2 ∧ ∃ v2, get m (flip e.1) = some v2 ∧ v2 ≠ e.2 :=
  symmetrical_eq_none_iff m

/-- (b) Otherwise the result is again a map (strictly ascending keys, hence
key-unique), and it holds exactly every original pair and its mirror image
with the original score. -/
theorem symmetrical_spec_some (m r : M) (h : KeyUnique m) (hr : symmetrical m = some r) :
    Sorted r ∧ KeyUnique r ∧
    ∀ k v, get r k = some v ↔ (get m k = some v ∨ get m (flip k) = some v) := by
  obtain ⟨rfl, hnc⟩ := symmetrical_eq_some hr
  have hs : Sorted (m.foldl symStep []) := symFold_sorted m [] (by simp [Sorted])
  refine ⟨hs, hs.keyUnique, ?_⟩
  intro k v
  constructor
  · intro hg
    rcases symFold_sound m [] k v hg with hg | hg | hg
    · exact Or.inl (get_of_mem h hg)
    · exact Or.inr (get_of_mem h hg)
    · simp [get_nil] at hg
  · intro hg
    -- all entries with key `k` or `flip k` carry the score `v`
    have hkey : ∀ e ∈ m, (e.1 = k ∨ flip e.1 = k) → e.2 = v := by
      intro e he hek
      have hge : get m e.1 = some e.2 := get_of_mem h he
      by_cases hd : e.1.1 = e.1.2
      · -- diagonal entry: `flip e.1 = e.1 = k = flip k`
        have hf : flip e.1 = e.1 := (flip_eq_self_iff e.1).2 hd
        have hk : e.1 = k := by
          rcases hek with hek | hek
          · exact hek
          · rw [← hek, hf]
        have hfk : flip k = k := by rw [← hk, hf]
        rw [hfk, ← hk] at hg
        rcases hg with hg | hg <;> (rw [hge] at hg; exact Option.some.inj hg)
      · rcases hek with hek | hek
        · rcases hg with hg | hg
          · rw [← hek, hge] at hg; exact Option.some.inj hg
          · rw [← hek] at hg; exact (hnc e he hd v hg).symm
        · have hk' : flip k = e.1 := by rw [← hek, flip_flip]
          rcases hg with hg | hg
          · rw [← hek] at hg; exact (hnc e he hd v hg).symm
          · rw [hk', hge] at hg; exact Option.some.inj hg
    apply symFold_complete m [] k v hkey
    right
    rcases hg with hg | hg
    · exact ⟨(k, v), mem_of_get hg, Or.inl rfl⟩
    · exact ⟨(flip k, v), mem_of_get hg, Or.inr (flip_flip k)⟩

/-- (b), membership form. -/
theorem symmetrical_spec_mem (m r : M) (h : KeyUnique m) (hr : symmetrical m = some r)
    (k : Key) (v : Int) : (k, v) ∈ r ↔ ((k, v) ∈ m ∨ (flip k, v) ∈ m) := by
  obtain ⟨_, hu, hg⟩ := symmetrical_spec_some m r h hr
  rw [← get_iff_mem hu, ← get_iff_mem h, ← get_iff_mem h, hg]

/-- (a) and (b) together. -/
theorem symmetrical_spec (m : M) (h : KeyUnique m) :
    (symmetrical m = none ↔
      ∃ e ∈ m, e.1.1 ≠ e.1.2 ∧ ∃ v2, get m (flip e.1) = some v2 ∧ v2 ≠ e.2) ∧
    ∀ r, symmetrical m = some r →
      Sorted r ∧ KeyUnique r ∧
      (∀ k v, get r k = some v ↔ (get m k = some v ∨ get m (flip k) = some v)) ∧
      ∀ k v, (k, v) ∈ r ↔ ((k, v) ∈ m ∨ (flip k, v) ∈ m) :=
  ⟨symmetrical_spec_none m h, fun r hr =>
    let ⟨h1, h2, h3⟩ := symmetrical_spec_some m r h hr
    ⟨h1, h2, h3, symmetrical_spec_mem m r h hr⟩⟩

/-- A symmetric-compatible matrix: `(A,C)=-3`, `(C,A)=-3`, `(A,A)=5`, `(G,*)=2`. -/
def mOK : M := [((65, 67), -3), ((67, 65), -3), ((65, 65), 5), ((71, 255), 2)]
/-- A conflicting matrix: `(A,C)=-3` but `(C,A)=1`. -/
def mBad : M := [((65, 67), -3), ((67, 65), 1)]

example : KeyUnique mOK := by decide
example : KeyUnique mBad := by decide
example : symmetrical mBad = none := by decide
example : ∃ e ∈ mBad, e.1.1 ≠ e.1.2 ∧ ∃ v2, get mBad (flip e.1) = some v2 ∧ v2 ≠ e.2 :=
  ⟨((65, 67), -3), by decide, by decide, 1, by decide, by decide⟩
example : symmetrical mOK
    = some [((65, 65), 5), ((65, 67), -3), ((67, 65), -3), ((71, 255), 2), ((255, 71), 2)] := by
  decide

/-! ## 2. `GoString` -/

/-- `GoString` prints the entries `goEntries m`, which are strictly ascending by
key (so every key occurs exactly once) and carry exactly the scores of `m`;
for a key-unique `m` they are a rearrangement of `m`. -/
theorem goString_sorted_once (qt : List Bytes) (m : M) (h : KeyUnique m) :
    goString qt m = "SubstitutionMatrix{\n".toUTF8.toList ++ (goEntries m).flatMap (fun e =>
        123 :: (qt[e.1.1.toNat]?).getD [] ++ 44 :: (qt[e.1.2.toNat]?).getD [] ++ [125, 58]
          ++ quarterText e.2 ++ [44, 10]) ++ [125, 10] ∧
    Sorted (goEntries m) ∧ KeyUnique (goEntries m) ∧
    (∀ k v, get (goEntries m) k = some v ↔ get m k = some v) ∧
    (goEntries m).Perm m ∧
    (∀ k, ((goEntries m).map (·.1)).count k = if k ∈ m.map (·.1) then 1 else 0) :=
  ⟨goString_eq qt m, goEntries_sorted m, (goEntries_sorted m).keyUnique,
    fun k v => by rw [get_goEntries h], goEntries_perm h, goEntries_count h⟩

/-- The printed score denotes exactly the score, and contains no whitespace, `,`, `}`. -/
theorem quarterText_spec (q : Int) :
    parseQuarter (quarterText q) = some q ∧ quarterText q ≠ [] ∧
    ∀ b ∈ quarterText q, isSpace b = false ∧ b ≠ 44 ∧ b ≠ 125 ∧ b ≠ 35 :=
  ⟨quarter_roundtrip q, quarterText_ne_nil q, quarterText_clean q⟩

/-- `natDigits` round-trips and has no leading zero except for `0` itself. -/
theorem natDigits_spec (n : Nat) :
    parseNat (natDigits n) = some n ∧ (n = 0 → natDigits n = [48]) ∧
    (n ≠ 0 → (natDigits n).head? ≠ some 48) :=
  ⟨parseNat_natDigits n, fun h => h ▸ natDigits_zero, natDigits_head n⟩

example : goEntries mOK = [((65, 65), 5), ((65, 67), -3), ((67, 65), -3), ((71, 255), 2)] := by
  decide
/-- `-0.75` and `1.25`. -/
example : quarterText (-3) = [45, 48, 46, 55, 53] ∧ quarterText 5 = [49, 46, 50, 53] := by
  simp [quarterText, natDigits, digitChar]

/-! ## 3. `ReadNCBI` recovers the table, whatever the layout -/

/-- A score table as it is written in the file: column label bytes, and rows of a label byte
with one score (in quarters) per column.  The label byte `*` (42) stands for the gap
symbol 255. -/
structure Table where
  cols : List UInt8
  rows : List (UInt8 × List Int)

/-- At least one column, labels are single non-space bytes other than `#` and 255, every row
has one value per column. -/
def Table.Valid (T : Table) : Prop :=
  T.cols ≠ [] ∧ (∀ c ∈ T.cols, ValidLabel c) ∧
  ∀ r ∈ T.rows, ValidLabel r.1 ∧ r.2.length = T.cols.length

instance (T : Table) : Decidable T.Valid := by unfold Table.Valid; infer_instance

/-- The token lines of the table: the header, then one line per row. -/
def Table.toks (T : Table) : List (List Bytes) := hdrToks T.cols :: T.rows.map rowToks

/-- The file: the table's token lines laid out by `L` (see `Layout`, `LineLayout`,
`renderDoc`, `renderPhys`, `renderToks` in `Bio.Lemmas.Matrix`):
* before every token line any number of comment lines (`#…`, LF-free) and empty lines,
  and more of them at the end of the file;
* on every token line optional leading and trailing runs of TAB/FF/CR/SP, and between two
  tokens a non-empty run of such bytes (a single space where `L` gives no gap);
* every line ends in LF or CR LF; with `finalEol = false` the last line has no terminator.
Whitespace-only lines are not part of the family. -/
def render (L : Layout) (T : Table) : Bytes := renderDoc L T.toks

/-- The matrix of the table: `insert (labelByte r, labelByte c) v` folded over all entries
in file order (rows, then columns; a later duplicate overwrites). -/
def matrixOf (T : Table) : M :=
  (tableEntries T.cols T.rows).foldl (fun acc e => insert e.1 e.2 acc) []

theorem Table.Valid.proper {T : Table} (hT : T.Valid) : ∀ toks ∈ T.toks, ProperToks toks := by
  intro toks ht
  rcases List.mem_cons.1 ht with rfl | ht
  · exact properToks_hdr hT.1 hT.2.1
  · obtain ⟨r, hr, rfl⟩ := List.mem_map.1 ht
    exact properToks_row (hT.2.2 r hr).1

/-- `ReadNCBI` recovers exactly the table, whatever the layout. -/
theorem read_render (L : Layout) (T : Table) (hL : L.OK) (hT : T.Valid) :
    readNCBI (render L T) = some (matrixOf T) := by
  rw [render, readNCBI_renderDoc L hL _ hT.proper, Table.toks, readToks_header hT.1]
  have := readToks_rows (T.cols.map labelByte) T.rows
    (fun r hr => by rw [List.length_map]; exact (hT.2.2 r hr).2) [] []
  rw [List.append_nil] at this
  rw [this, readToks, rows_foldl_eq, matrixOf]

/-- The canonical layout (single spaces, LF after every line, no comments) is the empty
layout description. -/
theorem read_render_canonical (T : Table) (hT : T.Valid) :
    readNCBI (render {} T) = some (matrixOf T) :=
  read_render {} T (by decide) hT

/-- What the recovered matrix is: strictly ascending keys; and when the row labels and the
column labels are distinct, it holds exactly the table's entries `(row, col) ↦ score`. -/
theorem matrixOf_spec (T : Table) (hT : T.Valid) :
    Sorted (matrixOf T) ∧
    (T.cols.Nodup → (T.rows.map (·.1)).Nodup →
      ∀ k v, get (matrixOf T) k = some v ↔
        ∃ r ∈ T.rows, ∃ cv ∈ T.cols.zip r.2, k = (labelByte r.1, labelByte cv.1) ∧ v = cv.2) := by
  refine ⟨goEntries_sorted _, ?_⟩
  intro hc hr k v
  have hc' : (T.cols.map labelByte).Nodup :=
    nodup_map_labelByte (fun b hb => (hT.2.1 b hb).2.2) hc
  have hr' : (T.rows.map (fun r => labelByte r.1)).Nodup := by
    have := nodup_map_labelByte (l := T.rows.map (·.1))
      (fun b hb => by
        obtain ⟨r, hr0, rfl⟩ := List.mem_map.1 hb
        exact (hT.2.2 r hr0).1.2.2) hr
    rw [List.map_map] at this
    exact this
  have hu := tableEntries_keyUnique T.cols T.rows hc' hr'
  have : matrixOf T = goEntries (tableEntries T.cols T.rows) := rfl
  rw [this, get_goEntries hu, get_iff_mem hu]
  simp only [tableEntries, rowEntries, List.mem_flatMap, List.mem_map, Prod.mk.injEq]
  constructor
  · rintro ⟨r, hr0, cv, hcv, h1, h2⟩
    exact ⟨r, hr0, cv, hcv, h1.symm, h2.symm⟩
  · rintro ⟨r, hr0, cv, hcv, h1, h2⟩
    exact ⟨r, hr0, cv, hcv, h1.symm, h2.symm⟩

/-! ### A 2×2 table with a `*` label and fractional scores -/

/-- Columns `A *`; rows `A 1.25 -0.75` and `* -0.75 0.5`. -/
def T0 : Table := { cols := [65, 42], rows := [(65, [5, -3]), (42, [-3, 2])] }

/-- A comment and an empty line first; header indented by TAB SP, CR LF; a comment before
the first row, tabs between its tokens, trailing blanks; second row with leading blanks and
a CR in a gap; a comment at the end without line terminator. -/
def L0 : Layout :=
  { lines := [
      { before := [([35, 32, 109, 97, 116, 114, 105, 120], .lf), ([], .crlf)], lead := [9, 32],
        gaps := [[32, 32, 32]], eol := .crlf },
      { before := [([35], .lf)], gaps := [[9], [9, 9]], trail := [32, 13] },
      { lead := [32, 32], gaps := [[32, 13, 12], [32]], eol := .crlf }],
    after := [([], .lf), ([35, 32, 101, 110, 100], .lf)],
    finalEol := false }

example : T0.Valid := by decide
example : L0.OK := by decide
example : T0.cols.Nodup ∧ (T0.rows.map (·.1)).Nodup := by decide

/-- The file `render L0 T0` is
`"# matrix\n\r\n\t A   *\r\n#\nA\t1.25\t\t-0.75 \r\n  * \r\x0c-0.75 0.5\r\n\n# end"`. -/
example : render L0 T0 =
    [35, 32, 109, 97, 116, 114, 105, 120, 10, 13, 10, 9, 32, 65, 32, 32, 32, 42, 13, 10, 35, 10,
     65, 9, 49, 46, 50, 53, 9, 9, 45, 48, 46, 55, 53, 32, 13, 10, 32, 32, 42, 32, 13, 12, 45, 48,
     46, 55, 53, 32, 48, 46, 53, 13, 10, 10, 35, 32, 101, 110, 100] := by decide +kernel
/-- The canonical file is `"A *\nA 1.25 -0.75\n* -0.75 0.5\n"`. -/
example : render {} T0 =
    [65, 32, 42, 10, 65, 32, 49, 46, 50, 53, 32, 45, 48, 46, 55, 53, 10,
     42, 32, 45, 48, 46, 55, 53, 32, 48, 46, 53, 10] := by decide +kernel
example : matrixOf T0 = [((65, 65), 5), ((65, 255), -3), ((255, 65), -3), ((255, 255), 2)] := by
  decide
example : readNCBI (render L0 T0)
    = some [((65, 65), 5), ((65, 255), -3), ((255, 65), -3), ((255, 255), 2)] := by
  decide +kernel

/-! ## 4. Bad rows are rejected, wherever they occur -/

/-- After the header and any number of good rows, a bad row (wrong number of tokens, label of
length ≠ 1, or a score token that `parseQuarter` rejects — see `BadRow`) makes `ReadNCBI`
fail, whatever follows and whatever the layout. -/
theorem read_rejects_row (L : Layout) (T : Table) (hL : L.OK) (hT : T.Valid)
    (bad : List Bytes) (hp : ProperToks bad) (hb : BadRow T.cols.length bad)
    (post : List (List Bytes)) (hpost : ∀ toks ∈ post, ProperToks toks) :
    readNCBI (renderDoc L (T.toks ++ bad :: post)) = none := by
  have hd : ∀ toks ∈ T.toks ++ bad :: post, ProperToks toks := by
    intro toks ht
    rcases List.mem_append.1 ht with ht | ht
    · exact hT.proper toks ht
    · rcases List.mem_cons.1 ht with rfl | ht
      · exact hp
      · exact hpost toks ht
  rw [readNCBI_renderDoc L hL _ hd, Table.toks, List.cons_append, readToks_header hT.1,
    readToks_rows (T.cols.map labelByte) T.rows
      (fun r hr => by rw [List.length_map]; exact (hT.2.2 r hr).2)]
  exact readToks_bad_row _ (by rw [List.length_map]; exact hb) _ _

/-- Replacing one data row of a valid table by a bad row makes `ReadNCBI` fail. -/
theorem read_rejects (L : Layout) (T : Table) (hL : L.OK) (hT : T.Valid)
    (pre post : List (UInt8 × List Int)) (r : UInt8 × List Int) (hrows : T.rows = pre ++ r :: post)
    (bad : List Bytes) (hp : ProperToks bad) (hb : BadRow T.cols.length bad) :
    readNCBI (renderDoc L (hdrToks T.cols :: (pre.map rowToks ++ bad :: post.map rowToks)))
      = none := by
  have hT' : Table.Valid ⟨T.cols, pre⟩ :=
    ⟨hT.1, hT.2.1, fun r' hr' => hT.2.2 r' (by rw [hrows]; simp [hr'])⟩
  have := read_rejects_row L ⟨T.cols, pre⟩ hL hT' bad hp hb (post.map rowToks)
    (fun toks ht => by
      obtain ⟨r', hr', rfl⟩ := List.mem_map.1 ht
      exact properToks_row (hT.2.2 r' (by rw [hrows]; simp [hr'])).1)
  exact this

/-- … by a row with the wrong number of values. -/
theorem read_rejects_count (L : Layout) (T : Table) (hL : L.OK) (hT : T.Valid)
    (pre post : List (UInt8 × List Int)) (r : UInt8 × List Int) (hrows : T.rows = pre ++ r :: post)
    (lab : UInt8) (vs : List Int) (hlab : ValidLabel lab) (hvs : vs.length ≠ T.cols.length) :
    readNCBI (renderDoc L
      (hdrToks T.cols :: (pre.map rowToks ++ rowToks (lab, vs) :: post.map rowToks))) = none :=
  read_rejects L T hL hT pre post r hrows _ (properToks_row hlab)
    (badRow_wrong_count _ _ _ (by simpa using hvs))

/-- … by a row in which one score token is replaced by a token `tok` that is not a number. -/
theorem read_rejects_score (L : Layout) (T : Table) (hL : L.OK) (hT : T.Valid)
    (pre post : List (UInt8 × List Int)) (r : UInt8 × List Int) (hrows : T.rows = pre ++ r :: post)
    (j : Nat) (hj : j < r.2.length) (tok : Bytes) (htok : IsTok tok)
    (hbad : parseQuarter tok = none) :
    readNCBI (renderDoc L (hdrToks T.cols ::
      (pre.map rowToks ++ ([r.1] :: (r.2.map quarterText).set j tok) :: post.map rowToks)))
      = none := by
  have hr := hT.2.2 r (by rw [hrows]; simp)
  refine read_rejects L T hL hT pre post r hrows _ ⟨by simp, ?_, ?_⟩
    (badRow_bad_score _ _ _ (List.mem_set (by simpa using hj) tok) hbad)
  · intro t ht
    rcases List.mem_cons.1 ht with rfl | ht
    · exact isTok_label hr.1
    · rcases List.mem_or_eq_of_mem_set ht with ht | rfl
      · obtain ⟨q, _, rfl⟩ := List.mem_map.1 ht
        exact isTok_quarterText q
      · exact htok
  · simpa using hr.1.2.1

/-- … by a row whose label is a token of two or more bytes. -/
theorem read_rejects_label (L : Layout) (T : Table) (hL : L.OK) (hT : T.Valid)
    (pre post : List (UInt8 × List Int)) (r : UInt8 × List Int) (hrows : T.rows = pre ++ r :: post)
    (lab : Bytes) (hlab : IsTok lab) (hh : lab.head? ≠ some 35) (hlen : 2 ≤ lab.length) :
    readNCBI (renderDoc L (hdrToks T.cols ::
      (pre.map rowToks ++ (lab :: r.2.map quarterText) :: post.map rowToks))) = none := by
  refine read_rejects L T hL hT pre post r hrows _ ⟨by simp, ?_, by simpa using hh⟩
    (badRow_long_label _ _ _ (by omega))
  intro t ht
  rcases List.mem_cons.1 ht with rfl | ht
  · exact hlab
  · obtain ⟨q, _, rfl⟩ := List.mem_map.1 ht
    exact isTok_quarterText q

/-- A header line with a label of two or more bytes makes `ReadNCBI` fail, whatever follows. -/
theorem read_rejects_header (L : Layout) (hL : L.OK) (hdr : List Bytes) (hp : ProperToks hdr)
    (h : ∃ t ∈ hdr, 2 ≤ t.length) (post : List (List Bytes))
    (hpost : ∀ toks ∈ post, ProperToks toks) :
    readNCBI (renderDoc L (hdr :: post)) = none := by
  have hd : ∀ toks ∈ hdr :: post, ProperToks toks := by
    intro toks ht
    rcases List.mem_cons.1 ht with rfl | ht
    · exact hp
    · exact hpost toks ht
  obtain ⟨t, ht, hl⟩ := h
  rw [readNCBI_renderDoc L hL _ hd]
  exact readToks_bad_header ⟨t, ht, by omega⟩ _ _

/-- The same on the level of scanned lines: once the header has been read (`some cs`), good
row lines `pre` followed by a non-empty, non-comment line whose fields form a bad row give
`none`, whatever follows. -/
theorem readRows_rejects (cs : List UInt8) (pre : List Bytes) (rows : List (UInt8 × List Int))
    (hrows : ∀ r ∈ rows, r.2.length = cs.length)
    (hpre : pre.filterMap lineToks = rows.map rowToks)
    (bad : Bytes) (hne : bad ≠ []) (hc : bad.head? ≠ some 35) (hb : BadRow cs.length (fields bad))
    (post : List Bytes) (m : M) :
    readRows (some cs) (pre ++ bad :: post) m = none := by
  rw [readRows_eq_readToks, List.filterMap_append, hpre, List.filterMap_cons,
    lineToks_of hne hc, readToks_rows cs rows hrows]
  exact readToks_bad_row cs hb _ _

/-! ### Instances on the 2×2 table -/

/-- `1.3`, `x`, `01`, `+1`, `1e5`, `.5` are not scores of the model. -/
example : parseQuarter [49, 46, 51] = none ∧ parseQuarter [120] = none ∧
    parseQuarter [48, 49] = none ∧ parseQuarter [43, 49] = none ∧
    parseQuarter [49, 101, 53] = none ∧ parseQuarter [46, 53] = none := by decide

example : ProperToks [[65], [49]] ∧ BadRow T0.cols.length [[65], [49]] :=
  ⟨by decide, Or.inl (by decide)⟩
example : ProperToks [[65, 66], [49], [50]] ∧ BadRow T0.cols.length [[65, 66], [49], [50]] :=
  ⟨by decide, badRow_long_label _ _ _ (by decide)⟩
example : ProperToks [[65], [49], [120]] ∧ BadRow T0.cols.length [[65], [49], [120]] :=
  ⟨by decide, badRow_bad_score _ _ _ (t := [120]) (by decide) (by decide)⟩
/-- One value too many in the second row. -/
example : readNCBI (renderDoc L0 (hdrToks T0.cols ::
    ([(65, [5, -3])].map rowToks ++ rowToks (42, [-3, 2, 7]) :: [].map rowToks))) = none := by
  decide +kernel
/-- One value missing in the first row. -/
example : readNCBI (renderDoc L0 (hdrToks T0.cols ::
    ([].map rowToks ++ rowToks (65, [5]) :: [(42, [-3, 2])].map rowToks))) = none := by
  decide +kernel
/-- `AB` as a row label. -/
example : readNCBI (renderDoc L0 (hdrToks T0.cols ::
    ([].map rowToks ++ ([65, 66] :: [5, -3].map quarterText) :: [(42, [-3, 2])].map rowToks)))
    = none := by
  decide +kernel
/-- `x` as a score. -/
example : readNCBI (renderDoc L0 (hdrToks T0.cols ::
    ([(65, [5, -3])].map rowToks ++ ([42] :: ([-3, 2].map quarterText).set 1 [120]) ::
      [].map rowToks))) = none := by
  decide +kernel
/-- `AB` as a column label. -/
example : ProperToks [[65, 66], [42]] ∧
    readNCBI (renderDoc L0 ([[65, 66], [42]] :: T0.rows.map rowToks)) = none := by
  constructor
  · decide
  · decide +kernel
example : T0.rows = [] ++ (65, [5, -3]) :: [(42, [-3, 2])] := rfl
example : IsTok [120] ∧ IsTok [65, 66] ∧ [65, 66].head? ≠ some (35 : UInt8) := by decide
/-- Hypotheses of `readRows_rejects`: lines `A 1.25 -0.75`, a comment, then `*\tx 0.5`. -/
example : [[65, 32, 49, 46, 50, 53, 32, 45, 48, 46, 55, 53], [35, 33]].filterMap lineToks
      = [((65 : UInt8), [(5 : Int), -3])].map rowToks ∧
    BadRow [(65 : UInt8), 255].length (fields [42, 9, 120, 32, 48, 46, 53]) :=
  ⟨by decide +kernel, badRow_bad_score _ _ _ (t := [120]) (by decide) (by decide)⟩
example : readRows (some [65, 255])
    ([[65, 32, 49, 46, 50, 53, 32, 45, 48, 46, 55, 53], [35, 33]] ++
      [42, 9, 120, 32, 48, 46, 53] :: [[120, 120, 120]]) [] = none := by decide

end Bio.Matrix
