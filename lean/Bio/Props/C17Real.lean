/-
  Property C17 (mash), real-valued part: `FromJaccard` / `Distance` over ℝ.
  `Distance(mh1, mh2, k) = FromJaccard(float64(inter)/float64(union), k)` with
  `(inter, union) = intersect` from `Bio.Model.Mash`; floating point rounding
  is outside the model (DESIGN.md §3), the formula is proved over ℝ.
  This is the only module that imports Mathlib analysis.
-/
import Mathlib.Analysis.SpecialFunctions.Log.Basic
import Bio.Props.C17
namespace Bio.Mash

/-- `mash.FromJaccard` over the reals. -/
noncomputable def fromJaccard (j : ℝ) (k : ℕ) : ℝ :=
  if j = 0 then 1 else min (-(Real.log (2 * j / (1 + j))) / k) 1

/-- `MinHash.Jaccard` of a receiver of size `n`: `float64(inter) / float64(union)`. -/
noncomputable def jaccard (n : ℕ) (a b : List ℕ) : ℝ :=
  ((intersect n a b).1 : ℝ) / ((intersect n a b).2 : ℝ)

/-- `mash.Distance`. -/
noncomputable def distance (n k : ℕ) (a b : List ℕ) : ℝ := fromJaccard (jaccard n a b) k

/-! ## `FromJaccard` -/

theorem fromJaccard_le_one (j : ℝ) (k : ℕ) : fromJaccard j k ≤ 1 := by
  unfold fromJaccard; split
  · exact le_refl _
  · exact min_le_right _ _

theorem fromJaccard_nonneg {j : ℝ} (k : ℕ) (h0 : 0 ≤ j) (h1 : j ≤ 1) : 0 ≤ fromJaccard j k := by
  unfold fromJaccard; split
  · exact zero_le_one
  · rename_i hj
    have hpos : 0 < j := lt_of_le_of_ne h0 (Ne.symm hj)
    apply le_min _ zero_le_one
    apply div_nonneg _ (Nat.cast_nonneg k)
    rw [neg_nonneg]
    have hle : 2 * j / (1 + j) ≤ 1 := by rw [div_le_one (by linarith)]; linarith
    exact Real.log_nonpos (by positivity) hle

/-- Range: for `j ∈ [0,1]` the distance lies in `[0,1]`. -/
theorem fromJaccard_mem_unit {j : ℝ} (k : ℕ) (h0 : 0 ≤ j) (h1 : j ≤ 1) :
    0 ≤ fromJaccard j k ∧ fromJaccard j k ≤ 1 :=
  ⟨fromJaccard_nonneg k h0 h1, fromJaccard_le_one j k⟩

theorem fromJaccard_zero (k : ℕ) : fromJaccard 0 k = 1 := by simp [fromJaccard]

theorem fromJaccard_one (k : ℕ) : fromJaccard 1 k = 0 := by
  unfold fromJaccard
  rw [if_neg one_ne_zero]
  norm_num

/-- `FromJaccard` is non-increasing in `j` on `[0, ∞)`, including the jump at 0. -/
theorem fromJaccard_antitone {j₁ j₂ : ℝ} (k : ℕ) (h0 : 0 ≤ j₁) (h : j₁ ≤ j₂) :
    fromJaccard j₂ k ≤ fromJaccard j₁ k := by
  by_cases hj : j₁ = 0
  · rw [hj, fromJaccard_zero]; exact fromJaccard_le_one _ _
  · have hpos : 0 < j₁ := lt_of_le_of_ne h0 (Ne.symm hj)
    have hpos2 : 0 < j₂ := lt_of_lt_of_le hpos h
    unfold fromJaccard
    rw [if_neg hj, if_neg (ne_of_gt hpos2)]
    apply min_le_min_right
    apply div_le_div_of_nonneg_right _ (Nat.cast_nonneg k)
    rw [neg_le_neg_iff]
    have hmono : 2 * j₁ / (1 + j₁) ≤ 2 * j₂ / (1 + j₂) := by
      rw [div_le_div_iff₀ (by linarith) (by linarith)]; nlinarith
    exact Real.log_le_log (by positivity) hmono

example : (0 : ℝ) ≤ 1 / 2 ∧ (1 / 2 : ℝ) ≤ 1 := by norm_num

/-- Not constant: strictly between the end points the value is what the formula says,
e.g. `FromJaccard(1/3, 1) = ln 2`. -/
example : fromJaccard (1 / 3) 1 = min (Real.log 2) 1 := by
  unfold fromJaccard
  rw [if_neg (by norm_num)]
  have : (2 * (1 / 3) / (1 + 1 / 3) : ℝ) = 2⁻¹ := by norm_num
  rw [this, Real.log_inv]; simp

/-! ## `Distance` on full sketches -/

/-- The Jaccard estimate of two full sketches is (shared among the `n` smallest of the union)/`n`. -/
theorem jaccard_full (n : ℕ) {a b : List ℕ} (ha : a.Pairwise (· > ·)) (hb : b.Pairwise (· > ·))
    (hla : a.length = n) (hlb : b.length = n) :
    jaccard n a b = (specInter n a b : ℝ) / (n : ℝ) := by
  have := intersect_full n ha hb hla hlb
  unfold jaccard
  rw [this.1, intersect_fst n ha hb]

theorem jaccard_mem_unit (n : ℕ) {a b : List ℕ} (ha : a.Pairwise (· > ·))
    (hb : b.Pairwise (· > ·)) (hla : a.length = n) (hlb : b.length = n) :
    0 ≤ jaccard n a b ∧ jaccard n a b ≤ 1 := by
  rw [jaccard_full n ha hb hla hlb]
  constructor
  · positivity
  · apply div_le_one_of_le₀ _ (Nat.cast_nonneg n)
    exact_mod_cast specInter_le n a b

/-- `Distance` equals the closed form with `j` = shared fraction of the `n` smallest values of
the union (1 when `j = 0`). -/
theorem distance_formula (n k : ℕ) {a b : List ℕ} (ha : a.Pairwise (· > ·))
    (hb : b.Pairwise (· > ·)) (hla : a.length = n) (hlb : b.length = n) :
    distance n k a b =
      (let j : ℝ := (specInter n a b : ℝ) / (n : ℝ)
       if j = 0 then 1 else min (-(Real.log (2 * j / (1 + j))) / k) 1) := by
  unfold distance
  rw [jaccard_full n ha hb hla hlb]
  rfl

theorem distance_symm (n k : ℕ) {a b : List ℕ} (ha : a.Pairwise (· > ·))
    (hb : b.Pairwise (· > ·)) (hla : a.length = n) (hlb : b.length = n) :
    distance n k a b = distance n k b a := by
  unfold distance jaccard
  rw [intersect_full_symm n ha hb hla hlb]

theorem distance_mem_unit (n k : ℕ) {a b : List ℕ} (ha : a.Pairwise (· > ·))
    (hb : b.Pairwise (· > ·)) (hla : a.length = n) (hlb : b.length = n) :
    0 ≤ distance n k a b ∧ distance n k a b ≤ 1 := by
  have := jaccard_mem_unit n ha hb hla hlb
  exact fromJaccard_mem_unit k this.1 this.2

/-- Identical sketches: Jaccard 1, distance 0. -/
theorem distance_self (n k : ℕ) (hn : 0 < n) {a : List ℕ} (ha : a.Pairwise (· > ·))
    (hla : a.length = n) : jaccard n a a = 1 ∧ distance n k a a = 0 := by
  have hj : jaccard n a a = 1 := by
    unfold jaccard
    rw [intersect_full_self n ha hla]
    exact div_self (by exact_mod_cast (Nat.pos_iff_ne_zero.1 hn))
  exact ⟨hj, by unfold distance; rw [hj, fromJaccard_one]⟩

/-- Identical k-mer content ⇒ identical sketches ⇒ distance 0: two inputs whose canonical
k-mers have the same hash values (as sets) and fill the sketch. -/
theorem distance_same_content (tbl : List UInt8) (h : Bytes → ℕ) (n k : ℕ) (hn : 0 < n)
    {xs ys : List Bytes} {kx ky : List Bytes} {a b : List ℕ}
    (hx : kmers tbl k xs = some kx) (hy : kmers tbl k ys = some ky)
    (hc : ∀ v, v ∈ kx.map h ↔ v ∈ ky.map h)
    (ha : sketch tbl h n k xs = some a) (hb : sketch tbl h n k ys = some b)
    (hfull : a.length = n) : distance n k a b = 0 := by
  rw [sketch_eq, hx] at ha
  rw [sketch_eq, hy] at hb
  simp only [Option.map_some, Option.some.injEq] at ha hb
  have hab : a = b := by rw [← ha, ← hb]; exact bottomN_congr hc
  subst hab
  exact (distance_self n k hn (by rw [← ha]; exact SD_bottomN _ _) hfull).2

example : ([5, 3, 1] : List ℕ).Pairwise (· > ·) ∧ ([5, 3, 1] : List ℕ).length = 3 := by decide

end Bio.Mash
