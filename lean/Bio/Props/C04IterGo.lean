/-
  C04 / C06 / C07 / C11 / C18 (BED), ITERATOR level, for the Go SOURCE TEXT of `Reader`
  (formats/bed/iter.go), as translated on every run, statement by statement, into
  `Bio.Generated.GoSrc.bed_Reader`:

      bed_Reader f g fuel ⟨x, e⟩ yield : Option (List item)

  `f`, `g` stand for `strconv.Atoi`, `strconv.ParseUint` (PARAMETERS; where something is assumed about
  them it is `AtoiModel f`, `PUModel g` / `PUCanon g`, as in `Bio.Props.C04ReadGo`); `⟨x, e⟩` is the
  `bufio.Reader` inside `newReader(r)` (the bytes `x`, then `io.EOF` or a read error; `nfields` starts at
  0); `yield` is a HISTORY consumer (asked about all items handed to it so far, the current one last; NOT
  asked about an error item, whose verdict the Go code ignores: `yield(nil, err); return`); the result is
  the LOG of the items handed over; `fuel` bounds the `for { }` loop of `Reader` and the one inside every
  `read` call (`none` = out of fuel or a panic).  It calls the translated `read`, which calls the
  translated `parseLine` (`Bio.Props.C04ReadGo`).

  An item is `GoItem = (Option BedT, GoErr)` (`*BED` and the error).  `goItem : Item Bed.Bed → GoItem`
  sends `.ok b ↦ (some (tupleOf b), nil)`, `.err ↦ (nil, err)`; `normItem` goes back
  (`normItem (goItem i) = i`).  The items of an uninterrupted run are `goBedItems f g e x`
  (`: List (Item Bed.Bed)`): exactly what `goBedDecode f g fuel x e` of `Bio.Props.C04ReadGo` (the
  translated `read`, iterated) returns — for ARBITRARY `f`, `g` — and `Bed.decodeSrc e x` under the two
  models (`go_bed_reader_items`).  In that list an error item (a malformed line, a line with a different
  field count, the read error) is the LAST item: reading stops there.

  1. `go_bed_reader_log` (ARBITRARY `f`, `g`, `yield`; fuel `text lines + 1`, at most `len x + 1`:
     `go_bed_reader_fuel`): the log is `takeThroughH yield [] (I.map goItem)` where
     `goBedDecode f g fuel x e = some I`.  `go_bed_reader_log_model`: under the models `I = Bed.decodeSrc e x`,
     and the normalised log is the log of the hand-model closure `IterH.bedReaderH e x y'`.
  2. `go_bed_reader_all` / `go_bed_reader_all_model`: the consumer that never stops sees all of `I`.
  3. `go_bed_reader_early_stop` (EVERY history consumer) / `go_bed_reader_stop_at` /
     `go_bed_reader_early_stop_norm`.
  4. `go_bed_reader_error_last`, `go_bed_reader_fail_reported`, `go_bed_reader_clean_end`.
  5. `go_bed_reader_no_panic`.
  6. `go_bed_reader_roundtrip`: the translated `Write`, then the translated `Reader`.

  Deviations from the suggested statements: none is false.  Two remarks.
  * The fuel bound is `(textLines e x).length + 1 ≤ fuel` (weaker than the `x.length < fuel` of
    `go_bed_decode`, which it follows from by `go_bed_reader_fuel`).  It cannot be dropped: with
    `fuel = 2` on the three records of `exIn3` and the consumer that never stops the result is `none`
    (example at the end).
  * (3c) "a consumer that declines at the k-th item sees exactly k items" is stated for an item that
    EXISTS in the uninterrupted run (`k < I.length`); a run with fewer items ends before the consumer can
    decline (`go_bed_reader_stop_at`: "at most `k` items" sees `I.take k`, i.e. `min k |I|` items).  When
    the k-th item is the final error item the consumer is not asked at all and the clause holds whatever
    it would have answered.

  Guarded by the translator's `_Found` flags (see `Bio.Lemmas.GoSrc`).
-/
import Bio.Lemmas.GoSrcBedIter
import Bio.Props.C04ReadGo
import Bio.Props.C18Hist
set_option linter.unusedVariables false
namespace Bio.Props.C04IterGo
open Bio Bio.GoRt Bio.Generated Bio.GoSrcLemmas Bio.GoSrcLemmas.BedRd Bio.GoSrcLemmas.BedIt

/-- every translator flag this file depends on; the non-vacuity examples below are stated as
`allFound = false ∨ …` so that a source the translator no longer recognises is not an alarm -/
def allFound : Bool :=
  GoSrc.bed_Reader_Found && GoSrc.bed_read_Found && GoSrc.parseLine_Found && GoSrc.bed_Write_Found

/-! ## The items; the fuel -/

/-- `goItem` / `normItem` on the shapes: a record; an error; `(nil, nil)` (never produced) -/
example (b : Bed.Bed) (t : BedT) (o : Option BedT) :
    goItem (.ok b) = (some (tupleOf b), GoErr.nil) ∧ goItem .err = (none, GoErr.other)
    ∧ normItem (some t, GoErr.nil) = .ok (bedOf t) ∧ normItem (o, GoErr.other) = .err
    ∧ normItem (o, GoErr.eof) = .err ∧ normItem (none, GoErr.nil) = .err
    ∧ normItem (goItem (.ok b)) = .ok b := by
  refine ⟨rfl, rfl, rfl, ?_, ?_, rfl, rfl⟩ <;> cases o <;> rfl

/-- enough fuel: one iteration per text line and one more to meet the end of the input (and, inside
`read`, one per skipped line and one more); never more than `len x + 1` -/
theorem go_bed_reader_fuel (e : Ending) (x : Bytes) : (textLines e x).length + 1 ≤ x.length + 1 :=
  BedIt.lines_le e x

/-- THE ITEMS of an uninterrupted run, `goBedItems f g e x`:
* for ARBITRARY `f`, `g` they are what iterating the translated `read` as `Reader` does returns
  (`goBedDecode` of `Bio.Props.C04ReadGo`);
* line by line (`fromLinesP P` with `P = parseSpec (reqA f) (u8G g)`, the translated `parseLine`:
  `C04ReadGo.go_parseLine_param`): no line left: nothing at `io.EOF`, one error item at a read error; a
  blank or `#` line is skipped; a line whose field count differs from the first record's: one error item,
  the end; a line `P` rejects: one error item, the end; else the record, and the field count is fixed;
* under `AtoiModel f` and `PUModel g` they are the hand model's `Bed.decodeSrc e x`. -/
theorem go_bed_reader_items : GoSrc.bed_read_Found = true → GoSrc.parseLine_Found = true →
    ∀ (f : Bytes → Int × GoErr) (g : Bytes → Int → Int → Int × GoErr) (x : Bytes) (e : Ending),
    (∀ fuel, (textLines e x).length + 1 ≤ fuel → goBedDecode f g fuel x e = some (goBedItems f g e x))
    ∧ goBedItems f g e x = fromLinesP (parseSpec (reqA f) (u8G g)) e none (textLines e x)
    ∧ (∀ (P : List Bytes → Option Bed.Bed) (nf : Option Nat) (l : Bytes) (ls : List Bytes),
        fromLinesP P e nf [] = (match e with | .eof => [] | .fail => [.err])
        ∧ fromLinesP P e nf (l :: ls) =
            if Bed.isSkipped l = true then fromLinesP P e nf ls
            else if (nf.isSome && nf != some (splitOn 9 l).length) = true then [.err]
            else match P (splitOn 9 l) with
              | none => [.err]
              | some b => .ok b :: fromLinesP P e (some (splitOn 9 l).length) ls)
    ∧ (AtoiModel f → PUModel g → goBedItems f g e x = Bed.decodeSrc e x) := by
  intro hF hP f g x e
  refine ⟨fun fuel h => goBedDecode_items hF hP f g fuel x e h, rfl, ?_, fun hf hg => goBedItems_model hf hg e x⟩
  intro P nf l ls
  exact ⟨by cases e <;> rfl, rfl⟩

/-! ## 1. The log -/

/-- THE LOG.  For ARBITRARY `strconv` functions, every input `x`, ending `e`, every history consumer `y`
and `fuel ≥ text lines + 1`: iterating the translated `read` (`goBedDecode`, `Bio.Props.C04ReadGo`) gives
an item list `I = goBedItems f g e x`, and the translated closure hands over the Go items of `I`, in
order, up to and including the first one after which `y` said stop (`takeThroughH`).  `I` ends with its
first error item, about which `y` is not asked — and `takeThroughH` does not depend on the verdict on the
last item (`takeThroughH_congr`). -/
theorem go_bed_reader_log : GoSrc.bed_Reader_Found = true → GoSrc.bed_read_Found = true →
    GoSrc.parseLine_Found = true →
    ∀ (f : Bytes → Int × GoErr) (g : Bytes → Int → Int → Int × GoErr) (x : Bytes) (e : Ending)
      (y : List GoItem → Bool) (fuel : Nat), (textLines e x).length + 1 ≤ fuel →
    goBedDecode f g fuel x e = some (goBedItems f g e x)
    ∧ GoSrc.bed_Reader f g fuel ⟨x, e⟩ y = some (takeThroughH y [] ((goBedItems f g e x).map goItem)) :=
  fun hR hF hP f g x e y fuel hfuel =>
    ⟨goBedDecode_items hF hP f g fuel x e hfuel, bed_Reader_raw hR hF hP f g fuel x e y hfuel⟩

/-- the verdict on the LAST item of the run (in particular on the error item) does not matter: consumers
that agree on every history shorter than the run produce the same log -/
theorem go_bed_reader_last_verdict_ignored : GoSrc.bed_Reader_Found = true → GoSrc.bed_read_Found = true →
    GoSrc.parseLine_Found = true →
    ∀ (f : Bytes → Int × GoErr) (g : Bytes → Int → Int → Int × GoErr) (x : Bytes) (e : Ending)
      (y y₂ : List GoItem → Bool) (fuel : Nat), (textLines e x).length + 1 ≤ fuel →
    (∀ l, l.length < (goBedItems f g e x).length → y l = y₂ l) →
    GoSrc.bed_Reader f g fuel ⟨x, e⟩ y = GoSrc.bed_Reader f g fuel ⟨x, e⟩ y₂ := by
  intro hR hF hP f g x e y y₂ fuel hfuel h
  rw [bed_Reader_raw hR hF hP f g fuel x e y hfuel, bed_Reader_raw hR hF hP f g fuel x e y₂ hfuel,
    takeThroughH_congr y y₂ _ [] (by intro l hl; apply h; simpa using hl)]

/-- Under `AtoiModel f` and `PUModel g`: the log is the hand model's item list `Bed.decodeSrc e x` (as Go
items) cut by the consumer; and for a consumer `y'` of normalised histories (`y` any Go-level consumer
that answers as `y'` does on the normalised history) the normalised log is the log of the hand-model
closure `IterH.bedReaderH e x y'` of C18. -/
theorem go_bed_reader_log_model : GoSrc.bed_Reader_Found = true → GoSrc.bed_read_Found = true →
    GoSrc.parseLine_Found = true →
    ∀ (f : Bytes → Int × GoErr) (g : Bytes → Int → Int → Int × GoErr), AtoiModel f → PUModel g →
    ∀ (x : Bytes) (e : Ending) (fuel : Nat), (textLines e x).length + 1 ≤ fuel →
    (∀ y : List GoItem → Bool,
      GoSrc.bed_Reader f g fuel ⟨x, e⟩ y = some (takeThroughH y [] ((Bed.decodeSrc e x).map goItem)))
    ∧ (∀ (y' : List (Item Bed.Bed) → Bool) (y : List GoItem → Bool), (∀ l, y l = y' (l.map normItem)) →
        (GoSrc.bed_Reader f g fuel ⟨x, e⟩ y).map (·.map normItem) = some (takeThroughH y' [] (Bed.decodeSrc e x))
        ∧ (GoSrc.bed_Reader f g fuel ⟨x, e⟩ y).map (·.map normItem) = some (IterH.bedReaderH e x y')) := by
  intro hR hF hP f g hf hg x e fuel hfuel
  have hraw := fun y => bed_Reader_raw hR hF hP f g fuel x e y hfuel
  rw [goBedItems_model hf hg] at hraw
  refine ⟨hraw, ?_⟩
  intro y' y hy
  have hy' : y = fun l => y' (l.map normItem) := funext hy
  have h1 : (GoSrc.bed_Reader f g fuel ⟨x, e⟩ y).map (·.map normItem)
      = some (takeThroughH y' [] (Bed.decodeSrc e x)) := by
    rw [hraw, hy', Option.map_some, BedIt.takeThroughH_map normItem y' _ [], map_normItem_goItem]
    rfl
  exact ⟨h1, by rw [h1, C18Hist.bedReaderH_log]⟩

/-- the consumer hypothesis of `go_bed_reader_log_model` is satisfiable: "stop at the first error" -/
example : ∀ l : List GoItem,
    (fun l : List GoItem => (l.map normItem).getLast? != some .err) l
      = (fun l' : List (Item Bed.Bed) => l'.getLast? != some .err) (l.map normItem) := fun _ => rfl

/-! ## 2. The consumer that never stops -/

/-- C04 / C06: with the consumer that never stops the log is ALL of the items — for arbitrary `f`, `g`
exactly the Go items of what iterating the translated `read` returns; normalised, `goBedDecode` itself. -/
theorem go_bed_reader_all : GoSrc.bed_Reader_Found = true → GoSrc.bed_read_Found = true →
    GoSrc.parseLine_Found = true →
    ∀ (f : Bytes → Int × GoErr) (g : Bytes → Int → Int → Int × GoErr) (x : Bytes) (e : Ending) (fuel : Nat),
    (textLines e x).length + 1 ≤ fuel →
    GoSrc.bed_Reader f g fuel ⟨x, e⟩ (fun _ => true) = some ((goBedItems f g e x).map goItem)
    ∧ (GoSrc.bed_Reader f g fuel ⟨x, e⟩ (fun _ => true)).map (·.map normItem) = goBedDecode f g fuel x e := by
  intro hR hF hP f g x e fuel hfuel
  have h1 : GoSrc.bed_Reader f g fuel ⟨x, e⟩ (fun _ => true) = some ((goBedItems f g e x).map goItem) := by
    rw [bed_Reader_raw hR hF hP f g fuel x e _ hfuel, IterH.takeThroughH_true, List.nil_append]
  refine ⟨h1, ?_⟩
  rw [h1, goBedDecode_items hF hP f g fuel x e hfuel, Option.map_some, map_normItem_goItem]

/-- Under the two models: `Reader` hands over exactly the decoded items `Bed.decodeSrc e x`. -/
theorem go_bed_reader_all_model : GoSrc.bed_Reader_Found = true → GoSrc.bed_read_Found = true →
    GoSrc.parseLine_Found = true →
    ∀ (f : Bytes → Int × GoErr) (g : Bytes → Int → Int → Int × GoErr), AtoiModel f → PUModel g →
    ∀ (x : Bytes) (e : Ending) (fuel : Nat), (textLines e x).length + 1 ≤ fuel →
    GoSrc.bed_Reader f g fuel ⟨x, e⟩ (fun _ => true) = some ((Bed.decodeSrc e x).map goItem)
    ∧ (GoSrc.bed_Reader f g fuel ⟨x, e⟩ (fun _ => true)).map (·.map normItem) = some (Bed.decodeSrc e x) := by
  intro hR hF hP f g hf hg x e fuel hfuel
  have h := go_bed_reader_all hR hF hP f g x e fuel hfuel
  rw [goBedItems_model hf hg] at h
  refine ⟨h.1, ?_⟩
  rw [h.1, Option.map_some, map_normItem_goItem]

/-! ## 3. Early stop -/

/-- C18, for ARBITRARY `f`, `g` and EVERY history consumer `y` (it may keep state): the closure returns a
log `L` with
(b) `L` is a prefix of the items `I'` of the uninterrupted run (the log of the consumer that never stops);
(a) `y` answered `true` on every proper prefix history, and an item after which `y` answered `false` is
    the last one: nothing is handed over after the consumer declined;
(c) if `y` says "go on" on the first `k` histories and declines at item `k + 1` of `I'`, the log is
    exactly the first `k + 1` items; if it never declines before the last item, the log is all of `I'`. -/
theorem go_bed_reader_early_stop : GoSrc.bed_Reader_Found = true → GoSrc.bed_read_Found = true →
    GoSrc.parseLine_Found = true →
    ∀ (f : Bytes → Int × GoErr) (g : Bytes → Int → Int → Int × GoErr) (x : Bytes) (e : Ending)
      (y : List GoItem → Bool) (fuel : Nat), (textLines e x).length + 1 ≤ fuel →
    ∃ L I', GoSrc.bed_Reader f g fuel ⟨x, e⟩ y = some L
      ∧ GoSrc.bed_Reader f g fuel ⟨x, e⟩ (fun _ => true) = some I'
      ∧ L <+: I'
      ∧ (∀ i, i + 1 < L.length → y (L.take (i + 1)) = true)
      ∧ (∀ i, i < L.length → y (L.take (i + 1)) = false → i + 1 = L.length)
      ∧ (∀ k, k < I'.length → (∀ j, j < k → y (I'.take (j + 1)) = true) → y (I'.take (k + 1)) = false →
          L = I'.take (k + 1) ∧ L.length = k + 1)
      ∧ ((∀ j, j + 1 < I'.length → y (I'.take (j + 1)) = true) → L = I') := by
  intro hR hF hP f g x e y fuel hfuel
  refine ⟨_, _, bed_Reader_raw hR hF hP f g fuel x e y hfuel,
    (go_bed_reader_all hR hF hP f g x e fuel hfuel).1, takeThroughH_prefix _ _, takeThroughH_go_on _ _,
    takeThroughH_stop _ _, ?_, ?_⟩
  · intro k hk ht hf
    have := takeThroughH_first_false y _ [] k hk (by simpa using ht) (by simpa using hf)
    rw [this]
    refine ⟨by simp, ?_⟩
    simp only [List.nil_append, List.length_take]; omega
  · intro ht
    have := takeThroughH_all_true y ((goBedItems f g e x).map goItem) [] (by simpa using ht)
    simpa using this

/-- A consumer WITH state, "at most `k` items" (`k ≥ 1`), sees exactly the first `k` items of the
uninterrupted run — `min k |I'|` items. -/
theorem go_bed_reader_stop_at : GoSrc.bed_Reader_Found = true → GoSrc.bed_read_Found = true →
    GoSrc.parseLine_Found = true →
    ∀ (f : Bytes → Int × GoErr) (g : Bytes → Int → Int → Int × GoErr) (x : Bytes) (e : Ending)
      (fuel : Nat), (textLines e x).length + 1 ≤ fuel → ∀ k, 1 ≤ k →
    GoSrc.bed_Reader f g fuel ⟨x, e⟩ (fun l => decide (l.length < k))
      = (GoSrc.bed_Reader f g fuel ⟨x, e⟩ (fun _ => true)).map (·.take k)
    ∧ (GoSrc.bed_Reader f g fuel ⟨x, e⟩ (fun l => decide (l.length < k))).map (·.length)
      = some (min k (goBedItems f g e x).length) := by
  intro hR hF hP f g x e fuel hfuel k hk
  rw [bed_Reader_raw hR hF hP f g fuel x e _ hfuel, (go_bed_reader_all hR hF hP f g x e fuel hfuel).1,
    takeThroughH_count _ k hk]
  exact ⟨rfl, by simp⟩

/-- The (a)–(c) of `C18Hist.bedReaderH_early_stop`, on the translated closure, under the two models, for a
consumer `y'` of normalised histories, about the normalised log `L'`. -/
theorem go_bed_reader_early_stop_norm : GoSrc.bed_Reader_Found = true → GoSrc.bed_read_Found = true →
    GoSrc.parseLine_Found = true →
    ∀ (f : Bytes → Int × GoErr) (g : Bytes → Int → Int → Int × GoErr), AtoiModel f → PUModel g →
    ∀ (x : Bytes) (e : Ending) (y' : List (Item Bed.Bed) → Bool) (fuel : Nat),
    (textLines e x).length + 1 ≤ fuel →
    ∃ L', (GoSrc.bed_Reader f g fuel ⟨x, e⟩ (fun l => y' (l.map normItem))).map (·.map normItem) = some L'
      ∧ L' <+: Bed.decodeSrc e x
      ∧ (∀ i, i + 1 < L'.length → y' (L'.take (i + 1)) = true)
      ∧ (∀ i, i < L'.length → y' (L'.take (i + 1)) = false → i + 1 = L'.length) := by
  intro hR hF hP f g hf hg x e y' fuel hfuel
  exact ⟨_, ((go_bed_reader_log_model hR hF hP f g hf hg x e fuel hfuel).2 y' _ (fun _ => rfl)).1,
    takeThroughH_prefix _ _, takeThroughH_go_on _ _, takeThroughH_stop _ _⟩

/-! ## 4. Errors -/

/-- C07, for ARBITRARY `f`, `g` and EVERY consumer: every item of the log is a record with a nil error or
`(nil, err)` with a non-nil error; an error item is the LAST item of the log; so there is at most one. -/
theorem go_bed_reader_error_last : GoSrc.bed_Reader_Found = true → GoSrc.bed_read_Found = true →
    GoSrc.parseLine_Found = true →
    ∀ (f : Bytes → Int × GoErr) (g : Bytes → Int → Int → Int × GoErr) (x : Bytes) (e : Ending)
      (y : List GoItem → Bool) (fuel : Nat), (textLines e x).length + 1 ≤ fuel →
    ∃ L, GoSrc.bed_Reader f g fuel ⟨x, e⟩ y = some L
      ∧ (∀ (i : Nat) (t : GoItem), L[i]? = some t → (∃ b, t = (some (tupleOf b), GoErr.nil)) ∨ t = (none, GoErr.other))
      ∧ (∀ (i : Nat) (t : GoItem), L[i]? = some t → t.2 ≠ GoErr.nil → i + 1 = L.length)
      ∧ (∀ (i j : Nat) (ti tj : GoItem), L[i]? = some ti → L[j]? = some tj → ti.2 ≠ GoErr.nil → tj.2 ≠ GoErr.nil → i = j) := by
  intro hR hF hP f g x e y fuel hfuel
  have key := fun (i : Nat) (t : GoItem) => log_error_last (goBedItems f g e x)
    (fromLinesP_err_last _ e _ none) (takeThroughH y [] ((goBedItems f g e x).map goItem))
    (takeThroughH_prefix _ _) i t
  refine ⟨_, bed_Reader_raw hR hF hP f g fuel x e y hfuel, fun i t h => (key i t h).1,
    fun i t h h' => ((key i t h).2 h').1, ?_⟩
  intro i j ti tj hi hj hi' hj'
  have h1 := ((key i ti hi).2 hi').1
  have h2 := ((key j tj hj).2 hj').1
  omega

/-- C07: a FAILING stream is reported, never mistaken for a clean end.  For arbitrary `f`, `g`, when the
source ends with a read error: the log of the consumer that never stops ends with an error item; for
EVERY consumer `y`, either the log ends with an error item or `y` itself declined the last item handed
to it. -/
theorem go_bed_reader_fail_reported : GoSrc.bed_Reader_Found = true → GoSrc.bed_read_Found = true →
    GoSrc.parseLine_Found = true →
    ∀ (f : Bytes → Int × GoErr) (g : Bytes → Int → Int → Int × GoErr) (x : Bytes) (fuel : Nat),
    (textLines .fail x).length + 1 ≤ fuel →
    (∃ L, GoSrc.bed_Reader f g fuel ⟨x, .fail⟩ (fun _ => true) = some L
      ∧ L.getLast? = some (none, GoErr.other))
    ∧ (∀ y : List GoItem → Bool, ∃ L, GoSrc.bed_Reader f g fuel ⟨x, .fail⟩ y = some L
      ∧ (L.getLast? = some (none, GoErr.other) ∨ y L = false)) := by
  intro hR hF hP f g x fuel hfuel
  have hlast : ((goBedItems f g .fail x).map goItem).getLast? = some (none, GoErr.other) := by
    rw [List.getLast?_map, goBedItems, fromLinesP_fail_last]; rfl
  refine ⟨⟨_, (go_bed_reader_all hR hF hP f g x .fail fuel hfuel).1, hlast⟩, ?_⟩
  intro y
  refine ⟨_, bed_Reader_raw hR hF hP f g fuel x .fail y hfuel, ?_⟩
  rcases takeThroughH_all_or_declined y ((goBedItems f g .fail x).map goItem) [] with h | h
  · left; rw [h, List.nil_append]; exact hlast
  · right; exact h

/-- C07, the other direction: at a clean end (`io.EOF`), if the uninterrupted run has no error item — under
the two models: if the hand model `Bed.decode x` has none, i.e. the input is well-formed — no log
contains an error item, whatever the consumer. -/
theorem go_bed_reader_clean_end : GoSrc.bed_Reader_Found = true → GoSrc.bed_read_Found = true →
    GoSrc.parseLine_Found = true →
    ∀ (f : Bytes → Int × GoErr) (g : Bytes → Int → Int → Int × GoErr) (x : Bytes) (fuel : Nat),
    (textLines .eof x).length + 1 ≤ fuel →
    ((∀ it ∈ goBedItems f g .eof x, it ≠ Item.err) ∨ (AtoiModel f ∧ PUModel g ∧ ∀ it ∈ Bed.decode x, it ≠ Item.err)) →
    ∀ y : List GoItem → Bool, ∃ L, GoSrc.bed_Reader f g fuel ⟨x, .eof⟩ y = some L
      ∧ ∀ t ∈ L, t.2 = GoErr.nil ∧ ∃ b, t = (some (tupleOf b), GoErr.nil) := by
  intro hR hF hP f g x fuel hfuel hclean y
  have hc : ∀ it ∈ goBedItems f g .eof x, it ≠ Item.err := by
    rcases hclean with h | ⟨hf, hg, h⟩
    · exact h
    · rw [goBedItems_model hf hg]; exact h
  refine ⟨_, bed_Reader_raw hR hF hP f g fuel x .eof y hfuel, ?_⟩
  intro t ht
  have hm := (takeThroughH_prefix y ((goBedItems f g .eof x).map goItem)).subset ht
  obtain ⟨it, hit, rfl⟩ := List.mem_map.1 hm
  cases it with
  | ok b => exact ⟨rfl, b, rfl⟩
  | err => exact absurd rfl (hc _ hit)

/-! ## 5. No panic -/

/-- C11: for ARBITRARY `strconv.Atoi`, `strconv.ParseUint`, every input, ending and consumer, with
`text lines + 1` fuel (e.g. `len x + 1`) the closure returns — no panic (`parseLine` and `read` never panic:
`C04ReadGo.go_parseLine_no_panic`, `go_bed_read_no_panic`), and both loops end within the fuel. -/
theorem go_bed_reader_no_panic : GoSrc.bed_Reader_Found = true → GoSrc.bed_read_Found = true →
    GoSrc.parseLine_Found = true →
    ∀ (f : Bytes → Int × GoErr) (g : Bytes → Int → Int → Int × GoErr) (x : Bytes) (e : Ending)
      (y : List GoItem → Bool) (fuel : Nat),
    ((textLines e x).length + 1 ≤ fuel → GoSrc.bed_Reader f g fuel ⟨x, e⟩ y ≠ none)
    ∧ (x.length < fuel → GoSrc.bed_Reader f g fuel ⟨x, e⟩ y ≠ none) := by
  intro hR hF hP f g x e y fuel
  have h1 : (textLines e x).length + 1 ≤ fuel → GoSrc.bed_Reader f g fuel ⟨x, e⟩ y ≠ none := by
    intro hfuel
    rw [bed_Reader_raw hR hF hP f g fuel x e y hfuel]; simp
  exact ⟨h1, fun h => h1 (by have := go_bed_reader_fuel e x; omega)⟩

/-! ## 6. Write, then read -/

/-- The translated `Write` of every record of `bs` (well-formed with `N` fields in the sense of
`Bio.Props.C04`) on a large enough writer, then the translated `Reader` on what was written, with the
consumer that never stops: exactly the records (restricted to their first `N` fields), each with a nil
error, and no error item.  Same hypotheses as `C04ReadGo.go_bed_roundtrip`: `AtoiModel` and the WEAK
`PUCanon` only. -/
theorem go_bed_reader_roundtrip : GoSrc.bed_Write_Found = true → GoSrc.bed_Reader_Found = true →
    GoSrc.bed_read_Found = true → GoSrc.parseLine_Found = true →
    ∀ (f : Bytes → Int × GoErr) (g : Bytes → Int → Int → Int × GoErr), AtoiModel f → PUCanon g →
    ∀ (N : Nat) (bs : List Bed.Bed), (∀ b ∈ bs, Bed.WF N b) →
    ∀ (k fuel : Nat), (bedEncodeAll bs).length ≤ k → (bedEncodeAll bs).length < fuel →
    ∃ w', bedWriteAll bs ⟨k, []⟩ = some (GoErr.nil, w')
      ∧ GoSrc.bed_Reader f g fuel ⟨w'.out, .eof⟩ (fun _ => true)
          = some (bs.map fun b => (some (tupleOf (Bed.truncate N b)), GoErr.nil))
      ∧ (GoSrc.bed_Reader f g fuel ⟨w'.out, .eof⟩ (fun _ => true)).map (·.map normItem)
          = some (bs.map fun b => Item.ok (Bed.truncate N b)) := by
  intro hW hR hF hP f g hf hg N bs h k fuel hk hfuel
  obtain ⟨w', hw, hdec⟩ := C04ReadGo.go_bed_roundtrip hW hF hP f g hf hg N bs h k fuel hk hfuel
  have hn : ∀ b ∈ bs, 3 ≤ b.n ∧ b.n ≤ 12 := by
    intro b hb
    obtain ⟨h3, h12, hbn, _⟩ := h b hb
    rw [hbn]; omega
  have hout : w'.out = bedEncodeAll bs := by
    rw [bedWriteAll_ok hW bs hn k [] hk] at hw
    simp only [Option.some.injEq, Prod.mk.injEq, true_and] at hw
    rw [← hw]; simp
  have hfuel' : (textLines .eof w'.out).length + 1 ≤ fuel := by
    have := go_bed_reader_fuel .eof w'.out
    rw [hout] at this ⊢; omega
  have hall := go_bed_reader_all hR hF hP f g w'.out .eof fuel hfuel'
  have hitems : goBedItems f g .eof w'.out = bs.map fun b => Item.ok (Bed.truncate N b) := by
    have := goBedDecode_items hF hP f g fuel w'.out .eof hfuel'
    rw [hdec] at this
    exact (Option.some.inj this).symm
  refine ⟨w', hw, ?_, ?_⟩
  · rw [hall.1, hitems, List.map_map]; rfl
  · rw [hall.2, hdec]

/-- Non-vacuity: the flags; records in the domain of C04; room and fuel (as for `go_bed_roundtrip`) -/
example : allFound = false ∨ (allFound = true
    ∧ (∀ b ∈ [Bed.ex12, { Bed.ex12 with name := [], blockCount := 0, blockSizes := [], blockStarts := [] }],
        Bed.WF 12 b)
    ∧ Bed.WF 3 Bed.ex3 ∧ Bed.WF 11 Bed.ex11) := by decide
example : (bedEncodeAll [Bed.ex12, { Bed.ex12 with name := [], blockCount := 0, blockSizes := [], blockStarts := [] }]).length
    ≤ 200 ∧
    (bedEncodeAll [Bed.ex12, { Bed.ex12 with name := [], blockCount := 0, blockSizes := [], blockStarts := [] }]).length
    < 201 := by decide +kernel
example : AtoiModel atoiP ∧ PUModel puP ∧ PUCanon puP := ⟨atoiP_model, puP_model, puP_model.canon⟩

/-! ## Concrete runs of the translated closure -/

/-- `a<TAB>1<TAB>2<LF>b<TAB>3<TAB>4<LF>`: two records -/
def exIn2 : Bytes := [97, 9, 49, 9, 50, 10, 98, 9, 51, 9, 52, 10]
def exB : Bed.Bed := { Bed.exA with chrom := [98], chromStart := 3, chromEnd := 4 }
def r1 : GoItem := (some (tupleOf Bed.exA), GoErr.nil)
def r2 : GoItem := (some (tupleOf exB), GoErr.nil)
/-- `a<TAB>1<TAB>2<LF>b<TAB>x<TAB>4<LF>a<TAB>1<TAB>2<LF>`: the second line is malformed; the third is never read -/
def exInBad : Bytes := [97, 9, 49, 9, 50, 10, 98, 9, 120, 9, 52, 10, 97, 9, 49, 9, 50, 10]
/-- `#c<CR><LF>`, a blank line, then three records (the last without a final newline) -/
def exIn3 : Bytes := [35, 99, 13, 10, 10, 97, 9, 49, 9, 50, 10, 98, 9, 51, 9, 52, 13, 10, 97, 9, 49, 9, 50]

/-- the fuel hypothesis on the samples -/
example : (textLines .eof exIn2).length + 1 ≤ 3 ∧ (textLines .fail exIn2).length + 1 ≤ 3
    ∧ (textLines .eof exInBad).length + 1 ≤ 4 ∧ (textLines .eof exIn3).length + 1 ≤ 6
    ∧ (textLines .fail exIn3).length + 1 ≤ 5 := by decide +kernel

/-- the two-line text read completely; the model says the same; `goBedDecode` (C04ReadGo) as well -/
example : allFound = false ∨ (
    GoSrc.bed_Reader atoiP puP 3 ⟨exIn2, .eof⟩ (fun _ => true) = some [r1, r2]
    ∧ Bed.decodeSrc .eof exIn2 = [.ok Bed.exA, .ok exB]
    ∧ goBedDecode atoiP puP 3 exIn2 .eof = some [.ok Bed.exA, .ok exB]
    ∧ goBedItems atoiP puP .eof exIn2 = [.ok Bed.exA, .ok exB]) := by
  decide +kernel

/-- the same, stopped after the first item: by a consumer that always declines, by the stateful "at most
one item", by "stop when the record's chrom is `a`"; and the hand-model closure -/
example : allFound = false ∨ (
    GoSrc.bed_Reader atoiP puP 3 ⟨exIn2, .eof⟩ (fun _ => false) = some [r1]
    ∧ GoSrc.bed_Reader atoiP puP 3 ⟨exIn2, .eof⟩ (fun l => decide (l.length < 1)) = some [r1]
    ∧ GoSrc.bed_Reader atoiP puP 3 ⟨exIn2, .eof⟩ (fun l => l.getLast? != some r1) = some [r1]
    ∧ IterH.bedReaderH .eof exIn2 (fun l => decide (l.length < 1)) = [.ok Bed.exA]
    -- an instance of the hypotheses of (c) of `go_bed_reader_early_stop` with `k = 1`: go on at item 1,
    -- decline at item 2
    ∧ (fun l : List GoItem => decide (l.length < 2)) ([r1, r2].take 1) = true
    ∧ (fun l : List GoItem => decide (l.length < 2)) ([r1, r2].take 2) = false) := by
  decide +kernel

/-- a malformed second line: the record, then ONE error item, and reading stops (the good third line is
not read); the consumer is not asked about the error item ("at most one item" would stop BEFORE it,
"at most two" sees the same as "never stop") -/
example : allFound = false ∨ (
    GoSrc.bed_Reader atoiP puP 4 ⟨exInBad, .eof⟩ (fun _ => true) = some [r1, (none, GoErr.other)]
    ∧ GoSrc.bed_Reader atoiP puP 4 ⟨exInBad, .eof⟩ (fun l => decide (l.length < 2)) = some [r1, (none, GoErr.other)]
    ∧ GoSrc.bed_Reader atoiP puP 4 ⟨exInBad, .eof⟩ (fun l => decide (l.length < 1)) = some [r1]
    ∧ Bed.decodeSrc .eof exInBad = [.ok Bed.exA, .err]
    -- a line with a fourth field after a three-field record: the same shape
    ∧ GoSrc.bed_Reader atoiP puP 3 ⟨[97, 9, 49, 9, 50, 10, 98, 9, 51, 9, 52, 9, 120, 10], .eof⟩ (fun _ => true)
      = some [r1, (none, GoErr.other)]) := by
  decide +kernel

/-- the source FAILS after these bytes: a final error item; cut inside the second line: the unterminated
tail is dropped; on the empty input: just the error item (even for a consumer that always declines: it
is not asked) -/
example : allFound = false ∨ (
    GoSrc.bed_Reader atoiP puP 3 ⟨exIn2, .fail⟩ (fun _ => true) = some [r1, r2, (none, GoErr.other)]
    ∧ GoSrc.bed_Reader atoiP puP 3 ⟨exIn2.take 9, .fail⟩ (fun _ => true) = some [r1, (none, GoErr.other)]
    ∧ GoSrc.bed_Reader atoiP puP 3 ⟨exIn2.take 9, .eof⟩ (fun _ => true) = some [r1, (none, GoErr.other)]
    ∧ GoSrc.bed_Reader atoiP puP 1 ⟨[], .fail⟩ (fun _ => false) = some [(none, GoErr.other)]
    ∧ GoSrc.bed_Reader atoiP puP 1 ⟨[], .eof⟩ (fun _ => false) = some []
    ∧ Bed.decodeSrc .fail exIn2 = [.ok Bed.exA, .ok exB, .err]
    ∧ ((GoSrc.bed_Reader atoiP puP 3 ⟨exIn2, .fail⟩ (fun _ => true)).map fun L => L.getLast?)
      = some (some ((none, GoErr.other) : GoItem))) := by
  decide +kernel

/-- a comment with CR LF, a blank line, CR LF after a record, no final newline; "at most two items";
too little fuel for the loop to reach the end of the input: `none` (no claim) — unless the consumer
stops it before -/
example : allFound = false ∨ (
    GoSrc.bed_Reader atoiP puP 6 ⟨exIn3, .eof⟩ (fun _ => true) = some [r1, r2, r1]
    ∧ GoSrc.bed_Reader atoiP puP 5 ⟨exIn3, .fail⟩ (fun _ => true) = some [r1, r2, (none, GoErr.other)]
    ∧ GoSrc.bed_Reader atoiP puP 6 ⟨exIn3, .eof⟩ (fun l => decide (l.length < 2)) = some [r1, r2]
    ∧ GoSrc.bed_Reader atoiP puP 2 ⟨exIn3, .eof⟩ (fun _ => true) = none
    ∧ GoSrc.bed_Reader atoiP puP 0 ⟨[], .eof⟩ (fun _ => true) = none
    ∧ GoSrc.bed_Reader atoiP puP 3 ⟨exIn3, .eof⟩ (fun l => decide (l.length < 1)) = some [r1]) := by
  decide +kernel

/-- `go_bed_reader_clean_end`'s hypothesis on a well-formed input, and its failure on the malformed one -/
example : (∀ it ∈ Bed.decode exIn3, it ≠ Item.err) ∧ ¬ (∀ it ∈ Bed.decode exInBad, it ≠ Item.err) := by
  decide +kernel

/-- arbitrary (absurd) `strconv` functions — every integer "parses" as 1000, every byte as 1000 (truncated
to 232): the closure still returns -/
example : allFound = false ∨ (
    (GoSrc.bed_Reader (fun _ => (1000, GoErr.nil)) (fun _ _ _ => (1000, GoErr.nil)) 4 ⟨exInBad, .eof⟩
        (fun _ => true)).map (·.map (·.2)) = some [GoErr.nil, GoErr.nil, GoErr.nil]) := by
  decide +kernel

/-- the round trip on C04's samples: the 12-field record with two blocks (odd bytes in the name, extreme
integers), twice the 3-field record, the 11-field record, through the translated `Write` and then the
translated `Reader` -/
example : allFound = false ∨ (
    ((bedWriteAll [Bed.ex12] ⟨100, []⟩).bind fun p =>
        GoSrc.bed_Reader atoiP puP 100 ⟨p.2.out, .eof⟩ (fun _ => true))
      = some [(some (tupleOf Bed.ex12), GoErr.nil)]
    ∧ ((bedWriteAll [Bed.ex3, Bed.ex3] ⟨100, []⟩).bind fun p =>
        (GoSrc.bed_Reader atoiP puP 100 ⟨p.2.out, .eof⟩ (fun _ => true)).map (·.map normItem))
      = some [Item.ok (Bed.truncate 3 Bed.ex3), Item.ok (Bed.truncate 3 Bed.ex3)]
    ∧ ((bedWriteAll [Bed.ex11] ⟨100, []⟩).bind fun p =>
        (GoSrc.bed_Reader atoiP puP 100 ⟨p.2.out, .eof⟩ (fun _ => true)).map (·.map normItem))
      = some [Item.ok (Bed.truncate 11 Bed.ex11)]) := by
  decide +kernel

end Bio.Props.C04IterGo
