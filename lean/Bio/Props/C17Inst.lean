/-
  C17 for the complement table regenerated from /repo: strand and case
  invariance hypotheses hold for it.
-/
import Bio.Props.C17
import Bio.Generated.Tables
namespace Bio.Mash

theorem generated_CompOK : CompOK Generated.compTable := by decide +kernel
theorem generated_CaseOK : CaseOK Generated.compTable := by decide +kernel

end Bio.Mash
