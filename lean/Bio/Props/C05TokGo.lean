/-
  C05 (newick tokenizer) for the Go SOURCE TEXT: `(*reader).nextToken` of formats/newick/newick.go, as
  translated on every run into `Bio.Generated.GoSrc.newick_nextToken` (the labelled `for { }` loop
  bounded by `fuel`, `r.r` as a `ByteRd` used through `ReadByte`/`UnreadByte`, `r.b` as the bytes
  written since `Reset`), IS the hand-written tokenizer `Newick.nextToken` that `readLoop` /
  `readTree` / `decodeSrc` of `Bio.Model.Newick` (and so C05, C06) are built on — for EVERY input,
  both endings of the byte source, every reader history (`last`, buffer contents).
  Guarded by the translator's `<f>_Found` flag (see `Bio.Lemmas.GoSrc`).
-/
import Bio.Lemmas.GoSrcNewickTok
namespace Bio.Props.C05TokGo
open Bio Bio.GoRt Bio.Generated Bio.GoSrcLemmas Bio.GoSrcLemmas.NwkTok

/-- every translator flag this file depends on; the non-vacuity examples below are stated as
`allFound = false ∨ …` so that a source the translator no longer recognises is not an alarm -/
def allFound : Bool := GoSrc.newick_nextToken_Found

/-- One call of the translated `nextToken` on the remaining input `x` of a source ending with `e`,
whatever `UnreadByte` would put back (`last`) and whatever the buffer holds (`rb`: it is reset),
with `x.length + 1` loop iterations available, is the model's `Newick.nextToken e x`:
a token ↦ that token, `nil`, and a reader whose remaining input is EXACTLY the model's (`last'` and
the buffer `rb'` afterwards are immaterial to the next call — `go_nextToken_delivery` — and are
given exactly by `NwkTok.sGo`, `newick_nextToken_eq`); the end of the input ↦ `("", io.EOF)` with
nothing left; an error (a read error, or `unexpected ' after …`) ↦ `""` and an error that is
neither `nil` nor `io.EOF`. -/
theorem go_nextToken : GoSrc.newick_nextToken_Found = true →
    ∀ (x : Bytes) (e : Ending) (last : Option UInt8) (rb : Bytes) (fuel : Nat), x.length + 1 ≤ fuel →
      match Newick.nextToken e x with
      | .tok t rest => ∃ last' rb', GoSrc.newick_nextToken fuel ⟨last, x, e⟩ rb
          = some (t, GoErr.nil, ⟨last', rest, e⟩, rb')
      | .eof => GoSrc.newick_nextToken fuel ⟨last, x, e⟩ rb = some ([], GoErr.eof, ⟨none, [], e⟩, [])
      | .err => ∃ last' rest' rb', GoSrc.newick_nextToken fuel ⟨last, x, e⟩ rb
          = some ([], GoErr.other, ⟨last', rest', e⟩, rb') :=
  fun hF x e last rb fuel hf =>
    newick_nextToken_model hF x e last rb fuel (Nat.le_trans (sCost_le x) hf)

/-- … and when the model finds a token, (bytes consumed) + 1 iterations are enough, however long
the rest of the input is. -/
theorem go_nextToken_tok_fuel : GoSrc.newick_nextToken_Found = true →
    ∀ (x : Bytes) (e : Ending) (t rest : Bytes), Newick.nextToken e x = .tok t rest →
    ∀ (last : Option UInt8) (rb : Bytes) (fuel : Nat), x.length - rest.length + 1 ≤ fuel →
      ∃ last' rb', GoSrc.newick_nextToken fuel ⟨last, x, e⟩ rb
        = some (t, GoErr.nil, ⟨last', rest, e⟩, rb') := by
  intro hF x e t rest h last rb fuel hf
  have hc := sCost_tight e x t rest h
  have := newick_nextToken_model hF x e last rb fuel (by omega)
  simpa only [h] using this

/-- The bound `x.length + 1` cannot be improved in general: a token of ordinary bytes that runs to
the end of the input needs one iteration per byte and one for the failed `ReadByte`; with fewer the
translation reports `none` (no claim). -/
theorem go_nextToken_fuel_sharp : GoSrc.newick_nextToken_Found = true →
    ∀ (x : Bytes), (∀ b ∈ x, Newick.isStruct b = false ∧ Newick.isWS b = false ∧ b ≠ 39) →
    ∀ (e : Ending) (last : Option UInt8) (rb : Bytes) (fuel : Nat), fuel ≤ x.length →
      GoSrc.newick_nextToken fuel ⟨last, x, e⟩ rb = none := by
  intro hF x hx e last rb fuel hf
  exact newick_nextToken_short hF fuel last x e rb (by rw [sCost_clean x hx]; omega)

/-- The translated `nextToken` never panics and never runs out of `x.length + 1` iterations. -/
theorem go_nextToken_no_panic : GoSrc.newick_nextToken_Found = true →
    ∀ (r : ByteRd) (rb : Bytes) (fuel : Nat), r.rest.length + 1 ≤ fuel →
      (GoSrc.newick_nextToken fuel r rb).isSome = true := by
  intro hF r rb fuel hf
  obtain ⟨last, x, e⟩ := r
  rw [newick_nextToken_eq hF fuel last x e rb (Nat.le_trans (sCost_le x) hf)]
  rfl

/-- Progress: whenever the translated `nextToken` returns a token (error `nil`), the token is
non-empty, the remaining input is strictly shorter, and the source's ending is unchanged — so
calling it again and again terminates.  Otherwise the returned token is empty. -/
theorem go_nextToken_progress : GoSrc.newick_nextToken_Found = true →
    ∀ (x : Bytes) (e : Ending) (last : Option UInt8) (rb : Bytes) (fuel : Nat), x.length + 1 ≤ fuel →
      ∃ t err r' rb', GoSrc.newick_nextToken fuel ⟨last, x, e⟩ rb = some (t, err, r', rb') ∧
        r'.ending = e ∧
        (err = GoErr.nil → t ≠ [] ∧ r'.rest.length < x.length ∧ Newick.nextToken e x = .tok t r'.rest) ∧
        (err ≠ GoErr.nil → t = []) := by
  intro hF x e last rb fuel hf
  have hm := go_nextToken hF x e last rb fuel hf
  cases hn : Newick.nextToken e x with
  | eof => simp only [hn] at hm; exact ⟨_, _, _, _, hm, rfl, by simp, by simp⟩
  | err =>
    simp only [hn] at hm
    obtain ⟨l', r', rb', hm⟩ := hm
    exact ⟨_, _, _, _, hm, rfl, by simp, by simp⟩
  | tok t rest =>
    simp only [hn] at hm
    obtain ⟨l', rb', hm⟩ := hm
    exact ⟨_, _, _, _, hm, rfl,
      fun _ => ⟨nextToken_tok_ne_nil e x t rest hn, Newick.nextToken_lt e x t rest hn, rfl⟩, by simp⟩

/-- The token stream: the translated `nextToken` called again and again on the same receiver (reader
state and buffer carried from call to call, as `read()` does) until it reports `io.EOF` or an error
(`NwkTok.goTokens`, at most `fuel` calls of at most `fuel` iterations each) yields exactly the
tokens obtained by iterating the model's `Newick.nextToken` (`NwkTok.modelTokens`), ended the same
way — every input, both endings. -/
theorem go_tokens : GoSrc.newick_nextToken_Found = true →
    ∀ (e : Ending) (x : Bytes) (fuel : Nat), x.length + 1 ≤ fuel →
      goTokens fuel e x = some (modelTokens e x) :=
  fun hF e x fuel hf => goLoop_model hF e fuel fuel x none [] hf hf

/-- … from any reader state: the stream only depends on the remaining input and the ending. -/
theorem go_tokens_from : GoSrc.newick_nextToken_Found = true →
    ∀ (e : Ending) (x : Bytes) (last : Option UInt8) (rb : Bytes) (calls fuel : Nat),
      x.length + 1 ≤ calls → x.length + 1 ≤ fuel →
      goLoop fuel calls ⟨last, x, e⟩ rb = some (modelTokens e x) :=
  fun hF e x last rb calls fuel hc hf => goLoop_model hF e fuel calls x last rb hc hf

/-- Delivery independence at the tokenizer: the result of a call — token, error, the reader and the
buffer afterwards, even running out of fuel — does not depend on the reader's history (what
`UnreadByte` would put back, what the buffer holds): two states with the same remaining input and
the same ending behave identically, with any fuel. -/
theorem go_nextToken_delivery : GoSrc.newick_nextToken_Found = true →
    ∀ (fuel : Nat) (x : Bytes) (e : Ending) (last₁ last₂ : Option UInt8) (rb₁ rb₂ : Bytes),
      GoSrc.newick_nextToken fuel ⟨last₁, x, e⟩ rb₁ = GoSrc.newick_nextToken fuel ⟨last₂, x, e⟩ rb₂ :=
  fun hF fuel x e l1 l2 rb1 rb2 => newick_nextToken_indep hF fuel x e l1 l2 rb1 rb2

/-! ## Non-vacuity -/

example : allFound = false ∨ (GoSrc.newick_nextToken_Found = true) := by decide

-- `'a''b':1` : a quoted name with a doubled apostrophe, ended (and the ':' put back) by ':'
example : allFound = false ∨ (
    Newick.nextToken .eof [39, 97, 39, 39, 98, 39, 58, 49] = .tok [39, 97, 39, 39, 98, 39] [58, 49]
    ∧ GoSrc.newick_nextToken 9 ⟨some 7, [39, 97, 39, 39, 98, 39, 58, 49], .eof⟩ [1, 2]
      = some ([39, 97, 39, 39, 98, 39], GoErr.nil, ⟨none, [58, 49], .eof⟩, [39, 97, 39, 39, 98, 39])
    -- (bytes consumed) + 1 = 7 iterations are enough, 6 are not
    ∧ GoSrc.newick_nextToken 7 ⟨none, [39, 97, 39, 39, 98, 39, 58, 49], .eof⟩ []
      = some ([39, 97, 39, 39, 98, 39], GoErr.nil, ⟨none, [58, 49], .eof⟩, [39, 97, 39, 39, 98, 39])
    ∧ GoSrc.newick_nextToken 6 ⟨none, [39, 97, 39, 39, 98, 39, 58, 49], .eof⟩ [] = none) := by decide

-- `ab(c` : a bare token ended by '(' (put back); then `(` itself
example : allFound = false ∨ (
    Newick.nextToken .fail [97, 98, 40, 99] = .tok [97, 98] [40, 99]
    ∧ GoSrc.newick_nextToken 5 ⟨none, [97, 98, 40, 99], .fail⟩ []
      = some ([97, 98], GoErr.nil, ⟨none, [40, 99], .fail⟩, [97, 98])
    ∧ GoSrc.newick_nextToken 3 ⟨none, [40, 99], .fail⟩ [97, 98]
      = some ([40], GoErr.nil, ⟨some 40, [99], .fail⟩, [])) := by decide

-- ` \n\t\rab cd` : whitespace skipped, the token ended by (and consuming) a space
example : allFound = false ∨ (
    Newick.nextToken .eof [32, 10, 9, 13, 97, 98, 32, 99, 100] = .tok [97, 98] [99, 100]
    ∧ GoSrc.newick_nextToken 10 ⟨none, [32, 10, 9, 13, 97, 98, 32, 99, 100], .eof⟩ []
      = some ([97, 98], GoErr.nil, ⟨some 32, [99, 100], .eof⟩, [97, 98])
    -- only whitespace: `io.EOF`
    ∧ Newick.nextToken .eof [32, 10] = .eof
    ∧ GoSrc.newick_nextToken 3 ⟨none, [32, 10], .eof⟩ [5] = some ([], GoErr.eof, ⟨none, [], .eof⟩, [])) := by
  decide

-- `'ab` then EOF inside the quoted token: the token is returned; on a failing source: the error
example : allFound = false ∨ (
    Newick.nextToken .eof [39, 97, 98] = .tok [39, 97, 98] []
    ∧ GoSrc.newick_nextToken 4 ⟨none, [39, 97, 98], .eof⟩ []
      = some ([39, 97, 98], GoErr.nil, ⟨none, [], .eof⟩, [39, 97, 98])
    ∧ Newick.nextToken .fail [39, 97, 98] = .err
    ∧ GoSrc.newick_nextToken 4 ⟨none, [39, 97, 98], .fail⟩ []
      = some ([], GoErr.other, ⟨none, [], .fail⟩, [39, 97, 98])) := by decide

-- `ab` then a read error inside the bare token; `ab'c`: the syntax error `unexpected ' after "ab"`
example : allFound = false ∨ (
    Newick.nextToken .fail [97, 98] = .err
    ∧ GoSrc.newick_nextToken 3 ⟨none, [97, 98], .fail⟩ [] = some ([], GoErr.other, ⟨none, [], .fail⟩, [97, 98])
    ∧ GoSrc.newick_nextToken 2 ⟨none, [97, 98], .fail⟩ [] = none
    ∧ Newick.nextToken .eof [97, 98, 39, 99] = .err
    ∧ GoSrc.newick_nextToken 5 ⟨none, [97, 98, 39, 99], .eof⟩ []
      = some ([], GoErr.other, ⟨some 39, [99], .eof⟩, [97, 98])) := by decide

-- hypotheses of `go_nextToken_tok_fuel` / `go_nextToken_fuel_sharp`
example : allFound = false ∨ (GoSrc.newick_nextToken_Found = true
    ∧ Newick.nextToken .eof [97, 98, 40, 99, 100, 101] = .tok [97, 98] [40, 99, 100, 101]
    ∧ [97, 98, 40, 99, 100, 101].length - [40, 99, 100, 101].length + 1 ≤ 3
    ∧ (∀ b ∈ ([97, 98, 99] : Bytes), Newick.isStruct b = false ∧ Newick.isWS b = false ∧ b ≠ 39)
    ∧ 3 ≤ ([97, 98, 99] : Bytes).length) := by decide

-- the token stream of `(a:1,'b c')x;` and of `(a 'b` on a failing source
example : allFound = false ∨ (
    goTokens 15 .eof [40, 97, 58, 49, 44, 39, 98, 32, 99, 39, 41, 120, 59, 10]
      = some ([[40], [97], [58], [49], [44], [39, 98, 32, 99, 39], [41], [120], [59]], GoErr.eof)
    ∧ goTokens 6 .fail [40, 97, 32, 39, 98] = some ([[40], [97]], GoErr.other)
    ∧ goTokens 5 .eof [97, 98, 39, 99] = some ([], GoErr.other)) := by decide

end Bio.Props.C05TokGo
