/-
  C19 — formats/newick/traverse.go: `PreOrder` / `PostOrder` (the explicit
  stack machine `trav`, run with fuel `2 * size + 1`) visit every node exactly
  once, in classic recursive pre- or post-order with children in order, and a
  consumer that returns `false` is never called again.
-/
import Bio.Lemmas.Traverse
namespace Bio.Newick

/-! ## 3. The consumer version (general statement) -/

/-- With any consumer `f`, the nodes handed over are the recursive order cut
right after the first node on which `f` returns `false`. -/
theorem traverse_log (pre : Bool) (f : Tree → Bool) (t : Tree) :
    traverse pre f t
      = takeThrough (fun x => !f x) (if pre then preRec t else postRec t) :=
  trav_start pre f t _ (by omega)

/-! ## 1. Uninterrupted run = recursive definition -/

theorem preOrder_eq (t : Tree) : preOrder t = preRec t := by
  simp [preOrder, traverse_log, takeThrough_false]

theorem postOrder_eq (t : Tree) : postOrder t = postRec t := by
  simp [postOrder, traverse_log, takeThrough_false]

/-! ## 2. Every node once; parent before (after) its descendants -/

/-- The sibling list as a list of trees. -/
def Forest.toList : Forest → List Tree
  | .nil => []
  | .cons n d k r => ⟨n, d, k⟩ :: Forest.toList r

theorem preRecF_toList (k : Forest) : preRecF k = (Forest.toList k).flatMap preRec := by
  induction k with
  | nil => rfl
  | cons n d kk r _ ih => simp [preRecF, Forest.toList, preRec, ih]

theorem postRecF_toList (k : Forest) : postRecF k = (Forest.toList k).flatMap postRec := by
  induction k with
  | nil => rfl
  | cons n d kk r _ ih => simp [postRecF, Forest.toList, postRec, ih]

/-- Pre-order: the node, then the pre-orders of its children, in order. -/
theorem preOrder_unfold (t : Tree) :
    preOrder t = t :: (Forest.toList t.kids).flatMap preOrder := by
  have h : (preOrder : Tree → List Tree) = preRec := funext preOrder_eq
  rw [h, preRec, preRecF_toList]

/-- Post-order: the post-orders of the children, in order, then the node. -/
theorem postOrder_unfold (t : Tree) :
    postOrder t = (Forest.toList t.kids).flatMap postOrder ++ [t] := by
  have h : (postOrder : Tree → List Tree) = postRec := funext postOrder_eq
  rw [h, postRec, postRecF_toList]

theorem preOrder_length (t : Tree) : (preOrder t).length = t.size := by
  simp [preOrder_eq, preRec, preRecF_length, Tree.size]; omega

theorem postOrder_length (t : Tree) : (postOrder t).length = t.size := by
  simp [postOrder_eq, postRec, postRecF_length, Tree.size]; omega

theorem preOrder_head (t : Tree) : (preOrder t).head? = some t := by
  simp [preOrder_eq, preRec]

theorem postOrder_last (t : Tree) : (postOrder t).getLast? = some t := by
  simp [postOrder_eq, postRec]

theorem preRecF_perm_postRecF (k : Forest) : (preRecF k).Perm (postRecF k) := by
  induction k with
  | nil => exact .refl _
  | cons n d kk r ih1 ih2 =>
    simp only [preRecF, postRecF]
    exact ((ih1.append ih2).cons _).trans List.perm_middle.symm

/-- Both orders hand out the same nodes the same number of times. -/
theorem preOrder_perm_postOrder (t : Tree) : (preOrder t).Perm (postOrder t) := by
  rw [preOrder_eq, postOrder_eq, preRec, postRec]
  exact ((preRecF_perm_postRecF t.kids).cons t).trans
    (List.perm_append_singleton t (postRecF t.kids)).symm

/-- Summary: both iterations hand out exactly `size` nodes, the same nodes the
same number of times, the root first (pre) resp. last (post). -/
theorem each_once (t : Tree) :
    (preOrder t).length = t.size ∧ (postOrder t).length = t.size
      ∧ (preOrder t).Perm (postOrder t)
      ∧ (preOrder t).head? = some t ∧ (postOrder t).getLast? = some t :=
  ⟨preOrder_length t, postOrder_length t, preOrder_perm_postOrder t, preOrder_head t,
    postOrder_last t⟩

/-! ## Concrete instances -/

/-- `(( c, d ) a, b) r` -/
def exTree19 : Tree :=
  ⟨[114], none,
    .cons [97] none (.cons [99] none .nil (.cons [100] none .nil .nil))
      (.cons [98] none .nil .nil)⟩

example : (preOrder exTree19).map (·.name) = [[114], [97], [99], [100], [98]] := by decide
example : (postOrder exTree19).map (·.name) = [[99], [100], [97], [98], [114]] := by decide
example : exTree19.size = 5 := by decide
/-- A consumer that stops at node `c` sees `r a c` (pre) and just `c` (post). -/
example : (traverse true (fun x => x.name != [99]) exTree19).map (·.name)
    = [[114], [97], [99]] := by decide
example : (traverse false (fun x => x.name != [99]) exTree19).map (·.name) = [[99]] := by decide
example : (traverse false (fun x => x.name != [97]) exTree19).map (·.name)
    = [[99], [100], [97]] := by decide

end Bio.Newick
