/-
  C07 (failing writers), and the writer half of C01 / C02, for the Go SOURCE TEXT of the `Write`
  methods: `(*Fasta).Write` of formats/fasta/fasta.go and `(*Fastq).Write` of formats/fastq/fastq.go,
  as translated on every run into `Bio.Generated.GoSrc.fasta_Write` / `fastq_Write` over the abstract
  writer `Bio.GoRt.Wr` (`room` = bytes it still accepts, `out` = bytes accepted so far; one
  `fmt.Fprintf` = one `wrWrite`).  For every record and every number `k` of bytes the destination
  accepts before it starts failing:

  * the translated `Write` IS the model's writer `runWriter k (writeCalls …)` of `Bio.Props.C07`:
    the `Write` calls of the model, in order, stopping at the first error;
  * it returns an error iff `k < len(text)`, the bytes accepted are the first `k` bytes of the text,
    and with enough room the output is exactly `Fasta.encode 80 r` / `Fastq.encode r`;
  * writing records into a large enough writer and reading the output back with the translated
    readers (`C01Go.goDecode`, `C02Go.goDecode`) returns the records.

  Guarded by the translator's `<f>_Found` flags (see `Bio.Lemmas.GoSrc`).
-/
import Bio.Lemmas.GoSrcIterWrite
import Bio.Props.C01Go
import Bio.Props.C02Go
import Bio.Props.C07
namespace Bio.Props.C07Go
open Bio Bio.GoRt Bio.Generated Bio.GoSrcLemmas

/-- every translator flag this file depends on; the non-vacuity examples below are stated as
`allFound = false ∨ …` so that a source the translator no longer recognises is not an alarm -/
def allFound : Bool :=
  GoSrc.fasta_Write_Found && GoSrc.fastq_Write_Found && GoSrc.fasta_read_Found && GoSrc.fastq_read_Found

/-! ## The translated `Write` is the model's sequence of `Write` calls -/

/-- FASTA: on ANY writer, the header call and one call per 80-byte line (`Fasta.writeCalls 80`), in
order, stopping at the first error (`wrWriteAll`); never a panic (the slice bounds are in range). -/
theorem go_fasta_write_calls : GoSrc.fasta_Write_Found = true → ∀ (r : Fasta.Fa) (w : Wr),
    GoSrc.fasta_Write r.name r.seq w
      = some ((wrWriteAll w (Fasta.writeCalls 80 r)).2, (wrWriteAll w (Fasta.writeCalls 80 r)).1) :=
  fun hF r w => fasta_Write_eq hF r.name r.seq w

/-- FASTQ: a single call with the whole text. -/
theorem go_fastq_write_calls : GoSrc.fastq_Write_Found = true → ∀ (r : Fastq.Fq) (w : Wr),
    GoSrc.fastq_Write r.name r.seq r.quals w
      = some ((wrWrite w (Fastq.encode r)).2, (wrWrite w (Fastq.encode r)).1) :=
  fun hF r w => fastq_Write_eq hF r.name r.seq r.quals w

/-- `wrWriteAll` on a fresh writer with room `k` is `runWriter k` of `Bio.Props.C07`: the same
bytes, an error iff `runWriter` reports one, and the room left (`0` after a failure). -/
theorem go_wrWriteAll_runWriter (k : Nat) (calls : List Bytes) :
    wrWriteAll ⟨k, []⟩ calls
      = (⟨k - (runWriter k calls).1.length, (runWriter k calls).1⟩,
         if (runWriter k calls).2 then GoErr.nil else GoErr.other) :=
  wrWriteAll_runWriter k calls

example : wrWriteAll ⟨3, []⟩ [[1, 2], [], [3, 4, 5], [6]] = (⟨0, [1, 2, 3]⟩, GoErr.other) := by decide
example : wrWriteAll ⟨7, [9]⟩ [[1, 2], [], [3, 4, 5]] = (⟨2, [9, 1, 2, 3, 4, 5]⟩, GoErr.nil) := by decide

/-- The translated FASTA `Write` on a writer that accepts `k` bytes is C07's `runWriter k` on the
model's calls at width 80. -/
theorem go_fasta_write_runWriter : GoSrc.fasta_Write_Found = true → ∀ (r : Fasta.Fa) (k : Nat),
    GoSrc.fasta_Write r.name r.seq ⟨k, []⟩
      = some (if (runWriter k (Fasta.writeCalls 80 r)).2 then GoErr.nil else GoErr.other,
          ⟨k - (runWriter k (Fasta.writeCalls 80 r)).1.length, (runWriter k (Fasta.writeCalls 80 r)).1⟩) := by
  intro hF r k
  rw [fasta_Write_eq hF, wrWriteAll_runWriter]

theorem go_fastq_write_runWriter : GoSrc.fastq_Write_Found = true → ∀ (r : Fastq.Fq) (k : Nat),
    GoSrc.fastq_Write r.name r.seq r.quals ⟨k, []⟩
      = some (if (runWriter k [Fastq.encode r]).2 then GoErr.nil else GoErr.other,
          ⟨k - (runWriter k [Fastq.encode r]).1.length, (runWriter k [Fastq.encode r]).1⟩) := by
  intro hF r k
  rw [fastq_Write_eq hF, ← wrWriteAll_singleton, wrWriteAll_runWriter]

/-! ## C07: the destination starts failing after `k` bytes -/

/-- FASTA: an error iff `k < len(text)`; the bytes accepted are the first `k` bytes of the text. -/
theorem go_fasta_write_fault : GoSrc.fasta_Write_Found = true → ∀ (r : Fasta.Fa) (k : Nat),
    ∃ err w', GoSrc.fasta_Write r.name r.seq ⟨k, []⟩ = some (err, w')
      ∧ (err ≠ GoErr.nil ↔ k < (Fasta.encode 80 r).length)
      ∧ w'.out = (Fasta.encode 80 r).take k := by
  intro hF r k
  refine ⟨_, _, fasta_Write_fault hF r.name r.seq k [], ?_, by simp⟩
  by_cases h : (Fasta.encode 80 r).length ≤ k
  · simp only [h, if_true]; constructor
    · intro h'; exact absurd rfl h'
    · intro h'; omega
  · simp only [h, if_false]; constructor
    · intro _; omega
    · intro _ h'; cases h'

/-- FASTQ: the same. -/
theorem go_fastq_write_fault : GoSrc.fastq_Write_Found = true → ∀ (r : Fastq.Fq) (k : Nat),
    ∃ err w', GoSrc.fastq_Write r.name r.seq r.quals ⟨k, []⟩ = some (err, w')
      ∧ (err ≠ GoErr.nil ↔ k < (Fastq.encode r).length)
      ∧ w'.out = (Fastq.encode r).take k := by
  intro hF r k
  refine ⟨_, _, fastq_Write_fault hF r.name r.seq r.quals k [], ?_, by simp⟩
  by_cases h : (Fastq.encode r).length ≤ k
  · simp only [h, if_true]; constructor
    · intro h'; exact absurd rfl h'
    · intro h'; omega
  · simp only [h, if_false]; constructor
    · intro _; omega
    · intro _ h'; cases h'

/-- The exact result, on a writer that has already accepted `o`: the error value, the room left and
the bytes accepted. -/
theorem go_fasta_write_exact : GoSrc.fasta_Write_Found = true → ∀ (r : Fasta.Fa) (k : Nat) (o : Bytes),
    GoSrc.fasta_Write r.name r.seq ⟨k, o⟩
      = some (if (Fasta.encode 80 r).length ≤ k then GoErr.nil else GoErr.other,
          ⟨k - ((Fasta.encode 80 r).take k).length, o ++ (Fasta.encode 80 r).take k⟩) :=
  fun hF r k o => fasta_Write_fault hF r.name r.seq k o

theorem go_fastq_write_exact : GoSrc.fastq_Write_Found = true → ∀ (r : Fastq.Fq) (k : Nat) (o : Bytes),
    GoSrc.fastq_Write r.name r.seq r.quals ⟨k, o⟩
      = some (if (Fastq.encode r).length ≤ k then GoErr.nil else GoErr.other,
          ⟨k - ((Fastq.encode r).take k).length, o ++ (Fastq.encode r).take k⟩) :=
  fun hF r k o => fastq_Write_fault hF r.name r.seq r.quals k o

example : allFound = false ∨ (GoSrc.fasta_Write_Found = true ∧ GoSrc.fastq_Write_Found = true) := by decide
-- the line width in the source text is the one observed on the running code
example : allFound = false ∨ Generated.fastaLineLen = 80 := by decide
-- ">ab\nACGT\n" into a writer with room for 5 bytes: the header call fits, the sequence line is cut;
-- into one with room for 2: the header call is cut and no further call is made
example : allFound = false ∨ (
    GoSrc.fasta_Write [97, 98] [65, 67, 71, 84] ⟨5, []⟩ = some (GoErr.other, ⟨0, [62, 97, 98, 10, 65]⟩)
    ∧ GoSrc.fasta_Write [97, 98] [65, 67, 71, 84] ⟨2, []⟩ = some (GoErr.other, ⟨0, [62, 97]⟩)
    ∧ GoSrc.fasta_Write [97, 98] [65, 67, 71, 84] ⟨9, [7]⟩
        = some (GoErr.nil, ⟨0, [7, 62, 97, 98, 10, 65, 67, 71, 84, 10]⟩)
    ∧ GoSrc.fasta_Write [97] [] ⟨9, []⟩ = some (GoErr.nil, ⟨6, [62, 97, 10]⟩)) := by decide
example : allFound = false ∨ (
    GoSrc.fastq_Write [114] [65, 67] [73, 73] ⟨4, []⟩ = some (GoErr.other, ⟨0, [64, 114, 10, 65]⟩)
    ∧ GoSrc.fastq_Write [114] [65, 67] [73, 73] ⟨20, []⟩
        = some (GoErr.nil, ⟨9, [64, 114, 10, 65, 67, 10, 43, 10, 73, 73, 10]⟩)) := by decide

/-! ## With enough room: the text, and the round trip through the translated readers -/

/-- FASTA: with enough room the output is exactly `Fasta.encode 80 r`, and no error. -/
theorem go_fasta_write_bytes : GoSrc.fasta_Write_Found = true → ∀ (r : Fasta.Fa) (k : Nat) (o : Bytes),
    (Fasta.encode 80 r).length ≤ k →
    GoSrc.fasta_Write r.name r.seq ⟨k, o⟩
      = some (GoErr.nil, ⟨k - (Fasta.encode 80 r).length, o ++ Fasta.encode 80 r⟩) := by
  intro hF r k o h
  rw [fasta_Write_fault hF r.name r.seq k o]
  simp only [h, if_true, List.take_of_length_le h]

theorem go_fastq_write_bytes : GoSrc.fastq_Write_Found = true → ∀ (r : Fastq.Fq) (k : Nat) (o : Bytes),
    (Fastq.encode r).length ≤ k →
    GoSrc.fastq_Write r.name r.seq r.quals ⟨k, o⟩
      = some (GoErr.nil, ⟨k - (Fastq.encode r).length, o ++ Fastq.encode r⟩) := by
  intro hF r k o h
  rw [fastq_Write_fault hF r.name r.seq r.quals k o]
  simp only [h, if_true, List.take_of_length_le h]

/-- Writing records one after the other (`fastaWriteAll`: `r.Write(w)` for each record, stop at the
first error) into a writer with enough room gives `Fasta.encodeAll 80 rs`. -/
theorem go_fasta_write_all : GoSrc.fasta_Write_Found = true → ∀ (rs : List Fasta.Fa) (k : Nat) (o : Bytes),
    (Fasta.encodeAll 80 rs).length ≤ k →
    fastaWriteAll rs ⟨k, o⟩
      = some (GoErr.nil, ⟨k - (Fasta.encodeAll 80 rs).length, o ++ Fasta.encodeAll 80 rs⟩) :=
  fun hF rs k o h => fastaWriteAll_ok hF rs k o h

theorem go_fastq_write_all : GoSrc.fastq_Write_Found = true → ∀ (rs : List Fastq.Fq) (k : Nat) (o : Bytes),
    (Fastq.encodeAll rs).length ≤ k →
    fastqWriteAll rs ⟨k, o⟩
      = some (GoErr.nil, ⟨k - (Fastq.encodeAll rs).length, o ++ Fastq.encodeAll rs⟩) :=
  fun hF rs k o h => fastqWriteAll_ok hF rs k o h

/-- C01 at source level, both halves translated: the translated `Write` of every record into a large
enough writer, then the translated `read` iterated over the output, returns the records. -/
theorem go_fasta_write_read : GoSrc.fasta_Write_Found = true → GoSrc.fasta_read_Found = true →
    ∀ (rs : List Fasta.Fa), (∀ r ∈ rs, Fasta.WF r) → ∀ (k : Nat), (Fasta.encodeAll 80 rs).length ≤ k →
      ∃ w', fastaWriteAll rs ⟨k, []⟩ = some (GoErr.nil, w')
        ∧ C01Go.goDecode (w'.out.length + 1) .eof w'.out = rs.map Item.ok := by
  intro hW hR rs h k hk
  refine ⟨_, fastaWriteAll_ok hW rs k [] hk, ?_⟩
  simp only [List.nil_append]
  exact C01Go.go_roundtrip hR 80 (by decide) rs h

/-- C02 at source level, both halves translated. -/
theorem go_fastq_write_read : GoSrc.fastq_Write_Found = true → GoSrc.fastq_read_Found = true →
    ∀ (rs : List Fastq.Fq), (∀ r ∈ rs, Fastq.WF r) → ∀ (k : Nat), (Fastq.encodeAll rs).length ≤ k →
      ∃ w', fastqWriteAll rs ⟨k, []⟩ = some (GoErr.nil, w')
        ∧ C02Go.goDecode ((scanLines w'.out).length + 1) .eof (scanLines w'.out) = rs.map Item.ok := by
  intro hW hR rs h k hk
  refine ⟨_, fastqWriteAll_ok hW rs k [] hk, ?_⟩
  simp only [List.nil_append]
  exact C02Go.go_roundtrip hR rs h

/-- Non-vacuity: the flags, records in the domains of C01 / C02 (a 7-byte sequence, an empty
record, odd bytes), and a writer large enough for them. -/
example : allFound = false ∨ (allFound = true ∧
    (∀ r ∈ ([⟨[115, 32, 49], [65, 67, 71, 84, 65, 67, 71]⟩, ⟨[], []⟩, ⟨[62, 64], [255, 0, 43]⟩] : List Fasta.Fa),
      Fasta.WF r)
    ∧ (∀ r ∈ ([⟨[114, 32, 49], [65, 67, 71, 84], [43, 64, 73, 73]⟩, ⟨[], [], []⟩] : List Fastq.Fq), Fastq.WF r)) := by
  decide
example : (Fasta.encodeAll 80 [⟨[115, 32, 49], [65, 67, 71, 84, 65, 67, 71]⟩, ⟨[], []⟩]).length ≤ 40 := by
  simp [Fasta.encodeAll, Fasta.encode, Fasta.writeCalls, Fasta.wrap]
example : (Fastq.encodeAll [⟨[114, 32, 49], [65, 67, 71, 84], [43, 64, 73, 73]⟩, ⟨[], [], []⟩]).length ≤ 40 := by
  decide
-- two records through the translated `Write`, a sequence longer than one line (85 bytes: 80 + 5)
example : allFound = false ∨ (
    fastaWriteAll [⟨[97], [65, 67]⟩, ⟨[], [71]⟩] ⟨20, []⟩
      = some (GoErr.nil, ⟨10, [62, 97, 10, 65, 67, 10, 62, 10, 71, 10]⟩)
    ∧ fastaWriteAll [⟨[97], [65, 67]⟩, ⟨[], [71]⟩] ⟨7, []⟩
      = some (GoErr.other, ⟨0, [62, 97, 10, 65, 67, 10, 62]⟩)
    ∧ (GoSrc.fasta_Write [97] (List.replicate 85 65) ⟨100, []⟩).map (fun p => (p.1, p.2.room, p.2.out.length))
      = some (GoErr.nil, 10, 90)
    ∧ (GoSrc.fasta_Write [97] (List.replicate 85 65) ⟨100, []⟩).map (fun p => p.2.out.drop 82)
      = some [65, 10, 65, 65, 65, 65, 65, 10]) := by decide

end Bio.Props.C07Go
