/-
  Property C06 — the same records whatever the line terminators (LF or CR LF).

  **What is NOT proved here (and cannot be, in this model).**  The other clause of C06,
  "the decoded records do not depend on how the `io.Reader` chunks the stream", is a
  statement about Go's `bufio.Reader` / `bufio.Scanner` re-assembly of short reads.  The
  model decoders (`Bio/Model/*.lean`) are functions of the *whole* byte string; they have no
  notion of a read schedule, so chunking-independence holds of them by construction and says
  nothing about the Go runtime.  No theorem is stated for it; that clause is covered only by
  the correspondence harness (every split offset on the real code).

  What is proved: for the writer's output `text` on well-formed records (the same `WF`
  predicates as C01–C05), `decode (crlf text) = decode text`, where `crlf` (defined in
  `Bio/Lemmas/Cross.lean`) replaces every LF byte by CR LF.  For Newick a blind byte
  substitution also rewrites LF bytes *inside quoted names*, which changes the names, so
  the terminator-only statement (`C06_newick_terminators`) is given for all trees and the
  `crlf` statement under the hypothesis that the written trees contain no LF.
-/
import Bio.Lemmas.CrossNewick
namespace Bio

/-- `crlf` is the byte substitution LF ↦ CR LF. -/
theorem C06_crlf_def (b : UInt8) (r : Bytes) :
    crlf [] = [] ∧ crlf (b :: r) = if b = 10 then 13 :: 10 :: crlf r else b :: crlf r :=
  ⟨rfl, rfl⟩

example : crlf [97, 10, 10, 13, 98, 10] = [97, 13, 10, 13, 10, 13, 98, 13, 10] := by decide

/-- The CRLF form of an LF-terminated file of LF-free lines is the CRLF-terminated file. -/
theorem C06_crlf_lfFile (ls : List Bytes) (h : ∀ l ∈ ls, (10 : UInt8) ∉ l) :
    crlf (lfFile ls) = crlfFile ls := crlf_lfFile ls h

example : ∀ l ∈ ([[97, 13], [], [98]] : List Bytes), (10 : UInt8) ∉ l := by decide

/-- General form for the line-based readers: `bufio.ScanLines` yields the same lines from the
LF and the CRLF form of a file whose lines are free of CR and LF. -/
theorem C06_scanLines_crlf (ls : List Bytes) (h : ∀ l ∈ ls, ∀ b ∈ l, b ≠ 10 ∧ b ≠ 13) :
    scanLines (crlf (lfFile ls)) = scanLines (lfFile ls) := scanLines_crlf_lfFile ls h

example : ∀ l ∈ ([[97, 9], [], [98]] : List Bytes), ∀ b ∈ l, b ≠ 10 ∧ b ≠ 13 := by decide

/-! ## FASTA -/

theorem C06_fasta (w : Nat) (hw : 0 < w) (rs : List Fasta.Fa) (h : ∀ r ∈ rs, Fasta.WF r) :
    Fasta.decode (crlf (Fasta.encodeAll w rs)) = Fasta.decode (Fasta.encodeAll w rs) := by
  rw [Fasta.decode_crlf w hw rs h, Fasta.roundtrip w hw rs h]

/-- Both are the records written. -/
theorem C06_fasta_records (w : Nat) (hw : 0 < w) (rs : List Fasta.Fa) (h : ∀ r ∈ rs, Fasta.WF r) :
    Fasta.decode (crlf (Fasta.encodeAll w rs)) = rs.map Item.ok := Fasta.decode_crlf w hw rs h

/-- Non-vacuity: width 3, a 7-byte sequence (three lines), an empty record. -/
example :
    (0 : Nat) < 3 ∧
    ∀ r ∈ ([⟨[115, 32, 49], [65, 67, 71, 84, 65, 67, 71]⟩, ⟨[], []⟩] : List Fasta.Fa), Fasta.WF r := by
  decide

example : crlf (Fasta.encodeAll 3 [⟨[115], [65, 67, 71, 84]⟩]) =
    [62, 115, 13, 10, 65, 67, 71, 13, 10, 84, 13, 10] := by
  simp [Fasta.encodeAll, Fasta.encode, Fasta.writeCalls, Fasta.wrap, crlf]

/-! ## FASTQ -/

theorem C06_fastq (rs : List Fastq.Fq) (h : ∀ r ∈ rs, Fastq.WF r) :
    Fastq.decode (crlf (Fastq.encodeAll rs)) = Fastq.decode (Fastq.encodeAll rs) :=
  Fastq.decodeSrc_crlf .eof rs h

theorem C06_fastq_records (rs : List Fastq.Fq) (h : ∀ r ∈ rs, Fastq.WF r) :
    Fastq.decode (crlf (Fastq.encodeAll rs)) = rs.map Item.ok := by
  rw [C06_fastq rs h, Fastq.roundtrip rs h]

example :
    ∀ r ∈ ([⟨[114, 32, 49], [65, 67, 71, 84], [43, 64, 73, 73]⟩, ⟨[], [], []⟩] : List Fastq.Fq),
      Fastq.WF r := by
  decide

/-! ## SAM (headers and records; both readers) -/

theorem C06_sam (pf : Bytes → Option Bytes) (hs : List Bytes) (rs : List Sam.Sam)
    (hh : ∀ h ∈ hs, Sam.hdrOK h) (hr : ∀ s ∈ rs, Sam.WF pf s) :
    Sam.decodeHeader pf (crlf ((hs ++ rs.map Sam.encodeLine).map (· ++ [10])).flatten) =
      Sam.decodeHeader pf ((hs ++ rs.map Sam.encodeLine).map (· ++ [10])).flatten ∧
    Sam.decode pf (crlf ((hs ++ rs.map Sam.encodeLine).map (· ++ [10])).flatten) =
      Sam.decode pf ((hs ++ rs.map Sam.encodeLine).map (· ++ [10])).flatten :=
  Sam.decode_crlf pf hs rs hh hr

/-- The file of `C06_sam` is what the writer produces: headers line by line, then
`encode` of every record. -/
theorem C06_sam_text (hs : List Bytes) (rs : List Sam.Sam) :
    ((hs ++ rs.map Sam.encodeLine).map (· ++ [10])).flatten =
      (hs.map (· ++ [10])).flatten ++ (rs.map Sam.encode).flatten := by
  simp only [List.map_append, List.flatten_append, List.map_map]
  rfl

example : (∀ h ∈ Sam.exHs, Sam.hdrOK h) ∧ (∀ s ∈ Sam.exRs, Sam.WF Sam.exPf s) :=
  ⟨Sam.exHs_ok, Sam.exRs_ok⟩

/-! ## BED -/

theorem C06_bed (N : Nat) (bs : List Bed.Bed) (h : ∀ b ∈ bs, Bed.WF N b) :
    Bed.decode (crlf (bs.map fun b => (Bed.encode b).getD []).flatten) =
      Bed.decode (bs.map fun b => (Bed.encode b).getD []).flatten := by
  rw [Bed.decode_crlf N bs h, Bed.file_roundtrip_encode N bs h]

theorem C06_bed_records (N : Nat) (bs : List Bed.Bed) (h : ∀ b ∈ bs, Bed.WF N b) :
    Bed.decode (crlf (bs.map fun b => (Bed.encode b).getD []).flatten) =
      bs.map (fun b => Item.ok (Bed.truncate N b)) := Bed.decode_crlf N bs h

example : ∀ b ∈ [Bed.ex12, Bed.ex12], Bed.WF 12 b := by decide
example : ∀ b ∈ [Bed.ex3, Bed.ex3], Bed.WF 3 b := by decide

/-! ## Newick -/

/-- Trees written one after another, each followed by LF or by CR LF: same trees.  (All
names, including names that contain LF bytes, which the writer quotes.) -/
theorem C06_newick_terminators (qs : Bytes) (pd : Bytes → Option Newick.Dist)
    (h : Newick.QS_OK qs) (ts : List Newick.Tree)
    (hd : ∀ t ∈ ts, t.AllDist (Newick.DistOK pd)) :
    Newick.decode pd (ts.flatMap fun t => Newick.write qs t ++ [13, 10]) =
      Newick.decode pd (ts.flatMap fun t => Newick.write qs t ++ [10]) := by
  rw [Newick.decode_sep qs pd h [13, 10] (by decide) ts hd,
    Newick.decode_sep qs pd h [10] (by decide) ts hd]

/-- The `crlf` form, for trees whose text contains no LF (i.e. no LF inside a quoted name). -/
theorem C06_newick (qs : Bytes) (pd : Bytes → Option Newick.Dist)
    (h : Newick.QS_OK qs) (ts : List Newick.Tree)
    (hd : ∀ t ∈ ts, t.AllDist (Newick.DistOK pd))
    (hlf : ∀ t ∈ ts, (10 : UInt8) ∉ Newick.write qs t) :
    Newick.decode pd (crlf (ts.flatMap fun t => Newick.write qs t ++ [10])) =
      Newick.decode pd (ts.flatMap fun t => Newick.write qs t ++ [10]) := by
  rw [Newick.crlf_trees qs ts hlf]
  exact C06_newick_terminators qs pd h ts hd

example : Newick.QS_OK Newick.qsGo ∧
    (∀ t ∈ [Newick.exTree, ⟨[97, 32, 98], none, .nil⟩],
      Newick.Tree.AllDist (Newick.DistOK Newick.pdEx) t) := by decide

/-- The same with the hypothesis on the trees rather than on their text: no name contains an
LF (`Tree.AllNames` is defined in `Bio/Lemmas/CrossNewick.lean`). -/
theorem C06_newick_names (qs : Bytes) (pd : Bytes → Option Newick.Dist)
    (h : Newick.QS_OK qs) (ts : List Newick.Tree)
    (hd : ∀ t ∈ ts, t.AllDist (Newick.DistOK pd))
    (hn : ∀ t ∈ ts, t.AllNames (fun n => (10 : UInt8) ∉ n)) :
    Newick.decode pd (crlf (ts.flatMap fun t => Newick.write qs t ++ [10])) =
      Newick.decode pd (ts.flatMap fun t => Newick.write qs t ++ [10]) :=
  C06_newick qs pd h ts hd (fun t ht => Newick.not_lf_write qs t (hn t ht)
    ⟨(hd t ht).1.clean, Newick.Forest.AllDist.mono (fun _ => Newick.DistOK.clean) _ (hd t ht).2⟩)

example : Newick.QS_OK Newick.qsGo ∧
    (∀ t ∈ [(⟨[97, 32, 39, 98], some [49], .cons [120, 13] none .nil .nil⟩ : Newick.Tree)],
      Newick.Tree.AllDist (Newick.DistOK Newick.pdEx) t ∧
      Newick.Tree.AllNames (fun n => (10 : UInt8) ∉ n) t) := by decide

example : Newick.QS_OK Newick.qsGo ∧
    (∀ t ∈ [(⟨[97, 32, 39, 98], some [49], .cons [120] none .nil .nil⟩ : Newick.Tree)],
      Newick.Tree.AllDist (Newick.DistOK Newick.pdEx) t ∧
      (10 : UInt8) ∉ Newick.write Newick.qsGo t) := by decide

/-- Why `hlf` is there: the name `"a\nb"` is written quoted, `'a\nb';`; the blind substitution
turns the LF inside the quotes into CR LF and the tree read back has the name `"a\r\nb"`. -/
example :
    Newick.decode Newick.pdEx (crlf (Newick.write Newick.qsGo ⟨[97, 10, 98], none, .nil⟩ ++ [10])) =
      [Item.ok ⟨[97, 13, 10, 98], none, .nil⟩] := by
  decide +kernel

end Bio
