/-
  C05 for the Go SOURCE TEXT of the newick WRITER: `(*Node).newick` and `(*Node).MarshalText` of
  formats/newick/newick.go, as translated statement by statement on every run into
  `Bio.Generated.GoSrc.Node_newick` / `Node_MarshalText`, compute the hand-written model's text
  (`Newick.writeForest` of the single tree / `Newick.write`) on the quote set observed from the running
  code, for EVERY tree, buffer and fuel ≥ depth + 1 -- under `FFModel ff` (`%v` of the canonical distance
  token `t` is `t`) for the exact text; for ARBITRARY `ff`: append-only, no panic, `ff 0` never used, and
  the fuel bound `depth t + 1` is sharp.  Composed with the model's `tree_roundtrip`: what the translated
  `MarshalText` writes, the model reader decodes to the tree.

  Conventions: a `*Node` is `Newick.Tree`, `n.Children` is `kidsOf n`, `n.Distance` is `Tree.dist`
  (`none` = 0), the `*bytes.Buffer` is the list of bytes written so far, handed back; `none` = a Go panic
  or out of fuel.  Guarded by the translator's `<f>_Found` flags.
-/
import Bio.Lemmas.GoSrcNewickWrite
namespace Bio.Props.C05WriteGo
open Bio Bio.GoRt Bio.Generated Bio.Newick Bio.GoSrcLemmas Bio.GoSrcLemmas.NwkWr

/-- every translator flag this file depends on; the non-vacuity examples below are stated as
`allFound = false ∨ …` so that a source the translator no longer recognises is not an alarm -/
def allFound : Bool :=
  GoSrc.Node_newick_Found && GoSrc.Node_MarshalText_Found && GoSrc.nameToText_Found

/-! ## 1. `(*Node).newick` writes the model's text of the subtree -/

/-- For every tree, every buffer and every `fuel ≥ depth t + 1` (`depth` = height, a leaf has depth 0):
the translated `newick` appends to the buffer exactly what the model's `write` puts before the `;`. -/
theorem go_newick : GoSrc.Node_newick_Found = true → GoSrc.nameToText_Found = true →
    ∀ ff : Dist → Bytes, FFModel ff → ∀ (t : Tree) (buf : Bytes) (fuel : Nat), depth t + 1 ≤ fuel →
    GoSrc.Node_newick ff fuel t buf
      = some (buf ++ writeForest Generated.newickQuoteBytes (.cons t.name t.dist t.kids .nil)) := by
  intro hF hN ff hff t buf fuel hfuel
  rw [newick_char hF hN ff fuel t buf, if_pos hfuel, nodeText_model hff]; rfl

/-- … and the model's `write` is that text followed by `;`. -/
theorem write_eq_subtree_semicolon (qs : Bytes) (t : Tree) :
    write qs t = writeForest qs (.cons t.name t.dist t.kids .nil) ++ [59] := rfl

/-- The fuel bound is sharp: with `fuel ≤ depth t` the translation is out of fuel (`none`, no claim),
whatever `ff` and the buffer. -/
theorem go_newick_fuel_sharp : GoSrc.Node_newick_Found = true → GoSrc.nameToText_Found = true →
    ∀ (ff : Dist → Bytes) (t : Tree) (buf : Bytes) (fuel : Nat), fuel ≤ depth t →
    GoSrc.Node_newick ff fuel t buf = none := by
  intro hF hN ff t buf fuel hfuel
  rw [newick_char hF hN ff fuel t buf, if_neg (by omega)]

/-! ## 2. `MarshalText` is the model's `write` -/

theorem go_MarshalText : GoSrc.Node_MarshalText_Found = true → GoSrc.Node_newick_Found = true →
    GoSrc.nameToText_Found = true →
    ∀ ff : Dist → Bytes, FFModel ff → ∀ (t : Tree) (fuel : Nat), depth t + 1 ≤ fuel →
    GoSrc.Node_MarshalText ff fuel t = some (write Generated.newickQuoteBytes t, GoErr.nil) := by
  intro hM hF hN ff hff t fuel hfuel
  rw [marshal_char hM hF hN ff fuel t, if_pos hfuel, nodeText_model hff]; rfl

/-! ## 3. The buffer is only appended to (ARBITRARY `ff`, ARBITRARY fuel) -/

theorem go_newick_append_only : GoSrc.Node_newick_Found = true → GoSrc.nameToText_Found = true →
    ∀ (ff : Dist → Bytes) (fuel : Nat) (t : Tree) (buf r : Bytes),
    GoSrc.Node_newick ff fuel t buf = some r → ∃ s, r = buf ++ s := by
  intro hF hN ff fuel t buf r h
  rw [newick_char hF hN ff fuel t buf] at h
  split at h
  · exact ⟨_, (Option.some.inj h).symm⟩
  · cases h

/-- … and what is appended does not depend on what the buffer held. -/
theorem go_newick_buf_independent : GoSrc.Node_newick_Found = true → GoSrc.nameToText_Found = true →
    ∀ (ff : Dist → Bytes) (fuel : Nat) (t : Tree) (buf : Bytes),
    GoSrc.Node_newick ff fuel t buf = (GoSrc.Node_newick ff fuel t []).map (buf ++ ·) := by
  intro hF hN ff fuel t buf
  rw [newick_char hF hN ff fuel t buf, newick_char hF hN ff fuel t []]
  split <;> simp

/-! ## 4. No panic (ARBITRARY `ff`, every tree however deep or wide) -/

theorem go_newick_no_panic : GoSrc.Node_newick_Found = true → GoSrc.nameToText_Found = true →
    ∀ (ff : Dist → Bytes) (t : Tree) (buf : Bytes) (fuel : Nat), depth t + 1 ≤ fuel →
    GoSrc.Node_newick ff fuel t buf ≠ none := by
  intro hF hN ff t buf fuel hfuel
  rw [newick_char hF hN ff fuel t buf, if_pos hfuel]; simp

theorem go_MarshalText_no_panic : GoSrc.Node_MarshalText_Found = true →
    GoSrc.Node_newick_Found = true → GoSrc.nameToText_Found = true →
    ∀ (ff : Dist → Bytes) (t : Tree) (fuel : Nat), depth t + 1 ≤ fuel →
    GoSrc.Node_MarshalText ff fuel t ≠ none := by
  intro hM hF hN ff t fuel hfuel
  rw [marshal_char hM hF hN ff fuel t, if_pos hfuel]; simp

/-- `ff 0` is never used (the code tests `n.Distance != 0` first): two `%v`s that agree on the non-zero
distances give the same result, for every fuel, tree and buffer. -/
theorem go_newick_ff_none_unused : GoSrc.Node_newick_Found = true → GoSrc.nameToText_Found = true →
    ∀ (ff ff' : Dist → Bytes), (∀ t : Bytes, ff (some t) = ff' (some t)) →
    ∀ (fuel : Nat) (t : Tree) (buf : Bytes),
    GoSrc.Node_newick ff fuel t buf = GoSrc.Node_newick ff' fuel t buf := by
  intro hF hN ff ff' h fuel t buf
  rw [newick_char hF hN ff fuel t buf, newick_char hF hN ff' fuel t buf, nodeText_congr h]

/-! ## 5. What the translated `MarshalText` writes, the model reader reads back -/

theorem go_write_read_model : GoSrc.Node_MarshalText_Found = true → GoSrc.Node_newick_Found = true →
    GoSrc.nameToText_Found = true →
    ∀ ff : Dist → Bytes, FFModel ff → ∀ (pd : Bytes → Option Dist) (t : Tree),
    t.AllDist (DistOK pd) → ∀ fuel : Nat, depth t + 1 ≤ fuel →
    ∃ txt : Bytes, GoSrc.Node_MarshalText ff fuel t = some (txt, GoErr.nil)
      ∧ Newick.decode pd txt = [Item.ok t]
      ∧ ∀ rest : Bytes, Newick.readTree pd .eof (txt ++ rest) = ReadRes.tree t rest := by
  intro hM hF hN ff hff pd t hd fuel hfuel
  refine ⟨_, go_MarshalText hM hF hN ff hff t fuel hfuel, ?_, ?_⟩
  · have := Newick.forest_roundtrip _ pd Newick.generated_quoteSet_ok [t] (by simpa using hd)
    simpa using this
  · exact fun rest => Newick.tree_roundtrip _ pd Newick.generated_quoteSet_ok t hd rest

/-! ## Non-vacuity -/

/-- the concrete `%v`: the canonical token itself (anything for 0) -/
def ffEx : Dist → Bytes := fun d => d.getD []

example : FFModel ffEx := fun _ => rfl

/-- (A:1,((z,)x_y:2.5)'b (c''')root:1 -- depth 3, two children at two places, distances on three nodes,
an unnamed leaf, a name with a space (written `_`), a name with `(` and `'` (quoted, the quote doubled). -/
def exT : Tree :=
  ⟨[114, 111, 111, 116], some [49],
    .cons [65] (some [49]) .nil
      (.cons [98, 32, 40, 99, 39] none
        (.cons [120, 32, 121] (some [50, 46, 53])
          (.cons [122] none .nil (.cons [] none .nil .nil)) .nil)
        .nil)⟩

example : depth exT = 3 := by decide
example : exT.AllDist (DistOK Newick.pdEx) := by decide
example : allFound = false ∨ allFound = true := by decide

-- the exact bytes, appended to a non-empty buffer, with fuel exactly depth + 1
example : allFound = false ∨ GoSrc.Node_newick ffEx 4 exT [1, 2] =
    some [1, 2, 40, 65, 58, 49, 44, 40, 40, 122, 44, 41, 120, 95, 121, 58, 50, 46, 53, 41,
      39, 98, 32, 40, 99, 39, 39, 39, 41, 114, 111, 111, 116, 58, 49] := by decide +kernel

-- "(A:1,((z,)x_y:2.5)'b (c''')root:1;"
example : allFound = false ∨ GoSrc.Node_MarshalText ffEx 4 exT =
    some ([40, 65, 58, 49, 44, 40, 40, 122, 44, 41, 120, 95, 121, 58, 50, 46, 53, 41,
      39, 98, 32, 40, 99, 39, 39, 39, 41, 114, 111, 111, 116, 58, 49, 59], GoErr.nil) := by decide +kernel

example : allFound = false ∨
    GoSrc.Node_MarshalText ffEx 4 exT = some (write Generated.newickQuoteBytes exT, GoErr.nil) := by
  decide +kernel

-- fuel = depth is out of fuel; more fuel changes nothing
example : allFound = false ∨ (GoSrc.Node_newick ffEx 3 exT [] = none
    ∧ GoSrc.Node_MarshalText ffEx 3 exT = none
    ∧ GoSrc.Node_MarshalText ffEx 9 exT = GoSrc.Node_MarshalText ffEx 4 exT) := by decide +kernel

-- a leaf needs (exactly) one unit of fuel
example : allFound = false ∨ (GoSrc.Node_newick ffEx 1 ⟨[97, 32, 98], none, .nil⟩ [] = some [97, 95, 98]
    ∧ GoSrc.Node_newick ffEx 0 ⟨[97, 32, 98], none, .nil⟩ [] = none) := by decide +kernel

-- `ff 0` is not looked at: a `%v` that writes garbage for 0 gives the same text
example : allFound = false ∨
    GoSrc.Node_MarshalText (fun d => match d with | none => [1, 2, 3] | some t => t) 4 exT
      = GoSrc.Node_MarshalText ffEx 4 exT := by decide +kernel

-- without `FFModel` the text is still produced (no panic), e.g. with a `%v` that writes "?" for everything
example : allFound = false ∨ GoSrc.Node_MarshalText (fun _ => [63]) 4 exT =
    some ([40, 65, 58, 63, 44, 40, 40, 122, 44, 41, 120, 95, 121, 58, 63, 41,
      39, 98, 32, 40, 99, 39, 39, 39, 41, 114, 111, 111, 116, 58, 63, 59], GoErr.nil) := by decide +kernel

-- the model reader reads the translated writer's text back
example : allFound = false ∨
    ((GoSrc.Node_MarshalText ffEx 4 exT).map fun r => Newick.decode Newick.pdEx r.1) = some [Item.ok exT] := by
  first
  | (left; decide)
  | (right
     obtain ⟨txt, h1, h2, _⟩ := go_write_read_model (by decide) (by decide) (by decide) ffEx (fun _ => rfl)
       Newick.pdEx exT (by decide) 4 (by decide)
     rw [h1]; simp [h2])

end Bio.Props.C05WriteGo
