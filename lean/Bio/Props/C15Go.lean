/-
  C15 for the Go SOURCE TEXT of trie/trie.go: `New`, `(*Trie).Add`, `(*Trie).Has`,
  `(*Trie).Delete`, translated statement by statement on every run into
  `Bio.Generated.GoSrc.New` / `Trie_Add` / `Trie_Has` / `Trie_Delete`.

  The Go type is `type Trie struct{ m map[byte]*Trie }`, used through pointers and mutated in place,
  so the translation runs over an EXPLICIT HEAP: `heap : List (List (UInt8 × Int))` lists the map
  fields of all nodes allocated so far, a `*Trie` is an index into it (`nil = -1`), `New` appends an
  empty map, functions that write return the new heap; a `for len(b) > 0 { … }` loop runs at most
  `fuel` iterations; `none` = a Go panic (nil / dangling pointer, index out of range) or out of fuel.

  This file is a REFINEMENT proof: the heap-manipulating code refines the purely functional hand
  model `Bio.Trie` (`add` / `has` / `del`, Bio/Model/Trie.lean), edge order included.

  * `Rep heap p t` (Bio/Lemmas/GoSrcTrie1.lean): `p` is a node of `heap`, and reading its edge list
    in order — key `kᵢ`, child pointer `cᵢ`, with `Rep heap cᵢ tᵢ` — gives
    `t = cons k₁ t₁ (cons k₂ t₂ …)`.
  * `HWF heap root`: the part of the heap reachable from `root` is a TREE (no cell is reached twice:
    no cycle, no sharing) whose nodes are maps (pairwise distinct keys).  Cells that are not
    reachable from `root` — the garbage `Delete` leaves behind, other tries — are unconstrained.
    `checkHWF` is a decidable sufficient check for concrete heaps.

  For every `heap`, `root`, `t` with `HWF heap root` and `Rep heap root t`, every `b`, and every
  `fuel ≥ len(b) + 1`: `Has` answers `Trie.has b t`; `Add` ends in a heap that satisfies the
  invariant again and represents `Trie.add b t`; `Delete` returns false and leaves the heap untouched
  when `Trie.del b t = none`, and otherwise returns true and ends in an invariant heap that represents
  the model's result; nothing panics.  Hence (`go_history`) for EVERY history of `Add` / `Delete`
  calls from `New()` the returned flags and the final trie are the model's, and C15's
  `C15_reachable` / `C15_reachable_observe` (the trie behaves as the specified set of maximal
  sequences) hold for the source text.
  Guarded by the translator's `<f>_Found` flags (see `Bio.Lemmas.GoSrc`).
-/
import Bio.Lemmas.GoSrcTrie
import Bio.Props.C15
namespace Bio.Props.C15Go
open Bio Bio.GoRt Bio.Generated Bio.GoSrcLemmas Bio.GoSrcLemmas.TrieGo Bio.Trie

/-- every translator flag this file depends on; the non-vacuity examples below are stated as
`allFound = false ∨ …` so that a source the translator no longer recognises is not an alarm -/
def allFound : Bool :=
  GoSrc.New_Found && GoSrc.Trie_Add_Found && GoSrc.Trie_Has_Found && GoSrc.Trie_Delete_Found

/-! ## 0. The invariant is satisfiable: concrete heaps -/

/-- after `Add("ab"); Add("ac"); Add("b")` -/
def heapA : Heap := [[(97, 1), (98, 4)], [(98, 2), (99, 3)], [], [], []]

def trieA : T := .cons 97 (.cons 98 .nil (.cons 99 .nil .nil)) (.cons 98 .nil .nil)

/-- with garbage: after `Add("abc"); Add("abd"); Add("ax"); Delete("ab")` the cells 2, 3, 4 are
unreachable, and cell 2 still has its two edges -/
def heapG : Heap := [[(97, 1)], [(120, 5)], [(99, 3), (100, 4)], [], [], []]

theorem heapA_ok : HWF heapA 0 ∧ Rep heapA 0 trieA :=
  checkHWF_sound (fuel := 8) (by decide) trieA [1, 2, 3, 4] (by decide)

theorem heapG_ok : HWF heapG 0 ∧ Rep heapG 0 (.cons 97 (.cons 120 .nil .nil) .nil) :=
  checkHWF_sound (fuel := 8) (by decide) _ [1, 5] (by decide)

example : HWF heapA 0 := heapA_ok.1
example : HWF heapG 0 := heapG_ok.1
-- a sub-trie of an invariant heap is one as well (`Has`, `Add`, `Delete` work on any node)
example : HWF heapA 1 ∧ Rep heapA 1 (.cons 98 .nil (.cons 99 .nil .nil)) :=
  checkHWF_sound (fuel := 8) (by decide) _ [2, 3] (by decide)

/-- a shared node (two edges to cell 1) is not a tree: the invariant excludes it -/
example : ¬ HWF [[(97, 1), (98, 1)], []] 0 := by
  rintro ⟨n, t, S, hroot, es, hn, hr, hnd, _⟩
  have h0 : n = 0 := by omega
  subst h0
  simp at hn
  subst hn
  cases hr with
  | cons hv hc h1 h2 =>
    cases h2 with
    | cons hv' hc' h1' h2' =>
      have e1 := Int.ofNat.inj hv
      have e2 := Int.ofNat.inj hv'
      subst e1 e2
      simp at hnd

/-- a cycle is not a tree either -/
example : ¬ HWF [[(97, 0)]] 0 := by
  rintro ⟨n, t, S, hroot, es, hn, hr, hnd, _⟩
  have h0 : n = 0 := by omega
  subst h0
  simp at hn
  subst hn
  cases hr with
  | cons hv hc h1 h2 =>
    have e1 := Int.ofNat.inj hv
    subst e1
    simp at hnd

/-- `Rep` determines the trie, and an invariant heap represents one -/
theorem go_rep_unique (heap : Heap) (root : Int) (t t' : T) (h : Rep heap root t)
    (h' : Rep heap root t') : t = t' := rep_unique h h'

theorem go_rep_exists (heap : Heap) (root : Int) (h : HWF heap root) : ∃ t, Rep heap root t :=
  rep_of_hwf h

/-- the model's invariant (C15's `NoDupKeys`) holds for the trie an invariant heap represents -/
theorem go_noDupKeys (heap : Heap) (root : Int) (t : T) (hw : HWF heap root) (hr : Rep heap root t) :
    NoDupKeys t := by
  obtain ⟨n, S, _, hg⟩ := good_of hw hr
  exact noDupKeys_of_good hg

/-! ## 1. `New` -/

/-- `New` appends an empty map and returns its index; the new node represents the empty trie, and
every trie already in the heap is still there, invariant included. -/
theorem go_New : GoSrc.New_Found = true → ∀ heap : Heap,
    GoSrc.New heap = some ((heap.length : Int), heap ++ [[]]) ∧
    HWF (heap ++ [[]]) (heap.length : Int) ∧ Rep (heap ++ [[]]) (heap.length : Int) .nil ∧
    ∀ (root : Int) (t : T), HWF heap root → Rep heap root t →
      HWF (heap ++ [[]]) root ∧ Rep (heap ++ [[]]) root t := by
  intro hF heap
  refine ⟨New_eq hF heap, (of_good (good_new heap)).1, (of_good (good_new heap)).2, ?_⟩
  intro root t hw hr
  obtain ⟨n, S, rfl, hg⟩ := good_of hw hr
  exact of_good (good_append hg [[]])

example : allFound = false ∨ GoSrc.New heapA = some (5, heapA ++ [[]]) := by decide

/-! ## 2. `Has` -/

theorem go_Has : GoSrc.Trie_Has_Found = true →
    ∀ (heap : Heap) (root : Int) (t : T) (b : Bytes) (fuel : Nat),
      HWF heap root → Rep heap root t → b.length + 1 ≤ fuel →
      GoSrc.Trie_Has fuel heap root b = some (has b t) := by
  intro hF heap root t b fuel _ hr hf
  obtain ⟨n, es, S, rfl, hn, hre⟩ := hr
  exact Has_eq hF fuel heap n es t S b hn hre hf

/-- `Has` does not even need the invariant (it only reads, and the first edge with the key is what
both the map lookup and the model find) -/
theorem go_Has_rep : GoSrc.Trie_Has_Found = true →
    ∀ (heap : Heap) (root : Int) (t : T) (b : Bytes) (fuel : Nat),
      Rep heap root t → b.length + 1 ≤ fuel →
      GoSrc.Trie_Has fuel heap root b = some (has b t) := by
  intro hF heap root t b fuel hr hf
  obtain ⟨n, es, S, rfl, hn, hre⟩ := hr
  exact Has_eq hF fuel heap n es t S b hn hre hf

example : HWF heapA 0 ∧ Rep heapA 0 trieA ∧ ([97, 99] : Bytes).length + 1 ≤ 3 :=
  ⟨heapA_ok.1, heapA_ok.2, by decide⟩

example : allFound = false ∨
    (GoSrc.Trie_Has 3 heapA 0 [97, 99] = some true ∧ GoSrc.Trie_Has 3 heapA 0 [97, 97] = some false ∧
     GoSrc.Trie_Has 3 heapA 0 [] = some true ∧ GoSrc.Trie_Has 4 heapA 0 [97, 99, 99] = some false ∧
     -- the fuel bound is needed: out of fuel = `none`
     GoSrc.Trie_Has 2 heapA 0 [97, 99] = none) := by decide

/-! ## 3. `Add` -/

theorem go_Add : GoSrc.New_Found = true → GoSrc.Trie_Add_Found = true →
    ∀ (heap : Heap) (root : Int) (t : T) (b : Bytes) (fuel : Nat),
      HWF heap root → Rep heap root t → b.length + 1 ≤ fuel →
      ∃ heap', GoSrc.Trie_Add fuel heap root b = some heap' ∧
        HWF heap' root ∧ Rep heap' root (add b t) := by
  intro hN hF heap root t b fuel hw hr hf
  obtain ⟨n, S, rfl, hg⟩ := good_of hw hr
  obtain ⟨heap', S', h1, h2, _⟩ := Add_eq hN hF fuel heap n t S b hg hf
  exact ⟨heap', h1, of_good h2⟩

/-- … and `Add` only allocates: the heap grows, no cell is freed or moved -/
theorem go_Add_grows : GoSrc.New_Found = true → GoSrc.Trie_Add_Found = true →
    ∀ (heap : Heap) (root : Int) (t : T) (b : Bytes) (fuel : Nat),
      HWF heap root → Rep heap root t → b.length + 1 ≤ fuel →
      ∃ heap', GoSrc.Trie_Add fuel heap root b = some heap' ∧ heap.length ≤ heap'.length := by
  intro hN hF heap root t b fuel hw hr hf
  obtain ⟨n, S, rfl, hg⟩ := good_of hw hr
  obtain ⟨heap', S', h1, _, h3, _⟩ := Add_eq hN hF fuel heap n t S b hg hf
  exact ⟨heap', h1, h3⟩

-- "acd" shares the prefix "ac": the walk goes down two existing edges, then allocates one cell
example : allFound = false ∨
    GoSrc.Trie_Add 4 heapA 0 [97, 99, 100]
      = some [[(97, 1), (98, 4)], [(98, 2), (99, 3)], [], [(100, 5)], [], []] := by decide
example : add [97, 99, 100] trieA
    = .cons 97 (.cons 98 .nil (.cons 99 (.cons 100 .nil .nil) .nil)) (.cons 98 .nil .nil) := by decide
-- adding a sequence that is already there (or the empty one) changes nothing
example : allFound = false ∨
    (GoSrc.Trie_Add 3 heapA 0 [97, 98] = some heapA ∧ GoSrc.Trie_Add 1 heapA 0 [] = some heapA) := by
  decide

/-! ## 4. `Delete` -/

theorem go_Delete : GoSrc.Trie_Delete_Found = true →
    ∀ (heap : Heap) (root : Int) (t : T) (b : Bytes), HWF heap root → Rep heap root t →
      (del b t = none → GoSrc.Trie_Delete heap root b = some (false, heap)) ∧
      (∀ t', del b t = some t' → ∃ heap', GoSrc.Trie_Delete heap root b = some (true, heap') ∧
        HWF heap' root ∧ Rep heap' root t') := by
  intro hF heap root t b hw hr
  obtain ⟨n, S, rfl, hg⟩ := good_of hw hr
  obtain ⟨d1, d2⟩ := Delete_eq hF heap n t S b hg
  refine ⟨d1, fun t' ht' => ?_⟩
  obtain ⟨heap', S', h1, h2, _⟩ := d2 t' ht'
  exact ⟨heap', h1, of_good h2⟩

/-- … and `Delete` neither allocates nor frees: the unreachable cells stay in the heap -/
theorem go_Delete_length : GoSrc.Trie_Delete_Found = true →
    ∀ (heap : Heap) (root : Int) (t : T) (b : Bytes), HWF heap root → Rep heap root t →
      ∃ flag heap', GoSrc.Trie_Delete heap root b = some (flag, heap') ∧ heap'.length = heap.length := by
  intro hF heap root t b hw hr
  obtain ⟨n, S, rfl, hg⟩ := good_of hw hr
  obtain ⟨d1, d2⟩ := Delete_eq hF heap n t S b hg
  cases hd : del b t with
  | none => exact ⟨false, heap, d1 hd, rfl⟩
  | some t' =>
    obtain ⟨heap', S', h1, _, h3, _⟩ := d2 t' hd
    exact ⟨true, heap', h1, h3⟩

example : del [97, 99] trieA = some (.cons 97 (.cons 98 .nil .nil) (.cons 98 .nil .nil)) ∧
    del [97, 100] trieA = none := by decide

-- "ac": the edge is erased, node 1 keeps "b": stop
example : allFound = false ∨
    GoSrc.Trie_Delete heapA 0 [97, 99] = some (true, [[(97, 1), (98, 4)], [(98, 2)], [], [], []]) := by
  decide
-- absent: false, the heap is untouched
example : allFound = false ∨
    (GoSrc.Trie_Delete heapA 0 [97, 100] = some (false, heapA) ∧
     GoSrc.Trie_Delete heapA 0 [97, 98, 98] = some (false, heapA)) := by decide
-- the empty sequence: true, nothing changes
example : allFound = false ∨ GoSrc.Trie_Delete heapA 0 [] = some (true, heapA) := by decide
-- a prefix with a whole subtree below: one edge erased, the subtree becomes garbage
example : allFound = false ∨
    GoSrc.Trie_Delete heapA 0 [97] = some (true, [[(98, 4)], [(98, 2), (99, 3)], [], [], []]) := by
  decide

/-! ## 5. No panic -/

theorem go_no_panic : GoSrc.New_Found = true → GoSrc.Trie_Add_Found = true →
    GoSrc.Trie_Has_Found = true → GoSrc.Trie_Delete_Found = true →
    ∀ (heap : Heap) (root : Int) (b : Bytes) (fuel : Nat), HWF heap root → b.length + 1 ≤ fuel →
      (GoSrc.New heap).isSome = true ∧ (GoSrc.Trie_Has fuel heap root b).isSome = true ∧
      (GoSrc.Trie_Add fuel heap root b).isSome = true ∧ (GoSrc.Trie_Delete heap root b).isSome = true := by
  intro hN hA hH hD heap root b fuel hw hf
  obtain ⟨t, hr⟩ := rep_of_hwf hw
  refine ⟨by rw [New_eq hN]; rfl, by rw [go_Has hH heap root t b fuel hw hr hf]; rfl, ?_, ?_⟩
  · obtain ⟨heap', h1, _⟩ := go_Add hN hA heap root t b fuel hw hr hf
    rw [h1]; rfl
  · obtain ⟨flag, heap', h1, _⟩ := go_Delete_length hD heap root t b hw hr
    rw [h1]; rfl

-- without the invariant the code does panic: a nil root, a dangling child pointer
example : allFound = false ∨
    (GoSrc.Trie_Has 3 heapA (-1) [97] = none ∧ GoSrc.Trie_Add 3 [[(97, 7)]] 0 [97, 98] = none ∧
     GoSrc.Trie_Delete [[(97, 7)]] 0 [97, 98] = none) := by decide

/-! ## 6. One call against the specification (C15's sets of maximal sequences) -/

theorem go_Has_spec : GoSrc.Trie_Has_Found = true →
    ∀ (heap : Heap) (root : Int) (t : T) (x : Bytes) (fuel : Nat),
      HWF heap root → Rep heap root t → x.length + 1 ≤ fuel →
      ∃ r, GoSrc.Trie_Has fuel heap root x = some r ∧ (r = true ↔ specHas x (absSet t)) := by
  intro hF heap root t x fuel hw hr hf
  exact ⟨has x t, go_Has hF heap root t x fuel hw hr hf,
    C15_has_spec t x (go_noDupKeys heap root t hw hr)⟩

theorem go_Add_spec : GoSrc.New_Found = true → GoSrc.Trie_Add_Found = true →
    ∀ (heap : Heap) (root : Int) (t : T) (b : Bytes) (fuel : Nat),
      HWF heap root → Rep heap root t → b.length + 1 ≤ fuel →
      ∃ heap' t', GoSrc.Trie_Add fuel heap root b = some heap' ∧ HWF heap' root ∧
        Rep heap' root t' ∧ absSet t' = specAdd b (absSet t) := by
  intro hN hF heap root t b fuel hw hr hf
  obtain ⟨heap', h1, h2, h3⟩ := go_Add hN hF heap root t b fuel hw hr hf
  exact ⟨heap', add b t, h1, h2, h3, C15_add_spec b t (go_noDupKeys heap root t hw hr)⟩

theorem go_Delete_spec : GoSrc.Trie_Delete_Found = true →
    ∀ (heap : Heap) (root : Int) (t : T) (b : Bytes), HWF heap root → Rep heap root t → b ≠ [] →
      ∃ flag heap' t', GoSrc.Trie_Delete heap root b = some (flag, heap') ∧ HWF heap' root ∧
        Rep heap' root t' ∧ absSet t' = specDel b (absSet t) ∧
        (flag = true ↔ specDelFlag b (absSet t)) := by
  intro hF heap root t b hw hr hb
  have hnd := go_noDupKeys heap root t hw hr
  obtain ⟨d1, d2⟩ := go_Delete hF heap root t b hw hr
  obtain ⟨_, s2, s3⟩ := C15_step (.del b) t hnd
  simp only [specStep, specResult, if_neg hb] at s2 s3
  cases hd : del b t with
  | none =>
    simp only [step, hd] at s2 s3
    exact ⟨false, heap, t, d1 hd, hw, hr, s2, by simpa [Agrees] using s3⟩
  | some t' =>
    simp only [step, hd] at s2 s3
    obtain ⟨heap', h1, h2, h3⟩ := d2 t' hd
    exact ⟨true, heap', t', h1, h2, h3, s2, by simpa [Agrees] using s3⟩

example : HWF heapA 0 ∧ Rep heapA 0 trieA ∧ ([97, 99] : Bytes) ≠ [] :=
  ⟨heapA_ok.1, heapA_ok.2, by decide⟩

/-! ## 7. Every history -/

/-- For EVERY list of `Add` / `Delete` calls, on the trie returned by `New()` in the empty heap
(`goHistory`: all calls on the same root pointer, each on the heap the previous one left): no call
panics, the returned flags are exactly the model's `results`, and the final heap satisfies the
invariant and represents the model's final trie `run ops .nil`. -/
theorem go_history : GoSrc.New_Found = true → GoSrc.Trie_Add_Found = true →
    GoSrc.Trie_Delete_Found = true →
    ∀ (ops : List Op) (fuel : Nat), (∀ op ∈ ops, (opBytes op).length + 1 ≤ fuel) →
      ∃ heap', goHistory fuel ops = some (results ops .nil, heap', 0) ∧
        HWF heap' 0 ∧ Rep heap' 0 (run ops .nil) := by
  intro hN hA hD ops fuel hf
  obtain ⟨heap', S', h1, h2⟩ := goHistory_good hN hA hD fuel ops hf
  exact ⟨heap', h1, of_good h2⟩

/-- … from any invariant heap, not only from `New()` -/
theorem go_history_from : GoSrc.New_Found = true → GoSrc.Trie_Add_Found = true →
    GoSrc.Trie_Delete_Found = true →
    ∀ (heap : Heap) (root : Int) (t : T) (ops : List Op) (fuel : Nat),
      HWF heap root → Rep heap root t → (∀ op ∈ ops, (opBytes op).length + 1 ≤ fuel) →
      ∃ heap', goRun fuel ops (heap, root) = some (results ops t, heap') ∧
        HWF heap' root ∧ Rep heap' root (run ops t) := by
  intro hN hA hD heap root t ops fuel hw hr hf
  obtain ⟨n, S, rfl, hg⟩ := good_of hw hr
  obtain ⟨heap', S', h1, h2⟩ := goRun_good hN hA hD fuel ops heap n t S hg hf
  exact ⟨heap', h1, of_good h2⟩

/-- After any history `Has` on the final heap answers what the model answers on its final trie. -/
theorem go_history_has : GoSrc.New_Found = true → GoSrc.Trie_Add_Found = true →
    GoSrc.Trie_Has_Found = true → GoSrc.Trie_Delete_Found = true →
    ∀ (ops : List Op) (fuel : Nat), (∀ op ∈ ops, (opBytes op).length + 1 ≤ fuel) →
      ∃ heap', goHistory fuel ops = some (results ops .nil, heap', 0) ∧
        ∀ (x : Bytes) (fuel' : Nat), x.length + 1 ≤ fuel' →
          GoSrc.Trie_Has fuel' heap' 0 x = some (has x (run ops .nil)) := by
  intro hN hA hH hD ops fuel hf
  obtain ⟨heap', h1, h2, h3⟩ := go_history hN hA hD ops fuel hf
  exact ⟨heap', h1, fun x fuel' hx => go_Has hH heap' 0 _ x fuel' h2 h3 hx⟩

/-- `C15_reachable` for the source text: after any history from `New()` the heap is invariant, the
trie it holds stands for exactly the set the specification computes (`runSpec`: `specAdd` /
`specDel` from the empty set), that set is an antichain of non-empty sequences, and every flag
`Delete` returned was the specified one. -/
theorem go_reachable : GoSrc.New_Found = true → GoSrc.Trie_Add_Found = true →
    GoSrc.Trie_Delete_Found = true →
    ∀ (ops : List Op) (fuel : Nat), (∀ op ∈ ops, (opBytes op).length + 1 ≤ fuel) →
      ∃ flags heap' t, goHistory fuel ops = some (flags, heap', 0) ∧
        HWF heap' 0 ∧ Rep heap' 0 t ∧ NoDupKeys t ∧
        (∀ y, y ∈ abs t ↔ runSpec ops SSet.empty y) ∧
        IsAntichain (runSpec ops SSet.empty) ∧
        AgreeAll flags (specResults ops SSet.empty) := by
  intro hN hA hD ops fuel hf
  obtain ⟨heap', h1, h2, h3⟩ := go_history hN hA hD ops fuel hf
  obtain ⟨r1, r2, r3, r4⟩ := C15_reachable ops
  exact ⟨_, heap', _, h1, h2, h3, r1, r2, r3, r4⟩

/-- `C15_reachable_observe` for the source text: what `Has` answers after any history is the
specified observation — `x` is empty or a prefix of a member of the specified set. -/
theorem go_reachable_observe : GoSrc.New_Found = true → GoSrc.Trie_Add_Found = true →
    GoSrc.Trie_Has_Found = true → GoSrc.Trie_Delete_Found = true →
    ∀ (ops : List Op) (fuel : Nat), (∀ op ∈ ops, (opBytes op).length + 1 ≤ fuel) →
      ∃ flags heap', goHistory fuel ops = some (flags, heap', 0) ∧
        AgreeAll flags (specResults ops SSet.empty) ∧
        ∀ (x : Bytes) (fuel' : Nat), x.length + 1 ≤ fuel' →
          ∃ r, GoSrc.Trie_Has fuel' heap' 0 x = some r ∧
            (r = true ↔ specHas x (runSpec ops SSet.empty)) := by
  intro hN hA hH hD ops fuel hf
  obtain ⟨heap', h1, h2⟩ := go_history_has hN hA hH hD ops fuel hf
  obtain ⟨_, _, _, r4⟩ := C15_reachable ops
  obtain ⟨o1, _, _⟩ := C15_reachable_observe ops
  exact ⟨_, heap', h1, r4, fun x fuel' hx => ⟨_, h2 x fuel' hx, o1 x⟩⟩

/-! ## 8. A concrete history -/

/-- Add "abc", "abd", "ax" (shared prefixes "ab", "a"); Delete "abc" (node "ab" keeps "d": stop);
Delete "abd" (node "ab" becomes empty: the edge "b" of "a" goes too, "a" keeps "x": stop);
Delete "zz" (absent: false); Add "b"; Delete "ax" (prunes "x" and then "a", up to the root). -/
def opsEx : List Op :=
  [.add [97, 98, 99], .add [97, 98, 100], .add [97, 120], .del [97, 98, 99], .del [97, 98, 100],
   .del [122, 122], .add [98], .del [97, 120]]

example : ∀ op ∈ opsEx, (opBytes op).length + 1 ≤ 4 := by decide

-- the model
example : results opsEx .nil = [none, none, none, some true, some true, some false, none, some true] ∧
    run opsEx .nil = .cons 98 .nil .nil := by decide

-- the translated source, evaluated: the same flags; the cells 1 … 5 are garbage now
example : allFound = false ∨
    goHistory 4 opsEx = some ([none, none, none, some true, some true, some false, none, some true],
      [[(98, 6)], [], [], [], [], [], []], 0) := by decide

-- the heap after the three Adds, after Delete "abc", and after Delete "abd" (pruned one level up)
example : allFound = false ∨
    goHistory 4 (opsEx.take 3) = some ([none, none, none],
        [[(97, 1)], [(98, 2), (120, 5)], [(99, 3), (100, 4)], [], [], []], 0) := by decide
example : allFound = false ∨
    goHistory 4 (opsEx.take 4) = some ([none, none, none, some true],
        [[(97, 1)], [(98, 2), (120, 5)], [(100, 4)], [], [], []], 0) := by decide
example : allFound = false ∨
    goHistory 4 (opsEx.take 5) = some ([none, none, none, some true, some true],
        [[(97, 1)], [(120, 5)], [], [], [], []], 0) := by decide

-- `Has` before and after the two Deletes
example : allFound = false ∨
    ((List.map (GoSrc.Trie_Has 4 [[(97, 1)], [(98, 2), (120, 5)], [(99, 3), (100, 4)], [], [], []] 0)
        [[97, 98, 99], [97, 98], [97, 120], [97, 98, 101], [98], []])
      = [some true, some true, some true, some false, some false, some true] ∧
     (List.map (GoSrc.Trie_Has 4 [[(97, 1)], [(120, 5)], [], [], [], []] 0)
        [[97, 98, 99], [97, 98], [97, 120], [97, 98, 101], [98], []])
      = [some false, some false, some true, some false, some false, some true]) := by decide

-- an intermediate heap of the history satisfies the invariant (also a consequence of `go_history`)
example : HWF [[(97, 1)], [(98, 2), (120, 5)], [(100, 4)], [], [], []] 0 :=
  checkHWF_hwf (fuel := 8) (by decide)

example : allFound = false ∨ allFound = true := by decide

end Bio.Props.C15Go
