/-
  C12 for the Go SOURCE TEXT: `complementByte`, `ReverseComplement` and `CanonicalSubsequences` of
  sequtil/sequtil.go, as translated on every run into `Bio.Generated.GoSrc`, compute the hand-written
  models `comp`, `revComp`, `canonical`/`canonicalLog` of `Bio.Model.Sequtil` on the complement table
  observed from the running Go code — for every input, every `k` and every deterministic consumer
  (`yield`) of the iterator, stateful ones included, panics (`none`) included.
  Guarded by the translator's `<f>_Found` flags (see `Bio.Lemmas.GoSrc`).
-/
import Bio.Lemmas.GoSrc
import Bio.Generated.Tables
namespace Bio.Props.C12Go
open Bio Bio.Generated Bio.GoSrcLemmas

/-- every translator flag this file depends on; the non-vacuity examples below are stated as
`allFound = false ∨ …` so that a source the translator no longer recognises is not an alarm -/
def allFound : Bool := GoSrc.complementByte_Found && GoSrc.ReverseComplement_Found && GoSrc.CanonicalSubsequences_Found

theorem go_complementByte : GoSrc.complementByte_Found = true →
    ∀ b : UInt8, GoSrc.complementByte Generated.compTable b = Sequtil.comp Generated.compTable b :=
  fun hF b => complementByte_eq hF Generated.compTable b

example : allFound = false ∨ (GoSrc.complementByte_Found = true) := by decide
example : allFound = false ∨ (GoSrc.complementByte Generated.compTable 65 = some 84
    ∧ GoSrc.complementByte Generated.compTable 110 = some 110
    ∧ GoSrc.complementByte Generated.compTable 88 = none) := by decide

theorem go_ReverseComplement : GoSrc.ReverseComplement_Found = true → GoSrc.complementByte_Found = true →
    ∀ dst src : Bytes,
      GoSrc.ReverseComplement Generated.compTable dst src = Sequtil.revComp Generated.compTable dst src :=
  fun hF hC dst src => ReverseComplement_eq hF hC Generated.compTable dst src

example : allFound = false ∨ (GoSrc.ReverseComplement_Found = true ∧ GoSrc.complementByte_Found = true) := by decide
example : allFound = false ∨ (GoSrc.ReverseComplement Generated.compTable [7] [65, 65, 99, 78] = some [7, 78, 103, 84, 84]
    ∧ GoSrc.ReverseComplement Generated.compTable [] [65, 88] = none) := by decide

/-- ANY deterministic consumer, stateful ones included (`h` is asked about the whole log of items
handed to it so far, the current one last, and may stop the iteration by answering `false`): the log
is the model's list of canonical k-mers cut after the first item at which `h` says stop — for every
`k : Nat` (`k = 0` and `k > len(seq) + 1` included); `none` = panic. -/
theorem go_CanonicalSubsequences_stateful : GoSrc.CanonicalSubsequences_Found = true →
    GoSrc.ReverseComplement_Found = true → GoSrc.complementByte_Found = true →
    ∀ (h : List Bytes → Bool) (seq : Bytes) (k : Nat),
      GoSrc.CanonicalSubsequences Generated.compTable seq (k : Int) h
        = (Sequtil.canonical Generated.compTable seq k).map (GoRt.takeThroughH h []) :=
  fun hF hR hC h seq k => CanonicalSubsequences_hist hF hR hC Generated.compTable h seq k

example : allFound = false ∨ (GoSrc.CanonicalSubsequences_Found = true ∧ GoSrc.ReverseComplement_Found = true
    ∧ GoSrc.complementByte_Found = true) := by decide
-- AAAA, k = 2: the three canonical k-mers are all AA.  A consumer that stops at its second item sees
-- [AA, AA]; no pure consumer can stop at the second item but not at the (identical) first.
example : allFound = false ∨ (GoSrc.CanonicalSubsequences Generated.compTable [65, 65, 65, 65] 2 (fun l => l.length < 2)
      = some [[65, 65], [65, 65]]
    ∧ GoSrc.CanonicalSubsequences Generated.compTable [65, 65, 65, 65] 2 (fun _ => true)
      = some [[65, 65], [65, 65], [65, 65]]) := by decide

example : ∀ f : Bytes → Bool,
    Sequtil.canonicalLog Generated.compTable f [65, 65, 65, 65] 2 ≠ some [[65, 65], [65, 65]] := by
  intro f
  have e : Sequtil.canonicalLog Generated.compTable f [65, 65, 65, 65] 2
      = some ([65, 65] :: (if f [65, 65] then [65, 65] :: (if f [65, 65] then [65, 65] ::
          (if f [65, 65] then [] else []) else []) else [])) := rfl
  rw [e]
  cases f [65, 65] <;> decide

/-- Pure consumers `f` (asked about the current item only): the model's `canonicalLog`. -/
theorem go_CanonicalSubsequences : GoSrc.CanonicalSubsequences_Found = true →
    GoSrc.ReverseComplement_Found = true → GoSrc.complementByte_Found = true →
    ∀ (f : Bytes → Bool) (seq : Bytes) (k : Nat),
      GoSrc.CanonicalSubsequences Generated.compTable seq (k : Int)
          (fun l => match l.getLast? with | some x => f x | none => true)
        = Sequtil.canonicalLog Generated.compTable f seq k :=
  fun hF hR hC f seq k => CanonicalSubsequences_eq hF hR hC Generated.compTable f seq k

-- AAGT, k = 2: AA|TT -> AA, AG|CT -> AG, GT|AC -> AC; a consumer that stops at AG sees two items
example : allFound = false ∨ (GoSrc.CanonicalSubsequences Generated.compTable [65, 65, 71, 84] 2
        (fun l => match l.getLast? with | some x => (fun _ => true) x | none => true)
      = some [[65, 65], [65, 71], [65, 67]]
    ∧ GoSrc.CanonicalSubsequences Generated.compTable [65, 65, 71, 84] 2
        (fun l => match l.getLast? with | some x => (fun x => x != [65, 71]) x | none => true)
      = some [[65, 65], [65, 71]]
    ∧ GoSrc.CanonicalSubsequences Generated.compTable [65, 65, 71, 84] 9 (fun _ => true) = some []
    ∧ GoSrc.CanonicalSubsequences Generated.compTable [65, 88] 1 (fun _ => true) = none) := by decide

end Bio.Props.C12Go
