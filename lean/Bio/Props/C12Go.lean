/-
  C12 for the Go SOURCE TEXT: `complementByte`, `ReverseComplement` and `CanonicalSubsequences` of
  sequtil/sequtil.go, as translated on every run into `Bio.Generated.GoSrc`, compute the hand-written
  models `comp`, `revComp`, `canonicalLog` of `Bio.Model.Sequtil` on the complement table observed
  from the running Go code — for every input, every `k` and every consumer (`yield`) function,
  panics (`none`) included.  Guarded by the translator's `<f>_Found` flags (see `Bio.Lemmas.GoSrc`).
-/
import Bio.Lemmas.GoSrc
import Bio.Generated.Tables
namespace Bio.Props.C12Go
open Bio Bio.Generated Bio.GoSrcLemmas

/-- every translator flag this file depends on; the non-vacuity examples below are stated as
`allFound = false ∨ …` so that a source the translator no longer recognises is not an alarm -/
def allFound : Bool := GoSrc.complementByte_Found && GoSrc.ReverseComplement_Found && GoSrc.CanonicalSubsequences_Found

theorem go_complementByte : GoSrc.complementByte_Found = true →
    ∀ b : UInt8, GoSrc.complementByte Generated.compTable b = Sequtil.comp Generated.compTable b :=
  fun hF b => complementByte_eq hF Generated.compTable b

example : allFound = false ∨ (GoSrc.complementByte_Found = true) := by decide
example : allFound = false ∨ (GoSrc.complementByte Generated.compTable 65 = some 84
    ∧ GoSrc.complementByte Generated.compTable 110 = some 110
    ∧ GoSrc.complementByte Generated.compTable 88 = none) := by decide

theorem go_ReverseComplement : GoSrc.ReverseComplement_Found = true → GoSrc.complementByte_Found = true →
    ∀ dst src : Bytes,
      GoSrc.ReverseComplement Generated.compTable dst src = Sequtil.revComp Generated.compTable dst src :=
  fun hF hC dst src => ReverseComplement_eq hF hC Generated.compTable dst src

example : allFound = false ∨ (GoSrc.ReverseComplement_Found = true ∧ GoSrc.complementByte_Found = true) := by decide
example : allFound = false ∨ (GoSrc.ReverseComplement Generated.compTable [7] [65, 65, 99, 78] = some [7, 78, 103, 84, 84]
    ∧ GoSrc.ReverseComplement Generated.compTable [] [65, 88] = none) := by decide

/-- The log of items handed to the consumer `f` (which may stop the iteration by returning `false`)
is the model's, for every `k : Nat` (`k = 0` and `k > len(seq) + 1` included). -/
theorem go_CanonicalSubsequences : GoSrc.CanonicalSubsequences_Found = true →
    GoSrc.ReverseComplement_Found = true → GoSrc.complementByte_Found = true →
    ∀ (f : Bytes → Bool) (seq : Bytes) (k : Nat),
      GoSrc.CanonicalSubsequences Generated.compTable seq (k : Int) f
        = Sequtil.canonicalLog Generated.compTable f seq k :=
  fun hF hR hC f seq k => CanonicalSubsequences_eq hF hR hC Generated.compTable f seq k

example : allFound = false ∨ (GoSrc.CanonicalSubsequences_Found = true ∧ GoSrc.ReverseComplement_Found = true
    ∧ GoSrc.complementByte_Found = true) := by decide
-- AAGT, k = 2: AA|TT -> AA, AG|CT -> AG, GT|AC -> AC; a consumer that stops at AG sees two items
example : allFound = false ∨ (GoSrc.CanonicalSubsequences Generated.compTable [65, 65, 71, 84] 2 (fun _ => true)
      = some [[65, 65], [65, 71], [65, 67]]
    ∧ GoSrc.CanonicalSubsequences Generated.compTable [65, 65, 71, 84] 2 (fun x => x != [65, 71])
      = some [[65, 65], [65, 71]]
    ∧ GoSrc.CanonicalSubsequences Generated.compTable [65, 65, 71, 84] 9 (fun _ => true) = some []
    ∧ GoSrc.CanonicalSubsequences Generated.compTable [65, 88] 1 (fun _ => true) = none) := by decide

end Bio.Props.C12Go
