/-
  C09 — with a zero gap-open score (`m GAP GAP = 0`) Global and Local are
  optimal; Levenshtein = edit distance; symmetry under swapping the inputs.

  Specification used here (independent of the DP): an alignment of `a` and `b`
  is a step list `s` with `rescore m .none a b s = some (v, [], [])` (it consumes
  both strings exactly); `v` is its score under the documented scoring.

  Helper lemmas: `Bio/Lemmas/AlignOpt.lean` (namespace `Bio.Align.Opt`).
  Attainment ("the returned score is the score of an alignment") is
  `global_valid` of `Bio/Props/C08.lean`.
-/
import Bio.Lemmas.AlignOpt
import Bio.Props.C08
namespace Bio.Align

/-! ## 1. Global is optimal for zero gap-open -/

/-- No alignment of `a` and `b` scores more than the score returned by Global. -/
theorem global_optimal_zero_open (m : Mat) (a b : Bytes) (h0 : m GAP GAP = 0) :
    ∀ s v, rescore m .none a b s = some (v, [], []) → v ≤ (globalT m a b).2 :=
  fun s v h => Opt.global_opt_zero m a b h0 s v h

/-- Combined with `global_valid`: the returned score is the maximum over all
alignments, attained by the returned steps. -/
theorem global_is_max_zero_open (m : Mat) (a b : Bytes) (h0 : m GAP GAP = 0) :
    rescore m .none a b (globalT m a b).1 = some ((globalT m a b).2, [], []) ∧
    ∀ s v, rescore m .none a b s = some (v, [], []) → v ≤ (globalT m a b).2 :=
  ⟨global_valid m a b, global_optimal_zero_open m a b h0⟩

/-- A matrix with zero gap-open, non-trivial substitution and gap scores. -/
def zeroOpenMat : Mat := fun x y =>
  if x = GAP ∧ y = GAP then 0 else if x = GAP ∨ y = GAP then -2 else if x = y then 3 else -1

example : zeroOpenMat GAP GAP = 0 := by decide

example : globalT zeroOpenMat [97, 98, 99, 100] [97, 100] = ([.mch, .del, .del, .mch], 2) := by
  decide +kernel

/-- A competing alignment (hypothesis of the theorem is satisfiable non-trivially). -/
example : rescore zeroOpenMat .none [97, 98, 99, 100] [97, 100] [.mch, .mch, .del, .del]
    = some (-2, [], []) := by decide +kernel

/-! ## 2. Local is optimal for zero gap-open -/

/-- No alignment of any substring `a[i..i')` with any substring `b[j..j')` scores
more than the score returned by Local; and that score is non-negative.
(The sign hypotheses `hg`, `hg'` are part of the requested statement; the proof
does not use them, see `local_optimal_zero_open'`.) -/
theorem local_optimal_zero_open (m : Mat) (a b : Bytes) (h0 : m GAP GAP = 0)
    (_hg : ∀ x ∈ a, m x GAP ≤ 0) (_hg' : ∀ y ∈ b, m GAP y ≤ 0) :
    (∀ i i' j j', i ≤ i' → i' ≤ a.length → j ≤ j' → j' ≤ b.length →
      ∀ s v, rescore m .none ((a.drop i).take (i' - i)) ((b.drop j).take (j' - j)) s
          = some (v, [], []) →
        v ≤ (localT m a b).2.2.2) ∧
    0 ≤ (localT m a b).2.2.2 :=
  ⟨fun i i' j j' hi hi' hj hj' s v h => Opt.local_opt_zero m a b h0 i i' j j' hi hi' hj hj' s v h,
   Opt.local_score_nonneg m a b⟩

/-- The same without any sign condition on the gap scores. -/
theorem local_optimal_zero_open' (m : Mat) (a b : Bytes) (h0 : m GAP GAP = 0) :
    (∀ i i' j j', i ≤ i' → i' ≤ a.length → j ≤ j' → j' ≤ b.length →
      ∀ s v, rescore m .none ((a.drop i).take (i' - i)) ((b.drop j).take (j' - j)) s
          = some (v, [], []) →
        v ≤ (localT m a b).2.2.2) ∧
    0 ≤ (localT m a b).2.2.2 :=
  ⟨fun i i' j j' hi hi' hj hj' s v h => Opt.local_opt_zero m a b h0 i i' j j' hi hi' hj hj' s v h,
   Opt.local_score_nonneg m a b⟩

/-- Combined with `local_valid_explicit` (C08): under the stated hypotheses the
returned score is the maximum over all alignments of all substring pairs — it is
itself the score of such an alignment (the empty alignment of empty substrings
when it is 0). -/
theorem local_is_max_zero_open (m : Mat) (a b : Bytes) (h0 : m GAP GAP = 0)
    (hg : ∀ x ∈ a, m x GAP ≤ 0) (hg' : ∀ y ∈ b, m GAP y ≤ 0) :
    (∃ i i' j j' s, i ≤ i' ∧ i' ≤ a.length ∧ j ≤ j' ∧ j' ≤ b.length ∧
      rescore m .none ((a.drop i).take (i' - i)) ((b.drop j).take (j' - j)) s
        = some ((localT m a b).2.2.2, [], [])) ∧
    (∀ i i' j j', i ≤ i' → i' ≤ a.length → j ≤ j' → j' ≤ b.length →
      ∀ s v, rescore m .none ((a.drop i).take (i' - i)) ((b.drop j).take (j' - j)) s
          = some (v, [], []) →
        v ≤ (localT m a b).2.2.2) := by
  refine ⟨?_, (local_optimal_zero_open m a b h0 hg hg').1⟩
  rcases local_valid_explicit m a b ⟨by omega, hg, hg'⟩ with
    h | ⟨p, li, lj, mi, mj, s, h, _, h1, h2, h3, h4, _, hr, _⟩
  · exact ⟨0, 0, 0, 0, [], Nat.le_refl _, Nat.zero_le _, Nat.le_refl _, Nat.zero_le _,
      by rw [h]; simp [rescore]⟩
  · refine ⟨li, mi, lj, mj, p, by omega, h2, by omega, h4, ?_⟩
    rw [h]
    exact Opt.rescore_segment m a b li mi lj mj (by omega) h2 (by omega) h4 p .none s hr

example : (∀ x ∈ ([120, 97, 98, 99, 100] : Bytes), zeroOpenMat x GAP ≤ 0) ∧
    (∀ y ∈ ([97, 98, 100, 121] : Bytes), zeroOpenMat GAP y ≤ 0) := by decide

example : localT zeroOpenMat [120, 97, 98, 99, 100] [97, 98, 100, 121]
    = ([.mch, .mch, .del, .mch], 1, 0, 7) := by decide +kernel

/-- A substring pair alignment as quantified in the theorem: `a[1..3)`, `b[0..2)`. -/
example : rescore zeroOpenMat .none
    ((([120, 97, 98, 99, 100] : Bytes).drop 1).take (3 - 1))
    ((([97, 98, 100, 121] : Bytes).drop 0).take (2 - 0)) [.mch, .mch] = some (6, [], []) := by
  decide +kernel

/-! ## 3. Levenshtein -/

/-- Edit distance (insertions, deletions, substitutions, unit cost): the
Wagner–Fischer recurrence from the front of the strings, in the unconditional
three-way-minimum form. -/
def editDistance : Bytes → Bytes → Nat
  | [], b => b.length
  | a, [] => a.length
  | x :: a, y :: b =>
    min (editDistance a b + (if x = y then 0 else 1))
      (min (editDistance a (y :: b) + 1) (editDistance (x :: a) b + 1))

/-- `align.Levenshtein`: 0 on the diagonal (all 256 byte values, so also
`(GAP, GAP)`), -1 off the diagonal. -/
def levMat : Mat := fun x y => if x = y then 0 else -1

theorem levenshtein_is_edit_distance (a b : Bytes) (ha : GAP ∉ a) (hb : GAP ∉ b) :
    (globalT levMat a b).2 = -(editDistance a b : Int) := by
  have hed : ∀ a b, editDistance a b = Opt.ed a b := by
    intro a b
    fun_induction editDistance a b <;> simp [Opt.ed, *]
  have hlev : levMat = Opt.lev := rfl
  rw [hed, hlev]
  apply Int.le_antisymm
  · exact Opt.lev_le_ed _ .none a b _ ha hb (global_valid Opt.lev a b)
  · obtain ⟨s, hs⟩ := Opt.lev_attains_ed a b ha hb
    exact Opt.global_opt_zero Opt.lev a b Opt.lev_gap_gap s _ hs

/-- "kitten" → "sitting": distance 3. -/
example : editDistance [107, 105, 116, 116, 101, 110] [115, 105, 116, 116, 105, 110, 103] = 3 := by
  simp [editDistance]

example : GAP ∉ ([107, 105, 116, 116, 101, 110] : Bytes) ∧
    GAP ∉ ([115, 105, 116, 116, 105, 110, 103] : Bytes) := by decide

example : (globalT levMat [107, 105, 116, 116, 101, 110] [115, 105, 116, 116, 105, 110, 103]).2
    = -3 := by decide +kernel

/-- The hypothesis is needed: a byte 255 inside a string is deleted for free. -/
example : (globalT levMat [255] []).2 = 0 ∧ editDistance [255] [] = 1 := by
  constructor
  · decide +kernel
  · simp [editDistance]

/-! ## 4. Symmetry under swapping the inputs -/

theorem swap_symmetric (m : Mat) (a b : Bytes) (hs : ∀ x y, m x y = m y x)
    (h0 : m GAP GAP = 0) : (globalT m a b).2 = (globalT m b a).2 := by
  apply Int.le_antisymm
  · exact Opt.swap_le m a b hs h0 _ _ (global_valid m a b)
  · exact Opt.swap_le m b a hs h0 _ _ (global_valid m b a)

/-- `zeroOpenMat` and `levMat` are symmetric with zero gap-open. -/
example : (∀ x y, zeroOpenMat x y = zeroOpenMat y x) ∧ zeroOpenMat GAP GAP = 0 := by
  refine ⟨?_, by decide⟩
  intro x y
  simp only [zeroOpenMat, and_comm, or_comm, eq_comm]

example : (∀ x y, levMat x y = levMat y x) ∧ levMat GAP GAP = 0 := by
  refine ⟨?_, by decide⟩
  intro x y
  simp only [levMat, eq_comm]

example : (globalT zeroOpenMat [97, 98, 99, 100] [97, 100]).2 = 2 ∧
    (globalT zeroOpenMat [97, 100] [97, 98, 99, 100]).2 = 2 := by decide +kernel

end Bio.Align
