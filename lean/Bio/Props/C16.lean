/-
  C16 — regions/regions.go (after the repair that skips intervals with
  start ≥ end): `NewIndex(starts, ends).At(i)` is exactly the ascending list of
  the indices `x` with `starts[x] ≤ i < ends[x]`, for all inputs of equal
  length and every integer position; unequal lengths panic.
-/
import Bio.Lemmas.Regions
namespace Bio.Regions

/-- 1. `At` agrees with the brute-force scan: duplicates and nested intervals
are all reported, empty/inverted intervals never, and nothing is reported where
no interval covers `i` (including below the minimum and above the maximum). -/
theorem at_spec (starts ends : List Int) (h : starts.length = ends.length) (i : Int) :
    ∃ idx, newIndex starts ends = some idx ∧ at' idx i = covering starts ends i := by
  exact ⟨_, newIndex_eq h, at'_sweep_sorted starts ends i⟩

example : ([5, 3, 1, 3, 3] : List Int).length = ([2, 3, 4, 9, 9] : List Int).length := by decide

/-- 2. `NewIndex` panics on lists of different lengths. -/
theorem length_mismatch (starts ends : List Int) (h : starts.length ≠ ends.length) :
    newIndex starts ends = none := by
  simp [newIndex, h]

example : ([1, 2] : List Int).length ≠ ([3] : List Int).length := by decide

/-- 3. The answer is strictly ascending (hence duplicate-free). -/
theorem result_ascending (starts ends : List Int) (h : starts.length = ends.length) (i : Int) :
    ∃ idx, newIndex starts ends = some idx ∧ (at' idx i).Pairwise (· < ·) := by
  obtain ⟨idx, h1, h2⟩ := at_spec starts ends h i
  exact ⟨idx, h1, h2 ▸ pairwise_covering _ _ _⟩

/-- 4. An empty or inverted interval (`start ≥ end`) is never reported. -/
theorem empty_interval_never_reported (starts ends : List Int)
    (h : starts.length = ends.length) (i : Int) (x : Nat) (s e : Int)
    (hs : starts[x]? = some s) (he : ends[x]? = some e) (hse : s ≥ e) :
    ∃ idx, newIndex starts ends = some idx ∧ x ∉ at' idx i := by
  obtain ⟨idx, h1, h2⟩ := at_spec starts ends h i
  refine ⟨idx, h1, ?_⟩
  rw [h2, mem_covering]
  rintro ⟨s', q', hs', hq', h3, h4⟩
  rw [hs] at hs'; rw [he] at hq'
  simp only [Option.some.injEq] at hs' hq'
  omega

/-- 3 and 4 for *the* index returned by `newIndex` (it is unique, so these are
the same statements with the existential unpacked). -/
theorem result_ascending_of_some (starts ends : List Int) (i : Int) (idx : Index)
    (h : newIndex starts ends = some idx) : (at' idx i).Pairwise (· < ·) := by
  have hlen : starts.length = ends.length := by
    apply Classical.byContradiction
    intro hne
    rw [length_mismatch starts ends hne] at h
    simp at h
  obtain ⟨idx', h1, h2⟩ := result_ascending starts ends hlen i
  rw [h] at h1; cases h1; exact h2

theorem empty_interval_never_reported_of_some (starts ends : List Int) (i : Int) (idx : Index)
    (h : newIndex starts ends = some idx) (x : Nat) (s e : Int)
    (hs : starts[x]? = some s) (he : ends[x]? = some e) (hse : s ≥ e) :
    x ∉ at' idx i := by
  have hlen : starts.length = ends.length := by
    apply Classical.byContradiction
    intro hne
    rw [length_mismatch starts ends hne] at h
    simp at h
  obtain ⟨idx', h1, h2⟩ := empty_interval_never_reported starts ends hlen i x s e hs he hse
  rw [h] at h1; cases h1; exact h2

/-- 5. The breakpoints of the index are strictly increasing in position, so
`At`'s binary search (`sort.Search`) and the model's linear scan pick the same
breakpoint. -/
theorem breakpoints_sorted (starts ends : List Int) (h : starts.length = ends.length) :
    ∃ idx, newIndex starts ends = some idx ∧ idx.Pairwise (fun a b => a.1 < b.1) := by
  exact ⟨_, newIndex_eq h, breakpoints_sorted_aux _ (sorted_mergeSort_evLe _)⟩

/-- 6. Independence of the sorting algorithm: the sweep over ANY `eventLess`-sorted
arrangement of the input's events (what a correct `sort.Slice` produces) gives
the specified answers and strictly increasing breakpoints. -/
theorem at_spec_any_sort (starts ends : List Int) (i : Int) (evs : List Ev)
    (hperm : evs.Perm (eventsFrom 0 starts ends))
    (hsorted : evs.Pairwise (fun a b => evLe a b = true)) :
    at' (sweep evs (firstPos evs) []) i = covering starts ends i ∧
      (sweep evs (firstPos evs) []).Pairwise (fun a b => a.1 < b.1) :=
  ⟨at'_sweep_any_sorted starts ends i evs hsorted (fun _ => hperm.mem_iff),
    breakpoints_sorted_aux evs hsorted⟩

/-- The hypotheses of 6 are satisfiable (by the merge sort, for every input). -/
example (starts ends : List Int) :
    ((eventsFrom 0 starts ends).mergeSort evLe).Perm (eventsFrom 0 starts ends) ∧
    ((eventsFrom 0 starts ends).mergeSort evLe).Pairwise (fun a b => evLe a b = true) :=
  ⟨List.mergeSort_perm _ _, sorted_mergeSort_evLe _⟩

/-- The order is total and antisymmetric on events, hence the sorted arrangement is unique. -/
example : ∀ a b : Ev, evLe a b = true → evLe b a = true → a = b := by
  intro a b h1 h2
  rw [evLe_iff] at h1 h2
  obtain ⟨ai, ap, as⟩ := a
  obtain ⟨bi, bp, bs⟩ := b
  simp only at h1 h2
  have h3 : ap = bp := by omega
  have h4 : as.toNat = bs.toNat := by omega
  have h5 : ai = bi := by omega
  have h6 : as = bs := by cases as <;> cases bs <;> simp_all
  subst h3; subst h5; subst h6; rfl

/-! ## Non-vacuity / concrete instances

`starts = [5,3,1,3,3]`, `ends = [2,3,4,9,9]`: interval 0 is inverted, 1 is
empty, 2 = [1,4), 3 and 4 are duplicates [3,9) nested/overlapping with 2. -/

section Examples

private def exS : List Int := [5, 3, 1, 3, 3]
private def exE : List Int := [2, 3, 4, 9, 9]

/-- The hypotheses of theorem 4 are satisfiable (index 1 is empty, index 0 inverted),
also in the `_of_some` form. -/
example : exS.length = exE.length ∧ exS[1]? = some 3 ∧ exE[1]? = some 3 ∧ (3 : Int) ≥ 3 := by
  decide
example : exS.length = exE.length ∧ exS[0]? = some 5 ∧ exE[0]? = some 2 ∧ (5 : Int) ≥ 2 := by
  decide
example : ∃ idx, newIndex exS exE = some idx :=
  ⟨_, (at_spec exS exE (by decide) 0).choose_spec.1⟩

/-- The specification itself on the sample (pure `List.range`/`filter`, so `decide` works):
below the minimum, at a start, inside the nest, after interval 2 ends, at the
last covered position, at the maximum end, above it. -/
example : covering exS exE 0 = [] := by decide
example : covering exS exE 1 = [2] := by decide
example : covering exS exE 3 = [2, 3, 4] := by decide
example : covering exS exE 4 = [3, 4] := by decide
example : covering exS exE 8 = [3, 4] := by decide
example : covering exS exE 9 = [] := by decide
example : covering exS exE 100 = [] := by decide

/-- … and the model's answers on the same sample, obtained through `at_spec`. -/
example : ∃ idx, newIndex exS exE = some idx ∧ at' idx 3 = [2, 3, 4] ∧ at' idx 0 = [] ∧
    at' idx 9 = [] := by
  have h : exS.length = exE.length := by decide
  obtain ⟨idx, h1, h2⟩ := at_spec exS exE h 3
  refine ⟨idx, h1, ?_, ?_, ?_⟩
  · rw [h2]; decide
  · obtain ⟨idx', h1', h2'⟩ := at_spec exS exE h 0
    rw [h1] at h1'; cases h1'; rw [h2']; decide
  · obtain ⟨idx', h1', h2'⟩ := at_spec exS exE h 9
    rw [h1] at h1'; cases h1'; rw [h2']; decide

/-- Direct evaluation of the model (independent of the theorems above). -/
example : newIndex [5, 3, 1, 3, 3] [2, 3, 4, 9, 9] =
    some [(1, [2]), (3, [2, 3, 4]), (4, [3, 4]), (9, [])] := by
  simp [newIndex, eventsFrom, List.mergeSort, List.MergeSort.Internal.splitInTwo, evLe, evLess,
    sweep, insertNat]

example : (List.map (at' [(1, [2]), (3, [2, 3, 4]), (4, [3, 4]), (9, [])]) [0, 1, 2, 3, 4, 8, 9, 100])
    = [[], [2], [2], [2, 3, 4], [3, 4], [3, 4], [], []] := by decide

/-- All intervals empty or inverted: nothing is ever reported. -/
example : newIndex [3, 7] [3, 2] = some [(0, [])] := by
  simp [newIndex, eventsFrom, sweep]

end Examples

end Bio.Regions
