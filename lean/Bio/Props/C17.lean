/-
  Property C17 (mash), discrete part: the sketch is the bottom-`n` of the
  distinct hash values of the canonical k-mers (descending); invariance under
  order, partition over calls, letter case and strand; smaller sketch = tail;
  the merge walk `intersect` on full sketches.  The real-valued formula is in
  `Bio/Props/C17Real.lean`.  Parametric in the hash `h` and the complement
  table `tbl`.
-/
import Bio.Lemmas.Mash
namespace Bio.Mash
open Sequtil

def CompOK (tbl : List UInt8) : Prop :=
  ∀ b c, comp tbl b = some c → comp tbl c = some b

def CaseOK (tbl : List UInt8) : Prop :=
  ∀ b, comp tbl (upperByte b) = (comp tbl b).map upperByte

instance (tbl : List UInt8) : Decidable (CompOK tbl) :=
  decidable_of_iff ((List.range 256).all (fun n => match comp tbl (UInt8.ofNat n) with
      | some c => comp tbl c == some (UInt8.ofNat n)
      | none => true) = true) <| by
    unfold CompOK
    rw [forall_uint8, List.all_eq_true]
    simp only [List.mem_range]
    apply forall_congr'; intro n; apply forall_congr'; intro _
    cases comp tbl (UInt8.ofNat n) <;> simp

instance (tbl : List UInt8) : Decidable (CaseOK tbl) :=
  decidable_of_iff ((List.range 256).all (fun n =>
      comp tbl (upperByte (UInt8.ofNat n)) == (comp tbl (UInt8.ofNat n)).map upperByte) = true) <| by
    unfold CaseOK
    rw [forall_uint8, List.all_eq_true]
    simp only [List.mem_range, beq_iff_eq]

/-! ### Example data for the non-vacuity checks -/

/-- The complement table of /repo (`aAcCgGtTnN`, everything else 0 = panic). -/
def exTbl : List UInt8 :=
  List.replicate 65 0 ++ [84, 0, 71, 0, 0, 0, 67, 0, 0, 0, 0, 0, 0, 78, 0, 0, 0, 0, 0, 65] ++
  List.replicate 12 0 ++ [116, 0, 103, 0, 0, 0, 99, 0, 0, 0, 0, 0, 0, 110, 0, 0, 0, 0, 0, 97] ++
  List.replicate 139 0

/-- A small concrete hash. -/
def exHash (b : Bytes) : Nat := b.foldl (fun acc x => (acc * 31 + x.toNat) % 101) 7

example : exTbl.length = 256 := by decide +kernel
example : CompOK exTbl := by decide +kernel
example : CaseOK exTbl := by decide +kernel

/-! ## 1. The sketch is the bottom-`n` -/

/-- `Sequences(n,k,seqs)` = for the hashed canonical k-mers `ks.map h`, the `n`
smallest distinct values in descending order (`bottomN` is defined from
`dedup`/`sortAsc`/`take`/`reverse`, independently of `push`). Holds for all `n`
(also `n = 0`). -/
theorem sketch_is_bottom_n (tbl : List UInt8) (h : Bytes → Nat) (n k : Nat) (seqs : List Bytes) :
    sketch tbl h n k seqs = (kmers tbl k seqs).map (fun ks => bottomN n (ks.map h)) :=
  sketch_eq tbl h n k seqs

/-- The fold of `push` itself, for any list of hash values. -/
theorem C17_push_fold (n : Nat) (l : List Nat) : l.foldl (push n) [] = bottomN n l :=
  foldl_push_nil n l

/-- `bottomN` is what it says: strictly descending, … -/
theorem C17_bottomN_desc (n : Nat) (l : List Nat) : (bottomN n l).Pairwise (· > ·) :=
  SD_bottomN n l

/-- … of length `min n (number of distinct values)` (`dedup l` lists every value of `l` once), … -/
theorem C17_bottomN_length (n : Nat) (l : List Nat) :
    (bottomN n l).length = min n (dedup l).length ∧ (dedup l).Nodup ∧ ∀ x, x ∈ dedup l ↔ x ∈ l :=
  ⟨length_bottomN n l, nodup_dedup l, fun _ => mem_dedup⟩

/-- … and contains exactly the values of `l` with fewer than `n` distinct values below them. -/
theorem C17_bottomN_mem (n x : Nat) (l : List Nat) :
    x ∈ bottomN n l ↔ x ∈ l ∧ ((dedup l).filter (· < x)).length < n :=
  mem_bottomN

example : sketch exTbl exHash 3 2 [[65, 67, 103, 116, 65], [116, 116, 65]] = some [22, 20, 3] := by
  decide +kernel
example : bottomN 3 [5, 1, 9, 1, 3, 7, 3] = [5, 3, 1] := by decide
example : [5, 1, 9, 1, 3, 7, 3].foldl (push 3) [] = [5, 3, 1] := by decide

/-! ## 2. Invariances -/

/-- (a) Reordering the sequences. -/
theorem C17_perm (tbl : List UInt8) (h : Bytes → Nat) (n k : Nat) {seqs seqs' : List Bytes}
    (hp : seqs.Perm seqs') : sketch tbl h n k seqs = sketch tbl h n k seqs' :=
  sketch_perm tbl h n k hp

example : ([[65, 67, 103], [116, 116, 65]] : List Bytes).Perm [[116, 116, 65], [65, 67, 103]] :=
  List.Perm.swap _ _ _

/-- (a') More: only the set of sequences matters. -/
theorem C17_set (tbl : List UInt8) (h : Bytes → Nat) (n k : Nat) {seqs seqs' : List Bytes}
    (hm : ∀ s, s ∈ seqs ↔ s ∈ seqs') : sketch tbl h n k seqs = sketch tbl h n k seqs' :=
  sketch_congr_mem tbl h n k hm

example : ∀ s, s ∈ ([[65, 67], [65, 67], [71]] : List Bytes) ↔ s ∈ ([[71], [65, 67]] : List Bytes) := by
  intro s; simp [or_comm]

/-- (b) Building incrementally with `Add` = one call on all sequences (re-partitioning over
calls). `none` (panic) propagates. -/
theorem C17_incremental (tbl : List UInt8) (h : Bytes → Nat) (n k : Nat) (xs ys : List Bytes) :
    (sketch tbl h n k xs).bind (fun s => addTo tbl h n k s ys) = sketch tbl h n k (xs ++ ys) :=
  sketch_append tbl h n k xs ys

example : (sketch exTbl exHash 3 2 [[65, 67, 103, 116, 65]]).bind
    (fun s => addTo exTbl exHash 3 2 s [[116, 116, 65]]) = some [22, 20, 3] := by decide +kernel

/-- (c) Letter case: sequences that agree after upper-casing give the same sketch. -/
theorem C17_case_congr (tbl : List UInt8) (h : Bytes → Nat) (n k : Nat) {seqs seqs' : List Bytes}
    (e : seqs.map upper = seqs'.map upper) : sketch tbl h n k seqs = sketch tbl h n k seqs' :=
  sketch_congr_upper tbl h n k e

theorem C17_case (tbl : List UInt8) (h : Bytes → Nat) (n k : Nat) (seqs : List Bytes) :
    sketch tbl h n k (seqs.map upper) = sketch tbl h n k seqs :=
  sketch_map_upper tbl h n k seqs

example : ([[97, 67, 103]] : List Bytes).map upper = ([[65, 99, 71]] : List Bytes).map upper := by
  decide

/-- (d) Strand symmetry of canonical k-mers (also C12's last clause): a sequence and its reverse
complement yield the same items in opposite order; a panic on one strand is a panic on both. -/
theorem C17_canonical_strand {tbl : List UInt8} (hc : CompOK tbl) (s : Bytes) (k : Nat) :
    (Sequtil.revComp tbl [] s).bind (fun r => Sequtil.canonical tbl r k) =
      (Sequtil.canonical tbl s k).map List.reverse :=
  Sequtil.canonical_revComp_bind hc s k

example : Sequtil.canonical exTbl [65, 65, 67, 71, 84] 2 =
    some [[65, 65], [65, 67], [67, 71], [65, 67]] := by decide +kernel
example : Sequtil.canonical exTbl [65, 67, 71, 84, 84] 2 =
    some [[65, 67], [67, 71], [65, 67], [65, 65]] := by decide +kernel

/-- (d) Strand: replacing any one sequence by its reverse complement. -/
theorem C17_strand {tbl : List UInt8} (hc : CompOK tbl) (hu : CaseOK tbl)
    (h : Bytes → Nat) (n k : Nat) (pre post : List Bytes) {s r : Bytes}
    (hr : Sequtil.revComp tbl [] s = some r) :
    sketch tbl h n k (pre ++ r :: post) = sketch tbl h n k (pre ++ s :: post) :=
  sketch_revComp hc hu h n k pre post hr

example : Sequtil.revComp exTbl [] [116, 116, 65] = some [84, 97, 97] := by decide +kernel
example : sketch exTbl exHash 3 2 [[65, 67, 103, 116, 65], [84, 97, 97]] = some [22, 20, 3] := by
  decide +kernel

/-- (e) A smaller sketch is the tail (last `n'` entries) of a larger one. -/
theorem C17_smaller_is_tail (tbl : List UInt8) (h : Bytes → Nat) (k : Nat) {n' n : Nat}
    (hn : n' ≤ n) (seqs : List Bytes) :
    sketch tbl h n' k seqs = (sketch tbl h n k seqs).map fun s => s.drop (s.length - n') := by
  rw [sketch_eq, sketch_eq, Option.map_map]
  congr 1; funext ks
  exact bottomN_tail _ hn

theorem C17_bottomN_tail {n' n : Nat} (hn : n' ≤ n) (l : List Nat) :
    bottomN n' l = (bottomN n l).drop ((bottomN n l).length - n') :=
  bottomN_tail l hn

example : sketch exTbl exHash 2 2 [[65, 67, 103, 116, 65], [116, 116, 65]] = some [20, 3] := by
  decide +kernel

/-! ## 3. `intersect` on full sketches -/

/-- For two full sketches (strictly descending, length `n`): the union size is `n` and the
intersection is the number of values among the `n` smallest of `a ∪ b` lying in both. -/
theorem intersect_full (n : Nat) {a b : List Nat} (ha : a.Pairwise (· > ·))
    (hb : b.Pairwise (· > ·)) (hla : a.length = n) (hlb : b.length = n) :
    (intersect n a b).2 = n ∧
    (intersect n a b).1 =
      (((sortAsc (dedup (a ++ b))).take n).filter fun x => a.contains x && b.contains x).length :=
  ⟨intersect_snd n (by omega) (by omega), intersect_fst n ha hb⟩

/-- The intersection count is the spec count for arbitrary (also partial) sketches. -/
theorem C17_intersect_count (n : Nat) {a b : List Nat} (ha : a.Pairwise (· > ·))
    (hb : b.Pairwise (· > ·)) : (intersect n a b).1 = specInter n a b :=
  intersect_fst n ha hb

theorem intersect_full_symm (n : Nat) {a b : List Nat} (ha : a.Pairwise (· > ·))
    (hb : b.Pairwise (· > ·)) (hla : a.length = n) (hlb : b.length = n) :
    intersect n a b = intersect n b a := by
  apply Prod.ext
  · rw [intersect_fst n ha hb, intersect_fst n hb ha, specInter_comm]
  · rw [intersect_snd n (by omega) (by omega), intersect_snd n (by omega) (by omega)]

theorem intersect_full_self (n : Nat) {a : List Nat} (ha : a.Pairwise (· > ·))
    (hla : a.length = n) : intersect n a a = (n, n) := by
  apply Prod.ext
  · rw [intersect_fst n ha ha, specInter_self ha]; simp [hla]
  · exact intersect_snd n (by omega) (by omega)

/-- Sketches produced by `sketch` satisfy the ordering hypothesis. -/
theorem C17_sketch_desc (tbl : List UInt8) (h : Bytes → Nat) (n k : Nat) (seqs : List Bytes) :
    ∀ s, sketch tbl h n k seqs = some s → s.Pairwise (· > ·) := by
  intro s hs
  rw [sketch_eq] at hs
  cases hk : kmers tbl k seqs <;> simp [hk] at hs
  subst hs; exact SD_bottomN _ _

example : ([5, 3, 1] : List Nat).Pairwise (· > ·) ∧ ([4, 3, 1] : List Nat).Pairwise (· > ·) ∧
    ([5, 3, 1] : List Nat).length = 3 ∧ ([4, 3, 1] : List Nat).length = 3 := by decide
example : intersect 3 [5, 3, 1] [4, 3, 1] = (2, 3) := by decide

end Bio.Mash
