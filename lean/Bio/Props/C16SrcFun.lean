/-
  Source-level tie for C16: `eventLess` (regions/regions.go), translated from
  the Go source on every run, IS the model's `evLess` (position, then
  end-before-start, then index).  Best-effort (see C08SrcFun).
-/
import Bio.Model.Regions
import Bio.Generated.Src
namespace Bio.SrcFacts
open Bio.Generated

theorem eventLess_is_model :
    Src.eventLessFound = true →
    ∀ a b : Bio.Regions.Ev,
      Src.eventLess a.idx a.pos a.start b.idx b.pos b.start = Bio.Regions.evLess a b := by
  intro h
  first
    | exact absurd h (by decide)
    | (intro a b
       unfold Src.eventLess Bio.Regions.evLess
       by_cases h1 : a.pos = b.pos <;> by_cases h2 : a.start = b.start <;> simp [h1, h2]
       all_goals (first | omega | (constructor <;> intro <;> omega) | simp_all))

end Bio.SrcFacts
