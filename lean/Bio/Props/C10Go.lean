/-
  C10 for the Go SOURCE TEXT: the known finding (DESIGN §12, known_findings.json) restated on the
  translated `align.Global` / `align.Local` themselves (`Bio.Generated.GoSrc`, regenerated from
  /repo on every run), not only on the hand model:

  * on the witness inputs of `Bio/Props/C10.lean` the translated functions return the suboptimal
    scores -6 and 22 although alignments scoring -3 and 25 exist (`decide +kernel` on the
    translated code);
  * for EVERY matrix and input (enough fuel, all needed entries present) the score the translated
    `Global` returns is the score of an actual alignment — it never exceeds the optimum
    (`C08Go.go_global_valid`), which is the part of C10 that holds.

  Guarded by the translator's `<f>_Found` flags: with a source the translator no longer
  recognises these statements are vacuous, and the check then relies on the correspondence leg.
-/
import Bio.Props.C08Go
import Bio.Props.C10
namespace Bio.Props.C10Go
open Bio Bio.GoRt Bio.Generated Bio.GoSrcLemmas Bio.Align

/-- The affine witness matrix of `C10.lean` (match `mt`, mismatch -1, gap -1, gap-open -3) over the
letters a, b, c, d and the gap, as a Go map. -/
def affineL (mt : Int) : List (List UInt8 × Int) :=
  let cs : List UInt8 := [97, 98, 99, 100, 255]
  cs.flatMap fun x => cs.map fun y =>
    ([x, y], if x = 255 ∧ y = 255 then -3 else if x = 255 ∨ y = 255 then -1 else if x = y then mt else -1)

/-- The Go map is the model's `affineMat` on the letters used. -/
example : ∀ x ∈ ([97, 98, 99, 100, 255] : List UInt8), ∀ y ∈ ([97, 98, 99, 100, 255] : List UInt8),
    matOf (affineL 2) x y = some (affineMat 2 (-1) (-1) (-3) x y) := by decide +kernel

/-- `Global("a", "aab")` with match 2 / mismatch -1 / gap -1 / gap-open -3 returns the steps
insertion, insertion, match with score -6 … -/
theorem go_global_affine_witness : C08Go.allFound = false ∨
    GoSrc.Global 5 [97] [97, 97, 98] (affineL 2) = some ([3, 3, 1], -6) := by
  decide +kernel

/-- … although match, insertion, insertion scores -3 under the documented scoring. -/
theorem global_affine_better :
    rescore (total (matOf (affineL 2))) .none [97] [97, 97, 98] [.mch, .ins, .ins] = some (-3, [], []) := by
  decide +kernel

/-- `Local("cad", "caabd")` with match 10 returns score 22 … -/
theorem go_local_affine_witness : C08Go.allFound = false ∨
    GoSrc.Local 9 [99, 97, 100] [99, 97, 97, 98, 100] (affineL 10) = some ([1, 3, 1, 3, 1], 0, 0, 22) := by
  decide +kernel

/-- … although match, match, insertion, insertion, match on the whole strings scores 25. -/
theorem local_affine_better :
    rescore (total (matOf (affineL 10))) .none [99, 97, 100] [99, 97, 97, 98, 100]
      [.mch, .mch, .ins, .ins, .mch] = some (25, [], []) := by
  decide +kernel

/-- What holds for every gap-open, on the source text: the score `Global` returns is the score of
an actual alignment of `a` and `b` (so it is at most the optimum). -/
theorem go_global_affine_le_opt_partial : GoSrc.Global_Found = true → GoSrc.Matrix_Get_Found = true →
    GoSrc.decideOnStep_Found = true → GoSrc.traceAlignmentSteps_Found = true →
    ∀ (a b : Bytes) (m : List (List UInt8 × Int)) (fuel : Nat) steps score,
      GoSrc.Global fuel a b m = some (steps, score) → a.length + b.length + 1 ≤ fuel →
      ∃ s, rescore (total (matOf m)) .none a b s = some (score, [], []) := by
  intro h1 h2 h3 h4 a b m fuel steps score hs hf
  exact ⟨_, C08Go.go_global_valid_of_some h1 h2 h3 h4 a b m fuel steps score hf hs⟩

end Bio.Props.C10Go
