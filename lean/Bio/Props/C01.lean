/-
  Property C01: FASTA write → read, for every layout.
  Model: `Bio/Model/Fasta.lean`; helper lemmas: `Bio/Lemmas/Fasta.lean`.
-/
import Bio.Lemmas.Fasta
namespace Bio.Fasta

/-- The domain of the property: name and sequence free of CR/LF, sequence free of `'>'`. -/
def WF (r : Fa) : Prop :=
  (∀ b ∈ r.name, b ≠ 10 ∧ b ≠ 13) ∧ (∀ b ∈ r.seq, b ≠ 10 ∧ b ≠ 13 ∧ b ≠ 62)

instance (r : Fa) : Decidable (WF r) := by unfold WF; infer_instance

/-! ## 2. Shape of the writer's output -/

/-- The lines the writer cuts the sequence into: each of length `1 … w`, all but the last
exactly `w`, and together they are the sequence. -/
theorem wrap_lines (w : Nat) (hw : 0 < w) (s : Bytes) :
    (∀ l ∈ wrap w s, 0 < l.length ∧ l.length ≤ w) ∧ (wrap w s).flatten = s ∧
      (∀ l ∈ (wrap w s).dropLast, l.length = w) :=
  ⟨wrap_mem_length w hw s, wrap_flatten w hw s, wrap_dropLast_length w hw s⟩

example : wrap 3 [65, 67, 71, 84, 65, 67, 71] = [[65, 67, 71], [84, 65, 67], [71]] := by
  simp [wrap]

/-- The written record: `'>'`, the name, LF, then every sequence line followed by LF. -/
theorem encode_eq (w : Nat) (r : Fa) :
    encode w r = 62 :: r.name ++ [10] ++ ((wrap w r.seq).map (· ++ [10])).flatten := by
  simp [encode, writeCalls]

/-- The length `MarshalText` pre-computes is the length written: its panic is unreachable. -/
theorem encode_length (w : Nat) (hw : 0 < w) (r : Fa) :
    (encode w r).length = marshalLen w r := by
  rw [encode_eq]
  simp only [List.length_cons, List.length_append, List.length_nil,
    flatten_map_append_length, wrap_flatten w hw, wrap_length w hw, marshalLen]
  omega

example : (0 : Nat) < 3 := by decide

/-! ## 3. Layouts -/

/-- Only line-break bytes. -/
def IsNLs (s : Bytes) : Prop := ∀ b ∈ s, b = 10 ∨ b = 13

/-- A separator: a non-empty run of LF / CR bytes (LF, CRLF, blank lines, mixtures). -/
def Sep (s : Bytes) : Prop := s ≠ [] ∧ IsNLs s

/-- The layout of one record: the name, the separator after the name line, and the
chunks (lines) of the sequence, each with the separator that follows it. -/
structure RecLayout where
  name : Bytes
  nameSep : Bytes
  chunks : List (Bytes × Bytes)
  deriving Repr, DecidableEq

/-- The record a layout spells out. -/
def RecLayout.toFa (l : RecLayout) : Fa := ⟨l.name, (l.chunks.map (·.1)).flatten⟩

/-- The separators of a record layout, in file order. -/
def RecLayout.seps (l : RecLayout) : List Bytes := l.nameSep :: l.chunks.map (·.2)

def renderRec (l : RecLayout) : Bytes :=
  62 :: l.name ++ l.nameSep ++ (l.chunks.map (fun c => c.1 ++ c.2)).flatten

/-- The bytes of a file laid out as `L`. -/
def render (L : List RecLayout) : Bytes := (L.map renderRec).flatten

/-- All separators of the file, in file order. -/
def allSeps (L : List RecLayout) : List Bytes := (L.map RecLayout.seps).flatten

/-- A valid layout: every chunk is non-empty, every separator consists of line-break
bytes, and every separator except the very last one of the file is a `Sep` (non-empty);
the last one may be empty (missing final newline — including a last record with empty
sequence whose name line is not terminated). -/
def Valid (L : List RecLayout) : Prop :=
  (∀ l ∈ L, ∀ c ∈ l.chunks, c.1 ≠ []) ∧
  (∀ s ∈ allSeps L, IsNLs s) ∧
  (∀ s ∈ (allSeps L).dropLast, Sep s)

instance (s : Bytes) : Decidable (IsNLs s) := by unfold IsNLs; infer_instance
instance (s : Bytes) : Decidable (Sep s) := by unfold Sep; infer_instance
instance (L : List RecLayout) : Decidable (Valid L) := by unfold Valid; infer_instance

/-- **Layout independence.**  Whatever the line widths, line terminators (LF, CR, CRLF,
mixed), blank lines between lines, and with or without a final newline: the reader
returns exactly the records. -/
theorem layout_decode (rs : List Fa) (h : ∀ r ∈ rs, WF r) (L : List RecLayout)
    (hv : Valid L) (hL : L.map RecLayout.toFa = rs) :
    decode (render L) = rs.map Item.ok := by
  subst hL
  induction L with
  | nil => simp [render, decode, decodeSrc_nil]
  | cons l L ih =>
    obtain ⟨hv1, hv2, hv3⟩ := hv
    have hwf : WF l.toFa := h _ (by simp)
    have hn : ∀ b ∈ l.name, b ≠ 10 ∧ b ≠ 13 := hwf.1
    have hc : ∀ c ∈ l.chunks, c.1 ≠ [] ∧ ∀ b ∈ c.1, b ≠ 10 ∧ b ≠ 13 ∧ b ≠ 62 := by
      intro c hcm
      refine ⟨hv1 l (by simp) c hcm, fun b hb => hwf.2 b ?_⟩
      simp only [RecLayout.toFa, List.mem_flatten, List.mem_map]
      exact ⟨c.1, ⟨c, hcm, rfl⟩, hb⟩
    have hseps : allSeps (l :: L) = (l.nameSep :: l.chunks.map (·.2)) ++ allSeps L := by
      simp [allSeps, RecLayout.seps]
    have hrender : render (l :: L) =
        62 :: (l.name ++ l.nameSep ++ (l.chunks.map (fun c => c.1 ++ c.2)).flatten ++ render L) := by
      simp [render, renderRec]
    rw [hseps] at hv2 hv3
    have hv3' : ∀ s ∈ ((l.nameSep :: l.chunks.map (·.2)) ++ allSeps L).dropLast, s ≠ [] :=
      fun s hs => (hv3 s hs).1
    cases L with
    | nil =>
      have hs : SepsOK (l.nameSep :: l.chunks.map (·.2)) [] := by
        simp only [allSeps, List.map_nil, List.flatten_nil, List.append_nil] at hv2 hv3'
        exact SepsOK.of_last hv2 hv3'
      have hread := readOne_record l.name l.nameSep l.chunks [] hn hc hs (Or.inl rfl)
      have : render ([] : List RecLayout) = [] := rfl
      rw [decode, hrender, this, decodeSrc_cons_last _ _ _ _ hread]
      simp [RecLayout.toFa]
    | cons l2 L2 =>
      have hne : allSeps (l2 :: L2) ≠ [] := by simp [allSeps, RecLayout.seps]
      have hs : SepsOK (l.nameSep :: l.chunks.map (·.2)) (render (l2 :: L2)) :=
        SepsOK.of_append_left hne hv2 hv3' _
      have hrest : ∃ r, render (l2 :: L2) = 62 :: r := ⟨_, by simp [render, renderRec]; rfl⟩
      have hread := readOne_record l.name l.nameSep l.chunks _ hn hc hs (Or.inr hrest)
      have hvL : Valid (l2 :: L2) := by
        refine ⟨fun l' hl' => hv1 l' (by simp [hl']), fun s hs => hv2 s (by simp [hs]), ?_⟩
        intro s hs
        rw [List.dropLast_append_of_ne_nil hne] at hv3
        exact hv3 s (List.mem_append_right _ hs)
      have ih' := ih hvL (fun r hr => h r (by simp at hr ⊢; exact Or.inr hr))
      obtain ⟨r, hr⟩ := hrest
      rw [decode, hrender,
        decodeSrc_cons_more _ _ _ _ _ hread (by rw [hr]; simp)]
      rw [decode] at ih'
      rw [ih']
      simp [RecLayout.toFa]

/-- Non-vacuity: two records; CRLF after the first name, lines of widths 1, 3, 2 with a
blank line, a bare CR and a mixed run in between; second record with empty name and
the final newline missing. -/
example :
    let L : List RecLayout :=
      [⟨[115, 49], [13, 10], [([65], [10, 10]), ([67, 71, 84], [13]), ([65, 67], [10, 13, 13, 10])]⟩,
       ⟨[], [10], [([84, 84], [])]⟩]
    let rs : List Fa := [⟨[115, 49], [65, 67, 71, 84, 65, 67]⟩, ⟨[], [84, 84]⟩]
    (∀ r ∈ rs, WF r) ∧ Valid L ∧ L.map RecLayout.toFa = rs := by
  decide

/-- Non-vacuity: last record with empty sequence and an unterminated name line. -/
example :
    let L : List RecLayout := [⟨[97], [10], [([65], [10])]⟩, ⟨[98], [], []⟩]
    let rs : List Fa := [⟨[97], [65]⟩, ⟨[98], []⟩]
    (∀ r ∈ rs, WF r) ∧ Valid L ∧ L.map RecLayout.toFa = rs := by
  decide

/-- The layout the writer produces: LF after the name, lines of width `w`, LF after each. -/
def writerLayout (w : Nat) (r : Fa) : RecLayout :=
  ⟨r.name, [10], (wrap w r.seq).map (fun c => (c, [10]))⟩

/-- The writer's output is the rendering of a valid layout of the records. -/
theorem encode_is_layout (w : Nat) (hw : 0 < w) (rs : List Fa) :
    encodeAll w rs = render (rs.map (writerLayout w)) ∧
      Valid (rs.map (writerLayout w)) ∧
      (rs.map (writerLayout w)).map RecLayout.toFa = rs := by
  refine ⟨?_, ⟨?_, ?_, ?_⟩, ?_⟩
  · simp only [encodeAll, render, List.map_map]
    congr 1
    apply List.map_congr_left
    intro r _
    simp [encode_eq, renderRec, writerLayout, List.map_map, Function.comp_def]
  · intro l hl c hc
    obtain ⟨r, _, rfl⟩ := List.mem_map.mp hl
    simp only [writerLayout, List.mem_map] at hc
    obtain ⟨d, hd, rfl⟩ := hc
    exact List.length_pos_iff.mp (wrap_mem_length w hw r.seq d hd).1
  · intro s hs
    have : s = [10] := by
      simp only [allSeps, RecLayout.seps, writerLayout, List.map_map, List.mem_flatten,
        List.mem_map, Function.comp_def] at hs
      obtain ⟨_, ⟨r, _, rfl⟩, hs⟩ := hs
      simp at hs
      rcases hs with hs | ⟨_, hs⟩
      · exact hs
      · exact hs.symm
    subst this; intro b hb; simp at hb; exact Or.inl hb
  · intro s hs
    have hs := List.dropLast_subset _ hs
    have : s = [10] := by
      simp only [allSeps, RecLayout.seps, writerLayout, List.map_map, List.mem_flatten,
        List.mem_map, Function.comp_def] at hs
      obtain ⟨_, ⟨r, _, rfl⟩, hs⟩ := hs
      simp at hs
      rcases hs with hs | ⟨_, hs⟩
      · exact hs
      · exact hs.symm
    subst this
    exact ⟨by simp, fun b hb => by simp at hb; exact Or.inl hb⟩
  · rw [List.map_map]
    conv => rhs; rw [← List.map_id rs]
    apply List.map_congr_left
    intro r _
    simp [RecLayout.toFa, writerLayout, List.map_map, Function.comp_def, wrap_flatten w hw]

example : (0 : Nat) < 3 := by decide

/-! ## 1. Round trip -/

/-- Write then read returns the records: every record count, every length, every content
in the domain, every positive line width. -/
theorem roundtrip (w : Nat) (hw : 0 < w) (rs : List Fa) (h : ∀ r ∈ rs, WF r) :
    decode (encodeAll w rs) = rs.map Item.ok := by
  obtain ⟨h1, h2, h3⟩ := encode_is_layout w hw rs
  rw [h1]
  exact layout_decode rs h _ h2 h3

/-- Non-vacuity: width 3, a 7-byte sequence (3 lines), an empty record, odd bytes. -/
example :
    (0 : Nat) < 3 ∧
    ∀ r ∈ ([⟨[115, 32, 49], [65, 67, 71, 84, 65, 67, 71]⟩, ⟨[], []⟩, ⟨[62, 64], [255, 0, 43]⟩] : List Fa),
      WF r := by
  decide

/-! ## 4. Errors -/

/-- An error item is always the last item delivered. -/
theorem err_only_last (e : Ending) (x : Bytes) :
    ∀ i, (decodeSrc e x)[i]? = some Item.err → i + 1 = (decodeSrc e x).length :=
  err_last e x

/-- A source that ends cleanly never produces an error: every byte string is accepted. -/
theorem eof_no_err (x : Bytes) : Item.err ∉ decode x := eof_no_err' x

/-- Every item delivered from a cleanly ending source is a record. -/
theorem eof_all_ok (x : Bytes) : ∀ it ∈ decode x, ∃ r, it = Item.ok r := by
  intro it hit
  cases it with
  | ok r => exact ⟨r, rfl⟩
  | err => exact absurd hit (eof_no_err x)

/-! ## 5. Failing source (for C07) -/

/-- What a failing source changes, for every byte string: the last item of the clean decode
(the record being read when the source fails) is replaced by one error. -/
theorem fail_eq_dropLast (x : Bytes) :
    decodeSrc .fail x = (decode x).dropLast ++ [Item.err] := decodeSrc_fail_eq x

/-- For **every** byte string `x` and every offset `k`: a source that delivers the first
`k` bytes of `x` and then fails yields leading items of the fault-free decode of `x`
(all of them records, by `eof_no_err`), followed by exactly one error. -/
theorem fault_prefix (x : Bytes) (k : Nat) :
    ∃ n, decodeSrc .fail (x.take k) = (decode x).take n ++ [Item.err] := by
  refine ⟨((decodeSrc .eof (x.take k)).dropLast).length, ?_⟩
  have hp := decode_prefix (x.take k) (x.drop k)
  rw [List.take_append_drop] at hp
  rw [decodeSrc_fail_eq, decode, ← List.prefix_iff_eq_take.mp hp]

/-- The records delivered before the error are the leading records written. -/
theorem fault_prefix_wf (w : Nat) (hw : 0 < w) (rs : List Fa) (h : ∀ r ∈ rs, WF r) (k : Nat) :
    ∃ n, decodeSrc .fail ((encodeAll w rs).take k) = (rs.take n).map Item.ok ++ [Item.err] := by
  obtain ⟨n, hn⟩ := fault_prefix (encodeAll w rs) k
  exact ⟨n, by rw [hn, roundtrip w hw rs h, List.map_take]⟩

example :
    (0 : Nat) < 3 ∧
    ∀ r ∈ ([⟨[115, 49], [65, 67, 71, 84, 65, 67, 71]⟩, ⟨[], [84]⟩] : List Fa), WF r := by
  decide

end Bio.Fasta
