/-
  C05 — Newick codec: names, tokens, condensed output, tree round trip,
  multi-tree round trip, error placement.

  Parameters: `qs` = the set of bytes that force quoting (hypothesis `QS_OK`);
  `pd` = the assumed distance parser (hypothesis `DistOK` on every distance token
  in the tree).  Definitions `QS_OK`, `DistOK`, `DistClean`, `Tree.AllDist`,
  `outsideQuotesNoWS` are at the top of `Bio/Lemmas/Newick.lean`.
-/
import Bio.Lemmas.Newick
namespace Bio.Newick

/-- The repaired Go quote set "(),:;'_\t\n\r". -/
def qsGo : Bytes := [40, 41, 44, 58, 59, 39, 95, 9, 10, 13]

example : QS_OK qsGo := by decide

/-! ## 1. Names -/

theorem undouble_roundtrip (s : Bytes) : undoubleQuotes (doubleQuotes s) = s :=
  undouble_double s

theorem name_roundtrip (qs : Bytes) (h : QS_OK qs) (s : Bytes) :
    nameFromText (nameToText qs s) = s :=
  name_roundtrip' qs h s

-- "a b" is written with an underscore; "a b'(c)\n" is quoted with the quote doubled.
example : nameToText qsGo [97, 32, 98] = [97, 95, 98] := by decide
example : nameToText qsGo [97, 32, 98, 39, 40, 99, 41, 10]
    = [39, 97, 32, 98, 39, 39, 40, 99, 41, 10, 39] := by decide
example : nameFromText (nameToText qsGo [97, 32, 98, 39, 40, 99, 41, 10])
    = [97, 32, 98, 39, 40, 99, 41, 10] := by decide
example : nameFromText (nameToText qsGo [39]) = [39] := by decide
example : nameFromText (nameToText qsGo [39, 39]) = [39, 39] := by decide

/-! ## 2. A name text is exactly one token -/

theorem name_one_token (qs : Bytes) (h : QS_OK qs) (e : Ending) (s : Bytes) (hs : s ≠ [])
    (c : UInt8) (r : Bytes) (hc : isStruct c = true) :
    nextToken e (nameToText qs s ++ c :: r) = Tok.tok (nameToText qs s) (c :: r) :=
  nextToken_name qs h e s (c :: r) (nameToText_ne_nil hs) (Term.struct hc)

theorem name_one_token_eof (qs : Bytes) (h : QS_OK qs) (s : Bytes) (hs : s ≠ []) :
    nextToken .eof (nameToText qs s) = Tok.tok (nameToText qs s) [] := by
  have := nextToken_name qs h .eof s [] (nameToText_ne_nil hs) (Or.inl ⟨rfl, rfl⟩)
  simpa using this

/-- The empty name has empty text (no token at all). -/
theorem name_empty (qs : Bytes) : nameToText qs [] = [] := by
  simp [nameToText, needsQuote]

/-- A name text is never mistaken for a structural token. -/
theorem name_not_struct_token (qs : Bytes) (h : QS_OK qs) (s : Bytes) (c : UInt8)
    (hc : isStruct c = true) : nameToText qs s ≠ [c] := by
  obtain ⟨h1, h2, h3, h4, h5⟩ := nameToText_notStructTok h s
  rcases isStruct_cases hc with rfl | rfl | rfl | rfl | rfl <;> assumption

example : ([97, 32, 98, 39, 40, 99, 41, 10] : Bytes) ≠ [] ∧ isStruct 41 = true := by decide
example : nextToken .fail (nameToText qsGo [97, 32, 98, 39, 40, 99, 41, 10] ++ [41, 59])
    = Tok.tok [39, 97, 32, 98, 39, 39, 40, 99, 41, 10, 39] [41, 59] := by decide

/-- `QS_OK` is needed: with the unrepaired quote set "(),:;'_\t" (no LF, CR) the
name "a\nb" is written bare and the tokenizer cuts it at the LF. -/
example : nextToken .eof (nameToText [40, 41, 44, 58, 59, 39, 95, 9] [97, 10, 98] ++ [59])
    = Tok.tok [97] [98, 59] := by decide

/-! ## 3. Condensed output -/

theorem condensed (qs : Bytes) (h : QS_OK qs) (t : Tree) (hd : t.AllDist DistClean) :
    (write qs t).getLast? = some 59 ∧ outsideQuotesNoWS (write qs t) = true :=
  ⟨write_getLast qs t, scan_write qs h t hd⟩

/-- Same under the hypothesis used by the round-trip theorems. -/
theorem condensed_of_distOK (qs : Bytes) (pd : Bytes → Option Dist) (h : QS_OK qs) (t : Tree)
    (hd : t.AllDist (DistOK pd)) :
    (write qs t).getLast? = some 59 ∧ outsideQuotesNoWS (write qs t) = true :=
  condensed qs h t ⟨hd.1.clean, Forest.AllDist.mono (fun _ => DistOK.clean) _ hd.2⟩

/-! ## 4. Tree round trip -/

theorem tree_roundtrip (qs : Bytes) (pd : Bytes → Option Dist) (h : QS_OK qs) (t : Tree)
    (hd : t.AllDist (DistOK pd)) (rest : Bytes) :
    readTree pd .eof (write qs t ++ rest) = ReadRes.tree t rest :=
  readTree_write qs pd .eof h t hd rest

/-- The same for a source that ends in a read error after the tree. -/
theorem tree_roundtrip_any_ending (qs : Bytes) (pd : Bytes → Option Dist) (e : Ending)
    (h : QS_OK qs) (t : Tree) (hd : t.AllDist (DistOK pd)) (rest : Bytes) :
    readTree pd e (write qs t ++ rest) = ReadRes.tree t rest :=
  readTree_write qs pd e h t hd rest

/-- A sample distance parser: accepts exactly "1" and "2.5". -/
def pdEx : Bytes → Option Dist := fun t =>
  if t = [49] then some (some [49]) else if t = [50, 46, 53] then some (some [50, 46, 53]) else none

/-- ((A:1,'b (c)''\n',):2.5,,(x y)inner)root:1  — three levels, distances, an
unnamed leaf, names with space / quote / parentheses / LF. -/
def exTree : Tree :=
  ⟨[114, 111, 111, 116], some [49],
    .cons [] (some [50, 46, 53])
      (.cons [65] (some [49]) .nil
        (.cons [98, 32, 40, 99, 41, 39, 10] none .nil
          (.cons [] none .nil .nil)))
    (.cons [] none .nil
      (.cons [105, 110, 110, 101, 114] none
        (.cons [120, 32, 121] none .nil .nil)
        .nil))⟩

example : exTree.AllDist (DistOK pdEx) := by decide

example : exTree.AllDist DistClean := by decide

-- "((A:1,'b (c)''\n',):2.5,,(x_y)inner)root:1;"
example : write qsGo exTree =
    [40, 40, 65, 58, 49, 44, 39, 98, 32, 40, 99, 41, 39, 39, 10, 39, 44, 41, 58, 50, 46, 53, 44,
      44, 40, 120, 95, 121, 41, 105, 110, 110, 101, 114, 41, 114, 111, 111, 116, 58, 49, 59] := by
  decide

example : outsideQuotesNoWS (write qsGo exTree) = true := by decide

example : readTree pdEx .eof (write qsGo exTree ++ [13, 10]) = ReadRes.tree exTree [13, 10] :=
  tree_roundtrip qsGo pdEx (by decide) exTree (by decide) [13, 10]

-- "();" and "(,);" : empty names, nothing between the structural bytes.
example : write qsGo ⟨[], none, .cons [] none .nil .nil⟩ = [40, 41, 59] := by decide
example : write qsGo ⟨[], none, .cons [] none .nil (.cons [] none .nil .nil)⟩ = [40, 44, 41, 59] := by
  decide

/-! ## 5. Several trees -/

/-- Trees written back to back. -/
theorem forest_roundtrip (qs : Bytes) (pd : Bytes → Option Dist) (h : QS_OK qs) (ts : List Tree)
    (hd : ∀ t ∈ ts, t.AllDist (DistOK pd)) :
    decode pd ((ts.map (write qs)).flatten) = ts.map Item.ok := by
  have := decodeSrc_writeAll qs pd h (ts.map fun t => (t, []))
    (by simpa using hd) (by simp)
  simpa [writeAll, decode, List.flatMap_def, Function.comp_def] using this

/-- Leading whitespace, and an arbitrary whitespace string (e.g. LF or CRLF)
after each tree. -/
theorem trees_roundtrip (qs : Bytes) (pd : Bytes → Option Dist) (h : QS_OK qs)
    (pre : Bytes) (tws : List (Tree × Bytes))
    (hpre : ∀ b ∈ pre, isWS b = true)
    (hd : ∀ p ∈ tws, p.1.AllDist (DistOK pd))
    (hw : ∀ p ∈ tws, ∀ b ∈ p.2, isWS b = true) :
    decode pd (pre ++ tws.flatMap fun p => write qs p.1 ++ p.2) = tws.map fun p => Item.ok p.1 := by
  unfold decode
  rw [decodeSrc_ws pd .eof pre _ hpre]
  exact decodeSrc_writeAll qs pd h tws hd hw

example :
    decode pdEx ([32, 10] ++ [(exTree, [13, 10]), (⟨[], none, .nil⟩, []), (exTree, [10, 9, 32])].flatMap
      fun p => write qsGo p.1 ++ p.2)
      = [Item.ok exTree, Item.ok ⟨[], none, .nil⟩, Item.ok exTree] :=
  trees_roundtrip qsGo pdEx (by decide) [32, 10] _ (by decide)
    (by simp [Tree.AllDist, Forest.AllDist, DistOK, exTree, pdEx, isStruct, isWS])
    (by decide)

/-! ## 6. An error ends the iteration -/

/-- Records, then at most one error, which is last. -/
theorem decode_shape (pd : Bytes → Option Dist) (e : Ending) (x : Bytes) :
    ∃ oks : List Tree, decodeSrc pd e x = oks.map Item.ok ∨
      decodeSrc pd e x = oks.map Item.ok ++ [Item.err] :=
  decodeSrc_shape pd e x.length x (Nat.le_refl _)

theorem err_only_last (pd : Bytes → Option Dist) (e : Ending) (x : Bytes) (i : Nat)
    (hi : (decodeSrc pd e x)[i]? = some Item.err) : i + 1 = (decodeSrc pd e x).length :=
  err_index_last _ (decode_shape pd e x) i hi

/-- The progress guard in `decodeSrc` is dead code: a tree always consumes input. -/
theorem read_consumes (pd : Bytes → Option Dist) (e : Ending) (x : Bytes) (t : Tree) (rest : Bytes)
    (h : readTree pd e x = ReadRes.tree t rest) : rest.length < x.length :=
  readTree_rest_lt pd e x t rest h

end Bio.Newick
