/-
  C03 / C07 / C11 / C18 (SAM), ITERATOR level, for the Go SOURCE TEXT of `Reader` (formats/sam/iter.go):

      func Reader(r io.Reader) iter.Seq2[*SAM, error] {
          return func(yield func(*SAM, error) bool) {
              for sh, err := range ReaderHeader(r) {
                  if err != nil { if !yield(nil, err) { break }; continue }
                  if sh.S == nil { continue }
                  if !yield(sh.S, nil) { break }
              }
          }
      }

  as translated on every run into `Bio.Generated.GoSrc.sam_Reader`.  `Reader` RANGES OVER ANOTHER ITERATOR:
  Go runs `ReaderHeader(r)` with the loop body as its consumer (`break` answers `false`, `continue` / the
  end of the body answers `true`; a call of the body after it answered `false` is a Go runtime panic).
  The translation: the body is a pure `step : outerLog → innerItem → outerLog × continue?`; `run h`
  replays an inner history through `step` (ignoring what follows a `false`); the translated
  `sam_ReaderHeader` (see `Bio.Props.C03IterGo`) is handed the consumer `fun h => (run h).2` and returns
  the inner history `inner`; `if !(run inner.dropLast).2 then none` is the runtime panic; the result is
  the outer log `(run inner).1`.  In `Bio.Lemmas.GoSrcSamReader`: `step = IterH.filterMapBodyH pick yield`
  and `run = runG step`, where

      pick ((H, S), err) = some (nil, err)   if err ≠ nil        -- `yield(nil, err)`
                         = none              if err = nil, S = nil  -- a header line: `continue`, NO callback
                         = some (S, nil)     otherwise           -- `yield(sh.S, nil)`

  NOTATION.  `IH = goItems (lineSpec h f g) e x` is the item list of `ReaderHeader` for the bytes `x` and
  the ending `e` (`C03IterGo.go_readerHeader_raw`: one item per non-empty text line — a header line
  `((some l, none), nil)`, or what the translated `parseLine` returns, `((none, S), err)` —, then
  `((none, none), other)` if the source failed).  `F = IH.filterMap pick` are the OUTER items.

  1. `go_sam_reader_log`: for ARBITRARY `hex.DecodeString`, `strconv.Atoi`, `strconv.ParseFloat`, every
     input, ending and history consumer `yield`, with `text lines + 1` fuel (`go_readerHeader_fuel`):
     `sam_Reader … = some (takeThroughH yield [] F)` — IN ALL CASES, the read-error-last case included
     (see below).  `go_sam_reader_log_norm`: under the three hypotheses about the library functions
     the normalised log is `takeThroughH y' [] (Sam.decodeSrc pf e x)` = the model closure
     `IterH.samReaderH pf e x y'`.

     THE FINAL READ ERROR.  `ReaderHeader` hands `(SAMOrHeader{}, rerr)` to ITS consumer — here the loop
     body — and returns whatever the answer.  The loop body DOES call the outer `yield(nil, rerr)`; its
     answer only decides between `break` and `continue`, and nothing follows either way.  In the
     translation: `sam_ReaderHeader` appends the read-error item to the inner history without asking
     `fun h => (run h).2`; the replay `(run inner).1` runs `step` on it, which appends `(none, rerr)` to the
     outer log (the outer `yield` is evaluated on that log, and the answer ends up in the discarded
     `(run inner).2`).  So the item IS in the log and the verdict on it changes nothing.  That is exactly
     what `takeThroughH yield [] F` says when the read error is the last item of `F`: `takeThroughH` never
     depends on the verdict on the LAST item of the list (`go_sam_reader_last_verdict`,
     `go_sam_reader_read_error_last`).  So no exception clause is needed in 1.
  2. `go_sam_reader_no_runtime_panic`: for ARBITRARY library functions, reader, FUEL and consumer the
     branch "iterator continued after the loop body returned false" is never taken — `sam_Reader` is `none`
     exactly when the inner `sam_ReaderHeader` is (out of fuel) —; with enough fuel `sam_Reader … ≠ none`.
  3. `go_sam_reader_all`: the consumer that never stops gets all of `F`; normalised, `Sam.decodeSrc`:
     records and errors in order, headers dropped, a read error last.  `go_sam_reader_line_error`: ONE
     error item per malformed line, in place, and reading continues (C11).
  4. `go_sam_reader_early_stop` (a)–(c) for ANY consumer; `go_sam_reader_early_stop_layers`: BOTH layers —
     the inner history `inner` that `ReaderHeader` produced for the loop body is a prefix of `IH`, the
     outer log is `inner.filterMap pick`, and once the outer consumer declined the item made of the `i`-th
     inner item, `ReaderHeader` handed over NOTHING more (no further line read, not even a header);
     `go_sam_reader_kth`: the consumer that declines at its `k`-th item sees exactly `F.take k`.
  5. `go_sam_reader_headers_dropped`: every item of the log is `(some s, nil)` or `(none, e)`, `e ≠ nil`.
  6. `go_sam_reader_roundtrip`: the translated `Write`, then the translated `Reader`: the records.

  DEVIATIONS from the suggested statements: none is weakened.  Two remarks.
  (i) `F` is defined with the Go code's own tests (`err != nil`, `sh.S == nil`), so an inner item
  `((none, none), nil)` — "no header, no record, no error" — would be dropped like a header, and
  `((some h, some s), nil)` would be passed on as a record.  `ReaderHeader` produces neither under the
  three library hypotheses (`lineSpec_model`), and 1, 2, 4, 5 hold without them.
  (ii) The normalised statements need the library hypotheses only to identify `F`, normalised, with the
  model's `Sam.decodeSrc`.

  Guarded by the translator's `_Found` flags (see `Bio.Lemmas.GoSrc`).
-/
import Bio.Lemmas.GoSrcSamReader
import Bio.Props.C03IterGo
set_option linter.unusedVariables false
namespace Bio.Props.C03ReaderGo
open Bio Bio.GoRt Bio.Generated Bio.GoSrcLemmas Bio.GoSrcLemmas.SamP Bio.GoSrcLemmas.BedRd
  Bio.GoSrcLemmas.SamIt Bio.GoSrcLemmas.SamRd Bio.IterH

/-- every translator flag this file depends on; the non-vacuity examples below are stated as
`allFound = false ∨ …` so that a source the translator no longer recognises is not an alarm -/
def allFound : Bool := GoSrc.sam_Reader_Found && C03IterGo.allFound

/-! ## `pick`, `normO`, spelled out -/

/-- the loop body on the shapes of a `ReaderHeader` item: a header line — no callback; a record — handed on;
an error (whatever comes with it) — `(nil, err)` -/
example (hd : Bytes) (t : SamT) (H : Option Bytes) (S : Option SamT) :
    pick ((some hd, none), GoErr.nil) = none
    ∧ pick ((none, some t), GoErr.nil) = some (some t, GoErr.nil)
    ∧ pick ((H, S), GoErr.other) = some (none, GoErr.other)
    ∧ pick ((H, S), GoErr.eof) = some (none, GoErr.eof)
    ∧ pick ((H, none), GoErr.nil) = none := ⟨rfl, rfl, rfl, rfl, rfl⟩

/-- the translated loop body IS `filterMapBodyH pick yield`: `continue` without a callback answers `true`
and leaves the outer log alone; otherwise the outer consumer is asked about the outer log so far -/
example (yield : List OItem → Bool) (log : List OItem) (it : GoItem) :
    filterMapBodyH pick yield log it
      = match pick it with
        | none => (log, true)
        | some o => (log ++ [o], yield (log ++ [o])) := by
  unfold filterMapBodyH; cases pick it <;> rfl

/-- `normO`: a record with its tags normalised (as `normItem` does), anything else an error -/
example (s : Sam.Sam) (r : Sam.Tags) (o : Option SamT) :
    normO (some (tupleOf s r), GoErr.nil) = .ok { s with tags := Sam.insertAll r [] }
    ∧ normO (o, GoErr.other) = .err ∧ normO (none, GoErr.nil) = .err := by
  refine ⟨rfl, ?_, rfl⟩; cases o <;> rfl

/-! ## 1. The log -/

/-- THE LOG, for ARBITRARY library functions and EVERY history consumer `yield`: with `text lines + 1` fuel
(at most `len x + 1`: `C03IterGo.go_readerHeader_fuel`) the translated `Reader` returns the outer items
`F = IH.filterMap pick` of the uninterrupted run — `IH` the items of `ReaderHeader`, header items dropped,
a record item handed on as `(some s, nil)`, an error item as `(none, e)` — up to and including the first
one on which `yield` declined.  This holds in ALL cases; when a read error is the last item the verdict on
it is irrelevant (see `go_sam_reader_read_error_last`). -/
theorem go_sam_reader_log : GoSrc.sam_Reader_Found = true → GoSrc.sam_ReaderHeader_Found = true →
    GoSrc.sam_parseLine_Found = true → GoSrc.parseInts_Found = true → GoSrc.parseTags_Found = true →
    GoSrc.splitTag_Found = true →
    ∀ (h : Bytes → Bytes × GoErr) (f : Bytes → Int × GoErr) (g : Bytes → Int → Bytes × GoErr)
      (x : Bytes) (e : Ending) (yield : List OItem → Bool) (fuel : Nat), (textLines e x).length + 1 ≤ fuel →
    GoSrc.sam_Reader h f g fuel ⟨x, e⟩ yield
      = some (takeThroughH yield [] ((goItems (lineSpec h f g) e x).filterMap pick)) :=
  fun hRd hR hF hI hT hS h f g x e y fuel hfuel => sam_Reader_raw hRd hR hF hI hT hS h f g fuel x e y hfuel

/-- the fuel hypothesis is satisfiable for every input: `len x + 1` iterations always suffice -/
example (e : Ending) (x : Bytes) : (textLines e x).length + 1 ≤ x.length + 1 := C03IterGo.go_readerHeader_fuel e x

/-- Under the three hypotheses the outer items, normalised, are the model's `Sam.decodeSrc pf e x`. -/
theorem go_sam_reader_items :
    ∀ (h : Bytes → Bytes × GoErr) (f : Bytes → Int × GoErr) (g : Bytes → Int → Bytes × GoErr)
      (pf : Bytes → Option Bytes), AtoiModel f → PFModel g pf → HexModel h → ∀ (x : Bytes) (e : Ending),
    ((goItems (lineSpec h f g) e x).filterMap pick).map normO = Sam.decodeSrc pf e x :=
  fun h f g pf hf hg hh x e => outItems_norm hf hg hh e x

/-- THE LOG, normalised.  Under `AtoiModel f`, `PFModel g pf`, `HexModel h`, for every consumer `y'` of
normalised histories (and `y` any Go-level consumer that answers as `y'` does on the normalised history):
the normalised log is the model's `Sam.decodeSrc pf e x` cut by `y'`, i.e. the log of the model closure
`IterH.samReaderH pf e x y'` (the model of `Reader` ranging over the model of `ReaderHeader`). -/
theorem go_sam_reader_log_norm : GoSrc.sam_Reader_Found = true → GoSrc.sam_ReaderHeader_Found = true →
    GoSrc.sam_parseLine_Found = true → GoSrc.parseInts_Found = true → GoSrc.parseTags_Found = true →
    GoSrc.splitTag_Found = true →
    ∀ (h : Bytes → Bytes × GoErr) (f : Bytes → Int × GoErr) (g : Bytes → Int → Bytes × GoErr)
      (pf : Bytes → Option Bytes), AtoiModel f → PFModel g pf → HexModel h →
    ∀ (x : Bytes) (e : Ending) (y' : List (Item Sam.Sam) → Bool) (y : List OItem → Bool),
    (∀ l, y l = y' (l.map normO)) → ∀ (fuel : Nat), (textLines e x).length + 1 ≤ fuel →
    (GoSrc.sam_Reader h f g fuel ⟨x, e⟩ y).map (·.map normO)
        = some (takeThroughH y' [] (Sam.decodeSrc pf e x))
    ∧ (GoSrc.sam_Reader h f g fuel ⟨x, e⟩ y).map (·.map normO) = some (IterH.samReaderH pf e x y') := by
  intro hRd hR hF hI hT hS h f g pf hf hg hh x e y' y hy fuel hfuel
  have hy' : y = fun l => y' (l.map normO) := funext hy
  have h1 : (GoSrc.sam_Reader h f g fuel ⟨x, e⟩ y).map (·.map normO)
      = some (takeThroughH y' [] (Sam.decodeSrc pf e x)) := by
    rw [sam_Reader_raw hRd hR hF hI hT hS h f g fuel x e y hfuel, hy', Option.map_some,
      takeThroughH_map normO y' _ [], outItems_norm hf hg hh e x]
    rfl
  exact ⟨h1, by rw [h1, C18Hist.samReaderH_log]⟩

/-- the hypotheses are satisfiable; so is the consumer hypothesis ("stop at the first error") -/
example : AtoiModel atoiP ∧ PFModel (pfP Sam.exPf) Sam.exPf ∧ HexModel hexP :=
  ⟨atoiP_model, pfP_model _, hexP_model⟩
example : ∀ l : List OItem,
    (fun l : List OItem => (l.map normO).getLast? != some .err) l
      = (fun l' : List (Item Sam.Sam) => l'.getLast? != some .err) (l.map normO) := fun _ => rfl

/-- The verdict on the LAST item of the uninterrupted run never matters: consumers that agree on every
history shorter than `F` get the same log. -/
theorem go_sam_reader_last_verdict : GoSrc.sam_Reader_Found = true → GoSrc.sam_ReaderHeader_Found = true →
    GoSrc.sam_parseLine_Found = true → GoSrc.parseInts_Found = true → GoSrc.parseTags_Found = true →
    GoSrc.splitTag_Found = true →
    ∀ (h : Bytes → Bytes × GoErr) (f : Bytes → Int × GoErr) (g : Bytes → Int → Bytes × GoErr)
      (x : Bytes) (e : Ending) (y y' : List OItem → Bool) (fuel : Nat), (textLines e x).length + 1 ≤ fuel →
    (∀ l, l.length < ((goItems (lineSpec h f g) e x).filterMap pick).length → y l = y' l) →
    GoSrc.sam_Reader h f g fuel ⟨x, e⟩ y = GoSrc.sam_Reader h f g fuel ⟨x, e⟩ y' := by
  intro hRd hR hF hI hT hS h f g x e y y' fuel hfuel hyy
  rw [sam_Reader_raw hRd hR hF hI hT hS h f g fuel x e y hfuel,
    sam_Reader_raw hRd hR hF hI hT hS h f g fuel x e y' hfuel]
  exact congrArg some (takeThroughH_congr y y' _ [] (by simpa [outItems] using hyy))

/-- THE FINAL READ ERROR.  When the source fails, `F` ends with the item `(nil, rerr)` (after the items of
the complete lines; the unterminated last line is not parsed), and a consumer that accepted everything
before it gets ALL of `F`, that item included, WHATEVER it answers on it. -/
theorem go_sam_reader_read_error_last : GoSrc.sam_Reader_Found = true → GoSrc.sam_ReaderHeader_Found = true →
    GoSrc.sam_parseLine_Found = true → GoSrc.parseInts_Found = true → GoSrc.parseTags_Found = true →
    GoSrc.splitTag_Found = true →
    ∀ (h : Bytes → Bytes × GoErr) (f : Bytes → Int × GoErr) (g : Bytes → Int → Bytes × GoErr)
      (x : Bytes) (y : List OItem → Bool) (fuel : Nat), (textLines .fail x).length + 1 ≤ fuel →
    (goItems (lineSpec h f g) .fail x).filterMap pick
        = (((textLines .fail x).filter (· ≠ [])).map (lineItemGo (lineSpec h f g))).filterMap pick
            ++ [(none, GoErr.other)]
    ∧ ((∀ l, l.length < ((goItems (lineSpec h f g) .fail x).filterMap pick).length → y l = true) →
        GoSrc.sam_Reader h f g fuel ⟨x, .fail⟩ y = some ((goItems (lineSpec h f g) .fail x).filterMap pick)) := by
  intro hRd hR hF hI hT hS h f g x y fuel hfuel
  refine ⟨outItems_fail _ x, fun hy => ?_⟩
  rw [sam_Reader_raw hRd hR hF hI hT hS h f g fuel x .fail y hfuel,
    takeThroughH_congr y (fun _ => true) _ [] (by simpa [outItems] using hy), takeThroughH_true]
  rfl

/-! ## 2. No runtime panic, no panic -/

/-- For ARBITRARY library functions, ANY reader, ANY fuel and ANY consumer: whenever the inner
`ReaderHeader` (run with the loop body `fun l => (runG (filterMapBodyH pick yield) l).2` as its consumer)
returns an inner history, the loop body had answered `true` on everything but its last item — the test
for the Go runtime panic "range function continued iteration after function for loop body returned false"
fails — and `Reader` returns the replayed outer log; so `Reader` is `none` ONLY when `ReaderHeader` itself
is (its `for { }` loop ran out of fuel).  And with `text lines + 1` fuel `Reader` is never `none`. -/
theorem go_sam_reader_no_runtime_panic : GoSrc.sam_Reader_Found = true → GoSrc.sam_ReaderHeader_Found = true →
    GoSrc.sam_parseLine_Found = true → GoSrc.parseInts_Found = true → GoSrc.parseTags_Found = true →
    GoSrc.splitTag_Found = true →
    ∀ (h : Bytes → Bytes × GoErr) (f : Bytes → Int × GoErr) (g : Bytes → Int → Bytes × GoErr),
    (∀ (fuel : Nat) (r : BufRd) (yield : List OItem → Bool),
      (∀ inner, GoSrc.sam_ReaderHeader h f g fuel r (fun l => (runG (filterMapBodyH pick yield) l).2) = some inner →
        (runG (filterMapBodyH pick yield) inner.dropLast).2 = true
        ∧ GoSrc.sam_Reader h f g fuel r yield = some (runG (filterMapBodyH pick yield) inner).1)
      ∧ (GoSrc.sam_Reader h f g fuel r yield = none
          ↔ GoSrc.sam_ReaderHeader h f g fuel r (fun l => (runG (filterMapBodyH pick yield) l).2) = none))
    ∧ (∀ (x : Bytes) (e : Ending) (yield : List OItem → Bool) (fuel : Nat), (textLines e x).length + 1 ≤ fuel →
        GoSrc.sam_Reader h f g fuel ⟨x, e⟩ yield ≠ none) := by
  intro hRd hR hF hI hT hS h f g
  refine ⟨fun fuel r y => ⟨fun inner hin => sam_Reader_some hRd hR hF hI hT hS h f g fuel r y inner hin,
    sam_Reader_none_iff hRd hR hF hI hT hS h f g fuel r y⟩, ?_⟩
  intro x e y fuel hfuel
  rw [sam_Reader_raw hRd hR hF hI hT hS h f g fuel x e y hfuel]
  simp

/-! ## 3. The consumer that never stops -/

/-- With the consumer that never stops the log is ALL of `F` (arbitrary library functions); under the three
hypotheses, normalised, it is `Sam.decodeSrc pf e x`: the records and the errors of the input in order,
the header lines dropped; and when the source fails the last item is the read error `(nil, rerr)`. -/
theorem go_sam_reader_all : GoSrc.sam_Reader_Found = true → GoSrc.sam_ReaderHeader_Found = true →
    GoSrc.sam_parseLine_Found = true → GoSrc.parseInts_Found = true → GoSrc.parseTags_Found = true →
    GoSrc.splitTag_Found = true →
    ∀ (h : Bytes → Bytes × GoErr) (f : Bytes → Int × GoErr) (g : Bytes → Int → Bytes × GoErr)
      (x : Bytes) (e : Ending) (fuel : Nat), (textLines e x).length + 1 ≤ fuel →
    GoSrc.sam_Reader h f g fuel ⟨x, e⟩ (fun _ => true) = some ((goItems (lineSpec h f g) e x).filterMap pick)
    ∧ (e = .fail → (GoSrc.sam_Reader h f g fuel ⟨x, e⟩ (fun _ => true)).map (·.getLast?)
          = some (some (none, GoErr.other)))
    ∧ (∀ (pf : Bytes → Option Bytes), AtoiModel f → PFModel g pf → HexModel h →
        (GoSrc.sam_Reader h f g fuel ⟨x, e⟩ (fun _ => true)).map (·.map normO) = some (Sam.decodeSrc pf e x)) := by
  intro hRd hR hF hI hT hS h f g x e fuel hfuel
  have h1 : GoSrc.sam_Reader h f g fuel ⟨x, e⟩ (fun _ => true)
      = some ((goItems (lineSpec h f g) e x).filterMap pick) := by
    rw [sam_Reader_raw hRd hR hF hI hT hS h f g fuel x e _ hfuel, takeThroughH_true]; rfl
  refine ⟨h1, ?_, ?_⟩
  · rintro rfl
    rw [h1, Option.map_some]
    have := outItems_fail (lineSpec h f g) x
    unfold outItems at this
    rw [this]; simp
  · intro pf hf hg hh
    rw [h1, Option.map_some]
    exact congrArg some (outItems_norm hf hg hh e x)

/-- C11 on the translated `Reader`: in a file of LF-terminated plain lines, a non-empty, non-header line
that the model's `parseLine` rejects is exactly ONE error item, in place, and reading continues: the items
before it and after it are those of the files without it (header lines dropped throughout). -/
theorem go_sam_reader_line_error : GoSrc.sam_Reader_Found = true → GoSrc.sam_ReaderHeader_Found = true →
    GoSrc.sam_parseLine_Found = true → GoSrc.parseInts_Found = true → GoSrc.parseTags_Found = true →
    GoSrc.splitTag_Found = true →
    ∀ (h : Bytes → Bytes × GoErr) (f : Bytes → Int × GoErr) (g : Bytes → Int → Bytes × GoErr)
      (pf : Bytes → Option Bytes), AtoiModel f → PFModel g pf → HexModel h →
    ∀ (pre post : List Bytes) (l' : Bytes),
    (∀ l ∈ pre, Sam.plainLine l) → (∀ l ∈ post, Sam.plainLine l) → Sam.plainLine l' → l' ≠ [] →
    l'.head? ≠ some 64 → Sam.parseLine pf (splitOn TAB l') = none →
    ∀ (fuel : Nat), pre.length + post.length + 2 ≤ fuel →
    (GoSrc.sam_Reader h f g fuel ⟨lfFile (pre ++ [l'] ++ post), .eof⟩ (fun _ => true)).map (·.map normO)
      = some (Sam.decode pf (lfFile pre) ++ [Item.err] ++ Sam.decode pf (lfFile post)) := by
  intro hRd hR hF hI hT hS h f g pf hf hg hh pre post l' hpre hpost hl hne h64 hbad fuel hfuel
  have hall : ∀ l ∈ pre ++ [l'] ++ post, Sam.plainLine l := by
    intro l hm
    simp only [List.mem_append, List.mem_singleton] at hm
    rcases hm with (hm | hm) | hm
    · exact hpre l hm
    · subst hm; exact hl
    · exact hpost l hm
  have hlines : textLines .eof (lfFile (pre ++ [l'] ++ post)) = pre ++ [l'] ++ post :=
    textLines_eof_lfFile _ hall
  rw [(go_sam_reader_all hRd hR hF hI hT hS h f g _ .eof fuel (by rw [hlines]; simp; omega)).2.2 pf hf hg hh]
  exact congrArg some (Sam.line_error_local pf pre post l' hpre hpost hl hne h64 hbad).2

/-- Non-vacuity: surrounding lines include a header, an empty line, another bad line and a good record -/
example :
    let pre : List Bytes := [[64, 72, 68], [], [120, 9, 121]]
    let post : List Bytes := [[], [34, 34]]
    let l' : Bytes := [97, 34, 9, 98, 9, 99]
    (∀ l ∈ pre, Sam.plainLine l) ∧ (∀ l ∈ post, Sam.plainLine l) ∧ Sam.plainLine l' ∧ l' ≠ [] ∧
    l'.head? ≠ some 64 ∧ Sam.parseLine Sam.exPf (splitOn TAB l') = none := by decide

/-! ## 4. Early stop -/

/-- For ARBITRARY library functions and ANY consumer `y` (it may keep state): `Reader` returns a log `L`
such that (a) an item after which `y` answered `false` is the last one — nothing is handed over after the
consumer declined; (b) `L` is a prefix of `F`, the log of the uninterrupted run, and `y` answered `true` on
every proper prefix history; (c) hence a consumer that first declines at its `k`-th item has `L.length = k`. -/
theorem go_sam_reader_early_stop : GoSrc.sam_Reader_Found = true → GoSrc.sam_ReaderHeader_Found = true →
    GoSrc.sam_parseLine_Found = true → GoSrc.parseInts_Found = true → GoSrc.parseTags_Found = true →
    GoSrc.splitTag_Found = true →
    ∀ (h : Bytes → Bytes × GoErr) (f : Bytes → Int × GoErr) (g : Bytes → Int → Bytes × GoErr)
      (x : Bytes) (e : Ending) (y : List OItem → Bool) (fuel : Nat), (textLines e x).length + 1 ≤ fuel →
    ∃ L, GoSrc.sam_Reader h f g fuel ⟨x, e⟩ y = some L
      ∧ (∀ i, i < L.length → y (L.take (i + 1)) = false → i + 1 = L.length)
      ∧ L <+: (goItems (lineSpec h f g) e x).filterMap pick
      ∧ (GoSrc.sam_Reader h f g fuel ⟨x, e⟩ (fun _ => true)).map (fun A => decide (L <+: A)) = some true
      ∧ (∀ i, i + 1 < L.length → y (L.take (i + 1)) = true)
      ∧ (∀ (pf : Bytes → Option Bytes), AtoiModel f → PFModel g pf → HexModel h →
          L.map normO <+: Sam.decodeSrc pf e x) := by
  intro hRd hR hF hI hT hS h f g x e y fuel hfuel
  refine ⟨_, sam_Reader_raw hRd hR hF hI hT hS h f g fuel x e y hfuel, takeThroughH_stop _ _,
    takeThroughH_prefix _ _, ?_, takeThroughH_go_on _ _, ?_⟩
  · rw [(go_sam_reader_all hRd hR hF hI hT hS h f g x e fuel hfuel).1, Option.map_some]
    exact congrArg some (decide_eq_true (takeThroughH_prefix _ _))
  · intro pf hf hg hh
    rw [← outItems_norm hf hg hh e x]
    exact (takeThroughH_prefix y _).map normO

/-- BOTH LAYERS.  Let `c = fun l => (runG (filterMapBodyH pick y) l).2` be the loop body as the consumer of
`ReaderHeader`.  Then `ReaderHeader` returns an inner history `inner` and `Reader` a log `L` with:
`inner` is a prefix of `IH`; `L` is what `pick` keeps of `inner` (each inner item was seen by the body
exactly once, headers gave no callback); the body answered `true` on every proper prefix of `inner` and an
inner item on which it answered `false` is the last one; and if the outer consumer `y` declined the outer
item `o` made of the `i`-th inner item, then that inner item is the LAST one `ReaderHeader` handed over —
no further line is read, not even a header line. -/
theorem go_sam_reader_early_stop_layers : GoSrc.sam_Reader_Found = true → GoSrc.sam_ReaderHeader_Found = true →
    GoSrc.sam_parseLine_Found = true → GoSrc.parseInts_Found = true → GoSrc.parseTags_Found = true →
    GoSrc.splitTag_Found = true →
    ∀ (h : Bytes → Bytes × GoErr) (f : Bytes → Int × GoErr) (g : Bytes → Int → Bytes × GoErr)
      (x : Bytes) (e : Ending) (y : List OItem → Bool) (fuel : Nat), (textLines e x).length + 1 ≤ fuel →
    ∃ inner L,
      GoSrc.sam_ReaderHeader h f g fuel ⟨x, e⟩ (fun l => (runG (filterMapBodyH pick y) l).2) = some inner
      ∧ GoSrc.sam_Reader h f g fuel ⟨x, e⟩ y = some L
      ∧ inner <+: goItems (lineSpec h f g) e x
      ∧ L = inner.filterMap pick
      ∧ (∀ i, i + 1 < inner.length → (runG (filterMapBodyH pick y) (inner.take (i + 1))).2 = true)
      ∧ (∀ i, i < inner.length → (runG (filterMapBodyH pick y) (inner.take (i + 1))).2 = false →
          i + 1 = inner.length)
      ∧ (∀ i (hi : i < inner.length) (o : OItem), pick inner[i] = some o →
          y ((inner.take i).filterMap pick ++ [o]) = false → i + 1 = inner.length) := by
  intro hRd hR hF hI hT hS h f g x e y fuel hfuel
  have hin := sam_ReaderHeader_raw hR hF hI hT hS h f g fuel x e
    (fun l => (runG (filterMapBodyH pick y) l).2) hfuel
  refine ⟨_, _, hin, (sam_Reader_some hRd hR hF hI hT hS h f g fuel ⟨x, e⟩ y _ hin).2,
    takeThroughH_prefix _ _, runG_inner_fst pick y _, takeThroughH_go_on _ _, takeThroughH_stop _ _, ?_⟩
  intro i hi o ho hy
  exact inner_stop pick y _ i hi o ho hy

/-- (c), concretely: the consumer that declines at its `k`-th item (`k ≥ 1`; it counts what it was handed)
sees exactly the first `k` outer items — `k` items if the uninterrupted run has that many. -/
theorem go_sam_reader_kth : GoSrc.sam_Reader_Found = true → GoSrc.sam_ReaderHeader_Found = true →
    GoSrc.sam_parseLine_Found = true → GoSrc.parseInts_Found = true → GoSrc.parseTags_Found = true →
    GoSrc.splitTag_Found = true →
    ∀ (h : Bytes → Bytes × GoErr) (f : Bytes → Int × GoErr) (g : Bytes → Int → Bytes × GoErr)
      (x : Bytes) (e : Ending) (k : Nat) (fuel : Nat), 1 ≤ k → (textLines e x).length + 1 ≤ fuel →
    GoSrc.sam_Reader h f g fuel ⟨x, e⟩ (fun l => decide (l.length < k))
      = some (((goItems (lineSpec h f g) e x).filterMap pick).take k)
    ∧ (k ≤ ((goItems (lineSpec h f g) e x).filterMap pick).length →
        (GoSrc.sam_Reader h f g fuel ⟨x, e⟩ (fun l => decide (l.length < k))).map (·.length) = some k) := by
  intro hRd hR hF hI hT hS h f g x e k fuel hk hfuel
  have h1 : GoSrc.sam_Reader h f g fuel ⟨x, e⟩ (fun l => decide (l.length < k))
      = some (((goItems (lineSpec h f g) e x).filterMap pick).take k) := by
    rw [sam_Reader_raw hRd hR hF hI hT hS h f g fuel x e _ hfuel, takeThroughH_count k _ [] (by simp; omega)]
    rfl
  refine ⟨h1, fun hle => ?_⟩
  rw [h1, Option.map_some, List.length_take, Nat.min_eq_left hle]

/-! ## 5. No header reaches the consumer -/

/-- For ARBITRARY library functions and ANY consumer: every item of the log is a record without error,
`(some s, nil)`, or an error without record, `(none, e)` with `e ≠ nil`. -/
theorem go_sam_reader_headers_dropped : GoSrc.sam_Reader_Found = true → GoSrc.sam_ReaderHeader_Found = true →
    GoSrc.sam_parseLine_Found = true → GoSrc.parseInts_Found = true → GoSrc.parseTags_Found = true →
    GoSrc.splitTag_Found = true →
    ∀ (h : Bytes → Bytes × GoErr) (f : Bytes → Int × GoErr) (g : Bytes → Int → Bytes × GoErr)
      (x : Bytes) (e : Ending) (y : List OItem → Bool) (fuel : Nat), (textLines e x).length + 1 ≤ fuel →
    ∃ L, GoSrc.sam_Reader h f g fuel ⟨x, e⟩ y = some L
      ∧ ∀ o ∈ L, (∃ s, o = (some s, GoErr.nil)) ∨ (∃ err, err ≠ GoErr.nil ∧ o = (none, err)) := by
  intro hRd hR hF hI hT hS h f g x e y fuel hfuel
  refine ⟨_, sam_Reader_raw hRd hR hF hI hT hS h f g fuel x e y hfuel, ?_⟩
  intro o ho
  have hmem := (takeThroughH_prefix y (outItems (lineSpec h f g) e x)).subset ho
  obtain ⟨it, _, hit⟩ := List.mem_filterMap.1 hmem
  exact pick_shape it o hit

/-! ## 6. Write, then read -/

/-- Header lines `hs` (each beginning with `@`, free of LF and CR), written as they are, each followed by
LF, and then the well-formed records `rs` written by the translated `(*SAM).Write` (`goWriteAll`): no write
error, and the translated `Reader` on the bytes written, with the consumer that never stops, hands over —
normalised — exactly the records, unchanged and in order. -/
theorem go_sam_reader_roundtrip : GoSrc.sam_Write_Found = true → GoSrc.sam_Reader_Found = true →
    GoSrc.sam_ReaderHeader_Found = true → GoSrc.sam_parseLine_Found = true → GoSrc.parseInts_Found = true →
    GoSrc.parseTags_Found = true → GoSrc.splitTag_Found = true →
    ∀ (h : Bytes → Bytes × GoErr) (f : Bytes → Int × GoErr) (g : Bytes → Int → Bytes × GoErr)
      (pf : Bytes → Option Bytes), AtoiModel f → PFModel g pf → HexModel h →
    ∀ (hs : List Bytes) (rs : List Sam.Sam), (∀ l ∈ hs, Sam.hdrOK l) → (∀ s ∈ rs, Sam.WF pf s) →
    ∀ (k : Nat), ((rs.map Sam.encode).flatten).length ≤ k →
    ∀ (fuel : Nat), hs.length + rs.length + 1 ≤ fuel →
    ∃ w', goWriteAll rs ⟨k, lfFile hs⟩ = some (GoErr.nil, w')
      ∧ w'.out = ((hs ++ rs.map Sam.encodeLine).map (· ++ [10])).flatten
      ∧ (GoSrc.sam_Reader h f g fuel ⟨w'.out, .eof⟩ (fun _ => true)).map (·.map normO) = some (rs.map Item.ok) := by
  intro hW hRd hR hF hI hT hS h f g pf hf hg hh hs rs hhs hrs k hk fuel hfuel
  refine ⟨_, goWriteAll_bytes hW rs k (lfFile hs) hk, ?_, ?_⟩
  · simp only [written_file]; rfl
  · simp only [written_file]
    have hlines := written_lines pf hs rs hhs hrs
    rw [(go_sam_reader_all hRd hR hF hI hT hS h f g (lfFile (hs ++ rs.map Sam.encodeLine)) .eof fuel
      (by rw [hlines]; simp; omega)).2.2 pf hf hg hh]
    exact congrArg some (Sam.file_roundtrip pf hs rs hhs hrs).2

/-- Non-vacuity: C03's sample header lines and records; room; fuel -/
example : (∀ l ∈ Sam.exHs, Sam.hdrOK l) ∧ (∀ s ∈ Sam.exRs, Sam.WF Sam.exPf s) := ⟨Sam.exHs_ok, Sam.exRs_ok⟩
example : ((Sam.exRs.map Sam.encode).flatten).length ≤ 400 ∧ Sam.exHs.length + Sam.exRs.length + 1 ≤ 6 := by
  decide +kernel

/-! ## Concrete runs of the translated closure -/

/-- a `*SAM` with no tags and `*` in the unused fields -/
def recT (qn : Bytes) (flag pos : Int) : SamT := (qn, flag, [42], pos, 0, [42], [42], 0, 0, [42], [42], [])

def lineR1 : Bytes := [114, 49, 9, 48, 9, 42, 9, 48, 9, 48, 9, 42, 9, 42, 9, 48, 9, 48, 9, 42, 9, 42]
def lineR2 : Bytes := [114, 50, 9, 49, 54, 9, 42, 9, 55, 9, 48, 9, 42, 9, 42, 9, 48, 9, 48, 9, 42, 9, 42]
def lineR3 : Bytes := [114, 51, 9, 48, 9, 42, 9, 48, 9, 48, 9, 42, 9, 42, 9, 48, 9, 48, 9, 42, 9, 42]

/-- `@HD\tVN:1\n`, `r1\t0\t*\t0\t0\t*\t*\t0\t0\t*\t*\n`, `r2\t16\t*\t7\t0\t*\t*\t0\t0\t*\t*\n` -/
def exTwo : Bytes := C03IterGo.exHd ++ [10] ++ lineR1 ++ [10] ++ lineR2 ++ [10]
/-- `r1…\n`, `bad\tline\n`, `r3…\n` -/
def exBad : Bytes := lineR1 ++ [10] ++ [98, 97, 100, 9, 108, 105, 110, 101] ++ [10] ++ lineR3 ++ [10]

def t1 : SamT := recT [114, 49] 0 0
def t2 : SamT := recT [114, 50] 16 7
def t3 : SamT := recT [114, 51] 0 0

/-- the fuel hypothesis on the sample texts -/
example : (textLines .eof exTwo).length + 1 ≤ 4 ∧ (textLines .fail exTwo).length + 1 ≤ 4
    ∧ (textLines .eof exBad).length + 1 ≤ 4 := by decide +kernel

set_option synthInstance.maxSize 4096 in
/-- one header line and two records, read completely: TWO items, the header is dropped; the inner
`ReaderHeader` with the loop body as its consumer handed over THREE -/
example : allFound = false ∨ (
    GoSrc.sam_Reader hexP atoiP (pfP Sam.exPf) 4 ⟨exTwo, .eof⟩ (fun _ => true)
      = some [(some t1, GoErr.nil), (some t2, GoErr.nil)]
    ∧ GoSrc.sam_ReaderHeader hexP atoiP (pfP Sam.exPf) 4 ⟨exTwo, .eof⟩
        (fun l => (runG (filterMapBodyH pick (fun _ => true)) l).2)
      = some [((some C03IterGo.exHd, none), GoErr.nil), ((none, some t1), GoErr.nil), ((none, some t2), GoErr.nil)]) := by
  decide +kernel

set_option synthInstance.maxSize 4096 in
/-- the same, stopped after the first record ("at most one item"): ONE item; and through BOTH layers: the
inner `ReaderHeader` handed the loop body the header line and the first record, and nothing after the
body answered `false` (an instance of the hypotheses of the last clause of
`go_sam_reader_early_stop_layers`: `i = 1`, `o = (some t1, nil)`); stopped after the second: two items -/
example : allFound = false ∨ (
    GoSrc.sam_Reader hexP atoiP (pfP Sam.exPf) 4 ⟨exTwo, .eof⟩ (fun l => decide (l.length < 1))
      = some [(some t1, GoErr.nil)]
    ∧ GoSrc.sam_ReaderHeader hexP atoiP (pfP Sam.exPf) 4 ⟨exTwo, .eof⟩
        (fun l => (runG (filterMapBodyH pick (fun l => decide (l.length < 1))) l).2)
      = some [((some C03IterGo.exHd, none), GoErr.nil), ((none, some t1), GoErr.nil)]
    ∧ pick ((none, some t1), GoErr.nil) = some (some t1, GoErr.nil)
    ∧ (fun l : List OItem => decide (l.length < 1))
        (([((some C03IterGo.exHd, none), GoErr.nil)] : List GoItem).filterMap pick ++ [(some t1, GoErr.nil)]) = false
    ∧ GoSrc.sam_Reader hexP atoiP (pfP Sam.exPf) 4 ⟨exTwo, .eof⟩ (fun l => decide (l.length < 2))
      = some [(some t1, GoErr.nil), (some t2, GoErr.nil)]
    -- an instance of the hypothesis of `go_sam_reader_kth`
    ∧ (1 ≤ 1 ∧ 1 ≤ (([((some C03IterGo.exHd, none), GoErr.nil), ((none, some t1), GoErr.nil),
        ((none, some t2), GoErr.nil)] : List GoItem).filterMap pick).length)) := by
  decide +kernel

set_option synthInstance.maxSize 4096 in
/-- a malformed middle line: ONE error item in place, and reading continues; "stop at the first error"
ends there -/
example : allFound = false ∨ (
    GoSrc.sam_Reader hexP atoiP (pfP Sam.exPf) 4 ⟨exBad, .eof⟩ (fun _ => true)
      = some [(some t1, GoErr.nil), (none, GoErr.other), (some t3, GoErr.nil)]
    ∧ GoSrc.sam_Reader hexP atoiP (pfP Sam.exPf) 4 ⟨exBad, .eof⟩
        (fun l => l.getLast?.map (·.2) != some GoErr.other)
      = some [(some t1, GoErr.nil), (none, GoErr.other)]) := by
  decide +kernel

set_option synthInstance.maxSize 4096 in
/-- the source FAILS after these bytes: the read error is the last item; a consumer that would decline it
("at most two items") gets the same log — the verdict on it changes nothing; one that declines before
("at most one item") does not see it; the empty input that fails: one error item, whatever the consumer -/
example : allFound = false ∨ (
    GoSrc.sam_Reader hexP atoiP (pfP Sam.exPf) 4 ⟨exTwo, .fail⟩ (fun _ => true)
      = some [(some t1, GoErr.nil), (some t2, GoErr.nil), (none, GoErr.other)]
    ∧ GoSrc.sam_Reader hexP atoiP (pfP Sam.exPf) 4 ⟨exTwo, .fail⟩ (fun l => decide (l.length < 3))
      = some [(some t1, GoErr.nil), (some t2, GoErr.nil), (none, GoErr.other)]
    ∧ GoSrc.sam_Reader hexP atoiP (pfP Sam.exPf) 4 ⟨exTwo, .fail⟩ (fun l => decide (l.length < 2))
      = some [(some t1, GoErr.nil), (some t2, GoErr.nil)]
    ∧ GoSrc.sam_Reader hexP atoiP (pfP Sam.exPf) 1 ⟨[], .fail⟩ (fun _ => false) = some [(none, GoErr.other)]
    ∧ GoSrc.sam_Reader hexP atoiP (pfP Sam.exPf) 1 ⟨[], .eof⟩ (fun _ => false) = some []) := by
  decide +kernel

set_option synthInstance.maxSize 4096 in
/-- too little fuel for the inner loop to reach the end of the input: `none` (out of fuel in `ReaderHeader`,
not the runtime panic) — unless the consumer stops it before; header lines only: no item at all -/
example : allFound = false ∨ (
    GoSrc.sam_Reader hexP atoiP (pfP Sam.exPf) 2 ⟨exTwo, .eof⟩ (fun _ => true) = none
    ∧ GoSrc.sam_ReaderHeader hexP atoiP (pfP Sam.exPf) 2 ⟨exTwo, .eof⟩
        (fun l => (runG (filterMapBodyH pick (fun _ => true)) l).2) = none
    ∧ GoSrc.sam_Reader hexP atoiP (pfP Sam.exPf) 2 ⟨exTwo, .eof⟩ (fun l => decide (l.length < 1))
      = some [(some t1, GoErr.nil)]
    ∧ GoSrc.sam_Reader hexP atoiP (pfP Sam.exPf) 3 ⟨C03IterGo.exHd ++ [10, 64, 10], .eof⟩ (fun _ => false)
      = some []) := by
  decide +kernel

/-- C03IterGo's sample input (header with CRLF, a blank line, a record with two tags out of order, a bad
line, a record without final newline): normalised, the records and the error, as the model says -/
example : allFound = false ∨ (
    (GoSrc.sam_Reader hexP atoiP (pfP Sam.exPf) 6 ⟨C03IterGo.exIn, .eof⟩ (fun _ => true)).map (·.map normO)
      = some [.ok C03IterGo.exR1, .err, .ok C03IterGo.exR2]
    ∧ Sam.decodeSrc Sam.exPf .eof C03IterGo.exIn = [.ok C03IterGo.exR1, .err, .ok C03IterGo.exR2]
    ∧ IterH.samReaderH Sam.exPf .eof C03IterGo.exIn (fun l => l.length < 2) = [.ok C03IterGo.exR1, .err]
    ∧ (GoSrc.sam_Reader hexP atoiP (pfP Sam.exPf) 6 ⟨C03IterGo.exIn, .eof⟩
        (fun l => (l.map normO).length < 2)).map (·.map normO) = some [.ok C03IterGo.exR1, .err]) := by
  decide +kernel

/-- arbitrary (absurd) library functions — every integer "parses" as 7, no float or hex string does: the
closure still returns -/
example : allFound = false ∨ (
    (GoSrc.sam_Reader (fun _ => ([], GoErr.other)) (fun _ => (7, GoErr.nil)) (fun _ _ => ([], GoErr.eof)) 6
        ⟨C03IterGo.exIn, .eof⟩ (fun _ => true)).map (·.map (·.2))
      = some [GoErr.nil, GoErr.other, GoErr.nil]) := by
  decide +kernel

/-- the round trip on C03's samples: two header lines and three records, written by the translated `Write`,
read back by the translated `Reader`: the three records -/
example : allFound = false ∨ (
    ((goWriteAll Sam.exRs ⟨400, lfFile Sam.exHs⟩).bind fun p =>
        (GoSrc.sam_Reader hexP atoiP (pfP Sam.exPf) 6 ⟨p.2.out, .eof⟩ (fun _ => true)).map fun L =>
          (p.1, L.map normO))
      = some (GoErr.nil, Sam.exRs.map Item.ok)) := by
  decide +kernel

end Bio.Props.C03ReaderGo
