/-
  Source-level tie for C14: facts extracted by go/ast from the SOURCE TEXT of /repo
  (Bio/Generated/Src.lean, regenerated on every run) agree with what the model
  assumes and with what the running code was observed to do
  (Bio/Generated/Tables.lean).  Re-checked by `decide` on every run; an
  unrecognised source shape makes the generated file fail to elaborate.
-/
import Bio.Lemmas.Sequtil
import Bio.Generated.Src
import Bio.Generated.Tables
namespace Bio.SrcFacts
open Bio.Generated

/-- C14: the `codonToAmino` map literal in the source is the standard genetic code on the
64 upper-case codons (each key once), and the table observed on the running code
is its closure under letter case. -/
theorem codon_source_table :
    Src.codonToAmino.length = 64 ∧
    Src.codonToAmino.all (fun e => Bio.Sequtil.stdCodon e.1.1 e.1.2.1 e.1.2.2 == some e.2) = true ∧
    (Src.codonToAmino.map (·.1)).Nodup ∧
    Src.codonToAmino.all (fun e => Bio.Sequtil.codon Generated.codonTable e.1.1 e.1.2.1 e.1.2.2 == some e.2) = true := by
  decide +kernel

/-- C14: the `AminoAcids` constant in the source is the one the running code exports. -/
theorem amino_acids_const : Src.aminoAcids = Generated.aminoAcids := by decide

end Bio.SrcFacts
