/-
  Source-level tie for C14: facts extracted by go/ast from the SOURCE TEXT of /repo
  (Bio/Generated/Src.lean, regenerated on every run).  Best-effort: a fact whose
  source shape is not recognised is `none` and nothing is claimed about it (the
  behaviour-level tie through Bio/Generated/Tables.lean and the correspondence
  run remains); a fact that IS extracted must agree with the model and with the
  observed behaviour.  `holdsIfFound o p` is `true` for `none` and `p x` for
  `some x`; every theorem is closed by `decide` whichever it is.
-/
import Bio.Lemmas.SrcFacts
import Bio.Lemmas.Sequtil
import Bio.Generated.Src
import Bio.Generated.Tables
namespace Bio.SrcFacts
open Bio.Generated

def nodupKeys (t : List ((UInt8 × UInt8 × UInt8) × UInt8)) : Bool :=
  let ks := t.map fun e => e.1.1.toNat * 65536 + e.1.2.1.toNat * 256 + e.1.2.2.toNat
  ks.all fun k => (ks.filter (· == k)).length == 1

def codonSourceOK (t : List ((UInt8 × UInt8 × UInt8) × UInt8)) : Bool :=
  t.length == 64 &&
  t.all (fun e => Bio.Sequtil.stdCodon e.1.1 e.1.2.1 e.1.2.2 == some e.2) &&
  nodupKeys t &&
  t.all (fun e => Bio.Sequtil.codon Generated.codonTable e.1.1 e.1.2.1 e.1.2.2 == some e.2)

/-- The `codonToAmino` map literal in the source is the standard genetic code on the 64
upper-case codons (each key once), and agrees with the table observed on the running code. -/
theorem codon_source_table : holdsIfFound Src.codonToAmino codonSourceOK = true := by decide +kernel

/-- The `AminoAcids` constant in the source is the one the running code exports. -/
theorem amino_acids_const : holdsIfFound Src.aminoAcids (· == Generated.aminoAcids) = true := by decide

end Bio.SrcFacts
