/-
  C05 (newick), READER half, for the Go SOURCE TEXT: `(*reader).read` of formats/newick/newick.go, as
  translated statement by statement on every run into `Bio.Generated.GoSrc.newick_read`, and iterated
  as `Reader` does (`NwkRd.goNewickDecode`), IS the hand-written parser `Newick.readTree` /
  `Newick.decodeSrc` of `Bio.Model.Newick` — for EVERY input, both endings of the byte source, every
  initial heap and reader history.

  The Go code works on `*Node` pointers with in-place mutation, so the translation is over an explicit
  heap (`NwkRd.Heap`: one cell `(Name, Distance, Children)` per node allocated so far; a pointer is an
  index; `nil` is `-1`).  The abstraction relation `NwkRd.RepT heap p t` says that the cell at `p`
  holds `t`'s name and distance and that its `Children` represent `t.kids` in order (`NwkRd.RepF`),
  every subtree in its own interval of cells after its parent (so: no sharing, no cycle);
  `NwkRd.absT heap fuel p` reads a tree back.  The Go code appends a child's POINTER to its parent when
  the child is created and fills the child in later; the model keeps the unfinished child on its stack
  and closes it into the parent at `)` / `,`: the simulation relation is `NwkRd.Sim`
  (`Bio.Lemmas.GoSrcNewickRead2`), one loop iteration = one unfolding of `readLoop`.

  `strconv.ParseFloat` is a PARAMETER `pf` of the translated code; what is assumed about it is the
  explicit hypothesis `NwkRd.PFModel pf pd` (no error and the model's value where the model's distance
  parser `pd` accepts, some error where it rejects) and, where it matters, `NwkRd.PFNoEof pf` (its
  error is never `io.EOF`; `Reader` would take that for the end of the stream).

  1. `go_read`: one call of `read()` is `readTree`; `go_read_any_fuel`: partial correctness with any fuel.
  2. `go_read_frame` / `go_read_frame_any_fuel` / `go_read_preserves`: cells that existed before the call
     are never written (arbitrary `pf`).
  3. `go_read_no_panic`: `read()` returns, for an arbitrary `pf`.
  4. `go_decode`: the translated `Reader` is `Newick.decodeSrc` on all inputs.
  5. `go_roundtrip` / `go_roundtrip_trees`: what the model writer writes, the translated reader reads back.

  Guarded by the translator's `_Found` flags (see `Bio.Lemmas.GoSrc`).
-/
import Bio.Lemmas.GoSrcNewickRead
import Bio.Props.C05
set_option linter.unusedVariables false
namespace Bio.Props.C05ReadGo
open Bio Bio.GoRt Bio.Generated Bio.GoSrcLemmas Bio.GoSrcLemmas.NwkRd

/-- every translator flag this file depends on; the non-vacuity examples below are stated as
`allFound = false ∨ …` so that a source the translator no longer recognises is not an alarm -/
def allFound : Bool :=
  GoSrc.newick_read_Found && GoSrc.newick_nextToken_Found && GoSrc.nameFromText_Found && GoSrc.quoted_Found

/-! ## 1. One call of `read()` -/

/-- One call of the translated `read()` on the remaining input `x` of a source ending with `e`, with
ANY initial heap `heap₀`, whatever `UnreadByte` would put back (`last`) and whatever the buffer holds
(`rb`), with `x.length + 1` fuel (loop iterations, and iterations of each `nextToken` call), under
`PFModel pf pd`, is the model's `Newick.readTree pd e x`:
* a tree `t`, remaining input `rest` ↦ the pointer `heap₀.length` (the first cell this call
  allocated), `nil`, a heap in which that pointer represents `t` (`RepT`) and which is `heap₀` with
  cells appended, and a reader whose remaining input is EXACTLY `rest`;
* a clean end (no token before EOF) ↦ `(nil, io.EOF)`, one (unused) cell allocated, nothing left;
* an error ↦ `nil` and an error that is not `nil`: `io.ErrUnexpectedEOF` / `fmt.Errorf(…)` / the
  tokenizer's own error (all translated `other`), or `ParseFloat`'s own error on a token the model's
  `pd` rejects — so it is not `io.EOF` either as soon as `ParseFloat` never returns `io.EOF`. -/
theorem go_read : GoSrc.newick_read_Found = true → GoSrc.newick_nextToken_Found = true →
    GoSrc.nameFromText_Found = true → GoSrc.quoted_Found = true →
    ∀ (pf : PF) (pd : Bytes → Option Newick.Dist), PFModel pf pd →
    ∀ (x : Bytes) (e : Ending) (heap₀ : Heap) (last : Option UInt8) (rb : Bytes) (fuel : Nat),
      x.length + 1 ≤ fuel →
      match Newick.readTree pd e x with
      | .tree t rest => ∃ heap' last' rb',
          GoSrc.newick_read pf fuel heap₀ ⟨last, x, e⟩ rb
            = some ((heap₀.length : Int), GoErr.nil, heap', ⟨last', rest, e⟩, rb') ∧
          RepT heap' (heap₀.length : Int) t ∧ ∃ ext, heap' = heap₀ ++ ext
      | .eof => GoSrc.newick_read pf fuel heap₀ ⟨last, x, e⟩ rb
          = some (-1, GoErr.eof, heap₀ ++ [zero], ⟨none, [], e⟩, [])
      | .err => ∃ err heap' r' rb',
          GoSrc.newick_read pf fuel heap₀ ⟨last, x, e⟩ rb = some (-1, err, heap', r', rb') ∧
          err ≠ GoErr.nil ∧ (err = GoErr.other ∨ ∃ s, pd s = none ∧ err = (pf s 64).2) ∧
          (PFNoEof pf → err ≠ GoErr.eof) :=
  fun hR hT hN hQ pf pd hpf x e heap₀ last rb fuel hf =>
    newick_read_model hR hT hN hQ hpf x e heap₀ last rb fuel hf

/-- Reading the result back: after a successful `read()`, `absT` on the returned heap and pointer is
the model's tree. -/
theorem go_read_absT : GoSrc.newick_read_Found = true → GoSrc.newick_nextToken_Found = true →
    GoSrc.nameFromText_Found = true → GoSrc.quoted_Found = true →
    ∀ (pf : PF) (pd : Bytes → Option Newick.Dist), PFModel pf pd →
    ∀ (x : Bytes) (e : Ending) (heap₀ : Heap) (last : Option UInt8) (rb : Bytes) (fuel : Nat),
      x.length + 1 ≤ fuel → ∀ (t : Newick.Tree) (rest : Bytes), Newick.readTree pd e x = .tree t rest →
      ∃ p heap' r' rb', GoSrc.newick_read pf fuel heap₀ ⟨last, x, e⟩ rb = some (p, GoErr.nil, heap', r', rb') ∧
        absT heap' heap'.length p = t := by
  intro hR hT hN hQ pf pd hpf x e heap₀ last rb fuel hf t rest hr
  have h := newick_read_model hR hT hN hQ hpf x e heap₀ last rb fuel hf
  simp only [hr] at h
  obtain ⟨heap', last', rb', h1, h2, _⟩ := h
  have hb := nwk_idx_some h2.choose_spec.1
  unfold len at hb
  exact ⟨_, _, _, _, h1, absT_of_RepT h2 _ (by omega) (by omega)⟩

/-- Partial correctness with ANY fuel: if the translated `read()` returns at all (it reports `none`,
no claim, when a loop runs out of fuel), what it returns is what the model says (`NwkRd.Post`: the
three cases of `go_read`). -/
theorem go_read_any_fuel : GoSrc.newick_read_Found = true → GoSrc.newick_nextToken_Found = true →
    GoSrc.nameFromText_Found = true → GoSrc.quoted_Found = true →
    ∀ (pf : PF) (pd : Bytes → Option Newick.Dist), PFModel pf pd →
    ∀ (x : Bytes) (e : Ending) (heap₀ : Heap) (last : Option UInt8) (rb : Bytes) (fuel : Nat) (res : Res),
      GoSrc.newick_read pf fuel heap₀ ⟨last, x, e⟩ rb = some res →
      Post pf pd heap₀ e (heap₀ ++ [zero]) false (Newick.readTree pd e x) (some res) :=
  fun hR hT hN hQ pf pd hpf x e heap₀ last rb fuel res h =>
    newick_read_partial hR hT hN hQ hpf x e heap₀ last rb fuel res h

/-- Without `PFNoEof` the error of `go_read`'s third case CAN be `io.EOF`: the statement below is
false (see the example with `pfEofEx` at the end: `a:x;` with a `ParseFloat` whose error is `io.EOF`);
kept as a `Prop` only.  The real `strconv.ParseFloat` returns `*strconv.NumError`s, never `io.EOF`. -/
def go_read_err_never_eof_full : Prop :=
  ∀ (pf : PF) (pd : Bytes → Option Newick.Dist), PFModel pf pd →
  ∀ (x : Bytes) (e : Ending) (heap₀ : Heap) (last : Option UInt8) (rb : Bytes) (fuel : Nat),
    x.length + 1 ≤ fuel → Newick.readTree pd e x = .err →
    ∀ p heap' r' rb', GoSrc.newick_read pf fuel heap₀ ⟨last, x, e⟩ rb ≠ some (p, GoErr.eof, heap', r', rb')

/-! ## 2. Frame -/

/-- For an ARBITRARY `ParseFloat`, any heap and reader state: with `(remaining input).length + 1` fuel,
`read()` returns, and the heap it hands back is the initial heap with cells appended — cells that
existed before the call (the trees read earlier from the same stream) are never written. -/
theorem go_read_frame : GoSrc.newick_read_Found = true → GoSrc.newick_nextToken_Found = true →
    GoSrc.nameFromText_Found = true → GoSrc.quoted_Found = true →
    ∀ (pf : PF) (fuel : Nat) (heap₀ : Heap) (r : ByteRd) (rb : Bytes), r.rest.length + 1 ≤ fuel →
      ∃ p err ext r' rb', GoSrc.newick_read pf fuel heap₀ r rb = some (p, err, heap₀ ++ ext, r', rb') := by
  intro hR hT hN hQ pf fuel heap₀ r rb hf
  have h := newick_read_isSome hR hT hN hQ pf fuel heap₀ r rb hf
  cases hr : GoSrc.newick_read pf fuel heap₀ r rb with
  | none => rw [hr] at h; cases h
  | some res =>
    obtain ⟨p, err, heap', r', rb'⟩ := res
    obtain ⟨ext, rfl⟩ := newick_read_frame hR hT hN hQ pf fuel heap₀ r rb p err heap' r' rb' hr
    exact ⟨p, err, ext, r', rb', rfl⟩

/-- … and with ANY fuel: whatever `read()` returns (if it returns), the heap it hands back is the
initial heap with cells appended. -/
theorem go_read_frame_any_fuel : GoSrc.newick_read_Found = true → GoSrc.newick_nextToken_Found = true →
    GoSrc.nameFromText_Found = true → GoSrc.quoted_Found = true →
    ∀ (pf : PF) (fuel : Nat) (heap₀ : Heap) (r : ByteRd) (rb : Bytes)
      (p : Int) (err : GoErr) (heap' : Heap) (r' : ByteRd) (rb' : Bytes),
      GoSrc.newick_read pf fuel heap₀ r rb = some (p, err, heap', r', rb') →
      ∃ ext, heap' = heap₀ ++ ext :=
  fun hR hT hN hQ pf fuel heap₀ r rb p err heap' r' rb' h =>
    newick_read_frame hR hT hN hQ pf fuel heap₀ r rb p err heap' r' rb' h

/-- … so a tree represented in the initial heap is still represented, at the same pointer, in the heap
after any later `read()` on the same stream. -/
theorem go_read_preserves : GoSrc.newick_read_Found = true → GoSrc.newick_nextToken_Found = true →
    GoSrc.nameFromText_Found = true → GoSrc.quoted_Found = true →
    ∀ (pf : PF) (fuel : Nat) (heap₀ : Heap) (r : ByteRd) (rb : Bytes)
      (p : Int) (err : GoErr) (heap' : Heap) (r' : ByteRd) (rb' : Bytes),
      GoSrc.newick_read pf fuel heap₀ r rb = some (p, err, heap', r', rb') →
      ∀ (q : Int) (t : Newick.Tree), RepT heap₀ q t → RepT heap' q t := by
  intro hR hT hN hQ pf fuel heap₀ r rb p err heap' r' rb' h q t hq
  obtain ⟨ext, rfl⟩ := newick_read_frame hR hT hN hQ pf fuel heap₀ r rb p err heap' r' rb' h
  exact RepT.append hq ext

/-! ## 3. No panic -/

/-- For an ARBITRARY `ParseFloat`, any heap and reader state: with `(remaining input).length + 1` fuel
the translated `read()` returns — no index out of range (`stack[len(stack)-1]`, `stack[len(stack)-2]`,
the heap cells, `stack[0]`), `panic("unexpected state")` unreachable, no loop out of fuel. -/
theorem go_read_no_panic : GoSrc.newick_read_Found = true → GoSrc.newick_nextToken_Found = true →
    GoSrc.nameFromText_Found = true → GoSrc.quoted_Found = true →
    ∀ (pf : PF) (fuel : Nat) (heap₀ : Heap) (r : ByteRd) (rb : Bytes), r.rest.length + 1 ≤ fuel →
      GoSrc.newick_read pf fuel heap₀ r rb ≠ none := by
  intro hR hT hN hQ pf fuel heap₀ r rb hf h
  have := newick_read_isSome hR hT hN hQ pf fuel heap₀ r rb hf
  rw [h] at this
  cases this

/-! ## 4. `Reader` -/

/-- The translated `Reader` (`goNewickDecode`: a fresh reader, `read()` called again and again on one
growing heap, stop at `io.EOF`, an error item ends the stream, every tree read back from the heap with
`absT`) yields exactly the model's `Newick.decodeSrc pd e x` — every input, both endings. -/
theorem go_decode : GoSrc.newick_read_Found = true → GoSrc.newick_nextToken_Found = true →
    GoSrc.nameFromText_Found = true → GoSrc.quoted_Found = true →
    ∀ (pf : PF) (pd : Bytes → Option Newick.Dist), PFModel pf pd → PFNoEof pf →
    ∀ (x : Bytes) (e : Ending) (fuel : Nat), x.length + 1 ≤ fuel →
      goNewickDecode pf fuel x e = some (Newick.decodeSrc pd e x) :=
  fun hR hT hN hQ pf pd hpf hne x e fuel hf =>
    goNewickDecode_eq hR hT hN hQ hpf x e fuel hf (Or.inl fun s _ => hne s)

/-- … and without `PFNoEof` whenever the model's stream has no error item. -/
theorem go_decode_ok : GoSrc.newick_read_Found = true → GoSrc.newick_nextToken_Found = true →
    GoSrc.nameFromText_Found = true → GoSrc.quoted_Found = true →
    ∀ (pf : PF) (pd : Bytes → Option Newick.Dist), PFModel pf pd →
    ∀ (x : Bytes) (e : Ending) (fuel : Nat), x.length + 1 ≤ fuel → Item.err ∉ Newick.decodeSrc pd e x →
      goNewickDecode pf fuel x e = some (Newick.decodeSrc pd e x) :=
  fun hR hT hN hQ pf pd hpf x e fuel hf hok =>
    goNewickDecode_eq hR hT hN hQ hpf x e fuel hf (Or.inr hok)

/-! ## 5. Round trip (the READ side of C05 at source level) -/

/-- What the model writer writes for `t` (`Newick.write qs t`; `QS_OK qs`: the quote set contains the
structural bytes, the quote, `_`, TAB, LF, CR; every distance of `t` is a clean non-empty token that
`pd` parses to itself: `DistOK pd`), the translated `Reader` reads back as exactly `[t]`. -/
theorem go_roundtrip : GoSrc.newick_read_Found = true → GoSrc.newick_nextToken_Found = true →
    GoSrc.nameFromText_Found = true → GoSrc.quoted_Found = true →
    ∀ (pf : PF) (pd : Bytes → Option Newick.Dist), PFModel pf pd →
    ∀ (qs : Bytes), Newick.QS_OK qs → ∀ (t : Newick.Tree), t.AllDist (Newick.DistOK pd) →
    ∀ (fuel : Nat), (Newick.write qs t).length + 1 ≤ fuel →
      goNewickDecode pf fuel (Newick.write qs t) .eof = some [Item.ok t] := by
  intro hR hT hN hQ pf pd hpf qs hqs t ht fuel hf
  have hm : Newick.decodeSrc pd .eof (Newick.write qs t) = [Item.ok t] := by
    have := Newick.forest_roundtrip qs pd hqs [t] (by simpa using ht)
    simpa [Newick.decode] using this
  have := goNewickDecode_eq hR hT hN hQ hpf (Newick.write qs t) .eof fuel hf (Or.inr (by simp [hm]))
  rw [this, hm]

/-- Several trees written back to back. -/
theorem go_roundtrip_trees : GoSrc.newick_read_Found = true → GoSrc.newick_nextToken_Found = true →
    GoSrc.nameFromText_Found = true → GoSrc.quoted_Found = true →
    ∀ (pf : PF) (pd : Bytes → Option Newick.Dist), PFModel pf pd →
    ∀ (qs : Bytes), Newick.QS_OK qs → ∀ (ts : List Newick.Tree), (∀ t ∈ ts, t.AllDist (Newick.DistOK pd)) →
    ∀ (fuel : Nat), ((ts.map (Newick.write qs)).flatten).length + 1 ≤ fuel →
      goNewickDecode pf fuel ((ts.map (Newick.write qs)).flatten) .eof = some (ts.map Item.ok) := by
  intro hR hT hN hQ pf pd hpf qs hqs ts ht fuel hf
  have hm : Newick.decodeSrc pd .eof ((ts.map (Newick.write qs)).flatten) = ts.map Item.ok :=
    Newick.forest_roundtrip qs pd hqs ts ht
  have := goNewickDecode_eq hR hT hN hQ hpf _ .eof fuel hf (Or.inr (by simp [hm]))
  rw [this, hm]

/-! ## Non-vacuity -/

/-- a sample distance parser: accepts exactly `1.5` and `2` -/
def pdEx2 : Bytes → Option Newick.Dist := fun t =>
  if t = [49, 46, 53] then some (some [49, 46, 53]) else if t = [50] then some (some [50]) else none

/-- a `ParseFloat` whose error is `io.EOF` (not a possible behaviour of the real one) -/
def pfEofEx : PF := fun s _ =>
  match pdEx2 s with
  | some d => (d, GoErr.nil)
  | none => (none, GoErr.eof)

-- the hypotheses: the flags; `PFModel` / `PFNoEof` for the `ParseFloat` built from a model parser;
-- `PFModel` always holds for the parser a given `ParseFloat` induces
example : allFound = false ∨ (GoSrc.newick_read_Found = true ∧ GoSrc.newick_nextToken_Found = true ∧
    GoSrc.nameFromText_Found = true ∧ GoSrc.quoted_Found = true) := by decide
example : PFModel (pfOf pdEx2) pdEx2 ∧ PFNoEof (pfOf pdEx2) := ⟨pfModel_pfOf _, pfNoEof_pfOf _⟩
example : PFModel (pfOf Newick.pdEx) Newick.pdEx ∧ PFNoEof (pfOf Newick.pdEx) :=
  ⟨pfModel_pfOf _, pfNoEof_pfOf _⟩
example (pf : PF) : PFModel pf (pdOf pf) := pfModel_pdOf pf
example : PFModel pfEofEx pdEx2 := by
  intro s
  unfold pfEofEx
  cases h : pdEx2 s <;> simp

-- `(a:1.5,('b c',d)e:2)r; (x);` : the first `read()` (from an empty heap, 28 = length + 1 fuel)
-- allocates cells 0..4 — r at 0 with children [1, 2]; a:1.5 at 1; e:2 at 2 with children [3, 4];
-- 'b c' at 3; d at 4 — and leaves ` (x);`; the model agrees; the tree read back
example : allFound = false ∨ (
    GoSrc.newick_read (pfOf pdEx2) 28 []
        ⟨none, [40, 97, 58, 49, 46, 53, 44, 40, 39, 98, 32, 99, 39, 44, 100, 41, 101, 58, 50, 41, 114, 59,
          32, 40, 120, 41, 59], .eof⟩ []
      = some (0, GoErr.nil,
          [([114], none, [1, 2]), ([97], some [49, 46, 53], []), ([101], some [50], [3, 4]),
            ([98, 32, 99], none, []), ([100], none, [])],
          ⟨some 59, [32, 40, 120, 41, 59], .eof⟩, [])
    ∧ Newick.readTree pdEx2 .eof
        [40, 97, 58, 49, 46, 53, 44, 40, 39, 98, 32, 99, 39, 44, 100, 41, 101, 58, 50, 41, 114, 59,
          32, 40, 120, 41, 59]
      = .tree ⟨[114], none, .cons [97] (some [49, 46, 53]) .nil
            (.cons [101] (some [50]) (.cons [98, 32, 99] none .nil (.cons [100] none .nil .nil)) .nil)⟩
          [32, 40, 120, 41, 59]
    ∧ absT [([114], none, [1, 2]), ([97], some [49, 46, 53], []), ([101], some [50], [3, 4]),
            ([98, 32, 99], none, []), ([100], none, [])] 5 0
      = ⟨[114], none, .cons [97] (some [49, 46, 53]) .nil
            (.cons [101] (some [50]) (.cons [98, 32, 99] none .nil (.cons [100] none .nil .nil)) .nil)⟩) := by
  decide +kernel

-- … the second `read()` on the same stream (the heap, reader and buffer the first one handed back):
-- cells 0..4 untouched, the new tree `(x)` at 5 (children [6]) and 6; the third: `io.EOF`, one more cell
example : allFound = false ∨ (
    GoSrc.newick_read (pfOf pdEx2) 6
        [([114], none, [1, 2]), ([97], some [49, 46, 53], []), ([101], some [50], [3, 4]),
          ([98, 32, 99], none, []), ([100], none, [])]
        ⟨some 59, [32, 40, 120, 41, 59], .eof⟩ []
      = some (5, GoErr.nil,
          [([114], none, [1, 2]), ([97], some [49, 46, 53], []), ([101], some [50], [3, 4]),
            ([98, 32, 99], none, []), ([100], none, []), ([], none, [6]), ([120], none, [])],
          ⟨some 59, [], .eof⟩, [])
    ∧ GoSrc.newick_read (pfOf pdEx2) 1
        [([114], none, [1, 2]), ([97], some [49, 46, 53], []), ([101], some [50], [3, 4]),
          ([98, 32, 99], none, []), ([100], none, []), ([], none, [6]), ([120], none, [])]
        ⟨some 59, [], .eof⟩ []
      = some (-1, GoErr.eof,
          [([114], none, [1, 2]), ([97], some [49, 46, 53], []), ([101], some [50], [3, 4]),
            ([98, 32, 99], none, []), ([100], none, []), ([], none, [6]), ([120], none, []), ([], none, [])],
          ⟨none, [], .eof⟩, [])) := by
  decide +kernel

-- … and the whole stream through `Reader`
example : allFound = false ∨ (
    goNewickDecode (pfOf pdEx2) 28
        [40, 97, 58, 49, 46, 53, 44, 40, 39, 98, 32, 99, 39, 44, 100, 41, 101, 58, 50, 41, 114, 59,
          32, 40, 120, 41, 59] .eof
      = some [Item.ok ⟨[114], none, .cons [97] (some [49, 46, 53]) .nil
            (.cons [101] (some [50]) (.cons [98, 32, 99] none .nil (.cons [100] none .nil .nil)) .nil)⟩,
          Item.ok ⟨[], none, .cons [120] none .nil .nil⟩]
    ∧ Newick.decodeSrc pdEx2 .eof
        [40, 97, 58, 49, 46, 53, 44, 40, 39, 98, 32, 99, 39, 44, 100, 41, 101, 58, 50, 41, 114, 59,
          32, 40, 120, 41, 59]
      = [Item.ok ⟨[114], none, .cons [97] (some [49, 46, 53]) .nil
            (.cons [101] (some [50]) (.cons [98, 32, 99] none .nil (.cons [100] none .nil .nil)) .nil)⟩,
          Item.ok ⟨[], none, .cons [120] none .nil .nil⟩]) := by
  decide +kernel

-- errors the model rejects too: `(a,,;` (`;` at depth 2), `);` (too many `)`), `a b;` (two names),
-- `(a,b` (EOF in the middle of a tree: `io.ErrUnexpectedEOF`), `a:x;` (a bad distance), `a:;`
example : allFound = false ∨ (
    Newick.readTree pdEx2 .eof [40, 97, 44, 44, 59] = .err
    ∧ GoSrc.newick_read (pfOf pdEx2) 6 [] ⟨none, [40, 97, 44, 44, 59], .eof⟩ []
      = some (-1, GoErr.other, [([], none, [1, 2, 3]), ([97], none, []), ([], none, []), ([], none, [])],
          ⟨some 59, [], .eof⟩, [])
    ∧ Newick.readTree pdEx2 .eof [41, 59] = .err
    ∧ GoSrc.newick_read (pfOf pdEx2) 3 [] ⟨none, [41, 59], .eof⟩ []
      = some (-1, GoErr.other, [([], none, [])], ⟨some 41, [59], .eof⟩, [])
    ∧ Newick.readTree pdEx2 .eof [97, 32, 98, 59] = .err
    ∧ GoSrc.newick_read (pfOf pdEx2) 5 [] ⟨none, [97, 32, 98, 59], .eof⟩ []
      = some (-1, GoErr.other, [([97], none, [])], ⟨none, [59], .eof⟩, [98])
    ∧ Newick.readTree pdEx2 .eof [40, 97, 44, 98] = .err
    ∧ GoSrc.newick_read (pfOf pdEx2) 5 [] ⟨none, [40, 97, 44, 98], .eof⟩ []
      = some (-1, GoErr.other, [([], none, [1, 2]), ([97], none, []), ([98], none, [])],
          ⟨none, [], .eof⟩, [])
    ∧ Newick.readTree pdEx2 .eof [97, 58, 120, 59] = .err
    ∧ GoSrc.newick_read (pfOf pdEx2) 5 [] ⟨none, [97, 58, 120, 59], .eof⟩ []
      = some (-1, GoErr.other, [([97], none, [])], ⟨none, [59], .eof⟩, [120])
    ∧ Newick.readTree pdEx2 .eof [97, 58, 59] = .err
    ∧ GoSrc.newick_read (pfOf pdEx2) 4 [] ⟨none, [97, 58, 59], .eof⟩ []
      = some (-1, GoErr.other, [([97], none, [])], ⟨some 59, [], .eof⟩, [])
    ∧ goNewickDecode (pfOf pdEx2) 9 [97, 59, 40, 97, 44, 44, 59, 98, 59] .eof
      = some [Item.ok ⟨[97], none, .nil⟩, Item.err]) := by
  decide +kernel

-- only whitespace: a clean end (`io.EOF`) — on a failing source: the read error
example : allFound = false ∨ (
    Newick.readTree pdEx2 .eof [32, 10] = .eof
    ∧ GoSrc.newick_read (pfOf pdEx2) 3 [([7], none, [])] ⟨some 1, [32, 10], .eof⟩ [5]
      = some (-1, GoErr.eof, [([7], none, []), ([], none, [])], ⟨none, [], .eof⟩, [])
    ∧ Newick.readTree pdEx2 .fail [32, 10] = .err
    ∧ GoSrc.newick_read (pfOf pdEx2) 3 [] ⟨none, [32, 10], .fail⟩ []
      = some (-1, GoErr.other, [([], none, [])], ⟨none, [], .fail⟩, [])
    -- a complete tree, then the read error
    ∧ goNewickDecode (pfOf pdEx2) 3 [97, 59] .fail = some [Item.ok ⟨[97], none, .nil⟩, Item.err]
    ∧ Newick.decodeSrc pdEx2 .fail [97, 59] = [Item.ok ⟨[97], none, .nil⟩, Item.err]) := by
  decide +kernel

-- the fuel bound: `x.length + 1` is enough, one less is not (here: a name running to the end)
example : allFound = false ∨ (
    GoSrc.newick_read (pfOf pdEx2) 3 [] ⟨none, [97, 98], .eof⟩ []
      = some (-1, GoErr.other, [([97, 98], none, [])], ⟨none, [], .eof⟩, [])
    ∧ GoSrc.newick_read (pfOf pdEx2) 2 [] ⟨none, [97, 98], .eof⟩ [] = none) := by
  decide +kernel

-- `PFNoEof` is needed (`go_read_err_never_eof_full` is false): with a `ParseFloat` whose error is
-- `io.EOF`, on `a:x;` the model says `.err` but `read()` returns that `io.EOF`, and `Reader` stops
-- silently
example : allFound = false ∨ (
    Newick.readTree pdEx2 .eof [97, 58, 120, 59] = .err
    ∧ GoSrc.newick_read pfEofEx 5 [] ⟨none, [97, 58, 120, 59], .eof⟩ []
      = some (-1, GoErr.eof, [([97], none, [])], ⟨none, [59], .eof⟩, [120])
    ∧ goNewickDecode pfEofEx 5 [97, 58, 120, 59] .eof = some []
    ∧ Newick.decodeSrc pdEx2 .eof [97, 58, 120, 59] = [Item.err]) := by
  decide +kernel

-- the round trip on C05's sample tree `((A:1,'b (c)''\n',):2.5,,(x_y)inner)root:1;`
example : Newick.QS_OK Newick.qsGo ∧ Newick.exTree.AllDist (Newick.DistOK Newick.pdEx)
    ∧ (Newick.write Newick.qsGo Newick.exTree).length + 1 ≤ 43 := by decide
example : allFound = false ∨
    goNewickDecode (pfOf Newick.pdEx) 43 (Newick.write Newick.qsGo Newick.exTree) .eof
      = some [Item.ok Newick.exTree] := by
  decide +kernel
example : allFound = false ∨
    goNewickDecode (pfOf Newick.pdEx) 90
        (([Newick.exTree, ⟨[], none, .nil⟩, Newick.exTree].map (Newick.write Newick.qsGo)).flatten) .eof
      = some [Item.ok Newick.exTree, Item.ok ⟨[], none, .nil⟩, Item.ok Newick.exTree] := by
  decide +kernel

end Bio.Props.C05ReadGo
