/-
  Source-level tie for C08–C10: `decideOnStep` (align/global.go) translated
  statement by statement from the Go source on every run
  (Bio/Generated/Src.lean) IS the model's `decideOnStep` — same comparisons,
  same tie order (match ≥, then deletion ≥ insertion), same step codes.
  Best-effort: if the source is no longer in a translatable shape,
  `decideOnStepFound = false` and nothing is claimed.
-/
import Bio.Model.Align
import Bio.Generated.Src
namespace Bio.SrcFacts
open Bio.Generated

def stepCode : Bio.Align.Step → Nat
  | .none => 0 | .mch => 1 | .del => 2 | .ins => 3

theorem decideOnStep_is_model :
    Src.decideOnStepFound = true →
    ∀ m d i : Int, Src.decideOnStep m d i =
      ((Bio.Align.decideOnStep m d i).score, stepCode (Bio.Align.decideOnStep m d i).step) := by
  intro h
  first
    | exact absurd h (by decide)
    | (intro m d i
       unfold Src.decideOnStep Bio.Align.decideOnStep
       by_cases h1 : m ≥ d <;> by_cases h2 : m ≥ i <;> by_cases h3 : d ≥ i <;> simp [h1, h2, h3, stepCode])

end Bio.SrcFacts
