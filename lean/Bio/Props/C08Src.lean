/-
  Source-level tie for C08 / C09 / C10: facts extracted by go/ast from the SOURCE TEXT of /repo
  (Bio/Generated/Src.lean, regenerated on every run).  Best-effort: a fact whose
  source shape is not recognised is `none` and nothing is claimed about it (the
  behaviour-level tie through Bio/Generated/Tables.lean and the correspondence
  run remains); a fact that IS extracted must agree with the model and with the
  observed behaviour.  Re-checked by `decide` on every run.
-/
import Bio.Model.Align
import Bio.Generated.Src
namespace Bio.SrcFacts
open Bio.Generated

/-- The gap symbol and the step encoding the driver protocol uses. -/
theorem align_consts :
    (∀ g, Src.alignGap = some g → g = Bio.Align.GAP.toNat) ∧ (∀ v, Src.stepMatch = some v → v = 1) ∧
    (∀ v, Src.stepDeletion = some v → v = 2) ∧ (∀ v, Src.stepInsertion = some v → v = 3) := by
  decide

end Bio.SrcFacts
