/-
  Source-level tie for C08 / C09 / C10: facts extracted by go/ast from the SOURCE TEXT of /repo
  (Bio/Generated/Src.lean, regenerated on every run).  Best-effort: a fact whose
  source shape is not recognised is `none` and nothing is claimed about it (the
  behaviour-level tie through Bio/Generated/Tables.lean and the correspondence
  run remains); a fact that IS extracted must agree with the model and with the
  observed behaviour.  `holdsIfFound o p` is `true` for `none` and `p x` for
  `some x`; every theorem is closed by `decide` whichever it is.
-/
import Bio.Lemmas.SrcFacts
import Bio.Model.Align
import Bio.Generated.Src
namespace Bio.SrcFacts
open Bio.Generated

/-- The gap symbol and the step encoding the driver protocol uses. -/
theorem align_consts :
    holdsIfFound Src.alignGap (· == Bio.Align.GAP.toNat) = true ∧ holdsIfFound Src.stepMatch (· == 1) = true ∧
    holdsIfFound Src.stepDeletion (· == 2) = true ∧ holdsIfFound Src.stepInsertion (· == 3) = true := by
  decide

end Bio.SrcFacts
