/-
  Source-level tie for C08 / C09 / C10: facts extracted by go/ast from the SOURCE TEXT of /repo
  (Bio/Generated/Src.lean, regenerated on every run) agree with what the model
  assumes and with what the running code was observed to do
  (Bio/Generated/Tables.lean).  Re-checked by `decide` on every run; an
  unrecognised source shape makes the generated file fail to elaborate.
-/
import Bio.Model.Align
import Bio.Generated.Src
namespace Bio.SrcFacts
open Bio.Generated

/-- C08–C10: the gap symbol and the step encoding the driver protocol uses. -/
theorem align_consts :
    Src.alignGap = Bio.Align.GAP.toNat ∧ Src.stepMatch = 1 ∧ Src.stepDeletion = 2 ∧ Src.stepInsertion = 3 := by
  decide

end Bio.SrcFacts
