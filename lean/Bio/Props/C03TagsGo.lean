/-
  C03 for the Go SOURCE TEXT, the tag writer: `tagToText` (a type switch over the `any` value, here a
  match on the model's sum type `Sam.TagVal`) and `tagsToText` (a range over the tag map followed by
  `sort.Strings`) of formats/sam/tags.go, translated on every run into `Bio.Generated.GoSrc`, are
  the model's `Sam.tagToText` / `Sam.tagsToText` — for every list that represents the map (= every
  iteration order Go may choose), provided `FormatFloat(v, 'e', -1, 64)` prints the canonical token
  the model holds (`FFModel`).  This is the value that `sam_Write` takes as its parameter
  `s_TagTexts` (`Props/C03Go`), so with it the write side of C03 is closed on the source text.
  `strconv.Itoa` and `hex.EncodeToString` are read as the model's `itoa` / `hexEnc` (trusted base).
-/
import Bio.Props.C03Go
namespace Bio.Props.C03TagsGo
open Bio Bio.GoRt Bio.Generated

def allFound : Bool := GoSrc.tagToText_Found && GoSrc.tagsToText_Found

/-- `FormatFloat` on the canonical token of a float is that token. -/
def FFModel (ff : Bytes → UInt8 → Int → Int → Bytes) : Prop := ∀ t, ff t 101 (-1) 64 = t

theorem go_tagToText : GoSrc.tagToText_Found = true →
    ∀ ff, FFModel ff → ∀ (name : Bytes) (v : Sam.TagVal),
      GoSrc.tagToText ff name v = some (Sam.tagToText name v) := by
  intro hF ff hff name v
  first
  | exact absurd hF (by decide)
  | (unfold GoSrc.tagToText Sam.tagToText
     cases v <;> simp [hff _, Sam.COLON])

/-- never panics, whatever `FormatFloat` returns -/
theorem go_tagToText_no_panic : GoSrc.tagToText_Found = true →
    ∀ ff (name : Bytes) (v : Sam.TagVal), GoSrc.tagToText ff name v ≠ none := by
  intro hF ff name v
  first
  | exact absurd hF (by decide)
  | (unfold GoSrc.tagToText
     cases v <;> simp)

theorem loopPure {α β : Type} (f : α → β) (l : List α) (acc : List β) :
    forIn l acc (fun (p : α) (r : List β) => (some (ForInStep.yield (r ++ [f p])) : Option _))
      = some (acc ++ l.map f) := by
  induction l generalizing acc with
  | nil => simp
  | cons p rest ih => simp [List.forIn_cons, ih]

theorem tagsLoop (ff : Bytes → UInt8 → Int → Int → Bytes) (hF : GoSrc.tagToText_Found = true) (hff : FFModel ff)
    (tags : List (Bytes × Sam.TagVal)) (acc : List Bytes) :
    forIn tags acc (fun (p : Bytes × Sam.TagVal) (r : List Bytes) =>
        (GoSrc.tagToText ff p.1 p.2).bind fun t => some (ForInStep.yield (r ++ [t])))
      = some (acc ++ tags.map fun p => Sam.tagToText p.1 p.2) := by
  simp only [go_tagToText hF ff hff, Option.bind_some]
  exact loopPure (fun p : Bytes × Sam.TagVal => Sam.tagToText p.1 p.2) tags acc

/-- For EVERY list representing the tag map: the sorted `NAME:T:VALUE` texts of the model. -/
theorem go_tagsToText : GoSrc.tagsToText_Found = true → GoSrc.tagToText_Found = true →
    ∀ ff, FFModel ff → ∀ tags : List (Bytes × Sam.TagVal),
      GoSrc.tagsToText ff tags = some (Sam.tagsToText tags) := by
  intro hS hF ff hff tags
  first
  | exact absurd hS (by decide)
  | (unfold GoSrc.tagsToText Sam.tagsToText
     have := tagsLoop ff hF hff tags []
     simp only [List.nil_append] at this
     simp [this] )

example : allFound = false ∨
    (GoSrc.tagsToText (fun t _ _ _ => t) [([90, 90], .Z [97, 58, 98]), ([78, 77], .I (-3)), ([88, 65], .A 99), ([88, 72], .H [1, 255]), ([88, 70], .F [49, 101, 43, 48, 48])]
      = some [[78, 77, 58, 105, 58, 45, 51], [88, 65, 58, 65, 58, 99], [88, 70, 58, 102, 58, 49, 101, 43, 48, 48],
              [88, 72, 58, 72, 58, 48, 49, 102, 102], [90, 90, 58, 90, 58, 97, 58, 98]]) := by decide +kernel

example : FFModel (fun t _ _ _ => t) := fun _ => rfl

end Bio.Props.C03TagsGo
