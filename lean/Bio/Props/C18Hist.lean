/-
  C18 for a consumer that may KEEP STATE — "when the consumer stops ranging at
  ANY position, the iterator makes no further call to it, and what was seen before
  is a prefix of the uninterrupted run" — for the hand-written models.

  `Bio.Props.C18` / `Bio.Props.C18Readers` prove `log f = takeThrough (!f ·) full`
  for a PURE consumer `f : α → Bool` (a function of the current item only).  Such
  a consumer cannot say "stop at the 2nd item" when the first two items are equal.
  `Bio/Model/IterReadersH.lean` transcribes the SAME Go loops once more with a
  HISTORY consumer `h : List α → Bool`, asked about the list of all items handed
  to it so far (the current one last).  Proved here, for every reader, every
  input, both endings of the byte source and EVERY history consumer:

      log with consumer h  =  takeThroughH h [] (items of an uninterrupted run)

  where the items of the uninterrupted run are the item lists of the existing
  decoder models (`X.decodeSrc`), and for the three explicit-stack iterators
  (newick `traverse`, trie `ForEach`, sequtil `CanonicalSubsequences`) the lists
  of `Bio.Props.C18`.  Corollaries for each: (a) the log is a prefix of the
  uninterrupted run, (b) every answer but the last was `true`, (c) an item after
  which the consumer said stop is the last one, (d) BRIDGE: with the stateless
  consumer `lastH f` the history model equals the existing pure model — which is
  the one the driver executes against the Go code.
-/
import Bio.Lemmas.IterH
import Bio.Props.C18Readers

namespace Bio.Props.C18Hist
open Bio Bio.Iter Bio.IterH Bio.GoRt Bio.GoSrcLemmas

/-! ## 0. `takeThroughH`, and the generic form of the corollaries

`takeThroughH h acc xs` (`Bio/Model/GoRt.lean`): the items of `xs` handed over,
after `acc` already was, until `h` first says stop (that item included);
`lastH f` judges the last item of the history by `f`. -/

/-- For ANY iterator with the history law for `L`: (a) ∧ (b) ∧ (c). -/
theorem law_early_stop {α : Type} (it : SeqH α) (L : List α) (hl : TakeThroughLawH it L)
    (h : List α → Bool) :
    it h <+: L
    ∧ (∀ i, i + 1 < (it h).length → h ((it h).take (i + 1)) = true)
    ∧ (∀ i, i < (it h).length → h ((it h).take (i + 1)) = false → i + 1 = (it h).length) :=
  lawH_early_stop it L hl h

/-- (d) for ANY pair of iterators with the history law resp. the pure law for the same `L`. -/
theorem law_bridge {α : Type} (it : SeqH α) (it0 : Seq α) (L : List α)
    (hl : TakeThroughLawH it L) (hl0 : TakeThroughLaw it0 L) (f : α → Bool) :
    it (lastH f) = it0 f :=
  lawH_bridge it it0 L hl hl0 f

/-- A consumer that never stops sees the whole run. -/
theorem law_all {α : Type} (it : SeqH α) (L : List α) (hl : TakeThroughLawH it L) :
    it (fun _ => true) = L :=
  lawH_all it L hl

-- instances of the hypotheses: the law itself, and an answer `false` inside the log
example : TakeThroughLawH (fun h => takeThroughH h [] [7, 7, 7, 7]) [7, 7, 7, 7] := fun _ => rfl
example : TakeThroughLaw (fun f => takeThrough (fun x => !f x) [7, 7, 7, 7]) [7, 7, 7, 7] :=
  fun _ => rfl
example : (fun h => takeThroughH h [] [7, 7, 7, 7]) (fun l : List Nat => l.length < 2) = [7, 7] := by
  decide
example : (1 : Nat) < ([7, 7] : List Nat).length
    ∧ (fun l : List Nat => decide (l.length < 2)) (([7, 7] : List Nat).take (1 + 1)) = false := by
  decide

/-! ## 1. The readers: `XH … h = takeThroughH h [] (X.decodeSrc …)` -/

/-- fasta `newReader(r).iter()`: the log with the history consumer `h`. -/
theorem fastaIterH_log (e : Ending) (x : Bytes) (h : List (Item Fasta.Fa) → Bool) :
    fastaIterH e x h = takeThroughH h [] (Fasta.decodeSrc e x) :=
  fastaIterH_law e x h

/-- (a) prefix of the uninterrupted run; (b) every answer but the last was `true`;
(c) an item after which the consumer said stop is the last one handed over. -/
theorem fastaIterH_early_stop (e : Ending) (x : Bytes) (h : List (Item Fasta.Fa) → Bool) :
    fastaIterH e x h <+: Fasta.decodeSrc e x
    ∧ (∀ i, i + 1 < (fastaIterH e x h).length → h ((fastaIterH e x h).take (i + 1)) = true)
    ∧ (∀ i, i < (fastaIterH e x h).length → h ((fastaIterH e x h).take (i + 1)) = false →
        i + 1 = (fastaIterH e x h).length) :=
  lawH_early_stop _ _ (fastaIterH_law e x) h

/-- (d) with a consumer without state the history model IS the pure model. -/
theorem fastaIterH_bridge (e : Ending) (x : Bytes) (f : Item Fasta.Fa → Bool) :
    fastaIterH e x (lastH f) = fastaIter e x f :=
  lawH_bridge _ _ _ (fastaIterH_law e x) (fastaIter_law e x) f

/-- `fasta.Reader`: the log with the history consumer `h`. -/
theorem fastaReaderH_log (e : Ending) (x : Bytes) (h : List (Item Fasta.Fa) → Bool) :
    fastaReaderH e x h = takeThroughH h [] (Fasta.decodeSrc e x) :=
  fastaReaderH_law e x h

/-- (a) prefix of the uninterrupted run; (b) every answer but the last was `true`;
(c) an item after which the consumer said stop is the last one handed over. -/
theorem fastaReaderH_early_stop (e : Ending) (x : Bytes) (h : List (Item Fasta.Fa) → Bool) :
    fastaReaderH e x h <+: Fasta.decodeSrc e x
    ∧ (∀ i, i + 1 < (fastaReaderH e x h).length → h ((fastaReaderH e x h).take (i + 1)) = true)
    ∧ (∀ i, i < (fastaReaderH e x h).length → h ((fastaReaderH e x h).take (i + 1)) = false →
        i + 1 = (fastaReaderH e x h).length) :=
  lawH_early_stop _ _ (fastaReaderH_law e x) h

/-- (d) with a consumer without state the history model IS the pure model. -/
theorem fastaReaderH_bridge (e : Ending) (x : Bytes) (f : Item Fasta.Fa → Bool) :
    fastaReaderH e x (lastH f) = fastaReader e x f :=
  lawH_bridge _ _ _ (fastaReaderH_law e x) (readerFasta_log e x) f

/-- fastq `newReader(r).iter()`: the log with the history consumer `h`. -/
theorem fastqIterH_log (e : Ending) (x : Bytes) (h : List (Item Fastq.Fq) → Bool) :
    fastqIterH e x h = takeThroughH h [] (Fastq.decodeSrc e x) :=
  fastqIterH_law e x h

/-- (a) prefix of the uninterrupted run; (b) every answer but the last was `true`;
(c) an item after which the consumer said stop is the last one handed over. -/
theorem fastqIterH_early_stop (e : Ending) (x : Bytes) (h : List (Item Fastq.Fq) → Bool) :
    fastqIterH e x h <+: Fastq.decodeSrc e x
    ∧ (∀ i, i + 1 < (fastqIterH e x h).length → h ((fastqIterH e x h).take (i + 1)) = true)
    ∧ (∀ i, i < (fastqIterH e x h).length → h ((fastqIterH e x h).take (i + 1)) = false →
        i + 1 = (fastqIterH e x h).length) :=
  lawH_early_stop _ _ (fastqIterH_law e x) h

/-- (d) with a consumer without state the history model IS the pure model. -/
theorem fastqIterH_bridge (e : Ending) (x : Bytes) (f : Item Fastq.Fq → Bool) :
    fastqIterH e x (lastH f) = fastqIter e x f :=
  lawH_bridge _ _ _ (fastqIterH_law e x) (fastqIter_law e x) f

/-- `fastq.Reader`: the log with the history consumer `h`. -/
theorem fastqReaderH_log (e : Ending) (x : Bytes) (h : List (Item Fastq.Fq) → Bool) :
    fastqReaderH e x h = takeThroughH h [] (Fastq.decodeSrc e x) :=
  fastqReaderH_law e x h

/-- (a) prefix of the uninterrupted run; (b) every answer but the last was `true`;
(c) an item after which the consumer said stop is the last one handed over. -/
theorem fastqReaderH_early_stop (e : Ending) (x : Bytes) (h : List (Item Fastq.Fq) → Bool) :
    fastqReaderH e x h <+: Fastq.decodeSrc e x
    ∧ (∀ i, i + 1 < (fastqReaderH e x h).length → h ((fastqReaderH e x h).take (i + 1)) = true)
    ∧ (∀ i, i < (fastqReaderH e x h).length → h ((fastqReaderH e x h).take (i + 1)) = false →
        i + 1 = (fastqReaderH e x h).length) :=
  lawH_early_stop _ _ (fastqReaderH_law e x) h

/-- (d) with a consumer without state the history model IS the pure model. -/
theorem fastqReaderH_bridge (e : Ending) (x : Bytes) (f : Item Fastq.Fq → Bool) :
    fastqReaderH e x (lastH f) = fastqReader e x f :=
  lawH_bridge _ _ _ (fastqReaderH_law e x) (readerFastq_log e x) f

/-- `sam.ReaderHeader`: a line that does not parse is an ordinary item: the log with the history consumer `h`. -/
theorem samReaderHeaderH_log (pf : Bytes → Option Bytes) (e : Ending) (x : Bytes) (h : List (Item Sam.Entry) → Bool) :
    samReaderHeaderH pf e x h = takeThroughH h [] (Sam.decodeHeaderSrc pf e x) :=
  samReaderHeaderH_law pf e x h

/-- (a) prefix of the uninterrupted run; (b) every answer but the last was `true`;
(c) an item after which the consumer said stop is the last one handed over. -/
theorem samReaderHeaderH_early_stop (pf : Bytes → Option Bytes) (e : Ending) (x : Bytes) (h : List (Item Sam.Entry) → Bool) :
    samReaderHeaderH pf e x h <+: Sam.decodeHeaderSrc pf e x
    ∧ (∀ i, i + 1 < (samReaderHeaderH pf e x h).length → h ((samReaderHeaderH pf e x h).take (i + 1)) = true)
    ∧ (∀ i, i < (samReaderHeaderH pf e x h).length → h ((samReaderHeaderH pf e x h).take (i + 1)) = false →
        i + 1 = (samReaderHeaderH pf e x h).length) :=
  lawH_early_stop _ _ (samReaderHeaderH_law pf e x) h

/-- (d) with a consumer without state the history model IS the pure model. -/
theorem samReaderHeaderH_bridge (pf : Bytes → Option Bytes) (e : Ending) (x : Bytes) (f : Item Sam.Entry → Bool) :
    samReaderHeaderH pf e x (lastH f) = samReaderHeader pf e x f :=
  lawH_bridge _ _ _ (samReaderHeaderH_law pf e x) (readerHeaderSam_log pf e x) f

/-- `sam.Reader`: `h` is the consumer of `Reader`; its history holds what `Reader` yielded — no headers: the log with the history consumer `h`. -/
theorem samReaderH_log (pf : Bytes → Option Bytes) (e : Ending) (x : Bytes) (h : List (Item Sam.Sam) → Bool) :
    samReaderH pf e x h = takeThroughH h [] (Sam.decodeSrc pf e x) :=
  samReaderH_law pf e x h

/-- (a) prefix of the uninterrupted run; (b) every answer but the last was `true`;
(c) an item after which the consumer said stop is the last one handed over. -/
theorem samReaderH_early_stop (pf : Bytes → Option Bytes) (e : Ending) (x : Bytes) (h : List (Item Sam.Sam) → Bool) :
    samReaderH pf e x h <+: Sam.decodeSrc pf e x
    ∧ (∀ i, i + 1 < (samReaderH pf e x h).length → h ((samReaderH pf e x h).take (i + 1)) = true)
    ∧ (∀ i, i < (samReaderH pf e x h).length → h ((samReaderH pf e x h).take (i + 1)) = false →
        i + 1 = (samReaderH pf e x h).length) :=
  lawH_early_stop _ _ (samReaderH_law pf e x) h

/-- (d) with a consumer without state the history model IS the pure model. -/
theorem samReaderH_bridge (pf : Bytes → Option Bytes) (e : Ending) (x : Bytes) (f : Item Sam.Sam → Bool) :
    samReaderH pf e x (lastH f) = samReader pf e x f :=
  lawH_bridge _ _ _ (samReaderH_law pf e x) (readerSam_log pf e x) f

/-- `bed.Reader`: the log with the history consumer `h`. -/
theorem bedReaderH_log (e : Ending) (x : Bytes) (h : List (Item Bed.Bed) → Bool) :
    bedReaderH e x h = takeThroughH h [] (Bed.decodeSrc e x) :=
  bedReaderH_law e x h

/-- (a) prefix of the uninterrupted run; (b) every answer but the last was `true`;
(c) an item after which the consumer said stop is the last one handed over. -/
theorem bedReaderH_early_stop (e : Ending) (x : Bytes) (h : List (Item Bed.Bed) → Bool) :
    bedReaderH e x h <+: Bed.decodeSrc e x
    ∧ (∀ i, i + 1 < (bedReaderH e x h).length → h ((bedReaderH e x h).take (i + 1)) = true)
    ∧ (∀ i, i < (bedReaderH e x h).length → h ((bedReaderH e x h).take (i + 1)) = false →
        i + 1 = (bedReaderH e x h).length) :=
  lawH_early_stop _ _ (bedReaderH_law e x) h

/-- (d) with a consumer without state the history model IS the pure model. -/
theorem bedReaderH_bridge (e : Ending) (x : Bytes) (f : Item Bed.Bed → Bool) :
    bedReaderH e x (lastH f) = bedReader e x f :=
  lawH_bridge _ _ _ (bedReaderH_law e x) (readerBed_log e x) f

/-- `newick.Reader`: the log with the history consumer `h`. -/
theorem newickReaderH_log (pd : Bytes → Option Newick.Dist) (e : Ending) (x : Bytes) (h : List (Item Newick.Tree) → Bool) :
    newickReaderH pd e x h = takeThroughH h [] (Newick.decodeSrc pd e x) :=
  newickReaderH_law pd e x h

/-- (a) prefix of the uninterrupted run; (b) every answer but the last was `true`;
(c) an item after which the consumer said stop is the last one handed over. -/
theorem newickReaderH_early_stop (pd : Bytes → Option Newick.Dist) (e : Ending) (x : Bytes) (h : List (Item Newick.Tree) → Bool) :
    newickReaderH pd e x h <+: Newick.decodeSrc pd e x
    ∧ (∀ i, i + 1 < (newickReaderH pd e x h).length → h ((newickReaderH pd e x h).take (i + 1)) = true)
    ∧ (∀ i, i < (newickReaderH pd e x h).length → h ((newickReaderH pd e x h).take (i + 1)) = false →
        i + 1 = (newickReaderH pd e x h).length) :=
  lawH_early_stop _ _ (newickReaderH_law pd e x) h

/-- (d) with a consumer without state the history model IS the pure model. -/
theorem newickReaderH_bridge (pd : Bytes → Option Newick.Dist) (e : Ending) (x : Bytes) (f : Item Newick.Tree → Bool) :
    newickReaderH pd e x (lastH f) = newickReader pd e x f :=
  lawH_bridge _ _ _ (newickReaderH_law pd e x) (readerNewick_log pd e x) f

/-! ### The `File` functions (`none` = the path cannot be opened) -/

/-- `fasta.File`. -/
theorem fastaFileH_log (o : Option Input) (h : List (Item Fasta.Fa) → Bool) :
    fastaFileH o h = takeThroughH h [] (match o with | none => [.err] | some i => Fasta.decodeSrc i.1 i.2) := by
  cases o <;> exact fastaFileH_law _ h

theorem fastaFileH_early_stop (o : Option Input) (h : List (Item Fasta.Fa) → Bool) :
    fastaFileH o h <+: (match o with | none => [.err] | some i => Fasta.decodeSrc i.1 i.2)
    ∧ (∀ i, i + 1 < (fastaFileH o h).length → h ((fastaFileH o h).take (i + 1)) = true)
    ∧ (∀ i, i < (fastaFileH o h).length → h ((fastaFileH o h).take (i + 1)) = false →
        i + 1 = (fastaFileH o h).length) := by
  cases o <;> exact lawH_early_stop _ _ (fastaFileH_law _) h

theorem fastaFileH_bridge (o : Option Input) (f : Item Fasta.Fa → Bool) :
    fastaFileH o (lastH f) = fastaFile o f := by
  cases o <;> exact lawH_bridge _ _ _ (fastaFileH_law _) (fileFasta_log _) f

/-- `fastq.File`. -/
theorem fastqFileH_log (o : Option Input) (h : List (Item Fastq.Fq) → Bool) :
    fastqFileH o h = takeThroughH h [] (match o with | none => [.err] | some i => Fastq.decodeSrc i.1 i.2) := by
  cases o <;> exact fastqFileH_law _ h

theorem fastqFileH_early_stop (o : Option Input) (h : List (Item Fastq.Fq) → Bool) :
    fastqFileH o h <+: (match o with | none => [.err] | some i => Fastq.decodeSrc i.1 i.2)
    ∧ (∀ i, i + 1 < (fastqFileH o h).length → h ((fastqFileH o h).take (i + 1)) = true)
    ∧ (∀ i, i < (fastqFileH o h).length → h ((fastqFileH o h).take (i + 1)) = false →
        i + 1 = (fastqFileH o h).length) := by
  cases o <;> exact lawH_early_stop _ _ (fastqFileH_law _) h

theorem fastqFileH_bridge (o : Option Input) (f : Item Fastq.Fq → Bool) :
    fastqFileH o (lastH f) = fastqFile o f := by
  cases o <;> exact lawH_bridge _ _ _ (fastqFileH_law _) (fileFastq_log _) f

/-- `sam.File`. -/
theorem samFileH_log (pf : Bytes → Option Bytes) (o : Option Input) (h : List (Item Sam.Sam) → Bool) :
    samFileH pf o h = takeThroughH h [] (match o with | none => [.err] | some i => Sam.decodeSrc pf i.1 i.2) := by
  cases o <;> exact samFileH_law pf _ h

theorem samFileH_early_stop (pf : Bytes → Option Bytes) (o : Option Input) (h : List (Item Sam.Sam) → Bool) :
    samFileH pf o h <+: (match o with | none => [.err] | some i => Sam.decodeSrc pf i.1 i.2)
    ∧ (∀ i, i + 1 < (samFileH pf o h).length → h ((samFileH pf o h).take (i + 1)) = true)
    ∧ (∀ i, i < (samFileH pf o h).length → h ((samFileH pf o h).take (i + 1)) = false →
        i + 1 = (samFileH pf o h).length) := by
  cases o <;> exact lawH_early_stop _ _ (samFileH_law pf _) h

theorem samFileH_bridge (pf : Bytes → Option Bytes) (o : Option Input) (f : Item Sam.Sam → Bool) :
    samFileH pf o (lastH f) = samFile pf o f := by
  cases o <;> exact lawH_bridge _ _ _ (samFileH_law pf _) (fileSam_log pf _) f

/-- `sam.FileHeader`. -/
theorem samFileHeaderH_log (pf : Bytes → Option Bytes) (o : Option Input) (h : List (Item Sam.Entry) → Bool) :
    samFileHeaderH pf o h = takeThroughH h [] (match o with | none => [.err] | some i => Sam.decodeHeaderSrc pf i.1 i.2) := by
  cases o <;> exact samFileHeaderH_law pf _ h

theorem samFileHeaderH_early_stop (pf : Bytes → Option Bytes) (o : Option Input) (h : List (Item Sam.Entry) → Bool) :
    samFileHeaderH pf o h <+: (match o with | none => [.err] | some i => Sam.decodeHeaderSrc pf i.1 i.2)
    ∧ (∀ i, i + 1 < (samFileHeaderH pf o h).length → h ((samFileHeaderH pf o h).take (i + 1)) = true)
    ∧ (∀ i, i < (samFileHeaderH pf o h).length → h ((samFileHeaderH pf o h).take (i + 1)) = false →
        i + 1 = (samFileHeaderH pf o h).length) := by
  cases o <;> exact lawH_early_stop _ _ (samFileHeaderH_law pf _) h

theorem samFileHeaderH_bridge (pf : Bytes → Option Bytes) (o : Option Input) (f : Item Sam.Entry → Bool) :
    samFileHeaderH pf o (lastH f) = samFileHeader pf o f := by
  cases o <;> exact lawH_bridge _ _ _ (samFileHeaderH_law pf _) (fileHeaderSam_log pf _) f

/-- `bed.File`. -/
theorem bedFileH_log (o : Option Input) (h : List (Item Bed.Bed) → Bool) :
    bedFileH o h = takeThroughH h [] (match o with | none => [.err] | some i => Bed.decodeSrc i.1 i.2) := by
  cases o <;> exact bedFileH_law _ h

theorem bedFileH_early_stop (o : Option Input) (h : List (Item Bed.Bed) → Bool) :
    bedFileH o h <+: (match o with | none => [.err] | some i => Bed.decodeSrc i.1 i.2)
    ∧ (∀ i, i + 1 < (bedFileH o h).length → h ((bedFileH o h).take (i + 1)) = true)
    ∧ (∀ i, i < (bedFileH o h).length → h ((bedFileH o h).take (i + 1)) = false →
        i + 1 = (bedFileH o h).length) := by
  cases o <;> exact lawH_early_stop _ _ (bedFileH_law _) h

theorem bedFileH_bridge (o : Option Input) (f : Item Bed.Bed → Bool) :
    bedFileH o (lastH f) = bedFile o f := by
  cases o <;> exact lawH_bridge _ _ _ (bedFileH_law _) (fileBed_log _) f

/-- `newick.File`. -/
theorem newickFileH_log (pd : Bytes → Option Newick.Dist) (o : Option Input) (h : List (Item Newick.Tree) → Bool) :
    newickFileH pd o h = takeThroughH h [] (match o with | none => [.err] | some i => Newick.decodeSrc pd i.1 i.2) := by
  cases o <;> exact newickFileH_law pd _ h

theorem newickFileH_early_stop (pd : Bytes → Option Newick.Dist) (o : Option Input) (h : List (Item Newick.Tree) → Bool) :
    newickFileH pd o h <+: (match o with | none => [.err] | some i => Newick.decodeSrc pd i.1 i.2)
    ∧ (∀ i, i + 1 < (newickFileH pd o h).length → h ((newickFileH pd o h).take (i + 1)) = true)
    ∧ (∀ i, i < (newickFileH pd o h).length → h ((newickFileH pd o h).take (i + 1)) = false →
        i + 1 = (newickFileH pd o h).length) := by
  cases o <;> exact lawH_early_stop _ _ (newickFileH_law pd _) h

theorem newickFileH_bridge (pd : Bytes → Option Newick.Dist) (o : Option Input) (f : Item Newick.Tree → Bool) :
    newickFileH pd o (lastH f) = newickFile pd o f := by
  cases o <;> exact lawH_bridge _ _ _ (newickFileH_law pd _) (fileNewick_log pd _) f

/-! ## 2. The wrappers -/

/-- For ANY inner iterator: `for x, err := range inner { if !yield(x, err) { break } }`
calls `inner` with the outer consumer itself — the inner history IS the outer
history (`true` stands in for the empty history, about which no iterator asks). -/
theorem wrapH_transparent {α : Type} (inner : SeqH α) (h : List α → Bool) :
    wrapH inner h = inner (fun l => if l = [] then true else h l) :=
  wrapH_apply inner h

theorem wrapH_log {α : Type} (inner : SeqH α) (L : List α) (hl : TakeThroughLawH inner L)
    (h : List α → Bool) : wrapH inner h = takeThroughH h [] L :=
  wrapH_law inner L hl h

/-- A loop body that, per inner item, either `continue`s without a callback
(`g x = none`) or does `if !yield(y) { break }` (`g x = some y`), around an inner
iterator with the history law for `L`: history law for `L.filterMap g` — the
outer consumer's history holds only what the wrapper yielded. -/
theorem wrapFilterMapH_log {α β : Type} (g : α → Option β) (inner : SeqH α) (L : List α)
    (hl : TakeThroughLawH inner L) (h : List β → Bool) :
    wrapFilterMapH g inner h = takeThroughH h [] (L.filterMap g) :=
  wrapFilterMapH_law g inner L hl h

-- keep the even numbers, halved; "stop at the 2nd item": the inner iterator is stopped at 4
example :
    wrapFilterMapH (fun n : Nat => if n % 2 = 0 then some (n / 2) else none)
      (fun h => takeThroughH h [] [1, 2, 3, 4, 5, 6]) (fun l => l.length < 2) = [1, 2] := by
  decide

/-- The SAM wrapper over ANY inner iterator with the history law. -/
theorem samWrapH_log (inner : SeqH (Item Sam.Entry)) (L : List (Item Sam.Entry))
    (hl : TakeThroughLawH inner L) (h : List (Item Sam.Sam) → Bool) :
    samWrapH inner h = takeThroughH h [] (Sam.dropHeaders L) :=
  samWrapH_law inner L hl h

/-- `sam.Reader` as the loop around `sam.ReaderHeader`: the consumer that
`ReaderHeader` is called with (the loop body) is asked about histories WITH the
headers, and answers what the consumer `h` of `Reader` answers on that history
without them (`true` after a header: `continue`); what `Reader` hands to `h` is
the `ReaderHeader` log without the headers. -/
theorem samReaderH_over_header (pf : Bytes → Option Bytes) (e : Ending) (x : Bytes)
    (h : List (Item Sam.Sam) → Bool) :
    samReaderH pf e x h
        = Sam.dropHeaders (samReaderHeaderH pf e x (fun l => (runBody (samBodyH h) l).2))
    ∧ (∀ (l : List (Item Sam.Entry)) (t : Bytes),
        (runBody (samBodyH h) (l ++ [.ok (.hdr t)])).2 = true)
    ∧ (∀ (l : List (Item Sam.Entry)) (r : Sam.Sam),
        (runBody (samBodyH h) (l ++ [.ok (.sam r)])).2 = h (Sam.dropHeaders l ++ [.ok r]))
    ∧ (∀ (l : List (Item Sam.Entry)),
        (runBody (samBodyH h) (l ++ [.err])).2 = h (Sam.dropHeaders l ++ [.err])) := by
  refine ⟨?_, ?_, ?_, ?_⟩
  · rw [samReaderH, samWrapH, rangeOverH, samBodyH_eq, runBody_filterMap_fst, dropHeaders_eq]
  · intro l t; rw [samBodyH_eq, runBody_filterMap_snd]; rfl
  · intro l r; rw [samBodyH_eq, runBody_filterMap_snd, dropHeaders_eq]; rfl
  · intro l; rw [samBodyH_eq, runBody_filterMap_snd, dropHeaders_eq]; rfl

/-- `File` on a path that cannot be opened: one error item whatever the consumer answers. -/
theorem fileH_unopened {ρ : Type} (h : List (Item ρ) → Bool) :
    fileH (none : Option (SeqH (Item ρ))) h = [.err] := rfl

/-- `File` on an opened file is the `Reader` on it (for a reader with the law). -/
theorem fileH_opened {ρ : Type} (inner : SeqH (Item ρ)) (L : List (Item ρ))
    (hl : TakeThroughLawH inner L) (h : List (Item ρ) → Bool) :
    fileH (some inner) h = inner h := by
  rw [hl h]; exact wrapH_law inner L hl h

/-- The answer to `yield(nil, err)` is never looked at (fasta/fastq `iter`, bed /
newick `Reader`): consumers that agree on every history ending in a record get the
same log.  Over any source. -/
theorem err_verdict_ignored {ρ σ : Type} (S : Source ρ σ) (h g : List (Item ρ) → Bool)
    (hg : ∀ l a, h (l ++ [.ok a]) = g (l ++ [.ok a])) (acc : List (Item ρ)) (s : σ) :
    iterLoopH S h acc s = iterLoopH S g acc s ∧ readerLoopH S h acc s = readerLoopH S g acc s :=
  ⟨iterLoopH_congr S h acc s g hg, readerLoopH_congr S h acc s g hg⟩

example : ∀ (l : List (Item Nat)) (a : Nat),
    (fun l : List (Item Nat) => l.getLast? != some .err) (l ++ [.ok a])
      = (fun _ => true) (l ++ [.ok a]) := by
  intro l a; simp

/-! ## 3. The explicit-stack iterators -/

/-- newick `traverse(pre)`: the nodes handed over are the recursive pre- or post-order
(= the uninterrupted run of the existing machine), cut by the history consumer. -/
theorem traverseH_log (pre : Bool) (h : List Newick.Tree → Bool) (t : Newick.Tree) :
    traverseH pre h t = takeThroughH h [] (if pre then Newick.preRec t else Newick.postRec t)
    ∧ traverseH pre h t = takeThroughH h [] (Newick.traverse pre (fun _ => true) t)
    ∧ traverseH pre h t
        = takeThroughH h [] (if pre then Newick.preOrder t else Newick.postOrder t) := by
  have h1 := IterH.traverseH_log pre h t
  refine ⟨h1, ?_, ?_⟩
  · rw [h1, Newick.traverse_log, takeThrough_true_consumer']
  · rw [h1]; cases pre <;> simp [Newick.preOrder_eq, Newick.postOrder_eq]

theorem traverseH_early_stop (pre : Bool) (h : List Newick.Tree → Bool) (t : Newick.Tree) :
    traverseH pre h t <+: (if pre then Newick.preOrder t else Newick.postOrder t)
    ∧ (∀ i, i + 1 < (traverseH pre h t).length → h ((traverseH pre h t).take (i + 1)) = true)
    ∧ (∀ i, i < (traverseH pre h t).length → h ((traverseH pre h t).take (i + 1)) = false →
        i + 1 = (traverseH pre h t).length) :=
  lawH_early_stop (fun h => traverseH pre h t) _ (fun h => (traverseH_log pre h t).2.2) h

theorem traverseH_bridge (pre : Bool) (f : Newick.Tree → Bool) (t : Newick.Tree) :
    traverseH pre (lastH f) t = Newick.traverse pre f t := by
  rw [(traverseH_log pre _ t).1, takeThroughH_lastH, Newick.traverse_log]

/-- The machine itself, for every fuel and every stack (no well-formedness needed):
the history machine logs the history take-through of the pure machine's
uninterrupted log. -/
theorem travH_log (pre : Bool) (h : List Newick.Tree → Bool) (fuel : Nat)
    (s : List (Newick.Tree × Nat)) (acc : List Newick.Tree) :
    travH pre h fuel s acc = takeThroughH h acc (Newick.trav pre (fun _ => true) fuel s) :=
  IterH.travH_log pre h fuel s acc

/-- trie `ForEach`: the leaf paths in edge order, cut by the history consumer. -/
theorem forEachLogH_log (h : List Bytes → Bool) (t : Trie.T) :
    forEachLogH h t = takeThroughH h [] (Trie.leaves t)
    ∧ forEachLogH h t = takeThroughH h [] (Trie.members t) := by
  have h1 := IterH.forEachLogH_log h t
  exact ⟨h1, by rw [h1, Trie.members_eq_leaves]⟩

theorem forEachLogH_early_stop (h : List Bytes → Bool) (t : Trie.T) :
    forEachLogH h t <+: Trie.members t
    ∧ (∀ i, i + 1 < (forEachLogH h t).length → h ((forEachLogH h t).take (i + 1)) = true)
    ∧ (∀ i, i < (forEachLogH h t).length → h ((forEachLogH h t).take (i + 1)) = false →
        i + 1 = (forEachLogH h t).length) :=
  lawH_early_stop (fun h => forEachLogH h t) _ (fun h => (forEachLogH_log h t).2) h

theorem forEachLogH_bridge (f : Bytes → Bool) (t : Trie.T) :
    forEachLogH (lastH f) t = Trie.forEachLog f t := by
  rw [(forEachLogH_log _ t).1, takeThroughH_lastH, Trie.forEachLog_eq]

theorem eachLoopH_log (h : List Bytes → Bool) (fuel : Nat) (s : List (Bool × Trie.T))
    (cur : Bytes) (acc : List Bytes) :
    eachLoopH h fuel s cur acc = takeThroughH h acc (Trie.eachLoop (fun _ => true) fuel s cur) :=
  IterH.eachLoopH_log h fuel s cur acc

/-- sequtil `CanonicalSubsequences`, the yield loop. -/
theorem canonLoopH_log (h : List Bytes → Bool) (seq rc : Bytes) (k i n : Nat) (acc : List Bytes) :
    canonLoopH h seq rc k i n acc
        = takeThroughH h acc ((List.range n).map fun j => Sequtil.canonItem seq rc k (i + j))
    ∧ canonLoopH h seq rc k i n acc
        = takeThroughH h acc (Sequtil.canonLoop (fun _ => true) seq rc k i n) :=
  ⟨canonLoopH_eq h seq rc k i n acc, IterH.canonLoopH_log h seq rc k n i acc⟩

theorem canonLoopH_early_stop (h : List Bytes → Bool) (seq rc : Bytes) (k i n : Nat) :
    canonLoopH h seq rc k i n [] <+: Sequtil.canonLoop (fun _ => true) seq rc k i n
    ∧ (∀ j, j + 1 < (canonLoopH h seq rc k i n []).length →
        h ((canonLoopH h seq rc k i n []).take (j + 1)) = true)
    ∧ (∀ j, j < (canonLoopH h seq rc k i n []).length →
        h ((canonLoopH h seq rc k i n []).take (j + 1)) = false →
        j + 1 = (canonLoopH h seq rc k i n []).length) :=
  lawH_early_stop (fun h => canonLoopH h seq rc k i n []) _
    (fun h => (canonLoopH_log h seq rc k i n []).2) h

theorem canonLoopH_bridge (f : Bytes → Bool) (seq rc : Bytes) (k i n : Nat) :
    canonLoopH (lastH f) seq rc k i n [] = Sequtil.canonLoop f seq rc k i n := by
  rw [(canonLoopH_log _ seq rc k i n []).1, takeThroughH_lastH, Sequtil.canonLoop_eq]

/-- `CanonicalSubsequences` as a whole: it panics (`none`) exactly when the
uninterrupted run does; else the log is the uninterrupted item list cut by `h`. -/
theorem canonicalLogH_log (tbl : List UInt8) (h : List Bytes → Bool) (seq : Bytes) (k : Nat) :
    canonicalLogH tbl h seq k = (Sequtil.canonical tbl seq k).map (takeThroughH h []) := by
  unfold canonicalLogH Sequtil.canonical Sequtil.canonicalLog
  cases Sequtil.revComp tbl [] seq with
  | none => rfl
  | some rc => simp [(canonLoopH_log h seq rc k 0 _ []).2]

theorem canonicalLogH_early_stop (tbl : List UInt8) (h : List Bytes → Bool) (seq : Bytes) (k : Nat) :
    (canonicalLogH tbl h seq k = none ∧ Sequtil.canonical tbl seq k = none)
    ∨ ∃ L full, canonicalLogH tbl h seq k = some L ∧ Sequtil.canonical tbl seq k = some full
        ∧ L <+: full
        ∧ (∀ i, i + 1 < L.length → h (L.take (i + 1)) = true)
        ∧ (∀ i, i < L.length → h (L.take (i + 1)) = false → i + 1 = L.length) := by
  rw [canonicalLogH_log]
  cases Sequtil.canonical tbl seq k with
  | none => exact .inl ⟨rfl, rfl⟩
  | some full =>
    exact .inr ⟨_, full, rfl, rfl, takeThroughH_prefix h full, takeThroughH_go_on h full,
      takeThroughH_stop h full⟩

theorem canonicalLogH_bridge (tbl : List UInt8) (f : Bytes → Bool) (seq : Bytes) (k : Nat) :
    canonicalLogH tbl (lastH f) seq k = Sequtil.canonicalLog tbl f seq k := by
  rw [canonicalLogH_log, Sequtil.canonicalLog_eq]
  cases Sequtil.canonical tbl seq k with
  | none => rfl
  | some full => simp [takeThroughH_lastH]


/-! ## 4. Concrete runs: a consumer WITH state on inputs whose items are IDENTICAL

"Stop at the second item whatever it is" is `fun l => l.length < 2`.  On inputs
whose items are all equal no consumer without state can do that: it stops at the
first item or at none. -/

/-- ">a\nA\n>a\nA\n>a\nA\n" — three identical records. -/
def exFasta3 : Bytes := [62, 97, 10, 65, 10, 62, 97, 10, 65, 10, 62, 97, 10, 65, 10]

example : Fasta.decodeSrc .eof exFasta3 = [.ok ⟨[97], [65]⟩, .ok ⟨[97], [65]⟩, .ok ⟨[97], [65]⟩] := by
  decide +kernel
example : fastaIterH .eof exFasta3 (fun l => l.length < 2) = [.ok ⟨[97], [65]⟩, .ok ⟨[97], [65]⟩] := by
  decide +kernel
example : fastaReaderH .eof exFasta3 (fun l => l.length < 2)
    = [.ok ⟨[97], [65]⟩, .ok ⟨[97], [65]⟩] := by decide +kernel
example : fastaFileH (some (.eof, exFasta3)) (fun l => l.length < 2)
    = [.ok ⟨[97], [65]⟩, .ok ⟨[97], [65]⟩] := by decide +kernel
example : fastaFileH none (fun _ => false) = [.err] := by decide
-- whatever a consumer without state answers on the one record value: one item or all three
example : ∀ b : Bool,
    fastaReader .eof exFasta3 (fun it => if it = .ok ⟨[97], [65]⟩ then b else true)
      = if b then [.ok ⟨[97], [65]⟩, .ok ⟨[97], [65]⟩, .ok ⟨[97], [65]⟩] else [.ok ⟨[97], [65]⟩] := by
  decide +kernel
-- an instance of the hypotheses of (b) and (c) in `fastaReaderH_early_stop`
example : 0 + 1 < (fastaReaderH .eof exFasta3 (fun l => l.length < 2)).length := by decide +kernel
example : 1 < (fastaReaderH .eof exFasta3 (fun l => l.length < 2)).length
    ∧ (fun l : List (Item Fasta.Fa) => decide (l.length < 2))
        ((fastaReaderH .eof exFasta3 (fun l => l.length < 2)).take (1 + 1)) = false := by
  decide +kernel
-- a failing source: after the second record the error is handed over without asking
example : fastaReaderH .fail exFasta3 (fun _ => true)
    = [.ok ⟨[97], [65]⟩, .ok ⟨[97], [65]⟩, .err] := by decide +kernel
example : fastaReaderH .fail exFasta3 (fun l => l.length < 3)
    = [.ok ⟨[97], [65]⟩, .ok ⟨[97], [65]⟩, .err] := by decide +kernel
-- the bridge on a concrete consumer
example : fastaReaderH .eof exFasta3 (lastH fun _ => false) = fastaReader .eof exFasta3 (fun _ => false) := by
  decide +kernel

/-- "@r\nA\n+\nI\n" three times. -/
def exFastq3 : Bytes :=
  [64, 114, 10, 65, 10, 43, 10, 73, 10, 64, 114, 10, 65, 10, 43, 10, 73, 10,
   64, 114, 10, 65, 10, 43, 10, 73, 10]

example : (Fastq.decodeSrc .eof exFastq3).length = 3 := by decide +kernel
example : fastqIterH .eof exFastq3 (fun l => l.length < 2)
    = [.ok ⟨[114], [65], [73]⟩, .ok ⟨[114], [65], [73]⟩] := by decide +kernel
example : fastqReaderH .eof exFastq3 (fun l => l.length < 2)
    = [.ok ⟨[114], [65], [73]⟩, .ok ⟨[114], [65], [73]⟩] := by decide +kernel
example : fastqFileH (some (.eof, exFastq3)) (fun l => l.length < 2)
    = [.ok ⟨[114], [65], [73]⟩, .ok ⟨[114], [65], [73]⟩] := by decide +kernel

/-- "a\t1\t2\n" three times. -/
def exBed3 : Bytes :=
  [97, 9, 49, 9, 50, 10, 97, 9, 49, 9, 50, 10, 97, 9, 49, 9, 50, 10]

example : (Bed.decodeSrc .eof exBed3).length = 3 := by decide +kernel
example : bedReaderH .eof exBed3 (fun l => l.length < 2) = (Bed.decodeSrc .eof exBed3).take 2 := by
  decide +kernel
example : (bedReaderH .eof exBed3 (fun l => l.length < 2)).length = 2 := by decide +kernel
example : (Bed.decodeSrc .eof exBed3)[0]? = (Bed.decodeSrc .eof exBed3)[1]? := by decide +kernel
example : (bedFileH (some (.eof, exBed3)) (fun l => l.length < 2)).length = 2 := by decide +kernel

/-- "a;a;a;" — three identical one-node trees. -/
def exNewick3 : Bytes := [97, 59, 97, 59, 97, 59]

example : (Newick.decodeSrc Newick.pdEx .eof exNewick3).length = 3 := by decide +kernel
example : (Newick.decodeSrc Newick.pdEx .eof exNewick3)[0]?
    = (Newick.decodeSrc Newick.pdEx .eof exNewick3)[1]? := by decide +kernel
example : newickReaderH Newick.pdEx .eof exNewick3 (fun l => l.length < 2)
    = (Newick.decodeSrc Newick.pdEx .eof exNewick3).take 2 := by decide +kernel
example : (newickReaderH Newick.pdEx .eof exNewick3 (fun l => l.length < 2)).length = 2 := by
  decide +kernel
example : (newickFileH Newick.pdEx (some (.eof, exNewick3)) (fun l => l.length < 2)).length = 2 := by
  decide +kernel

/-- "@HD\nr1\t0\t*\t0\t0\t*\t*\t0\t0\t*\t*\n" followed by the same record line twice more:
a header and three identical records. -/
def exSam3 : Bytes :=
  [64, 72, 68, 10,
   114, 49, 9, 48, 9, 42, 9, 48, 9, 48, 9, 42, 9, 42, 9, 48, 9, 48, 9, 42, 9, 42, 10,
   114, 49, 9, 48, 9, 42, 9, 48, 9, 48, 9, 42, 9, 42, 9, 48, 9, 48, 9, 42, 9, 42, 10,
   114, 49, 9, 48, 9, 42, 9, 48, 9, 48, 9, 42, 9, 42, 9, 48, 9, 48, 9, 42, 9, 42, 10]

example : Sam.decodeHeaderSrc noFloat .eof exSam3
    = [.ok (.hdr [64, 72, 68]), .ok (.sam exR1), .ok (.sam exR1), .ok (.sam exR1)] := by
  decide +kernel
-- `ReaderHeader`: the second item is the first record
example : samReaderHeaderH noFloat .eof exSam3 (fun l => l.length < 2)
    = [.ok (.hdr [64, 72, 68]), .ok (.sam exR1)] := by decide +kernel
-- `Reader`: the header is not part of the consumer's history — the second item is the SECOND record
example : samReaderH noFloat .eof exSam3 (fun l => l.length < 2) = [.ok exR1, .ok exR1] := by
  decide +kernel
-- … for which `ReaderHeader` was run up to its third item
example : samReaderHeaderH noFloat .eof exSam3 (fun l => (runBody (samBodyH (fun l => l.length < 2)) l).2)
    = [.ok (.hdr [64, 72, 68]), .ok (.sam exR1), .ok (.sam exR1)] := by decide +kernel
example : samFileH noFloat (some (.eof, exSam3)) (fun l => l.length < 2) = [.ok exR1, .ok exR1] := by
  decide +kernel
example : samFileHeaderH noFloat (some (.eof, exSam3)) (fun l => l.length < 3)
    = [.ok (.hdr [64, 72, 68]), .ok (.sam exR1), .ok (.sam exR1)] := by decide +kernel
example : samFileH noFloat none (fun _ => false) = [.err] := by decide
-- two lines that do not parse are two equal `.err` items in the middle: stop at the second
example : samReaderH noFloat .eof [98, 97, 100, 10, 98, 97, 100, 10, 98, 97, 100, 10] (fun l => l.length < 2)
    = [.err, .err] := by decide +kernel

/-- "(a,a,a)r" — a root with three equal leaves. -/
def exLeaf : Newick.Tree := ⟨[97], none, .nil⟩
def exTree3 : Newick.Tree :=
  ⟨[114], none, .cons [97] none .nil (.cons [97] none .nil (.cons [97] none .nil .nil))⟩

example : Newick.postOrder exTree3 = [exLeaf, exLeaf, exLeaf, exTree3] := by decide
example : traverseH false (fun l => l.length < 2) exTree3 = [exLeaf, exLeaf] := by decide
example : Newick.preOrder exTree3 = [exTree3, exLeaf, exLeaf, exLeaf] := by decide
example : traverseH true (fun l => l.length < 3) exTree3 = [exTree3, exLeaf, exLeaf] := by decide
example : traverseH true (fun _ => true) exTree3 = Newick.preOrder exTree3 := by decide
-- a consumer without state on the leaf value: one leaf or all of them
example : ∀ b : Bool, Newick.traverse false (fun n => if n = exLeaf then b else true) exTree3
    = if b then [exLeaf, exLeaf, exLeaf, exTree3] else [exLeaf] := by decide
example : 1 < (traverseH false (fun l => l.length < 2) exTree3).length
    ∧ (fun l : List Newick.Tree => decide (l.length < 2))
        ((traverseH false (fun l => l.length < 2) exTree3).take (1 + 1)) = false := by decide

-- the trie holding "ab", "ac", "d" (its members are distinct by construction): stop at the 2nd
example : forEachLogH (fun l => l.length < 2) Trie.exTrie = [[97, 98], [97, 99]] := by decide
example : forEachLogH (fun _ => true) Trie.exTrie = Trie.members Trie.exTrie := by decide
example : forEachLogH (fun _ => false) Trie.exTrie = [[97, 98]] := by decide

-- "AAAA", k = 2 (reverse complement "TTTT"): three times "AA"
example : Sequtil.canonical Sequtil.exTbl [65, 65, 65, 65] 2 = some [[65, 65], [65, 65], [65, 65]] := by
  decide +kernel
example : canonicalLogH Sequtil.exTbl (fun l => l.length < 2) [65, 65, 65, 65] 2
    = some [[65, 65], [65, 65]] := by decide +kernel
example : canonLoopH (fun l => l.length < 2) [65, 65, 65, 65] [84, 84, 84, 84] 2 0 3 []
    = [[65, 65], [65, 65]] := by decide
example : ∀ b : Bool,
    Sequtil.canonicalLog Sequtil.exTbl (fun s => if s = [65, 65] then b else true) [65, 65, 65, 65] 2
      = if b then some [[65, 65], [65, 65], [65, 65]] else some [[65, 65]] := by decide +kernel
example : canonicalLogH Sequtil.exTbl (fun _ => true) [65, 66] 1 = none := by decide +kernel

end Bio.Props.C18Hist
