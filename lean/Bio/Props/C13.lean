/-
  C13 — sequtil/sequtil.go: `Ntoi`, `Iton`, `DNATo2Bit`, `DNAFrom2Bit`.

  Table parameters: `ntoiTableOK tbl` (0/1/2/3 at aA/cC/gG/tT, -1 elsewhere)
  and `from2bitTableOK tbl2` (entry n = the four bases of n, most significant
  pair first); both are defined in `Bio/Lemmas/Sequtil.lean` as equality with a
  hand-written tabulation and discharged on the regenerated tables by
  `decide +kernel`.  `pack` (same file) is the specification of the packing:
  chunks of four bases, big-endian base 4, A=0 C=1 G=2 T=3, zero padding.
-/
import Bio.Lemmas.Sequtil
namespace Bio.Sequtil

/-- The `ntoi` table as a literal (for the non-vacuity examples). -/
def exNtoiTable : List Int :=
  ((((((((List.replicate 256 (-1 : Int)).set 65 0).set 97 0).set 67 1).set 99 1).set 71 2).set 103 2).set
    84 3).set 116 3

/-- The expansion table, built the way the Go `init` builds it. -/
def exFrom2bitTable : List Bytes :=
  (List.range 256).map fun i =>
    [iton ((i >>> 6 &&& 3 : Nat) : Int), iton ((i >>> 4 &&& 3 : Nat) : Int),
     iton ((i >>> 2 &&& 3 : Nat) : Int), iton ((i &&& 3 : Nat) : Int)]

example : ntoiTableOK exNtoiTable = true := by decide +kernel
example : ntoiTableOK (exNtoiTable.set 78 0) = false := by decide +kernel
example : from2bitTableOK exFrom2bitTable = true := by decide +kernel
example : from2bitTableOK (exFrom2bitTable.set 3 [65, 65, 65, 65]) = false := by decide +kernel

/-! ## 4. `Ntoi` / `Iton` -/

theorem ntoi_spec {tbl : List Int} (h : ntoiTableOK tbl = true) (b : UInt8) :
    ntoi tbl b = stdNtoi b := ntoi_eq h b

/-- `Ntoi` is negative exactly off the alphabet `aAcCgGtT` (and then it is -1). -/
theorem ntoi_neg_iff {tbl : List Int} (h : ntoiTableOK tbl = true) (b : UInt8) :
    ntoi tbl b < 0 ↔ isDNA b = false := by
  rw [ntoi_eq h]
  have := stdNtoi_neg b
  cases hd : isDNA b <;> simp_all

theorem ntoi_iton {tbl : List Int} (h : ntoiTableOK tbl = true) (i : Int) (h0 : 0 ≤ i) (h4 : i < 4) :
    ntoi tbl (iton i) = i := by
  rw [ntoi_eq h]; exact stdNtoi_iton i h0 h4

theorem iton_ntoi {tbl : List Int} (h : ntoiTableOK tbl = true) (b : UInt8) (hb : isDNA b = true) :
    iton (ntoi tbl b) = upperBase b := by
  rw [ntoi_eq h]; exact iton_stdNtoi b hb

example : ntoi exNtoiTable (iton 2) = 2 := ntoi_iton (by decide +kernel) 2 (by decide) (by decide)
example : isDNA 116 = true ∧ upperBase 116 = 84 := by decide
example : iton (ntoi exNtoiTable 116) = 84 := iton_ntoi (by decide +kernel) 116 (by decide)

/-! ## 1. `DNATo2Bit` -/

/-- `⌈|s| / 4⌉` bytes. -/
theorem pack_length (s : Bytes) : (pack s).length = (s.length + 3) / 4 := pack_length_aux s

/-- First base in the most significant bits: "CGTA" packs to 0b01_10_11_00, "T" to 0b11_000000. -/
example : pack [67, 71, 84, 65] = [0x6C] ∧ pack [84] = [0xC0] ∧ pack [97, 99, 103, 116, 84] = [0x1B, 0xC0] := by
  decide

/-- The result is `dst` (untouched) followed by the packed sequence. -/
theorem to2bit_spec {tbl : List Int} (h : ntoiTableOK tbl = true) (dst s : Bytes)
    (hs : ∀ b ∈ s, isDNA b = true) : to2bit tbl dst s = some (dst ++ pack s) :=
  to2bitAux_aligned h dst.length s 0 dst (by omega) (by omega) hs

example : ntoiTableOK exNtoiTable = true ∧ (∀ b ∈ [97, 99, 103, 116, 84], isDNA b = true) := by
  refine ⟨by decide +kernel, by decide⟩
example : to2bit exNtoiTable [9] [97, 99, 103, 116, 84] = some [9, 0x1B, 0xC0] := by
  rw [to2bit_spec (by decide +kernel) _ _ (by decide)]; decide

theorem to2bit_panics {tbl : List Int} (h : ntoiTableOK tbl = true) (dst s : Bytes)
    (hb : ∃ b ∈ s, isDNA b = false) : to2bit tbl dst s = none :=
  to2bitAux_none h dst.length s 0 dst hb

example : ∃ b ∈ [65, 78, 67], isDNA b = false := by decide
example : to2bit exNtoiTable [] [65, 78, 67] = none :=
  to2bit_panics (by decide +kernel) _ _ (by decide)

theorem to2bit_isSome_iff {tbl : List Int} (h : ntoiTableOK tbl = true) (dst s : Bytes) :
    (to2bit tbl dst s).isSome = true ↔ ∀ b ∈ s, isDNA b = true := by
  constructor
  · intro hsome b hb
    cases hd : isDNA b with
    | true => rfl
    | false => rw [to2bit_panics h dst s ⟨b, hb, hd⟩] at hsome; simp at hsome
  · intro hs; rw [to2bit_spec h dst s hs]; rfl

/-! ## 2. `DNAFrom2Bit` -/

/-- `from2bit` appends to `dst`. -/
theorem from2bit_append (tbl2 : List Bytes) (dst src : Bytes) :
    from2bit tbl2 dst src = dst ++ from2bit tbl2 [] src := from2bit_dst tbl2 dst src

/-- Four output bases per input byte, all in "ACGT". -/
theorem from2bit_spec {tbl2 : List Bytes} (h2 : from2bitTableOK tbl2 = true) (dst src : Bytes) :
    from2bit tbl2 dst src = dst ++ src.flatMap fun b => expand b.toNat := by
  rw [from2bit_dst, from2bit_eq_flatMap h2]

theorem from2bit_pack {tbl2 : List Bytes} (h2 : from2bitTableOK tbl2 = true) (s : Bytes)
    (hs : ∀ b ∈ s, isDNA b = true) :
    from2bit tbl2 [] (pack s) = s.map upperBase ++ List.replicate ((4 - s.length % 4) % 4) 65 :=
  from2bit_pack_aux h2 s hs

example : from2bitTableOK exFrom2bitTable = true ∧ (∀ b ∈ [97, 99, 103, 116, 84], isDNA b = true) := by
  refine ⟨by decide +kernel, by decide⟩
example : from2bit exFrom2bitTable [] (pack [97, 99, 103, 116, 84])
    = [65, 67, 71, 84, 84, 65, 65, 65] := by
  rw [from2bit_pack (by decide +kernel) _ (by decide)]; decide

/-! ## 3. Round trip on every byte string -/

theorem to2bit_from2bit {tbl : List Int} {tbl2 : List Bytes} (h : ntoiTableOK tbl = true)
    (h2 : from2bitTableOK tbl2 = true) (p : Bytes) :
    to2bit tbl [] (from2bit tbl2 [] p) = some p := by
  rw [to2bit_spec h [] _ (from2bit_dna h2 p), from2bit_eq_flatMap h2, pack_flatMap_expand]
  rfl

example : to2bit exNtoiTable [] (from2bit exFrom2bitTable [] [0, 255, 27, 200]) = some [0, 255, 27, 200] :=
  to2bit_from2bit (by decide +kernel) (by decide +kernel) _

/-- And the other way: unpacking a packed DNA string gives it back upper-cased
and padded with `A` to a multiple of four. -/
theorem from2bit_to2bit {tbl : List Int} {tbl2 : List Bytes} (h : ntoiTableOK tbl = true)
    (h2 : from2bitTableOK tbl2 = true) (s : Bytes) (hs : ∀ b ∈ s, isDNA b = true) :
    (to2bit tbl [] s).map (from2bit tbl2 []) =
      some (s.map upperBase ++ List.replicate ((4 - s.length % 4) % 4) 65) := by
  rw [to2bit_spec h [] s hs]
  simp only [List.nil_append, Option.map_some, from2bit_pack h2 s hs]

end Bio.Sequtil
