/-
  Property C02: FASTQ write → read; malformed input rejected.
  Model: `Bio/Model/Fastq.lean`; helper lemmas: `Bio/Lemmas/Fastq.lean`.
-/
import Bio.Lemmas.Fastq
namespace Bio.Fastq

/-- The domain of the property: no CR/LF anywhere, as many qualities as bases. -/
def WF (r : Fq) : Prop :=
  (∀ b ∈ r.name ++ r.seq ++ r.quals, b ≠ 10 ∧ b ≠ 13) ∧ r.seq.length = r.quals.length

instance (r : Fq) : Decidable (WF r) := by unfold WF; infer_instance

/-- A file made of the given lines, each terminated by LF. -/
def fileOf (ls : List Bytes) : Bytes := (ls.map (· ++ [10])).flatten

/-- The lines of the records `rs` as written (`recLines r = ['@'name, seq, "+", quals]`). -/
def allLines (rs : List Fq) : List Bytes := (rs.map recLines).flatten

example (r : Fq) : recLines r = [64 :: r.name, r.seq, [43], r.quals] := rfl

/-- The written file is the file of the records' lines. -/
theorem encodeAll_lines (rs : List Fq) : encodeAll rs = fileOf (allLines rs) :=
  encodeAll_eq_lines rs

/-! ## 1. Round trip -/

/-- Write then read returns the records: every record count, every length (no line-length
ceiling), every content in the domain. -/
theorem roundtrip (rs : List Fq) (h : ∀ r ∈ rs, WF r) :
    decode (encodeAll rs) = rs.map Item.ok := by
  have := decodeSrc_pre .eof rs [] h (by simp)
  simpa [decode, encodeAll_eq_lines, fromLines] using this

/-- Non-vacuity: names with spaces / `'@'` / `'+'`, a quality line starting with `'+'` and one
starting with `'@'`, an empty read. -/
example :
    ∀ r ∈ ([⟨[114, 32, 49], [65, 67, 71, 84], [43, 64, 73, 73]⟩, ⟨[], [], []⟩,
            ⟨[64, 43], [78], [64]⟩] : List Fq), WF r := by
  decide

/-! ## 2. Shape of the writer's output -/

/-- A written record is four lines. -/
theorem encode_four_lines (r : Fq) (h : WF r) :
    scanLines (encode r) = [64 :: r.name, r.seq, [43], r.quals] := by
  rw [encode_eq_lines]
  exact scanLines_unlines _ (recLines_clean r h.1)

example : WF ⟨[114, 49], [65, 67, 71], [73, 43, 64]⟩ := by decide

/-- The length `MarshalText` pre-computes is the length written: its panic is unreachable. -/
theorem encode_length (r : Fq) : (encode r).length = marshalLen r := by
  simp [encode, marshalLen]; omega

/-! ## 3. Corrupted records are rejected

The file is `pre`, then the corrupted four lines of `r`, then `post`.  In every case the
reader delivers the records of `pre` intact, then exactly one error, and nothing else
(no fabricated record). -/

/-- (a) The first line is replaced by any line (CR/LF-free, possibly empty) that does not
start with `'@'`. -/
theorem corrupt_no_at (pre post : List Fq) (r : Fq) (l1 : Bytes)
    (hpre : ∀ q ∈ pre, WF q) (hpost : ∀ q ∈ post, WF q) (hr : WF r)
    (hl1 : ∀ b ∈ l1, b ≠ 10 ∧ b ≠ 13) (hat : l1.head? ≠ some 64) :
    decode (fileOf (allLines pre ++ ([l1, r.seq, [43], r.quals] ++ allLines post))) =
      pre.map Item.ok ++ [Item.err] := by
  have hc := recLines_clean r hr.1
  have ht : ∀ l ∈ [l1, r.seq, [43], r.quals] ++ allLines post, Clean l := by
    intro l hl
    rcases List.mem_append.mp hl with hl | hl
    · simp only [List.mem_cons, List.not_mem_nil, or_false] at hl
      rcases hl with rfl | rfl | rfl | rfl
      · exact hl1
      all_goals exact hc _ (by simp [recLines])
    · exact allLines_clean post hpost l hl
  rw [decode, fileOf, allLines, decodeSrc_pre .eof pre _ hpre ht]
  simp only [List.cons_append]
  rw [fromLines_no_at _ _ _ hat]

example :
    let pre : List Fq := [⟨[97], [65, 67], [73, 73]⟩]
    let post : List Fq := [⟨[99], [84], [73]⟩]
    let r : Fq := ⟨[98], [71, 71, 71], [73, 74, 75]⟩
    let l1 : Bytes := [98]          -- the '@' was dropped
    (∀ q ∈ pre, WF q) ∧ (∀ q ∈ post, WF q) ∧ WF r ∧ (∀ b ∈ l1, b ≠ 10 ∧ b ≠ 13) ∧
      l1.head? ≠ some 64 := by
  decide

/-- (b1) The `'+'` line is replaced by a line that does not start with `'+'`. -/
theorem corrupt_plus (pre post : List Fq) (r : Fq) (pl : Bytes)
    (hpre : ∀ q ∈ pre, WF q) (hpost : ∀ q ∈ post, WF q) (hr : WF r)
    (hpl : ∀ b ∈ pl, b ≠ 10 ∧ b ≠ 13) (hplus : pl.head? ≠ some 43) :
    decode (fileOf (allLines pre ++ ([64 :: r.name, r.seq, pl, r.quals] ++ allLines post))) =
      pre.map Item.ok ++ [Item.err] := by
  have hc := recLines_clean r hr.1
  have ht : ∀ l ∈ [64 :: r.name, r.seq, pl, r.quals] ++ allLines post, Clean l := by
    intro l hl
    rcases List.mem_append.mp hl with hl | hl
    · simp only [List.mem_cons, List.not_mem_nil, or_false] at hl
      rcases hl with rfl | rfl | rfl | rfl
      · exact hc _ (by simp [recLines])
      · exact hc _ (by simp [recLines])
      · exact hpl
      · exact hc _ (by simp [recLines])
    · exact allLines_clean post hpost l hl
  rw [decode, fileOf, allLines, decodeSrc_pre .eof pre _ hpre ht]
  simp only [List.cons_append, List.nil_append]
  rw [fromLines_no_plus _ _ _ _ _ _ hplus]

example :
    let pre : List Fq := [⟨[97], [65, 67], [73, 73]⟩]
    let post : List Fq := [⟨[99], [84], [73]⟩]
    let r : Fq := ⟨[98], [71, 71, 71], [73, 74, 75]⟩
    let pl : Bytes := [45]
    (∀ q ∈ pre, WF q) ∧ (∀ q ∈ post, WF q) ∧ WF r ∧ (∀ b ∈ pl, b ≠ 10 ∧ b ≠ 13) ∧
      pl.head? ≠ some 43 := by
  decide

/-- (b2) The `'+'` line is dropped.  The quality line then stands where the `'+'` line is
expected, and the next record's `'@'` line where the qualities are expected.  That is
rejected unless the quality string happens to start with `'+'` **and** the next record's
name line is exactly as long as the sequence — `hq` excludes precisely that coincidence
(see the example after the theorem: without `hq` a record is fabricated). -/
theorem corrupt_plus_dropped (pre post : List Fq) (r : Fq)
    (hpre : ∀ q ∈ pre, WF q) (hpost : ∀ q ∈ post, WF q) (hr : WF r)
    (hq : r.quals.head? = some 43 → ∀ r2 ∈ post.head?, r2.name.length + 1 ≠ r.seq.length) :
    decode (fileOf (allLines pre ++ ([64 :: r.name, r.seq, r.quals] ++ allLines post))) =
      pre.map Item.ok ++ [Item.err] := by
  have hc := recLines_clean r hr.1
  have ht : ∀ l ∈ [64 :: r.name, r.seq, r.quals] ++ allLines post, Clean l := by
    intro l hl
    rcases List.mem_append.mp hl with hl | hl
    · simp only [List.mem_cons, List.not_mem_nil, or_false] at hl
      rcases hl with rfl | rfl | rfl
      all_goals exact hc _ (by simp [recLines])
    · exact allLines_clean post hpost l hl
  rw [decode, fileOf, allLines, decodeSrc_pre .eof pre _ hpre ht]
  congr 1
  cases post with
  | nil => simp [fromLines, allLines]
  | cons r2 post =>
    simp only [allLines, List.cons_append, List.nil_append, List.map_cons, List.flatten_cons,
      recLines]
    by_cases hp : r.quals.head? = some 43
    · have hne := hq hp r2 (by simp)
      obtain ⟨t, ht⟩ : ∃ t, r.quals = 43 :: t := by
        cases hqs : r.quals with
        | nil => simp [hqs] at hp
        | cons b t => simp [hqs] at hp; exact ⟨t, by rw [hp]⟩
      rw [ht]
      simp [fromLines, hne]
    · exact fromLines_no_plus _ _ _ _ _ _ hp

example :
    let pre : List Fq := [⟨[97], [65, 67], [73, 73]⟩]
    let post : List Fq := [⟨[99], [84], [73]⟩]
    let r : Fq := ⟨[98], [71, 71, 71], [43, 74, 75]⟩   -- qualities start with '+'
    (∀ q ∈ pre, WF q) ∧ (∀ q ∈ post, WF q) ∧ WF r ∧
      (r.quals.head? = some 43 → ∀ r2 ∈ post.head?, r2.name.length + 1 ≠ r.seq.length) := by
  decide

/-- Why `hq` is needed: qualities `"+JK"`, next name line `"@cc"` of length 3 = |seq|.  With
the `'+'` line dropped the reader fabricates the record `(b, GGG, "@cc")` and then fails on
the following line — the claim `pre ++ [err]` does not hold. -/
example :
    decode (fileOf ([64 :: [98], [71, 71, 71], [43, 74, 75]] ++ allLines [⟨[99, 99], [84], [73]⟩])) =
      [Item.ok ⟨[98], [71, 71, 71], [64, 99, 99]⟩, Item.err] := by
  decide

/-- (c) The quality line is replaced by a CR/LF-free line of a different length. -/
theorem corrupt_quals_len (pre post : List Fq) (r : Fq) (q' : Bytes)
    (hpre : ∀ q ∈ pre, WF q) (hpost : ∀ q ∈ post, WF q) (hr : WF r)
    (hq' : ∀ b ∈ q', b ≠ 10 ∧ b ≠ 13) (hlen : q'.length ≠ r.seq.length) :
    decode (fileOf (allLines pre ++ ([64 :: r.name, r.seq, [43], q'] ++ allLines post))) =
      pre.map Item.ok ++ [Item.err] := by
  have hc := recLines_clean r hr.1
  have ht : ∀ l ∈ [64 :: r.name, r.seq, [43], q'] ++ allLines post, Clean l := by
    intro l hl
    rcases List.mem_append.mp hl with hl | hl
    · simp only [List.mem_cons, List.not_mem_nil, or_false] at hl
      rcases hl with rfl | rfl | rfl | rfl
      · exact hc _ (by simp [recLines])
      · exact hc _ (by simp [recLines])
      · exact hc _ (by simp [recLines])
      · exact hq'
    · exact allLines_clean post hpost l hl
  rw [decode, fileOf, allLines, decodeSrc_pre .eof pre _ hpre ht]
  simp [fromLines, hlen]

example :
    let pre : List Fq := [⟨[97], [65, 67], [73, 73]⟩]
    let post : List Fq := [⟨[99], [84], [73]⟩]
    let r : Fq := ⟨[98], [71, 71, 71], [73, 74, 75]⟩
    let q' : Bytes := [73, 74]
    (∀ q ∈ pre, WF q) ∧ (∀ q ∈ post, WF q) ∧ WF r ∧ (∀ b ∈ q', b ≠ 10 ∧ b ≠ 13) ∧
      q'.length ≠ r.seq.length := by
  decide

/-- (d) The file ends after 1, 2 or 3 complete lines of `r`. -/
theorem corrupt_truncated (pre : List Fq) (r : Fq) (j : Nat)
    (hpre : ∀ q ∈ pre, WF q) (hr : WF r) (hj : 1 ≤ j ∧ j ≤ 3) :
    decode (fileOf (allLines pre ++ (recLines r).take j)) = pre.map Item.ok ++ [Item.err] := by
  have hc := recLines_clean r hr.1
  have ht : ∀ l ∈ (recLines r).take j, Clean l := fun l hl => hc l (List.mem_of_mem_take hl)
  rw [decode, fileOf, allLines, decodeSrc_pre .eof pre _ hpre ht]
  obtain ⟨h1, h3⟩ := hj
  have : j = 1 ∨ j = 2 ∨ j = 3 := by omega
  rcases this with rfl | rfl | rfl <;> simp [recLines, fromLines]

example :
    let pre : List Fq := [⟨[97], [65, 67], [73, 73]⟩]
    let r : Fq := ⟨[98], [71, 71, 71], [73, 74, 75]⟩
    (∀ q ∈ pre, WF q) ∧ WF r ∧ (1 ≤ 2 ∧ 2 ≤ 3) := by
  decide

/-! ## 4. Errors -/

/-- An error item is always the last item delivered (the iterator stops at the first error). -/
theorem err_only_last (e : Ending) (x : Bytes) :
    ∀ i, (decodeSrc e x)[i]? = some Item.err → i + 1 = (decodeSrc e x).length :=
  fromLines_err_last e (scanLines x)

/-! ## 5. Failing source (for C07) -/

/-- A source that delivers the first `k` bytes of a written file and then fails yields leading
records of the file, then exactly one error — never a record made from a cut line. -/
theorem fault_prefix_wf (rs : List Fq) (h : ∀ r ∈ rs, WF r) (k : Nat) :
    ∃ n, decodeSrc .fail ((encodeAll rs).take k) = (rs.take n).map Item.ok ++ [Item.err] := by
  rw [decodeSrc, encodeAll_eq_lines, scanLines_take_unlines _ (allLines_clean rs h)]
  exact fromLines_fail_takeLines rs h k

example :
    ∀ r ∈ ([⟨[114, 49], [65, 67, 71, 84], [73, 73, 73, 73]⟩, ⟨[114, 50], [71], [43]⟩] : List Fq),
      WF r := by
  decide

/-- The well-formedness hypothesis of `fault_prefix_wf` cannot be dropped (unlike FASTA): for
the malformed `x = "@a\nAC\n+\nIIII\n"` the clean decode is a single error, but a source failing
after 10 bytes delivers the record `(a, AC, II)` built from the cut quality line. -/
example :
    let x : Bytes := [64, 97, 10, 65, 67, 10, 43, 10, 73, 73, 73, 73, 10]
    decode x = [Item.err] ∧
      decodeSrc .fail (x.take 10) = [Item.ok ⟨[97], [65, 67], [73, 73]⟩, Item.err] := by
  decide

end Bio.Fastq
