/-
  C05 for the Go SOURCE TEXT, both directions composed: the text that the TRANSLATED writer
  `(*Node).MarshalText` (`Props/C05WriteGo`) produces for a tree is decoded by the TRANSLATED reader
  (`(*reader).read` over the node heap, iterated as `Reader` does; `Props/C05ReadGo`) to exactly
  that tree — for every tree whose distances the assumed `ParseFloat`/`%v` pair round-trips
  (`DistOK pd`), with the quote set regenerated from the source.  The two stdlib parameters are
  hypotheses: `FFModel ff` (`%v` prints the canonical token) and `PFModel pf pd` (`ParseFloat`
  accepts exactly what `pd` accepts).
-/
import Bio.Props.C05ReadGo
import Bio.Props.C05WriteGo
import Bio.Props.C05Inst
namespace Bio.Props.C05RoundGo
open Bio Bio.GoRt Bio.Generated Bio.Newick Bio.GoSrcLemmas Bio.GoSrcLemmas.NwkRd Bio.GoSrcLemmas.NwkWr

/-- write with the translated writer, read with the translated reader: the tree comes back. -/
theorem go_newick_write_read :
    GoSrc.Node_MarshalText_Found = true → GoSrc.Node_newick_Found = true → GoSrc.nameToText_Found = true →
    GoSrc.newick_read_Found = true → GoSrc.newick_nextToken_Found = true →
    GoSrc.nameFromText_Found = true → GoSrc.quoted_Found = true →
    ∀ (ff : Dist → Bytes), FFModel ff →
    ∀ (pf : PF) (pd : Bytes → Option Dist), PFModel pf pd →
    ∀ (t : Tree), t.AllDist (DistOK pd) →
    ∀ (fuelW fuelR : Nat), depth t + 1 ≤ fuelW →
      (write Generated.newickQuoteBytes t).length + 1 ≤ fuelR →
      ∃ txt, GoSrc.Node_MarshalText ff fuelW t = some (txt, GoErr.nil)
        ∧ goNewickDecode pf fuelR txt .eof = some [Item.ok t] := by
  intro hM hW hNT hR hT hNF hQ ff hff pf pd hpf t ht fuelW fuelR hw hr
  refine ⟨write Generated.newickQuoteBytes t, C05WriteGo.go_MarshalText hM hW hNT ff hff t fuelW hw, ?_⟩
  exact C05ReadGo.go_roundtrip hR hT hNF hQ pf pd hpf _ generated_quoteSet_ok t ht fuelR hr

end Bio.Props.C05RoundGo
