// Command corr is the correspondence check and failing-input search.
//
// For one property it (1) generates cases from one PRNG state, (2) runs the
// REAL code from /repo on each case, in-process, under recover and a timeout,
// producing one canonical observation line per case, (3) pipes the same cases
// to the compiled Lean model driver and diffs the two streams, and (4) runs
// direct oracles (the property stated in Go, independent of the Lean model)
// to find concrete inputs on which the property fails.  It prints a JSON
// report; it never decides pass/fail policy (the ./check script does).
package main

import (
	"bufio"
	"bytes"
	"crypto/sha256"
	"encoding/hex"
	"encoding/json"
	"flag"
	"fmt"
	"math/rand"
	"os"
	"os/exec"
	"regexp"
	"runtime"
	"sort"
	"strings"
	"time"
)

// A Case is one observation of the real code.
type Case struct {
	Op         string // op line for the model driver ("" = oracle-only case)
	Impl       string // canonical observation of the real code
	Nontrivial bool   // by the property's rule
	Kind       string // input-distribution bucket
	Oracle     string // "" = property holds on this case; else what failed (direct oracle)
	Note       string // human-readable description of the input (for replays)
}

type Ctx struct {
	prop   string
	tier   string
	rng    *rand.Rand
	cases  []Case
	thor   bool
	budget int // scale factor
}

func (c *Ctx) add(cs Case) { c.cases = append(c.cases, cs); stage = "" }

// stage describes the call of the real code that is about to run, for the
// watchdogs: if that call never returns (or eats all memory) the description
// of its input is reported as the failing input.
var stage string

func (c *Ctx) begin(format string, a ...any) { stage = fmt.Sprintf(format, a...) }

// n scales a quick-tier count to the tier.
func (c *Ctx) n(quick int) int {
	if c.thor {
		return quick * 40
	}
	return quick * 8
}

type Report struct {
	Property     string         `json:"property"`
	Tier         string         `json:"tier"`
	Seed         int64          `json:"seed"`
	Evaluations  int            `json:"evaluations"`
	Distinct     int            `json:"distinct_nontrivial"`
	Kinds        map[string]int `json:"kinds"`
	Samples      []string       `json:"samples"`
	ModelDiffs   []Diff         `json:"model_diffs"`
	OracleFails  []Diff         `json:"oracle_fails"`
	NModelDiffs  int            `json:"n_model_diffs"`
	NOracleFails int            `json:"n_oracle_fails"`
	ModelLines   int            `json:"model_lines"`
	Error        string         `json:"error,omitempty"`
}

type Diff struct {
	Op    string `json:"op"`
	Impl  string `json:"impl"`
	Model string `json:"model,omitempty"`
	What  string `json:"what,omitempty"`
	Note  string `json:"note,omitempty"`
}

var generators = map[string]func(*Ctx){}

// safe runs f under recover; a panic yields the string "PANIC".
func safe(f func() string) (out string) {
	defer func() {
		if r := recover(); r != nil {
			out = "PANIC"
		}
	}()
	return f()
}

// timed runs f with a timeout (the goroutine leaks on timeout).
func timed(d time.Duration, f func() string) string {
	ch := make(chan string, 1)
	go func() { ch <- safe(f) }()
	select {
	case s := <-ch:
		return s
	case <-time.After(d):
		return "TIMEOUT"
	}
}

func hx(b []byte) string {
	if len(b) == 0 {
		return "-"
	}
	return hex.EncodeToString(b)
}

func unhx(s string) []byte {
	if s == "-" {
		return nil
	}
	b, _ := hex.DecodeString(s)
	return b
}

func runDriver(driver string, ops []string) ([]string, error) {
	cmd := exec.Command(driver)
	var in bytes.Buffer
	for _, o := range ops {
		in.WriteString(o)
		in.WriteByte('\n')
	}
	cmd.Stdin = &in
	var out bytes.Buffer
	cmd.Stdout = &out
	var errb bytes.Buffer
	cmd.Stderr = &errb
	if err := cmd.Run(); err != nil {
		return nil, fmt.Errorf("driver: %v: %s", err, errb.String())
	}
	var lines []string
	sc := bufio.NewScanner(&out)
	sc.Buffer(make([]byte, 1<<20), 1<<30)
	for sc.Scan() {
		lines = append(lines, sc.Text())
	}
	return lines, nil
}

func main() {
	prop := flag.String("prop", "", "property id")
	tier := flag.String("tier", "quick", "quick|thorough")
	seed := flag.Int64("seed", 1, "PRNG seed")
	driver := flag.String("driver", "", "path of the model driver")
	replay := flag.String("replay", "", "replay file: re-run exactly its op lines")
	flag.Parse()

	rep := Report{Property: *prop, Tier: *tier, Seed: *seed, Kinds: map[string]int{}}
	// Watchdog: the real code is called in-process; if it never returns the run
	// would hang.  After the limit, report the stack of the stuck call and stop.
	limit := 600 * time.Second
	if *tier == "thorough" {
		limit = 5400 * time.Second
	}
	go func() {
		time.Sleep(limit)
		buf := make([]byte, 1<<16)
		n := runtime.Stack(buf, true)
		st := string(buf[:n])
		if i := strings.Index(st, "goroutine 1 ["); i >= 0 {
			st = st[i:]
		}
		if len(st) > 1500 {
			st = st[:1500]
		}
		r := Report{Property: *prop, Tier: *tier, Seed: *seed, Kinds: map[string]int{},
			Error: fmt.Sprintf("no result after %v: probable non-termination of the real code; main goroutine: %s", limit, st)}
		if stage != "" {
			r.NOracleFails = 1
			r.OracleFails = []Diff{{What: "the real code does not return", Note: stage}}
		}
		emit(r)
		os.Exit(3)
	}()
	ctx := &Ctx{prop: *prop, tier: *tier, rng: rand.New(rand.NewSource(*seed)), thor: *tier == "thorough"}
	// Memory watchdog: real code that never stops usually also grows without bound; report it
	// instead of taking the machine down.
	go func() {
		var ms runtime.MemStats
		memLimit := uint64(12) << 30
		for {
			time.Sleep(250 * time.Millisecond)
			runtime.ReadMemStats(&ms)
			if ms.HeapAlloc > memLimit {
				last := ""
				if n := len(ctx.cases); n > 0 {
					last = ctx.cases[n-1].Kind + ": " + trunc(ctx.cases[n-1].Note, 200)
				}
				r := Report{Property: *prop, Tier: *tier, Seed: *seed, Kinds: map[string]int{},
					Error: fmt.Sprintf("heap grew beyond %d GiB while running the real code (probable non-termination); last completed case: %s", memLimit>>30, last)}
				if stage != "" {
					r.NOracleFails = 1
					r.OracleFails = []Diff{{What: "the real code does not return and grows without bound", Note: stage}}
				}
				emit(r)
				os.Exit(3)
			}
		}
	}()
	if *replay != "" {
		replayFile(ctx, *replay)
	} else {
		gen := generators[*prop]
		if gen == nil {
			rep.Error = "no generator for " + *prop
			emit(rep)
			os.Exit(2)
		}
		func() {
			defer func() {
				if r := recover(); r != nil {
					ctx.add(Case{Kind: "generator-panic", Nontrivial: true,
						Oracle: fmt.Sprintf("the real code panicked while cases were being generated: %v", r),
						Note:   "panic outside a guarded call; case index " + fmt.Sprint(len(ctx.cases))})
				}
			}()
			gen(ctx)
		}()
	}

	// Model run.
	var ops []string
	var idx []int
	for i, cs := range ctx.cases {
		if cs.Op != "" {
			ops = append(ops, cs.Op)
			idx = append(idx, i)
		}
	}
	if len(ops) > 0 && *driver != "none" { // "none": the model driver could not be built; only the direct oracles decide
		lines, err := runDriver(*driver, ops)
		if err != nil {
			rep.Error = err.Error()
		} else if len(lines) != len(ops) {
			rep.Error = fmt.Sprintf("driver returned %d lines for %d ops", len(lines), len(ops))
			// find the first op that kills the driver is left to the replay
		} else {
			rep.ModelLines = len(lines)
			for k, i := range idx {
				cs := ctx.cases[i]
				if lines[k] != cs.Impl {
					rep.NModelDiffs++
					rep.ModelDiffs = append(rep.ModelDiffs, Diff{Op: cs.Op, Impl: cs.Impl, Model: lines[k], Note: cs.Note})
				}
			}
		}
	}
	seen := map[[32]byte]bool{}
	for _, cs := range ctx.cases {
		rep.Evaluations++
		rep.Kinds[cs.Kind]++
		if cs.Oracle != "" {
			rep.NOracleFails++
			rep.OracleFails = append(rep.OracleFails, Diff{Op: cs.Op, Impl: cs.Impl, What: cs.Oracle, Note: cs.Note})
		}
		if cs.Nontrivial {
			h := sha256.Sum256([]byte(cs.Op + "\x00" + cs.Note))
			if !seen[h] {
				seen[h] = true
				rep.Distinct++
			}
		}
	}
	// Keep, per failure class (the message with numbers abstracted, plus the
	// call site = first word of the note), the shortest three cases: a cheap
	// stand-in for shrinking that never drops a class of failure.
	numRe := regexp.MustCompile(`-?[0-9][0-9.e+]*`)
	short := func(d []Diff) []Diff {
		sort.SliceStable(d, func(i, j int) bool { return len(d[i].Op)+len(d[i].Note) < len(d[j].Op)+len(d[j].Note) })
		cnt := map[string]int{}
		var out []Diff
		for _, x := range d {
			site := strings.SplitN(x.Note, " ", 2)[0]
			key := numRe.ReplaceAllString(x.What, "N") + "@" + site
			if x.What == "" {
				key = "diff@" + strings.SplitN(x.Op, " ", 2)[0]
			}
			if cnt[key] < 3 {
				cnt[key]++
				out = append(out, x)
			}
		}
		if len(out) > 60 {
			out = out[:60]
		}
		return out
	}
	rep.ModelDiffs = short(rep.ModelDiffs)
	rep.OracleFails = short(rep.OracleFails)
	// Samples: a few op lines, truncated.
	step := len(ctx.cases)/5 + 1
	for i := 0; i < len(ctx.cases); i += step {
		s := ctx.cases[i].Op
		if s == "" {
			s = ctx.cases[i].Note
		}
		if len(s) > 300 {
			s = s[:300] + "…"
		}
		rep.Samples = append(rep.Samples, s+" => "+trunc(ctx.cases[i].Impl, 200))
	}
	emit(rep)
}

func trunc(s string, n int) string {
	if len(s) > n {
		return s[:n] + "…"
	}
	return s
}

func emit(r Report) {
	b, _ := json.MarshalIndent(r, "", " ")
	os.Stdout.Write(b)
	os.Stdout.WriteString("\n")
}

// replayFile re-runs the op lines listed in a replay file through the real
// code (via the per-op runners) so that both sides are recomputed.
func replayFile(c *Ctx, path string) {
	data, err := os.ReadFile(path)
	if err != nil {
		fmt.Fprintln(os.Stderr, err)
		os.Exit(2)
	}
	var rf struct {
		Ops []string `json:"ops"`
	}
	json.Unmarshal(data, &rf)
	for _, op := range rf.Ops {
		f := strings.SplitN(op, " ", 2)
		r := opRunners[f[0]]
		if r == nil {
			c.add(Case{Op: "", Impl: "", Kind: "replay", Oracle: "no runner for op " + f[0], Note: op})
			continue
		}
		c.add(Case{Op: op, Impl: timed(20*time.Second, func() string { return r(op) }), Kind: "replay", Nontrivial: true})
	}
}

// opRunners recompute the real code's observation from an op line.
var opRunners = map[string]func(op string) string{}

// ---- random helpers ----

func (c *Ctx) pick(bs []byte) byte { return bs[c.rng.Intn(len(bs))] }

func (c *Ctx) bytesFrom(alpha []byte, n int) []byte {
	b := make([]byte, n)
	for i := range b {
		b[i] = alpha[c.rng.Intn(len(alpha))]
	}
	return b
}

// textAlpha: bytes allowed in text fields (no TAB/CR/LF), biased to specials.
func (c *Ctx) textByte(exclude string) byte {
	for {
		var b byte
		switch c.rng.Intn(4) {
		case 0:
			sp := "\"' :@+;>#,()_-.*\\%%"
			b = sp[c.rng.Intn(len(sp))]
		case 1:
			b = byte(c.rng.Intn(256))
		default:
			al := "ACGTNacgtn0123456789xyzI"
			b = al[c.rng.Intn(len(al))]
		}
		if b == '\t' || b == '\n' || b == '\r' || strings.IndexByte(exclude, b) >= 0 {
			continue
		}
		return b
	}
}

func (c *Ctx) text(n int, exclude string) []byte {
	b := make([]byte, n)
	for i := range b {
		b[i] = c.textByte(exclude)
	}
	return b
}

func (c *Ctx) length(max int, special []int) int {
	if len(special) > 0 && c.rng.Intn(3) == 0 {
		return special[c.rng.Intn(len(special))]
	}
	if c.rng.Intn(4) == 0 {
		return c.rng.Intn(4)
	}
	return c.rng.Intn(max + 1)
}

func (c *Ctx) extremeInt() int {
	switch c.rng.Intn(8) {
	case 0:
		return 0
	case 1:
		return -1
	case 2:
		return 1<<63 - 1
	case 3:
		return -1 << 63
	case 4:
		return c.rng.Intn(1000)
	case 5:
		return -c.rng.Intn(1000)
	default:
		return int(c.rng.Uint64())
	}
}
