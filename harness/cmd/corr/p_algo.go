package main

import (
	"bytes"
	"encoding/json"
	"fmt"
	"math"
	"os"
	"os/exec"
	"sort"
	"strconv"
	"strings"
	"sync"

	"github.com/fluhus/biostuff/align"
	"github.com/fluhus/biostuff/formats/newick"
	"github.com/fluhus/biostuff/formats/smtext"
	"github.com/fluhus/biostuff/mash"
	"github.com/fluhus/biostuff/regions"
	"github.com/fluhus/biostuff/sequtil"
	"github.com/fluhus/biostuff/trie"
)

func init() {
	generators["C08"] = func(c *Ctx) { genAlign(c, "C08") }
	generators["C09"] = func(c *Ctx) { genAlign(c, "C09") }
	generators["C10"] = func(c *Ctx) { genAlign(c, "C10") }
	generators["C12"] = genC12
	generators["C13"] = genC13
	generators["C14"] = genC14
	generators["C15"] = genC15
	generators["C16"] = genC16
	generators["C17"] = genC17
	generators["C19"] = genC19
	generators["C20"] = genC20
}

// ======================= alignment =======================

type imat struct {
	m     align.SubstitutionMatrix
	alpha []byte
	open  int
	desc  string
}

func (c *Ctx) randMatrix(alpha []byte, symmetric, nonPosGaps bool, open int) imat {
	m := align.SubstitutionMatrix{}
	r := func() float64 { return float64(c.rng.Intn(9) - 4) }
	for _, x := range alpha {
		for _, y := range alpha {
			if symmetric && y < x {
				m[[2]byte{x, y}] = m[[2]byte{y, x}]
			} else {
				m[[2]byte{x, y}] = r()
			}
		}
		g := r()
		if nonPosGaps {
			g = -float64(c.rng.Intn(4))
		}
		m[[2]byte{x, align.Gap}] = g
		if symmetric {
			m[[2]byte{align.Gap, x}] = g
		} else if nonPosGaps {
			m[[2]byte{align.Gap, x}] = -float64(c.rng.Intn(4))
		} else {
			m[[2]byte{align.Gap, x}] = r()
		}
	}
	m[[2]byte{align.Gap, align.Gap}] = float64(open)
	return imat{m, alpha, open, fmt.Sprintf("random matrix over %q sym=%v nonPosGaps=%v open=%d", alpha, symmetric, nonPosGaps, open)}
}

func matArgs(m align.SubstitutionMatrix) string {
	keys := make([][2]byte, 0, len(m))
	for k := range m {
		keys = append(keys, k)
	}
	sort.Slice(keys, func(i, j int) bool { return bytes.Compare(keys[i][:], keys[j][:]) < 0 })
	var b strings.Builder
	fmt.Fprintf(&b, "%d", len(keys))
	for _, k := range keys {
		fmt.Fprintf(&b, " %d %d %d", k[0], k[1], int64(m[k]))
	}
	return b.String()
}

func stepsS(s []align.Step) string {
	var b strings.Builder
	for _, x := range s {
		b.WriteByte('0' + byte(x))
	}
	return b.String()
}

// rescore is the documented scoring, written independently of the DP.
func rescore(m align.SubstitutionMatrix, a, b []byte, steps []align.Step) (score float64, ai, bi int, ok bool) {
	var prev align.Step
	for _, s := range steps {
		switch s {
		case align.Match:
			if ai >= len(a) || bi >= len(b) {
				return 0, 0, 0, false
			}
			score += m[[2]byte{a[ai], b[bi]}]
			ai++
			bi++
		case align.Deletion:
			if ai >= len(a) {
				return 0, 0, 0, false
			}
			score += m[[2]byte{a[ai], align.Gap}]
			if prev != align.Deletion {
				score += m[[2]byte{align.Gap, align.Gap}]
			}
			ai++
		case align.Insertion:
			if bi >= len(b) {
				return 0, 0, 0, false
			}
			score += m[[2]byte{align.Gap, b[bi]}]
			if prev != align.Insertion {
				score += m[[2]byte{align.Gap, align.Gap}]
			}
			bi++
		default:
			return 0, 0, 0, false
		}
		prev = s
	}
	return score, ai, bi, true
}

const negInf = -1e18

// gotoh computes the true optimum (three-state affine DP). local=false: global.
func gotoh(m align.SubstitutionMatrix, a, b []byte, local bool) float64 {
	n, k := len(a), len(b)
	open := m[[2]byte{align.Gap, align.Gap}]
	M := make([][]float64, n+1)
	D := make([][]float64, n+1)
	I := make([][]float64, n+1)
	for i := range M {
		M[i] = make([]float64, k+1)
		D[i] = make([]float64, k+1)
		I[i] = make([]float64, k+1)
		for j := range M[i] {
			M[i][j], D[i][j], I[i][j] = negInf, negInf, negInf
		}
	}
	M[0][0] = 0
	best := 0.0
	max3 := func(x, y, z float64) float64 { return math.Max(x, math.Max(y, z)) }
	for i := 0; i <= n; i++ {
		for j := 0; j <= k; j++ {
			if i == 0 && j == 0 {
				continue
			}
			if i > 0 && j > 0 {
				p := max3(M[i-1][j-1], D[i-1][j-1], I[i-1][j-1])
				if local {
					p = math.Max(p, 0)
				}
				M[i][j] = p + m[[2]byte{a[i-1], b[j-1]}]
			}
			if i > 0 {
				g := m[[2]byte{a[i-1], align.Gap}]
				p := math.Max(M[i-1][j], I[i-1][j]) + open
				if local {
					p = math.Max(p, open)
				}
				D[i][j] = math.Max(p, D[i-1][j]) + g
			}
			if j > 0 {
				g := m[[2]byte{align.Gap, b[j-1]}]
				p := math.Max(M[i][j-1], D[i][j-1]) + open
				if local {
					p = math.Max(p, open)
				}
				I[i][j] = math.Max(p, I[i][j-1]) + g
			}
			best = math.Max(best, max3(M[i][j], D[i][j], I[i][j]))
		}
	}
	if local {
		return best
	}
	return max3(M[n][k], D[n][k], I[n][k])
}

// bruteGlobal enumerates every alignment (cross-check of gotoh on tiny inputs).
func bruteGlobal(m align.SubstitutionMatrix, a, b []byte) float64 {
	best := negInf
	var rec func(ai, bi int, prev align.Step, sc float64)
	open := m[[2]byte{align.Gap, align.Gap}]
	rec = func(ai, bi int, prev align.Step, sc float64) {
		if ai == len(a) && bi == len(b) {
			best = math.Max(best, sc)
			return
		}
		if ai < len(a) && bi < len(b) {
			rec(ai+1, bi+1, align.Match, sc+m[[2]byte{a[ai], b[bi]}])
		}
		if ai < len(a) {
			s := sc + m[[2]byte{a[ai], align.Gap}]
			if prev != align.Deletion {
				s += open
			}
			rec(ai+1, bi, align.Deletion, s)
		}
		if bi < len(b) {
			s := sc + m[[2]byte{align.Gap, b[bi]}]
			if prev != align.Insertion {
				s += open
			}
			rec(ai, bi+1, align.Insertion, s)
		}
	}
	rec(0, 0, 0, 0)
	return best
}

func editDistance(a, b []byte) int {
	prev := make([]int, len(b)+1)
	for j := range prev {
		prev[j] = j
	}
	for i := 1; i <= len(a); i++ {
		cur := make([]int, len(b)+1)
		cur[0] = i
		for j := 1; j <= len(b); j++ {
			d := prev[j-1]
			if a[i-1] != b[j-1] {
				d++
			}
			cur[j] = min(d, prev[j]+1, cur[j-1]+1)
		}
		prev = cur
	}
	return prev[len(b)]
}

// alignCase runs Global and Local on (a,b,m) and records observations + oracles.
// mode: which property's clauses are checked.
func alignCase(c *Ctx, prop string, mt imat, a, b []byte, kind string) {
	a0, b0 := append([]byte(nil), a...), append([]byte(nil), b...)
	mcopy := align.SubstitutionMatrix{}
	for k, v := range mt.m {
		mcopy[k] = v
	}
	type gres struct {
		steps []align.Step
		score float64
	}
	var g gres
	gs := safe(func() string {
		g.steps, g.score = align.Global(a, b, mt.m)
		return fmt.Sprintf("%s %d", stepsS(g.steps), int64(g.score))
	})
	var ls []align.Step
	var lai, lbi int
	var lsc float64
	lstr := safe(func() string {
		ls, lai, lbi, lsc = align.Local(a, b, mt.m)
		return fmt.Sprintf("%s %d %d %d", stepsS(ls), lai, lbi, int64(lsc))
	})
	nonPos := mt.open <= 0
	for k, v := range mt.m {
		if (k[0] == align.Gap || k[1] == align.Gap) && v > 0 {
			nonPos = false
		}
	}
	og, ol := "", ""
	switch prop {
	case "C08":
		if gs == "PANIC" {
			og = "Global panicked on a matrix defined for every needed pair"
		} else {
			sc, ai, bi, ok := rescore(mt.m, a, b, g.steps)
			if !ok || ai != len(a) || bi != len(b) {
				og = "Global steps do not consume exactly a and b"
			} else if sc != g.score {
				og = fmt.Sprintf("Global score %v but its steps score %v", g.score, sc)
			} else if g.score != math.Trunc(g.score) {
				og = "non-integral score on an integer matrix"
			}
		}
		if !bytes.Equal(a, a0) || !bytes.Equal(b, b0) || len(mcopy) != len(mt.m) {
			og = "inputs modified"
		}
		if nonPos {
			if lstr == "PANIC" {
				ol = "Local panicked"
			} else if len(ls) == 0 {
				if lsc != 0 {
					ol = "Local: no steps but non-zero score"
				} else if gotoh(mt.m, a, b, true) > 0 && mt.open == 0 {
					ol = "Local returned nothing although a positive-scoring local alignment exists"
				}
			} else {
				if lai < 0 || lbi < 0 || lai > len(a) || lbi > len(b) {
					ol = "Local start offsets out of range"
				} else if sc, _, _, ok := rescore(mt.m, a[lai:], b[lbi:], ls); !ok {
					ol = "Local steps leave a or b"
				} else if sc != lsc {
					ol = fmt.Sprintf("Local score %v but its steps score %v", lsc, sc)
				}
			}
		}
	case "C09", "C10":
		// optimality (C09: open == 0, C10: open != 0)
		if gs != "PANIC" {
			opt := gotoh(mt.m, a, b, false)
			if len(a)+len(b) <= 7 {
				if bo := bruteGlobal(mt.m, a, b); bo != opt {
					og = fmt.Sprintf("internal: gotoh %v != brute force %v", opt, bo)
				}
			}
			if og == "" && g.score < opt {
				og = fmt.Sprintf("Global returns %v but an alignment scoring %v exists", g.score, opt)
			} else if og == "" && g.score > opt {
				og = fmt.Sprintf("Global returns %v above the optimum %v", g.score, opt)
			}
		}
		// C09 does not restrict the gap scores (only gap-open = 0): the positive-gaps family checks Local's optimum too
		if (nonPos || (prop == "C09" && kind == "positive-gaps" && mt.open == 0)) && lstr != "PANIC" {
			opt := gotoh(mt.m, a, b, true)
			if lsc < opt {
				ol = fmt.Sprintf("Local returns %v but a local alignment scoring %v exists", lsc, opt)
			} else if lsc > opt {
				ol = fmt.Sprintf("Local returns %v above the optimum %v", lsc, opt)
			}
		}
	}
	note := fmt.Sprintf("a=%q b=%q %s", a, b, mt.desc)
	nt := len(a) > 0 && len(b) > 0
	c.add(Case{Op: "al.global " + matArgs(mt.m) + " " + hx(a) + " " + hx(b), Impl: strings.Replace(gs, "PANIC", "P", 1),
		Kind: kind + "-global", Nontrivial: nt, Oracle: og, Note: "align.Global " + note})
	if nonPos || prop == "C08" || (prop == "C09" && kind == "positive-gaps") {
		c.add(Case{Op: "al.local " + matArgs(mt.m) + " " + hx(a) + " " + hx(b), Impl: strings.Replace(lstr, "PANIC", "P", 1),
			Kind: kind + "-local", Nontrivial: nt, Oracle: ol, Note: "align.Local " + note})
	}
}

var shippedNames = []string{"blosum45", "blosum62", "blosum80", "pam120", "pam160", "pam250"}

func shippedMat(name string) align.SubstitutionMatrix {
	switch name {
	case "blosum45":
		return align.BLOSUM45
	case "blosum62":
		return align.BLOSUM62
	case "blosum80":
		return align.BLOSUM80
	case "pam120":
		return align.PAM120
	case "pam160":
		return align.PAM160
	}
	return align.PAM250
}

const protAlpha = "ARNDCQEGHILKMFPSTWYVBZX"

func genAlign(c *Ctx, prop string) {
	alignRound4(c, prop)
	if prop != "C10" {
		alignLopsided(c, prop)
	}
	if prop == "C08" {
		alignHugeTable(c)
	}
	opens := []int{0}
	switch prop {
	case "C08":
		opens = []int{0, -1, -3, 2}
	case "C10":
		opens = []int{-1, -2, -3, -5}
	}
	// exhaustive small scope
	alpha := []byte("ab")
	maxLen := 4
	if c.thor {
		maxLen = 5
	}
	var words [][]byte
	var rec func(p []byte)
	rec = func(p []byte) {
		words = append(words, append([]byte(nil), p...))
		if len(p) == maxLen {
			return
		}
		for _, x := range alpha {
			rec(append(p, x))
		}
	}
	rec(nil)
	nm := 6
	if c.thor {
		nm = 20
	}
	for k := 0; k < nm; k++ {
		open := opens[c.rng.Intn(len(opens))]
		mt := c.randMatrix(alpha, k%2 == 0, prop != "C08" || k%3 != 0, open)
		for _, a := range words {
			for _, b := range words {
				if len(a)+len(b) > maxLen+2 && c.rng.Intn(4) != 0 {
					continue
				}
				alignCase(c, prop, mt, a, b, "small")
			}
		}
	}
	// random longer pairs over random matrices
	for i := 0; i < c.n(500); i++ {
		al := []byte("acgt")[:2+c.rng.Intn(3)]
		switch i % 5 {
		case 3: // the same letter in both cases, scored differently (soft-masked sequence)
			al = [][]byte{[]byte("Aa"), []byte("ACac"), []byte("ACGTacgt"), []byte("AaBb"), []byte("aAn")}[c.rng.Intn(5)]
		case 4: // bytes that agree in their low 5 / low 6 / low 7 bits
			al = [][]byte{{0x41, 0x61, 0x21}, {0x01, 0x41, 0x81, 0xc1}, {0x41, 0xc1}, {0x00, 0x80, 0x40}, {0x7e, 0xfe, 0x3e}}[c.rng.Intn(5)]
		}
		open := opens[c.rng.Intn(len(opens))]
		mt := c.randMatrix(al, c.rng.Intn(2) == 0, prop != "C08" || c.rng.Intn(3) != 0, open)
		alignCase(c, prop, mt, c.bytesFrom(al, c.rng.Intn(60)), c.bytesFrom(al, c.rng.Intn(60)), "random")
	}
	if prop == "C10" {
		// the suite's own affine test matrix shape: match/mismatch/gap/open
		for i := 0; i < c.n(200); i++ {
			al := []byte("ab")
			m := align.SubstitutionMatrix{}
			match, mis, gap, open := float64(1+c.rng.Intn(3)), -float64(c.rng.Intn(3)), -float64(c.rng.Intn(3)), -float64(1+c.rng.Intn(4))
			for _, x := range al {
				for _, y := range al {
					if x == y {
						m[[2]byte{x, y}] = match
					} else {
						m[[2]byte{x, y}] = mis
					}
				}
				m[[2]byte{x, align.Gap}] = gap
				m[[2]byte{align.Gap, x}] = gap
			}
			m[[2]byte{align.Gap, align.Gap}] = open
			mt := imat{m, al, int(open), fmt.Sprintf("match %v mismatch %v gap %v open %v", match, mis, gap, open)}
			alignCase(c, prop, mt, c.bytesFrom(al, c.rng.Intn(7)), c.bytesFrom(al, c.rng.Intn(7)), "affine")
		}
	}
	if prop == "C10" {
		return
	}
	alignExtras(c, prop)
	// shipped matrices
	for i := 0; i < c.n(150); i++ {
		name := shippedNames[c.rng.Intn(len(shippedNames))]
		m := shippedMat(name)
		a := c.bytesFrom([]byte(protAlpha), c.rng.Intn(50))
		b := c.bytesFrom([]byte(protAlpha), c.rng.Intn(50))
		var gsteps []align.Step
		var gsc, gsc2 float64
		gs := safe(func() string {
			gsteps, gsc = align.Global(a, b, m)
			_, gsc2 = align.Global(b, a, m)
			return fmt.Sprintf("%s %d", stepsS(gsteps), int64(gsc))
		})
		oracle := ""
		if gs == "PANIC" {
			oracle = "aligning two protein strings panicked"
		} else if prop == "C09" {
			if gsc != gsc2 {
				oracle = fmt.Sprintf("swapping arguments changes the score: %v vs %v", gsc, gsc2)
			} else if opt := gotoh(m, a, b, false); gsc != opt {
				oracle = fmt.Sprintf("Global returns %v, optimum is %v", gsc, opt)
			}
		} else if sc, ai, bi, ok := rescore(m, a, b, gsteps); !ok || ai != len(a) || bi != len(b) || sc != gsc {
			oracle = "steps do not re-score to the returned score"
		}
		c.add(Case{Op: "al.ship " + name + " g " + hx(a) + " " + hx(b), Impl: strings.Replace(gs, "PANIC", "P", 1), Kind: "shipped-global",
			Nontrivial: len(a) > 0 && len(b) > 0, Oracle: oracle, Note: fmt.Sprintf("align.Global(%q, %q, %s)", a, b, strings.ToUpper(name))})
		var ls []align.Step
		var lai, lbi int
		var lsc float64
		lstr := safe(func() string {
			ls, lai, lbi, lsc = align.Local(a, b, m)
			return fmt.Sprintf("%s %d %d %d", stepsS(ls), lai, lbi, int64(lsc))
		})
		oracle = ""
		if lstr == "PANIC" {
			oracle = "Local panicked on protein strings"
		} else if prop == "C09" {
			if opt := gotoh(m, a, b, true); lsc != opt {
				oracle = fmt.Sprintf("Local returns %v, optimum is %v", lsc, opt)
			}
		}
		c.add(Case{Op: "al.ship " + name + " l " + hx(a) + " " + hx(b), Impl: strings.Replace(lstr, "PANIC", "P", 1), Kind: "shipped-local",
			Nontrivial: len(a) > 0 && len(b) > 0, Oracle: oracle, Note: fmt.Sprintf("align.Local(%q, %q, %s)", a, b, strings.ToUpper(name))})
	}
	if prop != "C09" {
		return
	}
	// Levenshtein
	for i := 0; i < c.n(200); i++ {
		al := []byte("abcdefgh\x00\xfe")[:2+c.rng.Intn(9)]
		a, b := c.bytesFrom(al, c.rng.Intn(30)), c.bytesFrom(al, c.rng.Intn(30))
		var sc float64
		var st []align.Step
		gs := safe(func() string { st, sc = align.Global(a, b, align.Levenshtein); return fmt.Sprintf("%s %d", stepsS(st), int64(sc)) })
		oracle := ""
		if gs == "PANIC" {
			oracle = "panic with the Levenshtein matrix"
		} else if int(sc) != -editDistance(a, b) {
			oracle = fmt.Sprintf("Levenshtein Global score %v, edit distance %d", sc, editDistance(a, b))
		}
		c.add(Case{Op: "al.lev " + hx(a) + " " + hx(b), Impl: strings.Replace(gs, "PANIC", "P", 1), Kind: "levenshtein", Nontrivial: len(a) > 0 && len(b) > 0,
			Oracle: oracle, Note: fmt.Sprintf("align.Global(%q, %q, Levenshtein)", a, b)})
	}
	// Table facts, exhaustively (direct oracle; the Lean side proves them over the regenerated tables).
	bad := ""
	for i := 0; i < 256 && bad == ""; i++ {
		for j := 0; j < 256; j++ {
			v, ok := align.Levenshtein[[2]byte{byte(i), byte(j)}]
			want := -1.0
			if i == j {
				want = 0
			}
			if !ok || v != want {
				bad = fmt.Sprintf("Levenshtein[%d,%d] = %v (present %v), want %v", i, j, v, ok, want)
				break
			}
		}
	}
	c.add(Case{Kind: "lev-table", Nontrivial: true, Oracle: bad, Note: "all 65536 Levenshtein entries"})
	symbols := append([]byte(protAlpha), align.Gap)
	for _, name := range shippedNames {
		m := shippedMat(name)
		bad := ""
		for _, x := range symbols {
			for _, y := range symbols {
				v, ok := m[[2]byte{x, y}]
				w, ok2 := m[[2]byte{y, x}]
				if !ok || !ok2 {
					bad = fmt.Sprintf("%s lacks the pair (%d,%d)", name, x, y)
				} else if v != w {
					bad = fmt.Sprintf("%s[%d,%d]=%v but [%d,%d]=%v", name, x, y, v, y, x, w)
				}
			}
		}
		if m[[2]byte{align.Gap, align.Gap}] != 0 {
			bad = name + " has non-zero gap-open"
		}
		c.add(Case{Kind: "shipped-table", Nontrivial: true, Oracle: bad, Note: "all 24x24 entries of " + name})
	}
}

// ======================= sequtil =======================

const dnaN = "aAcCgGtTnN"

func stdComp(b byte) byte {
	i := strings.IndexByte("ACGTNacgtn", b)
	if i < 0 {
		return 0
	}
	return "TGCANtgcan"[i]
}

func genC12(c *Ctx) {
	sequtilRound4_12(c)
	canonLongStops(c)
	// all 256 single bytes: accept/panic boundary
	for b := 0; b < 256; b++ {
		src := []byte{byte(b)}
		got := safe(func() string { return hx(sequtil.ReverseComplement(nil, src)) })
		gs := safe(func() string { return hx([]byte(sequtil.ReverseComplementString(string(src)))) })
		oracle := ""
		want := "PANIC"
		if cb := stdComp(byte(b)); cb != 0 {
			want = hx([]byte{cb})
		}
		if got != want || gs != want {
			oracle = fmt.Sprintf("ReverseComplement of byte %d: %s / %s, want %s", b, got, gs, want)
		}
		c.add(Case{Op: "su.rc - " + hx(src), Impl: strings.Replace(got, "PANIC", "P", 1), Kind: "rc-byte", Nontrivial: true, Oracle: oracle,
			Note: fmt.Sprintf("ReverseComplement(nil, [%d])", b)})
	}
	sequtilExtras12(c)
	// arbitrary byte strings (incl. multi-byte UTF-8): both functions must agree, panic exactly on a foreign byte
	for i := 0; i < c.n(400); i++ {
		var s []byte
		switch i % 3 {
		case 0:
			s = c.bytesFrom([]byte("ACGTNacgtn\xc5\x81\xc3\x87\xe2\x84\xaa\x41"), 1+c.rng.Intn(8))
		case 1:
			// exactly one well-formed multi-byte rune whose code point's low byte is a base letter
			letter := "ACGTNacgtn"[c.rng.Intn(10)]
			r := rune(0x100*(1+c.rng.Intn(30))) + rune(letter)
			s = append(c.bytesFrom([]byte("ACGTn"), c.rng.Intn(4)), []byte(string(r))...)
			s = append(s, c.bytesFrom([]byte("ACGTn"), c.rng.Intn(4))...)
		default:
			s = c.bytesFrom([]byte("ACGTN\x00\xff\x80 U"), 1+c.rng.Intn(6))
		}
		got := safe(func() string { return hx(sequtil.ReverseComplement(nil, s)) })
		gs := safe(func() string { return hx([]byte(sequtil.ReverseComplementString(string(s)))) })
		foreign := false
		for _, b := range s {
			if stdComp(b) == 0 {
				foreign = true
			}
		}
		oracle := ""
		if foreign != (got == "PANIC") || foreign != (gs == "PANIC") {
			oracle = fmt.Sprintf("foreign byte present=%v but ReverseComplement panics=%v, ReverseComplementString panics=%v", foreign, got == "PANIC", gs == "PANIC")
		} else if got != gs {
			oracle = "ReverseComplementString disagrees with ReverseComplement"
		}
		c.add(Case{Op: "su.rc - " + hx(s), Impl: strings.Replace(got, "PANIC", "P", 1), Kind: "rc-bytes", Nontrivial: true, Oracle: oracle,
			Note: fmt.Sprintf("ReverseComplement / ReverseComplementString on %q", s)})
	}
	seqs := [][]byte{}
	maxLen := 4
	if c.thor {
		maxLen = 5
	}
	var rec func(p []byte)
	rec = func(p []byte) {
		seqs = append(seqs, append([]byte(nil), p...))
		if len(p) == maxLen {
			return
		}
		for _, x := range []byte("aCgTN") {
			rec(append(p, x))
		}
	}
	rec(nil)
	for i := 0; i < c.n(300); i++ {
		seqs = append(seqs, c.bytesFrom([]byte(dnaN), c.rng.Intn(120)))
	}
	for _, s := range seqs {
		dst := c.bytesFrom([]byte("xyz\x00"), c.rng.Intn(4))
		dstCap := append(make([]byte, 0, len(dst)+len(s)+8), dst...)
		s0 := append([]byte(nil), s...)
		var out []byte
		got := safe(func() string { out = sequtil.ReverseComplement(dstCap, s); return hx(out) })
		oracle := ""
		want := append([]byte(nil), dst...)
		for i := len(s) - 1; i >= 0; i-- {
			want = append(want, stdComp(s[i]))
		}
		if got != hx(want) {
			oracle = "not dst + reversed complement"
		} else if !bytes.Equal(s, s0) || !bytes.Equal(dstCap[:len(dst)], dst) {
			oracle = "src or dst's content modified"
		} else if back := sequtil.ReverseComplement(nil, out[len(dst):]); !bytes.Equal(back, s) {
			oracle = "applying it twice does not give back the original"
		} else if sequtil.ReverseComplementString(string(s)) != string(out[len(dst):]) {
			oracle = "ReverseComplementString disagrees"
		}
		c.add(Case{Op: "su.rc " + hx(dst) + " " + hx(s), Impl: got, Kind: "rc", Nontrivial: len(s) > 1, Oracle: oracle,
			Note: fmt.Sprintf("ReverseComplement(%q, %q)", dst, s)})
		// canonical k-mers
		for _, k := range []int{1, 2, 3, len(s), len(s) + 1, len(s) + 2, 1 + c.rng.Intn(8)} {
			if k < 1 {
				continue
			}
			var items [][]byte
			got := safe(func() string {
				for x := range sequtil.CanonicalSubsequences(s, k) {
					items = append(items, append([]byte(nil), x...))
				}
				return ""
			})
			oracle := ""
			n := len(s) - k + 1
			if n < 0 {
				n = 0
			}
			if got == "PANIC" {
				oracle = "panic"
			} else if len(items) != n {
				oracle = fmt.Sprintf("%d items, want %d", len(items), n)
			} else {
				for i := range items {
					w := s[i : i+k]
					rc := sequtil.ReverseComplement(nil, w)
					m := w
					if bytes.Compare(rc, w) < 0 {
						m = rc
					}
					if !bytes.Equal(items[i], m) {
						oracle = fmt.Sprintf("item %d is not the smaller of the window and its reverse complement", i)
					}
				}
				// strand symmetry
				var rev [][]byte
				for x := range sequtil.CanonicalSubsequences(sequtil.ReverseComplement(nil, s), k) {
					rev = append(rev, append([]byte(nil), x...))
				}
				for i := range items {
					if len(rev) != len(items) || !bytes.Equal(items[i], rev[len(rev)-1-i]) {
						oracle = "reverse complement does not yield the same items in opposite order"
					}
				}
			}
			hs := make([]string, len(items))
			for i, it := range items {
				hs[i] = hx(it)
			}
			c.add(Case{Op: fmt.Sprintf("su.canon %d 0 %s", k, hx(s)), Impl: strings.Join(hs, ","), Kind: "canon", Nontrivial: n > 1, Oracle: oracle,
				Note: fmt.Sprintf("CanonicalSubsequences(%q, %d)", s, k)})
		}
	}
}

func genC13(c *Ctx) {
	sequtilRound4_13(c)
	from2bitWordsAndPrefixes(c)
	sequtilExtras13(c)
	for b := 0; b < 256; b++ {
		got := sequtil.Ntoi(byte(b))
		want := -1
		if i := strings.IndexByte("aAcCgGtT", byte(b)); i >= 0 {
			want = i / 2
		}
		oracle := ""
		if got != want {
			oracle = fmt.Sprintf("Ntoi(%d) = %d, want %d", b, got, want)
		} else if want >= 0 && sequtil.Iton(got) != "ACGT"[want] {
			oracle = "Iton(Ntoi(b)) is not the upper-case base"
		}
		c.add(Case{Op: fmt.Sprintf("su.ntoi %d", b), Impl: strconv.Itoa(got), Kind: "ntoi", Nontrivial: true, Oracle: oracle, Note: fmt.Sprintf("Ntoi(%d)", b)})
		// single packed bytes
		p := []byte{byte(b)}
		exp := sequtil.DNAFrom2Bit(nil, p)
		back := safe(func() string { return hx(sequtil.DNATo2Bit(nil, exp)) })
		oracle = ""
		wantExp := []byte{"ACGT"[b>>6&3], "ACGT"[b>>4&3], "ACGT"[b>>2&3], "ACGT"[b&3]}
		if !bytes.Equal(exp, wantExp) {
			oracle = fmt.Sprintf("DNAFrom2Bit([%d]) = %q, want %q", b, exp, wantExp)
		} else if back != hx(p) {
			oracle = "DNATo2Bit(DNAFrom2Bit(p)) != p"
		}
		c.add(Case{Op: "su.from2bit - " + hx(p), Impl: hx(exp), Kind: "from2bit-byte", Nontrivial: true, Oracle: oracle, Note: fmt.Sprintf("DNAFrom2Bit([%d])", b)})
		// non-DNA byte panics
		if want < 0 {
			got := safe(func() string { return hx(sequtil.DNATo2Bit(nil, []byte{'A', byte(b)})) })
			oracle := ""
			if got != "PANIC" {
				oracle = fmt.Sprintf("DNATo2Bit accepts byte %d", b)
			}
			c.add(Case{Op: "su.to2bit - " + hx([]byte{'A', byte(b)}), Impl: "P", Kind: "to2bit-bad", Nontrivial: true, Oracle: oracle, Note: fmt.Sprintf("DNATo2Bit with byte %d", b)})
		}
	}
	for n := -3; n <= 6; n++ {
		c.add(Case{Op: fmt.Sprintf("su.iton %d", n), Impl: strconv.Itoa(int(sequtil.Iton(n))), Kind: "iton", Nontrivial: true, Note: fmt.Sprintf("Iton(%d)", n)})
	}
	// all byte pairs (oracle only in quick; sampled into the model stream)
	for a := 0; a < 256; a++ {
		for b := 0; b < 256; b++ {
			p := []byte{byte(a), byte(b)}
			if !bytes.Equal(sequtil.DNATo2Bit(nil, sequtil.DNAFrom2Bit(nil, p)), p) {
				c.add(Case{Kind: "pair", Nontrivial: true, Oracle: "DNATo2Bit(DNAFrom2Bit(p)) != p", Note: fmt.Sprintf("p = [%d %d]", a, b)})
			}
		}
	}
	c.add(Case{Kind: "pair", Nontrivial: true, Note: "all 65536 byte pairs: DNATo2Bit(DNAFrom2Bit(p)) == p"})
	// DNA strings: all lengths 0..9 exhaustively over {a,C,g,T} (thorough 11), random beyond
	var strs [][]byte
	maxLen := 6
	if c.thor {
		maxLen = 8
	}
	var rec func(p []byte)
	rec = func(p []byte) {
		strs = append(strs, append([]byte(nil), p...))
		if len(p) == maxLen {
			return
		}
		for _, x := range []byte("aCgT") {
			rec(append(p, x))
		}
	}
	rec(nil)
	for i := 0; i < c.n(300); i++ {
		strs = append(strs, c.bytesFrom([]byte("aAcCgGtT"), c.rng.Intn(200)))
	}
	for _, s := range strs {
		dst := c.bytesFrom([]byte{0, 0xff, 0x5a}, c.rng.Intn(4))
		dstCap := append(make([]byte, 0, len(dst)+len(s)), dst...)
		out := sequtil.DNATo2Bit(dstCap, s)
		oracle := ""
		if len(out) != len(dst)+(len(s)+3)/4 {
			oracle = fmt.Sprintf("appended %d bytes, want %d", len(out)-len(dst), (len(s)+3)/4)
		} else if !bytes.Equal(out[:len(dst)], dst) {
			oracle = "dst's existing content modified"
		} else {
			for i, b := range s {
				v := strings.IndexByte("aAcCgGtT", b) / 2
				if int(out[len(dst)+i/4]>>(6-2*(i%4)))&3 != v {
					oracle = fmt.Sprintf("base %d not at the expected bit position", i)
				}
			}
			un := sequtil.DNAFrom2Bit(nil, out[len(dst):])
			wantUn := append(bytes.ToUpper(s), bytes.Repeat([]byte("A"), (4-len(s)%4)%4)...)
			if !bytes.Equal(un, wantUn) {
				oracle = "DNAFrom2Bit is not the upper-case string plus 'A' padding"
			}
		}
		c.add(Case{Op: "su.to2bit " + hx(dst) + " " + hx(s), Impl: hx(out), Kind: fmt.Sprintf("to2bit-mod%d", len(s)%4), Nontrivial: len(s) > 0, Oracle: oracle,
			Note: fmt.Sprintf("DNATo2Bit(%v, %q)", dst, s)})
		if len(s)%3 == 0 {
			c.add(Case{Op: "su.from2bit " + hx(dst) + " " + hx(out[len(dst):]), Impl: hx(sequtil.DNAFrom2Bit(append([]byte(nil), dst...), out[len(dst):])),
				Kind: "from2bit", Nontrivial: len(s) > 0, Note: fmt.Sprintf("DNAFrom2Bit(%v, packed %q)", dst, s)})
		}
	}
}

const ncbi1 = "FFLLSSSSYY**CC*WLLLLPPPPHHQQRRRRIIIMTTTTNNKKSSRRVVVVAAAADDEEGGGG"

func stdAmino(cod []byte) byte {
	idx := 0
	for _, b := range cod {
		i := strings.IndexByte("TCAG", b&^0x20)
		if i < 0 || (b != "TCAG"[i] && b != "tcag"[i]) {
			return 0
		}
		idx = idx*4 + i
	}
	return ncbi1[idx]
}

func genC14(c *Ctx) {
	translateHuge(c)
	sequtilRound4_14(c)
	sequtilExtras14(c)
	// all 64 codons x 8 case patterns
	for i := 0; i < 64; i++ {
		for cs := 0; cs < 8; cs++ {
			cod := []byte{"TCAG"[i/16], "TCAG"[i/4%4], "TCAG"[i%4]}
			for j := 0; j < 3; j++ {
				if cs>>j&1 == 1 {
					cod[j] |= 0x20
				}
			}
			got := safe(func() string { return hx(sequtil.Translate(nil, cod)) })
			oracle := ""
			if got != hx([]byte{ncbi1[i]}) {
				oracle = fmt.Sprintf("Translate(%q) = %s, standard code says %q", cod, got, ncbi1[i])
			}
			c.add(Case{Op: "su.translate - " + hx(cod), Impl: strings.Replace(got, "PANIC", "P", 1), Kind: "codon", Nontrivial: true, Oracle: oracle,
				Note: fmt.Sprintf("Translate(nil, %q)", cod)})
		}
	}
	firstRes := make([]string, 256) // what each byte gives the FIRST time it is asked (ascending order, nothing remembered yet)
	for b := 0; b < 256; b++ {
		var c3, name string
		got := safe(func() string { c3, name = sequtil.AminoName(byte(b)); return hx([]byte(c3)) + " " + hx([]byte(name)) })
		firstRes[b] = c3 + "/" + name
		if got == "PANIC" {
			firstRes[b] = "PANIC"
		}
		up := byte(b)
		if up >= 'a' && up <= 'z' {
			up -= 32
		}
		accept := strings.IndexByte(sequtil.AminoAcids, up) >= 0
		oracle := ""
		if accept && (got == "PANIC" || c3 == "" || name == "") {
			oracle = fmt.Sprintf("AminoName(%q) must return a non-empty code and name", b)
		} else if !accept && got != "PANIC" {
			oracle = fmt.Sprintf("AminoName(%d) must panic", b)
		}
		c.add(Case{Op: fmt.Sprintf("su.amino %d", b), Impl: strings.Replace(got, "PANIC", "P", 1), Kind: "amino", Nontrivial: true, Oracle: oracle,
			Note: fmt.Sprintf("AminoName(%d)", b)})
	}
	// every ordered pair of consecutive calls (a result must not depend on the call before it)
	{
		single := firstRes // not re-asked here: a second sweep would already see whatever the first one left behind
		bad := ""
		for b := 255; b >= 0 && bad == ""; b-- { // the same questions in descending order
			if got := safe(func() string { c3, name := sequtil.AminoName(byte(b)); return c3 + "/" + name }); got != single[b] {
				bad = fmt.Sprintf("AminoName(%d) asked again (after every byte value had been asked once) gives %q, the first time it gave %q", b, got, single[b])
			}
		}
		for a := 0; a < 256 && bad == ""; a++ {
			for b := 0; b < 256; b++ {
				safe(func() string { sequtil.AminoName(byte(a)); return "" })
				if got := safe(func() string { c3, name := sequtil.AminoName(byte(b)); return c3 + "/" + name }); got != single[b] {
					bad = fmt.Sprintf("AminoName(%d) right after AminoName(%d) gives %q, the first time it was asked it gave %q", b, a, got, single[b])
					break
				}
			}
		}
		c.add(Case{Kind: "amino-call-pairs", Nontrivial: true, Oracle: bad, Note: "AminoName(b) after AminoName(a) for all 65536 ordered pairs (a, b)"})
	}
	var strs [][]byte
	maxLen := 5
	if c.thor {
		maxLen = 7
	}
	var rec func(p []byte)
	rec = func(p []byte) {
		strs = append(strs, append([]byte(nil), p...))
		if len(p) == maxLen {
			return
		}
		for _, x := range []byte("aCgT") {
			rec(append(p, x))
		}
	}
	rec(nil)
	for i := 0; i < c.n(300); i++ {
		s := c.bytesFrom([]byte("aAcCgGtT"), c.rng.Intn(150))
		if i%10 == 0 && len(s) > 0 {
			s[c.rng.Intn(len(s))] = "NnXU-\x00"[c.rng.Intn(6)]
		}
		strs = append(strs, s)
	}
	tr := func(s []byte) (string, bool) {
		var out []byte
		for i := 0; i+3 <= len(s); i += 3 {
			a := stdAmino(s[i : i+3])
			if a == 0 {
				return "", false
			}
			out = append(out, a)
		}
		return string(out), true
	}
	for _, s := range strs {
		var fr [3][]byte
		got := safe(func() string {
			fr = sequtil.TranslateReadingFrames(s)
			return hx(fr[0]) + "," + hx(fr[1]) + "," + hx(fr[2])
		})
		oracle := ""
		dna := true
		for _, b := range s {
			if strings.IndexByte("aAcCgGtT", b) < 0 {
				dna = false
			}
		}
		if dna {
			if got == "PANIC" {
				oracle = fmt.Sprintf("TranslateReadingFrames panics on a DNA sequence of length %d", len(s))
			} else {
				for i := 0; i < 3; i++ {
					sub := s[min(i, len(s)):]
					sub = sub[:len(sub)/3*3]
					w, _ := tr(sub)
					if string(fr[i]) != w {
						oracle = fmt.Sprintf("frame %d is not Translate of the sequence with %d bases dropped", i, i)
					}
				}
			}
		}
		if !dna && len(s) < 3 && got == "PANIC" && oracle == "" {
			// no frame of a sequence shorter than a codon has anything to translate: the i-th result is Translate
			// of an empty string whatever the bytes are
			oracle = fmt.Sprintf("TranslateReadingFrames(%q) panics although no frame contains a codon", s)
		}
		c.add(Case{Op: "su.frames " + hx(s), Impl: strings.Replace(got, "PANIC", "P", 1), Kind: fmt.Sprintf("frames-len%d", min(len(s), 3)), Nontrivial: len(s) > 2,
			Oracle: oracle, Note: fmt.Sprintf("TranslateReadingFrames(%q)", s)})
		// Translate with dst, concatenation law, bad length
		dst := c.bytesFrom([]byte("MK*"), c.rng.Intn(3))
		got = safe(func() string { return hx(sequtil.Translate(append([]byte(nil), dst...), s)) })
		oracle = ""
		w, ok := tr(s)
		if len(s)%3 != 0 || !ok {
			if got != "PANIC" {
				oracle = "Translate must panic on a bad length or a non-ACGT base"
			}
		} else if got != hx(append(append([]byte(nil), dst...), w...)) {
			oracle = "Translate is not dst + one letter per codon"
		} else if len(s) >= 6 {
			cut := 3 * (1 + c.rng.Intn(len(s)/3-1+1))
			if cut > len(s) {
				cut = len(s)
			}
			x := sequtil.Translate(nil, s[:cut])
			y := sequtil.Translate(nil, s[cut:])
			if string(x)+string(y) != w {
				oracle = "translation of a concatenation is not the concatenation of translations"
			}
		}
		c.add(Case{Op: "su.translate " + hx(dst) + " " + hx(s), Impl: strings.Replace(got, "PANIC", "P", 1), Kind: "translate", Nontrivial: len(s) >= 3, Oracle: oracle,
			Note: fmt.Sprintf("Translate(%q, %q)", dst, s)})
	}
}

// ======================= trie =======================

type refSet map[string]bool

func (m refSet) has(x string) bool {
	if x == "" {
		return true
	}
	for k := range m {
		if strings.HasPrefix(k, x) {
			return true
		}
	}
	return false
}
func (m refSet) add(b string) {
	if b == "" || m.has(b) {
		return
	}
	for k := range m {
		if strings.HasPrefix(b, k) {
			delete(m, k)
		}
	}
	m[b] = true
}
func (m refSet) del(b string) bool {
	found := false
	for k := range m {
		if strings.HasPrefix(k, b) {
			delete(m, k)
			found = true
		}
	}
	return found
}
func (m refSet) members() string {
	ks := make([]string, 0, len(m))
	for k := range m {
		ks = append(ks, hx([]byte(k)))
	}
	sort.Strings(ks)
	return "e:" + strings.Join(ks, ",")
}

func trieMembers(t *trie.Trie) (string, int) {
	var ks []string
	n := 0
	t.ForEach(func(b []byte) bool { ks = append(ks, hx(b)); n++; return true })
	sort.Strings(ks)
	return "e:" + strings.Join(ks, ","), n
}

func runTrieHistory(c *Ctx, ops []string, probes []string, kind string) {
	t := trie.New()
	ref := refSet{}
	var outs []string
	oracle := ""
	fail := func(s string) {
		if oracle == "" {
			oracle = s
		}
	}
	for step, op := range ops {
		arg := string(unhx(op[1:]))
		switch op[0] {
		case 'a':
			t.Add([]byte(arg))
			ref.add(arg)
			outs = append(outs, "ok")
		case 'd':
			got := t.Delete([]byte(arg))
			want := true
			if arg != "" {
				want = ref.del(arg)
			}
			if got != want {
				fail(fmt.Sprintf("step %d Delete(%q) returned %v, want %v", step, arg, got, want))
			}
			outs = append(outs, map[bool]string{true: "1", false: "0"}[got])
		case 'h':
			got := t.Has([]byte(arg))
			if got != ref.has(arg) {
				fail(fmt.Sprintf("step %d Has(%q) = %v", step, arg, got))
			}
			outs = append(outs, map[bool]string{true: "1", false: "0"}[got])
		case 'e':
			s, _ := trieMembers(t)
			if s != ref.members() {
				fail(fmt.Sprintf("step %d ForEach reports %s, members are %s", step, s, ref.members()))
			}
			outs = append(outs, s)
		case 'j':
			js, err := json.Marshal(t)
			if err != nil {
				fail("MarshalJSON failed")
			}
			t2 := trie.New()
			if err := json.Unmarshal(js, t2); err != nil {
				fail("UnmarshalJSON failed: " + err.Error())
			} else {
				s2, _ := trieMembers(t2)
				if s2 != ref.members() {
					fail(fmt.Sprintf("step %d trie rebuilt from JSON has members %s, want %s", step, s2, ref.members()))
				}
				for _, p := range probes {
					if t2.Has([]byte(p)) != ref.has(p) {
						fail(fmt.Sprintf("step %d rebuilt trie Has(%q) wrong", step, p))
					}
				}
				js2, _ := json.Marshal(t2)
				if !bytes.Equal(js, js2) {
					fail("JSON of the rebuilt trie differs")
				}
			}
			outs = append(outs, "j:"+hx(js))
		}
		// observe Has on all probes after every step (oracle only)
		for _, p := range probes {
			if t.Has([]byte(p)) != ref.has(p) {
				fail(fmt.Sprintf("after step %d (%s): Has(%q) = %v", step, op, p, t.Has([]byte(p))))
			}
		}
		if s, _ := trieMembers(t); s != ref.members() {
			fail(fmt.Sprintf("after step %d (%s): ForEach %s, want %s", step, op, s, ref.members()))
		}
	}
	c.add(Case{Op: "tr.hist " + strings.Join(ops, " "), Impl: strings.Join(outs, "|"), Kind: kind, Nontrivial: len(ops) > 2, Oracle: oracle,
		Note: "trie history " + strings.Join(ops, " ")})
}

func genC15(c *Ctx) {
	trieFullFanout(c)
	trieSparse(c)
	trieRound7(c)
	trieRound11(c)
	trieExtras(c)
	// exhaustive histories over {a,b}, strings <= 2 (thorough 3), depth <= 3 (thorough 4)
	var strs []string
	maxS, depth := 2, 3
	if c.thor {
		maxS, depth = 3, 4
	}
	var rs func(p string)
	rs = func(p string) {
		strs = append(strs, p)
		if len(p) == maxS {
			return
		}
		rs(p + "a")
		rs(p + "b")
	}
	rs("")
	var opsAll []string
	for _, s := range strs {
		opsAll = append(opsAll, "a"+hx([]byte(s)), "d"+hx([]byte(s)))
	}
	var hist func(cur []string)
	hist = func(cur []string) {
		if len(cur) > 0 {
			runTrieHistory(c, append(append([]string(nil), cur...), "e", "j"), strs, "exhaustive")
		}
		if len(cur) == depth {
			return
		}
		for _, o := range opsAll {
			hist(append(cur, o))
		}
	}
	hist(nil)
	// random long histories
	for i := 0; i < c.n(150); i++ {
		al := []byte("abcdefgh\x00\xff\x80\x0a")[:2+c.rng.Intn(11)]
		var ops []string
		var probes []string
		pool := []string{}
		for k := 0; k < 10; k++ {
			pool = append(pool, string(c.bytesFrom(al, c.rng.Intn(7))))
		}
		n := 5 + c.rng.Intn(60)
		for k := 0; k < n; k++ {
			s := pool[c.rng.Intn(len(pool))]
			if c.rng.Intn(3) == 0 {
				s = s[:c.rng.Intn(len(s)+1)]
			}
			if c.rng.Intn(4) == 0 {
				s += string(c.bytesFrom(al, 1+c.rng.Intn(2)))
			}
			probes = append(probes, s)
			switch c.rng.Intn(10) {
			case 0, 1, 2, 3:
				ops = append(ops, "a"+hx([]byte(s)))
			case 4, 5, 6:
				ops = append(ops, "d"+hx([]byte(s)))
			case 7:
				ops = append(ops, "h"+hx([]byte(s)))
			case 8:
				ops = append(ops, "e")
			case 9:
				ops = append(ops, "j")
			}
		}
		ops = append(ops, "e", "j")
		runTrieHistory(c, ops, probes, "random")
		runTrieHistoryQuiet(c, ops, probes, "random")
	}
}

// ======================= regions =======================

func genC16(c *Ctx) {
	regionsRound6(c)
	regionsRound7(c)
	regionsRound9(c)
	regionsRound12(c)
	regionsRound4(c)
	run := func(starts, ends []int, queries []int, kind string) {
		var idx *regions.Index
		s0, e0 := append([]int(nil), starts...), append([]int(nil), ends...)
		got := safe(func() string { idx = regions.NewIndex(starts, ends); return "" })
		if len(starts) != len(ends) {
			oracle := ""
			if got != "PANIC" {
				oracle = "NewIndex must panic on lists of different lengths"
			}
			c.add(Case{Op: "rg.at " + intsS(starts) + " " + intsS(ends) + " " + intsS(queries), Impl: "P", Kind: kind, Nontrivial: true, Oracle: oracle,
				Note: fmt.Sprintf("NewIndex(%v, %v)", starts, ends)})
			return
		}
		oracle := ""
		if got == "PANIC" {
			oracle = "NewIndex panicked"
			c.add(Case{Kind: kind, Oracle: oracle, Note: fmt.Sprintf("NewIndex(%v, %v)", starts, ends)})
			return
		}
		var outs []string
		var earlier [][]int
		for qi, q := range queries {
			r := idx.At(q)
			var want []int
			for x := range starts {
				if starts[x] <= q && q < ends[x] {
					want = append(want, x)
				}
			}
			if intsS(r) != intsS(want) && oracle == "" {
				oracle = fmt.Sprintf("At(%d) = %v, want %v", q, r, want)
			}
			outs = append(outs, intsS(r))
			earlier = append(earlier, r)
			// mutate a previously returned slice
			if qi%2 == 1 {
				for _, e := range earlier {
					for i := range e {
						e[i] = -77
					}
				}
			}
		}
		// ask everything again after the mutations
		for _, q := range queries {
			r := idx.At(q)
			var want []int
			for x := range starts {
				if starts[x] <= q && q < ends[x] {
					want = append(want, x)
				}
			}
			if intsS(r) != intsS(want) && oracle == "" {
				oracle = fmt.Sprintf("after mutating returned slices At(%d) = %v, want %v", q, r, want)
			}
		}
		// concurrent readers
		var wg sync.WaitGroup
		var mu sync.Mutex
		for g := 0; g < 4; g++ {
			wg.Add(1)
			go func() {
				defer wg.Done()
				for i, q := range queries {
					if intsS(idx.At(q)) != outs[i] {
						mu.Lock()
						if oracle == "" {
							oracle = "concurrent At returned a different answer"
						}
						mu.Unlock()
					}
				}
			}()
		}
		wg.Wait()
		if !sameInts(starts, s0) || !sameInts(ends, e0) {
			oracle = "NewIndex modified its inputs"
		}
		nt := false
		for _, o := range outs {
			nt = nt || o != "-"
		}
		c.add(Case{Op: "rg.at " + intsS(starts) + " " + intsS(ends) + " " + intsS(queries), Impl: strings.Join(outs, "|"), Kind: kind, Nontrivial: nt, Oracle: oracle,
			Note: fmt.Sprintf("NewIndex(%v, %v) queried at %v", starts, ends, queries)})
	}
	// exhaustive: all lists of <= 3 intervals over 0..3 (thorough: 0..4)
	hi := 3
	if c.thor {
		hi = 4
	}
	var qs []int
	for q := -1; q <= hi+1; q++ {
		qs = append(qs, q)
	}
	var pairs [][2]int
	for s := 0; s <= hi; s++ {
		for e := 0; e <= hi; e++ {
			pairs = append(pairs, [2]int{s, e})
		}
	}
	var rec func(ss, es []int)
	rec = func(ss, es []int) {
		run(append([]int(nil), ss...), append([]int(nil), es...), qs, "exhaustive")
		if len(ss) == 3 || (len(ss) == 2 && !c.thor) {
			return
		}
		for _, p := range pairs {
			rec(append(ss, p[0]), append(es, p[1]))
		}
	}
	rec(nil, nil)
	for i := 0; i < c.n(200); i++ {
		n := c.rng.Intn(60)
		ss, es := make([]int, n), make([]int, n)
		span := []int{5, 20, 1000}[c.rng.Intn(3)]
		off := []int{0, -10, -1 << 62, 1<<62 - 2000}[c.rng.Intn(4)]
		for j := range ss {
			ss[j] = off + c.rng.Intn(span)
			es[j] = off + c.rng.Intn(span)
			if c.rng.Intn(3) == 0 {
				es[j] = ss[j] + c.rng.Intn(span)
			}
		}
		var q []int
		for k := 0; k < 12; k++ {
			q = append(q, off-1+c.rng.Intn(span+2))
		}
		q = append(q, math.MinInt64, math.MaxInt64)
		run(ss, es, q, "random")
	}
	// coordinates more than MaxInt apart within one set
	ext := []int{math.MinInt64, math.MinInt64 + 10, -1 << 62, -5, 0, 7, 1 << 62, math.MaxInt64 - 10, math.MaxInt64}
	for i := 0; i < c.n(100); i++ {
		n := 1 + c.rng.Intn(5)
		ss, es := make([]int, n), make([]int, n)
		for j := range ss {
			ss[j] = ext[c.rng.Intn(len(ext))]
			es[j] = ext[c.rng.Intn(len(ext))]
		}
		run(ss, es, ext, "extreme")
	}
	run([]int{1, 2}, []int{3}, []int{0}, "mismatch")
	run([]int{}, []int{3}, []int{0}, "mismatch")
}

func sameInts(a, b []int) bool {
	if len(a) != len(b) {
		return false
	}
	for i := range a {
		if a[i] != b[i] {
			return false
		}
	}
	return true
}

// ======================= mash =======================

func u64s(v []uint64) string {
	if len(v) == 0 {
		return "-"
	}
	p := make([]string, len(v))
	for i, x := range v {
		p[i] = strconv.FormatUint(x, 10)
	}
	return strings.Join(p, ",")
}

func genC17(c *Ctx) {
	mashSeeds(c)
	mashRound7(c)
	mashRound6(c)
	mashRound4(c)
	mashExtras(c)
	randDNA := func(n int) []byte {
		s := c.bytesFrom([]byte("ACGT"), n)
		for i := range s {
			switch c.rng.Intn(12) {
			case 0:
				s[i] |= 0x20
			case 1:
				if c.rng.Intn(4) == 0 {
					s[i] = 'N'
				}
			}
		}
		return s
	}
	for i := 0; i < c.n(150); i++ {
		n := []int{1, 2, 5, 50, 1000}[c.rng.Intn(5)]
		k := []int{1, 2, 5, 21, 32}[c.rng.Intn(5)]
		ns := 1 + c.rng.Intn(4)
		seqs := make([][]byte, ns)
		for j := range seqs {
			seqs[j] = randDNA(c.rng.Intn(200))
		}
		view := func(ss [][]byte) string { return u64s(mash.Sequences(n, k, ss...).View()) }
		base := view(seqs)
		oracle := ""
		// variants
		rc := make([][]byte, ns)
		lower := make([][]byte, ns)
		perm := make([][]byte, ns)
		for j, p := range c.rng.Perm(ns) {
			perm[j] = seqs[p]
		}
		for j := range seqs {
			rc[j] = seqs[j]
			if c.rng.Intn(2) == 0 {
				rc[j] = sequtil.ReverseComplement(nil, seqs[j])
			}
			lower[j] = bytes.ToLower(seqs[j])
		}
		if view(rc) != base {
			oracle = "reverse-complementing sequences changes the sketch"
		} else if view(lower) != base {
			oracle = "changing letter case changes the sketch"
		} else if view(perm) != base {
			oracle = "reordering sequences changes the sketch"
		}
		cut := c.rng.Intn(ns + 1)
		mh := mash.Sequences(n, k, seqs[:cut]...)
		mash.Add(mh, k, seqs[cut:]...)
		if u64s(mh.View()) != base && oracle == "" {
			oracle = "building incrementally with Add changes the sketch"
		}
		// bottom-n of distinct hashes, independently
		{
			all := mash.Sequences(1<<20, k, seqs...).View() // effectively unbounded: all distinct hashes, descending
			lo := len(all) - n
			if lo < 0 {
				lo = 0
			}
			if u64s(all[lo:]) != base && oracle == "" {
				oracle = "sketch is not the n smallest distinct hashes in descending order"
			}
			n2 := 1 + c.rng.Intn(n)
			small := mash.Sequences(n2, k, seqs...).View()
			full := mash.Sequences(n, k, seqs...).View()
			lo2 := len(full) - n2
			if lo2 < 0 {
				lo2 = 0
			}
			if u64s(small) != u64s(full[lo2:]) && oracle == "" {
				oracle = "a smaller sketch is not the tail of a larger one"
			}
		}
		args := make([]string, ns)
		for j, s := range seqs {
			args[j] = hx(s)
		}
		c.add(Case{Op: fmt.Sprintf("ms.sketch %d %d %s", n, k, strings.Join(args, " ")), Impl: base, Kind: "sketch", Nontrivial: base != "-", Oracle: oracle,
			Note: fmt.Sprintf("mash.Sequences(%d, %d, %d sequences)", n, k, ns)})
		c.add(Case{Op: fmt.Sprintf("ms.add %d %d %d %s", n, k, cut, strings.Join(args, " ")), Impl: u64s(mh.View()), Kind: "add", Nontrivial: base != "-",
			Note: fmt.Sprintf("mash.Add after Sequences, cut %d", cut)})
	}
	// Distance on full sketches with planted overlap
	for i := 0; i < c.n(150); i++ {
		n := []int{1, 2, 5, 50, 300}[c.rng.Intn(5)]
		k := []int{2, 5, 11, 21}[c.rng.Intn(4)]
		shared := randDNA(c.rng.Intn(2000))
		a := append(append(randDNA(400+c.rng.Intn(1500)), shared...), randDNA(100)...)
		b := append(append(randDNA(400+c.rng.Intn(1500)), shared...), randDNA(100)...)
		if c.rng.Intn(8) == 0 {
			b = sequtil.ReverseComplement(nil, a)
		}
		ma, mb := mash.Sequences(n, k, a), mash.Sequences(n, k, b)
		if len(ma.View()) != n || len(mb.View()) != n {
			continue
		}
		d1, d2 := mash.Distance(ma, mb, k), mash.Distance(mb, ma, k)
		// j from the sketches, independently: shared fraction of the n smallest of the union
		set := map[uint64]int{}
		for _, x := range ma.View() {
			set[x] |= 1
		}
		for _, x := range mb.View() {
			set[x] |= 2
		}
		un := make([]uint64, 0, len(set))
		for x := range set {
			un = append(un, x)
		}
		sort.Slice(un, func(i, j int) bool { return un[i] < un[j] })
		inter := 0
		for _, x := range un[:n] {
			if set[x] == 3 {
				inter++
			}
		}
		j := float64(inter) / float64(n)
		want := 1.0
		if j != 0 {
			want = math.Min(1, -math.Log(2*j/(1+j))/float64(k))
		}
		oracle := ""
		if d1 != d2 {
			oracle = "Distance is not symmetric"
		} else if !(d1 >= 0 && d1 <= 1) && !(d1 == 0) {
			oracle = fmt.Sprintf("Distance %v outside [0,1]", d1)
		} else if math.Abs(d1-want) > 1e-12 {
			oracle = fmt.Sprintf("Distance %v, formula gives %v (j=%d/%d)", d1, want, inter, n)
		} else if inter == n && d1 != 0 {
			oracle = "identical k-mer content but non-zero distance"
		}
		c.add(Case{Op: fmt.Sprintf("ms.jac %d %s %s", n, u64s(ma.View()), u64s(mb.View())), Impl: fmt.Sprintf("%d %d", inter, n), Kind: "distance",
			Nontrivial: inter > 0 && inter < n, Oracle: oracle, Note: fmt.Sprintf("mash.Distance of two %d-sketches, k=%d, j=%d/%d", n, k, inter, n)})
	}
	// FromJaccard monotone on a grid, and boundary values
	bad := ""
	for k := 1; k <= 40 && bad == ""; k += 3 {
		prev := mash.FromJaccard(0, k)
		if prev != 1 {
			bad = "FromJaccard(0,k) != 1"
		}
		steps := 2000
		if c.thor {
			steps = 100000
		}
		for i := 1; i <= steps; i++ {
			j := float64(i) / float64(steps)
			d := mash.FromJaccard(j, k)
			if d > prev || d < 0 || d > 1 {
				bad = fmt.Sprintf("FromJaccard(%v,%d)=%v after %v: not non-increasing within [0,1]", j, k, d, prev)
				break
			}
			prev = d
		}
		if mash.FromJaccard(1, k) != 0 {
			bad = "FromJaccard(1,k) != 0"
		}
	}
	c.add(Case{Kind: "fromjaccard-grid", Nontrivial: true, Oracle: bad, Note: "FromJaccard on a grid of j in [0,1] x k"})
}

// ======================= traversal (C19) and iterators (C18) =======================

func idTree(c *Ctx, parents []int) []*newick.Node {
	nodes := make([]*newick.Node, len(parents))
	for i := range nodes {
		nodes[i] = &newick.Node{Name: strconv.Itoa(i)}
		if parents[i] >= 0 {
			nodes[parents[i]].Children = append(nodes[parents[i]].Children, nodes[i])
		}
	}
	return nodes
}

func recPre(n *newick.Node, out *[]string) {
	*out = append(*out, n.Name)
	for _, ch := range n.Children {
		recPre(ch, out)
	}
}
// recPreCapped is recPre that gives up after cap nodes (a damaged tree may contain a cycle).
func recPreCapped(n *newick.Node, out *[]string, cap int) {
	if len(*out) > cap {
		return
	}
	*out = append(*out, n.Name)
	for _, ch := range n.Children {
		recPreCapped(ch, out, cap)
	}
}

func recPost(n *newick.Node, out *[]string) {
	for _, ch := range n.Children {
		recPost(ch, out)
	}
	*out = append(*out, n.Name)
}

func travCase(c *Ctx, root *newick.Node, kind string, withModel bool, stops bool) {
	for _, pre := range []bool{true, false} {
		// the expected order is computed first, on the tree as it was built (a traversal that
		// damages the tree must not be able to damage the expectation, or to send it into a cycle)
		var want []string
		if pre {
			recPre(root, &want)
		} else {
			recPost(root, &want)
		}
		limit := len(want) + 16
		c.begin("traversal (pre=%v) of a %d-node tree (%s): %s", pre, len(want), kind, trunc(treeS(root), 300))
		var got []string
		reuse := ""
		st := safe(func() string {
			it := root.PostOrder()
			if pre {
				it = root.PreOrder()
			}
			for n := range it {
				got = append(got, n.Name)
				if len(got) > limit {
					return "NONTERM"
				}
			}
			// the same iterator value ranged over again, and after an early break, starts afresh
			var again, third []string
			for n := range it {
				again = append(again, n.Name)
				if len(again) == 2 {
					break
				}
			}
			for n := range it {
				third = append(third, n.Name)
				if len(third) > limit {
					return "NONTERM"
				}
			}
			if strings.Join(third, ",") != strings.Join(got, ",") || (len(got) >= 2 && strings.Join(again, ",") != strings.Join(got[:2], ",")) {
				reuse = "ranging again over the same iterator value does not yield every node exactly once"
			}
			// two runs of the same iterator value active at once (a traversal nested in itself), after an earlier complete run
			outer, inner := 0, 0
			if len(want) > 300 {
				return ""
			}
			for range it {
				outer++
				if outer > limit {
					return "NONTERM"
				}
				k := 0
				for range it {
					k++
					if k > limit {
						return "NONTERM"
					}
				}
				inner += k
			}
			if outer != len(got) || inner != len(got)*len(got) {
				reuse = "nested traversals over the same iterator value interfere with each other"
			}
			return ""
		})
		var after []string
		afterOK := safe(func() string { recPreCapped(root, &after, limit); return "" })
		oracle := ""
		if st == "PANIC" {
			oracle = "traversal panicked"
		} else if st == "NONTERM" {
			oracle = "traversal yields more nodes than the tree has (does not terminate)"
		} else if strings.Join(got, ",") != strings.Join(want, ",") {
			oracle = "traversal differs from the recursive pre-/post-order"
		} else if reuse != "" {
			oracle = reuse
		} else if pre && (afterOK == "PANIC" || strings.Join(after, ",") != strings.Join(want, ",")) {
			oracle = "traversal modified the tree"
		}
		nstops := 0
		if stops && oracle == "" {
			for j := 1; j <= len(want)+1; j++ {
				var seen []string
				after := 0
				stopped := false
				it := root.PostOrder()
				if pre {
					it = root.PreOrder()
				}
				s := safe(func() string {
					it(func(n *newick.Node) bool {
						if stopped {
							after++
							return false
						}
						seen = append(seen, n.Name)
						if len(seen) == j {
							stopped = true
							return false
						}
						return true
					})
					return ""
				})
				nstops++
				w := want
				if j < len(w) {
					w = w[:j]
				}
				if s == "PANIC" || after > 0 || strings.Join(seen, ",") != strings.Join(w, ",") {
					oracle = fmt.Sprintf("stopping after %d nodes: panic=%v callbacks-after-stop=%d", j, s == "PANIC", after)
					break
				}
			}
		}
		ord := "post"
		if pre {
			ord = "pre"
		}
		cs := Case{Kind: kind + "-" + ord, Nontrivial: len(want) > 1, Oracle: oracle, Note: fmt.Sprintf("%sOrder of a %d-node tree (%d stopped runs)", ord, len(want), nstops)}
		if withModel {
			hs := make([]string, len(got))
			for i, g := range got {
				hs[i] = hx([]byte(g))
			}
			cs.Op = "tv " + ord + " 0 " + treeOpArgs(root)
			cs.Impl = strings.Join(hs, ",")
			if stops && len(want) > 1 {
				// one stopped run through the model's machine as well
				j := 1 + c.rng.Intn(len(want))
				hs2 := make([]string, j)
				for i := 0; i < j; i++ {
					hs2[i] = hx([]byte(want[i]))
				}
				c.add(Case{Op: fmt.Sprintf("tv %s %d %s", ord, j, treeOpArgs(root)), Impl: strings.Join(hs2, ","), Kind: kind + "-" + ord + "-stop", Nontrivial: true,
					Note: fmt.Sprintf("model machine stopped after %d", j)})
			}
		}
		c.add(cs)
	}
}

func genTrees(c *Ctx, stops bool) {
	maxN := 6
	if c.thor {
		maxN = 8
	}
	for n := 1; n <= maxN; n++ {
		allTrees(n, func(parents []int) {
			travCase(c, idTree(c, parents)[0], fmt.Sprintf("shape-%d", n), true, stops)
		})
	}
	for i := 0; i < c.n(40); i++ {
		n := 2 + c.rng.Intn(300)
		parents := make([]int, n)
		parents[0] = -1
		for j := 1; j < n; j++ {
			if c.rng.Intn(3) == 0 {
				parents[j] = j - 1
			} else {
				parents[j] = c.rng.Intn(j)
			}
		}
		// make it a valid pre-order numbering is not required: ids are just names
		travCase(c, idTree(c, parents)[0], "random", true, stops && n < 60)
	}
	// chains and stars, real code only
	depth := 100000
	if c.thor {
		depth = 1000000
	}
	parents := make([]int, depth)
	parents[0] = -1
	for j := 1; j < depth; j++ {
		parents[j] = j - 1
	}
	chain := idTree(c, parents)[0]
	var got int
	st := safe(func() string {
		last := ""
		for n := range chain.PostOrder() {
			got++
			last = n.Name
		}
		if last != "0" {
			return "post-order of a chain must end at the root"
		}
		first := true
		for n := range chain.PreOrder() {
			if first && n.Name != "0" {
				return "pre-order must start at the root"
			}
			first = false
			got++
		}
		return ""
	})
	if st == "" && got != 2*depth {
		st = fmt.Sprintf("visited %d nodes of a %d-chain (two traversals)", got, depth)
	}
	c.add(Case{Kind: "chain", Nontrivial: true, Oracle: st, Note: fmt.Sprintf("chain of depth %d", depth)})
	for j := 1; j < depth; j++ {
		parents[j] = 0
	}
	star := idTree(c, parents[:20000])[0]
	var w1, w2 []string
	recPre(star, &w1)
	for n := range star.PreOrder() {
		w2 = append(w2, n.Name)
	}
	o := ""
	if strings.Join(w1, ",") != strings.Join(w2, ",") {
		o = "star pre-order differs"
	}
	c.add(Case{Kind: "star", Nontrivial: true, Oracle: o, Note: "star with 19999 children"})
}

func genC19(c *Ctx) { nestedTraversals(c); polytomies(c); wideTrees(c); genTrees(c, false); arenaTrees(c) }

func genC18Iterators(c *Ctx) {
	genTrees(c, true)
	// trie ForEach: stop at every position
	for i := 0; i < c.n(80); i++ {
		al := []byte("abcd")[:2+c.rng.Intn(3)]
		t := trie.New()
		var adds []string
		var stem []byte
		if i%4 == 3 { // long members: a shared stem of 14..140 bytes with short, branching tails (depths past any preallocated stack)
			stem = c.bytesFrom(al, []int{14, 15, 16, 17, 30, 31, 32, 33, 63, 64, 65, 100, 140}[c.rng.Intn(13)])
		}
		for k := 0; k < 1+c.rng.Intn(12); k++ {
			s := c.bytesFrom(al, 1+c.rng.Intn(5))
			if stem != nil && k%3 != 2 {
				s = append(append([]byte(nil), stem[:len(stem)-c.rng.Intn(3)]...), s...)
			}
			t.Add(s)
			adds = append(adds, hx(s))
		}
		full, n := trieMembers(t)
		members := map[string]bool{}
		for _, m := range strings.Split(strings.TrimPrefix(full, "e:"), ",") {
			members[m] = true
		}
		oracle := ""
		for j := 1; j <= n+1 && oracle == ""; j++ {
			seen := map[string]bool{}
			calls, after := 0, 0
			stopped := false
			s := safe(func() string {
				t.ForEach(func(b []byte) bool {
					if stopped {
						after++
						return false
					}
					calls++
					h := hx(b)
					if seen[h] || !members[h] {
						after += 1000
					}
					seen[h] = true
					if calls == j {
						stopped = true
						return false
					}
					return true
				})
				return ""
			})
			if s == "PANIC" || after > 0 || calls != min(j, n) {
				oracle = fmt.Sprintf("ForEach stopped after %d: panic=%v extra/invalid callbacks=%d calls=%d of %d members", j, s == "PANIC", after, calls, n)
			}
		}
		j := c.rng.Intn(n + 2)
		want := n
		if j > 0 && j < n {
			want = j
		}
		c.add(Case{Op: fmt.Sprintf("tr.each %d %s", j, strings.Join(adds, " ")), Impl: strconv.Itoa(want), Kind: "trie-foreach", Nontrivial: n > 1, Oracle: oracle,
			Note: fmt.Sprintf("ForEach on a trie with %d members, every stop position", n)})
	}
	// CanonicalSubsequences: stop at every position
	for i := 0; i < c.n(80); i++ {
		s := c.bytesFrom([]byte(dnaN), c.rng.Intn(40))
		k := 1 + c.rng.Intn(6)
		var full []string
		for x := range sequtil.CanonicalSubsequences(s, k) {
			full = append(full, hx(x))
		}
		oracle := ""
		for j := 1; j <= len(full)+1 && oracle == ""; j++ {
			var seen []string
			after := 0
			stopped := false
			st := safe(func() string {
				sequtil.CanonicalSubsequences(s, k)(func(b []byte) bool {
					if stopped {
						after++
						return false
					}
					seen = append(seen, hx(b))
					if len(seen) == j {
						stopped = true
						return false
					}
					return true
				})
				return ""
			})
			w := full
			if j < len(w) {
				w = w[:j]
			}
			if st == "PANIC" || after > 0 || strings.Join(seen, ",") != strings.Join(w, ",") {
				oracle = fmt.Sprintf("CanonicalSubsequences stopped after %d: panic=%v callbacks-after-stop=%d", j, st == "PANIC", after)
			}
		}
		j := c.rng.Intn(len(full) + 2)
		w := full
		if j > 0 && j < len(w) {
			w = w[:j]
		}
		c.add(Case{Op: fmt.Sprintf("su.canon %d %d %s", k, j, hx(s)), Impl: strings.Join(w, ","), Kind: "canon-stop", Nontrivial: len(full) > 1, Oracle: oracle,
			Note: fmt.Sprintf("CanonicalSubsequences(%q, %d), every stop position", s, k)})
	}
}

// ======================= matrices (C20) =======================

type ncbiTable struct {
	cols []byte
	rows []byte
	vals [][]int // quarter units
}

func (c *Ctx) label() byte {
	for {
		b := byte(c.rng.Intn(256))
		if c.rng.Intn(2) == 0 {
			b = "ACGTNRXZ*#"[c.rng.Intn(10)]
		}
		if b == ' ' || b == '\t' || b == '\n' || b == '\r' || b == '\f' || b == 255 || b >= 0x80 {
			continue
		}
		return b
	}
}

func distinctLabels(c *Ctx, n int) []byte {
	seen := map[byte]bool{}
	var out []byte
	for len(out) < n {
		b := c.label()
		if !seen[b] {
			seen[b] = true
			out = append(out, b)
		}
	}
	return out
}

func (c *Ctx) ncbiTable() ncbiTable {
	t := ncbiTable{cols: distinctLabels(c, 1+c.rng.Intn(6)), rows: distinctLabels(c, 1+c.rng.Intn(6))}
	for range t.rows {
		r := make([]int, len(t.cols))
		for j := range r {
			if c.rng.Intn(8) == 0 {
				r[j] = []int{4*16777217 + 1, -4*33554433 - 2, 4 * 123456789, 99999999999}[c.rng.Intn(4)] // not exact in float32
			} else if c.rng.Intn(3) == 0 {
				r[j] = c.rng.Intn(81) - 40
			} else {
				r[j] = 4 * (c.rng.Intn(31) - 15)
			}
		}
		t.vals = append(t.vals, r)
	}
	return t
}

func quarterText(q int) string { return strconv.FormatFloat(float64(q)/4, 'f', -1, 64) }

func (c *Ctx) ws(nonEmpty bool) string {
	n := c.rng.Intn(3)
	if nonEmpty {
		n++
	}
	return string(c.bytesFrom([]byte(" \t\f\r  "), n))
}

func (c *Ctx) ncbiText(t ncbiTable) []byte {
	var b strings.Builder
	eol := func() string {
		if c.rng.Intn(3) == 0 {
			return "\r\n"
		}
		return "\n"
	}
	junk := func() {
		for c.rng.Intn(3) == 0 {
			if c.rng.Intn(2) == 0 {
				b.WriteString("# comment " + string(c.text(c.rng.Intn(10), "")) + eol())
			} else {
				b.WriteString(eol())
			}
		}
	}
	junk()
	b.WriteString(c.ws(t.cols[0] == '#')) // a line whose first byte is '#' is a comment: a '#' label first on a line is indented
	for i, x := range t.cols {
		if i > 0 {
			b.WriteString(c.ws(true))
		}
		b.WriteByte(x)
	}
	b.WriteString(c.ws(false) + eol())
	for i, r := range t.rows {
		junk()
		b.WriteString(c.ws(r == '#'))
		b.WriteByte(r)
		for _, v := range t.vals[i] {
			b.WriteString(c.ws(true) + quarterText(v))
		}
		b.WriteString(c.ws(false))
		if i < len(t.rows)-1 || c.rng.Intn(3) != 0 {
			b.WriteString(eol())
			if i == len(t.rows)-1 {
				junk()
			}
		}
	}
	return []byte(b.String())
}

// leading whitespace before a label is only unproblematic if the line does not become '#...' (labels never are '#').

func lab(b byte) byte {
	if b == '*' {
		return 255
	}
	return b
}

func matS(m map[[2]byte]int) string {
	keys := make([][2]byte, 0, len(m))
	for k := range m {
		keys = append(keys, k)
	}
	sort.Slice(keys, func(i, j int) bool { return bytes.Compare(keys[i][:], keys[j][:]) < 0 })
	var b strings.Builder
	fmt.Fprintf(&b, "%d", len(keys))
	for _, k := range keys {
		fmt.Fprintf(&b, " %d %d %d", k[0], k[1], m[k])
	}
	return b.String()
}

func quarters(m align.SubstitutionMatrix) (map[[2]byte]int, bool) {
	out := map[[2]byte]int{}
	for k, v := range m {
		q := v * 4
		if q != math.Trunc(q) || math.Abs(q) > 1e15 {
			return nil, false
		}
		out[k] = int(q)
	}
	return out, true
}

func ncbiS(m align.SubstitutionMatrix, err error) string {
	if err != nil {
		return "P"
	}
	q, ok := quarters(m)
	if !ok {
		return "NONQUARTER"
	}
	return matS(q)
}

// normNCBI rewrites score tokens that ParseFloat accepts in a non-canonical
// spelling (or with a value outside the quarter-integer class) to a canonical
// quarter decimal, following the reader's own notion of rows and tokens.
func normNCBI(data []byte) []byte {
	lines := bytes.Split(data, []byte("\n"))
	header := false
	for li, ln := range lines {
		body := ln
		cr := false
		if len(body) > 0 && body[len(body)-1] == '\r' {
			cr = true
			body = body[:len(body)-1]
		}
		if len(body) == 0 || body[0] == '#' {
			continue
		}
		toks := splitSpace(body)
		if !header {
			if len(toks) > 0 {
				header = true
			}
			continue
		}
		changed := false
		var out []byte
		pos := 0
		for ti, t := range toks {
			idx := bytes.Index(body[pos:], t) + pos
			out = append(out, body[pos:idx]...)
			pos = idx + len(t)
			if ti > 0 {
				v, err := strconv.ParseFloat(string(t), 64)
				if ne, ok := err.(*strconv.NumError); ok && ne.Err == strconv.ErrRange {
					t = []byte("RANGE")
					changed = true
				}
				if err == nil {
					q := math.Round(v * 4)
					if math.IsNaN(q) || math.Abs(q) > 1e9 {
						q = 0
					}
					canon := quarterText(int(q))
					if v == 0 && math.Signbit(v) {
						canon = "-0"
					}
					if canon != string(t) {
						t = []byte(canon)
						changed = true
					}
				}
			}
			out = append(out, t...)
		}
		out = append(out, body[pos:]...)
		if changed {
			if cr {
				out = append(out, '\r')
			}
			lines[li] = out
		}
	}
	return bytes.Join(lines, []byte("\n"))
}

func splitSpace(b []byte) [][]byte {
	return bytes.FieldsFunc(b, func(r rune) bool { return r == ' ' || r == '\t' || r == '\n' || r == '\f' || r == '\r' })
}

func genC20(c *Ctx) {
	ncbiNumerals(c)
	ncbiHugeLines(c)
	matrixExtras(c)
	// ReadNCBI on rendered tables
	for i := 0; i < c.n(300); i++ {
		t := c.ncbiTable()
		txt := c.ncbiText(t)
		want := map[[2]byte]int{}
		for ri, r := range t.rows {
			for ci, col := range t.cols {
				want[[2]byte{lab(r), lab(col)}] = t.vals[ri][ci]
			}
		}
		got := safe(func() string { return ncbiS(smtext.ReadNCBI(bytes.NewReader(txt))) })
		oracle := ""
		if got != matS(want) {
			oracle = "ReadNCBI does not recover the table: " + trunc(got, 80)
		}
		c.add(Case{Op: "sm.read " + hx(txt), Impl: got, Kind: "read", Nontrivial: len(t.rows)*len(t.cols) > 1, Oracle: oracle,
			Note: fmt.Sprintf("ReadNCBI(%q)", trunc(string(txt), 300))})
		// single-token corruptions: must be an error, never a partial matrix
		lines := strings.Split(strings.ReplaceAll(string(c.ncbiTextPlain(t)), "\r", ""), "\n")
		for kind := 0; kind < 4; kind++ {
			mod := append([]string(nil), lines...)
			ri := 1 + c.rng.Intn(len(t.rows))
			var toks []string // split exactly as the reader does (RE2 \s: VT is not a space)
			for _, t := range splitSpace([]byte(mod[ri])) {
				toks = append(toks, string(t))
			}
			switch kind {
			case 0:
				toks = append(toks, "1")
			case 1:
				toks = toks[:len(toks)-1]
			case 2:
				toks[1+c.rng.Intn(len(toks)-1)] = []string{"x", "1..2", "--1", "1e", "0x"}[c.rng.Intn(5)]
			case 3:
				toks[0] = toks[0] + "Q"
			}
			mod[ri] = strings.Join(toks, " ")
			if strings.HasPrefix(mod[ri], "#") {
				mod[ri] = " " + mod[ri] // keep the row a data row ('#' in the first column starts a comment)
			}
			txt := []byte(strings.Join(mod, "\n"))
			got := safe(func() string { return ncbiS(smtext.ReadNCBI(bytes.NewReader(txt))) })
			oracle := ""
			if got != "P" {
				oracle = fmt.Sprintf("corrupted table (kind %d) accepted: %s", kind, trunc(got, 80))
			}
			c.add(Case{Op: "sm.read " + hx(txt), Impl: got, Kind: fmt.Sprintf("read-corrupt%d", kind), Nontrivial: true, Oracle: oracle,
				Note: fmt.Sprintf("ReadNCBI(%q)", trunc(string(txt), 300))})
		}
	}
	// genncbi: the command that produced the shipped tables (ReadNCBI, Gap-Gap := 0, %#v, go/format)
	if bin := os.Getenv("VERIF_GENNCBI"); bin != "" {
		for i := 0; i < 4; i++ {
			t := c.ncbiTable()
			txt := c.ncbiText(t)
			want := map[[2]byte]int{}
			for ri, r := range t.rows {
				for ci, col := range t.cols {
					want[[2]byte{lab(r), lab(col)}] = t.vals[ri][ci]
				}
			}
			want[[2]byte{255, 255}] = 0
			cmd := exec.Command(bin, "-v", "TestMatrix")
			cmd.Stdin = bytes.NewReader(txt)
			var out, errb bytes.Buffer
			cmd.Stdout, cmd.Stderr = &out, &errb
			oracle := ""
			if err := cmd.Run(); err != nil {
				oracle = "genncbi failed on a valid table: " + trunc(errb.String(), 120)
			} else if !strings.Contains(out.String(), "TestMatrix = SubstitutionMatrix{") {
				oracle = "genncbi output does not assign the named variable"
			} else {
				oracle = goSourceOracle(out.String(), want)
			}
			c.add(Case{Kind: "genncbi", Nontrivial: true, Oracle: oracle, Note: fmt.Sprintf("genncbi -v TestMatrix on %q", trunc(string(txt), 200))})
		}
	}
	// very long whitespace / comment lines (whatever the amount of whitespace)
	{
		txt := []byte("A" + strings.Repeat(" ", 70000) + "B\n# " + strings.Repeat("x", 70000) + "\nA 1 2\nB 3 4\n")
		got := safe(func() string { return ncbiS(smtext.ReadNCBI(bytes.NewReader(txt))) })
		oracle := ""
		if got != "4 65 65 4 65 66 8 66 65 12 66 66 16" {
			oracle = "ReadNCBI fails on a table with 70000 blanks between labels / a 70000-byte comment: " + trunc(got, 60)
		}
		c.add(Case{Kind: "read-long", Nontrivial: true, Oracle: oracle, Note: "ReadNCBI: header 'A' + 70000 spaces + 'B', 70000-byte comment line, rows 'A 1 2', 'B 3 4'"})
	}
	// Symmetrical and GoString on partial matrices
	for i := 0; i < c.n(400); i++ {
		al := distinctLabels(c, 1+c.rng.Intn(5))
		if c.rng.Intn(3) == 0 {
			al = append(al, 255)
		}
		if c.rng.Intn(4) == 0 {
			al = append(al, byte(0x80+c.rng.Intn(0x7f)), byte(c.rng.Intn(32)), '\'', '\\')
		}
		m := align.SubstitutionMatrix{}
		q := map[[2]byte]int{}
		for _, x := range al {
			for _, y := range al {
				if c.rng.Intn(2) == 0 {
					v := c.rng.Intn(9) - 4
					if c.rng.Intn(4) == 0 {
						v = c.rng.Intn(41) - 20
					} else {
						v *= 4
					}
					if c.rng.Intn(3) != 0 {
						if w, ok := q[[2]byte{y, x}]; ok {
							v = w
						}
					}
					q[[2]byte{x, y}] = v
					m[[2]byte{x, y}] = float64(v) / 4
				}
			}
		}
		before := matS(q)
		var sym align.SubstitutionMatrix
		got := safe(func() string { sym = m.Symmetrical(); sq, _ := quarters(sym); return matS(sq) })
		conflict := false
		want := map[[2]byte]int{}
		for k, v := range q {
			want[k] = v
			want[[2]byte{k[1], k[0]}] = v
			if w, ok := q[[2]byte{k[1], k[0]}]; ok && w != v {
				conflict = true
			}
		}
		oracle := ""
		if conflict != (got == "PANIC") {
			oracle = fmt.Sprintf("Symmetrical panics=%v but mirrored conflict=%v", got == "PANIC", conflict)
		} else if !conflict && got != matS(want) {
			oracle = "Symmetrical result is not exactly the pairs and their mirror images"
		}
		if cur, _ := quarters(m); matS(cur) != before {
			oracle = "Symmetrical modified its receiver"
		}
		if got != "PANIC" && sym != nil {
			// the result is a NEW matrix: editing it must not reach the receiver
			for k := range sym {
				sym[k] = 12345
			}
			sym[[2]byte{1, 2}] = 7
			if cur, _ := quarters(m); matS(cur) != before {
				oracle = "editing the matrix returned by Symmetrical changes the receiver (not a new matrix)"
			}
		}
		c.add(Case{Op: "sm.sym " + before, Impl: strings.Replace(got, "PANIC", "P", 1), Kind: "symmetrical", Nontrivial: len(q) > 1, Oracle: oracle,
			Note: fmt.Sprintf("Symmetrical of %s", before)})
		gs := m.GoString()
		oracle = goStringOracle(gs, q)
		c.add(Case{Op: "sm.gostr " + before, Impl: hx([]byte(gs)), Kind: "gostring", Nontrivial: len(q) > 1, Oracle: oracle,
			Note: fmt.Sprintf("GoString of %s", before)})
	}
}

// ncbiTextPlain: single spaces, LF.
func (c *Ctx) ncbiTextPlain(t ncbiTable) []byte {
	var b strings.Builder
	for i, x := range t.cols {
		if i > 0 || x == '#' {
			b.WriteByte(' ')
		}
		b.WriteByte(x)
	}
	b.WriteByte('\n')
	for i, r := range t.rows {
		if r == '#' {
			b.WriteByte(' ')
		}
		b.WriteByte(r)
		for _, v := range t.vals[i] {
			b.WriteString(" " + quarterText(v))
		}
		b.WriteByte('\n')
	}
	return []byte(b.String())
}
