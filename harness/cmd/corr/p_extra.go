package main

// Generators and oracles added after the second round of seeded changes:
// record/line starts swept across bufio's 4096-byte boundary, aliasing of
// returned and received memory, state carried across calls, keyword-like
// field values, interleaved readers, and a few long inputs.

import (
	"runtime/debug"
	"bytes"
	"fmt"
	"io"
	"iter"
	"math"
	"os"
	"sort"
	"strings"

	"github.com/fluhus/biostuff/align"
	"github.com/fluhus/biostuff/formats/bed"
	"github.com/fluhus/biostuff/formats/fasta"
	"github.com/fluhus/biostuff/formats/fastq"
	"github.com/fluhus/biostuff/formats/newick"
	"github.com/fluhus/biostuff/formats/sam"
	"github.com/fluhus/biostuff/formats/smtext"
	"github.com/fluhus/biostuff/mash"
	"github.com/fluhus/biostuff/sequtil"
	"github.com/fluhus/biostuff/trie"
)

// keywords are field values that look like format syntax.
var keywords = []string{"track", "browser", "tracker_7", "browser position", "@HD", "@", "=", "*", "+", "-", ".", "#x", "NaN", "Inf", "nan", "0x10", "1e5", "%d", "%!s", "''", "'", "\"\"", "N", "n"}

func (c *Ctx) keyword() string { return keywords[c.rng.Intn(len(keywords))] }

// boundaryInputs: well-formed inputs in which the start of a later record (or
// line, or quoted name) falls on every offset from 4090 to 4102 (and around
// 8192): the first record is padded to the required length.
func (c *Ctx) boundaryInputs(name string) [][]byte {
	var out [][]byte
	pad := func(n int) string {
		if n < 0 {
			n = 0
		}
		return string(c.bytesFrom([]byte("ACGTacgtNn"), n))
	}
	for _, base := range []int{4096, 8192} {
		for off := base - 6; off <= base+6; off++ {
			switch name {
			case "fasta":
				// record 1 occupies exactly `off` bytes as written by the writer (80-column lines)
				// text = 1 + len(name) + 1 + L + ceil(L/80); choose name "a" and solve for L, adjusting the name length
				for nl := 1; nl <= 3; nl++ {
					L := off - (2 + nl)
					L = L - (L+80)/81 // first guess
					for L > 0 && 2+nl+L+(L+79)/80 > off {
						L--
					}
					for 2+nl+L+(L+79)/80 < off {
						L++
					}
					if 2+nl+L+(L+79)/80 != off {
						continue
					}
					rs := []*fasta.Fasta{{Name: []byte(pad(nl)), Sequence: []byte(pad(L))}, {Name: []byte("second"), Sequence: []byte("ACGT")}, {Name: []byte("third"), Sequence: []byte(pad(100))}}
					out = append(out, fastaWrite(rs))
					break
				}
			case "fastq":
				L := (off - 7 - 2) / 2 // "@r\n" seq "\n+\n" quals "\n" = 3+L+1+2+L+1
				name1 := "r" + pad(off-(7+2*L)-1)
				rs := []*fastq.Fastq{{Name: []byte(name1), Sequence: []byte(pad(L)), Quals: []byte(strings.Repeat("I", L))},
					{Name: []byte("second"), Sequence: []byte("ACGT"), Quals: []byte("IIII")}, {Name: []byte("third"), Sequence: []byte("A"), Quals: []byte("+")}}
				out = append(out, fastqWrite(rs))
			case "sam", "samh":
				head := "q1\t0\tr\t1\t2\t*\t=\t3\t4\t"
				n := off - len(head) - 2
				l1 := head + pad(n/2) + "\t" + pad(n-n/2) + "\n"
				out = append(out, []byte(l1+"q2\t0\tr\t1\t2\t*\t=\t3\t4\tAC\tII\tXA:Z:x\nq3\t16\tr\t5\t6\t*\t=\t7\t8\tG\tI\n"))
				// and a long header followed by records
				out = append(out, []byte("@CO\t"+pad(off-5)+"\nq2\t0\tr\t1\t2\t*\t=\t3\t4\tAC\tII\nq3\t16\tr\t5\t6\t*\t=\t7\t8\tG\tI\n"))
			case "bed":
				head := "chr1\t100\t200\t"
				out = append(out, []byte(head+pad(off-len(head)-1)+"\nchr2\t1\t2\tb\nchr3\t3\t4\tc\n"))
				// line of exactly `off` bytes without its newline
				out = append(out, []byte(head+pad(off-len(head))+"\nchr2\t1\t2\tb\n"))
			case "newick":
				// a quoted name with doubled quotes placed so that the quote bytes straddle the offset
				fill := pad(off - 4)
				out = append(out, []byte("("+fill+",'it''s':1.5,b)c;(d,'e''''f')g;"))
				out = append(out, []byte("('"+pad(off-5)+"''x',y)z;\n(p,q)r;"))
			}
		}
	}
	return out
}

// aliasCases: records whose fields are adjacent sub-slices of ONE buffer with
// spare capacity; Write/MarshalText must not modify them and must round-trip.
func aliasCases(c *Ctx, what string) {
	for i := 0; i < c.n(40); i++ {
		nl, sl := 1+c.rng.Intn(6), 1+c.rng.Intn(200)
		buf := make([]byte, nl+2*sl, nl+2*sl+64)
		copy(buf, c.text(nl+2*sl, ">@+"))
		before := append([]byte(nil), buf[:cap(buf)]...)
		oracle := ""
		var text []byte
		switch what {
		case "fasta":
			r := &fasta.Fasta{Name: buf[:nl], Sequence: buf[nl : nl+sl]}
			want := faS(&fasta.Fasta{Name: append([]byte(nil), buf[:nl]...), Sequence: append([]byte(nil), buf[nl:nl+sl]...)})
			var b bytes.Buffer
			r.Write(&b)
			text = b.Bytes()
			if !bytes.Equal(buf[:cap(buf)], before) {
				oracle = "Write modified the record's (or neighbouring) memory"
			} else if got := itemsStr(decFasta(bytes.NewReader(text), 0, 10)); got != want {
				oracle = "record with name and sequence carved from one buffer does not round-trip"
			}
		case "fastq":
			r := &fastq.Fastq{Name: buf[:nl], Sequence: buf[nl : nl+sl], Quals: buf[nl+sl : nl+2*sl]}
			want := fqS(&fastq.Fastq{Name: append([]byte(nil), r.Name...), Sequence: append([]byte(nil), r.Sequence...), Quals: append([]byte(nil), r.Quals...)})
			var b bytes.Buffer
			r.Write(&b)
			text = b.Bytes()
			if !bytes.Equal(buf[:cap(buf)], before) {
				oracle = "Write modified the record's (or neighbouring) memory"
			} else if got := itemsStr(decFastq(bytes.NewReader(text), 0, 10)); got != want {
				oracle = "record with fields carved from one buffer does not round-trip"
			}
		}
		c.add(Case{Kind: "alias-fields", Nontrivial: true, Oracle: oracle, Note: fmt.Sprintf("%s record whose fields are adjacent sub-slices of one buffer (name %d, seq %d bytes, spare capacity 64)", what, nl, sl)})
	}
}

// retainedMarshal: MarshalText results kept while further records are
// marshalled must stay what they were (and equal Write's bytes).
func retainedMarshal(c *Ctx, what string, marshal func(i int) ([]byte, []byte)) {
	for round := 0; round < c.n(6); round++ {
		n := 3 + c.rng.Intn(4)
		var kept, copies, writes [][]byte
		for i := 0; i < n; i++ {
			mt, wr := marshal(i)
			kept = append(kept, mt)
			copies = append(copies, append([]byte(nil), mt...))
			writes = append(writes, wr)
		}
		oracle := ""
		for i := range kept {
			if !bytes.Equal(kept[i], copies[i]) {
				oracle = fmt.Sprintf("the bytes returned by MarshalText for record %d changed after later records were marshalled", i)
				break
			}
			if !bytes.Equal(kept[i], writes[i]) {
				oracle = "MarshalText and Write produce different bytes"
			}
		}
		c.add(Case{Kind: "retained-marshal", Nontrivial: true, Oracle: oracle, Note: fmt.Sprintf("%s: %d records marshalled one after another, results kept and compared afterwards", what, n)})
	}
}

// interleaved: two readers of the same format consumed in lockstep (after a
// third one has run to completion) must each deliver what they deliver alone.
func interleaved(c *Ctx, only string) {
	type pull func() (string, bool)
	mk := func(f *format, data []byte) (pull, func()) {
		var next func() (string, error, bool)
		var stop func()
		switch f.name {
		case "fasta":
			n, s := iter.Pull2(fasta.Reader(bytes.NewReader(data)))
			next = func() (string, error, bool) {
				v, e, ok := n()
				if !ok || e != nil {
					return "", e, ok
				}
				return faS(v), nil, ok
			}
			stop = s
		case "fastq":
			n, s := iter.Pull2(fastq.Reader(bytes.NewReader(data)))
			next = func() (string, error, bool) {
				v, e, ok := n()
				if !ok || e != nil {
					return "", e, ok
				}
				return fqS(v), nil, ok
			}
			stop = s
		case "sam":
			n, s := iter.Pull2(sam.Reader(bytes.NewReader(data)))
			next = func() (string, error, bool) {
				v, e, ok := n()
				if !ok || e != nil {
					return "", e, ok
				}
				return samS(v), nil, ok
			}
			stop = s
		case "bed":
			n, s := iter.Pull2(bed.Reader(bytes.NewReader(data)))
			next = func() (string, error, bool) {
				v, e, ok := n()
				if !ok || e != nil {
					return "", e, ok
				}
				return bedS(v), nil, ok
			}
			stop = s
		case "newick":
			n, s := iter.Pull2(newick.Reader(bytes.NewReader(data)))
			next = func() (string, error, bool) {
				v, e, ok := n()
				if !ok || e != nil {
					return "", e, ok
				}
				return treeS(v), nil, ok
			}
			stop = s
		default:
			return nil, nil
		}
		return func() (string, bool) {
			s, e, ok := next()
			if !ok {
				return "", false
			}
			if e != nil {
				return "E", true
			}
			return s, true
		}, stop
	}
	for _, f := range formats {
		if f.name == "samh" || (only != "" && f.name != only) {
			continue
		}
		for i := 0; i < c.n(8); i++ {
			// several kilobytes each, so that buffers are refilled while the other reader runs
			var a, b []byte
			for len(a) < 9000 {
				a = append(a, f.wellFormed(c)...)
			}
			for len(b) < 9000 {
				b = append(b, f.wellFormed(c)...)
			}
			wa, sa := f.decode(bytes.NewReader(a), 0, len(a)+16)
			wb, sb := f.decode(bytes.NewReader(b), 0, len(b)+16) // also: a reader run to completion beforehand
			pa, stopA := mk(f, a)
			pb, stopB := mk(f, b)
			var ga, gb []string
			oracle := safe(func() string {
				for doneA, doneB := false, false; !doneA || !doneB; {
					if !doneA {
						if s, ok := pa(); ok {
							ga = append(ga, s)
						} else {
							doneA = true
						}
					}
					if !doneB {
						if s, ok := pb(); ok {
							gb = append(gb, s)
						} else {
							doneB = true
						}
					}
					if len(ga)+len(gb) > len(a)+len(b)+32 {
						return "interleaved readers do not terminate"
					}
				}
				return ""
			})
			stopA()
			stopB()
			if oracle == "" && (sa != "" || sb != "" || joinItems(ga) != joinItems(wa) || joinItems(gb) != joinItems(wb)) {
				oracle = "two readers consumed in lockstep deliver different items than each one alone"
			}
			c.add(Case{Kind: f.name + "-interleaved", Nontrivial: true, Oracle: oracle, Note: fmt.Sprintf("two %s readers (%d and %d bytes) consumed alternately", f.name, len(a), len(b))})
		}
	}
}

// gzipLookalike: File on a plain-named file whose CONTENT is gzip data, and on a
// doubly compressed *.gz, must equal Reader on the bytes as delivered after one
// layer of suffix-driven decompression.
func gzipLookalike(c *Ctx) {
	for _, f := range formats {
		data := f.wellFormed(c)
		var gz bytes.Buffer
		{
			p := writeTemp("tmp-inner.gz", data, true)
			b, _ := os.ReadFile(p)
			gz.Write(b)
			os.Remove(p)
		}
		plain := writeTemp("c06-lookalike-"+f.name+".txt", gz.Bytes(), false)
		want := itemsStr(f.decode(bytes.NewReader(gz.Bytes()), 0, gz.Len()+16))
		got := itemsStr(f.file(plain, 0, gz.Len()+16))
		os.Remove(plain)
		oracle := ""
		if got != want {
			oracle = "File on a plain-named file holding gzip bytes differs from Reader on those bytes: " + trunc(got, 80) + " vs " + trunc(want, 80)
		}
		double := writeTemp("c06-double-"+f.name+".txt.gz", gz.Bytes(), true)
		got2 := itemsStr(f.file(double, 0, gz.Len()+16))
		os.Remove(double)
		if got2 != want && oracle == "" {
			oracle = "File on a doubly compressed .gz differs from Reader on the singly decompressed bytes"
		}
		c.add(Case{Kind: f.name + "-gzip-lookalike", Nontrivial: true, Oracle: oracle, Note: f.name + ".File on content that starts with the gzip magic"})
	}
}

// ---------- alignment extras ----------

func alignExtras(c *Ctx, prop string) {
	// (1) a and b carved from one buffer with spare capacity; inputs must stay untouched
	for i := 0; i < c.n(60); i++ {
		al := []byte("ab")
		mt := c.randMatrix(al, c.rng.Intn(2) == 0, true, []int{0, -2}[c.rng.Intn(2)])
		if prop == "C09" {
			mt = c.randMatrix(al, c.rng.Intn(2) == 0, true, 0)
		}
		la, lb := 1+c.rng.Intn(8), 1+c.rng.Intn(8)
		gap := c.rng.Intn(3)
		buf := make([]byte, la+gap+lb, la+gap+lb+32)
		copy(buf, c.bytesFrom(al, la+gap+lb))
		a, b := buf[:la], buf[la+gap:la+gap+lb]
		a0, b0 := append([]byte(nil), a...), append([]byte(nil), b...)
		before := append([]byte(nil), buf...)
		var st []align.Step
		var sc float64
		res := safe(func() string { st, sc = align.Global(a, b, mt.m); return "" })
		oracle := ""
		if res == "PANIC" {
			oracle = "Global panicked"
		} else if !bytes.Equal(buf, before) {
			oracle = "Global modified its input sequences (shared buffer)"
		} else if rs, ai, bi, ok := rescore(mt.m, a0, b0, st); !ok || ai != len(a0) || bi != len(b0) || rs != sc {
			oracle = "Global on sequences carved from one buffer: steps do not re-score to the returned score"
		}
		c.add(Case{Op: "al.global " + matArgs(mt.m) + " " + hx(a0) + " " + hx(b0), Impl: fmt.Sprintf("%s %d", stepsS(st), int64(sc)), Kind: "shared-buffer",
			Nontrivial: true, Oracle: oracle, Note: fmt.Sprintf("align.Global a=%q b=%q windows of one buffer, %s", a0, b0, mt.desc)})
	}
	// (2) the same matrix object edited in place between calls
	for i := 0; i < c.n(40); i++ {
		al := []byte("abc")
		mt := c.randMatrix(al, true, true, 0)
		if prop == "C08" {
			mt = c.randMatrix(al, false, true, -1)
		}
		a, b := c.bytesFrom(al, 2+c.rng.Intn(10)), c.bytesFrom(al, 2+c.rng.Intn(10))
		if i%4 == 3 { // tables of several thousand cells too: what a call keeps for the next may depend on the size
			a, b = c.bytesFrom(al, 70+c.rng.Intn(40)), c.bytesFrom(al, 70+c.rng.Intn(40))
			if i%8 == 7 { // and beyond 2^14 cells
				a, b = c.bytesFrom(al, 130+c.rng.Intn(30)), c.bytesFrom(al, 130+c.rng.Intn(30))
			}
		}
		align.Global(a, b, mt.m)
		align.Local(a, b, mt.m)
		// retune values of existing keys in place
		for k := range mt.m {
			if c.rng.Intn(2) == 0 && k != [2]byte{align.Gap, align.Gap} {
				if k[0] == align.Gap || k[1] == align.Gap {
					mt.m[k] = -float64(c.rng.Intn(5))
				} else {
					mt.m[k] = float64(c.rng.Intn(11) - 5)
				}
			}
		}
		if prop == "C08" {
			mt.m[[2]byte{align.Gap, align.Gap}] = -float64(c.rng.Intn(4))
		}
		mt.open = int(mt.m[[2]byte{align.Gap, align.Gap}])
		mt.desc = "matrix object re-used after in-place edits of its values"
		alignCase(c, prop, mt, a, b, "retuned")
	}
	// (2b) matrices that are not square: the second sequence has letters (N, X) that have a column but no row
	for i := 0; i < c.n(24); i++ {
		rows := []byte("ACGT")[:2+c.rng.Intn(3)]
		cols := append(append([]byte(nil), rows...), []byte("NX")[:1+c.rng.Intn(2)]...)
		if i%3 == 2 { // the extra letters sort BEFORE the row letters
			cols = append([]byte("*-")[:1+c.rng.Intn(2)], rows...)
		}
		m := align.SubstitutionMatrix{}
		for _, x := range rows {
			for _, y := range cols {
				m[[2]byte{x, y}] = float64(c.rng.Intn(9) - 4)
				if x == y {
					m[[2]byte{x, y}] = float64(1 + c.rng.Intn(5))
				}
			}
			m[[2]byte{x, align.Gap}] = -float64(c.rng.Intn(4))
		}
		for _, y := range cols {
			m[[2]byte{align.Gap, y}] = -float64(c.rng.Intn(4))
		}
		open := 0
		if prop == "C08" {
			open = -c.rng.Intn(3)
		}
		m[[2]byte{align.Gap, align.Gap}] = float64(open)
		la, lb := 3+c.rng.Intn(12), 3+c.rng.Intn(12)
		if i%2 == 1 {
			la, lb = 40+c.rng.Intn(50), 40+c.rng.Intn(50)
		}
		mt := imat{m, cols, open, fmt.Sprintf("rows over %q, columns over %q", rows, cols)}
		alignCase(c, prop, mt, c.bytesFrom(rows, la), c.bytesFrom(cols, lb), "non-square")
	}
	// (2c) C09: gap scores that are POSITIVE for some letters (gap-open stays zero): the edges of the table then
	// carry running sums that matter, for Local too
	if prop == "C09" {
		for i := 0; i < c.n(30); i++ {
			al := []byte("acgn")[:2+c.rng.Intn(3)]
			mt := c.randMatrix(al, c.rng.Intn(2) == 0, true, 0)
			for _, x := range al {
				if c.rng.Intn(2) == 0 {
					mt.m[[2]byte{x, align.Gap}] = float64(c.rng.Intn(3))
				}
				if c.rng.Intn(2) == 0 {
					mt.m[[2]byte{align.Gap, x}] = float64(c.rng.Intn(3))
				}
			}
			mt.desc = "random matrix with some positive gap scores, gap-open 0"
			alignCase(c, prop, mt, c.bytesFrom(al, c.rng.Intn(9)), c.bytesFrom(al, c.rng.Intn(9)), "positive-gaps")
		}
	}
	// (3) large integer scores (exact in float64, not in float32)
	for i := 0; i < c.n(40); i++ {
		al := []byte("ab")
		mt := c.randMatrix(al, true, true, 0)
		if prop == "C08" {
			mt = c.randMatrix(al, false, true, -3)
		}
		scale := float64(int64(1)<<24 + int64(c.rng.Intn(1000)))
		for k, v := range mt.m {
			mt.m[k] = v*scale + float64(c.rng.Intn(3))*math.Copysign(1, v)
			if k == [2]byte{align.Gap, align.Gap} && prop != "C08" {
				mt.m[k] = 0
			}
			if (k[0] == align.Gap || k[1] == align.Gap) && mt.m[k] > 0 {
				mt.m[k] = -mt.m[k]
			}
		}
		mt.open = int(mt.m[[2]byte{align.Gap, align.Gap}])
		mt.desc = "integer scores of magnitude 2^24..2^27"
		alignCase(c, prop, mt, c.bytesFrom(al, 1+c.rng.Intn(12)), c.bytesFrom(al, 1+c.rng.Intn(12)), "bigscores")
	}
	if prop != "C09" {
		return
	}
	// (4) long inputs whose optimal alignment leaves the diagonal by 300 (oracle only)
	{
		pre, core, suf := c.bytesFrom([]byte("ACGT"), 300), c.bytesFrom([]byte("ACGT"), 700), c.bytesFrom([]byte("ACGT"), 300)
		a := append(append([]byte(nil), pre...), core...)
		b := append(append([]byte(nil), core...), suf...)
		_, sc := align.Global(a, b, align.Levenshtein)
		oracle := ""
		if int(sc) != -editDistance(a, b) {
			oracle = fmt.Sprintf("Levenshtein Global score %v, edit distance %d (inputs shifted by 300 against each other)", sc, editDistance(a, b))
		}
		c.add(Case{Kind: "long-shifted", Nontrivial: true, Oracle: oracle, Note: "align.Global of prefix(300)+core(700) vs core(700)+suffix(300), Levenshtein"})
		pa, pb := c.bytesFrom([]byte(protAlpha), 1000), c.bytesFrom([]byte(protAlpha), 1000)
		copy(pb[400:], pa[100:400])
		_, sg := align.Global(pa, pb, align.BLOSUM62)
		if opt := gotoh(align.BLOSUM62, pa, pb, false); sg != opt {
			c.add(Case{Kind: "long-shifted", Nontrivial: true, Oracle: fmt.Sprintf("BLOSUM62 Global on 1000-residue proteins returns %v, optimum %v", sg, opt), Note: "align.Global long proteins"})
		}
	}
	// (5) two large Local calls in one process (tables of more than 2^20 cells), oracle only
	// The library calls run back to back with the garbage collector held off, so that whatever the first call left
	// behind (a pooled table, a cached profile) is still there for the second; the reference runs afterwards.
	{
		var pas, pbs [2][]byte
		var sls [2]float64
		for round := 0; round < 2; round++ {
			pas[round], pbs[round] = c.bytesFrom([]byte(protAlpha), 1040), c.bytesFrom([]byte(protAlpha), 1040)
			if round == 0 {
				copy(pbs[round][300:], pas[round][200:900]) // a long high-scoring local alignment first
			}
		}
		oldGC := debug.SetGCPercent(-1)
		for round := 0; round < 2; round++ {
			_, _, _, sls[round] = align.Local(pas[round], pbs[round], align.BLOSUM62)
		}
		debug.SetGCPercent(oldGC)
		for round := 0; round < 2; round++ {
			oracle := ""
			if opt := gotoh(align.BLOSUM62, pas[round], pbs[round], true); sls[round] != opt {
				oracle = fmt.Sprintf("Local on 1040x1040 (call %d in this process) returns %v, optimum %v", round+1, sls[round], opt)
			}
			c.add(Case{Kind: "large-local", Nontrivial: true, Oracle: oracle, Note: fmt.Sprintf("align.Local BLOSUM62 1040x1040, call %d", round+1)})
		}
	}
}

// ---------- sequtil extras ----------

func sequtilExtras12(c *Ctx) {
	// one buffer re-used for consecutive calls with different contents
	buf := make([]byte, 24)
	for i := 0; i < c.n(60); i++ {
		copy(buf, c.bytesFrom([]byte("ACGT"), len(buf)))
		k := 1 + c.rng.Intn(7)
		var got []string
		for x := range sequtil.CanonicalSubsequences(buf, k) {
			got = append(got, hx(x))
		}
		cp := append([]byte(nil), buf...)
		var want []string // reference computed without the library (no call in between that could evict cached state)
		for p := 0; p+k <= len(cp); p++ {
			w := cp[p : p+k]
			rc := make([]byte, k)
			for q := range w {
				rc[k-1-q] = stdComp(w[q])
			}
			if bytes.Compare(rc, w) < 0 {
				w = rc
			}
			want = append(want, hx(w))
		}
		oracle := ""
		if strings.Join(got, ",") != strings.Join(want, ",") {
			oracle = "CanonicalSubsequences on a re-used buffer differs from the same content in a fresh slice"
		}
		c.add(Case{Op: fmt.Sprintf("su.canon %d 0 %s", k, hx(cp)), Impl: strings.Join(got, ","), Kind: "canon-reused-buffer", Nontrivial: true, Oracle: oracle,
			Note: fmt.Sprintf("CanonicalSubsequences(%q, %d) on a buffer re-used across calls", cp, k)})
	}
	// long runs of N with mixed case
	for i := 0; i < c.n(40); i++ {
		n := 20 + c.rng.Intn(60)
		s := c.bytesFrom([]byte("Nn"), n)
		if i%2 == 0 {
			s = append(bytes.Repeat([]byte("N"), n/2), bytes.Repeat([]byte("n"), n-n/2)...)
		}
		s = append(append(c.bytesFrom([]byte("ACgt"), c.rng.Intn(4)), s...), c.bytesFrom([]byte("ACgt"), c.rng.Intn(4))...)
		got := safe(func() string { return hx(sequtil.ReverseComplement(nil, s)) })
		want := make([]byte, 0, len(s))
		for j := len(s) - 1; j >= 0; j-- {
			want = append(want, stdComp(s[j]))
		}
		oracle := ""
		if got != hx(want) {
			oracle = "reverse complement of a long mixed-case N run is wrong"
		} else if sequtil.ReverseComplementString(string(s)) != string(want) {
			oracle = "ReverseComplementString disagrees on a long N run"
		}
		c.add(Case{Op: "su.rc - " + hx(s), Impl: got, Kind: "rc-nrun", Nontrivial: true, Oracle: oracle, Note: fmt.Sprintf("ReverseComplement(%q)", s)})
	}
}

func sequtilExtras13(c *Ctx) {
	// a foreign byte at every position of an 8- or 9-byte string
	for _, b := range []int{0xC1, 0xE1, 0xC3, 0xE3, 0xC7, 0xE7, 0xD4, 0xF4, 'N', 'n', 0, 0x80, 'U', ' '} {
		for pos := 0; pos < 9; pos++ {
			s := []byte("ACGTacgtA")
			s[pos] = byte(b)
			got := safe(func() string { return hx(sequtil.DNATo2Bit(nil, s)) })
			oracle := ""
			if got != "PANIC" {
				oracle = fmt.Sprintf("DNATo2Bit accepts byte 0x%02x at position %d", b, pos)
			}
			c.add(Case{Op: "su.to2bit - " + hx(s), Impl: "P", Kind: "to2bit-bad-pos", Nontrivial: true, Oracle: oracle, Note: fmt.Sprintf("DNATo2Bit(%q)", s)})
		}
	}
	// dst with NON-ZERO spare capacity smaller and larger than the output
	for i := 0; i < c.n(200); i++ {
		s := c.bytesFrom([]byte("aAcCgGtT"), 1+c.rng.Intn(60))
		dl := c.rng.Intn(5)
		spare := c.rng.Intn(20)
		arena := bytes.Repeat([]byte{0xff}, dl+spare)
		for j := range arena {
			arena[j] = byte(0x80 + c.rng.Intn(0x7f))
		}
		dst := arena[:dl:dl+spare]
		d0 := append([]byte(nil), dst...)
		out := sequtil.DNATo2Bit(dst, s)
		want := sequtil.DNATo2Bit(append([]byte(nil), d0...), s)
		oracle := ""
		if !bytes.Equal(out, want) {
			oracle = fmt.Sprintf("DNATo2Bit with %d bytes of stale spare capacity in dst differs from a fresh dst", spare)
		}
		c.add(Case{Op: "su.to2bit " + hx(d0) + " " + hx(s), Impl: hx(out), Kind: "to2bit-stale-cap", Nontrivial: true, Oracle: oracle,
			Note: fmt.Sprintf("DNATo2Bit(dst len %d cap %d with stale bytes, %q)", dl, dl+spare, s)})
	}
	// returned slices are the caller's: scribbling on them must not change later decodes
	for b := 0; b < 256; b++ {
		r := sequtil.DNAFrom2Bit(nil, []byte{byte(b)})
		for j := range r {
			r[j] = 'x'
		}
		r = sequtil.DNAFrom2Bit(r[:0], []byte{byte(255 - b)})
		_ = r
	}
	bad := ""
	for b := 0; b < 256 && bad == ""; b++ {
		got := sequtil.DNAFrom2Bit(nil, []byte{byte(b), byte(b)})
		want := []byte{"ACGT"[b>>6&3], "ACGT"[b>>4&3], "ACGT"[b>>2&3], "ACGT"[b&3]}
		if !bytes.Equal(got, append(append([]byte(nil), want...), want...)) {
			bad = fmt.Sprintf("after earlier results were overwritten by the caller, DNAFrom2Bit([%d %d]) = %q", b, b, got)
		}
	}
	c.add(Case{Kind: "from2bit-after-scribble", Nontrivial: true, Oracle: bad, Note: "DNAFrom2Bit after the caller modified / recycled earlier results"})
}

func sequtilExtras14(c *Ctx) {
	// long translations around multiples of 4096 codons
	for _, codons := range []int{4095, 4096, 4097, 8192} {
		s := c.bytesFrom([]byte("ACGT"), codons*3)
		got := sequtil.Translate(nil, s)
		oracle := ""
		if len(got) != codons {
			oracle = fmt.Sprintf("Translate of %d codons returns %d letters", codons, len(got))
		} else {
			for i := 0; i < codons; i += 257 {
				if got[i] != stdAmino(s[3*i:3*i+3]) {
					oracle = fmt.Sprintf("letter %d of a %d-codon translation is wrong", i, codons)
				}
			}
		}
		fr := sequtil.TranslateReadingFrames(s[:len(s)-1])
		if len(fr[0]) != (len(s)-1)/3 || len(fr[1]) != (len(s)-2)/3 || len(fr[2]) != (len(s)-3)/3 {
			oracle = fmt.Sprintf("reading frames of a %d-base sequence have lengths %d %d %d", len(s)-1, len(fr[0]), len(fr[1]), len(fr[2]))
		}
		c.add(Case{Kind: "translate-long", Nontrivial: true, Oracle: oracle, Note: fmt.Sprintf("Translate / TranslateReadingFrames on %d codons", codons)})
	}
	// frames are independent results: appending to one must not change another
	for i := 0; i < c.n(60); i++ {
		s := c.bytesFrom([]byte("ACGT"), 4+c.rng.Intn(30))
		fr := sequtil.TranslateReadingFrames(s)
		c0, c1, c2 := string(fr[0]), string(fr[1]), string(fr[2])
		_ = append(fr[0], 'X', 'Y', 'Z')
		_ = append(fr[1], 'X', 'Y', 'Z')
		oracle := ""
		if string(fr[0]) != c0 || string(fr[1]) != c1 || string(fr[2]) != c2 {
			oracle = "appending to one reading frame's result changes another frame"
		}
		c.add(Case{Kind: "frames-independent", Nontrivial: true, Oracle: oracle, Note: fmt.Sprintf("TranslateReadingFrames(%q) then append to frames 0 and 1", s)})
	}
	// two foreign bytes in one codon
	for i := 0; i < c.n(100); i++ {
		s := c.bytesFrom([]byte("ACGT"), 3*(1+c.rng.Intn(5)))
		p := 3 * c.rng.Intn(len(s)/3)
		idx := c.rng.Perm(3)
		s[p+idx[0]] = "NnXU-\x00\xff"[c.rng.Intn(7)]
		s[p+idx[1]] = "NnXU-\x00\xff"[c.rng.Intn(7)]
		got := safe(func() string { return hx(sequtil.Translate(nil, s)) })
		oracle := ""
		if got != "PANIC" {
			oracle = "Translate accepts a codon with two non-ACGT bytes"
		}
		c.add(Case{Op: "su.translate - " + hx(s), Impl: "P", Kind: "translate-two-bad", Nontrivial: true, Oracle: oracle, Note: fmt.Sprintf("Translate(nil, %q)", s)})
	}
}

// ---------- trie extras ----------

func trieExtras(c *Ctx) {
	// long members (ForEach's stack grows), wide nodes (all 256 keys), JSON rebuild then continued history
	for i := 0; i < c.n(20); i++ {
		var ops []string
		var probes []string
		for k := 0; k < 6; k++ {
			s := c.bytesFrom([]byte("ACGT"), []int{7, 8, 9, 31, 32, 33, 40, 64, 65, 130}[c.rng.Intn(10)])
			probes = append(probes, string(s), string(s[:len(s)/2]))
			ops = append(ops, "a"+hx(s))
			if k%3 == 2 {
				ops = append(ops, "e", "d"+hx(s[:len(s)-c.rng.Intn(3)]), "e")
			}
		}
		ops = append(ops, "e", "j")
		runTrieHistory(c, ops, probes, "long-members")
	}
	for i := 0; i < c.n(6); i++ {
		var ops []string
		var probes []string
		prefix := c.bytesFrom([]byte("AB"), c.rng.Intn(3))
		for b := 0; b < 256; b++ {
			if c.rng.Intn(8) == 0 && b != 255 && b != 0 {
				continue
			}
			s := append(append([]byte(nil), prefix...), byte(b), "CG"[c.rng.Intn(2)])
			ops = append(ops, "a"+hx(s))
			probes = append(probes, string(s))
		}
		ops = append(ops, "e", "j", "d"+hx(append(append([]byte(nil), prefix...), 255)), "e")
		runTrieHistory(c, ops, probes, "wide-node")
	}
	// rebuilt-from-JSON tries must behave like the original under FURTHER updates
	for i := 0; i < c.n(60); i++ {
		al := []byte("ACGT")[:2+c.rng.Intn(3)]
		t := trie.New()
		ref := refSet{}
		for k := 0; k < 2+c.rng.Intn(6); k++ {
			s := string(c.bytesFrom(al, 1+c.rng.Intn(4)))
			t.Add([]byte(s))
			ref.add(s)
		}
		js, _ := t.MarshalJSON()
		t2, t3 := trie.New(), trie.New()
		oracle := ""
		if err := t2.UnmarshalJSON(js); err != nil {
			oracle = "UnmarshalJSON failed"
		}
		t3.UnmarshalJSON(js)
		ref2 := refSet{}
		for k := range ref {
			ref2[k] = true
		}
		for k := 0; k < 6 && oracle == ""; k++ {
			// extend a member (a leaf) of the rebuilt trie, or add/delete something else
			var s string
			ms := strings.Split(strings.TrimPrefix(ref2.members(), "e:"), ",")
			if len(ms) > 0 && ms[0] != "" && c.rng.Intn(2) == 0 {
				s = string(unhx(ms[c.rng.Intn(len(ms))])) + string(c.bytesFrom(al, 1))
			} else {
				s = string(c.bytesFrom(al, 1+c.rng.Intn(4)))
			}
			if c.rng.Intn(4) == 0 {
				if got, want := t2.Delete([]byte(s)), ref2.del(s); got != want {
					oracle = fmt.Sprintf("on the trie rebuilt from JSON, Delete(%q) = %v, want %v", s, got, want)
				}
			} else {
				t2.Add([]byte(s))
				ref2.add(s)
			}
			if m, _ := trieMembers(t2); m != ref2.members() && oracle == "" {
				oracle = fmt.Sprintf("trie rebuilt from JSON, after further updates: members %s, want %s", m, ref2.members())
			}
			if m, _ := trieMembers(t3); m != ref.members() && oracle == "" {
				oracle = "updating one trie rebuilt from JSON changed another trie rebuilt from the same JSON"
			}
			if m, _ := trieMembers(t); m != ref.members() && oracle == "" {
				oracle = "updating a trie rebuilt from JSON changed the original"
			}
		}
		c.add(Case{Kind: "json-then-history", Nontrivial: true, Oracle: oracle, Note: fmt.Sprintf("trie %s: JSON round trip, then further Add/Delete on the rebuilt trie", ref.members())})
	}
}

// ---------- mash extras ----------

func mashExtras(c *Ctx) {
	view := func(n, k int, ss ...[]byte) string { return u64s(mash.Sequences(n, k, ss...).View()) }
	// a sequence longer than 65536 bases: whole vs two overlapping pieces vs reverse complement
	for _, L := range []int{65541, 70000, 131080} {
		if L > 70000 && !c.thor {
			continue
		}
		k := 21
		s := c.bytesFrom([]byte("ACGT"), L)
		n := 2 * L // more than the number of distinct k-mers: the sketch holds them all
		whole := view(n, k, s)
		cut := 65536 - c.rng.Intn(30)
		pieces := view(n, k, s[:cut], s[cut-(k-1):])
		rc := view(n, k, sequtil.ReverseComplement(nil, s))
		oracle := ""
		if whole != pieces {
			oracle = fmt.Sprintf("a %d-base sequence sketched whole differs from its two pieces overlapping by k-1", L)
		} else if whole != rc {
			oracle = fmt.Sprintf("a %d-base sequence and its reverse complement give different sketches", L)
		} else if small := mash.Sequences(100, k, s).View(); u64s(small) != u64s(mash.Sequences(n, k, s).View()[max(0, len(mash.Sequences(n, k, s).View())-100):]) {
			oracle = "100-sketch is not the tail of the full sketch on a long sequence"
		}
		c.add(Case{Kind: "long-sequence", Nontrivial: true, Oracle: oracle, Note: fmt.Sprintf("mash.Sequences on a %d-base sequence, k=21", L)})
	}
	// low-complexity / repeated reads first, then more reads incrementally; every order
	for i := 0; i < c.n(60); i++ {
		k := []int{2, 3, 5, 11}[c.rng.Intn(4)]
		n := []int{5, 20, 50, 100}[c.rng.Intn(4)]
		rep := bytes.Repeat(c.bytesFrom([]byte("ACGT"), 1+c.rng.Intn(3)), 10+c.rng.Intn(40))
		reads := [][]byte{rep, rep, sequtil.ReverseComplement(nil, rep), c.bytesFrom([]byte("ACGT"), 30+c.rng.Intn(60)), c.bytesFrom([]byte("ACGT"), 30+c.rng.Intn(60))}
		base := view(n, k, reads...)
		oracle := ""
		for trial := 0; trial < 4 && oracle == ""; trial++ {
			perm := c.rng.Perm(len(reads))
			mh := mash.Sequences(n, k)
			for _, p := range perm {
				mash.Add(mh, k, reads[p])
			}
			if u64s(mh.View()) != base {
				oracle = fmt.Sprintf("adding reads one by one in order %v (incl. a repeat added twice and its reverse complement) differs from one call", perm)
			}
		}
		args := make([]string, len(reads))
		for j, s := range reads {
			args[j] = hx(s)
		}
		c.add(Case{Op: fmt.Sprintf("ms.sketch %d %d %s", n, k, strings.Join(args, " ")), Impl: base, Kind: "low-complexity-incremental", Nontrivial: true, Oracle: oracle,
			Note: fmt.Sprintf("mash n=%d k=%d with a tandem repeat added twice", n, k)})
	}
	// lower-case n only
	for i := 0; i < c.n(40); i++ {
		k := []int{2, 5, 11}[c.rng.Intn(3)]
		s := c.bytesFrom([]byte("ACGT"), 40+c.rng.Intn(60))
		for j := 0; j < 1+c.rng.Intn(3); j++ {
			p := c.rng.Intn(len(s))
			for q := p; q < len(s) && q < p+1+c.rng.Intn(4); q++ {
				s[q] = 'n'
			}
		}
		oracle := ""
		if view(50, k, s) != view(50, k, bytes.ToUpper(s)) {
			oracle = "a sequence whose only lower-case letters are 'n' sketches differently from its upper-case form"
		}
		c.add(Case{Op: fmt.Sprintf("ms.sketch 50 %d %s", k, hx(s)), Impl: view(50, k, s), Kind: "lowercase-n", Nontrivial: true, Oracle: oracle, Note: fmt.Sprintf("mash on %q", s)})
	}
}

// ---------- matrices extras ----------

func matrixExtras(c *Ctx) {
	// multi-byte single-rune labels must be rejected
	for _, lab := range []string{"\xc3\xa9", "\xe2\x82\xac", "\xf0\x9f\x98\x80", "AB", "\xc3\xa9x"} {
		for _, where := range []string{"header", "row"} {
			txt := "A " + lab + "\nA 1 2\n"
			if where == "row" {
				txt = "A B\n" + lab + " 1 2\n"
			}
			got := safe(func() string { return ncbiS(smtext.ReadNCBI(strings.NewReader(txt))) })
			oracle := ""
			if got != "P" {
				oracle = fmt.Sprintf("multi-byte label %q in the %s accepted: %s", lab, where, trunc(got, 60))
			}
			c.add(Case{Op: "sm.read " + hx([]byte(txt)), Impl: got, Kind: "read-multibyte-label", Nontrivial: true, Oracle: oracle, Note: fmt.Sprintf("ReadNCBI(%q)", txt)})
		}
	}
	// near-equal mirrored conflicts must still panic (oracle only: values are not quarter-integers)
	pointOne, pointTwo := 0.1, 0.2
	for _, p := range [][2]float64{{0.3, pointOne + pointTwo}, {1e15, 1e15 + 1}, {1, math.Nextafter(1, 2)}, {-2.5, -2.5000000001}} {
		m := align.SubstitutionMatrix{{'a', 'b'}: p[0], {'b', 'a'}: p[1], {'a', 'a'}: 1}
		got := safe(func() string { m.Symmetrical(); return "" })
		oracle := ""
		if got != "PANIC" {
			oracle = fmt.Sprintf("Symmetrical does not panic although (a,b)=%v and (b,a)=%v differ", p[0], p[1])
		}
		c.add(Case{Kind: "symmetrical-near-equal", Nontrivial: true, Oracle: oracle, Note: fmt.Sprintf("Symmetrical with mirrored scores %v / %v", p[0], p[1])})
	}
	// mirrored pairs that carry the SAME score in different spellings (0 and -0 are equal scores) must NOT panic
	negZero := math.Copysign(0, -1)
	for _, p := range [][2]float64{{0, negZero}, {negZero, 0}, {negZero, negZero}, {2, 2.0}, {math.Inf(1), math.Inf(1)}} {
		m := align.SubstitutionMatrix{{'a', 'b'}: p[0], {'b', 'a'}: p[1], {'a', 'a'}: 1}
		var sym align.SubstitutionMatrix
		got := safe(func() string { sym = m.Symmetrical(); return "" })
		oracle := ""
		if got == "PANIC" {
			oracle = fmt.Sprintf("Symmetrical panics although (a,b)=%v and (b,a)=%v are equal scores", p[0], p[1])
		} else if len(sym) != 3 || sym[[2]byte{'a', 'b'}] != p[0] || sym[[2]byte{'b', 'a'}] != p[0] {
			oracle = fmt.Sprintf("Symmetrical of mirrored equal scores %v / %v is not the pairs and their mirror images", p[0], p[1])
		}
		c.add(Case{Kind: "symmetrical-equal-spellings", Nontrivial: true, Oracle: oracle, Note: fmt.Sprintf("Symmetrical with mirrored scores %v / %v", p[0], p[1])})
	}
	// keys {x,Gap} and {x+1,0}: ascending order must hold on every call
	for i := 0; i < c.n(20); i++ {
		x := byte(c.rng.Intn(254))
		m := align.SubstitutionMatrix{{x, 255}: 1, {x + 1, 0}: 2, {x, 254}: 3, {x + 1, 1}: 4, {0, 0}: 5, {255, 255}: 0}
		q, _ := quarters(m)
		oracle := ""
		var gs string
		for rep := 0; rep < 30 && oracle == ""; rep++ {
			gs = m.GoString()
			oracle = goStringOracle(gs, q)
		}
		c.add(Case{Op: "sm.gostr " + matS(q), Impl: hx([]byte(gs)), Kind: "gostring-gap-nul", Nontrivial: true, Oracle: oracle, Note: fmt.Sprintf("GoString with keys {%d,Gap} and {%d,0}", x, x+1)})
	}
}

// ---------- newick tree built from an arena ----------

func arenaTrees(c *Ctx) {
	for i := 0; i < c.n(40); i++ {
		n := 3 + c.rng.Intn(12)
		nodes := make([]*newick.Node, n)
		for j := range nodes {
			nodes[j] = &newick.Node{Name: fmt.Sprint(j)}
		}
		// child lists are windows of one arena slice, each with spare capacity reaching into the next window
		arena := make([]*newick.Node, 0, 4*n)
		kids := make([][]int, n)
		for j := 1; j < n; j++ {
			p := c.rng.Intn(j)
			kids[p] = append(kids[p], j)
		}
		for j := 0; j < n; j++ {
			start := len(arena)
			for _, k := range kids[j] {
				arena = append(arena, nodes[k])
			}
			nodes[j].Children = arena[start:len(arena)] // cap extends to the end of the arena
		}
		c.begin("PreOrder/PostOrder of a tree with %d nodes whose Children slices are consecutive windows of one backing array with spare capacity (parents %v)", n, kids)
		var before []string
		recPre(nodes[0], &before)
		var wantPost []string
		recPost(nodes[0], &wantPost)
		var post []string
		for x := range nodes[0].PostOrder() {
			post = append(post, x.Name)
			if len(post) > n+16 {
				break
			}
		}
		var pre []string
		for x := range nodes[0].PreOrder() {
			pre = append(pre, x.Name)
			if len(pre) > n+16 {
				break
			}
		}
		var after []string
		recPreCapped(nodes[0], &after, n+16)
		oracle := ""
		if strings.Join(after, ",") != strings.Join(before, ",") {
			oracle = "traversal modified the tree (child lists carved from one arena slice)"
		} else if strings.Join(post, ",") != strings.Join(wantPost, ",") || strings.Join(pre, ",") != strings.Join(before, ",") {
			oracle = "traversal of an arena-built tree differs from the recursive order"
		}
		c.add(Case{Kind: "arena-tree", Nontrivial: true, Oracle: oracle, Note: fmt.Sprintf("tree with %d nodes whose Children slices share one backing array with spare capacity", n)})
	}
}

// sortedStrings is a tiny helper.
func sortedStrings(m map[string]bool) []string {
	out := make([]string, 0, len(m))
	for k := range m {
		out = append(out, k)
	}
	sort.Strings(out)
	return out
}

var _ = io.EOF
