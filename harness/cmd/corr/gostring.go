package main

import (
	"bytes"
	"fmt"
	"go/ast"
	"go/parser"
	"go/token"
	"strconv"
)

// goStringOracle rebuilds the matrix from GoString output the way genncbi +
// the Go compiler would (go/parser + constant evaluation of the literals) and
// checks: every pair exactly once, ascending key order, exact scores.
func goStringOracle(gs string, q map[[2]byte]int) string {
	src := "package p\nconst Gap = 255\ntype SubstitutionMatrix map[[2]byte]float64\nvar m = " + gs
	return goSourceOracle(src, q)
}

// goSourceOracle finds the (single) SubstitutionMatrix composite literal in a Go
// source file and compares the matrix it denotes with q (quarter units).
func goSourceOracle(src string, q map[[2]byte]int) string {
	fset := token.NewFileSet()
	f, err := parser.ParseFile(fset, "m.go", src, 0)
	if err != nil {
		return "generated text is not valid Go: " + err.Error()
	}
	var lit *ast.CompositeLit
	ast.Inspect(f, func(n ast.Node) bool {
		if cl, ok := n.(*ast.CompositeLit); ok && lit == nil {
			if id, ok := cl.Type.(*ast.Ident); ok && id.Name == "SubstitutionMatrix" {
				lit = cl
			}
		}
		return true
	})
	if lit == nil {
		return "no SubstitutionMatrix composite literal in the generated text"
	}
	evalByte := func(e ast.Expr) (byte, bool) {
		switch x := e.(type) {
		case *ast.Ident:
			return 255, x.Name == "Gap"
		case *ast.BasicLit:
			if x.Kind == token.CHAR {
				r, _, _, err := strconv.UnquoteChar(x.Value[1:len(x.Value)-1], '\'')
				if err != nil || r > 255 {
					return 0, false
				}
				return byte(r), true
			}
			if x.Kind == token.INT {
				v, err := strconv.ParseUint(x.Value, 0, 8)
				return byte(v), err == nil
			}
		}
		return 0, false
	}
	var prev []byte
	seen := map[[2]byte]bool{}
	for _, el := range lit.Elts {
		kv, ok := el.(*ast.KeyValueExpr)
		if !ok {
			return "element is not key: value"
		}
		kl, ok := kv.Key.(*ast.CompositeLit)
		if !ok || len(kl.Elts) != 2 {
			return "key is not a pair"
		}
		a, ok1 := evalByte(kl.Elts[0])
		b, ok2 := evalByte(kl.Elts[1])
		if !ok1 || !ok2 {
			return "key byte does not evaluate to a byte constant"
		}
		val := kv.Value
		neg := false
		if u, ok := val.(*ast.UnaryExpr); ok && u.Op == token.SUB {
			neg = true
			val = u.X
		}
		bl, ok := val.(*ast.BasicLit)
		if !ok {
			return "score is not a literal"
		}
		v, err := strconv.ParseFloat(bl.Value, 64)
		if err != nil {
			return "score does not parse"
		}
		if neg {
			v = -v
		}
		k := [2]byte{a, b}
		if seen[k] {
			return fmt.Sprintf("pair (%d,%d) listed twice", a, b)
		}
		seen[k] = true
		if prev != nil && bytes.Compare(prev, k[:]) >= 0 {
			return "pairs not in ascending key order"
		}
		prev = []byte{a, b}
		want, ok := q[k]
		if !ok {
			return fmt.Sprintf("pair (%d,%d) is not in the matrix", a, b)
		}
		if v*4 != float64(want) {
			return fmt.Sprintf("pair (%d,%d) has score %v, want %v", a, b, v, float64(want)/4)
		}
	}
	if len(seen) != len(q) {
		return fmt.Sprintf("%d pairs listed, matrix has %d", len(seen), len(q))
	}
	return ""
}
