package main

import (
	"bytes"
	"fmt"
	"io"
	"math"
	"sort"
	"strconv"
	"strings"

	"github.com/fluhus/biostuff/formats/bed"
	"github.com/fluhus/biostuff/formats/fasta"
	"github.com/fluhus/biostuff/formats/fastq"
	"github.com/fluhus/biostuff/formats/newick"
	"github.com/fluhus/biostuff/formats/sam"
)

// ---------- canonical record text (must match Driver/Main.lean) ----------

func faS(r *fasta.Fasta) string { return "R " + hx(r.Name) + " " + hx(r.Sequence) }
func fqS(r *fastq.Fastq) string {
	return "R " + hx(r.Name) + " " + hx(r.Sequence) + " " + hx(r.Quals)
}

func samS(s *sam.SAM) string {
	var b strings.Builder
	fmt.Fprintf(&b, "S %s %d %s %d %d %s %s %d %d %s %s %d", hx([]byte(s.Qname)), int(s.Flag),
		hx([]byte(s.Rname)), s.Pos, s.Mapq, hx([]byte(s.Cigar)), hx([]byte(s.Rnext)), s.Pnext, s.Tlen,
		hx([]byte(s.Seq)), hx([]byte(s.Qual)), len(s.Tags))
	names := make([]string, 0, len(s.Tags))
	for k := range s.Tags {
		names = append(names, k)
	}
	sort.Strings(names)
	for _, k := range names {
		switch v := s.Tags[k].(type) {
		case byte:
			fmt.Fprintf(&b, " %s A %d", hx([]byte(k)), v)
		case int:
			fmt.Fprintf(&b, " %s I %d", hx([]byte(k)), v)
		case float64:
			fmt.Fprintf(&b, " %s F %s", hx([]byte(k)), hx([]byte(strconv.FormatFloat(v, 'e', -1, 64))))
		case string:
			fmt.Fprintf(&b, " %s Z %s", hx([]byte(k)), hx([]byte(v)))
		case []byte:
			fmt.Fprintf(&b, " %s H %s", hx([]byte(k)), hx(v))
		default:
			fmt.Fprintf(&b, " %s ? ?", hx([]byte(k)))
		}
	}
	return b.String()
}

func samOpArgs(s *sam.SAM) string { return samS(s)[2:] }

func shS(sh sam.SAMOrHeader) string {
	if sh.H != nil {
		return "H " + hx([]byte(*sh.H))
	}
	if sh.S != nil {
		return samS(sh.S)
	}
	return "?"
}

func intsS(l []int) string {
	if len(l) == 0 {
		return "-"
	}
	p := make([]string, len(l))
	for i, x := range l {
		p[i] = strconv.Itoa(x)
	}
	return strings.Join(p, ",")
}

func bedS(b *bed.BED) string {
	return fmt.Sprintf("B %d %s %d %d %s %d %s %d %d %d,%d,%d %d %s %s", b.N, hx([]byte(b.Chrom)),
		b.ChromStart, b.ChromEnd, hx([]byte(b.Name)), b.Score, hx([]byte(b.Strand)), b.ThickStart,
		b.ThickEnd, b.ItemRGB[0], b.ItemRGB[1], b.ItemRGB[2], b.BlockCount, intsS(b.BlockSizes), intsS(b.BlockStarts))
}

func distTok(d float64) string {
	if d == 0 {
		return "~"
	}
	return hx([]byte(fmt.Sprint(d)))
}

func treeToks(n *newick.Node, out *[]string) {
	// iterative pre-order to survive deep trees
	stack := []*newick.Node{n}
	for len(stack) > 0 {
		x := stack[len(stack)-1]
		stack = stack[:len(stack)-1]
		*out = append(*out, hx([]byte(x.Name)), distTok(x.Distance), strconv.Itoa(len(x.Children)))
		for i := len(x.Children) - 1; i >= 0; i-- {
			stack = append(stack, x.Children[i])
		}
	}
}

func treeS(n *newick.Node) string {
	var t []string
	treeToks(n, &t)
	return "T " + strings.Join(t, " ")
}

// ---------- decoders ----------

func decFasta(r io.Reader, stop, limit int) ([]string, string) {
	return collect(fasta.Reader(r), faS, stop, limit)
}
func decFastq(r io.Reader, stop, limit int) ([]string, string) {
	return collect(fastq.Reader(r), fqS, stop, limit)
}
func decSam(r io.Reader, stop, limit int) ([]string, string) {
	return collect(sam.Reader(r), samS, stop, limit)
}
func decSamH(r io.Reader, stop, limit int) ([]string, string) {
	return collect(sam.ReaderHeader(r), shS, stop, limit)
}
func decBed(r io.Reader, stop, limit int) ([]string, string) {
	return collect(bed.Reader(r), bedS, stop, limit)
}
func decNewick(r io.Reader, stop, limit int) ([]string, string) {
	return collect(newick.Reader(r), treeS, stop, limit)
}

// ---------- FASTA ----------

func (c *Ctx) fastaRec(maxLen int) *fasta.Fasta {
	special := []int{0, 1, 2, 79, 80, 81, 159, 160, 161, 240}
	nl := c.length(12, []int{0, 1})
	sl := c.length(maxLen, special)
	return &fasta.Fasta{Name: c.text(nl, ""), Sequence: c.text(sl, ">")}
}

func (c *Ctx) fastaRecs() []*fasta.Fasta {
	n := c.rng.Intn(5)
	if c.rng.Intn(3) == 0 {
		n = c.rng.Intn(2) + 1
	}
	rs := make([]*fasta.Fasta, n)
	for i := range rs {
		rs[i] = c.fastaRec(300)
	}
	return rs
}

func fastaWrite(rs []*fasta.Fasta) []byte {
	var b bytes.Buffer
	for _, r := range rs {
		r.Write(&b)
	}
	return b.Bytes()
}

func (c *Ctx) sep() []byte {
	switch c.rng.Intn(6) {
	case 0:
		return []byte("\r\n")
	case 1:
		return []byte("\n\n")
	case 2:
		return []byte("\r")
	case 3:
		return []byte("\r\n\r\n\n")
	default:
		return []byte("\n")
	}
}

// fastaLayout renders the records with random line widths, separators and an
// optionally missing final newline.
func (c *Ctx) fastaLayout(rs []*fasta.Fasta) []byte {
	var b bytes.Buffer
	crlfAll := c.rng.Intn(4) == 0
	sep := func() []byte {
		if crlfAll {
			return []byte("\r\n")
		}
		return c.sep()
	}
	for _, r := range rs {
		b.WriteByte('>')
		b.Write(r.Name)
		b.Write(sep())
		s := r.Sequence
		for len(s) > 0 {
			w := 1 + c.rng.Intn(200)
			if c.rng.Intn(3) == 0 {
				w = 1 + c.rng.Intn(5)
			}
			if w > len(s) {
				w = len(s)
			}
			b.Write(s[:w])
			b.Write(sep())
			s = s[w:]
		}
	}
	out := b.Bytes()
	if c.rng.Intn(3) == 0 {
		// drop the final separator entirely
		out = bytes.TrimRight(out, "\r\n")
	}
	return out
}

func (c *Ctx) fastaMalformed() []byte {
	if c.rng.Intn(2) == 0 {
		alpha := []byte(">\r\nA\t >")
		return c.bytesFrom(alpha, c.rng.Intn(40))
	}
	b := fastaWrite(c.fastaRecs())
	return c.mutate(b, []byte(">\r\nA"))
}

// mutate applies 1-3 byte-level mutations.
func (c *Ctx) mutate(b []byte, special []byte) []byte {
	b = append([]byte(nil), b...)
	for k := c.rng.Intn(3) + 1; k > 0; k-- {
		if len(b) == 0 {
			b = append(b, c.pick(special))
			continue
		}
		i := c.rng.Intn(len(b))
		switch c.rng.Intn(5) {
		case 0: // replace by special
			b[i] = c.pick(special)
		case 1: // delete a byte
			b = append(b[:i], b[i+1:]...)
		case 2: // insert special
			b = append(b[:i], append([]byte{c.pick(special)}, b[i:]...)...)
		case 3: // truncate
			b = b[:i]
		case 4: // duplicate a span
			j := i + c.rng.Intn(len(b)-i+1)
			b = append(b[:j], append(append([]byte(nil), b[i:j]...), b[j:]...)...)
		}
	}
	return b
}

// ---------- FASTQ ----------

func (c *Ctx) fastqRec(maxLen int) *fastq.Fastq {
	l := c.length(maxLen, []int{0, 1, 2, 100})
	return &fastq.Fastq{Name: c.text(c.length(12, []int{0}), ""), Sequence: c.text(l, ""), Quals: c.text(l, "")}
}

func (c *Ctx) fastqRecs() []*fastq.Fastq {
	n := c.rng.Intn(5)
	rs := make([]*fastq.Fastq, n)
	for i := range rs {
		rs[i] = c.fastqRec(120)
	}
	return rs
}

func fastqWrite(rs []*fastq.Fastq) []byte {
	var b bytes.Buffer
	for _, r := range rs {
		r.Write(&b)
	}
	return b.Bytes()
}

func (c *Ctx) fastqMalformed() []byte {
	if c.rng.Intn(3) == 0 {
		return c.bytesFrom([]byte("@+\r\nAI"), c.rng.Intn(40))
	}
	return c.mutate(fastqWrite(c.fastqRecs()), []byte("@+\r\nA"))
}

// ---------- SAM ----------

func (c *Ctx) floatVal() float64 {
	switch c.rng.Intn(8) {
	case 0:
		return math.NaN()
	case 1:
		return math.Inf(1)
	case 2:
		return math.Inf(-1)
	case 3:
		return float64(c.rng.Intn(2000)-1000) / 4
	case 4:
		return math.Float64frombits(c.rng.Uint64() & 0x000fffffffffffff) // subnormal
	case 5:
		return 0
	case 6:
		// exactly representable in float32, but with a different shortest decimal there
		return []float64{float64(float32(0.1)), float64(float32(1.0 / 3)), 1 << 53, math.MaxFloat32, math.Pow(2, -20), float64(float32(c.rng.Float64()))}[c.rng.Intn(6)]
	default:
		f := math.Float64frombits(c.rng.Uint64())
		return f
	}
}

func (c *Ctx) tagName() string {
	if c.rng.Intn(6) == 0 {
		return []string{"X", "X0", "X-", "XY1", "XY", "N!", "N"}[c.rng.Intn(7)]
	}
	a := "ABXYZNMabxz"
	b := "ABXYZNM0123456789abz"
	return string([]byte{a[c.rng.Intn(len(a))], b[c.rng.Intn(len(b))]})
}

func (c *Ctx) samRec() *sam.SAM {
	t := func(max int, excl string) string { return string(c.text(c.length(max, []int{0, 1}), excl)) }
	s := &sam.SAM{
		Qname: t(10, ""), Flag: sam.Flag(c.extremeInt()), Rname: t(8, ""), Pos: c.extremeInt(), Mapq: c.extremeInt(),
		Cigar: t(8, ""), Rnext: t(4, ""), Pnext: c.extremeInt(), Tlen: c.extremeInt(), Seq: t(30, ""), Qual: t(30, ""),
		Tags: map[string]any{},
	}
	if c.rng.Intn(5) == 0 {
		s.Rname = c.keyword()
	}
	if c.rng.Intn(4) == 0 {
		s.Rnext = s.Rname
	}
	if c.rng.Intn(8) == 0 {
		s.Cigar, s.Qname = c.keyword(), c.keyword()
	}
	for strings.HasPrefix(s.Qname, "@") {
		s.Qname = s.Qname[1:]
	}
	nt := c.rng.Intn(5)
	if c.rng.Intn(3) == 0 {
		nt = 0
	}
	for i := 0; i < nt; i++ {
		name := c.tagName()
		switch c.rng.Intn(5) {
		case 0:
			s.Tags[name] = byte(0x21 + c.rng.Intn(0x7e-0x21+1))
		case 1:
			s.Tags[name] = c.extremeInt()
		case 2:
			s.Tags[name] = c.floatVal()
		case 3:
			s.Tags[name] = t(10, "")
		case 4:
			s.Tags[name] = c.bytesFrom([]byte{0, 1, 0x7f, 0x80, 0xff, 'a'}, c.rng.Intn(5))
		}
	}
	return s
}

func samWrite(hs []string, rs []*sam.SAM) []byte {
	var b bytes.Buffer
	for _, h := range hs {
		b.WriteString(h)
		b.WriteByte('\n')
	}
	for _, r := range rs {
		r.Write(&b)
	}
	return b.Bytes()
}

func (c *Ctx) samHeaders() []string {
	n := c.rng.Intn(4)
	hs := make([]string, n)
	for i := range hs {
		// headers are verbatim lines starting with '@', may contain TABs
		k := c.rng.Intn(20)
		b := c.text(k, "")
		for j := range b {
			if c.rng.Intn(6) == 0 {
				b[j] = '\t'
			}
		}
		hs[i] = "@" + string(b)
	}
	return hs
}

func (c *Ctx) samFile() ([]string, []*sam.SAM) {
	hs := c.samHeaders()
	n := c.rng.Intn(5)
	rs := make([]*sam.SAM, n)
	for i := range rs {
		rs[i] = c.samRec()
	}
	return hs, rs
}

// normSam rewrites every `f` tag value that ParseFloat accepts to its
// canonical 'e' spelling (the float codec is outside the model).
func normSam(b []byte) []byte {
	lines := bytes.Split(b, []byte("\n"))
	for li, ln := range lines {
		cr := false
		if len(ln) > 0 && ln[len(ln)-1] == '\r' {
			cr = true
			ln = ln[:len(ln)-1]
		}
		if len(ln) > 0 && ln[0] == '@' {
			continue
		}
		fs := bytes.Split(ln, []byte("\t"))
		changed := false
		for i := 11; i < len(fs); i++ {
			p := bytes.SplitN(fs[i], []byte(":"), 3)
			if len(p) == 3 && string(p[1]) == "f" {
				if v, err := strconv.ParseFloat(string(p[2]), 64); err == nil {
					canon := strconv.FormatFloat(v, 'e', -1, 64)
					if canon != string(p[2]) {
						fs[i] = []byte(string(p[0]) + ":f:" + canon)
						changed = true
					}
				} else if ne, ok := err.(*strconv.NumError); ok && ne.Err == strconv.ErrRange {
					fs[i] = []byte(string(p[0]) + ":f:RANGE")
					changed = true
				}
			}
		}
		if changed {
			ln = bytes.Join(fs, []byte("\t"))
			if cr {
				ln = append(ln, '\r')
			}
			lines[li] = ln
		}
	}
	return bytes.Join(lines, []byte("\n"))
}

func (c *Ctx) samMalformed() []byte {
	if c.rng.Intn(4) == 0 {
		return normSam(c.bytesFrom([]byte("@\t\r\n:Ai1fZH\"x-"), c.rng.Intn(60)))
	}
	hs, rs := c.samFile()
	b := samWrite(hs, rs)
	if c.rng.Intn(2) == 0 {
		// token-level corruption of one line
		lines := bytes.Split(bytes.TrimSuffix(b, []byte("\n")), []byte("\n"))
		if len(lines) > 0 && len(b) > 0 {
			i := c.rng.Intn(len(lines))
			fs := bytes.Split(lines[i], []byte("\t"))
			j := c.rng.Intn(len(fs))
			switch c.rng.Intn(6) {
			case 0:
				fs = append(fs[:j], fs[j+1:]...) // drop a field
			case 1:
				if c.rng.Intn(3) == 0 {
					fs[[]int{1, 3, 4, 7, 8}[c.rng.Intn(5)]%len(fs)] = []byte([]string{"-", "+", "", "1-", "--1"}[c.rng.Intn(5)])
				} else {
					fs[j] = []byte("x" + string(fs[j])) // make non-numeric / break tag
				}
			case 2:
				fs = fs[:j] // too few fields
			case 3:
				fs = append(fs, []byte("XX:i:notanumber"))
			case 4:
				fs = append(fs, []byte([]string{"XX:A:ab", "XX", "XX:H:abc", "XX:q:1", "X:Y", "XX:B:c,1,2", "XX:f:1.5", "XX:f:zz", "XF:f:1.2345678901234567e-01", "XG:f:5e-324", "XH:f:1.7976931348623157e+308", "XI:f:16777217", "XX:A:\xff", "XX:Z:\"q\"\"", "::", "XX:i:+5", "XX:i:99999999999999999999"}[c.rng.Intn(17)]))
			case 5:
				fs[j] = []byte("\"" + string(fs[j]))
			}
			lines[i] = bytes.Join(fs, []byte("\t"))
			b = append(bytes.Join(lines, []byte("\n")), '\n')
		}
		return normSam(b)
	}
	return normSam(c.mutate(b, []byte("@\t\r\n:\"")))
}

// ---------- BED ----------

func (c *Ctx) bedRec(n int) *bed.BED {
	t := func(max int, excl string) string { return string(c.text(c.length(max, []int{0, 1}), excl)) }
	b := &bed.BED{N: n, Chrom: t(8, ""), ChromStart: c.extremeInt(), ChromEnd: c.extremeInt(), Name: t(10, ""),
		Score: c.extremeInt(), Strand: []string{"", "+", "-", "."}[c.rng.Intn(4)], ThickStart: c.extremeInt(),
		ThickEnd: c.extremeInt(), ItemRGB: [3]byte{byte(c.rng.Intn(256)), byte(c.rng.Intn(256)), byte(c.rng.Intn(256))}}
	if c.rng.Intn(5) == 0 {
		b.Chrom = c.keyword()
	}
	if c.rng.Intn(8) == 0 {
		b.Name = c.keyword()
	}
	for strings.HasPrefix(b.Chrom, "#") {
		b.Chrom = b.Chrom[1:]
	}
	cnt := []int{0, 1, 2, 5}[c.rng.Intn(4)]
	switch {
	case n <= 9:
		// block fields are not written: anything goes
		b.BlockCount = c.rng.Intn(4)
		b.BlockSizes = make([]int, c.rng.Intn(3))
	case n == 10, n == 11:
		// block lists consistent with the block count; the lists beyond the first N fields are not written
		b.BlockCount = cnt
		b.BlockSizes = make([]int, cnt)
		b.BlockStarts = make([]int, cnt)
		for i := 0; i < cnt; i++ {
			b.BlockSizes[i] = c.extremeInt()
			b.BlockStarts[i] = c.extremeInt()
		}
	default:
		b.BlockCount = cnt
		b.BlockSizes = make([]int, cnt)
		b.BlockStarts = make([]int, cnt)
		for i := 0; i < cnt; i++ {
			b.BlockSizes[i] = c.extremeInt()
			b.BlockStarts[i] = c.extremeInt()
		}
	}
	return b
}

func bedWrite(rs []*bed.BED) []byte {
	var b bytes.Buffer
	for _, r := range rs {
		r.Write(&b)
	}
	return b.Bytes()
}

func (c *Ctx) bedRecs() []*bed.BED {
	n := 3 + c.rng.Intn(10)
	k := c.rng.Intn(5)
	rs := make([]*bed.BED, k)
	for i := range rs {
		rs[i] = c.bedRec(n)
	}
	return rs
}

// normBed rewrites RGB components that ParseUint(base 0) accepts in a
// non-canonical spelling (hex, octal, underscores) to plain decimal.
func normBed(b []byte) []byte {
	lines := bytes.Split(b, []byte("\n"))
	for li, ln := range lines {
		cr := false
		if len(ln) > 0 && ln[len(ln)-1] == '\r' {
			cr = true
			ln = ln[:len(ln)-1]
		}
		if len(ln) == 0 || ln[0] == '#' {
			continue
		}
		fs := bytes.Split(ln, []byte("\t"))
		if len(fs) < 9 {
			continue
		}
		comps := strings.Split(string(fs[8]), ",")
		changed := false
		for i, s := range comps {
			if v, err := strconv.ParseUint(s, 0, 8); err == nil {
				if cs := strconv.FormatUint(v, 10); cs != s {
					comps[i] = cs
					changed = true
				}
			}
		}
		if changed {
			fs[8] = []byte(strings.Join(comps, ","))
			ln = bytes.Join(fs, []byte("\t"))
			if cr {
				ln = append(ln, '\r')
			}
			lines[li] = ln
		}
	}
	return bytes.Join(lines, []byte("\n"))
}

func (c *Ctx) bedMalformed() []byte {
	if c.rng.Intn(4) == 0 {
		return normBed(c.bytesFrom([]byte("#\t\r\n1-,+.\"c"), c.rng.Intn(50)))
	}
	b := bedWrite(c.bedRecs())
	if c.rng.Intn(2) == 0 && len(b) > 0 {
		lines := bytes.Split(bytes.TrimSuffix(b, []byte("\n")), []byte("\n"))
		i := c.rng.Intn(len(lines))
		fs := bytes.Split(lines[i], []byte("\t"))
		j := c.rng.Intn(len(fs))
		switch c.rng.Intn(7) {
		case 0:
			fs = append(fs[:j], fs[j+1:]...)
		case 1:
			fs[j] = []byte("x" + string(fs[j]))
		case 2:
			fs = fs[:j]
		case 3:
			fs = append(fs, []byte("extra"))
		case 4:
			fs[j] = nil
		case 5:
			fs[j] = []byte([]string{"1,2", "256,0,0", "0x10,010,0b1", "1,2,3,4", "+", "*", "1,,2", "-1", "", "#", "\"q\""}[c.rng.Intn(11)])
		case 6:
			lines = append(lines[:i], append([][]byte{[]byte("#comment"), nil}, lines[i:]...)...)
		}
		if i < len(lines) && c.rng.Intn(7) != 6 {
			lines[i] = bytes.Join(fs, []byte("\t"))
		}
		b = append(bytes.Join(lines, []byte("\n")), '\n')
		return normBed(b)
	}
	return normBed(c.mutate(b, []byte("#\t\r\n,\"")))
}

// ---------- Newick ----------

var nwkNameAlpha = []byte("ab _'(),:;\t\n\r\"x.1-\x00\xff")

func (c *Ctx) nwkName() string {
	switch c.rng.Intn(6) {
	case 0:
		return ""
	case 1:
		return string(c.bytesFrom([]byte("abcXYZ019"), 1+c.rng.Intn(4)))
	case 2:
		return string(c.bytesFrom([]byte("a _b"), 1+c.rng.Intn(5)))
	case 3:
		return string(c.bytesFrom([]byte("'"), 1+c.rng.Intn(3)))
	default:
		return string(c.bytesFrom(nwkNameAlpha, c.rng.Intn(7)))
	}
}

func (c *Ctx) nwkDist(exactOnly bool) float64 {
	switch c.rng.Intn(6) {
	case 0, 1:
		return 0
	case 2:
		return float64(c.rng.Intn(4000)-2000) / 4
	case 3:
		return float64(c.rng.Intn(100))
	default:
		if exactOnly {
			return float64(c.rng.Intn(1000)) / 8
		}
		return c.floatVal()
	}
}

// randTree builds a random tree with n nodes.
func (c *Ctx) randTree(n int) *newick.Node {
	nodes := make([]*newick.Node, n)
	for i := range nodes {
		nodes[i] = &newick.Node{Name: c.nwkName(), Distance: c.nwkDist(false)}
		if i > 0 {
			var p int
			if c.rng.Intn(3) == 0 {
				p = i - 1 // deepen
			} else {
				p = c.rng.Intn(i)
			}
			nodes[p].Children = append(nodes[p].Children, nodes[i])
		}
	}
	return nodes[0]
}

func nwkWrite(ts []*newick.Node, seps [][]byte) []byte {
	var b bytes.Buffer
	for i, t := range ts {
		t.Write(&b)
		if i < len(seps) {
			b.Write(seps[i])
		}
	}
	return b.Bytes()
}

func (c *Ctx) nwkWS() []byte {
	return c.bytesFrom([]byte(" \t\n\r"), c.rng.Intn(4))
}

func (c *Ctx) nwkTrees() ([]*newick.Node, [][]byte) {
	n := c.rng.Intn(4)
	ts := make([]*newick.Node, n)
	seps := make([][]byte, n)
	for i := range ts {
		ts[i] = c.randTree(1 + c.rng.Intn(8))
		if c.rng.Intn(2) == 0 {
			seps[i] = c.nwkWS()
		}
	}
	return ts, seps
}

// nwkTokens builds a near-valid token stream; number tokens are normalised.
func (c *Ctx) nwkMalformed() []byte {
	if c.rng.Intn(3) == 0 {
		// arbitrary bytes over an alphabet from which no float can be formed
		return normNewick(c.bytesFrom([]byte("(),:;' _\t\nAB#\"1.e-"), c.rng.Intn(30)))
	}
	if c.rng.Intn(3) == 0 {
		// writer output with byte-level mutations
		ts, seps := c.nwkTrees()
		return normNewick(c.mutate(nwkWrite(ts, seps), []byte("(),:;' \n")))
	}
	toks := []string{"(", ")", ",", ":", ";", "A", "'q r'", "'it''s'", " ", "\n", "1.5", "0", "-0", "abc", "1e3", "0x10", "1_0", ".5", "Inf", "nan", "1.2.3", "'", "_", "a_b"}
	var b bytes.Buffer
	n := c.rng.Intn(14)
	prevColon := false
	for i := 0; i < n; i++ {
		t := toks[c.rng.Intn(len(toks))]
		if c.rng.Intn(2) == 0 {
			t = []string{"(", ")", ",", ":", ";", "A"}[c.rng.Intn(6)]
		}
		if prevColon {
			t = normDistTok(t)
		} else if _, err := strconv.ParseFloat(t, 64); err == nil {
			// a number where a name is expected is just a name: fine
		}
		b.WriteString(t)
		prevColon = t == ":"
		// separate adjacent bare tokens sometimes
		if c.rng.Intn(3) == 0 {
			b.WriteByte(' ')
		}
	}
	return normNewick(b.Bytes())
}

// normNewick rewrites, in arbitrary newick-ish bytes, every bare token that
// directly follows a ':' token and that ParseFloat accepts, to Go's canonical
// %v spelling (the float codec is outside the model).  It tokenizes the way
// the reader does (quotes, structural bytes, whitespace).
func normNewick(b []byte) []byte {
	var out []byte
	i := 0
	afterColon := false
	for i < len(b) {
		c := b[i]
		switch {
		case c == ' ' || c == '\t' || c == '\n' || c == '\r':
			out = append(out, c)
			i++
		case c == '(' || c == ')' || c == ',' || c == ':' || c == ';':
			out = append(out, c)
			afterColon = c == ':'
			i++
		case c == '\'':
			// quoted token: up to the closing quote (doubled quotes stay inside)
			j := i + 1
			aq := false
			for j < len(b) {
				if b[j] == '\'' {
					aq = !aq
				} else if aq {
					break
				}
				j++
			}
			out = append(out, b[i:j]...)
			afterColon = false
			i = j
		default:
			j := i
			for j < len(b) && !strings.ContainsRune("(),:; \t\n\r'", rune(b[j])) {
				j++
			}
			tok := string(b[i:j])
			if afterColon {
				tok = normDistTok(tok)
			}
			out = append(out, tok...)
			afterColon = false
			i = j
			if i < len(b) && b[i] == '\'' {
				// a quote inside a bare token is a syntax error for the reader; copy the rest verbatim
				out = append(out, b[i:]...)
				return out
			}
		}
	}
	return out
}

// normDistTok maps a token that ParseFloat accepts to Go's canonical %v text.
func normDistTok(t string) string {
	v, err := strconv.ParseFloat(t, 64)
	if err == nil {
		return fmt.Sprint(v)
	}
	if ne, ok := err.(*strconv.NumError); ok && ne.Err == strconv.ErrRange {
		// well-formed but out of range: Go rejects it, the token grammar of the model
		// cannot know that; replace by a token both sides reject
		return "RANGE"
	}
	return t
}

func init() {
	formats = []*format{
		{name: "fasta", decOp: "fa.dec", decode: decFasta,
			file:       func(p string, s, l int) ([]string, string) { return collect(fasta.File(p), faS, s, l) },
			fileTwice:  func(p string, l int) ([]string, []string, string) { return twice(fasta.File(p), faS, l) },
			wellFormed: func(c *Ctx) []byte { return fastaWrite(c.fastaRecs()) },
			malformed:  func(c *Ctx) []byte { return c.fastaMalformed() }},
		{name: "fastq", decOp: "fq.dec", decode: decFastq,
			file:       func(p string, s, l int) ([]string, string) { return collect(fastq.File(p), fqS, s, l) },
			fileTwice:  func(p string, l int) ([]string, []string, string) { return twice(fastq.File(p), fqS, l) },
			wellFormed: func(c *Ctx) []byte { return fastqWrite(c.fastqRecs()) },
			malformed:  func(c *Ctx) []byte { return c.fastqMalformed() }},
		{name: "sam", decOp: "sam.dec", decode: decSam,
			file:       func(p string, s, l int) ([]string, string) { return collect(sam.File(p), samS, s, l) },
			fileTwice:  func(p string, l int) ([]string, []string, string) { return twice(sam.File(p), samS, l) },
			wellFormed: func(c *Ctx) []byte { hs, rs := c.samFile(); return samWrite(hs, rs) },
			malformed:  func(c *Ctx) []byte { return c.samMalformed() }},
		{name: "samh", decOp: "sam.dech", decode: decSamH,
			file:       func(p string, s, l int) ([]string, string) { return collect(sam.FileHeader(p), shS, s, l) },
			fileTwice:  func(p string, l int) ([]string, []string, string) { return twice(sam.FileHeader(p), shS, l) },
			wellFormed: func(c *Ctx) []byte { hs, rs := c.samFile(); return samWrite(hs, rs) },
			malformed:  func(c *Ctx) []byte { return c.samMalformed() }},
		{name: "bed", decOp: "bed.dec", decode: decBed,
			file:       func(p string, s, l int) ([]string, string) { return collect(bed.File(p), bedS, s, l) },
			fileTwice:  func(p string, l int) ([]string, []string, string) { return twice(bed.File(p), bedS, l) },
			wellFormed: func(c *Ctx) []byte { return bedWrite(c.bedRecs()) },
			malformed:  func(c *Ctx) []byte { return c.bedMalformed() }},
		{name: "newick", decOp: "nwk.dec", decode: decNewick,
			file:       func(p string, s, l int) ([]string, string) { return collect(newick.File(p), treeS, s, l) },
			fileTwice:  func(p string, l int) ([]string, []string, string) { return twice(newick.File(p), treeS, l) },
			wellFormed: func(c *Ctx) []byte { ts, seps := c.nwkTrees(); return nwkWrite(ts, seps) },
			malformed:  func(c *Ctx) []byte { return c.nwkMalformed() }},
	}
	for _, f := range formats {
		f := f
		opRunners[f.decOp] = func(op string) string {
			a := strings.Split(op, " ")
			if len(a) != 3 {
				return "bad-op"
			}
			data := unhx(a[2])
			var r io.Reader = bytes.NewReader(data)
			if a[1] == "f" {
				r = &faultReader{data: data}
			}
			return itemsStr(f.decode(r, 0, len(data)+16))
		}
	}
}


// longLineInputs returns, per format, well-formed inputs whose lines are long
// enough to cross bufio's 4096-byte buffer in every phase (content lengths
// around 4096 and 8192, in particular 4095 and 8191 so that with CRLF the CR
// is the last byte of a full buffer).
func (c *Ctx) longLineInputs(name string) [][]byte {
	var out [][]byte
	lens := []int{4093, 4094, 4095, 4096, 4097, 8191, 8192, 5000}
	fill := func(n int) string {
		if n < 0 {
			n = 0
		}
		return string(c.bytesFrom([]byte("ACGTacgt"), n))
	}
	for _, L := range lens {
		switch name {
		case "fasta":
			// one long unwrapped line is a legal layout; also a long name line
			out = append(out, []byte(">n\n"+fill(L)+"\n>m\nAC\n"), []byte(">"+fill(L-1)+"\nACGT\n"))
		case "fastq":
			out = append(out, []byte("@r1\n"+fill(L)+"\n+\n"+fill(L)+"\n@r2\nAC\n+\nII\n"), []byte("@"+fill(L-1)+"\nAC\n+\nII\n"))
		case "sam", "samh":
			rec := "q\t0\tr\t1\t2\t*\t=\t3\t4\t"
			pre := len(rec) + 1
			half := (L - pre) / 2
			line := rec + fill(half) + "\t" + fill(L-pre-half)
			out = append(out, []byte("@HD\t"+fill(L-4)+"\nq0\t0\tr\t1\t2\t*\t=\t3\t4\tA\tI\n"+line+"\nq2\t0\tr\t1\t2\t*\t=\t3\t4\tC\tI\n"))
		case "bed":
			base := "chr1\t1\t2\t"
			out = append(out, []byte("c\t5\t6\tn0\n"+base+fill(L-len(base))+"\nc\t7\t8\tn2\n"))
		case "newick":
			out = append(out, []byte("("+fill(L)+",b)c;\n(d,e)f;\n"))
		}
	}
	return out
}

// bedWithComments interleaves '#' comment lines and blank lines (LF and CRLF).
func (c *Ctx) bedWithComments(lfOnly bool) []byte {
	rs := c.bedRecs()
	var b bytes.Buffer
	junk := func() {
		for c.rng.Intn(2) == 0 {
			switch c.rng.Intn(3) {
			case 0:
				b.WriteString("# comment " + string(c.text(c.rng.Intn(20), "")) + "\n")
			case 1:
				if lfOnly {
					b.WriteString("\n")
				} else {
					b.WriteString("\r\n")
				}
			case 2:
				if lfOnly {
					b.WriteString("#\n\n")
				} else {
					b.WriteString("#\r\n\n")
				}
			}
		}
	}
	junk()
	for _, r := range rs {
		r.Write(&b)
		junk()
	}
	return b.Bytes()
}
