package main

import (
	"bytes"
	"compress/gzip"
	"errors"
	"fmt"
	"io"
	"iter"
	"os"
	"path/filepath"
	"strings"
)

var errFault = errors.New("injected read fault")

// faultReader delivers data[:k] and then fails: once (then io.EOF) or forever.
type faultReader struct {
	data     []byte
	pos      int
	forever  bool
	failed   bool
	chunk    int
	calls    int
	withData bool // deliver the last chunk TOGETHER with the error (n > 0, err != nil)
	err      error // the error to fail with (default errFault)
}

// errWrapsEOF is a read failure whose error chain contains io.EOF (e.g. an *os.PathError around it):
// package io is explicit that only io.EOF itself signals the end of the data.
var errWrapsEOF = fmt.Errorf("injected read fault: %w", io.EOF)

func (f *faultReader) fault() error {
	if f.err != nil {
		return f.err
	}
	return errFault
}

func (f *faultReader) Read(p []byte) (int, error) {
	f.calls++
	if f.calls > 1<<20 {
		panic("reader polled more than 2^20 times")
	}
	if f.pos < len(f.data) {
		n := len(f.data) - f.pos
		if f.chunk > 0 && n > f.chunk {
			n = f.chunk
		}
		if n > len(p) {
			n = len(p)
		}
		copy(p, f.data[f.pos:f.pos+n])
		f.pos += n
		if f.withData && f.pos >= len(f.data) {
			f.failed = true
			return n, f.fault()
		}
		return n, nil
	}
	if f.forever || !f.failed {
		f.failed = true
		return 0, f.fault()
	}
	return 0, io.EOF
}

// chunkReader delivers data according to a schedule of chunk sizes (cycled);
// size 0 = an empty read; withEOF = return the last chunk together with io.EOF.
type chunkReader struct {
	data    []byte
	pos     int
	sizes   []int
	i       int
	withEOF bool
}

func (r *chunkReader) Read(p []byte) (int, error) {
	if r.pos >= len(r.data) {
		return 0, io.EOF
	}
	n := len(p)
	if len(r.sizes) > 0 {
		n = r.sizes[r.i%len(r.sizes)]
		r.i++
	}
	if n > len(p) {
		n = len(p)
	}
	if n > len(r.data)-r.pos {
		n = len(r.data) - r.pos
	}
	copy(p, r.data[r.pos:r.pos+n])
	r.pos += n
	if r.withEOF && r.pos >= len(r.data) {
		return n, io.EOF
	}
	return n, nil
}

// limitWriter accepts k bytes in total, then fails.
type limitWriter struct {
	k   int
	got []byte
}

func (w *limitWriter) Write(p []byte) (int, error) {
	if len(p) <= w.k {
		w.k -= len(p)
		w.got = append(w.got, p...)
		return len(p), nil
	}
	n := w.k
	w.got = append(w.got, p[:n]...)
	w.k = 0
	return n, errors.New("injected write fault")
}

// twice ranges ONE iterator value three times: stopped after the first item, then to the end twice.
func twice[T any](seq iter.Seq2[T, error], f func(T) string, limit int) (second, third []string, status string) {
	_, st1 := collect(seq, f, 1, limit)
	second, st2 := collect(seq, f, 0, limit)
	third, st3 := collect(seq, f, 0, limit)
	return second, third, st1 + st2 + st3
}

// collect drains an iterator. stop > 0: the consumer declines at its stop-th
// call. Returns canonical items, and a status: "" | "CALLED-AFTER-STOP" |
// "NONTERM".
func collect[T any](seq iter.Seq2[T, error], f func(T) string, stop int, limit int) (items []string, status string) {
	var kept []T
	var keptIdx []int
	stopped := false
	defer func() {
		// items the consumer kept must still read the same after the iteration
		// (a yielded record must not alias memory the iterator reuses)
		if status == "" {
			for k, v := range kept {
				if safe(func() string { return f(v) }) != items[keptIdx[k]] {
					status = "RETAINED-ITEM-CHANGED"
				}
			}
		}
	}()
	func() {
		defer func() {
			if r := recover(); r != nil {
				status = "PANIC"
			}
		}()
		seq(func(v T, err error) bool {
			if stopped {
				status = "CALLED-AFTER-STOP"
				return false
			}
			if err != nil {
				items = append(items, "E")
			} else {
				items = append(items, f(v))
				kept = append(kept, v)
				keptIdx = append(keptIdx, len(items)-1)
			}
			if len(items) >= limit {
				status = "NONTERM"
				stopped = true
				return false
			}
			if stop > 0 && len(items) == stop {
				stopped = true
				return false
			}
			return true
		})
	}()
	return items, status
}

func itemsStr(items []string, status string) string {
	s := "."
	if len(items) > 0 {
		s = strings.Join(items, "|")
	}
	if status != "" {
		return status + ":" + s
	}
	return s
}

// A format bundles what the cross-format properties (C06, C07, C11, C18) need.
type format struct {
	name   string
	decOp  string
	decode func(r io.Reader, stop int, limit int) ([]string, string)
	file   func(path string, stop int, limit int) ([]string, string)
	// fileTwice: ONE iterator value from File(path), ranged with a stop after its first item, then fully, then fully again
	fileTwice func(path string, limit int) ([]string, []string, string)
	// well-formed inputs (writer output of generated records), and near-valid / arbitrary inputs
	wellFormed func(c *Ctx) []byte
	malformed  func(c *Ctx) []byte
	normalize  func(b []byte) []byte
}

var formats []*format

func workDir() string {
	d := os.Getenv("VERIF_TMP")
	if d == "" {
		d = filepath.Join(os.TempDir(), "verif-corr")
	}
	os.MkdirAll(d, 0o755)
	return d
}

func writeTemp(name string, data []byte, gz bool) string {
	p := filepath.Join(workDir(), name)
	if gz {
		var b bytes.Buffer
		zw := gzip.NewWriter(&b)
		zw.Write(data)
		zw.Close()
		data = b.Bytes()
	}
	if err := os.WriteFile(p, data, 0o644); err != nil {
		panic(fmt.Sprint("cannot write temp file: ", err))
	}
	return p
}

func decOpLine(f *format, ending string, data []byte) string {
	return f.decOp + " " + ending + " " + hx(data)
}
