package main

import (
	"compress/gzip"
	"context"
	"bufio"
	"bytes"
	"fmt"
	"io"
	"os"
	"path/filepath"
	"strings"

	"github.com/fluhus/biostuff/formats/bed"
	"github.com/fluhus/biostuff/formats/fasta"
	"github.com/fluhus/biostuff/formats/fastq"
	"github.com/fluhus/biostuff/formats/newick"
	"github.com/fluhus/biostuff/formats/sam"
	"github.com/fluhus/biostuff/formats/smtext"
)

func init() {
	generators["C06"] = genC06
	generators["C07"] = genC07
	generators["C11"] = genC11
	generators["C18"] = genC18
}

// crlfOutsideQuotes turns LF into CR LF except inside single-quoted tokens.
func crlfOutsideQuotes(b []byte) []byte {
	var out []byte
	inq := false
	for _, x := range b {
		if x == '\'' {
			inq = !inq
		}
		if x == '\n' && !inq {
			out = append(out, '\r')
		}
		out = append(out, x)
	}
	return out
}

func crlf(b []byte) []byte { return bytes.ReplaceAll(b, []byte("\n"), []byte("\r\n")) }

// ---------------- C06 ----------------

func genC06(c *Ctx) {
	for _, f := range formats {
		deliveryCases(c, f)
		long := append(c.longLineInputs(f.name), c.boundaryInputs(f.name)...)
		for i := 0; i < c.n(120)+len(long); i++ {
			var data []byte
			kind := "wf"
			if i >= c.n(120) {
				data = long[i-c.n(120)]
				kind = "wf-long"
			} else if i%3 == 2 {
				data = f.malformed(c)
				kind = "malformed"
			} else if f.name == "bed" && i%3 == 1 {
				data = c.bedWithComments(true)
			} else {
				data = f.wellFormed(c)
			}
			limit := len(data) + 16
			base := itemsStr(f.decode(bytes.NewReader(data), 0, limit))
			oracle := ""
			nsched := 0
			try := func(r io.Reader, what string) {
				nsched++
				if got := itemsStr(f.decode(r, 0, limit)); got != base && oracle == "" {
					oracle = what + ": " + trunc(got, 120) + " vs whole-buffer " + trunc(base, 120)
				}
			}
			try(&chunkReader{data: data, sizes: []int{1}}, "one byte at a time")
			try(&chunkReader{data: data, sizes: []int{1}, withEOF: true}, "one byte at a time, last with EOF")
			try(&chunkReader{data: data, withEOF: true}, "all data together with EOF")
			for k := 0; k < 3; k++ {
				sizes := make([]int, 1+c.rng.Intn(5))
				for j := range sizes {
					sizes[j] = c.rng.Intn(9) // includes empty reads
				}
				nz := false
				for _, s := range sizes {
					nz = nz || s > 0
				}
				if !nz {
					sizes[0] = 1
				}
				try(&chunkReader{data: data, sizes: sizes, withEOF: k == 0}, fmt.Sprint("chunk sizes ", sizes))
			}
			if len(data) <= 64 {
				for cut := 0; cut <= len(data); cut++ {
					try(io.MultiReader(bytes.NewReader(data[:cut]), bytes.NewReader(data[cut:])), fmt.Sprint("split at ", cut))
				}
			}
			if len(data) <= 24 && c.thor {
				for a := 0; a <= len(data); a++ {
					for b := a; b <= len(data); b++ {
						try(io.MultiReader(bytes.NewReader(data[:a]), bytes.NewReader(data[a:b]), bytes.NewReader(data[b:])), fmt.Sprint("split at ", a, b))
					}
				}
			}
			// CRLF on well-formed input.
			if kind == "wf" || kind == "wf-long" {
				cr := crlf(data)
				if f.name == "newick" {
					cr = crlfOutsideQuotes(data) // an LF inside a quoted name is content, not a terminator
				}
				if got := itemsStr(f.decode(bytes.NewReader(cr), 0, limit+len(cr))); got != base && oracle == "" {
					oracle = "CRLF line terminators change the result: " + trunc(got, 120)
				}
				// CRLF text under other delivery schedules
				for _, sizes := range [][]int{{1}, {7}, {4096}, {4095}, {3, 0, 5000}} {
					nsched++
					if got := itemsStr(f.decode(&chunkReader{data: cr, sizes: sizes}, 0, limit+len(cr))); got != base && oracle == "" {
						oracle = fmt.Sprintf("CRLF text delivered in chunks %v decodes differently: %s", sizes, trunc(got, 120))
					}
				}
			}
			// File plain / gz.
			if i%4 == 0 {
				for _, gz := range []bool{false, true} {
					name := fmt.Sprintf("c06-%s-%d.txt", f.name, i)
					if gz {
						name += ".gz"
					}
					p := writeTemp(name, data, gz)
					if got := itemsStr(f.file(p, 0, limit)); got != base && oracle == "" {
						oracle = fmt.Sprintf("File(%s) differs from Reader: %s vs %s", filepath.Base(p), trunc(got, 120), trunc(base, 120))
					}
					os.Remove(p)
					nsched++
				}
			}
			c.add(Case{Op: decOpLine(f, "e", data), Impl: base, Kind: f.name + "-" + kind, Nontrivial: len(data) > 0 && base != ".",
				Oracle: oracle, Note: fmt.Sprintf("%s input %q (%d delivery schedules)", f.name, trunc(string(data), 200), nsched)})
		}
		// Unopenable path: exactly one error item.
		items, st := f.file(filepath.Join(workDir(), "does-not-exist", "x."+f.name), 0, 10)
		oracle := ""
		if itemsStr(items, st) != "E" {
			oracle = "File on a missing path yields " + itemsStr(items, st) + ", want one error"
		}
		c.add(Case{Kind: f.name + "-nofile", Nontrivial: true, Oracle: oracle, Note: f.name + ".File on a path that cannot be opened"})
		// a missing path whose NEIGHBOURS exist (the same name with .gz / without .gz / plus ".1"):
		// still exactly one error item, never the records of some other file
		good := f.wellFormed(c)
		for len(good) < 20 {
			good = append(good, f.wellFormed(c)...)
		}
		for k, pair := range [][2]string{{"nb-%s.dat.gz", "nb-%s.dat"}, {"nb-%s.dat", "nb-%s.dat.gz"}, {"nb-%s.dat.1", "nb-%s.dat"}, {"nb-%s.dat.gz.gz", "nb-%s.dat.gz"}} {
			existing := writeTemp(fmt.Sprintf(pair[0], f.name), good, strings.HasSuffix(pair[0], ".gz"))
			missing := filepath.Join(workDir(), fmt.Sprintf(pair[1], f.name))
			os.Remove(missing)
			items, st := f.file(missing, 0, len(good)+16)
			os.Remove(existing)
			oracle := ""
			if itemsStr(items, st) != "E" {
				oracle = fmt.Sprintf("%s.File(%q), which does not exist (but %q does), yields %s, want one error", f.name, filepath.Base(missing), filepath.Base(existing), trunc(itemsStr(items, st), 80))
			}
			c.add(Case{Kind: f.name + "-nofile-neighbour", Nontrivial: true, Oracle: oracle, Note: fmt.Sprintf("%s.File on a missing path next to an existing file (variant %d)", f.name, k)})
		}
	}
	interleaved(c, "")
	gzipLookalike(c)
}

// ---------------- C07 ----------------

// recordWriters: per format, a constructor of (Write method of a fresh random record, its text).
type recWriter struct {
	name string
	mk   func() (func(io.Writer) error, []byte)
}

func recordWriters(c *Ctx) []recWriter {
	ws := []recWriter{
		{"fasta-long", func() (func(io.Writer) error, []byte) {
			r := c.fastaRec(10)
			r.Name = c.text(c.rng.Intn(4), "")
			r.Sequence = c.text([]int{1281, 1300, 3999, 4017, 4040, 4079, 4080, 5000, 8100, 8200}[c.rng.Intn(10)], ">")
			t, _ := r.MarshalText()
			return r.Write, t
		}},
		{"fasta", func() (func(io.Writer) error, []byte) {
			r := c.fastaRec(200)
			t, _ := r.MarshalText()
			return r.Write, t
		}},
		// a FIRST field longer than a 4096-byte buffer (a buffered writer passes such a write straight through)
		{"fasta-longname", func() (func(io.Writer) error, []byte) {
			r := &fasta.Fasta{Name: c.text([]int{4094, 4095, 4096, 4200, 8200}[c.rng.Intn(5)], ""), Sequence: c.text(c.rng.Intn(100), ">")}
			t, _ := r.MarshalText()
			return r.Write, t
		}},
		{"fastq-longname", func() (func(io.Writer) error, []byte) {
			r := &fastq.Fastq{Name: c.text([]int{4094, 4095, 4096, 4200}[c.rng.Intn(4)], ""), Sequence: []byte("ACGT"), Quals: []byte("IIII")}
			t, _ := r.MarshalText()
			return r.Write, t
		}},
		{"sam-longname", func() (func(io.Writer) error, []byte) {
			r := c.samRec()
			r.Qname = "q" + string(c.text([]int{4094, 4095, 4096, 4200}[c.rng.Intn(4)], ""))
			t, _ := r.MarshalText()
			return r.Write, t
		}},
		{"bed-longname", func() (func(io.Writer) error, []byte) {
			r := c.bedRec(3 + c.rng.Intn(10))
			r.Chrom = "c" + string(c.text([]int{4094, 4095, 4096, 4200}[c.rng.Intn(4)], ""))
			t, _ := r.MarshalText()
			return r.Write, t
		}},
		{"newick-longname", func() (func(io.Writer) error, []byte) {
			r := c.randTree(1 + c.rng.Intn(3))
			r.Name = string(c.text([]int{4094, 4095, 4096, 4200}[c.rng.Intn(4)], ""))
			t, _ := r.MarshalText()
			return r.Write, t
		}},
		{"fastq", func() (func(io.Writer) error, []byte) { r := c.fastqRec(60); t, _ := r.MarshalText(); return r.Write, t }},
		{"sam", func() (func(io.Writer) error, []byte) { r := c.samRec(); t, _ := r.MarshalText(); return r.Write, t }},
		{"bed", func() (func(io.Writer) error, []byte) {
			r := c.bedRec(3 + c.rng.Intn(10))
			t, _ := r.MarshalText()
			return r.Write, t
		}},
		{"newick", func() (func(io.Writer) error, []byte) {
			r := c.randTree(1 + c.rng.Intn(6))
			t, _ := r.MarshalText()
			return r.Write, t
		}},
	}
	// records whose ENCODING is exactly 4096 or 8192 bytes, newline included (a writer that assembles the line in
	// a fixed-size buffer and flushes it when full sees its last byte complete a buffer)
	exact := func(name string, mk func(pad int) (func(io.Writer) error, []byte)) recWriter {
		return recWriter{name + "-exact", func() (func(io.Writer) error, []byte) {
			target := []int{4096, 8192}[c.rng.Intn(2)]
			_, t0 := mk(100)
			w, t := mk(100 + target - len(t0))
			if len(t) != target {
				panic(fmt.Sprintf("harness: %s-exact record has %d bytes, want %d", name, len(t), target))
			}
			return w, t
		}}
	}
	pad := func(n int) string { return strings.Repeat("n", n) }
	ws = append(ws,
		exact("fasta", func(p int) (func(io.Writer) error, []byte) {
			r := &fasta.Fasta{Name: []byte(pad(p)), Sequence: []byte("ACGT")}
			t, _ := r.MarshalText()
			return r.Write, t
		}),
		exact("fastq", func(p int) (func(io.Writer) error, []byte) {
			r := &fastq.Fastq{Name: []byte(pad(p)), Sequence: []byte("ACGT"), Quals: []byte("IIII")}
			t, _ := r.MarshalText()
			return r.Write, t
		}),
		exact("sam", func(p int) (func(io.Writer) error, []byte) {
			r := plainSam(pad(p))
			t, _ := r.MarshalText()
			return r.Write, t
		}),
		exact("bed", func(p int) (func(io.Writer) error, []byte) {
			r := &bed.BED{N: 4, Chrom: "chr1", ChromStart: 0, ChromEnd: 1, Name: pad(p)}
			t, _ := r.MarshalText()
			return r.Write, t
		}),
		exact("bed12", func(p int) (func(io.Writer) error, []byte) {
			r := &bed.BED{N: 12, Chrom: pad(p), ChromStart: 0, ChromEnd: 9, Name: "n", Strand: "+", BlockCount: 2, BlockSizes: []int{1, 2}, BlockStarts: []int{0, 5}}
			t, _ := r.MarshalText()
			return r.Write, t
		}),
		exact("newick", func(p int) (func(io.Writer) error, []byte) {
			r := tree1(pad(p), tree1("a"), tree1("b"))
			t, _ := r.MarshalText()
			return r.Write, t
		}),
	)
	return ws
}

// writeAfterFault (C01-C05): a Write that fails part-way must leave no trace: the next Write and MarshalText
// of another record are what they would have been.
func writeAfterFault(c *Ctx, format string) {
	for _, w := range recordWriters(c) {
		if w.name != format {
			continue
		}
		for i := 0; i < c.n(12); i++ {
			otherWrite, otherFull := w.mk()
			write, full := w.mk()
			k := 0
			if len(full) > 0 {
				k = c.rng.Intn(len(full))
			}
			write(&limitWriter{k: k})
			var hb bytes.Buffer
			herr := otherWrite(&hb)
			oracle := ""
			if herr != nil || !bytes.Equal(hb.Bytes(), otherFull) {
				oracle = fmt.Sprintf("%s: after a Write that failed at byte %d of %d, the Write of another record produced %q, want %q", format, k, len(full), trunc(hb.String(), 80), trunc(string(otherFull), 80))
			}
			c.add(Case{Kind: "write-after-failed-write", Nontrivial: true, Oracle: oracle, Note: fmt.Sprintf("%s: Write to a writer failing after %d bytes, then Write of another record to a healthy writer", format, k)})
		}
	}
}

func genC07(c *Ctx) {
	maxLen := 300
	if c.thor {
		maxLen = 1500
	}
	for _, f := range formats {
		for i := 0; i < c.n(12); i++ {
			data := f.wellFormed(c)
			if f.name == "bed" && i%2 == 1 {
				data = c.bedWithComments(false)
			}
			if len(data) > maxLen {
				data = f.wellFormed(c)
			}
			if len(data) > maxLen {
				continue
			}
			clean, _ := f.decode(bytes.NewReader(data), 0, len(data)+16)
			for k := 0; k <= len(data); k++ {
				limit := len(data) + 16
				once := itemsStr(f.decode(&faultReader{data: data[:k]}, 0, limit))
				forever := itemsStr(f.decode(&faultReader{data: data[:k], forever: true}, 0, limit))
				small := itemsStr(f.decode(&faultReader{data: data[:k], forever: true, chunk: 3}, 0, limit))
				together := itemsStr(f.decode(&faultReader{data: data[:k], withData: true}, 0, limit))
				wrapped := itemsStr(f.decode(&faultReader{data: data[:k], err: errWrapsEOF}, 0, limit))
				oracle := ""
				chk := func(got, mode string) {
					if oracle != "" {
						return
					}
					if strings.Contains(got, ":") { // "STATUS:items" (items never contain a colon)
						oracle = mode + ": " + trunc(got, 100)
						return
					}
					items := strings.Split(got, "|")
					if got == "." {
						items = nil
					}
					if len(items) == 0 || items[len(items)-1] != "E" {
						oracle = mode + ": iteration ends without reporting the read error: " + trunc(got, 100)
						return
					}
					recs := items[:len(items)-1]
					for j, r := range recs {
						if r == "E" {
							continue // per-line errors (SAM) cannot occur in well-formed input, flagged below
						}
						if j >= len(clean) || clean[j] != r {
							oracle = fmt.Sprintf("%s: item %d %s is not the fault-free decode's item %d", mode, j, trunc(r, 80), j)
							return
						}
					}
					for _, r := range recs {
						if r == "E" {
							oracle = mode + ": an error item before the final one on well-formed input: " + trunc(got, 100)
						}
					}
				}
				chk(once, "error once then EOF")
				chk(forever, "error forever")
				chk(small, "error forever, 3-byte reads")
				chk(together, "error returned together with the last bytes")
				chk(wrapped, "a read error that wraps io.EOF (still a failure, not the end of the data)")
				if k%3 == 0 {
					// the read error is one of the standard library's own sentinel values: only io.EOF itself ends the data
					for _, se := range sentinelErrs {
						chk(itemsStr(f.decode(&faultReader{data: data[:k], err: se}, 0, limit)), fmt.Sprintf("the read fails with %q", se))
					}
				}
				if oracle == "" && together != once {
					oracle = "error delivered together with the last bytes gives a different result: " + trunc(together, 80) + " / " + trunc(once, 80)
				}
				if oracle == "" && (once != forever || once != small) {
					oracle = "fault behaviours disagree: " + trunc(once, 80) + " / " + trunc(forever, 80) + " / " + trunc(small, 80)
				}
				c.add(Case{Op: decOpLine(f, "f", data[:k]), Impl: once, Kind: f.name + "-read", Nontrivial: k > 0 && k < len(data),
					Oracle: oracle, Note: fmt.Sprintf("%s: read fault after %d of %d bytes of %q", f.name, k, len(data), trunc(string(data), 200))})
			}
		}
	}
	// Long lines: faults at sampled offsets (all offsets near 4096-multiples and near the end).
	for _, f := range formats {
		for _, data := range c.longLineInputs(f.name)[:6] {
			clean, _ := f.decode(bytes.NewReader(data), 0, len(data)+16)
			for k := 0; k <= len(data); k++ {
				near := k%4096 < 4 || k%4096 > 4092 || len(data)-k < 40 || k%97 == 0
				if !near {
					continue
				}
				for _, forever := range []bool{false, true} {
					got := itemsStr(f.decode(&faultReader{data: data[:k], forever: forever}, 0, len(data)+16))
					oracle := ""
					items := strings.Split(got, "|")
					if strings.Contains(got, ":") {
						oracle = "long input: " + trunc(got, 80)
					} else if got == "." || items[len(items)-1] != "E" {
						oracle = "long input: iteration ends without reporting the read error"
					} else {
						for j, r := range items[:len(items)-1] {
							if j >= len(clean) || clean[j] != r {
								oracle = fmt.Sprintf("long input: item %d is not the fault-free decode's item (record built from a truncated line?)", j)
								break
							}
						}
					}
					if oracle != "" || (k%977 == 0 && !forever) {
						c.add(Case{Op: decOpLine(f, "f", data[:k]), Impl: got, Kind: f.name + "-read-long", Nontrivial: true, Oracle: oracle,
							Note: fmt.Sprintf("%s: read fault after %d of %d bytes (long lines)", f.name, k, len(data))})
					}
				}
			}
		}
	}
	// Very long lines (beyond 64 KiB and 128 KiB): faults around every multiple of 4096, around 64 KiB and 128 KiB,
	// in the last bytes of the long line and at a sparse grid in between.
	for _, f := range formats {
		for _, data := range c.veryLongLineInputs(f.name) {
			clean, _ := f.decode(bytes.NewReader(data), 0, len(data)+16)
			bad, badK, tried := "", 0, 0
			for k := 0; k <= len(data) && bad == ""; k++ {
				near := k%4096 == 0 || k%4096 == 1 || k%4096 == 4095 || len(data)-k < 60 || k%1009 == 0 || (k > 65530 && k < 65545) || (k > 131066 && k < 131080)
				if !near {
					continue
				}
				for _, forever := range []bool{false, true} {
					tried++
					got := itemsStr(f.decode(&faultReader{data: data[:k], forever: forever}, 0, len(data)+16))
					items := strings.Split(got, "|")
					if strings.Contains(got, ":") {
						bad, badK = trunc(got, 80), k
					} else if got == "." || items[len(items)-1] != "E" {
						bad, badK = "iteration ends without reporting the read error", k
					} else {
						for j, r := range items[:len(items)-1] {
							if j >= len(clean) || clean[j] != r {
								bad, badK = fmt.Sprintf("item %d is not the fault-free decode's item (a record or an error built from a truncated line?)", j), k
								break
							}
						}
					}
				}
			}
			oracle := ""
			if bad != "" {
				oracle = fmt.Sprintf("%s, a line of %d bytes, read fault after %d bytes: %s", f.name, len(data)-20, badK, bad)
			}
			c.add(Case{Kind: f.name + "-read-very-long", Nontrivial: true, Oracle: oracle, Note: fmt.Sprintf("%s: %d read faults inside and around a line of about %d bytes", f.name, tried, len(data))})
		}
	}
	corruptGzipFiles(c)
	bufioDestinations(c)
	bigRecordWriteFaults(c)
	ws := recordWriters(c)
	for _, w := range ws {
		reps := c.n(10)
		if w.name == "fasta-long" {
			reps = 8
		}
		if strings.HasSuffix(w.name, "-longname") {
			reps = 3
		}
		if strings.HasSuffix(w.name, "-exact") {
			reps = 2
		}
		for i := 0; i < reps; i++ {
			// a second, different record and its text, fixed BEFORE any write fails: after a failed Write the next
			// Write (of another record, to a healthy writer) must be unaffected
			otherWrite, otherFull := w.mk()
			write, full := w.mk()
			for k := 0; k <= len(full)+1; k++ {
				lw := &limitWriter{k: k}
				err := write(lw)
				oracle := ""
				if k%5 == 0 || k == len(full)-1 {
					var hb bytes.Buffer
					herr := otherWrite(&hb)
					if herr != nil || !bytes.Equal(hb.Bytes(), otherFull) {
						oracle = fmt.Sprintf("after a Write that failed at byte %d, the Write of ANOTHER record to a healthy writer produced %q, want %q", k, trunc(hb.String(), 80), trunc(string(otherFull), 80))
					}
				}
				if oracle != "" {
					// keep the first explanation
				} else if k < len(full) && err == nil {
					oracle = fmt.Sprintf("Write returned nil although the writer failed after %d of %d bytes", k, len(full))
				} else if k >= len(full) && err != nil {
					oracle = "Write returned an error although everything was accepted"
				} else if !bytes.HasPrefix(full, lw.got) {
					oracle = "bytes accepted before the fault are not a prefix of the record's text"
				}
				c.add(Case{Kind: w.name + "-write", Nontrivial: k > 0 && k < len(full), Oracle: oracle,
					Note: fmt.Sprintf("%s.Write of %q to a writer failing after %d bytes", w.name, trunc(string(full), 120), k)})
			}
		}
	}
}

// sentinelErrs: errors a real source reports (a truncated gzip stream or io.ReadFull: ErrUnexpectedEOF; a
// closed pipe or file; a deadline; a cancelled context); none of them is the end of the data
var sentinelErrs = []error{io.ErrUnexpectedEOF, io.ErrClosedPipe, io.ErrNoProgress, os.ErrDeadlineExceeded, os.ErrClosed, context.Canceled}

// corruptGzipFiles (C07, round 8): File on .gz files that are damaged after a record boundary -- truncated right
// after a flush point, the CRC or the length trailer corrupted -- must end with an error item, never cleanly.
func corruptGzipFiles(c *Ctx) {
	for _, f := range formats {
		var recs [][]byte
		for len(recs) < 4 {
			recs = append(recs, f.wellFormed(c))
		}
		var b bytes.Buffer
		zw := gzip.NewWriter(&b)
		var flushAt []int
		for _, r := range recs {
			zw.Write(r)
			zw.Flush()
			flushAt = append(flushAt, b.Len())
		}
		zw.Close()
		whole := b.Bytes()
		type variant struct {
			what string
			data []byte
		}
		var vs []variant
		for j, at := range flushAt[:len(flushAt)-1] {
			vs = append(vs, variant{fmt.Sprintf("truncated right after the flush point that follows record %d", j+1), append([]byte(nil), whole[:at]...)})
		}
		vs = append(vs, variant{"truncated inside the trailer", append([]byte(nil), whole[:len(whole)-3]...)})
		crc := append([]byte(nil), whole...)
		crc[len(crc)-6] ^= 0x5a
		vs = append(vs, variant{"with a corrupted CRC-32 trailer", crc})
		isz := append([]byte(nil), whole...)
		isz[len(isz)-1] ^= 0x01
		vs = append(vs, variant{"with a corrupted length trailer", isz})
		for j, v := range vs {
			p := writeTemp(fmt.Sprintf("c07gz-%s-%d.dat.gz", f.name, j), v.data, false)
			items, st := f.file(p, 0, len(whole)*40+64)
			os.Remove(p)
			oracle := ""
			if st != "" {
				oracle = fmt.Sprintf("%s.File on a .gz file %s: %s", f.name, v.what, st)
			} else if len(items) == 0 || items[len(items)-1] != "E" {
				oracle = fmt.Sprintf("%s.File on a .gz file %s ends without an error item (%d items): the data is NOT complete", f.name, v.what, len(items))
			}
			c.add(Case{Kind: f.name + "-file-corrupt-gzip", Nontrivial: true, Oracle: oracle, Note: fmt.Sprintf("%s.File on a %d-byte .gz of %d records, %s", f.name, len(v.data), len(recs), v.what)})
		}
	}
}

// bufioDestinations (C07, round 8): the destination is a *bufio.Writer over a device that fails after k bytes.
// A bufio.Writer keeps its first error and returns it from every later Write: if the record's Write returned nil,
// the bufio.Writer must not yet hold an error.
func bufioDestinations(c *Ctx) {
	for _, w := range recordWriters(c) {
		if strings.Contains(w.name, "-long") || strings.Contains(w.name, "-exact") {
			continue
		}
		for i := 0; i < c.n(4); i++ {
			write, full := w.mk()
			for _, size := range []int{16, 64, 4096} {
				for k := 0; k <= len(full)+1; k += 1 + len(full)/40 {
					bw := bufio.NewWriterSize(&limitWriter{k: k}, size)
					err := write(bw)
					oracle := ""
					if err == nil {
						if _, e2 := bw.Write(nil); e2 != nil {
							oracle = fmt.Sprintf("%s.Write to a bufio.Writer (size %d) over a device failing after %d bytes returned nil although the bufio.Writer had already failed (%v)", w.name, size, k, e2)
						}
					}
					c.add(Case{Kind: w.name + "-write-bufio", Nontrivial: true, Oracle: oracle, Note: fmt.Sprintf("%s.Write of %d bytes to bufio.NewWriterSize(device failing after %d, %d)", w.name, len(full), k, size)})
				}
			}
		}
	}
}

// ---------------- C11 ----------------

// fixed-point oracle per format: re-encode each accepted record and re-read.
func fixedPoint(f *format, data []byte) string {
	clean := func(ss ...string) bool {
		for _, s := range ss {
			if strings.ContainsAny(s, "\t\r\n") {
				return false
			}
		}
		return true
	}
	switch f.name {
	case "fasta":
		for r, err := range fasta.Reader(bytes.NewReader(data)) {
			if err != nil {
				break
			}
			if !clean(string(r.Name), string(r.Sequence)) || bytes.IndexByte(r.Sequence, '>') >= 0 {
				continue
			}
			t, _ := r.MarshalText()
			if got := itemsStr(decFasta(bytes.NewReader(t), 0, 10)); got != faS(r) {
				return "accepted record is not a fixed point: " + faS(r) + " -> " + trunc(got, 100)
			}
		}
	case "fastq":
		for r, err := range fastq.Reader(bytes.NewReader(data)) {
			if err != nil {
				break
			}
			if !clean(string(r.Name), string(r.Sequence), string(r.Quals)) {
				continue
			}
			t, _ := r.MarshalText()
			if got := itemsStr(decFastq(bytes.NewReader(t), 0, 10)); got != fqS(r) {
				return "accepted record is not a fixed point: " + fqS(r) + " -> " + trunc(got, 100)
			}
		}
	case "sam", "samh":
		n := 0
		for r, err := range sam.Reader(bytes.NewReader(data)) {
			n++
			if n > len(data)+16 {
				break
			}
			if err != nil {
				continue
			}
			ok := clean(r.Qname, r.Rname, r.Cigar, r.Rnext, r.Seq, r.Qual) && !strings.HasPrefix(r.Qname, "@")
			for k, v := range r.Tags {
				if !clean(k) {
					ok = false
				}
				if s, isS := v.(string); isS && !clean(s) {
					ok = false
				}
				if b, isB := v.(byte); isB && (b == '\t' || b == '\r' || b == '\n') {
					ok = false
				}
			}
			if !ok {
				continue
			}
			t, _ := r.MarshalText()
			if got := itemsStr(decSam(bytes.NewReader(t), 0, 10)); got != samS(r) {
				return "accepted record is not a fixed point: " + trunc(samS(r), 150) + " -> " + trunc(got, 150)
			}
		}
	case "bed":
		for r, err := range bed.Reader(bytes.NewReader(data)) {
			if err != nil {
				break
			}
			if !clean(r.Chrom, r.Name, r.Strand) || strings.HasPrefix(r.Chrom, "#") {
				continue
			}
			t, _ := r.MarshalText()
			if got := itemsStr(decBed(bytes.NewReader(t), 0, 10)); got != bedS(r) {
				return "accepted record is not a fixed point: " + bedS(r) + " -> " + trunc(got, 100)
			}
		}
	case "newick":
		for r, err := range newick.Reader(bytes.NewReader(data)) {
			if err != nil {
				break
			}
			t, _ := r.MarshalText()
			if got := itemsStr(decNewick(bytes.NewReader(t), 0, 10)); got != treeS(r) {
				return "accepted tree is not a fixed point: " + trunc(treeS(r), 100) + " -> " + trunc(got, 100)
			}
		}
	}
	return ""
}

func genC11(c *Ctx) {
	for _, f := range formats {
		extra := append(c.longLineInputs(f.name), c.boundaryInputs(f.name)...)
		for _, in := range c.independentInputs(f.name) {
			extra = append(extra, in.data, in.data) // the second copy gets mutated below
		}
		for _, d := range errorClassInputs(f.name) {
			extra = append(extra, d, d) // (odd positions are mutated and normalised below, even ones normalised here)
		}
		for i := 0; i < c.n(400)+len(extra); i++ {
			var data []byte
			if i < len(extra) {
				data = extra[i]
				if i%2 == 0 {
					switch f.name {
					case "sam", "samh":
						data = normSam(data)
					case "bed":
						data = normBed(data)
					case "newick":
						data = normNewick(data)
					}
				}
				if i%2 == 1 {
					data = c.mutate(data, []byte("@\t\r\n"))
					switch f.name {
					case "sam", "samh":
						data = normSam(data)
					case "bed":
						data = normBed(data)
					case "newick":
						data = normNewick(data)
					}
				}
			} else {
				data = f.malformed(c)
			}
			limit := len(data) + 16
			got := itemsStr(f.decode(bytes.NewReader(data), 0, limit))
			oracle := ""
			if strings.HasPrefix(got, "PANIC") || strings.HasPrefix(got, "NONTERM") || strings.HasPrefix(got, "CALLED") {
				oracle = "decoder did not terminate cleanly: " + trunc(got, 80)
			} else if fp := safe(func() string { return fixedPoint(f, data) }); fp != "" {
				oracle = fp
			}
			c.add(Case{Op: decOpLine(f, "e", data), Impl: got, Kind: f.name, Nontrivial: len(data) > 0, Oracle: oracle,
				Note: fmt.Sprintf("%s input %q", f.name, trunc(string(data), 200))})
		}
	}
	// SAM: single-line corruption at every line position of a valid file.
	for i := 0; i < c.n(60); i++ {
		hs, rs := c.samFile()
		if len(rs) == 0 {
			continue
		}
		var lines []string
		for _, h := range hs {
			lines = append(lines, h)
		}
		for _, r := range rs {
			t, _ := r.MarshalText()
			lines = append(lines, strings.TrimSuffix(string(t), "\n"))
		}
		cleanItems, _ := decSamH(strings.NewReader(strings.Join(lines, "\n")+"\n"), 0, 1000)
		for li := len(hs); li < len(lines); li++ {
			fs := strings.Split(lines[li], "\t")
			for kind := 0; kind < 4; kind++ {
				g := append([]string(nil), fs...)
				switch kind {
				case 0:
					g = g[:5+c.rng.Intn(6)] // too few fields
				case 1:
					g[[]int{1, 3, 4, 7, 8}[c.rng.Intn(5)]] = []string{"12x", "-", "+", "", "1 2"}[c.rng.Intn(5)]
				case 2:
					g = append(g, "XXi5") // ill-formed tag
				case 3:
					g = append(g, []string{"XX:i:abc", "XX:A:ab", "XX:H:abc", "XX:q:1"}[c.rng.Intn(4)])
				}
				mod := append([]string(nil), lines...)
				mod[li] = strings.Join(g, "\t")
				txt := []byte(strings.Join(mod, "\n") + "\n")
				items, st := decSamH(bytes.NewReader(txt), 0, 1000)
				want := append([]string(nil), cleanItems...)
				want[li] = "E"
				oracle := ""
				if itemsStr(items, st) != joinItems(want) {
					oracle = fmt.Sprintf("corrupting line %d (kind %d) does not give exactly one error in that position", li, kind)
				}
				c.add(Case{Op: "sam.dech e " + hx(txt), Impl: itemsStr(items, st), Kind: fmt.Sprintf("sam-line-corrupt%d", kind),
					Nontrivial: true, Oracle: oracle, Note: fmt.Sprintf("sam file %q", trunc(string(txt), 300))})
			}
		}
	}
	// NCBI matrix reader on arbitrary and near-valid bytes.
	for i := 0; i < c.n(300); i++ {
		var data []byte
		if i%2 == 0 {
			data = c.bytesFrom([]byte("AB*# \t\r\n1-.5x\f"), c.rng.Intn(40))
		} else {
			data = c.mutate(c.ncbiText(c.ncbiTable()), []byte("# \t\r\n*x-."))
		}
		data = normNCBI(data)
		got := safe(func() string { return ncbiS(smtext.ReadNCBI(bytes.NewReader(data))) })
		oracle := ""
		if got == "PANIC" {
			oracle = "ReadNCBI panicked"
		}
		c.add(Case{Op: "sm.read " + hx(data), Impl: got, Kind: "ncbi", Nontrivial: len(data) > 0, Oracle: oracle,
			Note: fmt.Sprintf("ReadNCBI(%q)", trunc(string(data), 200))})
	}
}

// ---------------- C18 ----------------

func genC18(c *Ctx) {
	canonHugeStops(c)
	nestedTraversals(c)
	trieFullFanout(c)
	longStops(c)
	canonLongStops(c)
	for _, f := range formats {
		all := c.boundaryInputs(f.name)
		var big [][]byte
		for k, d := range all { // a spread on both sides of 4096 and 8192, not the first few
			if k%3 == 0 {
				big = append(big, d)
			}
		}
		big = append(big, c.veryLongLineInputs(f.name)...)
		big = append(big, c.longLineInputs(f.name)[3:6]...)
		// several records spread over more than one buffer refill
		var multi []byte
		for len(multi) < 10000 {
			multi = append(multi, f.wellFormed(c)...)
		}
		big = append(big, multi)
		switch f.name {
		case "sam", "samh":
			for _, d := range errorClassInputs(f.name) {
				big = append(big, normSam(d))
			}
		case "bed":
			for _, d := range errorClassInputs(f.name) {
				big = append(big, normBed(d))
			}
		case "newick":
			for _, d := range errorClassInputs(f.name) {
				big = append(big, normNewick(d))
			}
		default:
			big = append(big, errorClassInputs(f.name)...)
		}
		for i := 0; i < c.n(60)+len(big); i++ {
			var data []byte
			if i >= c.n(60) {
				data = big[i-c.n(60)]
			} else if i%2 == 0 {
				data = f.wellFormed(c)
			} else {
				data = f.malformed(c)
			}
			limit := len(data) + 16
			full, st := f.decode(bytes.NewReader(data), 0, limit)
			oracle := ""
			if st != "" {
				oracle = "uninterrupted run: " + st
			}
			if f.name != "sam" && f.name != "samh" {
				for j, it := range full {
					if it == "E" && j != len(full)-1 {
						oracle = "an error item is not the last item"
					}
				}
			}
			stops := 0
			for j := 1; j <= len(full)+1 && oracle == ""; j++ {
				for _, viaFile := range []bool{false, true} {
					if viaFile && (i%5 != 0 || j > 6) {
						continue
					}
					var got []string
					var s string
					if viaFile {
						p := writeTemp(fmt.Sprintf("c18-%s.txt", f.name), data, false)
						got, s = f.file(p, j, limit)
						os.Remove(p)
					} else {
						got, s = f.decode(&chunkReader{data: data, sizes: []int{7}}, j, limit)
					}
					stops++
					want := full
					if j < len(full) {
						want = full[:j]
					}
					if s != "" {
						oracle = fmt.Sprintf("stopping after %d items: %s", j, s)
					} else if joinItems(got) != joinItems(want) {
						oracle = fmt.Sprintf("stopping after %d items: saw %s, uninterrupted run starts %s", j, trunc(joinItems(got), 80), trunc(joinItems(want), 80))
					}
				}
			}
			// a reader that fails after the last byte, stopped at every position
			if oracle == "" && i%2 == 0 {
				withData := i%4 == 0 // the error arrives together with the last bytes: it is latched while records are still buffered
				fullF, stF := f.decode(&faultReader{data: data, chunk: 64, withData: withData}, 0, limit)
				if withData {
					fullF, stF = f.decode(&faultReader{data: data, withData: true}, 0, limit)
				}
				if stF != "" {
					oracle = "faulting reader, uninterrupted: " + stF
				}
				for j := 1; j <= len(fullF) && oracle == ""; j++ {
					fr := &faultReader{data: data, chunk: 64}
					if withData {
						fr = &faultReader{data: data, withData: true}
					}
					got, s := f.decode(fr, j, limit)
					stops++
					if s != "" {
						oracle = fmt.Sprintf("faulting reader, stopping after %d items: %s", j, s)
					} else if joinItems(got) != joinItems(fullF[:j]) {
						oracle = fmt.Sprintf("faulting reader, stopping after %d items: saw %s", j, trunc(joinItems(got), 80))
					}
				}
			}
			c.add(Case{Op: decOpLine(f, "e", data), Impl: itemsStr(full, st), Kind: f.name + "-reader", Nontrivial: len(full) > 1, Oracle: oracle,
				Note: fmt.Sprintf("%s input %q, %d stopped runs", f.name, trunc(string(data), 160), stops)})
		}
	}
	// a source whose failed read is followed by more data (a deadline that expired and was extended, a
	// temporary network error): whatever the class of the error, its item is the last one
	for _, f := range formats {
		for ci, class := range []string{"plain", "timeout", "temporary", "wraps-eof", "timeout", "timeout", "temporary"} {
			// ONE well-formed text repeated (texts of different shapes one after the other are not well formed in every
			// format -- BED fixes its field count with the first line -- and a parse error before the fault would end the
			// iteration before the fault is reached); re-drawn until the fault-free decode has no error item
			var data []byte
			for try := 0; try < 20; try++ {
				unit := f.wellFormed(c)
				if len(unit) == 0 {
					continue
				}
				data = nil
				for len(data) < 600 {
					data = append(data, unit...)
				}
				clean, _ := f.decode(bytes.NewReader(data), 0, len(data)+16)
				ok := len(clean) >= 3
				for _, it := range clean {
					if it == "E" {
						ok = false
					}
				}
				if ok {
					break
				}
			}
			cut := len(data)/2 + c.rng.Intn(7)
			if ci >= 4 { // also exactly at a line boundary, and in the first third
				if nl := bytes.IndexByte(data[len(data)/3:], '\n'); nl >= 0 {
					cut = len(data)/3 + nl + 1
				}
				if ci == 5 {
					cut = max(1, cut-3)
				}
			}
			var e error
			switch class {
			case "plain":
				e = errFault
			case "timeout":
				e = os.ErrDeadlineExceeded
			case "temporary":
				e = tempErr{}
			case "wraps-eof":
				e = errWrapsEOF
			}
			items, st := f.decode(&resumeReader{parts: [][]byte{data[:cut], data[cut:]}, errs: []error{e}}, 0, len(data)+16)
			oracle := ""
			if st != "" {
				oracle = "reader that fails once and then delivers more data: " + st
			}
			seenErr := false
			for j, it := range items {
				if it == "E" {
					seenErr = true
					if j != len(items)-1 {
						oracle = fmt.Sprintf("%s: %d item(s) follow the item of a failed read (%s error, more data after it)", f.name, len(items)-1-j, class)
					}
				}
			}
			if !seenErr && oracle == "" {
				oracle = fmt.Sprintf("%s: a failed read (%s error) after %d bytes produced no error item: %s", f.name, class, cut, trunc(joinItems(items), 80))
			}
			c.add(Case{Kind: f.name + "-error-then-more-data", Nontrivial: true, Oracle: oracle, Note: fmt.Sprintf("%s reader over a source that delivers %d bytes, fails once with a %s error, then delivers %d more bytes", f.name, cut, class, len(data)-cut)})
		}
		// File names are literal: metacharacters of shell patterns in a name select nothing else
		dir := filepath.Join(workDir(), "c18-names-"+f.name)
		os.MkdirAll(dir, 0o755)
		own := f.wellFormed(c)
		other := append(append([]byte(nil), f.wellFormed(c)...), f.wellFormed(c)...)
		for _, nm := range []string{"s?.dat", "s*.dat", "s[12].dat", "s{1,2}.dat"} {
			os.WriteFile(filepath.Join(dir, nm), own, 0o644)
			for _, sib := range []string{"s1.dat", "s2.dat", "s12.dat"} {
				os.WriteFile(filepath.Join(dir, sib), other, 0o644)
			}
			want, _ := f.decode(bytes.NewReader(own), 0, len(own)+16)
			oracle := ""
			for _, stop := range []int{0, 1} {
				got, st := f.file(filepath.Join(dir, nm), stop, len(own)+len(other)+16)
				w := want
				if stop > 0 && stop < len(w) {
					w = w[:stop]
				}
				if st != "" && oracle == "" {
					oracle = fmt.Sprintf("%s.File(%q) stopped after %d: %s", f.name, nm, stop, st)
				} else if joinItems(got) != joinItems(w) && oracle == "" {
					oracle = fmt.Sprintf("%s.File(%q) (other files s1.dat, s2.dat, s12.dat exist): items %s, the file holds %s", f.name, nm, trunc(joinItems(got), 80), trunc(joinItems(w), 80))
				}
			}
			c.add(Case{Kind: f.name + "-file-name-literal", Nontrivial: true, Oracle: oracle, Note: fmt.Sprintf("%s.File on a file literally named %q next to s1.dat, s2.dat, s12.dat", f.name, nm)})
		}
		os.RemoveAll(dir)
	}
	genC18Iterators(c)
}

// resumeReader delivers parts[0], fails with errs[0], delivers parts[1], …, then EOF.
type resumeReader struct {
	parts [][]byte
	errs  []error
	k     int
	calls int
}

func (r *resumeReader) Read(p []byte) (int, error) {
	r.calls++
	if r.calls > 1<<20 {
		panic("reader polled more than 2^20 times")
	}
	for r.k < len(r.parts) {
		if len(r.parts[r.k]) > 0 {
			n := copy(p, r.parts[r.k])
			r.parts[r.k] = r.parts[r.k][n:]
			return n, nil
		}
		r.k++
		if r.k-1 < len(r.errs) {
			return 0, r.errs[r.k-1]
		}
	}
	return 0, io.EOF
}

// tempErr is a net.Error-like error that calls itself temporary and a timeout
type tempErr struct{}

func (tempErr) Error() string   { return "injected temporary failure" }
func (tempErr) Timeout() bool   { return true }
func (tempErr) Temporary() bool { return true }
