package main

import (
	"bytes"
	"fmt"
	"math"
	"reflect"
	"strings"

	"github.com/fluhus/biostuff/formats/bed"
	"github.com/fluhus/biostuff/formats/fasta"
	"github.com/fluhus/biostuff/formats/fastq"
	"github.com/fluhus/biostuff/formats/newick"
	"github.com/fluhus/biostuff/formats/sam"
)

func init() {
	generators["C01"] = genC01
	generators["C02"] = genC02
	generators["C03"] = genC03
	generators["C04"] = genC04
	generators["C05"] = genC05
}

func joinItems(items []string) string {
	if len(items) == 0 {
		return "."
	}
	return strings.Join(items, "|")
}

// ---------------- C01 ----------------

func genC01(c *Ctx) {
	writeAfterFault(c, "fasta")
	specialCases(c, "fasta")
	flatBufferRecords(c, "fasta")
	fastaLengthSweep(c)
	// Per-record encoding: Write == MarshalText == model bytes; lines <= 80.
	for i := 0; i < c.n(300); i++ {
		r := c.fastaRec(400)
		var wb bytes.Buffer
		var werr, merr error
		var mt []byte
		pan := safe(func() string { werr = r.Write(&wb); mt, merr = r.MarshalText(); return "" })
		oracle := ""
		if pan == "PANIC" {
			oracle = "Write/MarshalText panicked"
		} else if werr != nil || merr != nil {
			oracle = "Write/MarshalText returned an error"
		} else if !bytes.Equal(wb.Bytes(), mt) {
			oracle = "MarshalText and Write differ"
		} else {
			lines := bytes.Split(bytes.TrimSuffix(mt, []byte("\n")), []byte("\n"))
			if len(lines) == 0 || len(lines[0]) == 0 || lines[0][0] != '>' {
				oracle = "no '>' name line"
			}
			for _, l := range lines[1:] {
				if len(l) > 80 || len(l) == 0 {
					oracle = fmt.Sprintf("sequence line of length %d", len(l))
				}
			}
		}
		c.add(Case{Op: "fa.enc " + hx(r.Name) + " " + hx(r.Sequence), Impl: hx(mt), Kind: "enc",
			Nontrivial: len(r.Sequence) > 80, Oracle: oracle,
			Note: fmt.Sprintf("fasta.Fasta{Name:%q, Sequence: len %d}", r.Name, len(r.Sequence))})
	}
	// Round trip and layouts.
	for i := 0; i < c.n(400); i++ {
		rs := c.fastaRecs()
		var want []string
		for _, r := range rs {
			want = append(want, faS(r))
		}
		texts := map[string][]byte{"writer": fastaWrite(rs)}
		for k := 0; k < 2; k++ {
			texts[fmt.Sprintf("layout%d", k)] = c.fastaLayout(rs)
		}
		for kind, txt := range texts {
			items, st := decFasta(bytes.NewReader(txt), 0, len(txt)+16)
			got := itemsStr(items, st)
			oracle := ""
			if got != joinItems(want) {
				oracle = "read(" + kind + ") != records written"
			}
			nt := false
			for _, r := range rs {
				if len(r.Sequence) > 0 {
					nt = true
				}
			}
			c.add(Case{Op: "fa.dec e " + hx(txt), Impl: got, Kind: kind, Nontrivial: nt && len(rs) > 0, Oracle: oracle,
				Note: fmt.Sprintf("%d records, %s, text %q", len(rs), kind, trunc(string(txt), 200))})
		}
	}
	longCases(c, "fasta", 0)
	boundaryCases(c, "fasta")
	interleaved(c, "fasta")
	aliasCases(c, "fasta")
	retainedMarshal(c, "fasta", func(i int) ([]byte, []byte) {
		r := c.fastaRec(200)
		r.Sequence = c.text(150, ">") // equal sizes: a recycled buffer would fit
		mt, _ := r.MarshalText()
		var b bytes.Buffer
		r.Write(&b)
		return mt, b.Bytes()
	})
	// Big sizes: direct oracle only (and model for the moderately big ones).
	sizes := []int{65535, 65536, 65537}
	if c.thor {
		sizes = append(sizes, 200000, 1<<20+1)
	}
	for _, n := range sizes {
		r := &fasta.Fasta{Name: []byte("big"), Sequence: bytes.Repeat([]byte("ACGT"), n/4+1)[:n]}
		txt := fastaWrite([]*fasta.Fasta{r, r})
		items, st := decFasta(bytes.NewReader(txt), 0, 10)
		oracle := ""
		if itemsStr(items, st) != faS(r)+"|"+faS(r) {
			oracle = fmt.Sprintf("round trip of a %d-base sequence failed", n)
		}
		c.add(Case{Op: "", Impl: "", Kind: "big", Nontrivial: true, Oracle: oracle, Note: fmt.Sprintf("two records with %d bases", n)})
	}
}

// ---------------- C02 ----------------

func genC02(c *Ctx) {
	writeAfterFault(c, "fastq")
	specialCases(c, "fastq")
	flatBufferRecords(c, "fastq")
	qualsLengthGrid(c)
	for i := 0; i < c.n(300); i++ {
		r := c.fastqRec(300)
		var wb bytes.Buffer
		var werr, merr error
		var mt []byte
		pan := safe(func() string { werr = r.Write(&wb); mt, merr = r.MarshalText(); return "" })
		oracle := ""
		if pan == "PANIC" {
			oracle = "Write/MarshalText panicked"
		} else if werr != nil || merr != nil || !bytes.Equal(wb.Bytes(), mt) {
			oracle = "MarshalText and Write differ or fail"
		} else if ls := bytes.Split(mt, []byte("\n")); len(ls) != 5 || len(ls[4]) != 0 ||
			!bytes.Equal(ls[0], append([]byte("@"), r.Name...)) || !bytes.Equal(ls[1], r.Sequence) ||
			string(ls[2]) != "+" || !bytes.Equal(ls[3], r.Quals) {
			oracle = "record is not exactly the four lines @name, seq, +, quals"
		}
		c.add(Case{Op: "fq.enc " + hx(r.Name) + " " + hx(r.Sequence) + " " + hx(r.Quals), Impl: hx(mt), Kind: "enc",
			Nontrivial: len(r.Sequence) > 0, Oracle: oracle, Note: fmt.Sprintf("fastq name %q len %d", r.Name, len(r.Sequence))})
	}
	for i := 0; i < c.n(500); i++ {
		rs := c.fastqRecs()
		var want []string
		for _, r := range rs {
			want = append(want, fqS(r))
		}
		txt := fastqWrite(rs)
		items, st := decFastq(bytes.NewReader(txt), 0, len(txt)+16)
		got := itemsStr(items, st)
		oracle := ""
		if got != joinItems(want) {
			oracle = "read(write(rs)) != rs"
		}
		c.add(Case{Op: "fq.dec e " + hx(txt), Impl: got, Kind: "roundtrip", Nontrivial: len(rs) > 0, Oracle: oracle,
			Note: fmt.Sprintf("%d records, text %q", len(rs), trunc(string(txt), 200))})
		// Structural corruptions of record k.
		if len(rs) == 0 {
			continue
		}
		k := c.rng.Intn(len(rs))
		for kind := 0; kind < 6; kind++ {
			var lines [][]byte
			for j, r := range rs {
				l := [][]byte{append([]byte("@"), r.Name...), r.Sequence, []byte("+"), r.Quals}
				if j == k {
					switch kind {
					case 0: // missing '@', or something in front of it (a byte-order mark, blanks, another format's marker)
						l[0] = r.Name
						if len(l[0]) > 0 && l[0][0] == '@' {
							l[0] = append([]byte("x"), l[0]...)
						}
						if junk := fastqJunk[c.rng.Intn(2*len(fastqJunk))%len(fastqJunk)]; c.rng.Intn(3) > 0 {
							l[0] = append(append([]byte(junk), '@'), r.Name...)
						}
					case 1: // '+' line replaced (by something else, or by an empty line)
						l[2] = [][]byte{[]byte("-"), nil, []byte(" +"), []byte("x+")}[c.rng.Intn(4)]
					case 2: // quals of different length
						l[3] = append(append([]byte(nil), r.Quals...), 'I')
					case 3, 4, 5: // cut short after 1, 2, 3 lines
						lines = append(lines, l[:kind-2]...)
						goto done
					}
				}
				lines = append(lines, l...)
			}
		done:
			var b bytes.Buffer
			for _, l := range lines {
				b.Write(l)
				b.WriteByte('\n')
			}
			items, st := decFastq(bytes.NewReader(b.Bytes()), 0, b.Len()+16)
			got := itemsStr(items, st)
			exp := append(append([]string(nil), want[:k]...), "E")
			oracle := ""
			if got != joinItems(exp) {
				oracle = fmt.Sprintf("corruption kind %d of record %d: expected %d records then one error", kind, k, k)
			}
			c.add(Case{Op: "fq.dec e " + hx(b.Bytes()), Impl: got, Kind: fmt.Sprintf("corrupt%d", kind), Nontrivial: true,
				Oracle: oracle, Note: fmt.Sprintf("text %q", trunc(b.String(), 200))})
		}
	}
	longCases(c, "fastq", 0)
	boundaryCases(c, "fastq")
	interleaved(c, "fastq")
	aliasCases(c, "fastq")
	retainedMarshal(c, "fastq", func(i int) ([]byte, []byte) {
		r := c.fastqRec(60)
		r.Sequence, r.Quals = c.text(50, ""), c.text(50, "")
		mt, _ := r.MarshalText()
		var b bytes.Buffer
		r.Write(&b)
		return mt, b.Bytes()
	})
	// the '+' line dropped where the qualities contain a '+' (not first) and the next header is as long as the read
	for i := 0; i < c.n(60); i++ {
		L := 3 + c.rng.Intn(12)
		q := c.text(L, "+")
		q[1+c.rng.Intn(L-1)] = '+'
		if q[0] == '+' {
			q[0] = 'I'
		}
		r1 := &fastq.Fastq{Name: c.text(3, ""), Sequence: c.text(L, ""), Quals: c.text(L, "")}
		r2 := &fastq.Fastq{Name: c.text(3, ""), Sequence: c.text(L, ""), Quals: q}
		r3 := &fastq.Fastq{Name: c.text(L-1, ""), Sequence: c.text(4, ""), Quals: c.text(4, "")}
		txt := fastqWrite([]*fastq.Fastq{r1})
		txt = append(txt, []byte("@"+string(r2.Name)+"\n"+string(r2.Sequence)+"\n"+string(r2.Quals)+"\n")...) // no '+' line
		txt = append(txt, fastqWrite([]*fastq.Fastq{r3})...)
		items, st := decFastq(bytes.NewReader(txt), 0, len(txt)+16)
		oracle := ""
		if itemsStr(items, st) != fqS(r1)+"|E" {
			oracle = "record without its '+' line is not rejected (qualities contain '+', next header as long as the read): " + trunc(itemsStr(items, st), 120)
		}
		c.add(Case{Op: "fq.dec e " + hx(txt), Impl: itemsStr(items, st), Kind: "corrupt-plus-dropped", Nontrivial: true, Oracle: oracle,
			Note: fmt.Sprintf("text %q", trunc(string(txt), 200))})
	}
	// "for every read length": well past any line-buffer ceiling somebody might think generous (17 MiB; thorough 70 MiB)
	sizes := []int{65535, 65536, 70000, 17<<20 + 1}
	if c.thor {
		sizes = append(sizes, 3<<20, 70<<20)
	}
	for _, n := range sizes {
		r := &fastq.Fastq{Name: []byte("big"), Sequence: bytes.Repeat([]byte("A"), n), Quals: bytes.Repeat([]byte("I"), n)}
		txt := fastqWrite([]*fastq.Fastq{r, r})
		items, st := decFastq(bytes.NewReader(txt), 0, 10)
		oracle := ""
		if itemsStr(items, st) != fqS(r)+"|"+fqS(r) {
			oracle = fmt.Sprintf("round trip of a %d-base read failed: %s", n, trunc(itemsStr(items, st), 80))
		}
		c.add(Case{Kind: "big", Nontrivial: true, Oracle: oracle, Note: fmt.Sprintf("fastq.Reader on two records with %d-base reads", n)})
	}
}

// what may stand in front of the '@' of a malformed fastq header line
var fastqJunk = []string{"\xef\xbb\xbf", "\xfe\xff", "\xff\xfe", " ", "\t", "\x00", "\r", "\v", "\f", "\xc2\xa0", ">", "+", "#", ";", "  ", "\xef\xbb\xbf\xef\xbb\xbf"}

// ---------------- C03 ----------------

func samEqual(a, b *sam.SAM) bool {
	if a.Qname != b.Qname || a.Flag != b.Flag || a.Rname != b.Rname || a.Pos != b.Pos || a.Mapq != b.Mapq ||
		a.Cigar != b.Cigar || a.Rnext != b.Rnext || a.Pnext != b.Pnext || a.Tlen != b.Tlen || a.Seq != b.Seq ||
		a.Qual != b.Qual || len(a.Tags) != len(b.Tags) {
		return false
	}
	for k, v := range a.Tags {
		w, ok := b.Tags[k]
		if !ok {
			return false
		}
		if f, isF := v.(float64); isF {
			g, isG := w.(float64)
			if !isG || !(f == g || (math.IsNaN(f) && math.IsNaN(g))) {
				return false
			}
			continue
		}
		if !reflect.DeepEqual(v, w) {
			if bs, ok1 := v.([]byte); ok1 {
				if ws, ok2 := w.([]byte); ok2 && len(bs) == 0 && len(ws) == 0 {
					continue
				}
			}
			return false
		}
	}
	return true
}

func genC03(c *Ctx) {
	writeAfterFault(c, "sam")
	specialCases(c, "sam")
	specialCases(c, "samh")
	for i := 0; i < c.n(500); i++ {
		s := c.samRec()
		var wb bytes.Buffer
		werr := s.Write(&wb)
		mt, _ := s.MarshalText()
		oracle := ""
		if werr != nil || !bytes.Equal(wb.Bytes(), mt) {
			oracle = "MarshalText and Write differ or fail"
		} else if bytes.Count(mt, []byte("\n")) != 1 || mt[len(mt)-1] != '\n' {
			oracle = "record does not occupy exactly one line"
		} else {
			fs := strings.Split(strings.TrimSuffix(string(mt), "\n"), "\t")
			for j := 12; j < len(fs); j++ {
				if fs[j-1] > fs[j] {
					oracle = "tags not written sorted"
				}
			}
			var got []*sam.SAM
			nerr := 0
			for r, err := range sam.Reader(bytes.NewReader(mt)) {
				if err != nil {
					nerr++
					if nerr > 5 {
						break
					}
					continue
				}
				got = append(got, r)
			}
			if oracle == "" && (nerr != 0 || len(got) != 1 || !samEqual(got[0], s)) {
				oracle = "read(write(s)) != s"
			}
		}
		c.add(Case{Op: "sam.enc " + samOpArgs(s), Impl: hx(mt), Kind: "enc", Nontrivial: len(s.Tags) > 0 || strings.ContainsAny(s.Qname+s.Qual+s.Seq, "\"'"),
			Oracle: oracle, Note: fmt.Sprintf("sam record text %q", trunc(string(mt), 300))})
	}
	for i := 0; i < c.n(300); i++ {
		hs, rs := c.samFile()
		txt := samWrite(hs, rs)
		var wantH, want []string
		for _, h := range hs {
			wantH = append(wantH, "H "+hx([]byte(h)))
		}
		for _, r := range rs {
			wantH = append(wantH, samS(r))
			want = append(want, samS(r))
		}
		itemsH, stH := decSamH(bytes.NewReader(txt), 0, len(txt)+16)
		items, st := decSam(bytes.NewReader(txt), 0, len(txt)+16)
		oracle := ""
		if itemsStr(itemsH, stH) != joinItems(wantH) {
			oracle = "ReaderHeader does not return headers verbatim then records, line for line"
		} else if itemsStr(items, st) != joinItems(want) {
			oracle = "Reader does not return exactly the records"
		}
		c.add(Case{Op: "sam.dech e " + hx(txt), Impl: itemsStr(itemsH, stH), Kind: "file-h", Nontrivial: len(hs) > 0 && len(rs) > 0,
			Oracle: oracle, Note: fmt.Sprintf("sam file %q", trunc(string(txt), 300))})
		c.add(Case{Op: "sam.dec e " + hx(txt), Impl: itemsStr(items, st), Kind: "file", Nontrivial: len(rs) > 0,
			Note: fmt.Sprintf("sam file %q", trunc(string(txt), 300))})
	}
	longCases(c, "sam", 3)
	longCases(c, "samh", 4)
	boundaryCases(c, "sam")
	boundaryCases(c, "samh")
	interleaved(c, "sam")
	retainedMarshal(c, "sam", func(i int) ([]byte, []byte) {
		r := c.samRec()
		r.Seq, r.Qual = string(c.text(40, "")), string(c.text(40, ""))
		mt, _ := r.MarshalText()
		var b bytes.Buffer
		r.Write(&b)
		return mt, b.Bytes()
	})
	// a header line with many tab-separated fields stays a header
	{
		h := "@RG\tID:rg1\tSM:s\tLB:l\tPL:p\tPU:u\tCN:c\tDS:d\tDT:t\tPI:1\tPG:g\tPM:m\tFO:f\tKS:k"
		txt := []byte(h + "\nq\t0\tr\t1\t2\t*\t=\t3\t4\tA\tI\n")
		items, st := decSamH(bytes.NewReader(txt), 0, 100)
		oracle := ""
		if len(items) != 2 || items[0] != "H "+hx([]byte(h)) {
			oracle = "a header line with 14 tab-separated fields is not returned verbatim as a header"
		}
		c.add(Case{Op: "sam.dech e " + hx(txt), Impl: itemsStr(items, st), Kind: "header-many-fields", Nontrivial: true, Oracle: oracle, Note: fmt.Sprintf("sam file %q", txt)})
	}
	// Flags: exhaustive 4096 values x 12 accessors/setters against the SAM-spec bit table.
	type acc struct {
		name string
		get  func(sam.Flag) bool
		set  func(*sam.Flag, bool)
	}
	accs := []acc{
		{"Multiple", sam.Flag.Multiple, (*sam.Flag).SetMultiple},
		{"Each", sam.Flag.Each, (*sam.Flag).SetEach},
		{"Unmapped", sam.Flag.Unmapped, (*sam.Flag).SetUnmapped},
		{"Unmapped2", sam.Flag.Unmapped2, (*sam.Flag).SetUnmapped2},
		{"ReverseComplement", sam.Flag.ReverseComplement, (*sam.Flag).SetReverseComplement},
		{"ReverseComplement2", sam.Flag.ReverseComplement2, (*sam.Flag).SetReverseComplement2},
		{"First", sam.Flag.First, (*sam.Flag).SetFirst},
		{"Last", sam.Flag.Last, (*sam.Flag).SetLast},
		{"Secondary", sam.Flag.Secondary, (*sam.Flag).SetSecondary},
		{"NotPassing", sam.Flag.NotPassing, (*sam.Flag).SetNotPassing},
		{"Duplicate", sam.Flag.Duplicate, (*sam.Flag).SetDuplicate},
		{"Supplementary", sam.Flag.Supplementary, (*sam.Flag).SetSupplementary},
	}
	bad := ""
	n := 0
	// the 4096 specified values, and the same low bits under bits the specification does not name (a FLAG
	// column holds any integer: a setter writes exactly its bit and no other bit of ANY value)
	var vals []int
	for v := 0; v < 4096; v++ {
		vals = append(vals, v)
	}
	for _, hi := range []int{0x1000, 0x2000, 0x8000, 0x10000, 0x7fff0000, 1 << 40, 1 << 62, -1 << 12, math.MinInt} {
		for _, lo := range []int{0, 1, 0x400, 0x401, 0x800, 0xaaa, 0x555, 0xfff} {
			vals = append(vals, hi|lo)
		}
	}
	for _, v := range vals {
		if bad != "" {
			break
		}
		for bit, a := range accs {
			f := sam.Flag(v)
			n++
			if a.get(f) != (v&(1<<bit) != 0) {
				bad = fmt.Sprintf("Flag(%d).%s() = %v", v, a.name, a.get(f))
				break
			}
			for _, val := range []bool{true, false} {
				g := f
				a.set(&g, val)
				want := v &^ (1 << bit)
				if val {
					want |= 1 << bit
				}
				if int(g) != want {
					bad = fmt.Sprintf("Flag(%d).Set%s(%v) gives %d, want %d", v, a.name, val, int(g), want)
					break
				}
			}
		}
	}
	c.add(Case{Kind: "flags", Nontrivial: true, Oracle: bad, Note: fmt.Sprintf("flag table, all 4096 specified values and 72 values with higher bits set: %d accessor evaluations, 2x setters", n)})
}

// ---------------- C04 ----------------

func truncBed(b *bed.BED) *bed.BED {
	t := &bed.BED{N: b.N, Chrom: b.Chrom, ChromStart: b.ChromStart, ChromEnd: b.ChromEnd}
	n := b.N
	if n > 3 {
		t.Name = b.Name
	}
	if n > 4 {
		t.Score = b.Score
	}
	if n > 5 {
		t.Strand = b.Strand
	}
	if n > 6 {
		t.ThickStart = b.ThickStart
	}
	if n > 7 {
		t.ThickEnd = b.ThickEnd
	}
	if n > 8 {
		t.ItemRGB = b.ItemRGB
	}
	if n > 9 {
		t.BlockCount = b.BlockCount
	}
	if n > 10 {
		t.BlockSizes = b.BlockSizes
	}
	if n > 11 {
		t.BlockStarts = b.BlockStarts
	}
	return t
}

func bedOpArgs(b *bed.BED) string { return bedS(b)[2:] }

func genC04(c *Ctx) {
	writeAfterFault(c, "bed")
	specialCases(c, "bed")
	for i := 0; i < c.n(600); i++ {
		n := 3 + c.rng.Intn(10)
		b := c.bedRec(n)
		var wb bytes.Buffer
		werr := b.Write(&wb)
		mt, merr := b.MarshalText()
		oracle := ""
		if werr != nil || merr != nil || !bytes.Equal(wb.Bytes(), mt) {
			oracle = "MarshalText and Write differ or fail"
		} else if got := strings.Count(strings.TrimSuffix(string(mt), "\n"), "\t") + 1; got != n {
			oracle = fmt.Sprintf("written line has %d fields, want %d", got, n)
		} else {
			items, st := decBed(bytes.NewReader(mt), 0, 10)
			if itemsStr(items, st) != bedS(truncBed(b)) {
				oracle = "read(write(b)) != first N fields of b: " + trunc(itemsStr(items, st), 100)
			}
		}
		c.add(Case{Op: "bed.enc " + bedOpArgs(b), Impl: hx(mt), Kind: fmt.Sprintf("enc-N%d", n), Nontrivial: true, Oracle: oracle,
			Note: fmt.Sprintf("bed N=%d line %q", n, trunc(string(mt), 200))})
	}
	longCases(c, "bed", 3)
	boundaryCases(c, "bed")
	interleaved(c, "bed")
	retainedMarshal(c, "bed", func(i int) ([]byte, []byte) {
		r := c.bedRec(6)
		r.Chrom, r.Name, r.ChromStart, r.ChromEnd, r.Score = string(c.text(8, "#")), string(c.text(20, "")), 100+i, 200+i, 5
		if strings.HasPrefix(r.Chrom, "#") {
			r.Chrom = "c" + r.Chrom
		}
		mt, _ := r.MarshalText()
		var b bytes.Buffer
		r.Write(&b)
		return mt, b.Bytes()
	})
	for _, n := range []int{-1, 0, 1, 2, 13, 14, 100} {
		b := c.bedRec(5)
		b.N = n
		var wb bytes.Buffer
		err := b.Write(&wb)
		oracle := ""
		if err == nil || wb.Len() != 0 {
			oracle = fmt.Sprintf("Write with N=%d: err=%v, %d bytes emitted", n, err, wb.Len())
		}
		impl := "ERR"
		if err == nil {
			impl = hx(wb.Bytes())
		}
		c.add(Case{Op: "bed.enc " + bedOpArgs(b), Impl: impl, Kind: "refuse", Nontrivial: true, Oracle: oracle, Note: fmt.Sprintf("N=%d", n)})
	}
	for i := 0; i < c.n(300); i++ {
		rs := c.bedRecs()
		txt := bedWrite(rs)
		var want []string
		for _, r := range rs {
			want = append(want, bedS(truncBed(r)))
		}
		items, st := decBed(bytes.NewReader(txt), 0, len(txt)+16)
		oracle := ""
		if itemsStr(items, st) != joinItems(want) {
			oracle = "read(write(file)) != records"
		}
		c.add(Case{Op: "bed.dec e " + hx(txt), Impl: itemsStr(items, st), Kind: "file", Nontrivial: len(rs) > 1, Oracle: oracle,
			Note: fmt.Sprintf("bed file %q", trunc(string(txt), 300))})
	}
}

// ---------------- C05 ----------------

func treeEqual(a, b *newick.Node) bool {
	type pair struct{ a, b *newick.Node }
	st := []pair{{a, b}}
	for len(st) > 0 {
		p := st[len(st)-1]
		st = st[:len(st)-1]
		if p.a.Name != p.b.Name || len(p.a.Children) != len(p.b.Children) {
			return false
		}
		if !(p.a.Distance == p.b.Distance || (math.IsNaN(p.a.Distance) && math.IsNaN(p.b.Distance))) {
			return false
		}
		for i := range p.a.Children {
			st = append(st, pair{p.a.Children[i], p.b.Children[i]})
		}
	}
	return true
}

func treeOpArgs(n *newick.Node) string { return treeS(n)[2:] }

// outsideQuotesNoWS reports whether text has no whitespace outside quoted names.
func outsideQuotesNoWS(t []byte) bool {
	inq := false
	for _, b := range t {
		if b == '\'' {
			inq = !inq
		} else if !inq && (b == ' ' || b == '\t' || b == '\n' || b == '\r') {
			return false
		}
	}
	return !inq
}

// allTrees enumerates every ordered tree shape with n nodes as parent arrays.
func allTrees(n int, f func(parents []int)) {
	parents := make([]int, n)
	// node i's parent must be on the rightmost path of the tree built so far
	var rec func(i int, path []int)
	rec = func(i int, path []int) {
		if i == n {
			f(parents)
			return
		}
		for d := len(path); d >= 1; d-- {
			parents[i] = path[d-1]
			rec(i+1, append(append([]int(nil), path[:d]...), i))
		}
	}
	parents[0] = -1
	rec(1, []int{0})
}

func genC05(c *Ctx) {
	writeAfterFault(c, "newick")
	specialCases(c, "newick")
	check := func(ts []*newick.Node, seps [][]byte, kind string) {
		txt := nwkWrite(ts, seps)
		var want []string
		for _, t := range ts {
			want = append(want, treeS(t))
		}
		oracle := ""
		var got []*newick.Node
		for t, err := range newick.Reader(bytes.NewReader(txt)) {
			if err != nil {
				oracle = "reader error on writer output: " + err.Error()
				break
			}
			got = append(got, t)
		}
		if oracle == "" {
			if len(got) != len(ts) {
				oracle = fmt.Sprintf("read %d trees, wrote %d", len(got), len(ts))
			} else {
				for i := range ts {
					if !treeEqual(ts[i], got[i]) {
						oracle = "tree read back differs in shape, names or distances"
					}
				}
			}
		}
		for _, t := range ts {
			mt, _ := t.MarshalText()
			if len(mt) == 0 || mt[len(mt)-1] != ';' {
				oracle = "text does not end with ';'"
			} else if !outsideQuotesNoWS(mt) {
				oracle = "whitespace outside quoted names"
			}
		}
		items, st := decNewick(bytes.NewReader(txt), 0, len(txt)+16)
		c.add(Case{Op: "nwk.dec e " + hx(txt), Impl: itemsStr(items, st), Kind: kind, Nontrivial: len(ts) > 0, Oracle: oracle,
			Note: fmt.Sprintf("newick text %q", trunc(string(txt), 300))})
	}
	// Writer vs model, per tree.
	for i := 0; i < c.n(400); i++ {
		t := c.randTree(1 + c.rng.Intn(10))
		mt, _ := t.MarshalText()
		var wb bytes.Buffer
		t.Write(&wb)
		oracle := ""
		if !bytes.Equal(mt, wb.Bytes()) {
			oracle = "Write and MarshalText differ"
		}
		c.add(Case{Op: "nwk.enc " + treeOpArgs(t), Impl: hx(mt), Kind: "enc", Nontrivial: len(t.Children) > 0, Oracle: oracle,
			Note: fmt.Sprintf("newick text %q", trunc(string(mt), 300))})
	}
	for i := 0; i < c.n(400); i++ {
		ts, seps := c.nwkTrees()
		check(ts, seps, "random")
	}
	// Every special byte as a one-byte name and inside a name.
	for b := 0; b < 256; b++ {
		for _, name := range []string{string([]byte{byte(b)}), "a" + string([]byte{byte(b)}) + "b"} {
			t := &newick.Node{Name: "r", Children: []*newick.Node{{Name: name, Distance: 1.5}, {Name: name}}}
			check([]*newick.Node{t}, nil, "name-bytes")
		}
	}
	// All shapes up to a bound.
	maxN := 6
	if c.thor {
		maxN = 8
	}
	for n := 1; n <= maxN; n++ {
		allTrees(n, func(parents []int) {
			nodes := make([]*newick.Node, n)
			for i := range nodes {
				nodes[i] = &newick.Node{}
				if c.rng.Intn(2) == 0 {
					nodes[i].Name = c.nwkName()
				}
				if c.rng.Intn(3) == 0 {
					nodes[i].Distance = c.nwkDist(false)
				}
				if parents[i] >= 0 {
					nodes[parents[i]].Children = append(nodes[parents[i]].Children, nodes[i])
				}
			}
			check([]*newick.Node{nodes[0]}, nil, fmt.Sprintf("shape-%d", n))
		})
	}
	longCases(c, "newick", 2)
	boundaryCases(c, "newick")
	interleaved(c, "newick")
	retainedMarshal(c, "newick", func(i int) ([]byte, []byte) {
		r := c.randTree(5)
		mt, _ := r.MarshalText()
		var b bytes.Buffer
		r.Write(&b)
		return mt, b.Bytes()
	})
	// Deep chains (oracle only beyond what the model driver's recursion can take).
	depth := 100000
	if c.thor {
		depth = 1000000
	}
	root := &newick.Node{Name: "root"}
	cur := root
	for i := 0; i < depth; i++ {
		ch := &newick.Node{Name: "x", Distance: 1}
		cur.Children = []*newick.Node{ch}
		cur = ch
	}
	oracle := safe(func() string {
		txt, _ := root.MarshalText()
		for t, err := range newick.Reader(bytes.NewReader(txt)) {
			if err != nil {
				return "deep chain: " + err.Error()
			}
			if !treeEqual(t, root) {
				return "deep chain differs after round trip"
			}
		}
		return ""
	})
	if oracle == "PANIC" {
		oracle = "deep chain round trip panicked"
	}
	c.add(Case{Kind: "deep", Nontrivial: true, Oracle: oracle, Note: fmt.Sprintf("chain of depth %d", depth)})
}


// longCases decodes the format's long-line inputs (lines crossing bufio's
// 4096-byte buffer) and checks the item count and absence of errors, besides
// the comparison with the model.
func longCases(c *Ctx, name string, want int) {
	var f *format
	for _, g := range formats {
		if g.name == name {
			f = g
		}
	}
	for _, data := range c.longLineInputs(name) {
		for _, variant := range []string{"lf", "crlf"} {
			d := data
			if variant == "crlf" {
				d = crlf(data)
			}
			items, st := f.decode(bytes.NewReader(d), 0, len(d)+16)
			oracle := ""
			n := want
			if name == "fasta" || name == "fastq" {
				n = bytes.Count(data, []byte{data[0]}) // records start with '>' / '@' (the filler has neither)
			}
			if st != "" || len(items) != n {
				oracle = fmt.Sprintf("long-line %s input (%s): %d items (status %q), want %d records", name, variant, len(items), st, n)
			}
			for _, it := range items {
				if it == "E" {
					oracle = fmt.Sprintf("long-line %s input (%s) yields an error item", name, variant)
				}
			}
			c.add(Case{Op: decOpLine(f, "e", d), Impl: itemsStr(items, st), Kind: "long-" + variant, Nontrivial: true, Oracle: oracle,
				Note: fmt.Sprintf("%s input with a %d-byte line (%s): %q…", name, len(d), variant, trunc(string(d), 60))})
		}
	}
}


// boundaryCases: inputs in which a later record / line / quoted name starts at
// every offset around 4096 and 8192.
func boundaryCases(c *Ctx, name string) {
	var f *format
	for _, g := range formats {
		if g.name == name {
			f = g
		}
	}
	for _, d := range c.boundaryInputs(name) {
		items, st := f.decode(bytes.NewReader(d), 0, len(d)+16)
		oracle := ""
		want := expectedItems(name, d)
		if st != "" || len(items) != want {
			oracle = fmt.Sprintf("%s input with a record boundary near a 4096-byte multiple: %d items (status %q), the text holds %d records", name, len(items), st, want)
		}
		for _, it := range items {
			if it == "E" {
				oracle = fmt.Sprintf("%s input with a record boundary near a 4096-byte multiple yields an error item", name)
			}
		}
		c.add(Case{Op: decOpLine(f, "e", d), Impl: itemsStr(items, st), Kind: "boundary", Nontrivial: true, Oracle: oracle,
			Note: fmt.Sprintf("%s input of %d bytes: %q…", name, len(d), trunc(string(d), 40))})
	}
}


// expectedItems counts the records of a generated well-formed LF-terminated
// input by a rule independent of the readers.
func expectedItems(name string, d []byte) int {
	lines := bytes.Split(bytes.TrimSuffix(d, []byte("\n")), []byte("\n"))
	switch name {
	case "fasta":
		n := 0
		for _, l := range lines {
			if len(l) > 0 && l[0] == '>' {
				n++
			}
		}
		return n
	case "fastq":
		return len(lines) / 4
	case "sam":
		n := 0
		for _, l := range lines {
			if len(l) > 0 && l[0] != '@' {
				n++
			}
		}
		return n
	case "samh", "bed":
		return len(lines)
	case "newick":
		n, inq := 0, false
		for _, b := range d {
			if b == '\'' {
				inq = !inq
			} else if b == ';' && !inq {
				n++
			}
		}
		return n
	}
	return -1
}
