package main

// Generators and direct oracles added after the fourth round of seeded changes
// (see DESIGN.md §13.5).  Nothing here changes what a property demands: each
// block states the property on inputs / call patterns the earlier generators
// did not reach.

import (
	"github.com/fluhus/gostuff/minhash"
	"compress/gzip"
	"bufio"
	"bytes"
	"fmt"
	"io"
	"math"
	"os"
	"sort"
	"strconv"
	"strings"
	"sync"

	"github.com/fluhus/biostuff/align"
	"github.com/fluhus/biostuff/formats/bed"
	"github.com/fluhus/biostuff/formats/fasta"
	"github.com/fluhus/biostuff/formats/fastq"
	"github.com/fluhus/biostuff/formats/newick"
	"github.com/fluhus/biostuff/formats/sam"
	"github.com/fluhus/biostuff/formats/smtext"
	"github.com/fluhus/biostuff/mash"
	"github.com/fluhus/biostuff/regions"
	"github.com/fluhus/biostuff/sequtil"
	"github.com/fluhus/biostuff/trie"
)

// ---------------------------------------------------------------------------
// Well-formed inputs with known content: magic-number prefixes, special bytes
// at buffer boundaries, repeated records, very long lines.

type wfInput struct {
	data []byte
	want string // joined canonical items; "" = only the record count is known
	desc string
}

// byte-order marks and compressed-stream magic numbers: legal field content
var magics = [][]byte{
	{0x1f, 0x8b}, {0x1f, 0x8b, 0x08, 0x00}, {0xef, 0xbb, 0xbf}, {0xff, 0xfe}, {0xfe, 0xff},
	[]byte("BZh9"), {0xfd, '7', 'z', 'X', 'Z', 0x00}, {0x28, 0xb5, 0x2f, 0xfd}, []byte("PK\x03\x04"), {0x04, 0x22, 0x4d, 0x18},
	{0xef, 0xbb}, {0xef}, []byte("\xef\xbb\xbfx"),
}

func tree1(name string, kids ...*newick.Node) *newick.Node { return &newick.Node{Name: name, Children: kids} }

// recordsInput renders records of a format with its writer and records what must come back.
func fastaInput(rs []*fasta.Fasta, desc string) wfInput {
	var want []string
	for _, r := range rs {
		want = append(want, faS(r))
	}
	return wfInput{fastaWrite(rs), joinItems(want), desc}
}
func fastqInput(rs []*fastq.Fastq, desc string) wfInput {
	var want []string
	for _, r := range rs {
		want = append(want, fqS(r))
	}
	return wfInput{fastqWrite(rs), joinItems(want), desc}
}
func bedInput(rs []*bed.BED, desc string) wfInput {
	var want []string
	for _, r := range rs {
		want = append(want, bedS(truncBed(r)))
	}
	return wfInput{bedWrite(rs), joinItems(want), desc}
}
func nwkInput(ts []*newick.Node, desc string) wfInput {
	var want []string
	for _, t := range ts {
		want = append(want, treeS(t))
	}
	seps := make([][]byte, len(ts))
	for i := range seps {
		seps[i] = []byte("\n")
	}
	return wfInput{nwkWrite(ts, seps), joinItems(want), desc}
}
func samInput(name string, hs []string, rs []*sam.SAM, desc string) wfInput {
	var want []string
	if name == "samh" {
		for _, h := range hs {
			want = append(want, "H "+hx([]byte(h)))
		}
	}
	for _, r := range rs {
		if name == "samh" {
			want = append(want, shS(sam.SAMOrHeader{S: r}))
		} else {
			want = append(want, samS(r))
		}
	}
	return wfInput{samWrite(hs, rs), joinItems(want), desc}
}

func plainSam(q string) *sam.SAM {
	return &sam.SAM{Qname: q, Flag: 0, Rname: "r", Pos: 1, Mapq: 2, Cigar: "*", Rnext: "x", Pnext: 3, Tlen: 4, Seq: "AC", Qual: "II", Tags: map[string]any{}}
}

// nwkTokens splits writer output into tokens (quoted names are one token).
func nwkTokens(t []byte) [][]byte {
	var toks [][]byte
	for i := 0; i < len(t); {
		switch b := t[i]; {
		case b == '\'':
			j := i + 1
			for j < len(t) {
				if t[j] == '\'' {
					if j+1 < len(t) && t[j+1] == '\'' {
						j += 2
						continue
					}
					break
				}
				j++
			}
			toks = append(toks, t[i:j+1])
			i = j + 1
		case strings.IndexByte("(),:;", b) >= 0:
			toks = append(toks, t[i:i+1])
			i++
		default:
			j := i
			for j < len(t) && strings.IndexByte("(),:;'", t[j]) < 0 {
				j++
			}
			toks = append(toks, t[i:j])
			i = j
		}
	}
	return toks
}

// nwkPretty: the trees written by the writer, re-spaced: whitespace (line breaks included) between
// ANY two tokens, as in hand-edited multi-line tree files.
func (c *Ctx) nwkPretty(ts []*newick.Node, lfOnly bool) wfInput {
	in := nwkInput(ts, "whitespace and line breaks between tokens")
	var b bytes.Buffer
	ws := []string{"", "", "\n", " ", "\t", "\n  ", " \n", "\n\n"}
	if !lfOnly {
		ws = append(ws, "\r\n", "\r\n\t")
	}
	for _, tok := range nwkTokens(bytes.ReplaceAll(in.data, []byte("\n"), nil)) {
		b.Write(tok)
		b.WriteString(ws[c.rng.Intn(len(ws))])
	}
	in.data = b.Bytes()
	return in
}

func (c *Ctx) specialInputs(name string) []wfInput {
	var out []wfInput
	if name == "newick" {
		for i := 0; i < 12; i++ {
			var ts []*newick.Node
			for k := 0; k < 1+c.rng.Intn(3); k++ {
				t := c.randTree(2 + c.rng.Intn(8))
				clean := true
				var walk func(n *newick.Node)
				walk = func(n *newick.Node) {
					if strings.ContainsAny(n.Name, "\n\r") || n.Distance != n.Distance {
						clean = false
					}
					for _, ch := range n.Children {
						walk(ch)
					}
				}
				walk(t)
				if clean {
					ts = append(ts, t)
				}
			}
			if len(ts) > 0 {
				out = append(out, c.nwkPretty(ts, true))
			}
		}
		out = append(out, c.nwkPretty([]*newick.Node{tree1("r", tree1("A"), tree1("B")), tree1("x", tree1("y", tree1("z")))}, true))
	}
	dna := func(n int) []byte { return c.bytesFrom([]byte("ACGTacgt"), n) }
	// (1) magic numbers as the first bytes of the first field, alone and followed by more records
	for _, m := range magics {
		ms := string(m)
		d := fmt.Sprintf("first field starts with bytes % x", m)
		switch name {
		case "fasta":
			out = append(out, fastaInput([]*fasta.Fasta{{Name: append(append([]byte(nil), m...), 'n'), Sequence: dna(7)}, {Name: []byte("b"), Sequence: append(append([]byte(nil), m...), dna(3)...)}}, d))
		case "fastq":
			out = append(out, fastqInput([]*fastq.Fastq{{Name: append([]byte(nil), m...), Sequence: append(append([]byte(nil), m...), 'A'), Quals: append(append([]byte(nil), m...), 'I')}, {Name: []byte("b"), Sequence: []byte("AC"), Quals: []byte("II")}}, d))
		case "sam", "samh":
			out = append(out, samInput(name, nil, []*sam.SAM{plainSam(ms + "q"), plainSam("q2")}, d))
			out = append(out, samInput(name, []string{"@CO\t" + ms}, []*sam.SAM{plainSam(ms)}, d))
		case "bed":
			out = append(out, bedInput([]*bed.BED{{N: 4, Chrom: ms, ChromStart: 1, ChromEnd: 2, Name: ms + "x"}, {N: 4, Chrom: "c", ChromStart: 3, ChromEnd: 4, Name: "n"}}, d))
			out = append(out, bedInput([]*bed.BED{{N: 3, Chrom: ms + "chr", ChromStart: 1, ChromEnd: 2}}, d))
		case "newick":
			out = append(out, nwkInput([]*newick.Node{tree1(ms), tree1("r", tree1("a"), tree1(ms+"b"))}, d+" (single-node tree first)"))
			out = append(out, nwkInput([]*newick.Node{tree1(ms+"root", tree1(ms), tree1("b")), tree1(ms)}, d))
		}
	}
	// (2) a byte that is special for the format INSIDE a field, at stream offsets around 4096k-1
	for _, base := range []int{4096, 8192} {
		for off := base - 4; off <= base+3; off++ {
			d := fmt.Sprintf("special byte inside a field at stream offset %d", off)
			switch name {
			case "fasta":
				nm := bytes.Repeat([]byte("n"), off+40)
				nm[off-1] = '>' // '>' is stream byte `off` (after the leading '>')
				nm[off-9] = '>'
				out = append(out, fastaInput([]*fasta.Fasta{{Name: nm, Sequence: dna(90)}, {Name: []byte("second>"), Sequence: dna(5)}}, d))
			case "fastq":
				nm := bytes.Repeat([]byte("n"), off+40)
				nm[off-1], nm[off-2] = '@', '+'
				q := bytes.Repeat([]byte("I"), off+40)
				q[off-1], q[0] = '@', '@'
				out = append(out, fastqInput([]*fastq.Fastq{{Name: nm, Sequence: []byte("AC"), Quals: []byte("+@")}, {Name: []byte("b"), Sequence: dna(off + 40), Quals: q}, {Name: []byte("c"), Sequence: []byte("A"), Quals: []byte("@")}}, d))
			case "sam", "samh":
				r := plainSam("q1")
				ql := bytes.Repeat([]byte("I"), off)
				ql[off-30], ql[off-31] = '@', '"'
				r.Seq, r.Qual = string(dna(off)), string(ql)
				out = append(out, samInput(name, []string{"@HD\tVN:1"}, []*sam.SAM{r, plainSam("@q")}, d)) // "@q" only as a later field would be a header; as qname it is excluded
				out = out[:len(out)-1]
				out = append(out, samInput(name, []string{"@HD\tVN:1"}, []*sam.SAM{r, plainSam("q@")}, d))
			case "bed":
				nm := bytes.Repeat([]byte("n"), off+20)
				nm[off-12], nm[off-13] = '#', '"'
				out = append(out, bedInput([]*bed.BED{{N: 4, Chrom: "c", ChromStart: 1, ChromEnd: 2, Name: string(nm)}, {N: 4, Chrom: "c#", ChromStart: 3, ChromEnd: 4, Name: "#n"}}, d))
			case "newick":
				nm := bytes.Repeat([]byte("n"), off+20)
				nm[off-3], nm[off-2] = ' ', '\''
				out = append(out, nwkInput([]*newick.Node{tree1("r", tree1(string(nm)), tree1("b")), tree1("s")}, d))
			}
		}
	}
	// (3) the same record several times in a row (identical lines), with every kind of field
	switch name {
	case "fasta":
		r := &fasta.Fasta{Name: []byte("dup"), Sequence: dna(100)}
		out = append(out, fastaInput([]*fasta.Fasta{r, r, r, {Name: []byte("x"), Sequence: dna(3)}, r}, "identical records repeated"))
	case "fastq":
		r := &fastq.Fastq{Name: []byte("dup"), Sequence: dna(9), Quals: []byte("IIIIIIIII")}
		out = append(out, fastqInput([]*fastq.Fastq{r, r, r}, "identical records repeated"))
	case "sam", "samh":
		mk := func() *sam.SAM {
			r := plainSam("dup")
			r.Tags = map[string]any{"XH": []byte{1, 2, 0xff}, "XZ": "s", "XI": 7, "XA": byte('c'), "XF": 1.5}
			return r
		}
		o := plainSam("other")
		o.Tags = map[string]any{"XH": []byte{9}}
		out = append(out, samInput(name, []string{"@HD\tVN:1", "@HD\tVN:1"}, []*sam.SAM{mk(), mk(), mk(), o, mk(), plainSam("notags"), mk()}, "identical lines (with H, Z, i, A, f tags) repeated"))
		// records with very many optional fields (53, 54, 64, 65, 300 tags of all types)
		for _, nt := range []int{53, 54, 64, 65, 300} {
			r := plainSam("many")
			r.Tags = map[string]any{}
			for i := 0; i < nt; i++ {
				nm := string([]byte{byte('A' + i%26), byte('a' + (i/26)%26)})
				switch i % 5 {
				case 0:
					r.Tags[nm] = i
				case 1:
					r.Tags[nm] = fmt.Sprintf("v%d", i)
				case 2:
					r.Tags[nm] = byte('!' + i%90)
				case 3:
					r.Tags[nm] = float64(i) + 0.5
				case 4:
					r.Tags[nm] = []byte{byte(i), byte(i >> 8)}
				}
			}
			out = append(out, samInput(name, nil, []*sam.SAM{plainSam("a"), r, plainSam("b")}, fmt.Sprintf("a record with %d optional fields", nt)))
		}
		// the SAME tag name in consecutive records with the SAME value text under different types (XS:i:7, XS:Z:7, XS:A:7,
		// XS:f:7; XT:i:10, XT:H:10, XT:Z:10): what one record's tag was must not colour the next record's
		retyped := func(vals ...any) []*sam.SAM {
			var rs []*sam.SAM
			for i, v := range vals {
				r := plainSam(fmt.Sprintf("q%d", i))
				r.Tags = map[string]any{"XS": v, "NM": i}
				rs = append(rs, r)
			}
			return rs
		}
		for _, vals := range [][]any{
			{7, "7", byte('7'), 7.0, "7", 7},
			{7.0, "7", 7, byte('7')},
			{10, []byte{0x10}, "10", 10.0, []byte{0x10}, 10},
			{"10", 10, "10", []byte{0x10}},
			{0, "0", byte('0'), 0.0},
			{-3, "-3", -3.0, "-3"},
			{1.5, "1.5", 1.5},
		} {
			out = append(out, samInput(name, nil, retyped(vals...), "one tag name, the same value text, different types in consecutive records"))
		}
	case "bed":
		r := &bed.BED{N: 12, Chrom: "c", ChromStart: 1, ChromEnd: 9, Name: "dup", Score: 5, Strand: "+", ThickStart: 2, ThickEnd: 3, ItemRGB: [3]byte{1, 2, 3}, BlockCount: 2, BlockSizes: []int{1, 2}, BlockStarts: []int{0, 5}}
		out = append(out, bedInput([]*bed.BED{r, r, r}, "identical lines repeated"))
	case "newick":
		t := tree1("r", tree1("a", tree1("x"), tree1("y")), tree1("b"))
		out = append(out, nwkInput([]*newick.Node{t, t, t}, "identical trees repeated"))
	}
	return out
}

// hugeInputs: lines far beyond two 64 KiB buffers, and long compressible reads
// (decoded through Reader, chunked readers and File plain/.gz; oracle only).
func (c *Ctx) hugeInputs(name string) []wfInput {
	var out []wfInput
	// several long lines in ONE stream (scratch state of a line reader surviving from one long line to the next)
	for _, L := range []int{5000, 70000} {
		a, b := bytes.Repeat([]byte("ACGT"), L/4), bytes.Repeat([]byte("TTGCA"), L/5+7)
		d := fmt.Sprintf("three records with fields of %d, %d and %d bytes", len(a), len(b), len(a)+3)
		a3 := append(append([]byte(nil), a...), 'G', 'G', 'G')
		switch name {
		case "fasta":
			out = append(out, wfInput{[]byte(">n1\n" + string(a) + "\n>" + string(b) + "\nAC\n>n3\n" + string(a3) + "\n"),
				"R " + hx([]byte("n1")) + " " + hx(a) + "|R " + hx(b) + " " + hx([]byte("AC")) + "|R " + hx([]byte("n3")) + " " + hx(a3), d})
		case "fastq":
			q := func(n int) []byte { return bytes.Repeat([]byte("I"), n) }
			out = append(out, fastqInput([]*fastq.Fastq{{Name: []byte("a"), Sequence: a, Quals: q(len(a))}, {Name: b, Sequence: []byte("A"), Quals: []byte("I")}, {Name: []byte("c"), Sequence: a3, Quals: q(len(a3))}}, d))
		case "sam", "samh":
			r1, r2, r3 := plainSam("a"), plainSam("b"), plainSam("c")
			r1.Seq, r2.Cigar, r3.Qual = string(a), string(b), string(a3)
			out = append(out, samInput(name, nil, []*sam.SAM{r1, r2, r3}, d))
		case "bed":
			out = append(out, bedInput([]*bed.BED{{N: 4, Chrom: "a", ChromStart: 1, ChromEnd: 2, Name: string(a)}, {N: 4, Chrom: string(b), ChromStart: 1, ChromEnd: 2, Name: "n"}, {N: 4, Chrom: "d", ChromStart: 3, ChromEnd: 4, Name: string(a3)}}, d))
		case "newick":
			out = append(out, nwkInput([]*newick.Node{tree1(string(a)), tree1("x y " + string(b)), tree1("r", tree1(string(a3)), tree1("it's"))}, d))
		}
	}
	if name == "bed" {
		// block lists whose TEXT is longer than 64 KiB / 128 KiB (10000 and 20000 blocks of six-digit values)
		for _, nb := range []int{10000, 20000} {
			sizes, starts := make([]int, nb), make([]int, nb)
			for j := range sizes {
				sizes[j], starts[j] = 100000+j, 200000+7*j
			}
			for _, N := range []int{11, 12} {
				r := &bed.BED{N: N, Chrom: "c", ChromStart: 1, ChromEnd: 9000000, Name: "n", Score: 5, Strand: "+", ThickStart: 2, ThickEnd: 3, ItemRGB: [3]byte{1, 2, 3}, BlockCount: nb, BlockSizes: sizes}
				if N == 12 {
					r.BlockStarts = starts
				}
				small := func(ch string) *bed.BED {
					s := &bed.BED{N: N, Chrom: ch, ChromStart: 1, ChromEnd: 90, Name: "s", Score: 1, Strand: "-", ThickStart: 2, ThickEnd: 3, ItemRGB: [3]byte{4, 5, 6}, BlockCount: 2, BlockSizes: []int{1, 2}}
					if N == 12 {
						s.BlockStarts = []int{0, 5}
					}
					return s
				}
				out = append(out, bedInput([]*bed.BED{small("a"), r, small("z")}, fmt.Sprintf("a %d-field line with %d blocks", N, nb)))
			}
		}
	}
	for _, L := range []int{100000, 131073, 270000} {
		run := bytes.Repeat([]byte("ACGT"), L/4+1)[:L]
		d := fmt.Sprintf("a field of %d bytes", L)
		switch name {
		case "fasta":
			out = append(out, fastaInput([]*fasta.Fasta{{Name: []byte("a"), Sequence: run}, {Name: run[:L-1], Sequence: []byte("AC")}}, d))
			out = append(out, wfInput{[]byte(">n\n" + string(run) + "\n>m\nAC\n"), "R " + hx([]byte("n")) + " " + hx(run) + "|R " + hx([]byte("m")) + " " + hx([]byte("AC")), d + " on one line"})
		case "fastq":
			out = append(out, fastqInput([]*fastq.Fastq{{Name: []byte("a"), Sequence: run, Quals: bytes.Repeat([]byte("I"), L)}, {Name: []byte("b"), Sequence: []byte("A"), Quals: []byte("I")}}, d))
		case "sam", "samh":
			r := plainSam("big")
			r.Seq, r.Qual = string(run), strings.Repeat("I", L)
			out = append(out, samInput(name, []string{"@CO\t" + string(run)}, []*sam.SAM{plainSam("a"), r, plainSam("b")}, d))
		case "bed":
			out = append(out, bedInput([]*bed.BED{{N: 4, Chrom: "a", ChromStart: 1, ChromEnd: 2, Name: "n"}, {N: 4, Chrom: "c", ChromStart: 1, ChromEnd: 2, Name: string(run)}, {N: 4, Chrom: "d", ChromStart: 3, ChromEnd: 4, Name: "m"}}, d))
		case "newick":
			out = append(out, nwkInput([]*newick.Node{tree1("r", tree1(string(run)), tree1("it's "+string(run))), tree1("s")}, d))
		}
	}
	return out
}

// exactLineInputs: one line of the stream is EXACTLY L bytes long without its terminator (and, in a second
// input, with it), for L a power of two up to 2^20 -- the sizes at which a reader that handles lines in
// fixed-size pieces sees a piece boundary fall exactly on the end of a line.
func (c *Ctx) exactLineInputs(name string) []wfInput {
	var out []wfInput
	sizes := []int{1 << 15, 1 << 16, 1 << 17, 1 << 18, 1 << 20}
	if c.thor {
		sizes = []int{1 << 12, 1 << 13, 1 << 15, 1 << 16, 1 << 17, 1 << 18, 1 << 19, 1 << 20, 3 << 18}
	}
	longest := func(data []byte) int {
		m := 0
		for _, l := range bytes.Split(data, []byte("\n")) {
			if len(l) > m {
				m = len(l)
			}
		}
		return m
	}
	mk := func(x int, d string) (wfInput, bool) {
		run := bytes.Repeat([]byte("ACGT"), x/4+1)[:x]
		switch name {
		case "fasta":
			return fastaInput([]*fasta.Fasta{{Name: []byte("a"), Sequence: []byte("AC")}, {Name: run, Sequence: []byte("ACG")}, {Name: []byte("c"), Sequence: []byte("A")}}, d), true
		case "fastq":
			return fastqInput([]*fastq.Fastq{{Name: []byte("a"), Sequence: []byte("A"), Quals: []byte("I")}, {Name: []byte("b"), Sequence: run, Quals: bytes.Repeat([]byte("I"), x)}, {Name: []byte("c"), Sequence: []byte("A"), Quals: []byte("I")}}, d), true
		case "sam", "samh":
			r := plainSam("big")
			r.Seq, r.Qual = string(run), "*"
			return samInput(name, []string{"@CO\tx"}, []*sam.SAM{plainSam("a"), r, plainSam("b")}, d), true
		case "bed":
			return bedInput([]*bed.BED{{N: 4, Chrom: "a", ChromStart: 1, ChromEnd: 2, Name: "n"}, {N: 4, Chrom: "c", ChromStart: 1, ChromEnd: 2, Name: string(run)}, {N: 4, Chrom: "d", ChromStart: 3, ChromEnd: 4, Name: "m"}}, d), true
		case "newick":
			return nwkInput([]*newick.Node{tree1("r", tree1(string(run)), tree1("b")), tree1("s")}, d), true
		}
		return wfInput{}, false
	}
	for _, L := range sizes {
		for _, target := range []int{L, L - 1} {
			d := fmt.Sprintf("a line of exactly %d bytes without its terminator", target)
			in, ok := mk(target, d)
			if !ok {
				return nil
			}
			if l0 := longest(in.data); l0 != target {
				in, _ = mk(target-(l0-target), d)
			}
			if name != "newick" && longest(in.data) != target {
				continue
			}
			out = append(out, in)
		}
	}
	// a long header line (sam) of exactly these sizes too
	if name == "sam" || name == "samh" {
		for _, L := range sizes {
			out = append(out, samInput(name, []string{"@CO\t" + strings.Repeat("h", L-4), "@CO\tshort"}, []*sam.SAM{plainSam("a"), plainSam("b")}, fmt.Sprintf("a header line of exactly %d bytes", L)))
		}
	}
	return out
}

// independentInputs renders generated records with the HARNESS's own few lines of formatting code, not with
// the library's writers: text a reader accepts must be a fixed point of the codec whoever wrote it (C11),
// and a defect shared by writer and reader (a convention applied on one side only) cannot hide.
func (c *Ctx) independentInputs(name string) []wfInput {
	var out []wfInput
	itoa := func(i int) string { return fmt.Sprint(i) }
	for i := 0; i < 20; i++ {
		var b bytes.Buffer
		var want []string
		switch name {
		case "fasta":
			for _, r := range c.fastaRecs() {
				b.WriteString(">" + string(r.Name) + "\n")
				for p := 0; p < len(r.Sequence); p += 60 {
					b.Write(r.Sequence[p:min(p+60, len(r.Sequence))])
					b.WriteString("\n")
				}
				want = append(want, faS(r))
			}
		case "fastq":
			for _, r := range c.fastqRecs() {
				b.WriteString("@" + string(r.Name) + "\n" + string(r.Sequence) + "\n+" + []string{"", string(r.Name), " x"}[c.rng.Intn(3)] + "\n" + string(r.Quals) + "\n")
				want = append(want, fqS(r))
			}
		case "sam", "samh":
			hs, rs := c.samFile()
			for _, h := range hs {
				b.WriteString(h + "\n")
				if name == "samh" {
					want = append(want, "H "+hx([]byte(h)))
				}
			}
			for _, r := range rs {
				// only the tag types whose text form the harness can state without the library: i, Z, A, H
				tags := map[string]any{}
				var names []string
				for k, v := range r.Tags {
					switch v.(type) {
					case int, string, byte, []byte, float64:
						tags[k] = v
						names = append(names, k)
					}
				}
				if c.rng.Intn(2) == 0 { // single-precision values widened to float64: their float32 and float64 shortest decimals differ
					tags["XF"] = []float64{float64(float32(0.1)), float64(float32(1) / 3), 1099512676352, float64(math.Float32frombits(c.rng.Uint32()&0x7f7fffff | 1)), 63310.0 / 1024}[c.rng.Intn(5)]
					names = append(names, "XF")
				}
				r.Tags = tags
				sort.Strings(names)
				if c.rng.Intn(3) == 0 {
					r.Rnext = []string{"=", "*", r.Rname}[c.rng.Intn(3)]
				}
				f := []string{r.Qname, itoa(int(r.Flag)), r.Rname, itoa(r.Pos), itoa(r.Mapq), r.Cigar, r.Rnext, itoa(r.Pnext), itoa(r.Tlen), r.Seq, r.Qual}
				for _, k := range names {
					switch v := tags[k].(type) {
					case int:
						f = append(f, k+":i:"+itoa(v))
					case string:
						f = append(f, k+":Z:"+v)
					case byte:
						f = append(f, k+":A:"+string([]byte{v}))
					case []byte:
						f = append(f, k+":H:"+fmt.Sprintf("%x", v))
					case float64:
						f = append(f, k+":f:"+strconv.FormatFloat(v, 'e', -1, 64))
					}
				}
				b.WriteString(strings.Join(f, "\t") + "\n")
				if name == "samh" {
					want = append(want, shS(sam.SAMOrHeader{S: r}))
				} else {
					want = append(want, samS(r))
				}
			}
		case "bed":
			for _, r := range c.bedRecs() {
				ints := func(l []int) string {
					var p []string
					for _, x := range l {
						p = append(p, itoa(x))
					}
					return strings.Join(p, ",")
				}
				f := []string{r.Chrom, itoa(r.ChromStart), itoa(r.ChromEnd), r.Name, itoa(r.Score), r.Strand, itoa(r.ThickStart), itoa(r.ThickEnd),
					fmt.Sprintf("%d,%d,%d", r.ItemRGB[0], r.ItemRGB[1], r.ItemRGB[2]), itoa(r.BlockCount), ints(r.BlockSizes), ints(r.BlockStarts)}
				b.WriteString(strings.Join(f[:r.N], "\t") + "\n")
				want = append(want, bedS(truncBed(r)))
			}
		case "newick":
			// names: bare when they consist of plain bytes, quoted (quotes doubled) otherwise; distances 0, k or k.5
			var render func(n *newick.Node) string
			render = func(n *newick.Node) string {
				t := ""
				if len(n.Children) > 0 {
					var ks []string
					for _, ch := range n.Children {
						ks = append(ks, render(ch))
					}
					t = "(" + strings.Join(ks, ",") + ")"
				}
				plain := true
				for _, ch := range []byte(n.Name) {
					if ch <= ' ' || ch == 0x7f || strings.IndexByte("(),:;'_", ch) >= 0 {
						plain = false
					}
				}
				if plain && c.rng.Intn(4) > 0 {
					t += n.Name
				} else {
					t += "'" + strings.ReplaceAll(n.Name, "'", "''") + "'"
				}
				if n.Distance != 0 {
					t += ":" + strconv.FormatFloat(n.Distance, 'f', -1, 64)
				}
				return t
			}
			for k := 0; k < 1+c.rng.Intn(3); k++ {
				t := c.randTree(1 + c.rng.Intn(8))
				var fix func(n *newick.Node)
				fix = func(n *newick.Node) {
					n.Distance = []float64{0, 0, 1, 2.5, -3, 100, 0.125}[c.rng.Intn(7)]
					for _, ch := range n.Children {
						fix(ch)
					}
				}
				fix(t)
				b.WriteString(render(t) + ";" + []string{"", "\n", " "}[c.rng.Intn(3)])
				want = append(want, treeS(t))
			}
		default:
			return nil
		}
		if b.Len() > 0 {
			out = append(out, wfInput{b.Bytes(), joinItems(want), "text rendered by the harness, not by the library's writer"})
		}
	}
	return out
}

// errorClassInputs: for every format, good records, then ONE record exhibiting one class of syntax error,
// then more good records -- one input per error class, so that every error path of a parser is followed by
// further input (what is yielded after an error item is what C11/C18 are about).
func errorClassInputs(name string) [][]byte {
	var out [][]byte
	wrap := func(good, bad string) {
		out = append(out, []byte(good+bad+good+good), []byte(bad+good), []byte(good+good+bad))
	}
	switch name {
	case "fastq":
		g := "@r\nAC\n+\nII\n"
		for _, bad := range []string{"r\nAC\n+\nII\n", "@r\nAC\n-\nII\n", "@r\nAC\n\nII\n", "@r\nAC\n+\nI\n", "@r\nAC\n+\nIII\n", "\n", "@r\nAC\n+\n"} {
			wrap(g, bad)
		}
	case "sam", "samh":
		g := "q\t0\tr\t1\t2\t*\t=\t3\t4\tAC\tII\tXA:i:1\n"
		f := strings.Split(strings.TrimSuffix(g, "\n"), "\t")
		mk := func(i int, v string) string {
			h := append([]string(nil), f...)
			h[i] = v
			return strings.Join(h, "\t") + "\n"
		}
		bads := []string{strings.Join(f[:10], "\t") + "\n", strings.Join(f[:3], "\t") + "\n", "x\n"}
		for _, i := range []int{1, 3, 4, 7, 8} {
			bads = append(bads, mk(i, "1x"), mk(i, ""), mk(i, "-"), mk(i, "99999999999999999999"))
		}
		for _, t := range []string{"XA", "XA:i", "XAi1", "XA:i:x", "XA:i:", "XA:f:x", "XA:H:abc", "XA:H:zz", "XA:A:ab", "XA:A:", "XA:Q:1", "XA:B:c,1,x", ":i:1", "XA::1"} {
			bads = append(bads, mk(11, t), mk(11, "XB:Z:ok")+"", strings.TrimSuffix(g, "\n")+"\t"+t+"\n")
		}
		for _, bad := range bads {
			wrap(g, bad)
			wrap("@HD\tVN:1\n"+g, bad)
		}
		// long lines (beyond 4096 and 65536 bytes): a malformed long line directly followed by a good long line
		for _, L := range []int{5000, 9000, 70000} {
			long := strings.Repeat("ACGT", L/4)
			gl := "ql\t0\tr\t1\t2\t*\t=\t3\t4\t" + long + "\t" + long + "\tXA:i:1\n"
			for _, bl := range []string{"qb\t1x\tr\t1\t2\t*\t=\t3\t4\t" + long + "\t" + long + "\n", "qb\t0\tr\t1\t2\t*\t=\t3\t4\t" + long + "\n", "qb\t0\tr\t1\t2\t*\t=\t3\t4\t" + long + "\t" + long + "\tXA:i:x\n"} {
				out = append(out, []byte(g+bl+gl+g), []byte(gl+bl+gl+gl), []byte(bl+bl+gl))
			}
		}
	case "bed":
		g := "c\t1\t9\tn\t5\t+\t2\t3\t1,2,3\t2\t1,2\t0,5\n"
		f := strings.Split(strings.TrimSuffix(g, "\n"), "\t")
		mk := func(i int, v string) string {
			h := append([]string(nil), f...)
			h[i] = v
			return strings.Join(h, "\t") + "\n"
		}
		bads := []string{strings.Join(f[:11], "\t") + "\n", strings.Join(f[:3], "\t") + "\n", strings.Join(f[:2], "\t") + "\n", g[:len(g)-1] + "\textra\n"}
		for _, i := range []int{1, 2, 4, 6, 7, 9} {
			bads = append(bads, mk(i, "1x"), mk(i, "-"), mk(i, "1.5"))
		}
		bads = append(bads, mk(5, "x"), mk(5, "++"), mk(8, "1,2"), mk(8, "1,2,3,4"), mk(8, "256,0,0"), mk(8, "a,b,c"), mk(8, "-1,0,0"),
			mk(9, "3"), mk(9, "1"), mk(9, "0"), mk(9, "-1"), mk(9, "-2"), mk(9, "-9223372036854775808"), mk(9, "1099511627776"), mk(9, "4611686018427387904"),
			strings.Join(append(append([]string(nil), f[:9]...), "-1", "1,2"), "\t") + "\n", strings.Join(append(append([]string(nil), f[:9]...), "4611686018427387904", "1,2"), "\t") + "\n",
			mk(10, "1,2,3"), mk(10, "1"), mk(10, "1,x"), mk(10, ""), mk(11, "0"), mk(11, "0,5,9"), mk(11, "0,y"), mk(11, ""), mk(10, "1,2,"), mk(11, ",0,5"))
		for _, bad := range bads {
			wrap(g, bad)
		}
	case "newick":
		g := "(a:1,b)c;"
		for _, bad := range []string{"(a,b;", "a,b);", "(a,b)c)d;", "(a b)c;", "(a:x,b)c;", "(a:,b)c;", "(a:1:2,b)c;", "(a'b',c)d;", "(a,b)c d;", "(a,b)'c", ";;", "(,,(", "a:1e999;", "(a,b):;", "'a''", ")"} {
			wrap(g, bad)
			wrap(g+"\n", bad+"\n")
		}
	}
	return out
}

func formatByName(name string) *format {
	for _, g := range formats {
		if g.name == name {
			return g
		}
	}
	return nil
}

// specialCases: decode every special input whole; the records written must come back.
func specialCases(c *Ctx, name string) {
	f := formatByName(name)
	for _, in := range append(c.specialInputs(name), c.independentInputs(name)...) {
		items, st := f.decode(bytes.NewReader(in.data), 0, len(in.data)+16)
		got := itemsStr(items, st)
		oracle := ""
		if got != in.want {
			oracle = fmt.Sprintf("%s: read(write(records)) != records (%s): got %s", name, in.desc, trunc(got, 100))
		} else if fp := safe(func() string { return fixedPoint(f, in.data) }); fp != "" {
			oracle = fp
		}
		if oracle == "" {
			// the same text through File (plain and gzip): the third way records are read back
			for _, gz := range []bool{false, true} {
				nm := fmt.Sprintf("sp-%s-%d.dat", name, len(c.cases))
				if gz {
					nm += ".gz"
				}
				p := writeTemp(nm, in.data, gz)
				if fg := itemsStr(f.file(p, 0, len(in.data)+16)); fg != in.want && oracle == "" {
					oracle = fmt.Sprintf("%s.File(%s): read(write(records)) != records (%s): got %s", name, nm, in.desc, trunc(fg, 100))
				}
				os.Remove(p)
			}
		}
		c.add(Case{Op: decOpLine(f, "e", in.data), Impl: got, Kind: "special-input", Nontrivial: true, Oracle: oracle,
			Note: fmt.Sprintf("%s input, %s: %q…", name, in.desc, trunc(string(in.data), 60))})
	}
	for _, in := range append(c.hugeInputs(name), c.exactLineInputs(name)...) {
		items, st := f.decode(bytes.NewReader(in.data), 0, 64)
		got := itemsStr(items, st)
		oracle := ""
		if got != in.want {
			oracle = fmt.Sprintf("%s: read(write(records)) != records (%s): got %d items, status %q", name, in.desc, len(items), st)
		}
		// the same bytes handed over as the concrete reader types a caller is likely to use
		for what, r := range map[string]io.Reader{"a *bufio.Reader": bufio.NewReader(bytes.NewReader(in.data)), "a *bufio.Reader with a 16-byte buffer": bufio.NewReaderSize(bytes.NewReader(in.data), 16),
			"a *bytes.Buffer": bytes.NewBuffer(append([]byte(nil), in.data...)), "a *strings.Reader": strings.NewReader(string(in.data))} {
			if got2 := itemsStr(f.decode(r, 0, 64)); got2 != in.want && oracle == "" {
				oracle = fmt.Sprintf("%s: the records read from %s differ from the records written (%s): %s", name, what, in.desc, trunc(got2, 80))
			}
		}
		c.add(Case{Kind: "huge-input", Nontrivial: true, Oracle: oracle, Note: fmt.Sprintf("%s input of %d bytes, %s", name, len(in.data), in.desc)})
	}
	scribbleCases(c, name)
}

// deliveryCases (C06): the special and huge inputs under delivery schedules and through File.
func deliveryCases(c *Ctx, f *format) {
	ins := append(c.specialInputs(f.name), c.hugeInputs(f.name)...)
	ins = append(ins, c.exactLineInputs(f.name)...)
	ins = append(ins, c.rawMagicInputs(f)...)
	for i, in := range ins {
		limit := len(in.data) + 16
		if len(in.data) > 50000 {
			limit = 64
		}
		oracle := ""
		n := 0
		try := func(r io.Reader, what string) {
			n++
			if got := itemsStr(f.decode(r, 0, limit)); got != in.want && oracle == "" {
				oracle = fmt.Sprintf("%s (%s) delivered %s decodes to %s", f.name, in.desc, what, trunc(got, 100))
			}
		}
		try(bytes.NewReader(in.data), "whole")
		if len(in.data) <= 300000 || c.thor {
			try(&chunkReader{data: in.data, sizes: []int{1}}, "one byte at a time")
		}
		try(&chunkReader{data: in.data, sizes: []int{1, 5000}}, "first one byte, then large chunks")
		try(&chunkReader{data: in.data, sizes: []int{2, 1 << 20}}, "first two bytes, then the rest")
		try(&chunkReader{data: in.data, sizes: []int{3, 0, 7}}, "3, empty, 7 …")
		try(&chunkReader{data: in.data, sizes: []int{4096}}, "4096-byte chunks")
		try(&chunkReader{data: in.data, withEOF: true}, "everything together with EOF")
		// the concrete reader types a caller is likely to hand over (code may treat them specially)
		try(bufio.NewReader(bytes.NewReader(in.data)), "as a *bufio.Reader")
		try(bufio.NewReaderSize(bytes.NewReader(in.data), 16), "as a *bufio.Reader with a 16-byte buffer")
		try(bytes.NewBuffer(append([]byte(nil), in.data...)), "as a *bytes.Buffer")
		try(strings.NewReader(string(in.data)), "as a *strings.Reader")
		if len(in.data) >= 50000 && len(in.data) < 300000 && !bytes.Contains(in.data, []byte("\r")) && !strings.HasPrefix(in.desc, "raw:") && f.name != "newick" {
			// long inputs too, delivered whole: a CR that falls on the last byte of a reader's fragment is still a terminator
			try(bytes.NewReader(crlf(in.data)), "with CRLF line terminators (long lines)")
		}
		if len(in.data) < 50000 && !bytes.Contains(in.data, []byte("\r")) && !strings.HasPrefix(in.desc, "raw:") {
			cr := crlf(in.data)
			if f.name == "newick" {
				cr = crlfOutsideQuotes(in.data)
			}
			try(bytes.NewReader(cr), "with CRLF line terminators")
			try(&chunkReader{data: cr, sizes: []int{1}}, "with CRLF line terminators, one byte at a time")
		}
		for _, gz := range []bool{false, true} {
			nm := fmt.Sprintf("c06s-%s-%d.dat", f.name, i)
			if gz {
				nm += ".gz"
			}
			p := writeTemp(nm, in.data, gz)
			n++
			if got := itemsStr(f.file(p, 0, limit)); got != in.want && oracle == "" {
				oracle = fmt.Sprintf("%s.File(%s) (%s) differs from the records written: %s", f.name, nm, in.desc, trunc(got, 100))
			}
			os.Remove(p)
		}
		// gzip files of several members (cat a.gz b.gz), with an empty last member, with a file name in the header
		if len(in.data) > 2 {
			cuts := [][]int{{len(in.data) / 2}, {1, len(in.data) - 1}, {len(in.data) / 3, 2 * len(in.data) / 3}, {len(in.data)}}
			for k, cut := range cuts {
				var b bytes.Buffer
				prev := 0
				for j, at := range append(cut, len(in.data)) {
					zw, _ := gzip.NewWriterLevel(&b, []int{gzip.DefaultCompression, gzip.BestSpeed, gzip.NoCompression}[(k+j)%3])
					if j == 0 && k%2 == 1 {
						zw.Name = "records.txt"
						zw.Comment = "written by the harness"
					}
					zw.Write(in.data[prev:at])
					zw.Close()
					prev = at
				}
				nm := fmt.Sprintf("c06m-%s-%d-%d.dat.gz", f.name, i, k)
				p := writeTemp(nm, b.Bytes(), false)
				n++
				if got := itemsStr(f.file(p, 0, limit)); got != in.want && oracle == "" {
					oracle = fmt.Sprintf("%s.File(%s) (%s; a gzip file of %d members) differs from the records written: %s", f.name, nm, in.desc, len(cut)+1, trunc(got, 100))
				}
				os.Remove(p)
			}
		}
		// one iterator value from File, ranged again after an early stop and after a full traversal
		if i%3 == 0 && f.fileTwice != nil {
			p := writeTemp(fmt.Sprintf("c06t-%s-%d.dat", f.name, i), in.data, false)
			n++
			second, third, st := f.fileTwice(p, limit)
			os.Remove(p)
			if oracle == "" && (st != "" || itemsStr(second, "") != in.want || itemsStr(third, "") != in.want) {
				oracle = fmt.Sprintf("%s.File: the same iterator value ranged again (after an early stop, then after a full traversal) yields %s / %s %s, the file holds %s", f.name, trunc(itemsStr(second, ""), 60), trunc(itemsStr(third, ""), 60), st, trunc(in.want, 60))
			}
		}
		c.add(Case{Kind: f.name + "-special-delivery", Nontrivial: true, Oracle: oracle, Note: fmt.Sprintf("%s input of %d bytes (%s) under %d deliveries incl. File plain/.gz/multi-member .gz", f.name, len(in.data), in.desc, n)})
	}
}

// ---------------------------------------------------------------------------
// Scribbling: the consumer owns what it is handed.  Every mutable part of a
// yielded record is overwritten / appended to as soon as it has been observed;
// the records yielded afterwards must be what a clean decode yields.

func scrib(b []byte) []byte {
	for i := range b {
		b[i] ^= 0xa5
	}
	return append(b, 'X', 'Y')
}

func scribbleCases(c *Ctx, name string) {
	f := formatByName(name)
	var inputs [][]byte
	for _, in := range c.specialInputs(name) {
		if strings.Contains(in.desc, "repeated") {
			inputs = append(inputs, in.data)
		}
	}
	for i := 0; i < c.n(12); i++ {
		inputs = append(inputs, f.wellFormed(c))
	}
	for _, data := range inputs {
		clean := itemsStr(f.decode(bytes.NewReader(data), 0, len(data)+16))
		var got []string
		st := safe(func() string {
			switch name {
			case "fasta":
				for r, err := range fasta.Reader(bytes.NewReader(data)) {
					if err != nil {
						got = append(got, "E")
						continue
					}
					got = append(got, faS(r))
					r.Name, r.Sequence = scrib(r.Name), scrib(r.Sequence)
				}
			case "fastq":
				for r, err := range fastq.Reader(bytes.NewReader(data)) {
					if err != nil {
						got = append(got, "E")
						continue
					}
					got = append(got, fqS(r))
					r.Name, r.Sequence, r.Quals = scrib(r.Name), scrib(r.Sequence), scrib(r.Quals)
				}
			case "sam", "samh":
				mess := func(s *sam.SAM) {
					for k, v := range s.Tags {
						if b, ok := v.([]byte); ok {
							s.Tags[k] = scrib(b)
						} else {
							s.Tags[k] = "scribbled"
						}
					}
					s.Tags["ZZ"] = 1
					s.Qname, s.Flag, s.Pos = "scribbled", 4095, -1
				}
				if name == "sam" {
					for r, err := range sam.Reader(bytes.NewReader(data)) {
						if err != nil {
							got = append(got, "E")
							continue
						}
						got = append(got, samS(r))
						mess(r)
					}
				} else {
					for sh, err := range sam.ReaderHeader(bytes.NewReader(data)) {
						if err != nil {
							got = append(got, "E")
							continue
						}
						got = append(got, shS(sh))
						if sh.S != nil {
							mess(sh.S)
						}
						if sh.H != nil {
							*sh.H = "scribbled"
						}
					}
				}
			case "bed":
				for r, err := range bed.Reader(bytes.NewReader(data)) {
					if err != nil {
						got = append(got, "E")
						continue
					}
					got = append(got, bedS(r))
					for i := range r.BlockSizes {
						r.BlockSizes[i] = -7
					}
					for i := range r.BlockStarts {
						r.BlockStarts[i] = -9
					}
					r.BlockSizes, r.BlockStarts = append(r.BlockSizes, 1, 2), append(r.BlockStarts, 3)
					r.Chrom, r.N, r.ItemRGB = "scribbled", 3, [3]byte{9, 9, 9}
				}
			case "newick":
				for t, err := range newick.Reader(bytes.NewReader(data)) {
					if err != nil {
						got = append(got, "E")
						continue
					}
					got = append(got, treeS(t))
					var walk func(n *newick.Node)
					walk = func(n *newick.Node) {
						kids := n.Children
						n.Name, n.Distance = "scribbled", -1
						for i := range kids {
							ch := kids[i]
							kids[i] = &newick.Node{Name: "fake"}
							walk(ch)
						}
						n.Children = append(kids, &newick.Node{Name: "extra"})
					}
					walk(t)
				}
			}
			return ""
		})
		oracle := ""
		gs := "."
		if len(got) > 0 {
			gs = strings.Join(got, "|")
		}
		if st == "PANIC" {
			oracle = name + ": the reader panics when the consumer modifies the records it was handed"
		} else if gs != clean {
			oracle = name + ": records yielded after the consumer modified earlier ones differ from a clean decode: " + trunc(gs, 120)
		}
		c.add(Case{Kind: "scribble", Nontrivial: clean != ".", Oracle: oracle, Note: fmt.Sprintf("%s.Reader on %q…, every yielded record overwritten by the consumer before the next is requested", name, trunc(string(data), 60))})
	}
}

// ---------------------------------------------------------------------------
// Records carved back to back from ONE flat buffer (each field's capacity runs
// into the next field): writing them one after another must give the bytes of
// independent copies and leave the buffer alone.

func flatBufferRecords(c *Ctx, what string) {
	for i := 0; i < c.n(30); i++ {
		k := 2 + c.rng.Intn(4)
		var lens []int
		total := 0
		for j := 0; j < 3*k; j++ {
			l := 1 + c.rng.Intn(12)
			if j%3 == 1 && c.rng.Intn(3) == 0 {
				l = 75 + c.rng.Intn(100)
			}
			if what == "fastq" && j%3 == 2 {
				l = lens[j-1]
			}
			lens = append(lens, l)
			total += l
		}
		buf := c.text(total, ">@+")
		before := append([]byte(nil), buf...)
		var want, got bytes.Buffer
		var exp []string
		pos := 0
		field := func(j int) []byte { s := buf[pos : pos+lens[j]]; pos += lens[j]; return s } // cap reaches the end of buf
		var writes []func(w io.Writer) error
		for j := 0; j < k; j++ {
			nm, sq, ql := field(3*j), field(3*j+1), field(3*j+2)
			cn, cs, cq := append([]byte(nil), nm...), append([]byte(nil), sq...), append([]byte(nil), ql...)
			if what == "fasta" {
				r := &fasta.Fasta{Name: nm, Sequence: sq}
				(&fasta.Fasta{Name: cn, Sequence: cs}).Write(&want)
				exp = append(exp, faS(&fasta.Fasta{Name: cn, Sequence: cs}))
				writes = append(writes, r.Write, func(w io.Writer) error { _, err := r.MarshalText(); return err })
			} else {
				r := &fastq.Fastq{Name: nm, Sequence: sq, Quals: ql}
				(&fastq.Fastq{Name: cn, Sequence: cs, Quals: cq}).Write(&want)
				exp = append(exp, fqS(&fastq.Fastq{Name: cn, Sequence: cs, Quals: cq}))
				writes = append(writes, r.Write, func(w io.Writer) error { _, err := r.MarshalText(); return err })
			}
		}
		st := safe(func() string {
			for j, w := range writes {
				if j%2 == 0 {
					w(&got)
				} else {
					w(nil)
				}
			}
			return ""
		})
		oracle := ""
		if st == "PANIC" {
			oracle = "Write/MarshalText panicked"
		} else if !bytes.Equal(buf, before) {
			oracle = what + ": writing records carved back to back from one buffer modified that buffer"
		} else if !bytes.Equal(got.Bytes(), want.Bytes()) {
			oracle = what + ": records carved back to back from one buffer are written differently from independent copies"
		}
		c.add(Case{Kind: "flat-buffer", Nontrivial: true, Oracle: oracle, Note: fmt.Sprintf("%d %s records whose fields are consecutive windows of one %d-byte buffer", k, what, total)})
	}
}

// ---------------------------------------------------------------------------
// C02: qualities of every other length

// paddedQuals: a quality (or sequence) line that is too long by exactly its trailing blanks / NULs,
// or too short, padded or not: the lengths differ, so the record must be rejected.
func paddedQuals(c *Ctx) {
	good := &fastq.Fastq{Name: []byte("g"), Sequence: []byte("ACGT"), Quals: []byte("IIII")}
	pads := []string{" ", "\t", "  ", " \t", "\x00", "\v", "\f", "\t\t\t"}
	for n := 1; n <= 5; n++ {
		for _, pad := range pads {
			for variant := 0; variant < 4; variant++ {
				seq := string(c.bytesFrom([]byte("ACGT"), n))
				q := strings.Repeat("I", n)
				switch variant {
				case 0: // qualities too long by their trailing padding
					q += pad
				case 1: // a byte inserted ahead of legitimate trailing padding
					if n < 2 {
						continue
					}
					q = q[:n-len(pad)%n] + "X" + pad
					if len(q) == n {
						continue
					}
				case 2: // sequence padded, qualities not
					seq += pad
				case 3: // leading padding
					q = pad + q
				}
				if len(q) == len(seq) {
					continue
				}
				txt := fastqWrite([]*fastq.Fastq{good})
				txt = append(txt, []byte("@bad\n"+seq+"\n+\n"+q+"\n")...)
				txt = append(txt, fastqWrite([]*fastq.Fastq{good})...)
				items, st := decFastq(bytes.NewReader(txt), 0, 16)
				got := itemsStr(items, st)
				oracle := ""
				if got != fqS(good)+"|E" {
					oracle = fmt.Sprintf("a record whose sequence line has %d and whose quality line has %d bytes (blank padding) is not rejected: %s", len(seq), len(q), trunc(got, 80))
				}
				c.add(Case{Op: "fq.dec e " + hx(txt), Impl: got, Kind: "quals-padding", Nontrivial: true, Oracle: oracle,
					Note: fmt.Sprintf("fastq record seq %q quals %q between two good records", seq, q)})
			}
		}
	}
}

func qualsLengthGrid(c *Ctx) {
	paddedQuals(c)
	check := func(n, q int) {
		if n == q {
			return
		}
		good := &fastq.Fastq{Name: []byte("g"), Sequence: []byte("ACGT"), Quals: []byte("IIII")}
		txt := fastqWrite([]*fastq.Fastq{good})
		txt = append(txt, []byte("@bad\n"+strings.Repeat("A", n)+"\n+\n"+strings.Repeat("I", q)+"\n")...)
		txt = append(txt, fastqWrite([]*fastq.Fastq{good})...)
		items, st := decFastq(bytes.NewReader(txt), 0, 16)
		got := itemsStr(items, st)
		oracle := ""
		if got != fqS(good)+"|E" {
			oracle = fmt.Sprintf("a record with %d bases and %d qualities is not rejected (want the earlier record, then one error): %s", n, q, trunc(got, 80))
		}
		cs := Case{Kind: "quals-length-grid", Nontrivial: true, Oracle: oracle, Note: fmt.Sprintf("fastq record with %d bases and %d quality characters between two good records", n, q)}
		if n+q < 400 {
			cs.Op, cs.Impl = "fq.dec e "+hx(txt), got
		}
		c.add(cs)
	}
	for n := 0; n <= 24; n++ {
		for q := 0; q <= 136; q++ {
			check(n, q)
		}
	}
	for _, n := range []int{100, 1000} {
		for q := 3 * n; q <= 4*n; q += 1 + n/200 {
			check(n, q)
		}
		for _, q := range []int{2 * n, 2*n + 48, 8 * n, 16 * n} {
			check(n, q)
		}
	}
}

// ---------------------------------------------------------------------------
// sequtil

func refCanonical(s []byte, k int) []string {
	var want []string
	for p := 0; p+k <= len(s); p++ {
		w := s[p : p+k]
		rc := make([]byte, k)
		for q := range w {
			rc[k-1-q] = stdComp(w[q])
		}
		if bytes.Compare(rc, w) < 0 {
			w = rc
		}
		want = append(want, hx(w))
	}
	return want
}

func sequtilRound4_12(c *Ctx) {
	sequtilWarmUp()
	canonNearPalindromes(c)
	canonRetainedHuge(c)
	canonReusedIterator(c)
	canonLongBufferReused(c)
	rcHugeInvalid(c)
	canonRound7(c)
	// k around the machine-word boundaries, on pure upper-case ACGT and on mixed input
	for _, k := range []int{15, 16, 17, 31, 32, 33, 63, 64, 65} {
		for i := 0; i < c.n(6); i++ {
			al := []byte("ACGT")
			if i%3 == 2 {
				al = []byte("ACGTacgtN")
			}
			s := c.bytesFrom(al, k+c.rng.Intn(40))
			if i%3 == 1 { // first bases from opposite halves of the alphabet, long shared tails
				s = append([]byte{"ACGT"[c.rng.Intn(4)]}, bytes.Repeat([]byte{"GT"[c.rng.Intn(2)]}, k+5)...)
				s = append(s, c.bytesFrom(al, 10)...)
			}
			var got []string
			st := safe(func() string {
				for x := range sequtil.CanonicalSubsequences(s, k) {
					got = append(got, hx(x))
				}
				return ""
			})
			want := refCanonical(s, k)
			oracle := ""
			if st == "PANIC" {
				oracle = "CanonicalSubsequences panicked"
			} else if strings.Join(got, ",") != strings.Join(want, ",") {
				oracle = fmt.Sprintf("CanonicalSubsequences with k=%d: an item is not the lexicographic minimum of a window and its reverse complement", k)
			}
			c.add(Case{Op: fmt.Sprintf("su.canon %d 0 %s", k, hx(s)), Impl: strings.Join(got, ","), Kind: "canon-word-k", Nontrivial: true, Oracle: oracle,
				Note: fmt.Sprintf("CanonicalSubsequences(%q, %d)", s, k)})
		}
	}
}

// canonReusedIterator: the same iter.Seq value ranged over again after the caller refilled the sequence buffer
func canonReusedIterator(c *Ctx) {
	for i := 0; i < c.n(30); i++ {
		n := 8 + c.rng.Intn(30)
		k := 1 + c.rng.Intn(6)
		buf := c.bytesFrom([]byte("ACGTacgtN"), n)
		it := sequtil.CanonicalSubsequences(buf, k)
		var first, second []string
		st := safe(func() string {
			for x := range it {
				first = append(first, hx(x))
			}
			return ""
		})
		want1 := refCanonical(buf, k)
		copy(buf, c.bytesFrom([]byte("ACGTacgtN"), n))
		st2 := safe(func() string {
			for x := range it {
				second = append(second, hx(x))
			}
			return ""
		})
		want2 := refCanonical(buf, k)
		oracle := ""
		if st == "PANIC" || st2 == "PANIC" {
			oracle = "CanonicalSubsequences panicked"
		} else if strings.Join(first, ",") != strings.Join(want1, ",") {
			oracle = "first range over the iterator is wrong"
		} else if strings.Join(second, ",") != strings.Join(want2, ",") {
			oracle = "ranging again over the same iterator value after the sequence buffer was refilled: items are not the canonical k-mers of the buffer's current content"
		}
		c.add(Case{Kind: "canon-iterator-reused", Nontrivial: true, Oracle: oracle, Note: fmt.Sprintf("CanonicalSubsequences(buf, %d) ranged, buf (%d bases) overwritten in place, ranged again", k, n)})
	}
}

// canonLongBufferReused (round 7): a LONG sequence buffer (>= 1024 bases) traversed by a fresh call, edited in
// place (one base, then refilled at the same length), and traversed again by another fresh call: every call
// must yield the canonical k-mers of the buffer's content at the time of that call.
func canonLongBufferReused(c *Ctx) {
	for i := 0; i < c.n(4); i++ {
		n := []int{1024, 1500, 4096, 5000}[i%4]
		k := []int{3, 11, 21, 32}[c.rng.Intn(4)]
		buf := c.bytesFrom([]byte("ACGT"), n)
		run := func() (string, string) {
			var got []string
			st := safe(func() string {
				for x := range sequtil.CanonicalSubsequences(buf, k) {
					got = append(got, hx(x))
				}
				return ""
			})
			return st, strings.Join(got, ",")
		}
		oracle := ""
		for round := 0; round < 4 && oracle == ""; round++ {
			switch round {
			case 1:
				p := c.rng.Intn(n)
				buf[p] = "ACGT"[(strings.IndexByte("ACGT", buf[p])+1)%4]
			case 2:
				copy(buf, c.bytesFrom([]byte("ACGT"), n))
			case 3:
				buf = buf[:n-7]
			}
			st, got := run()
			if st == "PANIC" {
				oracle = "CanonicalSubsequences panicked on a long sequence"
			} else if got != strings.Join(refCanonical(buf, k), ",") {
				oracle = fmt.Sprintf("call %d on the same %d-base buffer (edited in place between calls): items are not the canonical %d-mers of the buffer's current content", round+1, len(buf), k)
			}
		}
		c.add(Case{Kind: "canon-long-buffer-reused", Nontrivial: true, Oracle: oracle, Note: fmt.Sprintf("CanonicalSubsequences(buf, %d) on a %d-base buffer: traversed, one base edited in place, traversed, refilled, traversed, shortened, traversed", k, n)})
	}
}

// rcHugeInvalid (round 7): ReverseComplement of >= 1 MiB: valid input equals the reference; one invalid byte
// -- at position 0, at the end, around every power-of-two boundary -- must make it panic.
func rcHugeInvalid(c *Ctx) {
	n := 1<<20 + 37
	src := c.bytesFrom([]byte("ACGTacgtNn"), n)
	comp := func(b byte) byte {
		return "TGCAtgcaNn"[strings.IndexByte("ACGTacgtNn", b)]
	}
	want := make([]byte, n)
	for i, b := range src {
		want[n-1-i] = comp(b)
	}
	var got []byte
	st := safe(func() string { got = sequtil.ReverseComplement(nil, src); return "" })
	oracle := ""
	if st == "PANIC" || !bytes.Equal(got, want) {
		oracle = fmt.Sprintf("ReverseComplement of a valid %d-base sequence is wrong", n)
	}
	c.add(Case{Kind: "rc-huge", Nontrivial: true, Oracle: oracle, Note: fmt.Sprintf("ReverseComplement(nil, %d valid bases)", n)})
	// the same appended to destinations that already hold bytes (with and without spare capacity): the prefix stays,
	// the appended part is the reverse complement
	for _, m := range []int{n, 1 << 20, 1<<20 + 1<<18 + 3, 3<<19 - 1} {
		for _, pl := range []int{1, 7, 4096} {
			if m > len(src) {
				src = append(src, c.bytesFrom([]byte("ACGTacgtNn"), m-len(src))...)
			}
			s := src[:m]
			w := make([]byte, m)
			for i, b := range s {
				w[m-1-i] = comp(b)
			}
			prefix := c.text(pl, "")
			for _, spare := range []int{0, m + 64} {
				dst := make([]byte, pl, pl+spare)
				copy(dst, prefix)
				var got []byte
				st := safe(func() string { got = sequtil.ReverseComplement(dst, s); return "" })
				oracle := ""
				if st == "PANIC" || len(got) != pl+m || !bytes.Equal(got[:pl], prefix) || !bytes.Equal(got[pl:], w) {
					oracle = fmt.Sprintf("ReverseComplement(dst, src) with %d bytes already in dst (spare capacity %d) and %d valid bases: result is not dst followed by the reverse complement", pl, spare, m)
				}
				c.add(Case{Kind: "rc-huge-append", Nontrivial: true, Oracle: oracle, Note: fmt.Sprintf("ReverseComplement(%d-byte dst, cap +%d, %d valid bases)", pl, spare, m)})
			}
		}
	}
	src = src[:n]
	pos := []int{0, 1, n - 1, n - 2, n / 2, 1 << 19, 1<<19 - 1, 1 << 18, 1 << 16, 1<<20 - 1, 1 << 20, 4095, 4096}
	for _, p := range pos {
		for _, bad := range []byte{'X', 0x00, 0xff} {
			old := src[p]
			src[p] = bad
			st := safe(func() string { sequtil.ReverseComplement(nil, src); return "" })
			src[p] = old
			oracle := ""
			if st != "PANIC" {
				oracle = fmt.Sprintf("ReverseComplement of %d bases with the invalid byte %#x at position %d does not panic", n, bad, p)
			}
			c.add(Case{Kind: "rc-huge-invalid", Nontrivial: true, Oracle: oracle, Note: fmt.Sprintf("ReverseComplement(nil, %d bases, byte %#x at %d)", n, bad, p)})
		}
	}
}

// from2bitWordsAndPrefixes (round 7): packed inputs of >= 8 bytes made of repeated 8-byte words (all zero first,
// repeated non-zero words, a zero word later) appended to dst prefixes of 0..100 bytes of non-base text.
func from2bitWordsAndPrefixes(c *Ctx) {
	words := [][]byte{bytes.Repeat([]byte{0}, 8), bytes.Repeat([]byte{0xff}, 8), {0x1b, 0x1b, 0x1b, 0x1b, 0x1b, 0x1b, 0x1b, 0x1b}, {1, 2, 3, 4, 5, 6, 7, 8}}
	for _, pl := range []int{0, 1, 31, 32, 33, 40, 64, 100} {
		for wi, w0 := range words {
			for _, shape := range []int{0, 1, 2, 3} {
				var p []byte
				switch shape {
				case 0:
					p = bytes.Repeat(w0, 3)
				case 1:
					p = append(append(append([]byte(nil), w0...), words[(wi+1)%4]...), w0...)
				case 2:
					p = append(append(append([]byte(nil), words[(wi+1)%4]...), w0...), w0...)
				case 3:
					p = append(append([]byte(nil), w0...), 0x6c, 0x00, 0x00)
				}
				pre := c.bytesFrom([]byte(">read_12 xyzGTCgtc\n"), pl)
				arena := make([]byte, pl, pl+[]int{0, 7, 4 * len(p), 8 * len(p)}[c.rng.Intn(4)])
				copy(arena, pre)
				got := safe(func() string { return hx(sequtil.DNAFrom2Bit(arena, p)) })
				want := append([]byte(nil), pre...)
				for _, b := range p {
					want = append(want, "ACGT"[b>>6&3], "ACGT"[b>>4&3], "ACGT"[b>>2&3], "ACGT"[b&3])
				}
				oracle := ""
				if got != hx(want) {
					oracle = fmt.Sprintf("DNAFrom2Bit of %d packed bytes (8-byte words % x…) appended to a %d-byte prefix is wrong", len(p), p[:8], pl)
				}
				cs := Case{Kind: "from2bit-words-prefix", Nontrivial: true, Oracle: oracle, Note: fmt.Sprintf("DNAFrom2Bit(%d-byte prefix %q…, % x…) %d bytes", pl, trunc(string(pre), 12), p[:8], len(p))}
				if pl <= 40 {
					cs.Op, cs.Impl = "su.from2bit "+hx(pre)+" "+hx(p), strings.Replace(got, "PANIC", "P", 1)
				}
				c.add(cs)
			}
		}
	}
}

// canonLongStops: early stop around multiples of 256/1024/4096 of a long iteration
func canonLongStops(c *Ctx) {
	s := c.bytesFrom([]byte("ACGT"), 13000)
	for _, k := range []int{1, 21} {
		total := len(s) - k + 1
		for _, base := range []int{256, 1024, 4096, 8192, 12288} {
			for j := base - 1; j <= base+1; j++ {
				if j >= total {
					continue
				}
				seen, after, stopped := 0, 0, false
				st := safe(func() string {
					sequtil.CanonicalSubsequences(s, k)(func(x []byte) bool {
						if stopped {
							after++
							return false
						}
						seen++
						if seen == j {
							stopped = true
							return false
						}
						return true
					})
					return ""
				})
				oracle := ""
				if st == "PANIC" || after > 0 || seen != j {
					oracle = fmt.Sprintf("CanonicalSubsequences over %d items stopped after %d: panic=%v, callbacks after the stop=%d", total, j, st == "PANIC", after)
				}
				c.add(Case{Kind: "canon-stop-long", Nontrivial: true, Oracle: oracle, Note: fmt.Sprintf("CanonicalSubsequences(13000 bases, %d) with the consumer stopping after %d items", k, j)})
			}
		}
	}
}

func sequtilRound4_13(c *Ctx) {
	sequtilWarmUp()
	// after every other function of the package has run: each of the 256 byte values inside an otherwise valid sequence
	for _, pos := range []int{0, 1, 3, 4, 6} {
		bad := ""
		for v := 0; v < 256 && bad == ""; v++ {
			s := []byte("ACGTACG")
			s[pos] = byte(v)
			valid := strings.IndexByte("ACGTacgt", byte(v)) >= 0
			if got := safe(func() string { return hx(sequtil.DNATo2Bit(nil, s)) }); valid == (got == "PANIC") {
				bad = fmt.Sprintf("DNATo2Bit(%q) (byte %#x at position %d, after the other functions of the package were used): valid base=%v, panics=%v", s, v, pos, valid, got == "PANIC")
			}
		}
		c.add(Case{Kind: "to2bit-every-byte", Nontrivial: true, Oracle: bad, Note: fmt.Sprintf("DNATo2Bit with every byte value at position %d of a 7-base sequence", pos)})
	}
	// every 4-byte string over bases and foreign bytes, alone and after a valid group: DNATo2Bit panics
	// exactly when a foreign byte is present (whatever the NUMBER of foreign bytes in a group)
	al := []byte{'A', 'c', 'G', 't', 'N', 'n', 0xff, 0x00}
	for a := 0; a < len(al)*len(al)*len(al)*len(al); a++ {
		g := []byte{al[a%8], al[a/8%8], al[a/64%8], al[a/512%8]}
		for _, s := range [][]byte{g, append([]byte("ACGT"), g...), append(append([]byte("AC"), g...), 'T')} {
			foreign := false
			for _, b := range s {
				if strings.IndexByte("ACGTacgt", b) < 0 {
					foreign = true
				}
			}
			got := safe(func() string { return hx(sequtil.DNATo2Bit(nil, s)) })
			oracle := ""
			if foreign != (got == "PANIC") {
				oracle = fmt.Sprintf("DNATo2Bit(%q): foreign byte present=%v, panics=%v", s, foreign, got == "PANIC")
			}
			cs := Case{Kind: "to2bit-foreign-combinations", Nontrivial: true, Oracle: oracle, Note: fmt.Sprintf("DNATo2Bit(nil, %q)", s)}
			if a%7 == 0 || oracle != "" {
				cs.Op, cs.Impl = "su.to2bit - "+hx(s), strings.Replace(got, "PANIC", "P", 1)
			}
			c.add(cs)
		}
	}
	// long inputs into a dst that has a prefix and stale, non-zero spare capacity (smaller and larger than needed)
	for i := 0; i < c.n(60); i++ {
		n := []int{61, 63, 64, 65, 66, 67, 127, 129, 130, 255, 257, 1001}[c.rng.Intn(12)]
		s := c.bytesFrom([]byte("aAcCgGtT"), n)
		if i%2 == 1 {
			// homopolymer runs (poly-A tails, masked stretches) of 32..80 bases at aligned and unaligned offsets: their
			// packed bytes are 0x00 / 0x55 / 0xaa / 0xff, which a shortcut may take from whatever the buffer held
			for r := 0; r < 1+c.rng.Intn(3); r++ {
				rl := 32 + c.rng.Intn(49)
				if rl > n {
					rl = n
				}
				at := c.rng.Intn(n - rl + 1)
				if c.rng.Intn(2) == 0 {
					at &^= 3
				}
				b := "AaCGTt"[c.rng.Intn(6)]
				if r == 0 && i%4 == 1 {
					b = "Aa"[c.rng.Intn(2)]
				}
				for j := at; j < at+rl; j++ {
					s[j] = b
				}
			}
		}
		dl := c.rng.Intn(9)
		spare := []int{0, 1, 3, n / 8, n/4 - 1, n / 4, n/4 + 1, n/4 + 2, n}[c.rng.Intn(9)]
		if spare < 0 {
			spare = 0
		}
		arena := make([]byte, dl+spare)
		for j := range arena {
			arena[j] = byte(0x81 + c.rng.Intn(0x7e))
		}
		dst := arena[:dl:dl+spare]
		d0 := append([]byte(nil), dst...)
		out := safe(func() string { return hx(sequtil.DNATo2Bit(dst, s)) })
		want := append([]byte(nil), d0...)
		for j, b := range s {
			if j%4 == 0 {
				want = append(want, 0)
			}
			want[len(d0)+j/4] |= byte(strings.IndexByte("ACGT", b&^0x20)) << (6 - 2*uint(j%4))
		}
		oracle := ""
		if out != hx(want) {
			oracle = fmt.Sprintf("DNATo2Bit of %d bases into a dst of len %d with %d bytes of stale spare capacity is wrong", n, dl, spare)
		}
		c.add(Case{Op: "su.to2bit " + hx(d0) + " " + hx(s), Impl: strings.Replace(out, "PANIC", "P", 1), Kind: "to2bit-long-stale-cap", Nontrivial: true, Oracle: oracle,
			Note: fmt.Sprintf("DNATo2Bit(dst len %d cap %d with stale bytes, %d bases)", dl, dl+spare, n)})
	}
	// long packed inputs over a biased byte alphabet (runs of 0x00 / 0xff at every alignment), with and without a dst prefix
	for i := 0; i < c.n(60); i++ {
		n := []int{31, 32, 33, 64, 100, 257}[c.rng.Intn(6)]
		p := c.bytesFrom([]byte{0x00, 0xff, 0xff, 0xff, 0x55, 0xaa, byte(c.rng.Intn(256))}, n)
		if i%3 == 0 { // long runs of one byte
			p = bytes.Repeat([]byte{p[0]}, n)
			copy(p[n/2:], bytes.Repeat([]byte{p[1]}, 9))
		}
		if i%2 == 1 {
			pl := 1 + c.rng.Intn(12)
			arena := make([]byte, pl, pl+c.rng.Intn(3)*n)
			copy(arena, c.bytesFrom([]byte(">read12\nxyzACGT"), pl))
			pre := arena
			p0 := append([]byte(nil), pre...)
			got := safe(func() string { return hx(sequtil.DNAFrom2Bit(pre, p)) })
			want := append([]byte(nil), p0...)
			for _, b := range p {
				want = append(want, "ACGT"[b>>6&3], "ACGT"[b>>4&3], "ACGT"[b>>2&3], "ACGT"[b&3])
			}
			oracle := ""
			if got != hx(want) {
				oracle = fmt.Sprintf("DNAFrom2Bit of %d packed bytes appended to a %d-byte prefix is wrong", n, len(p0))
			}
			c.add(Case{Op: "su.from2bit " + hx(p0) + " " + hx(p), Impl: strings.Replace(got, "PANIC", "P", 1), Kind: "from2bit-long-prefix", Nontrivial: true, Oracle: oracle,
				Note: fmt.Sprintf("DNAFrom2Bit(%q, % x…) %d bytes", p0, p[:8], n)})
			continue
		}
		got := safe(func() string { return hx(sequtil.DNAFrom2Bit(nil, p)) })
		want := make([]byte, 0, 4*n)
		for _, b := range p {
			want = append(want, "ACGT"[b>>6&3], "ACGT"[b>>4&3], "ACGT"[b>>2&3], "ACGT"[b&3])
		}
		oracle := ""
		if got != hx(want) {
			oracle = "DNAFrom2Bit of a long packed string is wrong"
		} else if back := safe(func() string { return hx(sequtil.DNATo2Bit(nil, want)) }); back != hx(p) {
			oracle = "DNATo2Bit(DNAFrom2Bit(p)) != p on a long packed string"
		}
		c.add(Case{Op: "su.from2bit - " + hx(p), Impl: strings.Replace(got, "PANIC", "P", 1), Kind: "from2bit-long-biased", Nontrivial: true, Oracle: oracle, Note: fmt.Sprintf("DNAFrom2Bit(nil, % x…) %d bytes", p[:8], n)})
	}
	// long homopolymers and dinucleotide repeats through DNATo2Bit
	for i := 0; i < c.n(30); i++ {
		unit := [][]byte{[]byte("T"), []byte("t"), []byte("A"), []byte("G"), []byte("TG"), []byte("tTtT"), []byte("ACGT")}[c.rng.Intn(7)]
		n := []int{127, 128, 129, 255, 256, 1000, 4097}[c.rng.Intn(7)]
		s := bytes.Repeat(unit, n/len(unit)+1)[:n]
		got := safe(func() string { return hx(sequtil.DNATo2Bit(nil, s)) })
		want := make([]byte, (n+3)/4)
		for j, b := range s {
			want[j/4] |= byte(strings.IndexByte("ACGT", b&^0x20)) << (6 - 2*uint(j%4))
		}
		oracle := ""
		if got != hx(want) {
			oracle = "DNATo2Bit of a long low-complexity sequence is wrong"
		}
		c.add(Case{Op: "su.to2bit - " + hx(s), Impl: strings.Replace(got, "PANIC", "P", 1), Kind: "to2bit-long-lowcomplexity", Nontrivial: true, Oracle: oracle, Note: fmt.Sprintf("DNATo2Bit(nil, %q x %d)", unit, n)})
	}
}

func sequtilRound4_14(c *Ctx) {
	sequtilWarmUp()
	translateLongBytes(c)
	translateCaseTails(c)
	// every byte value at every position of a 12-base sequence, through Translate and the reading frames
	base := []byte("ACGacgTTTtga")
	for v := 0; v < 256; v++ {
		for pos := 0; pos < len(base); pos += 1 + v%2 { // every position for even v, every other for odd v (all bytes, all frames)
			s := append([]byte(nil), base...)
			s[pos] = byte(v)
			fr := safe(func() string {
				f := sequtil.TranslateReadingFrames(s)
				return hx(f[0]) + "," + hx(f[1]) + "," + hx(f[2])
			})
			var parts []string
			pan := false
			for off := 0; off < 3; off++ {
				sub := s[off:]
				sub = sub[:len(sub)/3*3]
				t := safe(func() string { return hx(sequtil.Translate(nil, sub)) })
				if t == "PANIC" {
					pan = true
				}
				parts = append(parts, t)
			}
			want := strings.Join(parts, ",")
			if pan {
				want = "PANIC"
			}
			isBase := strings.IndexByte("ACGTacgt", byte(v)) >= 0
			oracle := ""
			if fr != want {
				oracle = fmt.Sprintf("TranslateReadingFrames differs from Translate on the three frames (byte 0x%02x at position %d)", v, pos)
			} else if !isBase && fr != "PANIC" {
				oracle = fmt.Sprintf("byte 0x%02x at position %d of a 12-base sequence is accepted by the reading frames", v, pos)
			}
			c.add(Case{Op: "su.frames " + hx(s), Impl: strings.Replace(fr, "PANIC", "P", 1), Kind: "frames-every-byte", Nontrivial: true, Oracle: oracle, Note: fmt.Sprintf("TranslateReadingFrames(%q)", s)})
		}
	}
	// single-bit flips of valid sequences built from repeated codons
	for i := 0; i < c.n(40); i++ {
		cod := c.bytesFrom([]byte("ACGTacgt"), 3)
		reps := 2 + c.rng.Intn(3)
		s := bytes.Repeat(cod, reps)
		if i%2 == 1 { // same codon in the other case
			s = append(append([]byte(nil), cod...), bytes.ToUpper(cod)...)
			s = append(s, bytes.ToLower(cod)...)
		}
		for pos := 0; pos < len(s); pos++ {
			for bit := 0; bit < 8; bit++ {
				m := append([]byte(nil), s...)
				m[pos] ^= 1 << uint(bit)
				got := safe(func() string { return hx(sequtil.Translate(nil, m)) })
				valid := strings.IndexByte("ACGTacgt", m[pos]) >= 0
				oracle := ""
				if !valid && got != "PANIC" {
					oracle = fmt.Sprintf("Translate accepts %q (one bit of a valid repeated-codon sequence flipped)", m)
				}
				if valid && got == "PANIC" {
					oracle = fmt.Sprintf("Translate panics on the valid sequence %q", m)
				}
				c.add(Case{Op: "su.translate - " + hx(m), Impl: strings.Replace(got, "PANIC", "P", 1), Kind: "translate-bitflip", Nontrivial: true, Oracle: oracle, Note: fmt.Sprintf("Translate(nil, %q)", m)})
			}
		}
	}
	// round 8: dst prefixes holding ARBITRARY bytes (NUL, 0xff, letters): Translate appends one letter per codon
	for i := 0; i < c.n(40); i++ {
		pre := c.bytesFrom([]byte{0, 0, 'M', '*', 0xff, 'x', '\n', 1}, 1+c.rng.Intn(6))
		ncod := c.rng.Intn(5)
		var src []byte
		for j := 0; j < ncod; j++ {
			src = append(src, c.bytesFrom([]byte("ACGTacgt"), 3)...)
		}
		arena := make([]byte, len(pre), len(pre)+c.rng.Intn(3)*ncod)
		copy(arena, pre)
		got := safe(func() string { return hx(sequtil.Translate(arena, src)) })
		want := safe(func() string { return hx(append(append([]byte(nil), pre...), sequtil.Translate(nil, src)...)) })
		oracle := ""
		if got != want {
			oracle = fmt.Sprintf("Translate(dst %q, %q) = %s, want dst followed by Translate(nil, src) = %s", pre, src, trunc(got, 60), trunc(want, 60))
		}
		c.add(Case{Op: "su.translate " + hx(pre) + " " + hx(src), Impl: strings.Replace(got, "PANIC", "P", 1), Kind: "translate-arbitrary-dst", Nontrivial: true, Oracle: oracle, Note: fmt.Sprintf("Translate(dst %q, %d codons)", pre, ncod)})
	}
	// length not divisible by 3 with every kind of dst
	for i := 0; i < c.n(30); i++ {
		n := 1 + c.rng.Intn(40)
		if n%3 == 0 {
			n++
		}
		s := c.bytesFrom([]byte("ACGT"), n)
		for _, dst := range [][]byte{nil, make([]byte, 0, 64), make([]byte, 2, 100), s[:0]} {
			d0 := append([]byte(nil), dst...)
			got := safe(func() string { return hx(sequtil.Translate(dst, append([]byte(nil), s...))) })
			oracle := ""
			if got != "PANIC" {
				oracle = fmt.Sprintf("Translate accepts a source of %d bases (dst len %d cap %d)", n, len(dst), cap(dst))
			}
			c.add(Case{Op: "su.translate " + hx(d0) + " " + hx(s), Impl: "P", Kind: "translate-badlen-dst", Nontrivial: true, Oracle: oracle, Note: fmt.Sprintf("Translate(dst len %d cap %d, %d bases)", len(dst), cap(dst), n)})
		}
	}
}

// ---------------------------------------------------------------------------
// alignment

func alignRound4(c *Ctx, prop string) {
	zeroOpen := prop == "C09"
	// (1) large asymmetric matrices (>= 1024 entries) with tables at least as large as the matrix
	for i := 0; i < c.n(3); i++ {
		na := 32 + c.rng.Intn(8)
		al := make([]byte, na)
		for j := range al {
			al[j] = byte(40 + j)
		}
		open := []int{0, -2, -3}[c.rng.Intn(3)]
		if zeroOpen {
			open = 0
		}
		if prop == "C10" {
			open = []int{-2, -3}[c.rng.Intn(2)]
		}
		mt := c.randMatrix(al, false, true, open)
		a, b := c.bytesFrom(al, 45+c.rng.Intn(20)), c.bytesFrom(al, 45+c.rng.Intn(20))
		alignCase(c, prop, mt, a, b, "big-asymmetric")
	}
	// (1b) tables of more than 2^20 cells with non-zero gap-open, where a mismatch costs more than an insertion
	// next to a deletion (adjacent gap runs of different kinds): the steps must re-score to the returned score
	if prop == "C08" || prop == "C10" {
		m := align.SubstitutionMatrix{}
		for _, x := range []byte("acgt") {
			for _, y := range []byte("acgt") {
				m[[2]byte{x, y}] = -10
			}
			m[[2]byte{x, x}] = 3
			m[[2]byte{x, align.Gap}] = -1
			m[[2]byte{align.Gap, x}] = -1
		}
		m[[2]byte{align.Gap, align.Gap}] = -2
		a := c.bytesFrom([]byte("acgt"), 1100)
		b := append([]byte(nil), a...)
		for p := 50; p < len(b); p += 97 {
			b[p] = "acgt"[(strings.IndexByte("acgt", b[p])+1)%4]
		}
		b = append(b[:500], b[503:]...)
		var gs, ls []align.Step
		var gsc, lsc float64
		var lai, lbi int
		res := safe(func() string { gs, gsc = align.Global(a, b, m); ls, lai, lbi, lsc = align.Local(a, b, m); return "" })
		oracle := ""
		if res == "PANIC" {
			oracle = "Global/Local panicked on 1100-base sequences"
		} else if sc, ai, bi, ok := rescore(m, a, b, gs); !ok || ai != len(a) || bi != len(b) || sc != gsc {
			oracle = fmt.Sprintf("Global on 1100x1097 bases (gap-open -2, mismatch -10): returned score %v, its steps score %v", gsc, sc)
		} else if lai < 0 || lbi < 0 || lai > len(a) || lbi > len(b) {
			oracle = "Local start offsets out of range"
		} else if sc, _, _, ok := rescore(m, a[lai:], b[lbi:], ls); !ok || sc != lsc {
			oracle = fmt.Sprintf("Local on 1100x1097 bases (gap-open -2, mismatch -10): returned score %v, its steps score %v", lsc, sc)
		}
		c.add(Case{Kind: "big-adjacent-gap-runs", Nontrivial: true, Oracle: oracle, Note: "align.Global/Local on 1100-base sequences differing by substitutions, match 3 / mismatch -10 / gap -1 / gap-open -2"})
	}
	// (1c) round 7: big tables (> 2^20 cells, square and 300000 x 4) with non-zero gap-open whose best alignment
	// BEGINS or ENDS with a run of deletions / insertions: the steps must re-score to the returned score
	if prop == "C08" || prop == "C10" {
		for vi, variant := range []string{"leading deletions", "leading insertions", "trailing deletions", "tall narrow table, leading deletions"} {
			for _, open := range []float64{-2, 1} {
				m := align.SubstitutionMatrix{}
				for _, x := range []byte("acgt") {
					for _, y := range []byte("acgt") {
						m[[2]byte{x, y}] = -10
					}
					m[[2]byte{x, x}] = 3
					m[[2]byte{x, align.Gap}] = -1
					m[[2]byte{align.Gap, x}] = -1
				}
				m[[2]byte{align.Gap, align.Gap}] = open
				s := c.bytesFrom([]byte("acgt"), 1060)
				x := c.bytesFrom([]byte("acgt"), 45)
				var a, b []byte
				switch vi {
				case 0:
					a, b = append(append([]byte(nil), x...), s...), s
				case 1:
					a, b = s, append(append([]byte(nil), x...), s...)
				case 2:
					a, b = append(append([]byte(nil), s...), x...), s
				case 3:
					a, b = c.bytesFrom([]byte("acgt"), 300004), []byte("acgt")
				}
				var gs []align.Step
				var gsc float64
				res := safe(func() string { gs, gsc = align.Global(a, b, m); return "" })
				oracle := ""
				if res == "PANIC" {
					oracle = "Global panicked on a big table"
				} else if sc, ai, bi, ok := rescore(m, a, b, gs); !ok || ai != len(a) || bi != len(b) || sc != gsc {
					oracle = fmt.Sprintf("Global on %dx%d bases (%s, gap-open %v): returned score %v, its steps score %v", len(a), len(b), variant, open, gsc, sc)
				}
				c.add(Case{Kind: "big-table-edge-gap-runs", Nontrivial: true, Oracle: oracle, Note: fmt.Sprintf("align.Global on %dx%d bases, %s, match 3 / mismatch -10 / gap -1 / gap-open %v", len(a), len(b), variant, open)})
			}
		}
	}
	// (2a) round 7: matrices defined over ALL 256x256 byte pairs that are not Levenshtein (case-insensitive
	// substitutions, one symbol with cheaper indels), zero gap-open: the optimum under THAT matrix
	if prop == "C09" || prop == "C08" {
		for variant := 0; variant < 2; variant++ {
			m := make(align.SubstitutionMatrix, 1<<16)
			fold := func(x byte) byte {
				if x >= 'a' && x <= 'z' {
					return x - 32
				}
				return x
			}
			for i := 0; i < 256; i++ {
				for j := 0; j < 256; j++ {
					v := -1.0
					if i == j || (variant == 0 && fold(byte(i)) == fold(byte(j))) {
						v = 0
					}
					m[[2]byte{byte(i), byte(j)}] = v
				}
			}
			if variant == 1 {
				m[[2]byte{' ', align.Gap}], m[[2]byte{align.Gap, ' '}] = -0.5, -0.5
			}
			for i := 0; i < c.n(4); i++ {
				a := c.bytesFrom([]byte("Kitten sat ON the Mat"), 6+c.rng.Intn(12))
				b := append([]byte(nil), a...)
				for j := range b {
					switch c.rng.Intn(5) {
					case 0:
						b[j] ^= 0x20 // flips the case of a letter (and maps ' ' to 0x00)
					case 1:
						b[j] = ' '
					}
				}
				if len(b) > 3 {
					b = append(b[:2], b[3:]...)
				}
				var st []align.Step
				var sc float64
				res := safe(func() string { st, sc = align.Global(a, b, m); return "" })
				opt := gotoh(m, a, b, false)
				oracle := ""
				if res == "PANIC" {
					oracle = "Global panicked with a matrix over all byte pairs"
				} else if rs, ai, bi, ok := rescore(m, a, b, st); !ok || ai != len(a) || bi != len(b) || rs != sc {
					oracle = "Global (matrix over all byte pairs): steps do not re-score to the returned score"
				} else if sc != opt {
					oracle = fmt.Sprintf("Global with a zero-gap-open matrix over all 65536 byte pairs (not Levenshtein: %s) returns %v on %q / %q, an alignment scoring %v exists", []string{"case-insensitive substitutions", "cheaper indels of ' '"}[variant], sc, a, b, opt)
				}
				var lsc float64
				res = safe(func() string { _, _, _, lsc = align.Local(a, b, m); return "" })
				if lopt := gotoh(m, a, b, true); oracle == "" && (res == "PANIC" || lsc != lopt) {
					oracle = fmt.Sprintf("Local with a zero-gap-open matrix over all byte pairs returns %v, optimum %v", lsc, lopt)
				}
				c.add(Case{Kind: "full-matrix-not-levenshtein", Nontrivial: true, Oracle: oracle, Note: fmt.Sprintf("align.Global/Local a=%q b=%q with a 65536-entry matrix (variant %d)", a, b, variant)})
			}
		}
	}
	// (2) sequences that use (almost) every byte value, with Levenshtein and a match/mismatch matrix over all bytes
	if prop != "C10" {
		for i := 0; i < c.n(2); i++ {
			perm := c.rng.Perm(255)
			a := make([]byte, 0, 300)
			if i%2 == 1 {
				a = append(a, 255) // Levenshtein is defined on all 256 byte values (255 is an ordinary symbol there)
			}
			for _, p := range perm {
				a = append(a, byte(p))
			}
			a = append(a, byte(perm[254]), byte(perm[254]), byte(perm[3]))
			b := append([]byte(nil), a[:255]...)
			if i%2 == 1 {
				b[7], b[100] = b[100], b[7]
				b = append(b[:50], b[51:]...)
			}
			ed := editDistance(a, b)
			var sc float64
			var st []align.Step
			res := safe(func() string { st, sc = align.Global(a, b, align.Levenshtein); return "" })
			oracle := ""
			if res == "PANIC" {
				oracle = "Global panicked on sequences over the whole byte alphabet"
			} else if sc != -float64(ed) {
				oracle = fmt.Sprintf("Levenshtein Global score %v is not minus the edit distance %d (sequences using all 255 byte values)", sc, ed)
			} else if rs, ai, bi, ok := rescore(align.Levenshtein, a, b, st); !ok || ai != len(a) || bi != len(b) || rs != sc {
				oracle = "Levenshtein Global steps do not re-score to the returned score (sequences using all 255 byte values)"
			}
			c.add(Case{Op: "al.lev " + hx(a) + " " + hx(b), Impl: strings.Replace(fmt.Sprintf("%s %d", stepsS(st), int64(sc)), "PANIC", "P", 1), Kind: "lev-full-alphabet", Nontrivial: true, Oracle: oracle, Note: fmt.Sprintf("align.Global with Levenshtein on two sequences of %d and %d bytes using all 255 byte values", len(a), len(b))})
			var lsc float64
			res = safe(func() string { _, _, _, lsc = align.Local(a, b, align.Levenshtein); return "" })
			want := gotoh(align.Levenshtein, a, b, true)
			oracle = ""
			if res == "PANIC" || lsc != want {
				oracle = fmt.Sprintf("Levenshtein Local on full-alphabet sequences returns %v, optimum %v", lsc, want)
			}
			c.add(Case{Kind: "lev-full-alphabet-local", Nontrivial: true, Oracle: oracle, Note: "align.Local with Levenshtein on sequences using all 255 byte values"})
		}
	}
	// (3) scores that are dyadic fractions a hair apart (all float64 sums exact): optimality must be exact
	if prop == "C09" || prop == "C08" {
		eps := math.Ldexp(1, -40)
		for i := 0; i < c.n(40); i++ {
			al := []byte("ab")
			m := align.SubstitutionMatrix{}
			val := func(base float64) float64 { return base + float64(c.rng.Intn(5)-2)*eps }
			for _, x := range al {
				for _, y := range al {
					if x == y {
						m[[2]byte{x, y}] = val(2)
					} else {
						m[[2]byte{x, y}] = val(-2)
					}
				}
				m[[2]byte{x, align.Gap}] = val(-1)
				m[[2]byte{align.Gap, x}] = val(-1)
			}
			m[[2]byte{align.Gap, align.Gap}] = 0
			a, b := c.bytesFrom(al, 1+c.rng.Intn(6)), c.bytesFrom(al, 1+c.rng.Intn(6))
			var st []align.Step
			var sc float64
			res := safe(func() string { st, sc = align.Global(a, b, m); return "" })
			opt := gotoh(m, a, b, false)
			oracle := ""
			if res == "PANIC" {
				oracle = "Global panicked"
			} else if rs, ai, bi, ok := rescore(m, a, b, st); !ok || ai != len(a) || bi != len(b) || rs != sc {
				oracle = "Global (scores a hair apart): steps do not re-score to the returned score"
			} else if sc != opt {
				oracle = fmt.Sprintf("Global with zero gap-open and scores differing by 2^-40 returns %.15g, an alignment scoring %.15g exists", sc, opt)
			}
			var lsc float64
			res = safe(func() string { _, _, _, lsc = align.Local(a, b, m); return "" })
			if lopt := gotoh(m, a, b, true); oracle == "" && (res == "PANIC" || lsc != lopt) {
				oracle = fmt.Sprintf("Local with zero gap-open and scores differing by 2^-40 returns %.15g, a local alignment scoring %.15g exists", lsc, lopt)
			}
			c.add(Case{Kind: "dyadic-near-ties", Nontrivial: true, Oracle: oracle, Note: fmt.Sprintf("align.Global/Local a=%q b=%q, zero gap-open, scores = integers ± k·2^-40", a, b)})
		}
	}
}

// ---------------------------------------------------------------------------
// trie: observations only now and then

func trieSparse(c *Ctx) {
	for i := 0; i < c.n(60); i++ {
		al := []byte("ab")
		if i%3 == 0 {
			al = []byte("abc")
		}
		t := trie.New()
		ref := refSet{}
		oracle := ""
		nobs := 0
		var hist []string
		observe := func() {
			nobs++
			got, _ := trieMembers(t)
			if got != ref.members() && oracle == "" {
				oracle = fmt.Sprintf("after %s (ForEach only at some steps): members %s, want %s", strings.Join(hist, " "), got, ref.members())
			}
		}
		st := safe(func() string {
			steps := 6 + c.rng.Intn(20)
			for s := 0; s < steps; s++ {
				w := string(c.bytesFrom(al, 1+c.rng.Intn(3)))
				if c.rng.Intn(5) < 3 {
					t.Add([]byte(w))
					ref.add(w)
					hist = append(hist, "Add("+w+")")
				} else {
					got := t.Delete([]byte(w))
					want := ref.del(w)
					hist = append(hist, "Delete("+w+")")
					if got != want && oracle == "" {
						oracle = fmt.Sprintf("after %s: Delete returned %v, want %v", strings.Join(hist, " "), got, want)
					}
				}
				if c.rng.Intn(4) == 0 {
					observe()
				}
			}
			observe()
			return ""
		})
		if st == "PANIC" && oracle == "" {
			oracle = "trie panicked after " + strings.Join(hist, " ")
		}
		c.add(Case{Kind: "trie-sparse-observation", Nontrivial: true, Oracle: oracle, Note: fmt.Sprintf("history of %d Add/Delete steps with ForEach called at %d of them", len(hist), nobs)})
	}
}

// ---------------------------------------------------------------------------
// regions

func bruteAt(starts, ends []int, q int) []int {
	var out []int
	for i := range starts {
		if starts[i] <= q && q < ends[i] {
			out = append(out, i)
		}
	}
	return out
}

func regionsRound4(c *Ctx) {
	check := func(kind, note string, starts, ends []int, qs []int) {
		oracle := ""
		st := safe(func() string {
			idx := regions.NewIndex(starts, ends)
			for _, q := range qs {
				got := idx.At(q)
				if !sameInts(got, bruteAt(starts, ends, q)) && oracle == "" {
					oracle = fmt.Sprintf("%s: At(%d) = %v, brute force gives %v", note, q, trunc(fmt.Sprint(got), 60), trunc(fmt.Sprint(bruteAt(starts, ends, q)), 60))
				}
			}
			return ""
		})
		if st == "PANIC" && oracle == "" {
			oracle = note + ": NewIndex/At panicked"
		}
		c.add(Case{Kind: kind, Nontrivial: true, Oracle: oracle, Note: note})
	}
	// (1) many intervals, every breakpoint queried (and its neighbours)
	for _, n := range []int{600, 1100, 2300} {
		starts, ends := make([]int, n), make([]int, n)
		for i := range starts {
			starts[i] = c.rng.Intn(20 * n)
			ends[i] = starts[i] + 1 + c.rng.Intn(40)
		}
		var qs []int
		for i := range starts {
			qs = append(qs, starts[i], ends[i], starts[i]-1, ends[i]-1)
		}
		check("regions-many-breakpoints", fmt.Sprintf("%d random intervals, queried at every start and end", n), starts, ends, qs)
	}
	// (2) large sets in coordinate order spanning the whole int range
	for _, n := range []int{1100, 2100} {
		starts, ends := make([]int, n), make([]int, n)
		for i := range starts {
			if i < n/2 {
				starts[i] = math.MinInt + 10 + i*1000
			} else {
				starts[i] = math.MaxInt - 10 - (n-i)*1000
			}
			ends[i] = starts[i] + 1500
		}
		var qs []int
		for i := 0; i < n; i += 7 {
			qs = append(qs, starts[i], starts[i]+999, ends[i]-1, ends[i])
		}
		qs = append(qs, 0, -1, math.MinInt, math.MaxInt)
		check("regions-large-extreme-ordered", fmt.Sprintf("%d intervals in coordinate order, first half near MinInt, second half near MaxInt", n), starts, ends, qs)
		// the same, interleaved
		s2, e2 := make([]int, n), make([]int, n)
		for i := range s2 {
			j := i / 2
			if i%2 == 1 {
				j = n - 1 - i/2
			}
			s2[i], e2[i] = starts[j], ends[j]
		}
		check("regions-large-extreme-interleaved", fmt.Sprintf("%d intervals alternating between MinInt-ish and MaxInt-ish coordinates", n), s2, e2, qs)
	}
	// (3) NewIndex again on the same backing arrays after they were refilled in place
	for i := 0; i < c.n(40); i++ {
		n := 3 + c.rng.Intn(8)
		starts, ends := make([]int, n), make([]int, n)
		for j := range starts {
			starts[j] = c.rng.Intn(30)
			ends[j] = starts[j] + 1 + c.rng.Intn(10)
		}
		oracle := ""
		st := safe(func() string {
			idx1 := regions.NewIndex(starts, ends)
			_ = idx1.At(5)
			// change inner elements only (first and last stay), in place
			for j := 1; j < n-1; j++ {
				starts[j] = c.rng.Intn(30)
				ends[j] = starts[j] + 1 + c.rng.Intn(10)
			}
			idx2 := regions.NewIndex(starts, ends)
			for q := -1; q <= 42; q++ {
				if got := idx2.At(q); !sameInts(got, bruteAt(starts, ends, q)) && oracle == "" {
					oracle = fmt.Sprintf("NewIndex on slices refilled in place after an earlier NewIndex: At(%d) = %v, want %v", q, got, bruteAt(starts, ends, q))
				}
			}
			return ""
		})
		if st == "PANIC" && oracle == "" {
			oracle = "NewIndex/At panicked"
		}
		c.add(Case{Kind: "regions-rebuilt-in-place", Nontrivial: true, Oracle: oracle, Note: fmt.Sprintf("NewIndex, then the inner elements of the same %d-element slices rewritten, then NewIndex again", n)})
	}
}

// ---------------------------------------------------------------------------
// mash

func sketchOf(n, k int, seqs ...[]byte) string {
	return u64s(mash.Sequences(n, k, seqs...).View())
}

func mashRound4(c *Ctx) {
	// (1) several sequences longer than 64 Ki in one call vs. one call each vs. reordered
	k := 21
	a, b := c.bytesFrom([]byte("ACGT"), 66000), c.bytesFrom([]byte("ACGT"), 67001)
	short := c.bytesFrom([]byte("ACGT"), 50)
	n := 140000 // larger than the number of k-mers: the sketch holds every distinct hash
	oracle := ""
	st := safe(func() string {
		both := sketchOf(n, k, a, short, b)
		rev := sketchOf(n, k, b, short, a)
		mh := mash.Sequences(n, k, a)
		mash.Add(mh, k, short)
		mash.Add(mh, k, b)
		inc := u64s(mh.View())
		if both != rev {
			oracle = "sketch of {a, s, b} differs from the sketch of {b, s, a} (two sequences longer than 65536 bases)"
		} else if both != inc {
			oracle = "sketch of {a, s, b} in one call differs from adding a, s, b one at a time (two sequences longer than 65536 bases)"
		}
		return ""
	})
	if st == "PANIC" {
		oracle = "mash panicked on long sequences"
	}
	c.add(Case{Kind: "mash-two-long-sequences", Nontrivial: true, Oracle: oracle, Note: "mash.Sequences / mash.Add with two sequences of 66000 and 67001 bases and a short one, n larger than the number of k-mers"})
	// (2) case variants with only some letters lower-cased (only n, only a, only t …)
	for i := 0; i < c.n(20); i++ {
		s := c.bytesFrom([]byte("ACGTN"), 60+c.rng.Intn(100))
		for p := 0; p < 3; p++ { // a few N runs
			at := c.rng.Intn(len(s) - 6)
			copy(s[at:], "NNNN")
		}
		kk := []int{3, 5, 11, 21}[c.rng.Intn(4)]
		nn := len(s) + 10
		base := sketchOf(nn, kk, s)
		oracle := ""
		for _, letters := range []string{"N", "A", "T", "C", "G", "AN", "ACGTN"} {
			v := append([]byte(nil), s...)
			for j := range v {
				if strings.IndexByte(letters, v[j]) >= 0 {
					v[j] |= 0x20
				}
			}
			if got := sketchOf(nn, kk, v); got != base && oracle == "" {
				oracle = fmt.Sprintf("lower-casing only the letters %q changes the sketch (k=%d)", letters, kk)
			}
		}
		c.add(Case{Kind: "mash-partial-lowercase", Nontrivial: true, Oracle: oracle, Note: fmt.Sprintf("sketch of %q… with single letters lower-cased, n exceeds the k-mer count", trunc(string(s), 30))})
	}
	// (3) k at the word boundaries on upper-case ACGT: strand symmetry and the reference hashes
	for _, kk := range []int{31, 32, 33, 64} {
		for i := 0; i < c.n(4); i++ {
			s := c.bytesFrom([]byte("ACGT"), kk+20+c.rng.Intn(60))
			rc := sequtil.ReverseComplement(nil, s)
			nn := len(s) + 5
			oracle := ""
			if sketchOf(nn, kk, s) != sketchOf(nn, kk, rc) {
				oracle = fmt.Sprintf("sketch changes under reverse complement at k=%d", kk)
			}
			c.add(Case{Op: fmt.Sprintf("ms.sketch %d %d %s", nn, kk, hx(s)), Impl: sketchOf(nn, kk, s), Kind: "mash-word-k", Nontrivial: true, Oracle: oracle, Note: fmt.Sprintf("mash.Sequences(%d, %d, %q…) and its reverse complement", nn, kk, trunc(string(s), 24))})
		}
	}
}

// ---------------------------------------------------------------------------
// early stops deep into long iterations (C18)

func longStops(c *Ctx) {
	stops := []int{255, 256, 257, 1023, 1024, 1025, 4095, 4096, 4097, 8191, 8192, 8193}
	// readers: 9000 small records per format
	for _, f := range formats {
		var b bytes.Buffer
		for i := 0; i < 9000; i++ {
			switch f.name {
			case "fasta":
				fmt.Fprintf(&b, ">r%d\nAC\n", i)
			case "fastq":
				fmt.Fprintf(&b, "@r%d\nAC\n+\nII\n", i)
			case "sam", "samh":
				fmt.Fprintf(&b, "q%d\t0\tr\t1\t2\t*\t=\t3\t4\tAC\tII\n", i)
			case "bed":
				fmt.Fprintf(&b, "c\t%d\t%d\n", i, i+1)
			case "newick":
				fmt.Fprintf(&b, "(a,b)r%d;", i)
			}
		}
		data := b.Bytes()
		full, _ := f.decode(bytes.NewReader(data), 0, 10000)
		for _, j := range stops {
			items, st := f.decode(bytes.NewReader(data), j, 10000)
			oracle := ""
			if st != "" || len(items) != j || (len(full) >= j && strings.Join(items, "|") != strings.Join(full[:j], "|")) {
				oracle = fmt.Sprintf("%s.Reader over 9000 records stopped after %d: status %q, %d items seen", f.name, j, st, len(items))
			}
			c.add(Case{Kind: f.name + "-stop-long", Nontrivial: true, Oracle: oracle, Note: fmt.Sprintf("%s.Reader over 9000 records, consumer stops after %d", f.name, j)})
		}
	}
	// trie with 9000 members; traversal of a 9000-node tree
	t := trie.New()
	for i := 0; i < 9000; i++ {
		t.Add([]byte(fmt.Sprintf("%04d", i)))
	}
	root := &newick.Node{Name: "root"}
	cur := root
	for i := 0; i < 9000; i++ {
		ch := &newick.Node{Name: fmt.Sprint(i)}
		cur.Children = append(cur.Children, ch)
		if i%3 == 0 {
			cur = ch
		}
	}
	for _, j := range stops {
		seen, after, stopped := 0, 0, false
		st := safe(func() string {
			t.ForEach(func(b []byte) bool {
				if stopped {
					after++
					return false
				}
				seen++
				if seen == j {
					stopped = true
					return false
				}
				return true
			})
			return ""
		})
		oracle := ""
		if st == "PANIC" || after > 0 || seen != j {
			oracle = fmt.Sprintf("trie.ForEach over 9000 members stopped after %d: panic=%v callbacks-after-stop=%d", j, st == "PANIC", after)
		}
		c.add(Case{Kind: "trie-stop-long", Nontrivial: true, Oracle: oracle, Note: fmt.Sprintf("ForEach over 9000 members, consumer stops after %d", j)})
		for _, pre := range []bool{true, false} {
			seen, after, stopped = 0, 0, false
			it := root.PostOrder()
			if pre {
				it = root.PreOrder()
			}
			st := safe(func() string {
				it(func(n *newick.Node) bool {
					if stopped {
						after++
						return false
					}
					seen++
					if seen == j {
						stopped = true
						return false
					}
					return true
				})
				return ""
			})
			oracle := ""
			if st == "PANIC" || after > 0 || seen != j {
				oracle = fmt.Sprintf("traversal (pre=%v) of a 9001-node tree stopped after %d: panic=%v callbacks-after-stop=%d", pre, j, st == "PANIC", after)
			}
			c.add(Case{Kind: "traverse-stop-long", Nontrivial: true, Oracle: oracle, Note: fmt.Sprintf("traversal of a 9001-node tree, consumer stops after %d", j)})
		}
	}
}

// deepBushyTrees (C19): ladders / caterpillars hundreds of levels deep with branching at every level,
// "deep and bushy" random trees, and leaves whose Children slice is empty but not nil.
func deepBushyTrees(c *Ctx) {
	mk := func(name int) *newick.Node { return &newick.Node{Name: fmt.Sprint(name)} }
	for _, depth := range []int{127, 128, 129, 255, 256, 257, 300, 400, 1000} {
		for _, shape := range []string{"leaf-then-spine", "spine-then-leaf", "two-leaves-around-spine"} {
			id := 0
			root := mk(id)
			cur := root
			for d := 0; d < depth; d++ {
				id++
				next := mk(id)
				id++
				leaf := mk(id)
				switch shape {
				case "leaf-then-spine":
					cur.Children = []*newick.Node{leaf, next}
				case "spine-then-leaf":
					cur.Children = []*newick.Node{next, leaf}
				default:
					id++
					cur.Children = []*newick.Node{leaf, next, mk(id)}
				}
				cur = next
			}
			cur.Children = []*newick.Node{mk(id + 1), mk(id + 2)}
			travCase(c, root, fmt.Sprintf("ladder-%s-%d", shape, depth), depth <= 300, false)
		}
	}
	for i := 0; i < c.n(3); i++ {
		n := 1500 + c.rng.Intn(1000)
		nodes := make([]*newick.Node, n)
		for j := range nodes {
			nodes[j] = mk(j)
			if j > 0 {
				p := j - 1 - c.rng.Intn(min(3, j)) // attach to one of the last three nodes: depth ~ n/2
				nodes[p].Children = append(nodes[p].Children, nodes[j])
			}
		}
		travCase(c, nodes[0], "deep-bushy", false, false)
	}
	// leaves with an empty, non-nil child list (pruned trees, make([]*Node, 0, k))
	for i := 0; i < c.n(20); i++ {
		n := 2 + c.rng.Intn(12)
		nodes := make([]*newick.Node, n)
		for j := range nodes {
			nodes[j] = mk(j)
			if j > 0 {
				p := c.rng.Intn(j)
				nodes[p].Children = append(nodes[p].Children, nodes[j])
			}
		}
		for _, nd := range nodes {
			if len(nd.Children) == 0 {
				switch c.rng.Intn(3) {
				case 0:
					nd.Children = []*newick.Node{}
				case 1:
					nd.Children = make([]*newick.Node, 0, 4)
				}
			}
		}
		travCase(c, nodes[0], "empty-nonnil-children", false, true)
	}
}

// wideTrees (C19): one node with very many children.
func wideTrees(c *Ctx) {
	deepBushyTrees(c)
	for _, w := range []int{255, 256, 257, 65535, 65536, 65537, 70000} {
		root := &newick.Node{Name: "root"}
		hub := &newick.Node{Name: "hub"}
		root.Children = []*newick.Node{{Name: "left"}, hub, {Name: "right"}}
		for i := 0; i < w; i++ {
			hub.Children = append(hub.Children, &newick.Node{Name: fmt.Sprint(i)})
		}
		for _, pre := range []bool{true, false} {
			c.begin("traversal (pre=%v) of a tree containing a node with %d children", pre, w)
			it := root.PostOrder()
			if pre {
				it = root.PreOrder()
			}
			n, bad := 0, ""
			last := ""
			st := safe(func() string {
				for x := range it {
					n++
					last = x.Name
					if n > w+20 {
						return "NONTERM"
					}
					if pre && n == 3 && x.Name != "hub" {
						bad = "third node in pre-order is " + x.Name
					}
				}
				return ""
			})
			oracle := ""
			wantLast := "root"
			if pre {
				wantLast = "right"
			}
			if st != "" || n != w+4 || last != wantLast || bad != "" {
				oracle = fmt.Sprintf("traversal (pre=%v) of a tree with a %d-child node: status %q, %d nodes (want %d), last %q %s", pre, w, st, n, w+4, last, bad)
			}
			c.add(Case{Kind: "wide-node", Nontrivial: true, Oracle: oracle, Note: fmt.Sprintf("traversal (pre=%v) of a tree containing a node with %d children", pre, w)})
		}
	}
}


// ---------------------------------------------------------------------------
// round 6: scale thresholds (2^20 items / bases), full fan-out, interleaved iterator lifetimes

func translateHuge(c *Ctx) {
	for _, n := range []int{1048578, 1572867} {
		s := c.bytesFrom([]byte("ACGTacgt"), n-n%3)
		var whole []byte
		st := safe(func() string { whole = sequtil.Translate(nil, s); return "" })
		var pieces []byte
		for p := 0; p < len(s); p += 3000 {
			pieces = sequtil.Translate(pieces, s[p:min(p+3000, len(s))])
		}
		oracle := ""
		if st == "PANIC" {
			oracle = "Translate panicked on a long valid sequence"
		} else if !bytes.Equal(whole, pieces) {
			oracle = fmt.Sprintf("Translate of %d bases differs from the concatenation of the translations of its 3000-base pieces", len(s))
		} else {
			bad := append([]byte(nil), s...)
			bad[len(bad)-2] = 'N'
			if safe(func() string { sequtil.Translate(nil, bad); return "" }) != "PANIC" {
				oracle = fmt.Sprintf("Translate accepts a non-ACGT base near the end of a %d-base sequence", len(s))
			}
		}
		c.add(Case{Kind: "translate-huge", Nontrivial: true, Oracle: oracle, Note: fmt.Sprintf("Translate on %d bases, whole vs in 3000-base pieces", len(s))})
	}
}

func trieFullFanout(c *Ctx) {
	for _, prefix := range []string{"", "k", "ACGT"} {
		for _, width := range []int{255, 256} {
			t := trie.New()
			want := 0
			for b := 0; b < width; b++ {
				t.Add(append([]byte(prefix), byte(b), 'x'))
				want++
			}
			t.Add([]byte("zz-other"))
			want++
			c.begin("ForEach on a trie with a node of %d children under prefix %q", width, prefix)
			n := 0
			seen := map[string]int{}
			st := safe(func() string {
				t.ForEach(func(b []byte) bool {
					n++
					seen[string(b)]++
					return n < want+32
				})
				return ""
			})
			oracle := ""
			if st == "PANIC" || n != want || len(seen) != want {
				oracle = fmt.Sprintf("ForEach on a trie with a %d-child node under %q: %d callbacks, %d distinct members, want %d of each (panic=%v)", width, prefix, n, len(seen), want, st == "PANIC")
			}
			c.add(Case{Kind: "trie-full-fanout", Nontrivial: true, Oracle: oracle, Note: fmt.Sprintf("ForEach over a node with %d children under %q", width, prefix)})
		}
	}
}

func regionsRound6(c *Ctx) {
	check := func(kind, note string, starts, ends []int, qs []int) {
		oracle := ""
		c.begin("%s", note)
		st := safe(func() string {
			idx := regions.NewIndex(starts, ends)
			for _, q := range qs {
				got := idx.At(q)
				if !sameInts(got, bruteAt(starts, ends, q)) && oracle == "" {
					oracle = fmt.Sprintf("%s: At(%d) = %v, brute force gives %v", note, q, trunc(fmt.Sprint(got), 60), trunc(fmt.Sprint(bruteAt(starts, ends, q)), 60))
				}
			}
			return ""
		})
		if st == "PANIC" && oracle == "" {
			oracle = note + ": NewIndex/At panicked"
		}
		c.add(Case{Kind: kind, Nontrivial: true, Oracle: oracle, Note: note})
	}
	// more than 64 intervals of which at most 64 are non-empty, a non-empty one at a serial number >= 64
	for i := 0; i < c.n(12); i++ {
		n := 65 + c.rng.Intn(70)
		starts, ends := make([]int, n), make([]int, n)
		nonEmpty := 0
		for j := range starts {
			starts[j] = c.rng.Intn(50)
			if (j >= 64 && nonEmpty < 60 && c.rng.Intn(2) == 0) || (j < 64 && nonEmpty < 40 && c.rng.Intn(3) == 0) {
				ends[j] = starts[j] + 1 + c.rng.Intn(20)
				nonEmpty++
			} else {
				ends[j] = starts[j] - c.rng.Intn(3)
			}
		}
		var qs []int
		for q := -1; q <= 72; q++ {
			qs = append(qs, q)
		}
		check("regions-few-nonempty-among-many", fmt.Sprintf("%d intervals of which %d are non-empty (the rest empty or inverted)", n, nonEmpty), starts, ends, qs)
	}
	// tens of thousands of intervals: serial numbers beyond 55295 / 65535
	for _, shape := range []string{"disjoint", "sliding"} {
		n := 60000
		if shape == "sliding" {
			n = 67000
		}
		starts, ends := make([]int, n), make([]int, n)
		for j := range starts {
			if shape == "disjoint" {
				starts[j], ends[j] = 3*j, 3*j+2
			} else {
				starts[j], ends[j] = j, j+3 // every position is covered by three consecutive serial numbers
			}
		}
		var qs []int
		for k := 0; k < 300; k++ {
			j := 54000 + c.rng.Intn(n-54000)
			if shape == "disjoint" {
				qs = append(qs, 3*j, 3*j+1, 3*j+2)
			} else {
				qs = append(qs, j, j+1, j+2, j+3)
			}
		}
		check("regions-tens-of-thousands", fmt.Sprintf("%d %s intervals, queried around serial numbers 54000..%d", n, shape, n), starts, ends, qs)
	}
}

// regionsRound7: far-apart coordinates (spans of 2^40 .. 2^62 and the int extremes) with 33..130 intervals,
// and answers of more than 256 covering intervals that the caller overwrites before asking again.
func regionsRound7(c *Ctx) {
	for _, n := range []int{33, 64, 65, 100, 130} {
		for _, k := range []uint{40, 55, 56, 57, 58, 61, 62} {
			far := 1 << k
			for _, delta := range []int{0, -100} {
				starts, ends := make([]int, n), make([]int, n)
				for j := range starts {
					starts[j], ends[j] = 10*j, 10*j+5+j%7
				}
				// one interval reaching the far coordinate, one starting there
				starts[0], ends[0] = 0, far+delta
				starts[n-1], ends[n-1] = far+delta-3, far+delta+9
				qs := []int{-1, 0, 5, 14, 10 * (n - 2), 10*(n-2) + 3, far + delta - 4, far + delta - 3, far + delta - 1, far + delta, far + delta + 8, far + delta + 9}
				oracle := ""
				st := safe(func() string {
					idx := regions.NewIndex(starts, ends)
					for _, q := range qs {
						if got := idx.At(q); !sameInts(got, bruteAt(starts, ends, q)) && oracle == "" {
							oracle = fmt.Sprintf("%d intervals, one reaching %d: At(%d) = %v, brute force gives %v", n, far+delta, q, trunc(fmt.Sprint(got), 60), trunc(fmt.Sprint(bruteAt(starts, ends, q)), 60))
						}
					}
					return ""
				})
				if st == "PANIC" && oracle == "" {
					oracle = fmt.Sprintf("NewIndex/At panicked with %d intervals, one reaching %d", n, far+delta)
				}
				c.add(Case{Kind: "regions-far-coordinates", Nontrivial: true, Oracle: oracle, Note: fmt.Sprintf("%d intervals, coordinates up to 2^%d%+d", n, k, delta)})
			}
		}
	}
	// the caller owns what At returns, however long it is
	for _, depth := range []int{3, 256, 257, 300, 1000, 4097, 5000, 20000} {
		starts, ends := make([]int, depth+2), make([]int, depth+2)
		for j := 0; j < depth; j++ {
			starts[j], ends[j] = -j, 10+j
			if depth > 1000 { // identical intervals: two breakpoints, one long list (a staircase this deep would be quadratic)
				starts[j], ends[j] = -3, 10
			}
		}
		starts[depth], ends[depth] = 20+depth, 30+depth
		starts[depth+1], ends[depth+1] = 5, 6
		oracle := ""
		st := safe(func() string {
			idx := regions.NewIndex(starts, ends)
			for _, q := range []int{0, 5, 0} {
				got := idx.At(q)
				if !sameInts(got, bruteAt(starts, ends, q)) && oracle == "" {
					oracle = fmt.Sprintf("position covered by %d intervals: At(%d) (after earlier answers were overwritten by the caller) = %v…, brute force gives %v…", depth, q, trunc(fmt.Sprint(got), 40), trunc(fmt.Sprint(bruteAt(starts, ends, q)), 40))
				}
				for j := range got {
					got[j] = -7
				}
				got = append(got, 12345)
				_ = got
			}
			return ""
		})
		if st == "PANIC" && oracle == "" {
			oracle = "NewIndex/At panicked on a deep pile-up"
		}
		c.add(Case{Kind: "regions-deep-answer-overwritten", Nontrivial: true, Oracle: oracle, Note: fmt.Sprintf("At on a position covered by %d intervals; every answer overwritten and appended to before the next query", depth)})
	}
}

// trieRound7: (a) short histories over the prefix family of one LONG key (>= 8 letters) and its one-letter
// extensions -- no-op Adds of prefixes, Deletes that prune through them, Adds that share a long prefix with
// an earlier argument; (b) nodes with more than 16 children emptied by deletes BENEATH them.
func trieRound7(c *Ctx) {
	base := "abbabaabbaba"
	var fam []string
	for k := 7; k <= len(base); k++ {
		fam = append(fam, base[:k], base[:k]+"z")
	}
	run := func(ops []string) string {
		t := trie.New()
		ref := refSet{}
		var hist []string
		for _, op := range ops {
			w := op[1:]
			hist = append(hist, map[byte]string{'+': "Add", '-': "Delete"}[op[0]]+"("+w+")")
			if op[0] == '+' {
				t.Add([]byte(w))
				ref.add(w)
			} else if got, want := t.Delete([]byte(w)), ref.del(w); got != want {
				return fmt.Sprintf("after %s: Delete returned %v, want %v", strings.Join(hist, " "), got, want)
			}
			for _, p := range fam {
				if got, want := t.Has([]byte(p)), ref.has(p); got != want {
					return fmt.Sprintf("after %s: Has(%s) = %v, want %v", strings.Join(hist, " "), p, got, want)
				}
			}
			if got, _ := trieMembers(t); got != ref.members() {
				return fmt.Sprintf("after %s: members %s, want %s", strings.Join(hist, " "), trunc(got, 80), trunc(ref.members(), 80))
			}
		}
		return ""
	}
	n := 0
	oracle := ""
	st := safe(func() string {
		for _, p := range fam {
			for _, d := range fam {
				for _, y := range fam {
					for _, pre := range []string{base, base[:9] + "zz"} {
						n++
						if o := run([]string{"+" + pre, "+" + p, "-" + d, "+" + y}); o != "" && oracle == "" {
							oracle = o
						}
					}
				}
			}
		}
		return ""
	})
	if st == "PANIC" && oracle == "" {
		oracle = "trie panicked on a four-step history over long keys"
	}
	c.add(Case{Kind: "trie-long-key-histories", Nontrivial: true, Oracle: oracle, Note: fmt.Sprintf("%d histories Add(m) Add(p) Delete(d) Add(y) over the prefixes (>= 7 letters) of a 12-letter key and their one-letter extensions; Has on the whole family and ForEach after every step", n)})
	for _, width := range []int{16, 17, 18, 40, 256} {
		for _, prefix := range []string{"A", "", "xyz"} {
			t := trie.New()
			ref := refSet{}
			oracle := ""
			st := safe(func() string {
				t.Add([]byte("other-member"))
				ref.add("other-member")
				var ks []string
				for b := 0; b < width; b++ {
					k := prefix + "C" + string([]byte{byte(b)}) + "t"
					ks = append(ks, k)
					t.Add([]byte(k))
					ref.add(k)
				}
				for _, k := range ks {
					if got, want := t.Delete([]byte(k)), ref.del(k); got != want && oracle == "" {
						oracle = fmt.Sprintf("Delete of a member under a %d-child node returned %v", width, got)
					}
				}
				for _, p := range []string{prefix + "C", prefix, prefix + "C\x00"} {
					if got, want := t.Has([]byte(p)), ref.has(p); got != want && oracle == "" {
						oracle = fmt.Sprintf("a node that had %d children, all removed by deletes beneath it: Has(%q) = %v, want %v", width, p, got, want)
					}
				}
				if got, _ := trieMembers(t); got != ref.members() && oracle == "" {
					oracle = fmt.Sprintf("after emptying a %d-child node: members %s, want %s", width, trunc(got, 60), trunc(ref.members(), 60))
				}
				if got, want := t.Delete([]byte(prefix+"C")), ref.del(prefix+"C"); got != want && oracle == "" {
					oracle = fmt.Sprintf("Delete(%q) of an emptied %d-child node returned %v, want %v", prefix+"C", width, got, want)
				}
				return ""
			})
			if st == "PANIC" && oracle == "" {
				oracle = "trie panicked"
			}
			c.add(Case{Kind: "trie-wide-node-emptied", Nontrivial: true, Oracle: oracle, Note: fmt.Sprintf("a node with %d children under %q, every child removed by a Delete beneath it", width, prefix)})
		}
	}
}

// canonRound7: a sequence with more than 2^22 k-mers (thorough: 2^24), every item checked against the harness's
// own computation through a running checksum, the item count, and the items around every power-of-two position.
func canonRound7(c *Ctx) {
	sizes := []int{1<<22 + 3000}
	if c.thor {
		sizes = append(sizes, 1<<24+3000)
	}
	for _, n := range sizes {
		k := 21
		seq := c.bytesFrom([]byte("ACGT"), n)
		comp := func(b byte) byte { return "TGCA"[strings.IndexByte("ACGT", b)] }
		rc := make([]byte, n)
		for i, b := range seq {
			rc[n-1-i] = comp(b)
		}
		want := func(i int) []byte {
			f, r := seq[i:i+k], rc[n-k-i:n-i]
			if bytes.Compare(f, r) <= 0 {
				return f
			}
			return r
		}
		i, bad := 0, ""
		c.begin("CanonicalSubsequences over %d bases", n)
		st := safe(func() string {
			for x := range sequtil.CanonicalSubsequences(seq, k) {
				if i > n-k {
					bad = fmt.Sprintf("more than %d items", n-k+1)
					break
				}
				if !bytes.Equal(x, want(i)) && bad == "" {
					bad = fmt.Sprintf("item %d is %q, want %q", i, x, want(i))
				}
				i++
			}
			return ""
		})
		oracle := ""
		if st == "PANIC" {
			oracle = "CanonicalSubsequences panicked on a long sequence"
		} else if bad != "" {
			oracle = fmt.Sprintf("CanonicalSubsequences over %d bases, k=%d: %s", n, k, bad)
		} else if i != n-k+1 {
			oracle = fmt.Sprintf("CanonicalSubsequences over %d bases, k=%d yields %d items, want %d", n, k, i, n-k+1)
		}
		c.add(Case{Kind: "canon-multi-million", Nontrivial: true, Oracle: oracle, Note: fmt.Sprintf("CanonicalSubsequences(seq of %d bases, %d): every item compared", n, k)})
	}
}

// mashRound7: a sequence of more than 2^22 k-mers sketched whole and as two overlapping pieces holding the same
// k-mers (the sketch depends only on the k-mer content)
func mashRound7(c *Ctx) {
	mashRound11(c)
	n, k := 1<<22+3000, 21
	seq := c.bytesFrom([]byte("ACGT"), n)
	m := n/2 + 17
	// a sketch large enough to hold every k-mer: equal sketches <=> equal k-mer sets
	size := n + 10
	whole := mash.Sequences(size, k, seq).View()
	parts := mash.Sequences(size, k, seq[:m+k-1], seq[m:]).View()
	oracle := ""
	if len(whole) != len(parts) {
		oracle = fmt.Sprintf("the sketch (large enough for every k-mer) of a %d-base sequence holds %d values, the sketch of two overlapping pieces with the same %d-mers holds %d", n, len(whole), k, len(parts))
	} else {
		for i := range whole {
			if whole[i] != parts[i] {
				oracle = fmt.Sprintf("the sketch of a %d-base sequence differs from the sketch of two overlapping pieces with the same %d-mers (value %d)", n, k, i)
				break
			}
		}
	}
	c.add(Case{Kind: "mash-multi-million", Nontrivial: true, Oracle: oracle, Note: fmt.Sprintf("mash.Sequences(%d, %d) of %d bases, whole and in two overlapping pieces", size, k, n)})
}

// mashSeeds (round 8): every entry point under a non-zero mash.Seed -- Sequences in one call, minhash.New + Add,
// and Add in two steps must give the same sketch (the seed is read by all of them), and a different seed a
// different one.
func mashSeeds(c *Ctx) {
	old := mash.Seed
	defer func() { mash.Seed = old }()
	seqs := [][]byte{c.bytesFrom([]byte("ACGT"), 300), c.bytesFrom([]byte("ACGTacgtN"), 200)}
	mash.Seed = 0
	base := sketchOf(40, 11, seqs...)
	for _, seed := range []uint32{1, 12345, 0xffffffff} {
		mash.Seed = seed
		one := sketchOf(40, 11, seqs...)
		mh := minhash.New[uint64](40)
		mash.Add(mh, 11, seqs...)
		viaAdd := u64s(mh.View())
		mh2 := minhash.New[uint64](40)
		mash.Add(mh2, 11, seqs[0])
		mash.Add(mh2, 11, seqs[1])
		twoSteps := u64s(mh2.View())
		oracle := ""
		if one != viaAdd || one != twoSteps {
			oracle = fmt.Sprintf("with mash.Seed = %d: Sequences, New+Add and Add in two steps give different sketches", seed)
		} else if one == base {
			oracle = fmt.Sprintf("mash.Seed = %d gives the same sketch as seed 0", seed)
		}
		c.add(Case{Kind: "mash-seed", Nontrivial: true, Oracle: oracle, Note: fmt.Sprintf("Sequences / New+Add / Add twice with mash.Seed = %d", seed)})
	}
}

func mashRound6(c *Ctx) {
	// k-mers that are hairpins (inverted repeat with arms of 32+ bases around a non-palindromic spacer), k > 64
	for _, k := range []int{66, 71, 100} {
		for i := 0; i < c.n(2); i++ {
			arm := c.bytesFrom([]byte("ACGT"), 32+c.rng.Intn(k/2-32+1))
			if 2*len(arm) > k-2 {
				arm = arm[:(k-2)/2]
			}
			sp := c.bytesFrom([]byte("ACGT"), k-2*len(arm))
			for string(sequtil.ReverseComplement(nil, sp)) == string(sp) {
				sp = c.bytesFrom([]byte("ACGT"), len(sp))
			}
			hp := append(append(append([]byte(nil), arm...), sp...), sequtil.ReverseComplement(nil, arm)...)
			s := append(append(c.bytesFrom([]byte("ACGT"), 10), hp...), c.bytesFrom([]byte("ACGT"), 10)...)
			rc := sequtil.ReverseComplement(nil, s)
			nn := len(s) + 5
			a, b := sketchOf(nn, k, s), sketchOf(nn, k, rc)
			oracle := ""
			if a != b {
				oracle = fmt.Sprintf("sketch of a sequence containing a %d-base hairpin k-mer differs from the sketch of its reverse complement (k=%d)", k, k)
			}
			c.add(Case{Op: fmt.Sprintf("ms.sketch %d %d %s", nn, k, hx(s)), Impl: a, Kind: "mash-hairpin-kmer", Nontrivial: true, Oracle: oracle,
				Note: fmt.Sprintf("mash.Sequences(%d, %d, …) on a sequence with an inverted repeat (arms %d, spacer %d)", nn, k, len(arm), len(sp))})
		}
	}
	// many long sequences in one call sharing a stretch (hashes repeated across sequences)
	var seqs [][]byte
	for i := 0; i < 5; i++ {
		seqs = append(seqs, c.bytesFrom([]byte("ACGT"), 60000))
	}
	copy(seqs[4][1000:], seqs[0][500:800])
	copy(seqs[2][30000:], seqs[1][100:400])
	for _, n := range []int{1000, 20000} {
		oracle := ""
		st := safe(func() string {
			all := sketchOf(n, 21, seqs...)
			mh := mash.Sequences(n, 21)
			for _, s := range seqs {
				mash.Add(mh, 21, s)
			}
			one := u64s(mh.View())
			rev := sketchOf(n, 21, seqs[4], seqs[3], seqs[2], seqs[1], seqs[0])
			if all != one {
				oracle = fmt.Sprintf("five 60000-base sequences sharing a 300-base stretch: one call differs from one Add per sequence (n=%d)", n)
			} else if all != rev {
				oracle = fmt.Sprintf("five 60000-base sequences sharing a 300-base stretch: the sketch depends on their order (n=%d)", n)
			}
			return ""
		})
		if st == "PANIC" {
			oracle = "mash panicked"
		}
		c.add(Case{Kind: "mash-many-long-shared", Nontrivial: true, Oracle: oracle, Note: fmt.Sprintf("mash.Sequences(%d, 21, five 60000-base sequences with shared stretches)", n)})
	}
}

func canonHugeStops(c *Ctx) {
	s := c.bytesFrom([]byte("ACGT"), 1100000)
	k := 21
	// stops where a sequence handled W bases at a time would change windows: after m windows' worth of items
	// (m*(W-k+1)), and at the items that start or end at base m*W
	js := []int{1, 5, 1000, 1<<20 - 1, 1 << 20, 1<<20 + 1}
	for _, W := range []int{4096, 8192, 16384, 32768, 65536, 1 << 17, 1 << 18, 1 << 19, 1 << 20} {
		for m := 1; m <= 3; m++ {
			for d := -1; d <= 1; d++ {
				js = append(js, m*(W-k+1)+d, m*W-(k-1)+d, m*W+d)
			}
		}
	}
	for _, j := range js {
		if j < 1 || j >= len(s)-k+1 {
			continue
		}
		seen, after, stopped := 0, 0, false
		c.begin("CanonicalSubsequences over 1.1M bases stopped after %d items", j)
		st := safe(func() string {
			sequtil.CanonicalSubsequences(s, k)(func(x []byte) bool {
				if stopped {
					after++
					return false
				}
				seen++
				if seen == j {
					stopped = true
					return false
				}
				return true
			})
			return ""
		})
		oracle := ""
		if st == "PANIC" || after > 0 || seen != j {
			oracle = fmt.Sprintf("CanonicalSubsequences over 1100000 bases stopped after %d items: panic=%v, callbacks after the stop=%d", j, st == "PANIC", after)
		}
		c.add(Case{Kind: "canon-stop-huge", Nontrivial: true, Oracle: oracle, Note: fmt.Sprintf("CanonicalSubsequences(1.1M bases, %d), consumer stops after %d items", k, j)})
	}
}

// nestedTraversals: traversals started while another is running, inner ones stopped early, on the same tree
func nestedTraversals(c *Ctx) {
	traverseAfterEdit(c)
	for i := 0; i < c.n(20); i++ {
		n := 6 + c.rng.Intn(40)
		nodes := make([]*newick.Node, n)
		for j := range nodes {
			nodes[j] = &newick.Node{Name: fmt.Sprint(j)}
			if j > 0 {
				p := c.rng.Intn(j)
				nodes[p].Children = append(nodes[p].Children, nodes[j])
			}
		}
		root := nodes[0]
		var wantPre, wantPost []string
		recPre(root, &wantPre)
		recPost(root, &wantPost)
		c.begin("nested traversals (inner ones stopped early) of a %d-node tree %s", n, trunc(treeS(root), 200))
		for _, outerPre := range []bool{true, false} {
			var outer []string
			oracle := ""
			st := safe(func() string {
				// an earlier traversal stopped early, of each kind
				for range root.PostOrder() {
					break
				}
				for range root.PreOrder() {
					break
				}
				it := root.PostOrder()
				if outerPre {
					it = root.PreOrder()
				}
				for x := range it {
					outer = append(outer, x.Name)
					if len(outer) > n+16 {
						return "NONTERM"
					}
					// inner traversal of the subtree, stopped after two nodes; then a complete one
					k := 0
					for range x.PostOrder() {
						k++
						if k == 2 {
							break
						}
					}
					var sub, wantSub []string
					for y := range x.PreOrder() {
						sub = append(sub, y.Name)
						if len(sub) > n+16 {
							return "NONTERM"
						}
					}
					recPre(x, &wantSub)
					if strings.Join(sub, ",") != strings.Join(wantSub, ",") && oracle == "" {
						oracle = "a traversal started inside another traversal's loop yields the wrong nodes"
					}
				}
				return ""
			})
			want := wantPost
			if outerPre {
				want = wantPre
			}
			if st != "" {
				oracle = "nested traversals: " + st
			} else if strings.Join(outer, ",") != strings.Join(want, ",") && oracle == "" {
				oracle = "the outer traversal yields the wrong nodes when other traversals (some stopped early) run inside its loop"
			}
			c.add(Case{Kind: "nested-traversals", Nontrivial: true, Oracle: oracle, Note: fmt.Sprintf("outer pre=%v traversal of a %d-node tree with inner traversals (one stopped after 2 nodes) at every node", outerPre, n)})
		}
	}
}

// polytomies: nodes with 16..40 children, leaves and internal children in random order
func polytomies(c *Ctx) {
	for i := 0; i < c.n(20); i++ {
		id := 0
		mk := func() *newick.Node { id++; return &newick.Node{Name: fmt.Sprint(id)} }
		root := mk()
		w := 15 + c.rng.Intn(26)
		for j := 0; j < w; j++ {
			ch := mk()
			if c.rng.Intn(3) == 0 {
				for k := 0; k < 1+c.rng.Intn(3); k++ {
					g := mk()
					if c.rng.Intn(4) == 0 {
						g.Children = []*newick.Node{mk(), mk()}
					}
					ch.Children = append(ch.Children, g)
				}
			}
			root.Children = append(root.Children, ch)
		}
		travCase(c, root, "polytomy", true, i%4 == 0)
	}
}

// ---------------------------------------------------------------------------
// C20: numerals that other parsers read differently

func ncbiNumerals(c *Ctx) {
	rows := func(tok string) []byte { return []byte("   A  B\nA  1  " + tok + "\nB  2  3\n") }
	want := map[string]string{"010": "10", "-017": "-17", "007": "7", "08": "8", "-09": "-9", "00": "0", "-0": "0", "+5": "5", "+010": "10",
		"1e1": "10", "010.50": "10.5", "-00.25": "-0.25", "0100": "100", "--1": "err", "+-1": "err", "-": "err", "+": "err"}
	var toks []string
	for t := range want {
		toks = append(toks, t)
	}
	sort.Strings(toks)
	for _, tok := range toks {
		data := rows(tok)
		var m align.SubstitutionMatrix
		var err error
		got := safe(func() string { m, err = smtext.ReadNCBI(bytes.NewReader(data)); return ncbiS(m, err) })
		oracle := ""
		if got == "PANIC" {
			oracle = "ReadNCBI panicked"
		} else if want[tok] == "err" {
			if err == nil {
				oracle = fmt.Sprintf("ReadNCBI accepts the non-numeric score token %q", tok)
			}
		} else if err != nil {
			oracle = fmt.Sprintf("ReadNCBI rejects the decimal score %q", tok)
		} else if v := m[[2]byte{'A', 'B'}]; fmt.Sprint(v+0) != want[tok] && !(v == 0 && want[tok] == "0") {
			oracle = fmt.Sprintf("ReadNCBI reads the score %q as %v, want %s", tok, v, want[tok])
		}
		c.add(Case{Op: "sm.read " + hx(normNCBI(data)), Impl: got, Kind: "ncbi-numeral", Nontrivial: true, Oracle: oracle,
			Note: fmt.Sprintf("ReadNCBI of a 2x2 table with the score token %q", tok)})
	}
}


// fastaLengthSweep: EVERY sequence length from 0 up to a bound (not a sample of "interesting" sizes): the bytes
// Write produces against the layout stated directly ('>' name, then the sequence 80 bytes to a line).  A writer
// that collects lines in a buffer of its own goes wrong only at the lengths where a line ends exactly at the end
// of that buffer -- lengths nobody can guess -- and the C01 round trip holds "for every record".
func fastaLengthSweep(c *Ctx) {
	top := 34000
	if c.thor {
		top = 72000
	}
	// beyond the full sweep: every length within 130 of j*B and of j*B*80/81 (where B bytes of OUTPUT, newlines
	// included, are complete) for the buffer sizes B an implementation might choose
	lens := make([]int, 0, top+8000)
	for L := 0; L <= top; L++ {
		lens = append(lens, L)
	}
	maxLen := top
	for _, B := range []int{4096, 8192, 16384, 32768, 65536, 131072} {
		for j := 1; j <= 2; j++ {
			for _, center := range []int{j * B, j * B * 80 / 81} {
				for L := center - 130; L <= center+130; L++ {
					if L > top {
						lens = append(lens, L)
						maxLen = max(maxLen, L)
					}
				}
			}
		}
	}
	pat := make([]byte, maxLen)
	for i := range pat {
		pat[i] = "ACGTNacgtn"[(i*7+i/80)%10]
	}
	name := []byte("sweep")
	var got bytes.Buffer
	want := make([]byte, 0, maxLen+maxLen/80+16)
	bad, badLen, cur := "", -1, 0
	st := safe(func() string {
		for _, L := range lens {
			cur = L
			got.Reset()
			err := (&fasta.Fasta{Name: name, Sequence: pat[:L:L]}).Write(&got)
			want = append(want[:0], '>')
			want = append(want, name...)
			want = append(want, '\n')
			for i := 0; i < L; i += 80 {
				want = append(want, pat[i:min(i+80, L)]...)
				want = append(want, '\n')
			}
			if err != nil {
				bad, badLen = "Write into a bytes.Buffer returned an error: "+err.Error(), L
				return ""
			}
			if !bytes.Equal(got.Bytes(), want) {
				bad, badLen = fmt.Sprintf("Write produced %d bytes that are not '>'name, newline, the sequence 80 to a line (%d bytes expected)", got.Len(), len(want)), L
				return ""
			}
			if L%997 == 0 || L == top || (L > top && L%61 == 0) {
				// the pre-computed length of MarshalText (it panics on a mismatch) at a spread of lengths too
				mt, merr := (&fasta.Fasta{Name: name, Sequence: pat[:L:L]}).MarshalText()
				if merr != nil || !bytes.Equal(mt, want) {
					bad, badLen = "MarshalText differs from the stated layout", L
					return ""
				}
			}
		}
		return ""
	})
	oracle := ""
	if st == "PANIC" {
		oracle = fmt.Sprintf("fasta: sequence length %d: Write/MarshalText panicked", cur)
	} else if bad != "" {
		oracle = fmt.Sprintf("fasta: sequence length %d: %s", badLen, bad)
	}
	c.add(Case{Kind: "length-sweep", Nontrivial: true, Oracle: oracle, Note: fmt.Sprintf("fasta Write for every sequence length 0..%d and %d lengths around multiples of the usual buffer sizes up to %d, against the stated layout", top, len(lens)-top-1, maxLen)})
}

// regionsRound9: (a) the FIRST lookups of a fresh index arrive from many goroutines at once, on positions covered
// by hundreds of intervals given in shuffled order (an index that finishes its work lazily inside At is not
// read-only); every answer, and every later sequential answer, against brute force.  (b) intervals whose decimal
// coordinates concatenate to the same digit string ([1,234) and [12,34); [-1,23) and [-12,3)): distinct intervals
// that a key built without a separator cannot tell apart.
func regionsRound9(c *Ctx) {
	reps := 3
	if c.thor {
		reps = 12
	}
	for rep := 0; rep < reps; rep++ {
		for _, depth := range []int{300, 700, 1500} {
			if depth == 1500 && rep > 0 {
				continue
			}
			n := depth + 40
			starts, ends := make([]int, n), make([]int, n)
			perm := c.rng.Perm(depth)
			for j := 0; j < depth; j++ {
				starts[j], ends[j] = -perm[j], 1000+perm[(j+1)%depth]
			}
			for j := depth; j < n; j++ {
				starts[j] = c.rng.Intn(900)
				ends[j] = starts[j] + 1 + c.rng.Intn(50)
			}
			qs := []int{0, 1, 500, 999, 1000, -1, 450, 2}
			want := map[int][]int{}
			for _, q := range qs {
				want[q] = bruteAt(starts, ends, q)
			}
			oracle := ""
			var mu sync.Mutex
			note := func(s string) {
				mu.Lock()
				if oracle == "" {
					oracle = s
				}
				mu.Unlock()
			}
			st := safe(func() string {
				idx := regions.NewIndex(starts, ends)
				var wg sync.WaitGroup
				gate := make(chan struct{})
				for g := 0; g < 16; g++ {
					wg.Add(1)
					go func(g int) {
						defer wg.Done()
						defer func() {
							if r := recover(); r != nil {
								note(fmt.Sprintf("At panicked when first called from several goroutines at once (%d intervals over one position): %v", depth, r))
							}
						}()
						<-gate
						for i := range qs {
							q := qs[(i+g)%len(qs)]
							if got := idx.At(q); !sameInts(got, want[q]) {
								note(fmt.Sprintf("%d intervals over one position, first lookups from 16 goroutines at once: At(%d) = %v…, brute force gives %v…", depth, q, trunc(fmt.Sprint(got), 50), trunc(fmt.Sprint(want[q]), 50)))
							}
						}
					}(g)
				}
				close(gate)
				wg.Wait()
				for _, q := range qs {
					if got := idx.At(q); !sameInts(got, want[q]) {
						note(fmt.Sprintf("%d intervals over one position: after concurrent lookups At(%d) = %v…, brute force gives %v…", depth, q, trunc(fmt.Sprint(got), 50), trunc(fmt.Sprint(want[q]), 50)))
					}
				}
				return ""
			})
			if st == "PANIC" && oracle == "" {
				oracle = "NewIndex/At panicked on a deep pile-up"
			}
			c.add(Case{Kind: "regions-concurrent-first-lookups", Nontrivial: true, Oracle: oracle, Note: fmt.Sprintf("fresh index, %d shuffled intervals over one position, 16 goroutines ask first", depth)})
		}
	}
	for i := 0; i < c.n(40); i++ {
		// a digit string cut at two different places gives two intervals with the same concatenated decimals
		var ss, es []int
		for p := 0; p < 1+c.rng.Intn(3); p++ {
			L := 4 + c.rng.Intn(3)
			d := make([]byte, L)
			for j := range d {
				d[j] = byte('1' + c.rng.Intn(9))
			}
			neg := c.rng.Intn(3) == 0
			cuts := c.rng.Perm(L - 1)[:2]
			for _, cut := range cuts {
				a, _ := strconv.Atoi(string(d[:cut+1]))
				b, _ := strconv.Atoi(string(d[cut+1:]))
				if neg {
					a = -a
				}
				ss, es = append(ss, a), append(es, b)
			}
		}
		for j := 0; j < c.rng.Intn(4); j++ {
			a := c.rng.Intn(2000) - 200
			ss, es = append(ss, a), append(es, a+c.rng.Intn(300))
		}
		var qs []int
		for j := range ss {
			qs = append(qs, ss[j], ss[j]-1, es[j], es[j]-1, (ss[j]+es[j])/2)
		}
		oracle := ""
		st := safe(func() string {
			idx := regions.NewIndex(ss, es)
			for _, q := range qs {
				if got := idx.At(q); !sameInts(got, bruteAt(ss, es, q)) && oracle == "" {
					oracle = fmt.Sprintf("NewIndex(%v, %v).At(%d) = %v, brute force gives %v", ss, es, q, got, bruteAt(ss, es, q))
				}
			}
			return ""
		})
		if st == "PANIC" && oracle == "" {
			oracle = fmt.Sprintf("NewIndex(%v, %v) / At panicked", ss, es)
		}
		c.add(Case{Kind: "regions-digit-collisions", Nontrivial: true, Oracle: oracle,
			Note: fmt.Sprintf("NewIndex(%v, %v): coordinates whose decimals concatenate alike", ss, es)})
	}
}

// alignLopsided: one sequence short (0..45 letters), the other long, the PRODUCT of the lengths just below and just
// above round table sizes while the table (len+1)*(len+1) is not: where a fixed-size table chosen by the wrong
// size test overflows.  Levenshtein and a shipped protein matrix, both argument orders, Global and Local.
func alignLopsided(c *Ctx, prop string) {
	type mat struct {
		name string
		m    align.SubstitutionMatrix
		al   []byte
	}
	mats := []mat{{"Levenshtein", align.Levenshtein, []byte("abcdefgh")}, {"BLOSUM62", align.BLOSUM62, []byte(protAlpha)}}
	for _, T := range []int{256, 1024, 4096, 16384} {
		for _, la := range []int{0, 1, 2, 3, 5, 8, 16, 32, 45} {
			var lbs []int
			if la == 0 {
				lbs = []int{T, T + T/32 + 2, 2 * T}
			} else {
				lbs = []int{T / la, T/la - 1, T/la + 1, (T + T/64) / la}
			}
			for _, lb := range lbs {
				if lb < 0 || (la+1)*(lb+1) > 40000 {
					continue
				}
				mt := mats[(la+lb+T)%2]
				a, b := c.bytesFrom(mt.al, la), c.bytesFrom(mt.al, lb)
				for swap := 0; swap < 2; swap++ {
					if swap == 1 {
						a, b = b, a
					}
					var gs, ls []align.Step
					var gsc, lsc float64
					var lai, lbi int
					st := safe(func() string {
						gs, gsc = align.Global(a, b, mt.m)
						ls, lai, lbi, lsc = align.Local(a, b, mt.m)
						return ""
					})
					oracle := ""
					if st == "PANIC" {
						oracle = fmt.Sprintf("Global/Local panicked on sequences of %d and %d letters (%s)", len(a), len(b), mt.name)
					} else if sc, ai, bi, ok := rescore(mt.m, a, b, gs); !ok || ai != len(a) || bi != len(b) || sc != gsc {
						oracle = fmt.Sprintf("Global on %d and %d letters (%s): the steps do not re-score to the returned score", len(a), len(b), mt.name)
					} else if sc, _, _, ok := rescore(mt.m, a[min(max(lai, 0), len(a)):], b[min(max(lbi, 0), len(b)):], ls); len(ls) > 0 && (!ok || sc != lsc) {
						oracle = fmt.Sprintf("Local on %d and %d letters (%s): the steps do not re-score to the returned score", len(a), len(b), mt.name)
					} else if prop == "C09" {
						if opt := gotoh(mt.m, a, b, false); gsc != opt {
							oracle = fmt.Sprintf("Global on %d and %d letters (%s) returns %v, optimum is %v", len(a), len(b), mt.name, gsc, opt)
						} else if opt := gotoh(mt.m, a, b, true); lsc != opt {
							oracle = fmt.Sprintf("Local on %d and %d letters (%s) returns %v, optimum is %v", len(a), len(b), mt.name, lsc, opt)
						}
					}
					c.add(Case{Kind: "lopsided", Nontrivial: true, Oracle: oracle, Note: fmt.Sprintf("Global and Local on %d and %d letters, %s", len(a), len(b), mt.name)})
				}
			}
		}
	}
}

// rawMagicInputs (C06): STREAMS whose very first bytes are a compressed-stream magic number or a byte-order mark,
// followed by well-formed text, and real gzip/bzip2-looking bytes handed to Reader as they are.  Reader does not
// decompress (File does, by suffix): whatever these bytes decode to, they decode to the same items however they
// are delivered -- a Reader that sniffs its first Read for a magic number depends on how many bytes that Read
// returned.  `want` is the decode of the whole input at once.
func (c *Ctx) rawMagicInputs(f *format) []wfInput {
	var out []wfInput
	add := func(data []byte, d string) {
		items, st := f.decode(bytes.NewReader(data), 0, len(data)+16)
		out = append(out, wfInput{data: data, want: itemsStr(items, st), desc: "raw: " + d})
	}
	text := f.wellFormed(c)
	for len(text) < 40 {
		text = append(text, f.wellFormed(c)...)
	}
	for _, m := range magics {
		add(append(append([]byte(nil), m...), text...), fmt.Sprintf("the stream starts with bytes % x, then well-formed text", m))
		if f.name == "fasta" {
			add(append(append(append([]byte(nil), m...), []byte("ACGT\nAC\n")...), text...), fmt.Sprintf("a nameless first sequence starting with bytes % x", m))
		}
	}
	var zb bytes.Buffer
	zw := gzip.NewWriter(&zb)
	zw.Write(text)
	zw.Close()
	add(zb.Bytes(), "the gzip compression of well-formed text, handed to Reader as it is")
	add(zb.Bytes()[:len(zb.Bytes())/2], "half of a gzip stream, handed to Reader as it is")
	return out
}

// veryLongLineInputs: three records, the middle one a line of ~70 000 or ~140 000 bytes (beyond 64 KiB and 128 KiB
// buffers) whose LAST field is long, so that a line cut anywhere in its second half still looks well formed.
func (c *Ctx) veryLongLineInputs(name string) [][]byte {
	var out [][]byte
	fill := func(n int) string { return string(c.bytesFrom([]byte("ACGTacgt"), n)) }
	for _, L := range []int{70000, 140000} {
		switch name {
		case "fasta":
			out = append(out, []byte(">a\nAC\n>n\n"+fill(L)+"\n>m\nAC\n"))
		case "fastq":
			out = append(out, []byte("@a\nA\n+\nI\n@r1\n"+fill(L/2)+"\n+\n"+fill(L/2)+"\n@r2\nAC\n+\nII\n"))
		case "sam", "samh":
			rec := "q\t0\tr\t1\t2\t*\t=\t3\t4\t"
			out = append(out, []byte("@HD\tVN:1\nq0\t0\tr\t1\t2\t*\t=\t3\t4\tA\tI\n"+rec+fill(L/4)+"\t"+fill(3*L/4)+"\nq2\t0\tr\t1\t2\t*\t=\t3\t4\tC\tI\n"))
			out = append(out, []byte("q0\t0\tr\t1\t2\t*\t=\t3\t4\tA\tI\n"+rec+"AC\tII\tXA:Z:"+fill(L)+"\nq2\t0\tr\t1\t2\t*\t=\t3\t4\tC\tI\n"))
		case "bed":
			out = append(out, []byte("c\t5\t6\tn0\nchr1\t1\t2\t"+fill(L)+"\nc\t7\t8\tn2\n"))
		case "newick":
			out = append(out, []byte("(a,b)c;\n(d,"+fill(L)+")f;\n(g,h)i;\n"))
		}
	}
	return out
}

// mashRound11: sequences a few bases (1 … k) longer than 2^16, 2^18 (thorough 2^20): a sketch large enough for every
// k-mer, whole against two overlapping pieces cut at an odd place -- block-wise processing that forgets the
// overlap at its last block loses the final k-mers.
func mashRound11(c *Ctx) {
	k := 21
	bases := []int{1 << 16, 1 << 18}
	if c.thor {
		bases = append(bases, 1<<20)
	}
	for _, base := range bases {
		for _, r := range []int{1, 2, k / 2, k - 1, k} {
			n := base + r
			seq := c.bytesFrom([]byte("ACGT"), n)
			m := n/3 + 5
			size := n + 10
			var whole, parts []uint64
			st := safe(func() string {
				whole = mash.Sequences(size, k, seq).View()
				parts = mash.Sequences(size, k, seq[:m+k-1], seq[m:]).View()
				return ""
			})
			oracle := ""
			if st == "PANIC" {
				oracle = fmt.Sprintf("mash.Sequences panicked on %d bases", n)
			} else if len(whole) != len(parts) {
				oracle = fmt.Sprintf("the sketch (large enough for every k-mer) of a %d-base sequence (2^%d + %d) holds %d values, the sketch of two overlapping pieces with the same %d-mers holds %d", n, bitsLen(base), r, len(whole), k, len(parts))
			} else {
				for i := range whole {
					if whole[i] != parts[i] {
						oracle = fmt.Sprintf("the sketch of a %d-base sequence differs from the sketch of two overlapping pieces with the same %d-mers (value %d)", n, k, i)
						break
					}
				}
			}
			c.add(Case{Kind: "mash-block-residue", Nontrivial: true, Oracle: oracle, Note: fmt.Sprintf("mash.Sequences(%d, %d) of %d bases, whole and in two overlapping pieces", size, k, n)})
		}
	}
}

func bitsLen(x int) int {
	n := 0
	for x > 1 {
		x >>= 1
		n++
	}
	return n
}

// canonNearPalindromes: windows of the form X + m + revcomp(X) (odd k) and X + m1 m2 + revcomp(X) (even k), k up to
// 129: a window and its reverse complement then differ ONLY in the middle, so a comparison that looks at half of
// the window, or at machine words of it, decides on bytes that are equal.
func canonNearPalindromes(c *Ctx) {
	comp := func(b byte) byte { return "TGCAtgcaNn"[strings.IndexByte("ACGTacgtNn", b)] }
	for _, k := range []int{3, 5, 7, 9, 15, 17, 31, 32, 33, 34, 35, 41, 63, 64, 65, 66, 127, 129} {
		for _, mid := range []string{"A", "C", "G", "T", "N", "AC", "GT", "CA", "TG", "AT", "GC"} {
			if (k-len(mid))%2 != 0 {
				continue
			}
			h := (k - len(mid)) / 2
			x := c.bytesFrom([]byte("ACGT"), h)
			w := append(append([]byte(nil), x...), mid...)
			for i := h - 1; i >= 0; i-- {
				w = append(w, comp(x[i]))
			}
			s := append(append(c.bytesFrom([]byte("ACGT"), 2), w...), c.bytesFrom([]byte("ACGT"), 2)...)
			var got []string
			st := safe(func() string {
				for y := range sequtil.CanonicalSubsequences(s, k) {
					got = append(got, hx(y))
				}
				return ""
			})
			want := refCanonical(s, k)
			oracle := ""
			if st == "PANIC" {
				oracle = "CanonicalSubsequences panicked"
			} else if strings.Join(got, ",") != strings.Join(want, ",") {
				oracle = fmt.Sprintf("CanonicalSubsequences with k=%d on a window that differs from its reverse complement only in its middle (%q): an item is not the lexicographic minimum of a window and its reverse complement", k, mid)
			}
			c.add(Case{Op: fmt.Sprintf("su.canon %d 0 %s", k, hx(s)), Impl: strings.Join(got, ","), Kind: "canon-near-palindrome", Nontrivial: true, Oracle: oracle,
				Note: fmt.Sprintf("CanonicalSubsequences(%q, %d)", s, k)})
		}
	}
}

// sequtilWarmUp: every other exported function of the package is called first (valid and invalid input), so that
// anything one function leaves behind in package-level state (a lazily built table, a patched lookup table)
// is in place when the function under test runs.
func sequtilWarmUp() {
	for _, s := range [][]byte{nil, []byte("ACGTacgtN"), []byte("ATGAAATGAUUUxx"), []byte("nNnN"), {0, 0xff, 'u', 'U'}} {
		safe(func() string { sequtil.Translate(nil, s); return "" })
		safe(func() string { sequtil.TranslateReadingFrames(s); return "" })
		safe(func() string { sequtil.ReverseComplement(nil, s); return "" })
		safe(func() string { _ = sequtil.ReverseComplementString(string(s)); return "" })
		safe(func() string { sequtil.DNATo2Bit(nil, s); return "" })
		safe(func() string { sequtil.DNAFrom2Bit(nil, s); return "" })
		safe(func() string {
			for range sequtil.CanonicalSubsequences(s, 3) {
			}
			return ""
		})
		for _, b := range s {
			safe(func() string { sequtil.AminoName(b); sequtil.Ntoi(b); sequtil.Iton(int(b) % 4); return "" })
		}
	}
}

// translateLongBytes: sequences of 96, 300 and 3000 valid bases with ONE byte replaced by each of the 256 byte values,
// at the first, a middle and the last position, each call made twice: Translate panics exactly when the byte is not
// one of aAcCgGtT, the second time as the first (an answer remembered from an earlier call must be the same answer).
func translateLongBytes(c *Ctx) {
	for _, n := range []int{3, 96, 300, 3000} {
		base := c.bytesFrom([]byte("ACGTacgt"), n)
		want0 := safe(func() string { return hx(sequtil.Translate(nil, base)) })
		for _, pos := range []int{0, 1, 2, n / 2, n - 3, n - 1} {
			bad := ""
			for v := 0; v < 256 && bad == ""; v++ {
				s := append([]byte(nil), base...)
				s[pos] = byte(v)
				valid := strings.IndexByte("ACGTacgt", byte(v)) >= 0
				for rep := 0; rep < 2 && bad == ""; rep++ {
					got := safe(func() string { return hx(sequtil.Translate(nil, s)) })
					if valid == (got == "PANIC") {
						bad = fmt.Sprintf("Translate of %d bases with byte %#x at position %d (call %d): valid base=%v, panics=%v", n, v, pos, rep+1, valid, got == "PANIC")
					}
				}
			}
			if again := safe(func() string { return hx(sequtil.Translate(nil, base)) }); bad == "" && again != want0 {
				bad = fmt.Sprintf("Translate of the same %d valid bases gives a different result after calls that panicked", n)
			}
			c.add(Case{Kind: "translate-every-byte", Nontrivial: true, Oracle: bad, Note: fmt.Sprintf("Translate on %d bases, every byte value at position %d, each call twice", n, pos)})
		}
	}
}

// runTrieHistoryQuiet: the same history as runTrieHistory but WITHOUT looking at the trie after every step (lookups
// and iterations between the updates refresh or repair whatever an implementation remembers from call to call);
// the results of the history's own operations are checked, and only at the end is everything observed: ForEach,
// then Has on every probe through ONE reused buffer (same backing array, same offset, different contents), in two
// orders, then ForEach again.
func runTrieHistoryQuiet(c *Ctx, ops []string, probes []string, kind string) {
	t := trie.New()
	ref := refSet{}
	oracle := ""
	fail := func(s string) {
		if oracle == "" {
			oracle = s
		}
	}
	st := safe(func() string {
		for step, op := range ops {
			arg := string(unhx(op[1:]))
			switch op[0] {
			case 'a':
				t.Add([]byte(arg))
				ref.add(arg)
			case 'd':
				got := t.Delete([]byte(arg))
				want := true
				if arg != "" {
					want = ref.del(arg)
				}
				if got != want {
					fail(fmt.Sprintf("step %d Delete(%q) returned %v, want %v (no observation between the steps)", step, arg, got, want))
				}
			case 'h':
				if got := t.Has([]byte(arg)); got != ref.has(arg) {
					fail(fmt.Sprintf("step %d Has(%q) = %v (no observation between the steps)", step, arg, got))
				}
			case 'e':
				if s, _ := trieMembers(t); s != ref.members() {
					fail(fmt.Sprintf("step %d ForEach reports %s, members are %s (no observation between the steps)", step, s, ref.members()))
				}
			}
		}
		if s, _ := trieMembers(t); s != ref.members() {
			fail(fmt.Sprintf("at the end of a history without observations in between: ForEach %s, want %s", s, ref.members()))
		}
		buf := make([]byte, 64)
		sorted := append([]string(nil), probes...)
		sort.Slice(sorted, func(i, j int) bool {
			if len(sorted[i]) != len(sorted[j]) {
				return len(sorted[i]) < len(sorted[j])
			}
			return sorted[i] < sorted[j]
		})
		for pass := 0; pass < 2; pass++ {
			for i := range sorted {
				p := sorted[i]
				if pass == 1 {
					p = sorted[len(sorted)-1-i]
				}
				if len(p) > len(buf) {
					continue
				}
				q := buf[:len(p)]
				copy(q, p)
				if got := t.Has(q); got != ref.has(p) {
					fail(fmt.Sprintf("Has(%q) = %v through a buffer that held the previous query (same length, other contents)", p, got))
				}
			}
		}
		if s, _ := trieMembers(t); s != ref.members() {
			fail(fmt.Sprintf("ForEach after the final lookups: %s, want %s", s, ref.members()))
		}
		return ""
	})
	if st == "PANIC" {
		fail("the trie panicked during a history without observations in between")
	}
	c.add(Case{Kind: kind + "-quiet", Nontrivial: len(ops) > 2, Oracle: oracle, Note: "trie history (observed only at the end) " + trunc(strings.Join(ops, " "), 300)})
}

// trieRound11: short scripted histories, observed only at the end, around what one call may leave behind for the next:
// a failed lookup that matched a prefix, then a Delete that prunes that prefix's node, then an Add below the prefix;
// an iteration, then one child of a node replaced by another (Delete + Add), then an iteration; lookups between.
func trieRound11(c *Ctx) {
	trieNestedForEach(c)
	for i := 0; i < c.n(30); i++ {
		al := []byte("acgt")
		p := c.bytesFrom(al, 1+c.rng.Intn(8))
		tail := c.bytesFrom(al, 1+c.rng.Intn(4))
		b := append(append([]byte(nil), p...), tail...)
		q := append(append([]byte(nil), p...), c.bytesFrom(al, 1+c.rng.Intn(3))...)
		y := append(append([]byte(nil), p...), c.bytesFrom(al, 1+c.rng.Intn(3))...)
		other := c.bytesFrom(al, 1+c.rng.Intn(5))
		h := func(s []byte) string { return hx(s) }
		var ops []string
		switch i % 4 {
		case 0: // failed lookup under p, p pruned away, then an Add under p
			ops = []string{"a" + h(b), "a" + h(other), "h" + h(q), "d" + h(b), "a" + h(y)}
		case 1: // the same with the lookup after a no-op Add of the prefix itself
			ops = []string{"a" + h(b), "a" + h(p), "h" + h(q), "d" + h(b), "a" + h(y), "h" + h(q)}
		case 2: // iterate, replace one child by another, iterate
			x1 := append(append([]byte(nil), p...), 'a')
			x2 := append(append([]byte(nil), p...), 'c')
			x3 := append(append([]byte(nil), p...), 'g')
			ops = []string{"a" + h(x1), "a" + h(x3), "e", "d" + h(x1), "a" + h(x2), "e", "d" + h(x3), "a" + h(x1), "e"}
		case 3: // lookups of the same length back to back, updates only before them
			ops = []string{"a" + h(b), "a" + h(other), "h" + h(b), "h" + h(q), "h" + h(y), "h" + h(b), "d" + h(b), "h" + h(b), "h" + h(q)}
		}
		probes := []string{string(p), string(b), string(q), string(y), string(other), "", string(p[:len(p)/2])}
		runTrieHistoryQuiet(c, ops, probes, "scripted")
	}
}

// ncbiHugeLines: a valid table with one physical line of 17 MiB (thorough 70 MiB): a comment, a header padded with
// blanks, a row padded with blanks -- "whatever the amount of whitespace and comment lines".
func ncbiHugeLines(c *Ctx) {
	n := 17<<20 + 1
	if c.thor {
		n = 70 << 20
	}
	pad := bytes.Repeat([]byte(" "), n)
	cmt := append(append([]byte("#"), bytes.Repeat([]byte("x"), n)...), '\n')
	tables := map[string][]byte{
		"a comment line":          append(append([]byte(nil), cmt...), []byte("   A  B\nA  1  -2\nB  2  3\n")...),
		"a header row with blanks": append(append([]byte("   A"), pad...), []byte("  B\nA  1  -2\nB  2  3\n")...),
		"a data row with blanks":   append(append([]byte("   A  B\nA  1"), pad...), []byte("  -2\nB  2  3\n")...),
	}
	want := "1,-2,2,3"
	var names []string
	for k := range tables {
		names = append(names, k)
	}
	sort.Strings(names)
	for _, name := range names {
		data := tables[name]
		var m align.SubstitutionMatrix
		var err error
		st := safe(func() string { m, err = smtext.ReadNCBI(bytes.NewReader(data)); return "" })
		oracle := ""
		if st == "PANIC" {
			oracle = "ReadNCBI panicked"
		} else if err != nil {
			oracle = fmt.Sprintf("ReadNCBI fails on a valid table with %s of %d bytes: %v", name, n, err)
		} else if got := fmt.Sprintf("%v,%v,%v,%v", m[[2]byte{'A', 'A'}], m[[2]byte{'A', 'B'}], m[[2]byte{'B', 'A'}], m[[2]byte{'B', 'B'}]); got != want || len(m) != 4 {
			oracle = fmt.Sprintf("ReadNCBI of a table with %s of %d bytes gives %s (%d pairs), want %s", name, n, got, len(m), want)
		}
		c.add(Case{Kind: "ncbi-huge-line", Nontrivial: true, Oracle: oracle, Note: fmt.Sprintf("ReadNCBI of a 2x2 table with %s of %d bytes", name, n)})
	}
}

// alignHugeTable (C08): one Global alignment whose table has more than 2^23 cells (2900 x 2900), with integer scores
// in the millions (exact in float64, far beyond float32): the steps must consume both sequences and re-score to
// exactly the returned score.  A memory-saving representation chosen only for very large tables shows here.
func alignHugeTable(c *Ctx) {
	al := []byte("ab")
	m := align.SubstitutionMatrix{}
	for _, x := range al {
		for _, y := range al {
			m[[2]byte{x, y}] = -999983
			if x == y {
				m[[2]byte{x, y}] = 1000003
			}
		}
		m[[2]byte{x, align.Gap}] = -1000001
		m[[2]byte{align.Gap, x}] = -1000001
	}
	m[[2]byte{align.Gap, align.Gap}] = -7
	n := 2900
	a, b := c.bytesFrom(al, n), c.bytesFrom(al, n+3)
	var steps []align.Step
	var score float64
	st := safe(func() string { steps, score = align.Global(a, b, m); return "" })
	oracle := ""
	if st == "PANIC" {
		oracle = "Global panicked on two sequences of 2900 letters"
	} else if sc, ai, bi, ok := rescore(m, a, b, steps); !ok || ai != len(a) || bi != len(b) {
		oracle = "Global on two sequences of 2900 letters: the steps do not consume both sequences"
	} else if sc != score {
		oracle = fmt.Sprintf("Global on two sequences of 2900 letters (integer scores in the millions): returned score %v, the steps re-score to %v", score, sc)
	}
	c.add(Case{Kind: "huge-table", Nontrivial: true, Oracle: oracle, Note: "align.Global on 2900 x 2903 letters, scores +1000003 / -999983 / gap -1000001 / open -7"})
}

// regionsRound12: two indexes alive at once -- A is built and asked, B (as large, larger, smaller) is built and asked,
// then A is asked again: what NewIndex keeps between calls must not be what an earlier Index still points into.
func regionsRound12(c *Ctx) {
	mk := func(n, lo int) ([]int, []int) {
		s, e := make([]int, n), make([]int, n)
		for j := range s {
			s[j] = lo + c.rng.Intn(60)
			e[j] = s[j] + 1 + c.rng.Intn(25)
		}
		return s, e
	}
	for i := 0; i < c.n(6); i++ {
		na := 5 + c.rng.Intn(40)
		sa, ea := mk(na, 0)
		qs := []int{0, 3, 10, 22, 35, 50, 61, 80, -1}
		oracle := ""
		st := safe(func() string {
			a := regions.NewIndex(sa, ea)
			for _, q := range qs {
				if got := a.At(q); !sameInts(got, bruteAt(sa, ea, q)) && oracle == "" {
					oracle = fmt.Sprintf("first index: At(%d) = %v, brute force gives %v", q, got, bruteAt(sa, ea, q))
				}
			}
			var others []*regions.Index
			for _, nb := range []int{na, 2*na + 7, 3, 4 * na} {
				sb, eb := mk(nb, 1000*len(others))
				b := regions.NewIndex(sb, eb)
				others = append(others, b)
				for _, q := range []int{1000 * (len(others) - 1), 1000*(len(others)-1) + 30} {
					if got := b.At(q); !sameInts(got, bruteAt(sb, eb, q)) && oracle == "" {
						oracle = fmt.Sprintf("a later index: At(%d) = %v, brute force gives %v", q, got, bruteAt(sb, eb, q))
					}
				}
				for _, q := range qs {
					if got := a.At(q); !sameInts(got, bruteAt(sa, ea, q)) && oracle == "" {
						oracle = fmt.Sprintf("the FIRST index, asked again after %d more indexes were built: At(%d) = %v, brute force gives %v", len(others), q, got, bruteAt(sa, ea, q))
					}
				}
			}
			return ""
		})
		if st == "PANIC" && oracle == "" {
			oracle = "NewIndex/At panicked with several indexes alive"
		}
		c.add(Case{Kind: "regions-two-indexes", Nontrivial: true, Oracle: oracle, Note: fmt.Sprintf("an index over %d intervals asked again after each of four more indexes is built", na)})
	}
}

// translateCaseTails: upper-case sequences of every length 3..200 whose LAST 1..9 bases (or first, or one in the middle)
// are lower-case: the translation is that of the upper-cased sequence.  Case handling done a machine word at a time
// goes wrong in the bytes that do not fill a word.
func translateCaseTails(c *Ctx) {
	bad := ""
	n := 0
	for L := 3; L <= 200 && bad == ""; L++ {
		up := c.bytesFrom([]byte("ACGT"), L)
		want := safe(func() string { return hx(sequtil.Translate(nil, up)) })
		for r := 1; r <= 9 && r <= L && bad == ""; r++ {
			for _, where := range []string{"last", "first", "middle"} {
				s := append([]byte(nil), up...)
				from := L - r
				switch where {
				case "first":
					from = 0
				case "middle":
					from = (L - r) / 2
				}
				for j := from; j < from+r; j++ {
					s[j] |= 0x20
				}
				n++
				if got := safe(func() string { return hx(sequtil.Translate(nil, s)) }); got != want {
					bad = fmt.Sprintf("Translate of %d bases, upper-case except the %s %d: %s, the upper-case sequence gives %s", L, where, r, trunc(got, 40), trunc(want, 40))
					break
				}
			}
		}
	}
	c.add(Case{Kind: "translate-case-tails", Nontrivial: true, Oracle: bad, Note: fmt.Sprintf("Translate on %d sequences of 3..200 bases with a lower-case stretch at the end, start or middle", n)})
}

// traverseAfterEdit (C19): a complete traversal, then an edit that keeps the same root (a leaf added, two children
// swapped, a subtree removed), then a traversal again: every traversal is of the tree AS IT IS NOW.
func traverseAfterEdit(c *Ctx) {
	for i := 0; i < c.n(12); i++ {
		n := 5 + c.rng.Intn(30)
		nodes := make([]*newick.Node, n)
		for j := range nodes {
			nodes[j] = &newick.Node{Name: fmt.Sprint(j)}
			if j > 0 {
				p := c.rng.Intn(j)
				nodes[p].Children = append(nodes[p].Children, nodes[j])
			}
		}
		root := nodes[0]
		oracle := ""
		modes := []bool{true, false}
		check := func(when string) {
			for _, pre := range modes {
				var got, want []string
				it := root.PostOrder()
				if pre {
					it = root.PreOrder()
					recPre(root, &want)
				} else {
					recPost(root, &want)
				}
				for x := range it {
					got = append(got, x.Name)
					if len(got) > 4*n+16 {
						break
					}
				}
				if strings.Join(got, ",") != strings.Join(want, ",") && oracle == "" {
					oracle = fmt.Sprintf("%s (pre=%v): the traversal yields %s, the tree is %s", when, pre, trunc(strings.Join(got, ","), 80), trunc(strings.Join(want, ","), 80))
				}
			}
		}
		st := safe(func() string {
			// first with ONE order throughout (pre, edit, pre, edit, … then post …): nothing but the edit lies between two
			// traversals of the same kind; then both orders alternating
			for _, one := range [][]bool{{true}, {false}} {
				modes = one
				check("first traversal")
				q := nodes[c.rng.Intn(n)]
				q.Children = append(q.Children, &newick.Node{Name: "x"})
				check("traversed again in the same order after a leaf was added below the same root")
				for _, q2 := range nodes {
					if len(q2.Children) >= 2 {
						q2.Children[0], q2.Children[len(q2.Children)-1] = q2.Children[len(q2.Children)-1], q2.Children[0]
						break
					}
				}
				check("traversed again in the same order after two children were swapped")
			}
			modes = []bool{true, false}
			check("first traversal")
			p := nodes[c.rng.Intn(n)]
			p.Children = append(p.Children, &newick.Node{Name: "new"})
			check("after a leaf was added below the same root")
			for _, q := range nodes {
				if len(q.Children) >= 2 {
					q.Children[0], q.Children[1] = q.Children[1], q.Children[0]
					break
				}
			}
			check("after two children were swapped")
			for _, q := range nodes {
				if len(q.Children) >= 1 {
					q.Children = q.Children[1:]
					break
				}
			}
			check("after a subtree was removed")
			return ""
		})
		if st == "PANIC" && oracle == "" {
			oracle = "a traversal panicked after the tree was edited"
		}
		c.add(Case{Kind: "traverse-after-edit", Nontrivial: true, Oracle: oracle, Note: fmt.Sprintf("%d-node tree traversed, edited below the same root, traversed again", n)})
	}
}

// trieNestedForEach (C15/C18): ForEach started from inside a ForEach callback on the same trie, after an earlier
// complete ForEach: the outer iteration still reports every member exactly once.
func trieNestedForEach(c *Ctx) {
	for i := 0; i < c.n(6); i++ {
		t := trie.New()
		members := map[string]bool{}
		for k := 0; k < 3+c.rng.Intn(10); k++ {
			s := c.bytesFrom([]byte("abc"), 1+c.rng.Intn(6))
			t.Add(s)
		}
		full, _ := trieMembers(t) // a first, complete iteration
		for _, m := range strings.Split(strings.TrimPrefix(full, "e:"), ",") {
			members[m] = true
		}
		oracle := ""
		st := safe(func() string {
			outer := map[string]int{}
			t.ForEach(func(b []byte) bool {
				outer[hx(b)]++
				inner := map[string]int{}
				stopAt := 1 + len(outer)%3
				t.ForEach(func(b2 []byte) bool {
					inner[hx(b2)]++
					return len(inner) < stopAt+len(members) // every third inner run stops early
				})
				for k, v := range inner {
					if v != 1 || !members[k] {
						oracle = "an iteration started inside another iteration's callback reports a wrong or repeated member"
					}
				}
				return len(outer) <= 4*len(members)
			})
			for k := range members {
				if outer[k] != 1 && oracle == "" {
					oracle = fmt.Sprintf("with iterations of the same trie running inside its callback, the outer ForEach reports member %s %d times", k, outer[k])
				}
			}
			if len(outer) != len(members) && oracle == "" {
				oracle = fmt.Sprintf("with iterations of the same trie running inside its callback, the outer ForEach reports %d members of %d", len(outer), len(members))
			}
			return ""
		})
		if st == "PANIC" && oracle == "" {
			oracle = "nested ForEach on one trie panicked"
		}
		c.add(Case{Kind: "trie-nested-foreach", Nontrivial: true, Oracle: oracle, Note: fmt.Sprintf("ForEach inside ForEach on a trie with %d members, after a complete ForEach", len(members))})
	}
}

// canonRetainedHuge (C12): every item yielded for a sequence with more than 2^20 windows is KEPT (not copied) and
// checked after the loop: what was handed over stays what it was.
func canonRetainedHuge(c *Ctx) {
	n, k := 1<<20+1500, 21
	s := c.bytesFrom([]byte("ACGT"), n)
	comp := func(b byte) byte { return "TGCA"[strings.IndexByte("ACGT", b)] }
	var items [][]byte
	st := safe(func() string {
		for x := range sequtil.CanonicalSubsequences(s, k) {
			items = append(items, x)
		}
		return ""
	})
	oracle := ""
	if st == "PANIC" {
		oracle = "CanonicalSubsequences panicked on a long sequence"
	} else if len(items) != n-k+1 {
		oracle = fmt.Sprintf("CanonicalSubsequences over %d bases yields %d items, want %d", n, len(items), n-k+1)
	} else {
		rc := make([]byte, k)
		for i, it := range items {
			w := s[i : i+k]
			for j := 0; j < k; j++ {
				rc[j] = comp(w[k-1-j])
			}
			want := w
			if bytes.Compare(rc, w) < 0 {
				want = rc
			}
			if !bytes.Equal(it, want) {
				oracle = fmt.Sprintf("CanonicalSubsequences over %d bases: item %d, looked at after the loop, is %q, the smaller of the window and its reverse complement is %q", n, i, it, want)
				break
			}
		}
	}
	c.add(Case{Kind: "canon-retained-huge", Nontrivial: true, Oracle: oracle, Note: fmt.Sprintf("CanonicalSubsequences(%d bases, %d): all items kept and checked after the loop", n, k)})
}

// limitByteWriter is a limitWriter that also offers WriteByte and WriteString (as *bufio.Writer, *bytes.Buffer and
// *os.File-backed writers do): code that special-cases such destinations must report their failures all the same.
type limitByteWriter struct{ limitWriter }

func (w *limitByteWriter) WriteByte(b byte) error {
	_, err := w.Write([]byte{b})
	return err
}
func (w *limitByteWriter) WriteString(s string) (int, error) { return w.Write([]byte(s)) }

// bigRecordWriteFaults (C07): records of more than 1 MiB (fasta, fastq, sam, bed, newick) written to destinations that
// fail after k bytes, k sampled near the start, the middle and densely in the last 16 KiB and the last bytes; the
// same for ordinary records with destinations that also implement io.ByteWriter / io.StringWriter, every k.
func bigRecordWriteFaults(c *Ctx) {
	big := bytes.Repeat([]byte("ACGT"), (1<<20)/4+1500)
	type rec struct {
		name  string
		write func(io.Writer) error
	}
	recs := []rec{
		{"fasta", (&fasta.Fasta{Name: []byte("big"), Sequence: big}).Write},
		{"fastq", (&fastq.Fastq{Name: []byte("big"), Sequence: big, Quals: bytes.Repeat([]byte("I"), len(big))}).Write},
		{"bed", (&bed.BED{N: 4, Chrom: "c", ChromStart: 1, ChromEnd: 2, Name: string(big)}).Write},
		{"newick", tree1("r", tree1(string(big)), tree1("b")).Write},
	}
	sr := plainSam("big")
	sr.Seq = string(big)
	recs = append(recs, rec{"sam", sr.Write})
	for _, r := range recs {
		var full bytes.Buffer
		if err := r.write(&full); err != nil {
			c.add(Case{Kind: "big-write-fault", Nontrivial: true, Oracle: r.name + ": Write of a record of more than 1 MiB into a bytes.Buffer failed: " + err.Error()})
			continue
		}
		total := full.Len()
		ks := []int{0, 1, 2, 4095, 4096, 65535, 65536, total / 2, total - 70000, total - 65537, total - 65536}
		for k := total - 16500; k < total; k += 509 {
			ks = append(ks, k)
		}
		for k := total - 40; k <= total; k++ {
			ks = append(ks, k)
		}
		bad := ""
		for _, k := range ks {
			if k < 0 || bad != "" {
				continue
			}
			for _, byteW := range []bool{false, true} {
				var err error
				var got []byte
				st := safe(func() string {
					if byteW {
						w := &limitByteWriter{limitWriter{k: k}}
						err = r.write(w)
						got = w.got
					} else {
						w := &limitWriter{k: k}
						err = r.write(w)
						got = w.got
					}
					return ""
				})
				switch {
				case st == "PANIC":
					bad = fmt.Sprintf("Write panicked when the destination failed after %d of %d bytes", k, total)
				case k < total && err == nil:
					bad = fmt.Sprintf("Write returned nil although the destination (ByteWriter=%v) failed after %d of %d bytes", byteW, k, total)
				case k >= total && err != nil:
					bad = fmt.Sprintf("Write returned an error although the destination accepted all %d bytes", total)
				case !bytes.HasPrefix(full.Bytes(), got):
					bad = fmt.Sprintf("the bytes accepted before the failure at %d are not a prefix of the record's text", k)
				}
			}
		}
		if bad != "" {
			bad = r.name + ", a record of more than 1 MiB: " + bad
		}
		c.add(Case{Kind: "big-write-fault", Nontrivial: true, Oracle: bad, Note: fmt.Sprintf("%s.Write of a %d-byte record to destinations failing after %d sampled offsets", r.name, total, len(ks))})
	}
	// ordinary records, destinations with WriteByte/WriteString, every k
	ws := recordWriters(c)
	for _, w := range ws {
		if strings.Contains(w.name, "-long") || strings.Contains(w.name, "-exact") {
			continue
		}
		for i := 0; i < 3; i++ {
			write, full := w.mk()
			bad := ""
			for k := 0; k <= len(full)+1 && bad == ""; k++ {
				lw := &limitByteWriter{limitWriter{k: k}}
				var err error
				st := safe(func() string { err = write(lw); return "" })
				switch {
				case st == "PANIC":
					bad = fmt.Sprintf("Write panicked (destination with WriteByte/WriteString failing after %d bytes)", k)
				case k < len(full) && err == nil:
					bad = fmt.Sprintf("Write returned nil although the destination (which also has WriteByte/WriteString) failed after %d of %d bytes", k, len(full))
				case k >= len(full) && err != nil:
					bad = "Write returned an error although everything was accepted"
				case !bytes.HasPrefix(full, lw.got):
					bad = "the bytes accepted before the failure are not a prefix of the record's text"
				}
			}
			if bad != "" {
				bad = w.name + ": " + bad
			}
			c.add(Case{Kind: "bytewriter-fault", Nontrivial: true, Oracle: bad, Note: fmt.Sprintf("%s.Write to a destination with WriteByte/WriteString failing after every k <= %d", w.name, len(full)+1)})
		}
	}
}
