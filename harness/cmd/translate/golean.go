// golean: a small Go -> Lean 4 source translator (translate -go <repo> <out>).
//
// It type-checks one package of /repo from source (go/types, source importer,
// no network) and translates a fixed list of its functions, statement by
// statement, into Lean `do` blocks in the Option monad over the vocabulary of
// Bio/Model/GoRt.lean (`none` = the Go code panics).  Go `int` -> Int,
// `byte` -> UInt8, slices/arrays/strings -> List, maps -> association lists,
// package-level variables -> explicit parameters `g_<name>`, `init` functions
// -> closed terms returning the variables they build, an `iter.Seq` closure ->
// a function of the consumer `yield` returning the log of yielded items.
//
// Only the statement and expression shapes listed here are understood; anything
// else makes that ONE function "not found": `def <f>_Found : Bool := false`
// plus a placeholder of the right type, and the theorems about it (which are
// all guarded by `<f>_Found = true`) then say nothing.  The translator is in
// the trusted base; its output is plain text that can be read against the Go
// source, and the compiled model driver is compared with the running code.
package main

import (
	"bytes"
	"fmt"
	"go/ast"
	"go/constant"
	"go/importer"
	"go/parser"
	"go/token"
	"go/types"
	"math"
	"os"
	"path/filepath"
	"sort"
	"strconv"
	"strings"
)

type gl struct {
	fset  *token.FileSet
	info  *types.Info
	pkg   *types.Package
	files []*ast.File
	// per function
	fail    string
	globals map[string]bool // package-level vars referenced (by Go name)
	mut     map[types.Object]bool
	yieldT  string // Lean element type when translating an iter.Seq closure
	curFunc string
	lits    []string
	// reader methods (see readerMethod)
	rdKind    string                      // "" | "bytes" | "lines"
	rdRecv    string                      // receiver name
	rdField   string                      // receiver field holding the bufio.Reader / bufio.Scanner
	rdLabel   string                      // label of the ReadByte loop
	rdState   string                      // Lean term for the reader state handed back with every result
	structLoc map[types.Object][]string   // struct-pointer locals -> field names
	nScan     int
	rdLoopVar string
	wrParam   string // name of the io.Writer parameter when translating a Write method
	declared   map[string]bool   // local names declared so far in the function being translated
	opaque     map[string]string // function name -> parameter standing for its result
	opaqueUsed map[string]bool
	iterRead  string // translated read function used by the iter method being translated
	iterRec   string
	funcs   map[string]*glFunc
	order   []string
	// extensions: floats as integers (align), object-based names, fuel for `for cond {}` loops
	floatInt    bool                    // float64 is translated as Int (declared abstraction, see DESIGN §15.2)
	names       map[types.Object]string // Lean name of each local object
	takenMut    map[string]bool         // Lean names already bound by a `let mut` in this function
	nTmp        int
	usesFuel    bool
	loops       []string // enclosing breakable statements: "for", "switch", "while:<k>"
	nWhile      int
	results     []*types.Var // result variables of the function being translated (plain mode)
	namedRes    bool
	methodNames map[string]string // "<RecvType>.<method>" -> translated name
	opaqueT     map[string]string // Go named struct type (used through pointers, never written) -> Lean type
	opaqueF     map[string]string // "<Type>.<Field>" -> Lean accessor function
	iterFuncs   map[string]bool   // translated names of iter.Seq functions (they take the consumer `yield` last)
	// heap mode (trie): values of type *heapT live in an explicit heap, a list of their single (map) field;
	// a pointer is an index into it, nil is -1; functions that write the heap return it next to their result
	heapT       string
	heapWr      bool            // the function being translated writes the heap
	heapFuncs   map[string]bool // translated name -> writes the heap
	recT        map[string]bool     // named struct types handled as records (Option tuple behind a pointer)
	extFuncs    map[string]extFunc  // "pkg.Func" -> parameter
	extUsed     map[string]bool
	recLocal    map[types.Object]bool // struct-pointer locals holding a record under construction
	retSuffix   []string              // receiver fields handed back with every result
	u64AsInt    bool
	byteRd      bool // *bufio.Reader is used through ReadByte/UnreadByte: the abstract ByteRd
	// external objects (mash): a parameter of an external pointer type is an abstract state `σ`; its methods are
	// parameters `<name>_<Method> : σ → args → σ`; the state is handed back as the result.  A local created by an
	// external constructor listed in hashers is a hash.Hash64: the bytes written since Reset, summed by a parameter
	extObjs     map[string]bool   // parameter names
	extObjOps   map[string]string // "<name>_<Method>" -> Lean type of the operation
	extObjUsed  map[string]bool
	hashUsed    map[string]bool
	hashers     map[string]string // "pkg.Constructor" -> hash parameter name
	hashLocals  map[types.Object]string // local hasher -> Lean term of its seed argument
	hashKind    map[types.Object]string // local hasher -> hash parameter name
	xGlobals    map[string]bool // globals of other packages needed by cross-package calls (become parameters)
	xIter       map[string][2]string // "pkg.Func" of a translated iter.Seq function of another package -> {lean name, extra leading args}
	// a struct type whose pointers never leave the function (trie.forEachStep): its cells live in a function-LOCAL
	// heap `lheap` (declared at the top of the function), a pointer is an index into it
	lheapT      string
	yieldName   string // name of the consumer callback ("yield" in iter.Seq closures, the func parameter otherwise)
	anyLean     string            // Lean sum type standing for `any` values (sam: Sam.TagVal), "" = not translated
	anyCtor     map[string]string // static Go type of a value stored into an `any` -> constructor
	extVocab    map[string]string // "pkg.Func" of another module with a GoRt counterpart (its semantics is assumed)
	outParams   bool              // parameters of type []*int are lists of pointee values, copied in and handed back
	bufLocals   map[types.Object]bool // locals holding bufio.NewReader(r): the reader state itself
	extPure     map[string]string // "pkg.Func" with a pure GoRt/model counterpart (assumed semantics, trusted base)
	funcAlias   map[string]string // Go function name -> translated name when they differ
	ioReaderBuf bool // an io.Reader parameter wrapped by bufio.NewReader is the abstract BufRd
	ioReaderScan bool // an io.Reader parameter wrapped by bufio.NewScanner (default line splitter) is the abstract ScanRd
	scanObj     types.Object            // the local holding bufio.NewScanner(r)
	scanTok     string                  // inside `for sc.Scan() {}`: the Lean name of the current token
	wrMethods   map[string]string       // "Type.Method" of a translated writer method (io.Writer = Wr) -> its Lean name
	usesRoom    bool                    // the function hands a *bytes.Buffer to a translated writer method: parameter `room`
	ioReaderSrc string                  // "bytes"/"lines": an io.Reader is the pair (remaining bytes / line tokens, ending) of the fasta/fastq readers
	closureLast ast.Stmt                // last statement of the iter.Seq2 closure being translated
	inRangeFunc bool                    // inside the body of `for k, v := range <translated iterator>(…)`
	curBody     *ast.BlockStmt          // body of the function being translated (funcOrMethod)
	scanLoops   int                     // `for sc.Scan()` loops translated in the current function
	reLocals    map[types.Object]string // locals holding regexp.MustCompile(<constant>): the pattern
	yield2      bool // the iter.Seq2 closure being translated yields pairs
	yield2T     [2]types.Type
	runeAsByte  map[types.Object]bool // rune loop variables read as bytes (see rangeStmt)
	selfExts    []string // ext parameters a self-recursive function is declared to take (fixed up front)
	selfRec     bool   // the function being translated calls itself: its body is wrapped in a match on `fuel`
	floatLean   string // Lean type standing for float64 (newick: distances are the model's opaque `Dist`), zero = none
	heapUse     bool   // the function being translated touches the heap (reads count)
	pendLabel   string
	synthRhs    map[ast.Expr]string
}

// isAccum: *strings.Builder, *bytes.Buffer, bytes.Buffer -- used as append-only byte accumulators
// (WriteByte, WriteString, Write, Len, String, Bytes, Reset, Grow); kept as the bytes written so far
func isAccum(t types.Type) bool {
	if p, ok := t.(*types.Pointer); ok {
		t = p.Elem()
	}
	n, ok := t.(*types.Named)
	if !ok || n.Obj().Pkg() == nil {
		return false
	}
	k := n.Obj().Pkg().Path() + "." + n.Obj().Name()
	return k == "strings.Builder" || k == "bytes.Buffer"
}

// accumVar: the Lean variable behind an accumulator expression (a local, or a field of a struct-pointer local / receiver)
func (g *gl) accumVar(e ast.Expr) (string, bool) {
	tv, ok := g.info.Types[e]
	if !ok || tv.Type == nil || !isAccum(tv.Type) {
		return "", false
	}
	switch x := e.(type) {
	case *ast.Ident:
		return g.lvName(x), true
	case *ast.SelectorExpr:
		if id, ok := x.X.(*ast.Ident); ok && g.structLoc[g.objOf(id)] != nil {
			return id.Name + "_" + x.Sel.Name, true
		}
	}
	return "", false
}

// accumCall: a call (as a statement) of a translated method of an opaque type that has accumulator parameters and
// no results of its own; returns the call text and the caller's variables that receive the accumulators back
func (g *gl) accumCall(c *ast.CallExpr) (string, []string, bool) {
	sel, ok := c.Fun.(*ast.SelectorExpr)
	if !ok {
		return "", nil, false
	}
	fn, ok := g.info.Uses[sel.Sel].(*types.Func)
	if !ok || fn.Pkg() != g.pkg {
		return "", nil, false
	}
	sig := fn.Type().(*types.Signature)
	if sig.Recv() == nil || sig.Results().Len() != 0 {
		return "", nil, false
	}
	on := g.opaqueName(sig.Recv().Type())
	if on == "" {
		return "", nil, false
	}
	var accs []string
	for _, a := range c.Args {
		if v, ok := g.accumVar(a); ok {
			accs = append(accs, v)
		}
	}
	if len(accs) == 0 {
		return "", nil, false
	}
	e := g.call(c)
	return e.text, accs, true
}

// accumStmt: a statement-level method call on an accumulator
func (g *gl) accumStmt(w *wr, c *ast.CallExpr) bool {
	sel, ok := c.Fun.(*ast.SelectorExpr)
	if !ok {
		return false
	}
	v, ok := g.accumVar(sel.X)
	if !ok {
		return false
	}
	switch {
	case sel.Sel.Name == "WriteByte" && len(c.Args) == 1:
		w.line(v + " := " + v + " ++ [" + g.expr(c.Args[0]).opnd() + "]")
	case (sel.Sel.Name == "WriteString" || sel.Sel.Name == "Write") && len(c.Args) == 1:
		w.line(v + " := " + v + " ++ " + g.expr(c.Args[0]).arg())
	case sel.Sel.Name == "Reset" && len(c.Args) == 0:
		w.line(v + " := []")
	case sel.Sel.Name == "Grow" && len(c.Args) == 1:
		if !g.nonNegative(c.Args[0]) {
			g.die(c, "Grow by an amount that may be negative (it panics then)")
		}
	default:
		g.die(c, "accumulator method "+sel.Sel.Name)
	}
	return true
}

// yieldPair: the pair handed to an iter.Seq2 consumer (nil read at the parameter's type)
func (g *gl) yieldPair(c *ast.CallExpr) string {
	var parts []string
	for i, a := range c.Args {
		e := g.expr(a)
		if isNilIdent(a) {
			if n := g.nilOf(g.yield2T[i]); n != "" {
				e = atomE(n)
			}
		}
		parts = append(parts, e.opnd())
	}
	return "(" + strings.Join(parts, ", ") + ")"
}

// isStrPtr: *string (a pointer to a local string that is only read afterwards: Option of the string)
func isStrPtr(t types.Type) bool {
	p, ok := t.(*types.Pointer)
	if !ok {
		return false
	}
	b, ok := p.Elem().Underlying().(*types.Basic)
	return ok && b.Kind() == types.String
}

// isOutList: []*int with outParams on (copy-in / copy-out of the pointees; sound because the call sites pass the
// addresses of distinct variables that nothing else touches during the call)
func (g *gl) isOutList(t types.Type) bool {
	if !g.outParams {
		return false
	}
	sl, ok := t.Underlying().(*types.Slice)
	if !ok {
		return false
	}
	p, ok := sl.Elem().(*types.Pointer)
	return ok && isInt(p.Elem()) && !isFloat(p.Elem())
}

// toAny: the value text injected into the `any` sum type according to the static type of e
func (g *gl) toAny(e ast.Expr, text string) string {
	t := g.typeOf(e)
	key := ""
	switch {
	case isByte(t):
		key = "byte"
	case isFloat(t):
		key = "float64"
	case isInt(t):
		key = "int"
	default:
		if b, ok := t.Underlying().(*types.Basic); ok && b.Kind() == types.String {
			key = "string"
		} else if sl, ok := t.Underlying().(*types.Slice); ok && isByte(sl.Elem()) {
			key = "[]byte"
		}
	}
	c, ok := g.anyCtor[key]
	if !ok {
		g.die(e, "value of type "+t.String()+" stored into an `any`")
	}
	return "(" + c + " " + text + ")"
}

// addrTarget: the variable behind &x, &s.f (s a record under construction) or (*T)(&s.f); "" if it is none of these
func (g *gl) addrTarget(e ast.Expr) string {
	for {
		switch x := e.(type) {
		case *ast.ParenExpr:
			e = x.X
			continue
		case *ast.CallExpr: // a pointer conversion (*int)(&s.Flag)
			if tv, ok := g.info.Types[x.Fun]; ok && tv.IsType() && len(x.Args) == 1 {
				if p, ok := tv.Type.(*types.Pointer); ok && isInt(p.Elem()) {
					e = x.Args[0]
					continue
				}
			}
			return ""
		case *ast.UnaryExpr:
			if x.Op != token.AND {
				return ""
			}
			switch y := x.X.(type) {
			case *ast.Ident:
				if !isInt(g.typeOf(y)) {
					return ""
				}
				g.mut[g.objOf(y)] = true
				return g.lvName(y)
			case *ast.SelectorExpr:
				if id, ok := y.X.(*ast.Ident); ok && g.structLoc[g.objOf(id)] != nil && isInt(g.typeOf(y)) {
					return id.Name + "_" + y.Sel.Name
				}
			}
			return ""
		}
		return ""
	}
}

// asciiCompareOnly: every use of o in body is an operand of == / != whose other operand is a constant below 0x80
func (g *gl) asciiCompareOnly(body ast.Node, o types.Object) bool {
	ok := true
	okUses := map[*ast.Ident]bool{}
	ast.Inspect(body, func(n ast.Node) bool {
		if b, isB := n.(*ast.BinaryExpr); isB && (b.Op == token.EQL || b.Op == token.NEQ) {
			for _, pair := range [][2]ast.Expr{{b.X, b.Y}, {b.Y, b.X}} {
				if id, isId := pair[0].(*ast.Ident); isId && g.info.Uses[id] == o {
					if tv, has := g.info.Types[pair[1]]; has && tv.Value != nil && tv.Value.Kind() == constant.Int {
						if c, exact := constant.Int64Val(tv.Value); exact && c >= 0 && c < 0x80 {
							okUses[id] = true
						}
					}
				}
			}
		}
		return true
	})
	ast.Inspect(body, func(n ast.Node) bool {
		if id, isId := n.(*ast.Ident); isId && g.info.Uses[id] == o && !okUses[id] {
			ok = false
		}
		return true
	})
	return ok
}

// isRecPtr: t is *T for a record type T
func (g *gl) isRecPtr(t types.Type) bool {
	p, ok := t.(*types.Pointer)
	if !ok {
		return false
	}
	n, ok := p.Elem().(*types.Named)
	return ok && n.Obj().Pkg() == g.pkg && g.recT[n.Obj().Name()]
}

// extCall: a call pkg.F(args) of a function kept as a parameter
func (g *gl) extCall(c *ast.CallExpr) (string, bool) {
	sel, ok := c.Fun.(*ast.SelectorExpr)
	if !ok {
		return "", false
	}
	id, ok := sel.X.(*ast.Ident)
	if !ok {
		return "", false
	}
	pn, ok := g.info.Uses[id].(*types.PkgName)
	if !ok {
		return "", false
	}
	key := pn.Imported().Path() + "." + sel.Sel.Name
	ef, ok := g.extFuncs[key]
	if !ok {
		return "", false
	}
	g.extUsed[key] = true
	parts := []string{ef.param}
	for _, a := range c.Args {
		parts = append(parts, g.expr(a).arg())
	}
	return strings.Join(parts, " "), true
}

// records mode (bed read side): *recT values are Option tuples built in a struct-pointer local; calls of
// stdlib functions listed in extFuncs are parameters of the translated function (uninterpreted: their assumed
// behaviour is a hypothesis of the theorems); *bufio.Reader is the abstract BufRd
type extFunc struct {
	param, typ string
}

const heapLean = "List (List (UInt8 × Int))"

// isLHeapPtr: t is *lheapT
func (g *gl) isLHeapPtr(t types.Type) bool {
	if g.lheapT == "" || t == nil {
		return false
	}
	p, ok := t.(*types.Pointer)
	if !ok {
		return false
	}
	n, ok := p.Elem().(*types.Named)
	return ok && n.Obj().Pkg() == g.pkg && n.Obj().Name() == g.lheapT
}

func (g *gl) lheapStruct() *types.Struct {
	return g.pkg.Scope().Lookup(g.lheapT).Type().Underlying().(*types.Struct)
}

// lheapField: e is x.f for x of type *lheapT; returns x and the field's index
func (g *gl) lheapField(e ast.Expr) (ast.Expr, int, bool) {
	se, ok := e.(*ast.SelectorExpr)
	if !ok {
		return nil, 0, false
	}
	tv, ok := g.info.Types[se.X]
	if !ok || !g.isLHeapPtr(tv.Type) {
		return nil, 0, false
	}
	st := g.lheapStruct()
	for k := 0; k < st.NumFields(); k++ {
		if st.Field(k).Name() == se.Sel.Name {
			return se.X, k, true
		}
	}
	return nil, 0, false
}

// lheapAlloc: the allocation of a cell for the composite literal cl (positional or keyed); returns the pointer
func (g *gl) lheapAlloc(w *wr, cl *ast.CompositeLit) string {
	st := g.lheapStruct()
	cell := g.zero(st)
	if len(cl.Elts) > 0 {
		// the literal's own type is the struct: reuse the struct-literal translation
		parts := make([]string, st.NumFields())
		for k := range parts {
			parts[k] = bareZero(g.zero(st.Field(k).Type()))
		}
		for i, el := range cl.Elts {
			if kv, ok := el.(*ast.KeyValueExpr); ok {
				for k := 0; k < st.NumFields(); k++ {
					if st.Field(k).Name() == kv.Key.(*ast.Ident).Name {
						parts[k] = g.expr(kv.Value).opnd()
					}
				}
			} else {
				parts[i] = g.expr(el).opnd()
			}
		}
		cell = "(" + strings.Join(parts, ", ") + ")"
	}
	w.line("lheap := lheap ++ [" + cell + "]")
	tp := g.tmp()
	w.line("let " + tp + " : Int := (len lheap) - 1")
	return tp
}

// usesLHeap: does the function mention the local-heap type at all?
func (g *gl) usesLHeap(fd *ast.FuncDecl) bool {
	if g.lheapT == "" {
		return false
	}
	use := false
	ast.Inspect(fd, func(n ast.Node) bool {
		if e, ok := n.(ast.Expr); ok {
			if tv, ok := g.info.Types[e]; ok && tv.Type != nil {
				if g.isLHeapPtr(tv.Type) {
					use = true
				}
				if sl, ok := tv.Type.Underlying().(*types.Slice); ok && g.isLHeapPtr(sl.Elem()) {
					use = true
				}
			}
		}
		return true
	})
	return use
}

// heapStruct: the struct type of heap cells
func (g *gl) heapStruct() *types.Struct {
	o := g.pkg.Scope().Lookup(g.heapT)
	if o == nil {
		g.die(nil, "heap type not found")
	}
	st, ok := o.Type().Underlying().(*types.Struct)
	if !ok {
		g.die(nil, "heap type is not a struct")
	}
	return st
}

// heapLeanT: the Lean type of the heap (a list of cells; a cell is the tuple of the struct's fields)
func (g *gl) heapLeanT() string {
	return "List " + paren(g.leanType(g.heapStruct()))
}

// heapUses: does the body touch the heap at all (field reads included), or call a function that does?
func (g *gl) heapUses(fd *ast.FuncDecl) bool {
	use := false
	ast.Inspect(fd, func(n ast.Node) bool {
		switch v := n.(type) {
		case *ast.SelectorExpr:
			if _, ok := g.heapField(v); ok {
				use = true
			}
		case *ast.UnaryExpr:
			if v.Op == token.AND {
				if tv, ok := g.info.Types[v]; ok && g.isHeapPtr(tv.Type) {
					use = true
				}
			}
		case *ast.CompositeLit:
			if tv, ok := g.info.Types[v]; ok && tv.Type != nil {
				if sl, ok := tv.Type.Underlying().(*types.Slice); ok && g.isHeapPtr(sl.Elem()) && len(v.Elts) > 0 {
					use = true
				}
			}
		case *ast.CallExpr:
			var fn *types.Func
			switch f := v.Fun.(type) {
			case *ast.Ident:
				fn, _ = g.info.Uses[f].(*types.Func)
			case *ast.SelectorExpr:
				fn, _ = g.info.Uses[f.Sel].(*types.Func)
			}
			if fn != nil && fn.Pkg() == g.pkg {
				if _, known := g.heapFuncs[fn.Name()]; known {
					use = true
				}
				if a, ok := g.funcAlias[fn.Name()]; ok {
					if _, known := g.heapFuncs[a]; known {
						use = true
					}
				}
				if ln, ok := g.methodNames[g.heapT+"."+fn.Name()]; ok {
					if _, known := g.heapFuncs[ln]; known {
						use = true
					}
				}
				if ln, ok := g.methodLean(fn); ok {
					if _, known := g.heapFuncs[ln]; known {
						use = true
					}
				}
			}
		}
		return true
	})
	return use
}

// methodLean: the translated name of a method of this package, looked up by the name of its receiver type
func (g *gl) methodLean(fn *types.Func) (string, bool) {
	sig, ok := fn.Type().(*types.Signature)
	if !ok || sig.Recv() == nil {
		return "", false
	}
	rt := sig.Recv().Type()
	if p, ok := rt.(*types.Pointer); ok {
		rt = p.Elem()
	}
	n, ok := rt.(*types.Named)
	if !ok {
		return "", false
	}
	ln, ok := g.methodNames[n.Obj().Name()+"."+fn.Name()]
	return ln, ok
}

// isHeapPtr: t is *heapT
func (g *gl) isHeapPtr(t types.Type) bool {
	if g.heapT == "" || t == nil {
		return false
	}
	p, ok := t.(*types.Pointer)
	if !ok {
		return false
	}
	n, ok := p.Elem().(*types.Named)
	return ok && n.Obj().Pkg() == g.pkg && n.Obj().Name() == g.heapT
}

// heapField: e is x.<the field> for x of type *heapT; returns x
func (g *gl) heapField(e ast.Expr) (ast.Expr, bool) {
	se, ok := e.(*ast.SelectorExpr)
	if !ok {
		return nil, false
	}
	tv, ok := g.info.Types[se.X]
	if !ok || !g.isHeapPtr(tv.Type) {
		return nil, false
	}
	return se.X, true
}

// heapWrites: does the body write the heap (x.m[k] = …, delete(x.m, …), &heapT{…}, a call of a writing function)?
func (g *gl) heapWrites(body ast.Node) bool {
	wr := false
	ast.Inspect(body, func(n ast.Node) bool {
		switch v := n.(type) {
		case *ast.AssignStmt:
			for _, l := range v.Lhs {
				if ie, ok := l.(*ast.IndexExpr); ok {
					if _, ok := g.heapField(ie.X); ok {
						wr = true
					}
				}
				if _, ok := g.heapField(l); ok {
					wr = true
				}
			}
		case *ast.CompositeLit:
			if tv, ok := g.info.Types[v]; ok && tv.Type != nil {
				if sl, ok := tv.Type.Underlying().(*types.Slice); ok && g.isHeapPtr(sl.Elem()) && len(v.Elts) > 0 {
					wr = true
				}
			}
		case *ast.UnaryExpr:
			if cl, ok := v.X.(*ast.CompositeLit); ok && v.Op == token.AND && g.isHeapPtr(g.typeOf(v)) {
				_ = cl
				wr = true
			}
		case *ast.CallExpr:
			if id, ok := v.Fun.(*ast.Ident); ok {
				if id.Name == "delete" && len(v.Args) == 2 {
					if _, ok := g.heapField(v.Args[0]); ok {
						wr = true
					}
				}
				if fn, ok := g.info.Uses[id].(*types.Func); ok && fn.Pkg() == g.pkg && (g.heapFuncs[fn.Name()] || g.heapFuncs[g.funcAlias[fn.Name()]]) {
					wr = true
				}
			}
			if sel, ok := v.Fun.(*ast.SelectorExpr); ok {
				if fn, ok := g.info.Uses[sel.Sel].(*types.Func); ok && fn.Pkg() == g.pkg {
					if ln, ok := g.methodNames[g.heapT+"."+fn.Name()]; ok && g.heapFuncs[ln] {
						wr = true
					}
					if ln, ok := g.methodLean(fn); ok && g.heapFuncs[ln] {
						wr = true
					}
				}
			}
		}
		return true
	})
	return wr
}

// opaqueName: the name of the opaque named type behind t (or behind *t), "" if there is none
func (g *gl) opaqueName(t types.Type) string {
	if p, ok := t.(*types.Pointer); ok {
		t = p.Elem()
	}
	if n, ok := t.(*types.Named); ok && n.Obj().Pkg() == g.pkg {
		if _, ok := g.opaqueT[n.Obj().Name()]; ok {
			return n.Obj().Name()
		}
	}
	return ""
}

type glFunc struct {
	itemT     string   // iter.Seq2 closures: the Lean type of the (item, error) pairs handed to the consumer
	outLists  int      // number of trailing out-parameter lists ([]*int), handed back after the results
	accParams []string // names of accumulator parameters (*bytes.Buffer …): handed back as (additional) results
	recvState []string // receiver fields it takes as parameters and hands back after its results (records mode)
	exts    []string // stdlib functions it (transitively) takes as parameters, sorted
	fuel    bool // takes a leading `fuel : Nat` parameter
	name    string
	globals []string // transitive, sorted in first-use order
	text    string
	found   bool
	sig     string // placeholder text
}

type bail struct{ why string }

func (g *gl) die(n ast.Node, why string) {
	pos := ""
	if n != nil {
		pos = g.fset.Position(n.Pos()).String() + ": "
	}
	panic(bail{pos + why})
}

// ---- types ---------------------------------------------------------------

func (g *gl) leanType(t types.Type) string {
	if on := g.opaqueName(t); on != "" {
		return g.opaqueT[on]
	}
	if g.isHeapPtr(t) || g.isLHeapPtr(t) {
		return "Int"
	}
	if g.isRecPtr(t) {
		return "Option " + paren(g.leanType(t.(*types.Pointer).Elem()))
	}
	if p, ok := t.(*types.Pointer); ok {
		if n, ok := p.Elem().(*types.Named); ok && n.Obj().Pkg() != nil && n.Obj().Pkg().Path() == "bufio" && n.Obj().Name() == "Reader" {
			if g.byteRd {
				return "ByteRd"
			}
			return "BufRd"
		}
	}
	if isAccum(t) {
		return "List UInt8"
	}
	if isStrPtr(t) {
		return "Option (List UInt8)"
	}
	if g.ioReaderSrc != "" {
		isRd := false
		if p, ok := t.(*types.Pointer); ok {
			if n, ok := p.Elem().(*types.Named); ok && n.Obj().Pkg() != nil && strings.HasSuffix(n.Obj().Pkg().Path(), "gostuff/aio") && n.Obj().Name() == "Reader" {
				isRd = true
			}
		}
		if n, ok := t.(*types.Named); ok && n.Obj().Pkg() != nil && n.Obj().Pkg().Path() == "io" && n.Obj().Name() == "Reader" {
			isRd = true
		}
		if isRd && g.ioReaderSrc == "lines" {
			return "(List (List UInt8) × Ending)"
		}
		if isRd {
			return "(List UInt8 × Ending)"
		}
	}
	if g.ioReaderBuf {
		if p, ok := t.(*types.Pointer); ok {
			if n, ok := p.Elem().(*types.Named); ok && n.Obj().Pkg() != nil && strings.HasSuffix(n.Obj().Pkg().Path(), "gostuff/aio") && n.Obj().Name() == "Reader" {
				// an opened file, handed on as an io.Reader: the same abstract reader state
				if g.byteRd {
					return "ByteRd"
				}
				return "BufRd"
			}
		}
		if n, ok := t.(*types.Named); ok && n.Obj().Pkg() != nil && n.Obj().Pkg().Path() == "io" && n.Obj().Name() == "Reader" {
			if g.byteRd {
				return "ByteRd"
			}
			return "BufRd"
		}
	}
	if g.ioReaderScan {
		if n, ok := t.(*types.Named); ok && n.Obj().Pkg() != nil && n.Obj().Pkg().Path() == "io" && n.Obj().Name() == "Reader" {
			return "ScanRd"
		}
	}
	if it, ok := t.Underlying().(*types.Interface); ok && it.NumMethods() == 0 && g.anyLean != "" {
		return g.anyLean
	}
	if g.isOutList(t) {
		return "List Int"
	}
	if b, ok := t.Underlying().(*types.Basic); ok && g.extObjs != nil {
		switch b.Kind() {
		case types.Uint32:
			return "UInt32"
		case types.Uint64:
			return "UInt64"
		}
	}
	switch u := t.Underlying().(type) {
	case *types.Basic:
		switch u.Kind() {
		case types.Uint64:
			if g.u64AsInt {
				return "Int"
			}
		case types.Int, types.UntypedInt, types.UntypedRune:
			return "Int"
		case types.Uint8:
			return "UInt8"
		case types.Bool, types.UntypedBool:
			return "Bool"
		case types.String:
			return "List UInt8"
		case types.Float64, types.UntypedFloat:
			if g.floatInt {
				return "Int"
			}
			if g.floatLean != "" {
				return g.floatLean
			}
		}
	case *types.Slice:
		return "List " + paren(g.leanType(u.Elem()))
	case *types.Array:
		return "List " + paren(g.leanType(u.Elem()))
	case *types.Map:
		if isEmptyStruct(u.Elem()) { // a set: kept as an ascending duplicate-free list of its keys
			return "List " + paren(g.leanType(u.Key()))
		}
		return "List (" + g.leanType(u.Key()) + " × " + g.leanType(u.Elem()) + ")"
	case *types.Struct:
		if u.NumFields() == 0 {
			return "Unit"
		}
		var fs []string
		for i := 0; i < u.NumFields(); i++ {
			fs = append(fs, paren(g.leanType(u.Field(i).Type())))
		}
		if len(fs) == 1 {
			return fs[0]
		}
		return "(" + strings.Join(fs, " × ") + ")"
	case *types.Pointer:
		if st, ok := u.Elem().Underlying().(*types.Struct); ok && st.NumFields() == 1 {
			return g.leanType(st.Field(0).Type()) // *T for a one-field struct T: the field
		}
	}
	if isErr(t) {
		return "GoErr"
	}
	g.die(nil, "type "+t.String())
	return ""
}

func paren(s string) string {
	if strings.ContainsAny(s, " ") && !(strings.HasPrefix(s, "(") && strings.HasSuffix(s, ")")) {
		return "(" + s + ")"
	}
	return s
}

// zero value of a type, as a Lean term (atom or parenthesised)
func (g *gl) zero(t types.Type) string {
	if g.isHeapPtr(t) || g.isLHeapPtr(t) {
		return "(-1 : Int)"
	}
	if isStrPtr(t) {
		return "none"
	}
	if g.isRecPtr(t) {
		return "none"
	}
	if isErr(t) {
		return "GoErr.nil"
	}
	switch u := t.Underlying().(type) {
	case *types.Basic:
		switch u.Kind() {
		case types.Int:
			return "(0 : Int)"
		case types.Uint8:
			return "(0 : UInt8)"
		case types.Bool:
			return "false"
		case types.String:
			return "[]"
		case types.Float64:
			if g.floatInt {
				return "(0 : Int)"
			}
			if g.floatLean != "" {
				return "none"
			}
		}
	case *types.Slice, *types.Map:
		return "[]"
	case *types.Array:
		return fmt.Sprintf("(List.replicate %d %s)", u.Len(), g.zero(u.Elem()))
	case *types.Struct:
		if u.NumFields() > 0 {
			var zs []string
			for i := 0; i < u.NumFields(); i++ {
				zs = append(zs, bareZero(g.zero(u.Field(i).Type())))
			}
			if len(zs) == 1 {
				return g.zero(u.Field(0).Type())
			}
			return "(" + strings.Join(zs, ", ") + ")"
		}
	}
	g.die(nil, "zero of "+t.String())
	return ""
}

func isEmptyStruct(t types.Type) bool {
	st, ok := t.Underlying().(*types.Struct)
	return ok && st.NumFields() == 0
}

// projection of field k of an n-field struct kept as a right-nested tuple
func tupleProj(x string, k, n int) string {
	if n == 1 {
		return x
	}
	p := x
	for i := 0; i < k; i++ {
		p += ".2"
	}
	if k < n-1 {
		p += ".1"
	}
	return p
}

func isErr(t types.Type) bool {
	n, ok := t.(*types.Named)
	return ok && n.Obj().Pkg() == nil && n.Obj().Name() == "error"
}

// the struct type behind an expression of struct or pointer-to-struct type
func (g *gl) structOf(e ast.Expr) (*types.Struct, bool) {
	tv, ok := g.info.Types[e]
	if !ok || tv.Type == nil {
		return nil, false
	}
	t := tv.Type
	if p, ok := t.Underlying().(*types.Pointer); ok {
		t = p.Elem()
	}
	st, ok := t.Underlying().(*types.Struct)
	return st, ok && st.NumFields() > 0
}

// receiver-field method call r.<field>.<method>() of the reader being translated
func (g *gl) rdCall(e ast.Expr) string {
	c, ok := e.(*ast.CallExpr)
	if !ok || g.rdKind == "" {
		return ""
	}
	sel, ok := c.Fun.(*ast.SelectorExpr)
	if !ok {
		return ""
	}
	inner, ok := sel.X.(*ast.SelectorExpr)
	if !ok {
		return ""
	}
	id, ok := inner.X.(*ast.Ident)
	if !ok || id.Name != g.rdRecv || inner.Sel.Name != g.rdField {
		return ""
	}
	return sel.Sel.Name
}

// bareZero strips the outer parentheses (and a type ascription) of a zero value used after `: T :=`
func bareZero(z string) string {
	if strings.HasPrefix(z, "(List.replicate") {
		return strings.TrimSuffix(strings.TrimPrefix(z, "("), ")")
	}
	if strings.HasPrefix(z, "(") && strings.Contains(z, " : ") {
		return strings.TrimPrefix(z[:strings.Index(z, " : ")], "(")
	}
	return z
}

func isByte(t types.Type) bool {
	b, ok := t.Underlying().(*types.Basic)
	return ok && b.Kind() == types.Uint8
}
func isInt(t types.Type) bool {
	b, ok := t.Underlying().(*types.Basic)
	return ok && (b.Kind() == types.Int || b.Kind() == types.UntypedInt || b.Kind() == types.UntypedRune || (floatAsInt && (b.Kind() == types.Float64 || b.Kind() == types.UntypedFloat)))
}

// floatAsInt mirrors gl.floatInt for the free predicates (set while an align-like package is translated)
var floatAsInt bool

func isFloat(t types.Type) bool {
	b, ok := t.Underlying().(*types.Basic)
	return ok && (b.Kind() == types.Float64 || b.Kind() == types.UntypedFloat || b.Kind() == types.Float32)
}
func isList(t types.Type) bool {
	switch u := t.Underlying().(type) {
	case *types.Slice, *types.Array:
		return true
	case *types.Map:
		return isEmptyStruct(u.Elem())
	case *types.Basic:
		return u.Kind() == types.String
	}
	return false
}

// ---- expressions -----------------------------------------------------------

// ex is a translated expression: text is a pure Lean term unless act is set,
// in which case text is an `Option` action that must be bound.
type ex struct {
	text string
	act  bool
	atom bool // needs no parentheses as an argument
}

func (e ex) arg() string { // as a function argument / operand, bound if an action
	if e.act {
		return "(← " + e.text + ")"
	}
	if e.atom {
		return e.text
	}
	return "(" + e.text + ")"
}
func (e ex) opnd() string { // as an operand of an infix operator
	if e.act {
		return "(← " + e.text + ")"
	}
	return e.text
}

func atomE(s string) ex { return ex{text: s, atom: true} }

// Go identifiers that are reserved words in Lean get a trailing underscore.
var leanKeywords = map[string]bool{"at": true, "from": true, "fun": true, "do": true, "then": true, "end": true, "open": true, "in": true,
	"by": true, "def": true, "theorem": true, "where": true, "instance": true, "structure": true, "class": true, "namespace": true,
	"section": true, "variable": true, "universe": true, "export": true, "mutual": true, "macro": true, "syntax": true, "notation": true,
	"have": true, "show": true, "match": true, "with": true, "let": true, "mut": true, "unless": true, "try": true, "catch": true,
	"finally": true, "local": true, "private": true, "protected": true, "partial": true, "unsafe": true, "opaque": true, "axiom": true,
	"example": true, "abbrev": true, "inductive": true, "Type": true, "Prop": true, "Sort": true, "calc": true, "using": true,
	"suffices": true, "obtain": true, "this": true, "nomatch": true, "nofun": true, "deriving": true, "extends": true, "set_option": true}

// names of the GoRt vocabulary and of the variables the translation introduces itself
var vocabulary = map[string]bool{"idx": true, "setIdx": true, "slice": true, "len": true, "upTo": true, "upToStep": true, "downFrom": true,
	"enum": true, "cmp": true, "u8": true, "shl8": true, "shrInt": true, "andInt": true, "quo": true, "rem": true, "mapGet": true,
	"copyInto": true, "containsAny": true, "replaceAll": true, "scan": true, "scanErr": true, "endErr": true, "wrWrite": true, "itoa": true,
	"nonSpaceFields": true, "isSpaceRe": true, "mapHas": true, "mapSet": true, "mapErase": true, "heap": true, "makeCap": true, "sprintf1": true, "fuel": true, "setInsert": true, "setErase": true, "sortInts": true, "sortByLess": true, "searchGo": true, "min": true, "max": true,
	"none": true, "some": true, "pure": true}

// variables the translation introduces in reader / iterator / writer methods and iter.Seq closures
var synthetic = map[string]bool{"pos": true, "broke": true, "log": true, "cur": true, "lines": true, "ending": true, "outOfFuel": true,
	"fuel": true, "src": true}
var synthActive bool

func ln(name string) string {
	if leanKeywords[name] || vocabulary[name] || (synthActive && synthetic[name]) {
		return name + "_"
	}
	return name
}

// nameOf gives every local object its Lean name: the Go name (sanitised), with a numeric suffix when
// a different object of the same name was already bound by `let mut` in this function (Lean does not
// allow shadowing a mutable variable; Go does)
func (g *gl) nameOf(o types.Object) string {
	if n, ok := g.names[o]; ok {
		return n
	}
	base := ln(o.Name())
	name := base
	for k := 1; g.takenMut[name]; k++ {
		name = fmt.Sprintf("%s_%d", base, k)
	}
	if g.names == nil {
		g.names = map[types.Object]string{}
	}
	g.names[o] = name
	if g.mut[o] {
		g.takenMut[name] = true
	}
	return name
}

func (g *gl) tmp() string {
	g.nTmp++
	return fmt.Sprintf("tmp_%d", g.nTmp)
}

func (g *gl) constant(e ast.Expr) (ex, bool) {
	tv, ok := g.info.Types[e]
	if !ok || tv.Value == nil {
		return ex{}, false
	}
	switch tv.Value.Kind() {
	case constant.Int:
		v, exact := constant.Int64Val(tv.Value)
		if !exact {
			g.die(e, "constant too large")
		}
		if v < 0 {
			return ex{text: fmt.Sprintf("%d", v)}, true
		}
		return atomE(fmt.Sprintf("%d", v)), true
	case constant.Float:
		if g.floatInt {
			if iv := constant.ToInt(tv.Value); iv.Kind() == constant.Int {
				if v, exact := constant.Int64Val(iv); exact {
					if v < 0 {
						return ex{text: fmt.Sprintf("%d", v)}, true
					}
					return atomE(fmt.Sprintf("%d", v)), true
				}
			}
		}
		g.die(e, "floating-point constant")
	case constant.Bool:
		return atomE(fmt.Sprintf("%v", constant.BoolVal(tv.Value))), true
	case constant.String:
		sv := constant.StringVal(tv.Value)
		if len(sv) >= 4 && g.curFunc != "" { // long literals get a name, so that theorems can refer to them
			name := fmt.Sprintf("%s_lit%d", g.curFunc, len(g.lits))
			g.lits = append(g.lits, fmt.Sprintf("def %s : List UInt8 := %s\n", name, bytesLit([]byte(sv))))
			return atomE(name), true
		}
		return atomE(bytesLit([]byte(sv))), true
	}
	return ex{}, false
}

func (g *gl) typeOf(e ast.Expr) types.Type {
	tv, ok := g.info.Types[e]
	if !ok {
		g.die(e, "no type")
	}
	return tv.Type
}

func (g *gl) ident(id *ast.Ident) ex {
	obj := g.info.Uses[id]
	if obj == nil {
		obj = g.info.Defs[id]
	}
	switch o := obj.(type) {
	case *types.Var:
		if o.Parent() == g.pkg.Scope() {
			g.globals[o.Name()] = true
			return atomE("g_" + o.Name())
		}
		if g.recLocal[o] {
			var parts []string
			for _, f := range g.structLoc[o] {
				parts = append(parts, id.Name+"_"+f)
			}
			return atomE("(some (" + strings.Join(parts, ", ") + "))")
		}
		return atomE(g.nameOf(o))
	case *types.Nil:
		return atomE("[]")
	}
	g.die(id, "identifier "+id.Name)
	return ex{}
}

// index expression as an Int term (byte-typed indices are widened)
func (g *gl) indexInt(e ast.Expr) string {
	x := g.expr(e)
	if isByte(g.typeOf(e)) {
		return "(" + x.arg() + ".toNat : Int)"
	}
	return x.arg()
}

func (g *gl) expr(e ast.Expr) ex {
	if c, ok := g.constant(e); ok {
		return c
	}
	if tv, ok := g.info.Types[e]; ok && g.rdKind == "" && tv.IsNil() && g.recT != nil {
		if id, isId := e.(*ast.Ident); isId && id.Name == "nil" && tv.Type != nil {
			switch {
			case isErr(tv.Type):
				return atomE("GoErr.nil")
			case g.isRecPtr(tv.Type):
				return atomE("none")
			}
		}
	}
	if g.synthRhs != nil {
		if t, ok := g.synthRhs[e]; ok {
			return atomE(t)
		}
	}
	if tv, ok := g.info.Types[e]; ok && g.rdKind != "" {
		if tv.IsNil() {
			if id, isId := e.(*ast.Ident); isId && id.Name == "nil" {
				// nil as an error or as a record pointer: decided by the context (see errExpr / returns)
				return atomE("GoErr.nil")
			}
		}
	}
	switch m := g.rdCall(e); m {
	case "Err":
		return atomE("(scanErr ending)")
	case "Bytes":
		return atomE("cur")
	case "":
	default:
		g.die(e, "reader method "+m+" in expression position")
	}
	switch v := e.(type) {
	case *ast.ParenExpr:
		return g.expr(v.X)
	case *ast.Ident:
		return g.ident(v)
	case *ast.CompositeLit:
		t := g.typeOf(v)
		if st, ok := t.Underlying().(*types.Struct); ok && st.NumFields() > 0 && len(v.Elts) == 0 && g.yield2 {
			return atomE(g.zero(st)) // T{}: the zero value
		}
		if st, ok := t.Underlying().(*types.Struct); ok && st.NumFields() > 0 && len(v.Elts) > 0 {
			if _, keyed := v.Elts[0].(*ast.KeyValueExpr); keyed {
				parts := make([]string, st.NumFields())
				for k := range parts {
					parts[k] = bareZero(g.zero(st.Field(k).Type()))
				}
				for _, el := range v.Elts {
					kv, ok := el.(*ast.KeyValueExpr)
					if !ok {
						g.die(v, "mixed struct literal")
					}
					kid, ok := kv.Key.(*ast.Ident)
					if !ok {
						g.die(v, "struct literal key")
					}
					found := false
					for k := 0; k < st.NumFields(); k++ {
						if st.Field(k).Name() == kid.Name {
							parts[k], found = g.expr(kv.Value).opnd(), true
						}
					}
					if !found {
						g.die(v, "struct literal key")
					}
				}
				if len(parts) == 1 {
					return ex{text: parts[0]}
				}
				return atomE("(" + strings.Join(parts, ", ") + ")")
			}
		}
		if _, ok := t.Underlying().(*types.Slice); ok {
			var parts []string
			for _, el := range v.Elts {
				if _, isKV := el.(*ast.KeyValueExpr); isKV {
					g.die(v, "keyed slice literal")
				}
				parts = append(parts, g.expr(el).opnd())
			}
			return atomE("[" + strings.Join(parts, ", ") + "]")
		}
		if at, ok := t.Underlying().(*types.Array); ok && int64(len(v.Elts)) == at.Len() {
			var parts []string
			for _, el := range v.Elts {
				if _, isKV := el.(*ast.KeyValueExpr); isKV {
					g.die(v, "keyed array literal")
				}
				parts = append(parts, g.expr(el).opnd())
			}
			return atomE("[" + strings.Join(parts, ", ") + "]")
		}
		if st, ok := t.Underlying().(*types.Struct); ok && len(v.Elts) == st.NumFields() && st.NumFields() > 0 {
			var parts []string
			for _, el := range v.Elts {
				if _, isKV := el.(*ast.KeyValueExpr); isKV {
					g.die(v, "keyed struct literal")
				}
				parts = append(parts, g.expr(el).opnd())
			}
			if len(parts) == 1 {
				return ex{text: parts[0]}
			}
			return atomE("(" + strings.Join(parts, ", ") + ")")
		}
		if _, ok := t.Underlying().(*types.Map); ok && len(v.Elts) == 0 {
			return atomE("[]")
		}
	case *ast.SelectorExpr:
		if x, k, ok := g.lheapField(v); ok {
			n := g.lheapStruct().NumFields()
			return ex{text: "(← idx lheap " + g.expr(x).arg() + ")" + strings.TrimPrefix(tupleProj("X", k, n), "X"), atom: true}
		}
		if x, ok := g.heapField(v); ok {
			st := g.heapStruct()
			if st.NumFields() == 1 {
				return ex{text: "idx heap " + g.expr(x).arg(), act: true} // a nil pointer (-1) is out of range: panic
			}
			for k := 0; k < st.NumFields(); k++ {
				if st.Field(k).Name() == v.Sel.Name {
					return ex{text: "(← idx heap " + g.expr(x).arg() + ")" + strings.TrimPrefix(tupleProj("X", k, st.NumFields()), "X"), atom: true}
				}
			}
			g.die(v, "heap field")
		}
		if tv, ok := g.info.Types[v.X]; ok && tv.Type != nil {
			if on := g.opaqueName(tv.Type); on != "" {
				acc, ok := g.opaqueF[on+"."+v.Sel.Name]
				if !ok {
					g.die(v, "field "+v.Sel.Name+" of the opaque type "+on)
				}
				x := g.expr(v.X)
				return ex{text: acc + " " + x.arg()}
			}
		}
		if st, ok := g.structOf(v.X); ok {
			if _, isLoc := v.X.(*ast.Ident); !isLoc || g.structLoc[g.objOf(v.X.(*ast.Ident))] == nil {
				for k := 0; k < st.NumFields(); k++ {
					if st.Field(k).Name() == v.Sel.Name {
						x := g.expr(v.X)
						if x.act {
							return ex{text: "(← " + x.text + ")" + strings.TrimPrefix(tupleProj("X", k, st.NumFields()), "X"), atom: true}
						}
						return ex{text: tupleProj(x.arg(), k, st.NumFields()), atom: true}
					}
				}
			}
		}
		if id, ok := v.X.(*ast.Ident); ok {
			if fs, ok := g.structLoc[g.objOf(id)]; ok {
				for _, f := range fs {
					if f == v.Sel.Name {
						return atomE(id.Name + "_" + f)
					}
				}
			}
			if pn, ok := g.info.Uses[id].(*types.PkgName); ok && pn.Imported().Path() == "io" {
				switch v.Sel.Name {
				case "EOF":
					return atomE("GoErr.eof")
				case "ErrUnexpectedEOF":
					return atomE("GoErr.other")
				}
			}
		}
	case *ast.IndexExpr:
		xt := g.typeOf(v.X)
		if m, ok := xt.Underlying().(*types.Map); ok {
			return ex{text: "mapGet " + g.expr(v.X).arg() + " " + g.expr(v.Index).arg() + " " + g.zero(m.Elem())}
		}
		if isList(xt) {
			return ex{text: "idx " + g.expr(v.X).arg() + " " + g.indexInt(v.Index), act: true}
		}
	case *ast.SliceExpr:
		if v.Slice3 {
			break
		}
		x := g.expr(v.X)
		if v.Low == nil && v.High == nil {
			return x // s[:] (the content; capacity is not modelled)
		}
		lo, hi := "0", "(len "+x.arg()+")"
		if v.Low != nil {
			lo = g.expr(v.Low).arg()
		}
		if v.High != nil {
			hi = g.expr(v.High).arg()
		}
		return ex{text: "slice " + x.arg() + " " + lo + " " + hi, act: true}
	case *ast.UnaryExpr:
		if v.Op == token.NOT {
			return ex{text: "!" + g.expr(v.X).arg()}
		}
		if v.Op == token.AND {
			if id, ok := v.X.(*ast.Ident); ok && isStrPtr(g.typeOf(v)) {
				// &text for a local string: the pointer is only ever read, so it is the string's value now
				return atomE("(some " + g.ident(id).text + ")")
			}
			if cl, ok := v.X.(*ast.CompositeLit); ok {
				if st, ok := g.typeOf(cl).Underlying().(*types.Struct); ok && st.NumFields() == 1 && len(cl.Elts) == 1 {
					return g.expr(cl.Elts[0]) // &T{x} for a one-field struct: the field
				}
			}
		}
		if v.Op == token.SUB && isInt(g.typeOf(v.X)) {
			return ex{text: "-" + g.expr(v.X).arg()}
		}
	case *ast.BinaryExpr:
		return g.binary(v)
	case *ast.CallExpr:
		return g.call(v)
	}
	g.die(e, fmt.Sprintf("expression %T", e))
	return ex{}
}

func isBoolT(t types.Type) bool {
	b, ok := t.Underlying().(*types.Basic)
	return ok && b.Kind() == types.Bool
}

// nilOf: the Lean term for Go's nil at type t ("" = not a type with a nil the translation knows)
func (g *gl) nilOf(t types.Type) string {
	switch {
	case isErr(t):
		return "GoErr.nil"
	case g.isRecPtr(t):
		return "none"
	case g.isHeapPtr(t):
		return "(-1 : Int)"
	}
	return ""
}

// nilIffEmpty: e is a local declared `var x []T` (nil) whose every assignment is `x = append(x, a, …)` with at
// least one element, and whose address is never taken: then x is nil exactly when it is empty
func (g *gl) nilIffEmpty(e ast.Expr) bool {
	id, ok := e.(*ast.Ident)
	if !ok || g.curBody == nil {
		return false
	}
	obj := g.objOf(id)
	declOK, bad := false, false
	ast.Inspect(g.curBody, func(n ast.Node) bool {
		switch v := n.(type) {
		case *ast.ValueSpec:
			for _, nm := range v.Names {
				if g.info.Defs[nm] == obj {
					if len(v.Values) == 0 {
						declOK = true
					} else {
						bad = true
					}
				}
			}
		case *ast.AssignStmt:
			for i, l := range v.Lhs {
				lid, ok := l.(*ast.Ident)
				if !ok || g.objOf(lid) != obj {
					continue
				}
				if v.Tok != token.ASSIGN || len(v.Lhs) != len(v.Rhs) {
					bad = true
					continue
				}
				c, ok := v.Rhs[i].(*ast.CallExpr)
				fn, isId := ast.Expr(nil), false
				if ok {
					fn = c.Fun
					_, isId = fn.(*ast.Ident)
				}
				if !ok || !isId || fn.(*ast.Ident).Name != "append" || len(c.Args) < 2 || c.Ellipsis.IsValid() {
					bad = true
					continue
				}
				if a0, ok := c.Args[0].(*ast.Ident); !ok || g.objOf(a0) != obj {
					bad = true
				}
			}
		case *ast.UnaryExpr:
			if x, ok := v.X.(*ast.Ident); ok && v.Op == token.AND && g.objOf(x) == obj {
				bad = true
			}
		case *ast.RangeStmt:
			for _, kv := range []ast.Expr{v.Key, v.Value} {
				if x, ok := kv.(*ast.Ident); ok && g.objOf(x) == obj {
					bad = true
				}
			}
		}
		return true
	})
	return declOK && !bad
}

func isNilIdent(e ast.Expr) bool {
	id, ok := e.(*ast.Ident)
	return ok && id.Name == "nil"
}

func (g *gl) binary(v *ast.BinaryExpr) ex {
	lt := g.typeOf(v.X)
	if v.Op == token.EQL || v.Op == token.NEQ {
		// a rune loop variable read as a byte (see rangeStmt), compared with an ASCII constant
		for _, pair := range [][2]ast.Expr{{v.X, v.Y}, {v.Y, v.X}} {
			if id, ok := pair[0].(*ast.Ident); ok && g.runeAsByte[g.objOf(id)] {
				if tv, has := g.info.Types[pair[1]]; has && tv.Value != nil {
					c, _ := constant.Int64Val(tv.Value)
					return ex{text: fmt.Sprintf("%s %s %d", g.nameOf(g.objOf(id)), map[token.Token]string{token.EQL: "==", token.NEQ: "!="}[v.Op], c)}
				}
			}
		}
	}
	if g.floatLean != "" && isFloat(lt) && (v.Op == token.EQL || v.Op == token.NEQ) {
		// an opaque float compared with the constant 0: "no value"
		if tv, ok := g.info.Types[v.Y]; ok && tv.Value != nil && constant.Sign(tv.Value) == 0 {
			return ex{text: g.expr(v.X).arg() + " " + map[token.Token]string{token.EQL: "==", token.NEQ: "!="}[v.Op] + " none"}
		}
		g.die(v, "comparison of opaque floats")
	}
	l, r := g.expr(v.X), g.expr(v.Y)
	if isNilIdent(v.Y) && g.rdKind == "" {
		if n := g.nilOf(lt); n != "" {
			r = atomE(n)
		}
	}
	infix := func(op string) ex { return ex{text: l.arg() + " " + op + " " + r.arg()} }
	hasAct := func(e ex) bool { return e.act || strings.Contains(e.text, "(← ") }
	switch v.Op {
	case token.ADD:
		if isList(lt) { // string concatenation
			return infix("++")
		}
		fallthrough
	case token.SUB, token.MUL:
		if isInt(lt) || isByte(lt) {
			return infix(map[token.Token]string{token.ADD: "+", token.SUB: "-", token.MUL: "*"}[v.Op])
		}
	case token.QUO, token.REM:
		if isFloat(lt) {
			g.die(v, "floating-point division")
		}
		if isInt(lt) {
			fn, pf := "Int.tdiv", "quo"
			if v.Op == token.REM {
				fn, pf = "Int.tmod", "rem"
			}
			if c, ok := g.info.Types[v.Y]; ok && c.Value != nil && constant.Sign(c.Value) != 0 {
				return ex{text: fn + " " + l.arg() + " " + r.arg()}
			}
			return ex{text: pf + " " + l.arg() + " " + r.arg(), act: true}
		}
	case token.OR:
		if isByte(lt) {
			return infix("|||")
		}
	case token.AND:
		if isInt(lt) && !isFloat(lt) {
			return ex{text: "andInt " + l.arg() + " " + r.arg()}
		}
	case token.SHL:
		if isByte(lt) {
			return ex{text: "shl8 " + l.arg() + " " + r.arg(), act: true}
		}
	case token.SHR:
		if isInt(lt) && !isFloat(lt) {
			return ex{text: "shrInt " + l.arg() + " " + r.arg(), act: true}
		}
	case token.EQL, token.NEQ, token.LSS, token.LEQ, token.GTR, token.GEQ:
		if g.isHeapPtr(lt) && (v.Op == token.EQL || v.Op == token.NEQ) {
			op := map[token.Token]string{token.EQL: "==", token.NEQ: "!="}[v.Op]
			if yid, ok := v.Y.(*ast.Ident); ok && yid.Name == "nil" {
				return ex{text: l.arg() + " " + op + " -1"}
			}
			return ex{text: l.arg() + " " + op + " " + g.expr(v.Y).arg()}
		}
		if yid, ok := v.Y.(*ast.Ident); ok && yid.Name == "nil" && isList(lt) && g.rdKind == "" {
			// nil and empty slices are not distinguished (GoRt): x == nil reads "x is empty"
			if g.ioReaderScan && !g.nilIffEmpty(v.X) {
				g.die(v, "nil test of a slice that may be empty and not nil")
			}
			if v.Op == token.EQL {
				return ex{text: "len " + l.arg() + " == 0"}
			}
			return ex{text: "len " + l.arg() + " != 0"}
		}
		if isErr(lt) && (v.Op == token.EQL || v.Op == token.NEQ) {
			return infix(map[token.Token]string{token.EQL: "==", token.NEQ: "!="}[v.Op])
		}
		if g.isRecPtr(lt) && isNilIdent(v.Y) && g.rdKind == "" && (v.Op == token.EQL || v.Op == token.NEQ) {
			// p == nil for a record pointer (an Option)
			if v.Op == token.EQL {
				return ex{text: "Option.isNone " + l.arg()}
			}
			return ex{text: "Option.isSome " + l.arg()}
		}
		if b, ok := lt.Underlying().(*types.Basic); ok && (b.Kind() == types.Bool || b.Kind() == types.UntypedBool) && (v.Op == token.EQL || v.Op == token.NEQ) {
			return infix(map[token.Token]string{token.EQL: "==", token.NEQ: "!="}[v.Op])
		}
		if isList(lt) && (v.Op == token.EQL || v.Op == token.NEQ) {
			return infix(map[token.Token]string{token.EQL: "==", token.NEQ: "!="}[v.Op])
		}
		if isInt(lt) || isByte(lt) {
			return infix(map[token.Token]string{token.EQL: "==", token.NEQ: "!=", token.LSS: "<", token.LEQ: "<=", token.GTR: ">", token.GEQ: ">="}[v.Op])
		}
	case token.LAND:
		if hasAct(r) { // Go evaluates the right operand only when needed (it may panic)
			return ex{text: "if " + l.opnd2() + " then (do return (" + r.opnd2() + " : Bool)) else pure false", act: true}
		}
		return infix("&&")
	case token.LOR:
		if hasAct(r) {
			return ex{text: "if " + l.opnd2() + " then pure true else (do return (" + r.opnd2() + " : Bool))", act: true}
		}
		return infix("||")
	}
	g.die(v, "binary operator "+v.Op.String()+" on "+lt.String())
	return ex{}
}

// operand of an infix operator: compound pure terms are parenthesised only
// when they are themselves infix/applications that could mis-associate
// sort.Slice(x, func(i, j int) bool { return less(x[i], x[j]) }): the comparator call must take exactly
// x[i] and x[j], with i and j the closure's parameters in that order
func sortArgsOK(fl *ast.FuncLit, x string, lc *ast.CallExpr) bool {
	var ps []string
	for _, f := range fl.Type.Params.List {
		for _, n := range f.Names {
			ps = append(ps, n.Name)
		}
	}
	if len(ps) != 2 {
		return false
	}
	for k, a := range lc.Args {
		ie, ok := a.(*ast.IndexExpr)
		if !ok {
			return false
		}
		b, ok1 := ie.X.(*ast.Ident)
		i, ok2 := ie.Index.(*ast.Ident)
		if !ok1 || !ok2 || b.Name != x || i.Name != ps[k] {
			return false
		}
	}
	return true
}

// a case expression of a switch: Go evaluates case expressions lazily, the translation does not
func caseExpr(g *gl, ce ast.Expr) string {
	x := g.expr(ce)
	if x.act || strings.Contains(x.text, "(← ") {
		g.die(ce, "switch case expression that can panic")
	}
	return x.arg()
}

func (e ex) opnd2() string {
	if e.act {
		return "(← " + e.text + ")"
	}
	return e.text
}

// scanCall names the method when e is a call of a method of the local line scanner
func (g *gl) scanCall(e ast.Expr) string {
	c, ok := e.(*ast.CallExpr)
	if !ok || g.scanObj == nil {
		return ""
	}
	sel, ok := c.Fun.(*ast.SelectorExpr)
	if !ok {
		return ""
	}
	id, ok := sel.X.(*ast.Ident)
	if !ok || g.objOf(id) != g.scanObj {
		return ""
	}
	return sel.Sel.Name
}

func (g *gl) call(c *ast.CallExpr) ex {
	switch m := g.scanCall(c); m {
	case "":
	case "Text", "Bytes":
		if g.scanTok == "" || len(c.Args) != 0 {
			g.die(c, "scanner token outside the scan loop")
		}
		return atomE(g.scanTok)
	case "Err":
		if g.scanTok != "" || g.scanLoops != 1 {
			g.die(c, "Scanner.Err before the scan loop has ended")
		}
		return atomE("(scanErr " + g.nameOf(g.scanObj) + ".ending)")
	default:
		g.die(c, "scanner method "+m)
	}
	if sel, ok := c.Fun.(*ast.SelectorExpr); ok && g.reLocals != nil {
		if id, ok := sel.X.(*ast.Ident); ok {
			if pat, ok := g.reLocals[g.objOf(id)]; ok {
				// re.FindAllString(s, -1) for the pattern \S+: the maximal runs of non-space bytes (GoRt.nonSpaceFields)
				if pat == `\S+` && sel.Sel.Name == "FindAllString" && len(c.Args) == 2 {
					if tv, ok := g.info.Types[c.Args[1]]; ok && tv.Value != nil && constant.Sign(tv.Value) < 0 {
						return ex{text: "nonSpaceFields " + g.expr(c.Args[0]).arg()}
					}
				}
				g.die(c, "regexp use")
			}
		}
	}
	if sel, ok := c.Fun.(*ast.SelectorExpr); ok && g.extPure != nil {
		if pk, ok := sel.X.(*ast.Ident); ok {
			if pn, ok := g.info.Uses[pk].(*types.PkgName); ok {
				if voc, ok := g.extPure[pn.Imported().Path()+"."+sel.Sel.Name]; ok {
					parts := []string{voc}
					for _, a := range c.Args {
						parts = append(parts, g.expr(a).arg())
					}
					return ex{text: strings.Join(parts, " ")}
				}
			}
		}
	}
	if sel, ok := c.Fun.(*ast.SelectorExpr); ok && g.extVocab != nil {
		if pk, ok := sel.X.(*ast.Ident); ok {
			if pn, ok := g.info.Uses[pk].(*types.PkgName); ok {
				if voc, ok := g.extVocab[pn.Imported().Name()+"."+sel.Sel.Name]; ok {
					parts := []string{voc}
					for _, a := range c.Args {
						parts = append(parts, g.expr(a).arg())
					}
					return ex{text: strings.Join(parts, " "), act: true}
				}
			}
		}
	}
	if sel, ok := c.Fun.(*ast.SelectorExpr); ok && len(c.Args) == 0 && sel.Sel.Name == "Sum64" && g.hashLocals != nil {
		if id, ok := sel.X.(*ast.Ident); ok {
			if seed, ok := g.hashLocals[g.objOf(id)]; ok {
				g.hashUsed[g.hashKind[g.objOf(id)]] = true
				return ex{text: g.hashKind[g.objOf(id)] + " " + seed + " " + g.nameOf(g.objOf(id))}
			}
		}
	}
	if sel, ok := c.Fun.(*ast.SelectorExpr); ok && len(c.Args) == 0 {
		if v, ok := g.accumVar(sel.X); ok {
			switch sel.Sel.Name {
			case "Len":
				return ex{text: "len " + v}
			case "String", "Bytes":
				return atomE(v) // a snapshot: values are immutable here
			}
			g.die(c, "accumulator method "+sel.Sel.Name+" in an expression")
		}
	}
	if g.extFuncs != nil {
		if txt, ok := g.extCall(c); ok {
			return ex{text: txt}
		}
	}
	if g.heapT != "" {
		if txt, wrs, ok := g.heapCall(c); ok {
			if wrs {
				g.die(c, "a heap-writing call inside an expression")
			}
			return ex{text: txt, act: true}
		}
	}
	// calls that stand for an input of the translated function (documented where they are declared)
	if id, ok := c.Fun.(*ast.Ident); ok {
		if p, ok := g.opaque[id.Name]; ok {
			g.opaqueUsed[id.Name] = true
			return atomE(p)
		}
	}
	// conversions
	if tv, ok := g.info.Types[c.Fun]; ok && tv.IsType() && len(c.Args) == 1 {
		from := g.typeOf(c.Args[0])
		a := g.expr(c.Args[0])
		switch {
		case isByte(tv.Type) && isInt(from):
			return ex{text: "u8 " + a.arg()}
		case isByte(tv.Type) && g.u64AsInt && func() bool { b, ok := from.Underlying().(*types.Basic); return ok && b.Kind() == types.Uint64 }():
			return ex{text: "u8 " + a.arg()}
		case isInt(tv.Type) && isByte(from):
			return ex{text: "(" + a.arg() + ".toNat : Int)", atom: true}
		case isList(tv.Type) && isList(from):
			return a
		}
		g.die(c, "conversion")
	}
	switch f := c.Fun.(type) {
	case *ast.Ident:
		if _, isBuiltin := g.info.Uses[f].(*types.Builtin); isBuiltin {
			switch f.Name {
			case "len":
				return ex{text: "len " + g.expr(c.Args[0]).arg()}
			case "min", "max":
				if len(c.Args) == 2 {
					return ex{text: f.Name + " " + g.expr(c.Args[0]).arg() + " " + g.expr(c.Args[1]).arg()}
				}
			case "append":
				if len(c.Args) == 2 {
					a, b := g.expr(c.Args[0]), g.expr(c.Args[1])
					if c.Ellipsis != token.NoPos {
						return ex{text: a.arg() + " ++ " + b.arg()}
					}
					return ex{text: a.arg() + " ++ [" + b.opnd() + "]"}
				}
			case "make":
				t := g.typeOf(c)
				if _, ok := t.Underlying().(*types.Map); ok && len(c.Args) <= 2 {
					if len(c.Args) == 2 {
						if !g.nonNegative(c.Args[1]) {
							g.die(c, "make(map, n) with a size that may be negative")
						}
					}
					return atomE("[]") // the size hint is not modelled
				}
				if sl, ok := t.Underlying().(*types.Slice); ok {
					if len(c.Args) == 3 {
						if cv, ok := g.info.Types[c.Args[1]]; ok && cv.Value != nil && constant.Sign(cv.Value) == 0 {
							// make([]T, 0, cap): the capacity is not modelled, but evaluating it can panic
							// (a division by zero inside it, a negative value)
							if g.nonNegative(c.Args[2]) {
								return atomE("[]")
							}
							cp := g.expr(c.Args[2])
							return ex{text: "makeCap " + cp.arg(), act: true}
						}
					}
					if len(c.Args) == 2 {
						return ex{text: "List.replicate (" + g.expr(c.Args[1]).opnd() + " : Int).toNat " + g.zero(sl.Elem())}
					}
				}
			}
			g.die(c, "builtin "+f.Name)
		}
		if f.Name == "yield" && g.yieldT != "" {
			g.die(c, "yield outside `if !yield(x) { return }`")
		}
		if fn, ok := g.info.Uses[f].(*types.Func); ok && fn.Pkg() == g.pkg {
			lname := fn.Name()
			if a, ok := g.funcAlias[lname]; ok {
				lname = a
			}
			callee, ok := g.funcs[lname]
			if !ok || !callee.found {
				g.die(c, "call of untranslated function "+fn.Name())
			}
			parts := []string{lname}
			for _, gv := range callee.globals {
				g.globals[gv] = true
				parts = append(parts, "g_"+gv)
			}
			for _, k := range callee.exts {
				g.extUsed[k] = true
				parts = append(parts, g.extFuncs[k].param)
			}
			if callee.fuel {
				g.usesFuel = true
				parts = append(parts, "fuel")
			}
			for _, a := range c.Args {
				parts = append(parts, g.expr(a).arg())
			}
			return ex{text: strings.Join(parts, " "), act: true}
		}
	case *ast.SelectorExpr:
		// x.M(args) for a translated method M of a named non-struct type of this package
		if fn, ok := g.info.Uses[f.Sel].(*types.Func); ok && fn.Pkg() == g.pkg {
			if sig, ok := fn.Type().(*types.Signature); ok && sig.Recv() != nil {
				rt := sig.Recv().Type()
				if p, ok := rt.(*types.Pointer); ok {
					rt = p.Elem()
				}
				if named, ok := rt.(*types.Named); ok {
					if _, isStruct := named.Underlying().(*types.Struct); !isStruct || g.opaqueName(named) != "" {
						lname, ok := g.methodNames[named.Obj().Name()+"."+fn.Name()]
						callee := g.funcs[lname]
						self := ok && lname == g.curFunc
						if !ok || callee == nil || (!callee.found && !self) {
							g.die(c, "call of untranslated method "+named.Obj().Name()+"."+fn.Name())
						}
						parts := []string{lname}
						if self {
							// a recursive call: the definition recurses structurally on `fuel`
							g.selfRec, g.usesFuel = true, true
							for _, k := range g.sortedGlobals() {
								_ = k
							}
							if len(g.globals) > 0 || len(g.extUsed) > 0 {
								// parameters that are discovered while translating cannot be passed to a call made before
								// the discovery is complete; keep recursion to functions without them, except …
							}
							for _, k := range g.selfExts {
								g.extUsed[k] = true
								parts = append(parts, g.extFuncs[k].param)
							}
							parts = append(parts, "fuel")
						} else {
							for _, gv := range callee.globals {
								g.globals[gv] = true
								parts = append(parts, "g_"+gv)
							}
							for _, k := range callee.exts {
								g.extUsed[k] = true
								parts = append(parts, g.extFuncs[k].param)
							}
							if callee.fuel {
								g.usesFuel = true
								parts = append(parts, "fuel")
							}
						}
						parts = append(parts, g.expr(f.X).arg())
						for _, a := range c.Args {
							parts = append(parts, g.expr(a).arg())
						}
						if g.iterFuncs[lname] {
							g.die(c, "an iterator used as a value")
						}
						return ex{text: strings.Join(parts, " "), act: true}
					}
				}
			}
		}
		if id, ok := f.X.(*ast.Ident); ok {
			if pn, ok := g.info.Uses[id].(*types.PkgName); ok {
				if pn.Imported().Path() == "bytes" && f.Sel.Name == "Compare" && len(c.Args) == 2 {
					return ex{text: "cmp " + g.expr(c.Args[0]).arg() + " " + g.expr(c.Args[1]).arg()}
				}
				if pn.Imported().Path() == "sort" && f.Sel.Name == "Search" && len(c.Args) == 2 {
					if fl, ok := c.Args[1].(*ast.FuncLit); ok && len(fl.Type.Params.List) == 1 && len(fl.Type.Params.List[0].Names) == 1 && len(fl.Body.List) == 1 {
						if r, ok := fl.Body.List[0].(*ast.ReturnStmt); ok && len(r.Results) == 1 {
							j := fl.Type.Params.List[0].Names[0].Name
							return ex{text: "searchGo " + g.expr(c.Args[0]).arg() + " (fun " + j + " => do return (" + g.expr(r.Results[0]).opnd() + " : Bool))", act: true}
						}
					}
				}
				if pn.Imported().Path() == "slices" && f.Sel.Name == "Clone" && len(c.Args) == 1 {
					return g.expr(c.Args[0]) // values are immutable here
				}
				if pn.Imported().Path() == "bytes" && f.Sel.Name == "HasPrefix" && len(c.Args) == 2 {
					return ex{text: "List.isPrefixOf " + g.expr(c.Args[1]).arg() + " " + g.expr(c.Args[0]).arg()}
				}
				if pn.Imported().Path() == "strings" && f.Sel.Name == "HasPrefix" && len(c.Args) == 2 {
					return ex{text: "List.isPrefixOf " + g.expr(c.Args[1]).arg() + " " + g.expr(c.Args[0]).arg()}
				}
				if pn.Imported().Path() == "strings" && f.Sel.Name == "TrimSuffix" && len(c.Args) == 2 {
					return ex{text: "trimSuffix " + g.expr(c.Args[0]).arg() + " " + g.expr(c.Args[1]).arg()}
				}
				if pn.Imported().Path() == "strings" && f.Sel.Name == "Split" && len(c.Args) == 2 {
					// with a one-byte constant separator strings.Split is the model's splitOn
					sv, ok := g.info.Types[c.Args[1]]
					if !ok || sv.Value == nil || sv.Value.Kind() != constant.String || len(constant.StringVal(sv.Value)) != 1 {
						g.die(c, "strings.Split with a separator that is not a one-byte constant")
					}
					return ex{text: fmt.Sprintf("splitOn %d %s", constant.StringVal(sv.Value)[0], g.expr(c.Args[0]).arg())}
				}
				if pn.Imported().Path() == "fmt" && f.Sel.Name == "Errorf" && (g.rdKind != "" || g.recT != nil) {
					return atomE("GoErr.other") // the message is not modelled
				}
				if pn.Imported().Path() == "strings" && f.Sel.Name == "ContainsAny" && len(c.Args) == 2 {
					// Go compares runes; bytewise comparison is exact when the character set is ASCII
					cv, ok := g.info.Types[c.Args[1]]
					if !ok || cv.Value == nil || cv.Value.Kind() != constant.String {
						g.die(c, "ContainsAny with a non-constant character set")
					}
					for _, ch := range []byte(constant.StringVal(cv.Value)) {
						if ch >= 0x80 {
							g.die(c, "ContainsAny with a non-ASCII character set")
						}
					}
					return ex{text: "containsAny " + g.expr(c.Args[0]).arg() + " " + g.expr(c.Args[1]).arg()}
				}
				if pn.Imported().Path() == "strings" && f.Sel.Name == "ReplaceAll" && len(c.Args) == 3 {
					ov, ok := g.info.Types[c.Args[1]]
					if !ok || ov.Value == nil || ov.Value.Kind() != constant.String || constant.StringVal(ov.Value) == "" {
						g.die(c, "ReplaceAll whose old string is not a non-empty constant")
					}
					return ex{text: "replaceAll " + g.expr(c.Args[0]).arg() + " " + g.expr(c.Args[1]).arg() + " " + g.expr(c.Args[2]).arg()}
				}
			}
		}
	}
	g.die(c, "call")
	return ex{}
}

// ---- statements ------------------------------------------------------------

type wr struct {
	b   *bytes.Buffer
	ind int
}

func (w *wr) line(s string) { w.b.WriteString(strings.Repeat("  ", w.ind) + s + "\n") }

func isPanic(s ast.Stmt) bool {
	es, ok := s.(*ast.ExprStmt)
	if !ok {
		return false
	}
	c, ok := es.X.(*ast.CallExpr)
	if !ok {
		return false
	}
	id, ok := c.Fun.(*ast.Ident)
	return ok && id.Name == "panic"
}

// assignable variable name behind an lvalue identifier (locals by name, globals as g_name)
func (g *gl) lvName(id *ast.Ident) string { return g.ident(id).text }

func (g *gl) objOf(id *ast.Ident) types.Object {
	if o := g.info.Defs[id]; o != nil {
		return o
	}
	return g.info.Uses[id]
}

// bind emits `kw name (:=|←) rhs`
func bindText(kw, name string, rhs ex) string {
	if rhs.act {
		return kw + name + " ← " + rhs.text
	}
	return kw + name + " := " + rhs.text
}

// constParallel: a parallel assignment that may be carried out sequentially -- every right-hand side is a
// constant and no left-hand side can influence another (plain variables, or elements at constant indices)
func (g *gl) constParallel(v *ast.AssignStmt) bool {
	for _, r := range v.Rhs {
		if tv, ok := g.info.Types[r]; !ok || tv.Value == nil {
			return false
		}
	}
	plain := map[string]bool{}
	for _, l := range v.Lhs {
		switch x := l.(type) {
		case *ast.Ident:
			plain[x.Name] = true
		case *ast.IndexExpr:
			if tv, ok := g.info.Types[x.Index]; !ok || tv.Value == nil {
				return false
			}
		default:
			return false
		}
	}
	for _, l := range v.Lhs {
		if ie, ok := l.(*ast.IndexExpr); ok {
			for n := range identsIn(ie.Index) {
				if plain[n] {
					return false
				}
			}
		}
	}
	return true
}

// nonNegative: an expression built from len(…), non-negative constants, + and * only
func (g *gl) nonNegative(e ast.Expr) bool {
	if tv, ok := g.info.Types[e]; ok && tv.Value != nil {
		return constant.Sign(tv.Value) >= 0
	}
	switch x := e.(type) {
	case *ast.ParenExpr:
		return g.nonNegative(x.X)
	case *ast.CallExpr:
		if id, ok := x.Fun.(*ast.Ident); ok && id.Name == "len" && len(x.Args) == 1 {
			if _, isB := g.info.Uses[id].(*types.Builtin); isB {
				a := g.expr(x.Args[0])
				return !a.act && !strings.Contains(a.text, "(← ")
			}
		}
	case *ast.BinaryExpr:
		if x.Op == token.ADD || x.Op == token.MUL {
			return g.nonNegative(x.X) && g.nonNegative(x.Y)
		}
	}
	return false
}

// heapAlloc emits the allocation for &heapT{field: e} (or &heapT{e}) and returns the new pointer as a term
func (g *gl) heapAlloc(w *wr, u *ast.UnaryExpr) string {
	cl, ok := u.X.(*ast.CompositeLit)
	if !ok {
		g.die(u, "allocation of the heap type")
	}
	return g.heapAllocLit(w, cl)
}

// heapAllocLit: the allocation for the composite literal of a heap cell (zero cell when it has no elements)
func (g *gl) heapAllocLit(w *wr, cl *ast.CompositeLit) string {
	st := g.heapStruct()
	if st.NumFields() > 1 || len(cl.Elts) == 0 {
		cell := g.zero(st)
		if len(cl.Elts) > 0 {
			cell = g.expr(cl).arg()
		}
		w.line("heap := heap ++ [" + bareZero(cell) + "]")
		tp := g.tmp()
		w.line("let " + tp + " : Int := (len heap) - 1")
		return tp
	}
	if len(cl.Elts) != 1 {
		g.die(cl, "allocation of the heap type")
	}
	var fv ast.Expr = cl.Elts[0]
	if kv, ok := fv.(*ast.KeyValueExpr); ok {
		fv = kv.Value
	}
	w.line("heap := heap ++ [" + g.expr(fv).opnd() + "]")
	return "(len heap) - 1"
}

// heapCall: a call of a translated function of a heap-mode package; returns the call text and whether the
// callee writes the heap (then its result is (value, heap) -- or just the heap when it returns nothing)
func (g *gl) heapCall(c *ast.CallExpr) (string, bool, bool) {
	var lname string
	var recv ast.Expr
	switch f := c.Fun.(type) {
	case *ast.Ident:
		if fn, ok := g.info.Uses[f].(*types.Func); ok && fn.Pkg() == g.pkg {
			lname = fn.Name()
		}
	case *ast.SelectorExpr:
		if fn, ok := g.info.Uses[f.Sel].(*types.Func); ok && fn.Pkg() == g.pkg {
			if tv, ok := g.info.Types[f.X]; ok && g.isHeapPtr(tv.Type) {
				lname, recv = g.methodNames[g.heapT+"."+fn.Name()], f.X
			}
		}
	}
	wr, known := g.heapFuncs[lname]
	callee := g.funcs[lname]
	if lname == "" || !known || callee == nil || !callee.found {
		return "", false, false
	}
	parts := []string{lname}
	if callee.fuel {
		g.usesFuel = true
		parts = append(parts, "fuel")
	}
	parts = append(parts, "heap")
	if recv != nil {
		parts = append(parts, g.expr(recv).arg())
	}
	for _, a := range c.Args {
		parts = append(parts, g.expr(a).arg())
	}
	return strings.Join(parts, " "), wr, true
}

// readerCtorOK: fid names a one-parameter function of this package that does nothing but wrap its io.Reader:
// `return &T{bufio.NewReader(r)}`, or `s := bufio.NewScanner(r); s.Buffer(nil, math.MaxInt); return &T{s: s}`
// (the unlimited token size is what the `lines` reading of a Scanner assumes)
func (g *gl) readerCtorOK(fid *ast.Ident) bool {
	fn, ok := g.info.Uses[fid].(*types.Func)
	if !ok || fn.Pkg() != g.pkg {
		return false
	}
	fd, _ := g.findFunc(fn.Name(), 0)
	if fd == nil || fd.Recv != nil || fd.Body == nil || fd.Type.Params.NumFields() != 1 || len(fd.Type.Params.List[0].Names) != 1 {
		return false
	}
	p := fd.Type.Params.List[0].Names[0].Name
	wraps := func(e ast.Expr, ctor string) bool {
		c, ok := e.(*ast.CallExpr)
		if !ok || len(c.Args) != 1 {
			return false
		}
		sel, ok := c.Fun.(*ast.SelectorExpr)
		if !ok || sel.Sel.Name != ctor {
			return false
		}
		pk, ok := sel.X.(*ast.Ident)
		if !ok {
			return false
		}
		pn, ok := g.info.Uses[pk].(*types.PkgName)
		a, isId := c.Args[0].(*ast.Ident)
		return ok && pn.Imported().Path() == "bufio" && isId && a.Name == p
	}
	local := ""
	sawBuffer := false
	for i, s := range fd.Body.List {
		switch v := s.(type) {
		case *ast.AssignStmt:
			if i != 0 || v.Tok != token.DEFINE || len(v.Lhs) != 1 || len(v.Rhs) != 1 || !wraps(v.Rhs[0], "NewScanner") {
				return false
			}
			local = v.Lhs[0].(*ast.Ident).Name
		case *ast.ExprStmt:
			c, ok := v.X.(*ast.CallExpr)
			if !ok || len(c.Args) != 2 || local == "" {
				return false
			}
			sel, ok := c.Fun.(*ast.SelectorExpr)
			x, isId := sel.X.(*ast.Ident)
			if !ok || !isId || x.Name != local || sel.Sel.Name != "Buffer" {
				return false
			}
			tv, ok := g.info.Types[c.Args[1]]
			if !ok || tv.Value == nil {
				return false
			}
			if n, exact := constant.Int64Val(tv.Value); !exact || n != math.MaxInt64 {
				return false
			}
			sawBuffer = true
		case *ast.ReturnStmt:
			if i != len(fd.Body.List)-1 || len(v.Results) != 1 {
				return false
			}
			u, ok := v.Results[0].(*ast.UnaryExpr)
			if !ok || u.Op != token.AND {
				return false
			}
			cl, ok := u.X.(*ast.CompositeLit)
			if !ok || len(cl.Elts) != 1 {
				return false
			}
			val := cl.Elts[0]
			if kv, ok := val.(*ast.KeyValueExpr); ok {
				val = kv.Value
			}
			if id, ok := val.(*ast.Ident); ok {
				return local != "" && id.Name == local && sawBuffer
			}
			return local == "" && wraps(val, "NewReader")
		default:
			return false
		}
	}
	return false
}

// ctorShape: fid names a one-parameter function of this package whose whole body is `return &T{…}`
func (g *gl) ctorShape(fid *ast.Ident) (*ast.FuncDecl, *ast.CompositeLit, bool) {
	fn, ok := g.info.Uses[fid].(*types.Func)
	if !ok || fn.Pkg() != g.pkg {
		return nil, nil, false
	}
	fd, _ := g.findFunc(fn.Name(), 0)
	if fd == nil || fd.Recv != nil || fd.Body == nil || len(fd.Body.List) != 1 || fd.Type.Params.NumFields() != 1 {
		return nil, nil, false
	}
	ret, ok := fd.Body.List[0].(*ast.ReturnStmt)
	if !ok || len(ret.Results) != 1 {
		return nil, nil, false
	}
	u, ok := ret.Results[0].(*ast.UnaryExpr)
	if !ok || u.Op != token.AND {
		return nil, nil, false
	}
	cl, ok := u.X.(*ast.CompositeLit)
	return fd, cl, ok
}

// ctorFields: fid names a function of this package whose whole body is `return &T{…}` with one parameter; the
// fields of T and, for each, the Lean term of its initial value with the parameter replaced by arg
func (g *gl) ctorFields(fid *ast.Ident, arg ast.Expr) ([]*types.Var, []string, bool) {
	fn, ok := g.info.Uses[fid].(*types.Func)
	if !ok || fn.Pkg() != g.pkg {
		return nil, nil, false
	}
	fd, _ := g.findFunc(fn.Name(), 0)
	if fd == nil || fd.Recv != nil || fd.Body == nil || len(fd.Body.List) != 1 || fd.Type.Params.NumFields() != 1 {
		return nil, nil, false
	}
	ret, ok := fd.Body.List[0].(*ast.ReturnStmt)
	if !ok || len(ret.Results) != 1 {
		return nil, nil, false
	}
	u, ok := ret.Results[0].(*ast.UnaryExpr)
	if !ok || u.Op != token.AND {
		return nil, nil, false
	}
	cl, ok := u.X.(*ast.CompositeLit)
	if !ok {
		return nil, nil, false
	}
	st, ok := g.typeOf(cl).Underlying().(*types.Struct)
	if !ok {
		return nil, nil, false
	}
	pname := fd.Type.Params.List[0].Names[0].Name
	init := func(e ast.Expr) (string, bool) {
		switch x := e.(type) {
		case *ast.CallExpr: // bufio.NewReader(<param>)
			if sel, ok := x.Fun.(*ast.SelectorExpr); ok && sel.Sel.Name == "NewReader" && len(x.Args) == 1 {
				if pk, ok := sel.X.(*ast.Ident); ok {
					if pn, ok := g.info.Uses[pk].(*types.PkgName); ok && pn.Imported().Path() == "bufio" {
						if a, ok := x.Args[0].(*ast.Ident); ok && a.Name == pname {
							return g.expr(arg).opnd(), true
						}
					}
				}
			}
		case *ast.UnaryExpr: // &bytes.Buffer{}
			if c2, ok := x.X.(*ast.CompositeLit); ok && x.Op == token.AND && len(c2.Elts) == 0 && isAccum(g.typeOf(x)) {
				return "[]", true
			}
		}
		return "", false
	}
	var fs []*types.Var
	inits := make([]string, st.NumFields())
	for i := 0; i < st.NumFields(); i++ {
		fs = append(fs, st.Field(i))
	}
	for i, el := range cl.Elts {
		k := i
		val := el
		if kv, ok := el.(*ast.KeyValueExpr); ok {
			k = -1
			for j := 0; j < st.NumFields(); j++ {
				if st.Field(j).Name() == kv.Key.(*ast.Ident).Name {
					k = j
				}
			}
			val = kv.Value
		}
		if k < 0 || k >= st.NumFields() {
			return nil, nil, false
		}
		txt, ok := init(val)
		if !ok {
			return nil, nil, false
		}
		inits[k] = txt
	}
	for i := range inits {
		if inits[i] == "" {
			inits[i] = bareZero(g.zero(st.Field(i).Type()))
		}
	}
	return fs, inits, true
}

// rangeFunc translates `for k, v := range Iter(args) { body }` inside an iter.Seq2 closure, where Iter is a translated
// iter.Seq2 function of this package.  Go runs Iter with the loop body as its consumer: `break`/`return` answer
// false, `continue` and falling off the end answer true.  Consumers here are given the whole history of items, so
// the body becomes a pure step function (log, item) -> (log', go on?), the consumer handed to Iter replays the history
// through it, and the final log is the replay of the items Iter handed over.  An Iter that went on after the body
// had answered false is a run-time panic in Go (`none`).  The loop must be the closure's last statement.
func (g *gl) rangeFunc(w *wr, v *ast.RangeStmt) bool {
	c, ok := v.X.(*ast.CallExpr)
	if !ok || !g.yield2 || g.rdKind != "" || g.inRangeFunc {
		return false
	}
	var lname string
	var srcArg ast.Expr // newReader(x).iter(): the callee takes x's two components
	if sel, isSel := c.Fun.(*ast.SelectorExpr); isSel && g.ioReaderSrc != "" && len(c.Args) == 0 {
		inner, ok := sel.X.(*ast.CallExpr)
		if !ok || len(inner.Args) != 1 {
			return false
		}
		ctor, ok := inner.Fun.(*ast.Ident)
		if !ok {
			return false
		}
		if !g.readerCtorOK(ctor) {
			g.die(v, "the reader constructor does more than wrap its io.Reader")
		}
		mfn, ok := g.info.Uses[sel.Sel].(*types.Func)
		if !ok || mfn.Pkg() != g.pkg {
			return false
		}
		ln, ok := g.methodLean(mfn)
		if !ok {
			return false
		}
		lname, srcArg = ln, inner.Args[0]
	} else {
		fid, ok := c.Fun.(*ast.Ident)
		if !ok {
			return false
		}
		fn, ok := g.info.Uses[fid].(*types.Func)
		if !ok || fn.Pkg() != g.pkg {
			return false
		}
		lname = fid.Name
		if a, ok := g.funcAlias[lname]; ok {
			lname = a
		}
	}
	callee := g.funcs[lname]
	if callee == nil || !callee.found || !g.iterFuncs[lname] || callee.itemT == "" {
		return false
	}
	if ast.Stmt(v) != g.closureLast {
		g.die(v, "range over an iterator that is not the closure's last statement")
	}
	kid, ok1 := v.Key.(*ast.Ident)
	vid, ok2 := v.Value.(*ast.Ident)
	if !ok1 || !ok2 {
		g.die(v, "range over an iterator: loop variables")
	}
	parts := []string{lname}
	for _, k := range callee.exts {
		g.extUsed[k] = true
		parts = append(parts, g.extFuncs[k].param)
	}
	if callee.fuel {
		g.usesFuel = true
		parts = append(parts, "fuel")
	}
	for _, a := range c.Args {
		x := g.expr(a)
		if x.act {
			g.die(a, "iterator argument with effects")
		}
		parts = append(parts, x.arg())
	}
	if srcArg != nil {
		x := g.expr(srcArg)
		if x.act {
			g.die(srcArg, "iterator argument with effects")
		}
		parts = append(parts, x.arg()+".1", x.arg()+".2")
	}
	bw := &wr{b: &bytes.Buffer{}, ind: w.ind + 1}
	bw.line("let mut log := log")
	if kid.Name != "_" {
		bw.line("let " + g.nameOf(g.objOf(kid)) + " := item.1")
	}
	if vid.Name != "_" {
		bw.line("let " + g.nameOf(g.objOf(vid)) + " := item.2")
	}
	g.inRangeFunc = true
	g.loops = append(g.loops, "rangefunc")
	g.block(bw, v.Body.List)
	g.loops = g.loops[:len(g.loops)-1]
	g.inRangeFunc = false
	bw.line("return (log, true)")
	if strings.Contains(bw.b.String(), "←") {
		g.die(v, "range over an iterator: the loop body can panic")
	}
	w.line("let step : List " + g.yieldT + " → " + callee.itemT + " → (List " + g.yieldT + " × Bool) := fun log item => Id.run do")
	w.b.WriteString(bw.b.String())
	w.line("let log0 := log")
	w.line("let run : List " + callee.itemT + " → (List " + g.yieldT + " × Bool) := fun h => h.foldl (fun st item => if st.2 then step st.1 item else st) (log0, true)")
	if hwr, huse := g.heapFuncs[lname]; g.heapT != "" && huse {
		// the callee takes the heap (right after fuel) and, when it allocates, hands it back next to its log
		at := 1 + len(callee.exts)
		if callee.fuel {
			at++
		}
		parts = append(parts[:at], append([]string{"heap"}, parts[at:]...)...)
		if hwr {
			w.line("let innerH ← " + strings.Join(parts, " ") + " (fun h => (run h).2)")
			w.line("heap := innerH.2")
			w.line("let inner := innerH.1")
		} else {
			w.line("let inner ← " + strings.Join(parts, " ") + " (fun h => (run h).2)")
		}
	} else {
		w.line("let inner ← " + strings.Join(parts, " ") + " (fun h => (run h).2)")
	}
	w.line("if !(run inner.dropLast).2 then")
	w.ind++
	w.line("(none : Option Unit)") // the iterator went on after the loop body had ended the loop: Go panics
	w.ind--
	w.line("log := (run inner).1")
	return true
}

// recvStateCall: c is r.m(args) for the receiver r of the method being translated and a translated method m
// of the same type that threads the receiver's fields; returns the call and the caller's field variables
func (g *gl) recvStateCall(c *ast.CallExpr) (string, []string, bool) {
	txt, flds, _, ok := g.recvStateCallH(c)
	return txt, flds, ok
}

// recvStateCallH: as recvStateCall; the third result says that the callee also hands back the heap (right after
// its own results, before the receiver's fields)
func (g *gl) recvStateCallH(c *ast.CallExpr) (string, []string, bool, bool) {
	sel, ok := c.Fun.(*ast.SelectorExpr)
	if !ok {
		return "", nil, false, false
	}
	id, ok := sel.X.(*ast.Ident)
	if !ok || g.structLoc[g.objOf(id)] == nil || g.recLocal[g.objOf(id)] {
		return "", nil, false, false
	}
	fn, ok := g.info.Uses[sel.Sel].(*types.Func)
	if !ok || fn.Pkg() != g.pkg {
		return "", nil, false, false
	}
	lname, ok := g.methodNames["reader."+fn.Name()]
	callee := g.funcs[lname]
	if !ok || callee == nil || !callee.found || len(callee.recvState) == 0 {
		return "", nil, false, false
	}
	parts := []string{lname}
	for _, k := range callee.exts {
		g.extUsed[k] = true
		parts = append(parts, g.extFuncs[k].param)
	}
	if callee.fuel {
		g.usesFuel = true
		parts = append(parts, "fuel")
	}
	hwr, huse := g.heapFuncs[lname]
	if g.heapT != "" && huse {
		parts = append(parts, "heap")
	}
	var flds []string
	for _, f := range callee.recvState {
		flds = append(flds, id.Name+"_"+f)
	}
	parts = append(parts, flds...)
	for _, a := range c.Args {
		parts = append(parts, g.expr(a).arg())
	}
	return strings.Join(parts, " "), flds, g.heapT != "" && huse && hwr, true
}

// readStringCall: c is <recv>.<field>.ReadString(delim) on a receiver field of type *bufio.Reader
func (g *gl) readStringCall(c *ast.CallExpr) (string, string, bool) {
	sel, ok := c.Fun.(*ast.SelectorExpr)
	if ok && sel.Sel.Name == "ReadByte" && len(c.Args) == 0 && g.byteRd {
		if inner, ok := sel.X.(*ast.SelectorExpr); ok {
			if id, ok := inner.X.(*ast.Ident); ok && g.structLoc[g.objOf(id)] != nil {
				if tv, ok := g.info.Types[inner]; ok && g.leanTypeOK(tv.Type) == "ByteRd" {
					return id.Name + "_" + inner.Sel.Name, "", true
				}
			}
		}
	}
	if !ok || sel.Sel.Name != "ReadString" || len(c.Args) != 1 {
		return "", "", false
	}
	if lid, isLocal := sel.X.(*ast.Ident); isLocal && g.bufLocals[g.objOf(lid)] {
		return g.nameOf(g.objOf(lid)), g.expr(c.Args[0]).arg(), true
	}
	inner, ok := sel.X.(*ast.SelectorExpr)
	if !ok {
		return "", "", false
	}
	id, ok := inner.X.(*ast.Ident)
	if !ok || g.structLoc[g.objOf(id)] == nil {
		return "", "", false
	}
	if tv, ok := g.info.Types[inner]; !ok || g.leanTypeOK(tv.Type) != "BufRd" {
		return "", "", false
	}
	return id.Name + "_" + inner.Sel.Name, g.expr(c.Args[0]).arg(), true
}

// leanTypeOK is leanType without the bail-out ("" when the type cannot be expressed)
func (g *gl) leanTypeOK(t types.Type) (s string) {
	defer func() {
		if r := recover(); r != nil {
			if _, isBail := r.(bail); !isBail {
				panic(r)
			}
			s = ""
		}
	}()
	return g.leanType(t)
}

// typeSwitch: switch x := y.(type) over an `any` that is the model's sum type: a match on its constructors.
// A `default` clause is emitted only when some constructor is not named (the sum type has no other inhabitants:
// that `any` values are exactly these types is the declared abstraction).
func (g *gl) typeSwitch(w *wr, v *ast.TypeSwitchStmt) {
	if g.anyLean == "" || v.Init != nil {
		g.die(v, "type switch")
	}
	var subj ast.Expr
	bound := ""
	switch a := v.Assign.(type) {
	case *ast.AssignStmt:
		if len(a.Lhs) != 1 || len(a.Rhs) != 1 {
			g.die(v, "type switch form")
		}
		bound = a.Lhs[0].(*ast.Ident).Name
		subj = a.Rhs[0].(*ast.TypeAssertExpr).X
	case *ast.ExprStmt:
		subj = a.X.(*ast.TypeAssertExpr).X
	default:
		g.die(v, "type switch form")
	}
	x := g.expr(subj)
	if x.act {
		g.die(v, "type switch subject with effects")
	}
	w.line("match " + x.opnd() + " with")
	covered := map[string]bool{}
	var def *ast.CaseClause
	g.loops = append(g.loops, "switch")
	defer func() { g.loops = g.loops[:len(g.loops)-1] }()
	for _, st := range v.Body.List {
		cc := st.(*ast.CaseClause)
		if cc.List == nil {
			def = cc
			continue
		}
		if len(cc.List) != 1 {
			g.die(cc, "type switch clause with several types")
		}
		t := g.info.Types[cc.List[0]].Type
		key := ""
		switch {
		case isByte(t):
			key = "byte"
		case isFloat(t):
			key = "float64"
		case isInt(t):
			key = "int"
		default:
			if b, ok := t.Underlying().(*types.Basic); ok && b.Kind() == types.String {
				key = "string"
			} else if sl, ok := t.Underlying().(*types.Slice); ok && isByte(sl.Elem()) {
				key = "[]byte"
			}
		}
		ctor, ok := g.anyCtor[key]
		if !ok || covered[ctor] {
			g.die(cc, "type switch clause")
		}
		covered[ctor] = true
		name := "_"
		if o := g.info.Implicits[cc]; o != nil && bound != "" {
			name = g.nameOf(o)
		}
		w.line("| " + ctor + " " + name + " =>")
		w.ind++
		g.block(w, cc.Body)
		w.ind--
	}
	if len(covered) < len(g.anyCtor) {
		w.line("| _ =>")
		w.ind++
		if def != nil {
			g.block(w, def.Body)
		} else {
			w.line("pure ()")
		}
		w.ind--
	}
}

// oneLit stands for the constant 1 of `x++` / `x--`
var oneLit = &ast.BasicLit{Kind: token.INT, Value: "1"}

func (g *gl) rhsOf(e ast.Expr) ex {
	if e == ast.Expr(oneLit) {
		return atomE("1")
	}
	if t, ok := g.synthRhs[e]; ok {
		return atomE(t)
	}
	return g.expr(e)
}

// tupleSet: the n-field tuple t with field k replaced by v
func tupleSet(t string, k, n int, v string) string {
	if n == 1 {
		return v
	}
	var parts []string
	for i := 0; i < n; i++ {
		if i == k {
			parts = append(parts, v)
		} else {
			parts = append(parts, tupleProj(t, i, n))
		}
	}
	return "(" + strings.Join(parts, ", ") + ")"
}

var opOf = map[token.Token]token.Token{token.ADD_ASSIGN: token.ADD, token.SUB_ASSIGN: token.SUB, token.OR_ASSIGN: token.OR}
var opSym = map[token.Token]string{token.ADD: "+", token.SUB: "-", token.OR: "|||"}

// fieldOf: index and count of the field selected by se in its struct
func (g *gl) fieldOf(se *ast.SelectorExpr) (int, int, bool) {
	st, ok := g.structOf(se.X)
	if !ok {
		return 0, 0, false
	}
	for k := 0; k < st.NumFields(); k++ {
		if st.Field(k).Name() == se.Sel.Name {
			return k, st.NumFields(), true
		}
	}
	return 0, 0, false
}

func (g *gl) assignTo(w *wr, lhs ast.Expr, tok token.Token, rhs ast.Expr) {
	if x, k, ok := g.lheapField(lhs); ok {
		n := g.lheapStruct().NumFields()
		tp, tc := g.tmp(), g.tmp()
		var val string
		if tok == token.ASSIGN {
			tv := g.tmp()
			w.line("let " + tv + " := " + g.rhsOf(rhs).arg())
			val = tv
		}
		w.line("let " + tp + " : Int := " + g.expr(x).opnd())
		w.line("let " + tc + " ← idx lheap " + tp)
		if tok != token.ASSIGN {
			op, ok := opOf[tok]
			if !ok || op == token.OR {
				g.die(lhs, "assignment operator")
			}
			val = "(" + tupleProj(tc, k, n) + " " + opSym[op] + " " + g.rhsOf(rhs).arg() + ")"
		}
		w.line("lheap ← setIdx lheap " + tp + " " + tupleSet(tc, k, n, val))
		return
	}
	if x, ok := g.heapField(lhs); ok && tok == token.ASSIGN {
		// x.f = v through a pointer into the heap
		se := lhs.(*ast.SelectorExpr)
		st := g.heapStruct()
		k := -1
		for i := 0; i < st.NumFields(); i++ {
			if st.Field(i).Name() == se.Sel.Name {
				k = i
			}
		}
		if k < 0 {
			g.die(lhs, "heap field")
		}
		val := g.rhsOf(rhs).arg() // evaluated with the heap as it is before the write
		tp, tc, tv := g.tmp(), g.tmp(), g.tmp()
		w.line("let " + tv + " := " + val)
		w.line("let " + tp + " : Int := " + g.expr(x).opnd())
		w.line("let " + tc + " ← idx heap " + tp)
		w.line("heap ← setIdx heap " + tp + " " + tupleSet(tc, k, st.NumFields(), tv))
		return
	}
	if se, ok := lhs.(*ast.SelectorExpr); ok {
		if id, isLoc := se.X.(*ast.Ident); isLoc && g.structLoc[g.objOf(id)] != nil {
			// field of a struct-pointer local: a variable of its own
			e := g.expr(se)
			var r ex
			if tok == token.ASSIGN {
				r = g.rhsOf(rhs)
			} else {
				g.die(lhs, "assignment operator on a field")
			}
			w.line(bindText("", e.text, r))
			return
		}
		k, n, ok := g.fieldOf(se)
		if !ok {
			g.die(lhs, "assignment to a field of a non-struct")
		}
		value := func(cur string) string {
			if tok == token.ASSIGN {
				return g.rhsOf(rhs).arg()
			}
			op, ok := opOf[tok]
			if !ok || op == token.OR && !isByte(g.typeOf(se)) || !(isInt(g.typeOf(se)) || isByte(g.typeOf(se))) {
				g.die(lhs, "assignment operator")
			}
			return "(" + tupleProj(cur, k, n) + " " + opSym[op] + " " + g.rhsOf(rhs).arg() + ")"
		}
		switch x := se.X.(type) {
		case *ast.Ident: // v.f = …  for a struct-valued variable
			if _, isPtr := g.typeOf(x).Underlying().(*types.Pointer); isPtr {
				g.die(lhs, "assignment through a pointer")
			}
			name := g.lvName(x)
			w.line(name + " := " + tupleSet(name, k, n, value(name)))
			return
		case *ast.IndexExpr: // x[i].f = …  for a slice of structs
			id, ok := x.X.(*ast.Ident)
			if !ok || !isList(g.typeOf(x.X)) {
				break
			}
			if _, isPtr := g.typeOf(x).Underlying().(*types.Pointer); isPtr {
				g.die(lhs, "assignment through a pointer")
			}
			name := g.lvName(id)
			ti, te := g.tmp(), g.tmp()
			w.line("let " + ti + " : Int := " + g.indexInt(x.Index))
			w.line("let " + te + " ← idx " + name + " " + ti)
			w.line(name + " ← setIdx " + name + " " + ti + " " + tupleSet(te, k, n, value(te)))
			return
		}
		g.die(lhs, "assignment target")
	}
	if se, ok := lhs.(*ast.StarExpr); ok && tok == token.ASSIGN {
		// *p[i] = v for an out-parameter list p
		if ie, ok := se.X.(*ast.IndexExpr); ok {
			if id, ok := ie.X.(*ast.Ident); ok && g.isOutList(g.typeOf(ie.X)) {
				n := g.lvName(id)
				w.line(n + " ← setIdx " + n + " " + g.indexInt(ie.Index) + " " + g.rhsOf(rhs).arg())
				return
			}
		}
		g.die(lhs, "assignment through a pointer")
	}
	switch l := lhs.(type) {
	case *ast.Ident:
		if l.Name == "_" {
			g.die(l, "blank assignment")
		}
		name := g.lvName(l)
		var r ex
		if tok == token.ASSIGN {
			r = g.rhsOf(rhs)
		} else if op, ok := opOf[tok]; ok {
			if rhs == ast.Expr(oneLit) {
				if !isInt(g.typeOf(l)) || isFloat(g.typeOf(l)) {
					g.die(lhs, "++/-- on a non-int")
				}
				r = ex{text: name + " " + opSym[op] + " 1"}
			} else {
				r = g.binary(&ast.BinaryExpr{X: l, Op: op, Y: rhs})
			}
		} else {
			g.die(lhs, "assignment operator")
		}
		w.line(bindText("", name, r))
		return
	case *ast.IndexExpr:
		if m, ok := g.typeOf(l.X).Underlying().(*types.Map); ok && isEmptyStruct(m.Elem()) && tok == token.ASSIGN {
			if id, ok := l.X.(*ast.Ident); ok {
				n := g.lvName(id)
				w.line(n + " := setInsert " + n + " " + g.expr(l.Index).arg())
				return
			}
		}
		if x, ok := g.heapField(l.X); ok && tok == token.ASSIGN {
			tp := g.tmp()
			w.line("let " + tp + " : Int := " + g.expr(x).opnd())
			w.line("heap ← setIdx heap " + tp + " (mapSet (← idx heap " + tp + ") " + g.expr(l.Index).arg() + " " + g.rhsOf(rhs).arg() + ")")
			return
		}
		if m, ok := g.typeOf(l.X).Underlying().(*types.Map); ok && !isEmptyStruct(m.Elem()) && tok == token.ASSIGN {
			if id, ok := l.X.(*ast.Ident); ok {
				n := g.lvName(id)
				val := g.rhsOf(rhs).arg()
				if it, isI := m.Elem().Underlying().(*types.Interface); isI && it.NumMethods() == 0 && g.anyLean != "" {
					val = g.toAny(rhs, val)
				}
				w.line(n + " := mapSet " + n + " " + g.expr(l.Index).arg() + " " + val)
				return
			}
		}
		name := ""
		if id, ok := l.X.(*ast.Ident); ok && isList(g.typeOf(l.X)) {
			name = g.lvName(id)
		} else if se, ok := l.X.(*ast.SelectorExpr); ok && isList(g.typeOf(l.X)) {
			if sid, ok := se.X.(*ast.Ident); ok && g.structLoc[g.objOf(sid)] != nil {
				name = g.expr(se).text // the variable standing for the field
			}
		}
		if name == "" {
			break
		}
		i := g.indexInt(l.Index)
		var val string
		if tok == token.ASSIGN {
			val = g.rhsOf(rhs).arg()
		} else if op, ok := opOf[tok]; ok {
			val = "((← idx " + name + " " + i + ") " + opSym[op] + " " + g.rhsOf(rhs).arg() + ")"
		} else {
			g.die(lhs, "assignment operator")
		}
		w.line(name + " ← setIdx " + name + " " + i + " " + val)
		return
	}
	g.die(lhs, "assignment target")
}

func (g *gl) stmt(w *wr, s ast.Stmt) {
	if g.iterStmt(w, s) {
		return
	}
	if g.lheapT != "" && g.rdKind == "" {
		if v, ok := s.(*ast.AssignStmt); ok && len(v.Lhs) == 1 && len(v.Rhs) == 1 && (v.Tok == token.ASSIGN || v.Tok == token.DEFINE) {
			var val string
			ann := " : Int"
			switch r := v.Rhs[0].(type) {
			case *ast.UnaryExpr: // x := &T{…}
				if cl, ok := r.X.(*ast.CompositeLit); ok && r.Op == token.AND && g.isLHeapPtr(g.typeOf(r)) {
					val = g.lheapAlloc(w, cl)
				}
			case *ast.CompositeLit: // x := []*T{{…}, …}
				if sl, ok := g.typeOf(r).Underlying().(*types.Slice); ok && g.isLHeapPtr(sl.Elem()) && len(r.Elts) > 0 {
					var ps []string
					for _, el := range r.Elts {
						switch e := el.(type) {
						case *ast.CompositeLit:
							ps = append(ps, g.lheapAlloc(w, e))
						case *ast.UnaryExpr:
							cl, ok := e.X.(*ast.CompositeLit)
							if !ok || e.Op != token.AND {
								g.die(el, "slice literal element")
							}
							ps = append(ps, g.lheapAlloc(w, cl))
						default:
							g.die(el, "slice literal element")
						}
					}
					val, ann = "["+strings.Join(ps, ", ")+"]", " : List Int"
				}
			case *ast.CallExpr: // x = append(x, &T{…})
				if id, ok := r.Fun.(*ast.Ident); ok && id.Name == "append" && len(r.Args) == 2 && r.Ellipsis == token.NoPos {
					if u, ok := r.Args[1].(*ast.UnaryExpr); ok && u.Op == token.AND && g.isLHeapPtr(g.typeOf(u)) {
						if cl, ok := u.X.(*ast.CompositeLit); ok {
							tp := g.lheapAlloc(w, cl)
							val, ann = g.expr(r.Args[0]).arg()+" ++ ["+tp+"]", " : List Int"
						}
					}
				}
			}
			if val != "" {
				id, isId := v.Lhs[0].(*ast.Ident)
				if !isId {
					g.die(v, "allocation assigned to a non-variable")
				}
				if v.Tok == token.DEFINE && g.info.Defs[id] != nil {
					kw := "let "
					if g.mut[g.objOf(id)] {
						kw = "let mut "
					}
					w.line(kw + g.nameOf(g.objOf(id)) + ann + " := " + val)
				} else {
					w.line(g.lvName(id) + " := " + val)
				}
				return
			}
		}
	}
	if g.heapT != "" && g.rdKind == "" {
		if v, ok := s.(*ast.AssignStmt); ok && len(v.Lhs) == 1 && len(v.Rhs) == 1 && (v.Tok == token.ASSIGN || v.Tok == token.DEFINE) {
			// x := &T{…} / x = &T{…} / x := []*T{{…}, …}: allocations are statements
			var ptr string
			isSlice := false
			if u, ok := v.Rhs[0].(*ast.UnaryExpr); ok && u.Op == token.AND && g.isHeapPtr(g.typeOf(u)) {
				ptr = g.heapAlloc(w, u)
			} else if cl, ok := v.Rhs[0].(*ast.CompositeLit); ok {
				if sl, ok := g.typeOf(cl).Underlying().(*types.Slice); ok && g.isHeapPtr(sl.Elem()) && len(cl.Elts) > 0 {
					var ps []string
					for _, el := range cl.Elts {
						switch e := el.(type) {
						case *ast.CompositeLit:
							ps = append(ps, g.heapAllocLit(w, e))
						case *ast.UnaryExpr:
							if e.Op != token.AND {
								g.die(el, "slice literal element")
							}
							ps = append(ps, g.heapAlloc(w, e))
						default:
							g.die(el, "slice literal element")
						}
					}
					ptr, isSlice = "["+strings.Join(ps, ", ")+"]", true
				}
			}
			if ptr != "" {
				id, isId := v.Lhs[0].(*ast.Ident)
				if !isId {
					g.die(v, "allocation assigned to a non-variable")
				}
				ann := " : Int"
				if isSlice {
					ann = " : List Int"
				}
				if v.Tok == token.DEFINE && g.info.Defs[id] != nil {
					kw := "let "
					if g.mut[g.objOf(id)] {
						kw = "let mut "
					}
					w.line(kw + g.nameOf(g.objOf(id)) + ann + " := " + ptr)
				} else {
					w.line(g.lvName(id) + " := " + ptr)
				}
				return
			}
			if c, ok := v.Rhs[0].(*ast.CallExpr); ok {
				if txt, wrs, ok := g.heapCall(c); ok && wrs {
					id, isId := v.Lhs[0].(*ast.Ident)
					if !isId {
						g.die(v, "result of a heap-writing call assigned to a non-variable")
					}
					t := g.tmp()
					w.line("let " + t + " ← " + txt)
					w.line("heap := " + t + ".2")
					if v.Tok == token.DEFINE && g.info.Defs[id] != nil {
						kw := "let "
						if g.mut[g.objOf(id)] {
							kw = "let mut "
						}
						w.line(kw + g.nameOf(g.objOf(id)) + " := " + t + ".1")
					} else {
						w.line(g.lvName(id) + " := " + t + ".1")
					}
					return
				}
			}
		}
		if es, ok := s.(*ast.ExprStmt); ok {
			if c, ok := es.X.(*ast.CallExpr); ok {
				if txt, wrs, ok := g.heapCall(c); ok && wrs {
					fnT, _ := g.typeOf(c).(*types.Tuple)
					if fnT != nil && fnT.Len() == 0 {
						w.line("heap ← " + txt)
					} else {
						w.line("heap := (← " + txt + ").2")
					}
					return
				}
			}
		}
	}
	switch v := s.(type) {
	case *ast.AssignStmt:
		if _, ok := g.fprintfStmt(w, v); ok {
			return
		}
		if v.Tok == token.DEFINE && g.rdKind == "" && len(v.Lhs) == 2 && len(v.Rhs) == 1 {
			// s, ok := m[k]
			if ie, ok := v.Rhs[0].(*ast.IndexExpr); ok {
				if m, ok := g.typeOf(ie.X).Underlying().(*types.Map); ok && !isEmptyStruct(m.Elem()) {
					a, b := v.Lhs[0].(*ast.Ident), v.Lhs[1].(*ast.Ident)
					if g.info.Defs[a] == nil || g.info.Defs[b] == nil || a.Name == "_" || b.Name == "_" {
						g.die(v, "comma-ok form with a blank or an already declared variable")
					}
					mt, kt := g.tmp(), g.tmp()
					w.line("let " + mt + " := " + g.expr(ie.X).opnd())
					w.line("let " + kt + " : " + g.leanType(m.Key()) + " := " + g.expr(ie.Index).opnd())
					kwA, kwB := "let ", "let "
					if g.mut[g.objOf(a)] {
						kwA = "let mut "
					}
					if g.mut[g.objOf(b)] {
						kwB = "let mut "
					}
					w.line(kwA + g.nameOf(g.objOf(a)) + " : " + g.leanType(m.Elem()) + " := mapGet " + mt + " " + kt + " " + g.zero(m.Elem()))
					w.line(kwB + g.nameOf(g.objOf(b)) + " : Bool := mapHas " + mt + " " + kt)
					return
				}
			}
		}
		if (v.Tok == token.DEFINE || v.Tok == token.ASSIGN) && g.rdKind == "" && len(v.Lhs) > 1 && len(v.Rhs) == 1 {
			// a, b, c := f(…) / a, b = f(…): the callee returns a tuple
			if c, ok := v.Rhs[0].(*ast.CallExpr); ok {
				if tup, ok := g.typeOf(c).(*types.Tuple); ok && tup.Len() == len(v.Lhs) {
					t := g.tmp()
					nproj := tup.Len()
					if txt, flds, hwr, ok := g.recvStateCallH(c); ok {
						// a, b := r.method(): the callee hands back (the heap and) the receiver's fields after its results
						w.line("let " + t + " ← " + txt)
						off := tup.Len()
						if hwr {
							off++
						}
						nproj = off + len(flds)
						if hwr {
							w.line("heap := " + tupleProj(t, tup.Len(), nproj))
						}
						for k, fl := range flds {
							w.line(fl + " := " + tupleProj(t, off+k, nproj))
						}
					} else if fld, delim, ok := g.readStringCall(c); ok {
						// line, err := r.r.ReadString(d): the reader field is a state that the call advances
						if delim == "" {
							w.line("let " + t + " := readByte " + fld)
						} else {
							w.line("let " + t + " := readString " + fld + " " + delim)
						}
						w.line(fld + " := " + t + ".2.2")
						nproj = 3
					} else {
						w.line(bindText("let ", t, g.expr(c)))
					}
					for i, l := range v.Lhs {
						id, ok := l.(*ast.Ident)
						if !ok {
							// a field or an element: assigned like any other value
							fake := &ast.BasicLit{Kind: token.INT, Value: "0"}
							if g.synthRhs == nil {
								g.synthRhs = map[ast.Expr]string{}
							}
							g.synthRhs[fake] = tupleProj(t, i, nproj)
							g.assignTo(w, l, token.ASSIGN, fake)
							continue
						}
						if id.Name == "_" {
							continue
						}
						proj := tupleProj(t, i, nproj)
						if v.Tok == token.DEFINE && g.info.Defs[id] != nil {
							kw := "let "
							if g.mut[g.objOf(id)] {
								kw = "let mut "
							}
							w.line(kw + g.nameOf(g.objOf(id)) + " := " + proj)
						} else {
							w.line(g.lvName(id) + " := " + proj)
						}
					}
					return
				}
			}
		}
		if v.Tok == token.DEFINE && len(v.Lhs) > 1 && len(v.Lhs) == len(v.Rhs) && g.rdKind == "" {
			// a, b := x, y: every right-hand side is evaluated before any variable is bound
			var ts []string
			for _, r := range v.Rhs {
				t := g.tmp()
				ann := ""
				if tv, ok := g.info.Types[r]; ok && tv.Value != nil {
					ann = " : " + g.leanType(tv.Type)
				}
				w.line(bindText("let ", t+ann, g.expr(r)))
				ts = append(ts, t)
			}
			for i, l := range v.Lhs {
				id, ok := l.(*ast.Ident)
				if !ok {
					g.die(v, "multi-value := target")
				}
				if id.Name == "_" {
					continue
				}
				if g.info.Defs[id] != nil {
					kw := "let "
					if g.mut[g.objOf(id)] {
						kw = "let mut "
					}
					w.line(kw + g.nameOf(g.objOf(id)) + " : " + g.leanType(g.objOf(id).Type()) + " := " + ts[i])
				} else {
					w.line(g.lvName(id) + " := " + ts[i])
				}
			}
			return
		}
		if (v.Tok == token.DEFINE || v.Tok == token.ASSIGN) && len(v.Lhs) == 1 && len(v.Rhs) == 1 && g.outParams && g.rdKind == "" {
			if c, ok := v.Rhs[0].(*ast.CallExpr); ok {
				if f, ok := c.Fun.(*ast.Ident); ok {
					if fn, ok := g.info.Uses[f].(*types.Func); ok && fn.Pkg() == g.pkg {
						if callee := g.funcs[fn.Name()]; callee != nil && callee.found && callee.outLists == 1 {
							// err := f(x, &a, &b, …): the variadic tail is the list of pointee values, copied back after the call
							sig := fn.Type().(*types.Signature)
							nfix := sig.Params().Len() - 1
							parts := []string{fn.Name()}
							for _, k := range callee.exts {
								g.extUsed[k] = true
								parts = append(parts, g.extFuncs[k].param)
							}
							if callee.fuel {
								g.usesFuel = true
								parts = append(parts, "fuel")
							}
							for _, a := range c.Args[:nfix] {
								parts = append(parts, g.expr(a).arg())
							}
							var targets []string
							for _, a := range c.Args[nfix:] {
								t := g.addrTarget(a)
								if t == "" {
									g.die(a, "out-parameter that is not the address of a variable")
								}
								targets = append(targets, t)
							}
							seen := map[string]bool{}
							for _, t := range targets {
								if seen[t] {
									g.die(v, "the same variable passed twice as an out-parameter")
								}
								seen[t] = true
							}
							parts = append(parts, "["+strings.Join(targets, ", ")+"]")
							t := g.tmp()
							w.line("let " + t + " ← " + strings.Join(parts, " "))
							for k, tg := range targets {
								w.line(tg + " ← idx " + t + ".2 " + fmt.Sprint(k))
							}
							id := v.Lhs[0].(*ast.Ident)
							if v.Tok == token.DEFINE && g.info.Defs[id] != nil {
								kw := "let "
								if g.mut[g.objOf(id)] {
									kw = "let mut "
								}
								w.line(kw + g.nameOf(g.objOf(id)) + " := " + t + ".1")
							} else {
								w.line(g.lvName(id) + " := " + t + ".1")
							}
							return
						}
					}
				}
			}
		}
		if v.Tok == token.DEFINE {
			if len(v.Lhs) != 1 || len(v.Rhs) != 1 {
				g.die(v, "multi-value :=")
			}
			id := v.Lhs[0].(*ast.Ident)
			if c, ok := v.Rhs[0].(*ast.CallExpr); ok && g.ioReaderScan && len(c.Args) == 1 {
				if sel, ok := c.Fun.(*ast.SelectorExpr); ok {
					if pk, ok := sel.X.(*ast.Ident); ok {
						if pn, ok := g.info.Uses[pk].(*types.PkgName); ok {
							switch pn.Imported().Path() + "." + sel.Sel.Name {
							case "bufio.NewScanner":
								// sc := bufio.NewScanner(r): the scanner IS the token stream of r (tokens not yet returned, how r ends)
								if g.scanObj != nil {
									g.die(v, "second scanner")
								}
								g.scanObj = g.objOf(id)
								w.line("let " + g.nameOf(g.objOf(id)) + " : ScanRd := " + g.expr(c.Args[0]).opnd())
								return
							case "regexp.MustCompile":
								tv, ok := g.info.Types[c.Args[0]]
								if !ok || tv.Value == nil || tv.Value.Kind() != constant.String {
									g.die(v, "regexp with a computed pattern")
								}
								if g.reLocals == nil {
									g.reLocals = map[types.Object]string{}
								}
								g.reLocals[g.objOf(id)] = constant.StringVal(tv.Value)
								w.line("-- " + id.Name + " := regexp.MustCompile(" + strconv.Quote(constant.StringVal(tv.Value)) + ")")
								return
							}
						}
					}
				}
			}
			if c, ok := v.Rhs[0].(*ast.CallExpr); ok && g.ioReaderBuf && len(c.Args) == 1 {
				if sel, ok := c.Fun.(*ast.SelectorExpr); ok && sel.Sel.Name == "NewReader" {
					if pk, ok := sel.X.(*ast.Ident); ok {
						if pn, ok := g.info.Uses[pk].(*types.PkgName); ok && pn.Imported().Path() == "bufio" {
							// br := bufio.NewReader(r): the buffered reader IS the remaining input of r
							g.bufLocals[g.objOf(id)] = true
							g.mut[g.objOf(id)] = true
							w.line("let mut " + g.nameOf(g.objOf(id)) + " : BufRd := " + g.expr(c.Args[0]).opnd())
							return
						}
					}
				}
			}
			if c, ok := v.Rhs[0].(*ast.CallExpr); ok && g.hashers != nil {
				if sel, ok := c.Fun.(*ast.SelectorExpr); ok {
					if pk, ok := sel.X.(*ast.Ident); ok {
						if pn, ok := g.info.Uses[pk].(*types.PkgName); ok {
							if _, ok := g.hashers[pn.Imported().Name()+"."+sel.Sel.Name]; ok && len(c.Args) == 1 {
								// h := murmur3.New64WithSeed(seed): the bytes written since the last Reset
								g.hashLocals[g.objOf(id)] = g.expr(c.Args[0]).arg()
								g.hashKind[g.objOf(id)] = g.hashers[pn.Imported().Name()+"."+sel.Sel.Name]
								g.mut[g.objOf(id)] = true
								w.line("let mut " + g.nameOf(g.objOf(id)) + " : List UInt8 := []")
								return
							}
						}
					}
				}
			}
			if isAccum(g.typeOf(v.Rhs[0])) {
				// b := &strings.Builder{} / bytes.NewBuffer(nil) / &bytes.Buffer{}: an empty accumulator
				empty := false
				switch r := v.Rhs[0].(type) {
				case *ast.UnaryExpr:
					if cl, ok := r.X.(*ast.CompositeLit); ok && r.Op == token.AND && len(cl.Elts) == 0 {
						empty = true
					}
				case *ast.CallExpr:
					if sel, ok := r.Fun.(*ast.SelectorExpr); ok && sel.Sel.Name == "NewBuffer" && len(r.Args) == 1 && isNilIdent(r.Args[0]) {
						empty = true
					}
				}
				if c, ok := v.Rhs[0].(*ast.CallExpr); ok && !empty && g.wrMethods != nil {
					if sel, ok := c.Fun.(*ast.SelectorExpr); ok && sel.Sel.Name == "NewBuffer" && len(c.Args) == 1 {
						// bytes.NewBuffer(b): the buffer starts with the bytes of b
						g.mut[g.objOf(id)] = true
						w.line(bindText("let mut ", g.nameOf(g.objOf(id))+" : List UInt8", g.expr(c.Args[0])))
						return
					}
				}
				if !empty {
					g.die(v, "accumulator initialiser")
				}
				g.mut[g.objOf(id)] = true
				w.line("let mut " + g.nameOf(g.objOf(id)) + " : List UInt8 := []")
				return
			}
			if c, ok := v.Rhs[0].(*ast.CallExpr); ok && g.rdKind == "" && g.recT != nil && g.ioReaderBuf && len(c.Args) == 1 {
				if fid, ok := c.Fun.(*ast.Ident); ok {
					if fs, inits, ok := g.ctorFields(fid, c.Args[0]); ok {
						// rd := newReader(r) where newReader is `return &reader{…}`: the reader is one mutable variable per field,
						// a *bufio.Reader made from r is the remaining input of r, a fresh *bytes.Buffer is empty
						for i, f := range fs {
							g.takenMut[id.Name+"_"+f.Name()] = true
							w.line("let mut " + id.Name + "_" + f.Name() + " : " + g.leanType(f.Type()) + " := " + inits[i])
						}
						var names []string
						for _, f := range fs {
							names = append(names, f.Name())
						}
						g.structLoc[g.objOf(id)] = names
						return
					}
				}
			}
			if u, ok := v.Rhs[0].(*ast.UnaryExpr); ok && u.Op == token.AND && g.rdKind == "" && g.recT != nil && g.isRecPtr(g.typeOf(u)) {
				// bed := &BED{N: n}: a record under construction, one variable per field
				cl, ok := u.X.(*ast.CompositeLit)
				if !ok {
					g.die(v, "record allocation")
				}
				st := g.typeOf(cl).Underlying().(*types.Struct)
				inits := map[string]string{}
				for _, el := range cl.Elts {
					kv, ok := el.(*ast.KeyValueExpr)
					if !ok {
						g.die(v, "positional record literal")
					}
					inits[kv.Key.(*ast.Ident).Name] = g.expr(kv.Value).opnd()
				}
				var fs []string
				for i := 0; i < st.NumFields(); i++ {
					f := st.Field(i)
					fs = append(fs, f.Name())
					val := bareZero(g.zero(f.Type()))
					if iv, ok := inits[f.Name()]; ok {
						val = iv
					}
					g.takenMut[id.Name+"_"+f.Name()] = true
					w.line("let mut " + id.Name + "_" + f.Name() + " : " + g.leanType(f.Type()) + " := " + val)
				}
				g.structLoc[g.objOf(id)] = fs
				g.recLocal[g.objOf(id)] = true
				return
			}
			if u, ok := v.Rhs[0].(*ast.UnaryExpr); ok && u.Op == token.AND && g.rdKind != "" {
				if cl, ok := u.X.(*ast.CompositeLit); ok && len(cl.Elts) == 0 {
					if st, ok := g.typeOf(cl).Underlying().(*types.Struct); ok {
						var fs []string
						for i := 0; i < st.NumFields(); i++ {
							f := st.Field(i)
							fs = append(fs, f.Name())
							w.line("let mut " + id.Name + "_" + f.Name() + " : " + g.leanType(f.Type()) + " := " + bareZero(g.zero(f.Type())))
						}
						g.structLoc[g.objOf(id)] = fs
						return
					}
				}
			}
			kw := "let "
			ann := ""
			if g.mut[g.objOf(id)] {
				kw = "let mut "
			}
			if c, ok := v.Rhs[0].(*ast.CallExpr); ok {
				if f, ok := c.Fun.(*ast.Ident); ok && f.Name == "make" {
					ann = " : " + g.leanType(g.typeOf(v.Rhs[0]))
				}
			}
			if _, ok := v.Rhs[0].(*ast.CompositeLit); ok {
				ann = " : " + g.leanType(g.typeOf(v.Rhs[0]))
			}
			if tv, ok := g.info.Types[v.Rhs[0]]; ok && tv.Value != nil {
				ann = " : " + g.leanType(g.objOf(id).Type()) // an unannotated numeral would default to Nat
			}
			if g.declared[id.Name] && g.rdKind != "" && g.rdKind != "write" {
				g.die(v, "redeclaration of "+id.Name+" in an inner scope")
			}
			g.declared[id.Name] = true
			rhsE := g.expr(v.Rhs[0]) // before the name is allotted: `x := f(x)` refers to the outer x
			w.line(bindText(kw, g.nameOf(g.objOf(id))+ann, rhsE))
			return
		}
		if len(v.Lhs) == len(v.Rhs) {
			if len(v.Lhs) > 1 {
				// parallel assignment (Go spec): first the index operands on the left and all right-hand sides
				// are evaluated, then the assignments are carried out left to right
				if v.Tok != token.ASSIGN {
					g.die(v, "parallel assignment operator")
				}
				if g.constParallel(v) {
					for i := range v.Lhs {
						g.assignTo(w, v.Lhs[i], v.Tok, v.Rhs[i])
					}
					return
				}
				type tgt struct {
					name, index string
				}
				var tgts []tgt
				for _, l := range v.Lhs {
					switch x := l.(type) {
					case *ast.Ident:
						if x.Name == "_" {
							g.die(v, "blank in a parallel assignment")
						}
						tgts = append(tgts, tgt{g.lvName(x), ""})
					case *ast.IndexExpr:
						id, ok := x.X.(*ast.Ident)
						if !ok || !isList(g.typeOf(x.X)) {
							g.die(v, "parallel assignment target")
						}
						ti := g.tmp()
						w.line("let " + ti + " : Int := " + g.indexInt(x.Index))
						tgts = append(tgts, tgt{g.lvName(id), ti})
					default:
						g.die(v, "parallel assignment target")
					}
				}
				var vals []string
				for i, r := range v.Rhs {
					tv := g.tmp()
					w.line(bindText("let ", tv+" : "+g.leanType(g.typeOf(v.Lhs[i])), g.expr(r)))
					vals = append(vals, tv)
				}
				for i, t := range tgts {
					if t.index == "" {
						w.line(t.name + " := " + vals[i])
					} else {
						w.line(t.name + " ← setIdx " + t.name + " " + t.index + " " + vals[i])
					}
				}
				return
			}
			for i := range v.Lhs {
				g.assignTo(w, v.Lhs[i], v.Tok, v.Rhs[i])
			}
			return
		}
	case *ast.IncDecStmt:
		if g.rdKind == "" {
			tok := token.ADD_ASSIGN
			if v.Tok == token.DEC {
				tok = token.SUB_ASSIGN
			}
			g.assignTo(w, v.X, tok, oneLit)
			return
		}
	case *ast.LabeledStmt:
		if g.rdKind == "" {
			if _, isFor := v.Stmt.(*ast.ForStmt); isFor {
				g.pendLabel = v.Label.Name
				g.stmt(w, v.Stmt)
				return
			}
		}
		if g.rdKind == "bytes" {
			g.rdLabel = v.Label.Name
			g.stmt(w, v.Stmt)
			return
		}
	case *ast.BranchStmt:
		if v.Tok == token.CONTINUE && v.Label == nil {
			for k := len(g.loops) - 1; k >= 0; k-- { // `continue` looks through switches
				if g.loops[k] != "switch" {
					if g.loops[k] == "rangefunc" {
						w.line("return (log, true)") // the loop body ends, the iterator goes on
						return
					}
					break
				}
			}
			w.line("continue")
			return
		}
		if v.Tok == token.BREAK && v.Label != nil && g.rdKind == "" {
			// a labelled break is translated only when it leaves the INNERMOST loop (switches in between are
			// if-chains in Lean, so Lean's `break` leaves that loop)
			for k := len(g.loops) - 1; k >= 0; k-- {
				e := g.loops[k]
				if e == "switch" {
					continue
				}
				parts := strings.Split(e, ":")
				if parts[len(parts)-1] != "@"+v.Label.Name {
					g.die(v, "labelled break out of an outer loop")
				}
				if parts[0] == "while" {
					w.line("done_" + parts[1] + " := true")
				}
				w.line("break")
				return
			}
			g.die(v, "labelled break outside a loop")
		}
		if v.Tok == token.BREAK && v.Label == nil && len(g.loops) > 0 {
			switch top := g.loops[len(g.loops)-1]; {
			case top == "rangefunc":
				w.line("return (log, false)") // the loop body tells the iterator to stop
				return
			case top == "for" || strings.HasPrefix(top, "for:"):
				w.line("break")
				return
			case strings.HasPrefix(top, "while:"):
				w.line("done_" + strings.Split(top, ":")[1] + " := true")
				w.line("break")
				return
			}
			g.die(v, "break out of a switch")
		}
		if g.rdKind == "bytes" && v.Tok == token.BREAK && v.Label != nil && v.Label.Name == g.rdLabel {
			w.line("broke := true")
			w.line("break")
			return
		}
	case *ast.DeferStmt:
		// defer f.Close() on an opened file: closing has no effect on the items handed over; not modelled
		if sel, ok := v.Call.Fun.(*ast.SelectorExpr); ok && sel.Sel.Name == "Close" && len(v.Call.Args) == 0 && (g.ioReaderBuf || g.ioReaderSrc != "") {
			if id, ok := sel.X.(*ast.Ident); ok {
				if lt := g.leanTypeOK(g.typeOf(id)); lt == "BufRd" || lt == "ByteRd" || strings.HasSuffix(lt, "× Ending)") {
					w.line("-- defer " + id.Name + ".Close(): not modelled (no effect on the items)")
					return
				}
			}
		}
	case *ast.DeclStmt:
		gd, ok := v.Decl.(*ast.GenDecl)
		if ok && gd.Tok == token.CONST {
			return // local constants are folded by go/types wherever they are used
		}
		if ok && gd.Tok == token.VAR {
			for _, sp := range gd.Specs {
				vs := sp.(*ast.ValueSpec)
				if len(vs.Values) != 0 {
					g.die(v, "var with initialiser")
				}
				for _, n := range vs.Names {
					t := g.info.Defs[n].Type()
					if isErr(t) {
						w.line("let mut " + n.Name + " := GoErr.nil")
						continue
					}
					if g.rdKind == "bytes" && n.Name == g.rdLoopVar {
						continue // bound by the `for … in src` that replaces the ReadByte loop
					}
					g.mut[g.info.Defs[n]] = true
					w.line("let mut " + g.nameOf(g.info.Defs[n]) + " : " + g.leanType(t) + " := " + bareZero(g.zero(t)))
				}
			}
			return
		}
	case *ast.ExprStmt:
		if c, ok := v.X.(*ast.CallExpr); ok && g.yield2 {
			if id, ok := c.Fun.(*ast.Ident); ok && id.Name == "yield" && len(c.Args) == 2 {
				// the consumer's answer is ignored by the Go code: the item is logged, nothing is asked
				w.line("log := log ++ [" + g.yieldPair(c) + "]")
				return
			}
		}
		if c, ok := v.X.(*ast.CallExpr); ok && g.scanObj != nil {
			if sel, ok := c.Fun.(*ast.SelectorExpr); ok {
				if id, ok := sel.X.(*ast.Ident); ok && g.objOf(id) == g.scanObj {
					if sel.Sel.Name == "Buffer" && len(c.Args) == 2 && g.scanLoops == 0 {
						// sc.Buffer(buf, math.MaxInt): lifts the token-size limit -- ScanRd has none
						if tv, ok := g.info.Types[c.Args[1]]; ok && tv.Value != nil {
							if n, exact := constant.Int64Val(tv.Value); exact && n == math.MaxInt64 {
								w.line("-- " + id.Name + ".Buffer(_, math.MaxInt): no token is too long")
								return
							}
						}
					}
					g.die(c, "scanner method "+sel.Sel.Name+" as a statement")
				}
			}
		}
		if c, ok := v.X.(*ast.CallExpr); ok && g.wrMethods != nil && len(c.Args) == 1 {
			if sel, ok := c.Fun.(*ast.SelectorExpr); ok {
				if id, ok := sel.X.(*ast.Ident); ok {
					if fs, isRecv := g.structLoc[g.objOf(id)]; isRecv {
						rt := g.objOf(id).Type()
						if p, ok := rt.Underlying().(*types.Pointer); ok {
							rt = p.Elem()
						}
						if nt, ok := rt.(*types.Named); ok {
							if ln, ok := g.wrMethods[nt.Obj().Name()+"."+sel.Sel.Name]; ok {
								if av, ok := g.accumVar(c.Args[0]); ok {
									// f.Write(buf) with buf a *bytes.Buffer, result ignored: the buffer is the Wr ⟨room, bytes so far⟩;
									// a Buffer never refuses bytes, which is what `room` (a parameter) being large enough says
									g.usesRoom = true
									parts := []string{ln}
									for _, f := range fs {
										parts = append(parts, id.Name+"_"+f)
									}
									t := g.tmp()
									w.line("let " + t + " ← " + strings.Join(parts, " ") + " ⟨room, " + av + "⟩")
									w.line(av + " := " + t + ".2.out")
									return
								}
							}
						}
					}
				}
			}
		}
		if c, ok := v.X.(*ast.CallExpr); ok && g.accumStmt(w, c) {
			return
		}
		if c, ok := v.X.(*ast.CallExpr); ok && g.extObjs != nil {
			if sel, ok := c.Fun.(*ast.SelectorExpr); ok {
				if id, ok := sel.X.(*ast.Ident); ok {
					if g.extObjs[id.Name] {
						// mh.Push(x): an operation of the abstract object
						op := id.Name + "_" + sel.Sel.Name
						if _, ok := g.extObjOps[op]; !ok {
							g.die(c, "method "+sel.Sel.Name+" of the external object "+id.Name)
						}
						g.extObjUsed[op] = true
						parts := []string{op, id.Name}
						for _, a := range c.Args {
							parts = append(parts, g.expr(a).arg())
						}
						w.line(id.Name + " := " + strings.Join(parts, " "))
						return
					}
					if _, ok := g.hashLocals[g.objOf(id)]; ok {
						hv := g.nameOf(g.objOf(id))
						switch {
						case sel.Sel.Name == "Reset" && len(c.Args) == 0:
							w.line(hv + " := []")
						case sel.Sel.Name == "Write" && len(c.Args) == 1:
							w.line(hv + " := " + hv + " ++ " + g.expr(c.Args[0]).arg())
						default:
							g.die(c, "hasher method "+sel.Sel.Name)
						}
						return
					}
				}
			}
		}
		if c, ok := v.X.(*ast.CallExpr); ok && g.rdKind == "" {
			if sel, ok := c.Fun.(*ast.SelectorExpr); ok {
				if pk, ok := sel.X.(*ast.Ident); ok {
					if pn, ok := g.info.Uses[pk].(*types.PkgName); ok && pn.Imported().Path() == "fmt" && sel.Sel.Name == "Fprint" && len(c.Args) >= 2 {
						if av, ok := g.accumVar(c.Args[0]); ok {
							// fmt.Fprint(buf, a, b, …): no separator as long as one of two neighbours is a string
							var parts []string
							prevStr := true
							for _, a := range c.Args[1:] {
								at := g.typeOf(a)
								bt, isB := at.Underlying().(*types.Basic)
								isStr := isB && (bt.Kind() == types.String || bt.Kind() == types.UntypedString)
								if !isStr && !prevStr {
									g.die(c, "Fprint of two adjacent non-strings (a space is inserted)")
								}
								prevStr = isStr
								switch {
								case isStr:
									parts = append(parts, g.expr(a).arg())
								case isFloat(at) && g.floatLean != "":
									ef, ok := g.extFuncs["fmt.float"]
									if !ok {
										g.die(c, "Fprint of a float")
									}
									g.extUsed["fmt.float"] = true
									parts = append(parts, "("+ef.param+" "+g.expr(a).arg()+")")
								default:
									g.die(c, "Fprint operand")
								}
							}
							w.line(av + " := " + av + " ++ " + strings.Join(parts, " ++ "))
							return
						}
					}
				}
			}
			// f(…, buf, …) / x.m(…, buf, …) for a translated callee with accumulator parameters and no other result
			if txt, accs, ok := g.accumCall(c); ok {
				if len(accs) == 1 {
					w.line(accs[0] + " ← " + txt)
				} else {
					t := g.tmp()
					w.line("let " + t + " ← " + txt)
					for i, a := range accs {
						w.line(a + " := " + tupleProj(t, i, len(accs)))
					}
				}
				return
			}
		}
		if c, ok := v.X.(*ast.CallExpr); ok && g.byteRd && g.rdKind == "" {
			if sel, ok := c.Fun.(*ast.SelectorExpr); ok && sel.Sel.Name == "UnreadByte" && len(c.Args) == 0 {
				if inner, ok := sel.X.(*ast.SelectorExpr); ok {
					if id, ok := inner.X.(*ast.Ident); ok && g.structLoc[g.objOf(id)] != nil {
						fld := id.Name + "_" + inner.Sel.Name
						w.line(fld + " := unreadByte " + fld) // the returned error is ignored by the Go code too
						return
					}
				}
			}
		}
		if isPanic(v) {
			w.line("(none : Option Unit)")
			return
		}
		if c, ok := v.X.(*ast.CallExpr); ok {
			if id, ok := c.Fun.(*ast.Ident); ok && id.Name == "delete" && len(c.Args) == 2 {
				if x, ok := g.heapField(c.Args[0]); ok {
					tp := g.tmp()
					w.line("let " + tp + " : Int := " + g.expr(x).opnd())
					w.line("heap ← setIdx heap " + tp + " (mapErase (← idx heap " + tp + ") " + g.expr(c.Args[1]).arg() + ")")
					return
				}
				if m, ok := c.Args[0].(*ast.Ident); ok {
					n := g.lvName(m)
					w.line(n + " := setErase " + n + " " + g.expr(c.Args[1]).arg())
					return
				}
			}
			if sel, ok := c.Fun.(*ast.SelectorExpr); ok {
				if pk, ok := sel.X.(*ast.Ident); ok {
					if pn, ok := g.info.Uses[pk].(*types.PkgName); ok && pn.Imported().Path() == "sort" {
						if sel.Sel.Name == "Strings" && len(c.Args) == 1 {
							if x, ok := c.Args[0].(*ast.Ident); ok {
								n := g.lvName(x)
								w.line(n + " := sortBytes " + n) // Go compares strings bytewise
								return
							}
						}
						if sel.Sel.Name == "Ints" && len(c.Args) == 1 {
							if x, ok := c.Args[0].(*ast.Ident); ok {
								n := g.lvName(x)
								w.line(n + " := sortInts " + n)
								return
							}
						}
						if sel.Sel.Name == "Slice" && len(c.Args) == 2 {
							// sort.Slice(x, func(i, j int) bool { return less(x[i], x[j]) })
							x, ok1 := c.Args[0].(*ast.Ident)
							fl, ok2 := c.Args[1].(*ast.FuncLit)
							if ok1 && ok2 && len(fl.Body.List) == 1 {
								if r, ok := fl.Body.List[0].(*ast.ReturnStmt); ok && len(r.Results) == 1 {
									if lc, ok := r.Results[0].(*ast.CallExpr); ok && len(lc.Args) == 2 && sortArgsOK(fl, x.Name, lc) {
										if lf, ok := lc.Fun.(*ast.Ident); ok {
											if callee, ok := g.funcs[lf.Name]; ok && callee.found && len(callee.globals) == 0 {
												n := g.lvName(x)
												w.line(n + " := sortByLess (fun a b => (" + lf.Name + " a b).getD false) " + n)
												return
											}
										}
									}
								}
							}
						}
					}
				}
			}
		}
		if g.rdKind == "bytes" && g.rdCall(v.X) == "UnreadByte" {
			w.line("pos := pos - 1")
			return
		}
		if c, ok := v.X.(*ast.CallExpr); ok {
			if id, ok := c.Fun.(*ast.Ident); ok && id.Name == "copy" && len(c.Args) == 2 {
				if lv, ok := c.Args[0].(*ast.Ident); ok {
					n := g.lvName(lv)
					w.line(n + " := copyInto " + n + " " + g.expr(c.Args[1]).arg())
					return
				}
				// copy(LV[:], src)
				if se, ok := c.Args[0].(*ast.SliceExpr); ok && se.Low == nil && se.High == nil {
					src := g.expr(c.Args[1])
					switch lv := se.X.(type) {
					case *ast.Ident:
						n := g.lvName(lv)
						w.line(n + " := copyInto " + n + " " + src.arg())
						return
					case *ast.IndexExpr:
						if id2, ok := lv.X.(*ast.Ident); ok {
							n := g.lvName(id2)
							i := g.indexInt(lv.Index)
							w.line(n + " ← setIdx " + n + " " + i + " (copyInto (← idx " + n + " " + i + ") " + src.arg() + ")")
							return
						}
					}
				}
			}
		}
	case *ast.ReturnStmt:
		if g.rdKind == "write" && len(v.Results) == 1 {
			w.line("return (" + g.expr(v.Results[0]).opnd() + ", " + g.wrParam + ")")
			return
		}
		if g.rdKind != "" && len(v.Results) == 2 {
			var rec string
			switch r := v.Results[0].(type) {
			case *ast.Ident:
				if r.Name == "nil" {
					rec = "none"
				} else if fs, ok := g.structLoc[g.objOf(r)]; ok {
					var parts []string
					for _, f := range fs {
						parts = append(parts, r.Name+"_"+f)
					}
					rec = "some (" + strings.Join(parts, ", ") + ")"
				}
			case *ast.UnaryExpr:
				if cl, ok := r.X.(*ast.CompositeLit); ok && r.Op == token.AND {
					var parts []string
					for _, el := range cl.Elts {
						if _, isKV := el.(*ast.KeyValueExpr); isKV {
							g.die(el, "keyed struct literal")
						}
						parts = append(parts, g.expr(el).opnd())
					}
					rec = "some (" + strings.Join(parts, ", ") + ")"
				}
			}
			if rec == "" {
				g.die(v, "returned record")
			}
			w.line("return ((" + rec + ", " + g.expr(v.Results[1]).opnd() + "), " + g.rdState + ")")
			return
		}
		if g.heapT != "" && g.heapUse && g.rdKind == "" && g.yieldT == "" && len(v.Results) > 1 && len(v.Results) == len(g.results) {
			var parts []string
			for i, r := range v.Results {
				e := g.expr(r)
				if isNilIdent(r) {
					if n := g.nilOf(g.results[i].Type()); n != "" {
						e = atomE(n)
					}
				}
				parts = append(parts, e.opnd())
			}
			if g.heapWr {
				parts = append(parts, "heap")
			}
			w.line("return (" + strings.Join(append(parts, g.retSuffix...), ", ") + ")")
			return
		}
		if g.heapT != "" && g.heapUse && g.rdKind == "" && g.yieldT == "" && len(v.Results) <= 1 {
			val := ""
			if len(v.Results) == 1 {
				if u, ok := v.Results[0].(*ast.UnaryExpr); ok && u.Op == token.AND && g.isHeapPtr(g.typeOf(u)) {
					val = g.heapAlloc(w, u)
				} else {
					val = g.expr(v.Results[0]).opnd()
				}
			}
			switch {
			case val == "" && g.heapWr:
				w.line("return heap")
			case val == "":
				w.line("return ()")
			case g.heapWr:
				w.line("return (" + val + ", heap)")
			default:
				w.line("return " + val)
			}
			return
		}
		if g.yieldT != "" {
			if len(v.Results) == 0 && g.inRangeFunc {
				w.line("return (log, false)") // leaves the loop (and, the loop being the last statement, the function)
				return
			}
			if len(v.Results) == 0 {
				w.line("return log")
				return
			}
		} else if g.rdKind == "" && len(v.Results) == 1 && len(g.results) > 1 && len(g.retSuffix) > 0 {
			// return f(…) handing on all results of f, plus the receiver state
			t := g.tmp()
			w.line(bindText("let ", t, g.expr(v.Results[0])))
			var parts []string
			for i := range g.results {
				parts = append(parts, tupleProj(t, i, len(g.results)))
			}
			w.line("return (" + strings.Join(append(parts, g.retSuffix...), ", ") + ")")
			return
		} else if len(v.Results) == 1 && g.rdKind == "" && len(g.results) == 1 && len(g.retSuffix) > 0 {
			e := g.expr(v.Results[0])
			if isNilIdent(v.Results[0]) {
				if n := g.nilOf(g.results[0].Type()); n != "" {
					e = atomE(n)
				}
			}
			w.line("return (" + strings.Join(append([]string{e.opnd()}, g.retSuffix...), ", ") + ")")
			return
		} else if len(v.Results) == 1 {
			w.line("return " + g.expr(v.Results[0]).opnd())
			return
		} else if g.rdKind == "" && len(v.Results) > 1 && len(v.Results) == len(g.results) {
			var parts []string
			for i, r := range v.Results {
				e := g.expr(r)
				if isNilIdent(r) {
					if n := g.nilOf(g.results[i].Type()); n != "" {
						e = atomE(n)
					}
				}
				if tv, ok := g.info.Types[r]; ok && tv.Value != nil {
					parts = append(parts, "("+e.opnd()+" : "+g.leanType(g.results[i].Type())+")")
				} else {
					parts = append(parts, e.opnd())
				}
			}
			w.line("return (" + strings.Join(append(parts, g.retSuffix...), ", ") + ")")
			return
		} else if g.rdKind == "" && len(v.Results) == 0 && g.namedRes {
			var parts []string
			for _, r := range g.results {
				parts = append(parts, g.nameOf(r))
			}
			if len(parts) == 1 {
				w.line("return " + parts[0])
			} else {
				w.line("return (" + strings.Join(parts, ", ") + ")")
			}
			return
		}
	case *ast.IfStmt:
		g.ifStmt(w, v, "if ")
		return
	case *ast.SwitchStmt:
		g.switchStmt(w, v)
		return
	case *ast.TypeSwitchStmt:
		g.typeSwitch(w, v)
		return
	case *ast.ForStmt:
		g.forStmt(w, v)
		return
	case *ast.RangeStmt:
		g.rangeStmt(w, v)
		return
	case *ast.BlockStmt:
		g.block(w, v.List)
		return
	}
	g.die(s, fmt.Sprintf("statement %T", s))
}

func (g *gl) block(w *wr, list []ast.Stmt) {
	if len(list) == 0 {
		w.line("pure ()")
		return
	}
	inSwitch := len(g.loops) > 0 && g.loops[len(g.loops)-1] == "switch" && g.rdKind == ""
	for i, s := range list {
		if inSwitch {
			// `break` leaves the switch: `if c { A; break }; B` is `if c then A else B`; a trailing `break` is dropped
			if br, ok := s.(*ast.BranchStmt); ok && br.Tok == token.BREAK && br.Label == nil && i == len(list)-1 {
				if i == 0 {
					w.line("pure ()")
				}
				return
			}
			if ifs, ok := s.(*ast.IfStmt); ok && ifs.Init == nil && ifs.Else == nil && len(ifs.Body.List) > 0 {
				if br, ok := ifs.Body.List[len(ifs.Body.List)-1].(*ast.BranchStmt); ok && br.Tok == token.BREAK && br.Label == nil {
					w.line("if " + g.expr(ifs.Cond).opnd() + " then")
					w.ind++
					g.block(w, ifs.Body.List) // its trailing break is dropped by the rule above
					w.ind--
					w.line("else")
					w.ind++
					g.block(w, list[i+1:])
					w.ind--
					return
				}
			}
		}
		if es, ok := s.(*ast.ExprStmt); ok && g.rdKind == "bytes" && g.rdCall(es.X) == "UnreadByte" {
			// `pos := pos - 1` is only right if the loop over the input stops here
			next, ok := ast.Stmt(nil), false
			if i+1 < len(list) {
				next, ok = list[i+1], true
			}
			br, isBr := next.(*ast.BranchStmt)
			if !ok || !isBr || br.Tok != token.BREAK || br.Label == nil || br.Label.Name != g.rdLabel {
				g.die(s, "UnreadByte not directly followed by break out of the read loop")
			}
		}
		g.stmt(w, s)
	}
}

func (g *gl) ifStmt(w *wr, v *ast.IfStmt, kw string) {
	if v.Init != nil {
		a, ok := v.Init.(*ast.AssignStmt)
		if !ok || kw != "if " {
			g.die(v, "if with init")
		}
		if _, ok := g.fprintfStmt(w, a); !ok {
			// if x, ok := m[k]; cond { … } (no else): the two variables are local to the statement
			isCommaOk := false
			if a.Tok == token.DEFINE && len(a.Lhs) == 2 && len(a.Rhs) == 1 && v.Else == nil && g.rdKind == "" {
				if ie, isIdx := a.Rhs[0].(*ast.IndexExpr); isIdx {
					if m, isMap := g.typeOf(ie.X).Underlying().(*types.Map); isMap && !isEmptyStruct(m.Elem()) {
						isCommaOk = true
					}
				}
			}
			if !isCommaOk && !(g.recT != nil && g.rdKind == "" && v.Else == nil) {
				g.die(v, "if with init")
			}
			g.stmt(w, a)
		}
	}
	// `if A && !f(x) { … }` / `if !f(x) { … }` for a consumer callback f that is a parameter
	if g.yieldT != "" && g.yieldName != "" && g.yieldName != "yield" && v.Else == nil && v.Init == nil && kw == "if " {
		isCall := func(e ast.Expr) (*ast.CallExpr, bool) {
			u, ok := e.(*ast.UnaryExpr)
			if !ok || u.Op != token.NOT {
				return nil, false
			}
			c, ok := u.X.(*ast.CallExpr)
			if !ok || len(c.Args) != 1 {
				return nil, false
			}
			id, ok := c.Fun.(*ast.Ident)
			return c, ok && id.Name == g.yieldName
		}
		var guard ast.Expr
		c, ok := isCall(v.Cond)
		if !ok {
			if b, isB := v.Cond.(*ast.BinaryExpr); isB && b.Op == token.LAND {
				if c2, ok2 := isCall(b.Y); ok2 {
					guard, c, ok = b.X, c2, true
				}
			}
		}
		if ok {
			if guard != nil {
				w.line("if " + g.expr(guard).opnd() + " then")
				w.ind++
			}
			w.line("log := log ++ [" + g.expr(c.Args[0]).opnd() + "]")
			w.line("if !(" + g.yieldName + " log) then")
			w.ind++
			g.block(w, v.Body.List)
			w.ind--
			if guard != nil {
				w.ind--
			}
			return
		}
	}
	// `if !yield(a, b) { return }` inside an iter.Seq2 closure
	if g.yield2 && v.Init == nil && v.Else == nil && kw == "if " {
		if u, ok := v.Cond.(*ast.UnaryExpr); ok && u.Op == token.NOT {
			if c, ok := u.X.(*ast.CallExpr); ok {
				if id, ok := c.Fun.(*ast.Ident); ok && id.Name == "yield" && len(c.Args) == 2 {
					w.line("log := log ++ [" + g.yieldPair(c) + "]")
					w.line("if !(yield log) then")
					w.ind++
					g.block(w, v.Body.List)
					w.ind--
					return
				}
			}
		}
	}
	// `if !yield(x) { return }` inside an iter.Seq closure
	if g.yieldT != "" {
		if u, ok := v.Cond.(*ast.UnaryExpr); ok && u.Op == token.NOT {
			if c, ok := u.X.(*ast.CallExpr); ok {
				if id, ok := c.Fun.(*ast.Ident); ok && id.Name == "yield" && len(c.Args) == 1 && v.Else == nil && len(v.Body.List) == 1 {
					if r, ok := v.Body.List[0].(*ast.ReturnStmt); ok && len(r.Results) == 0 {
						x := g.expr(c.Args[0])
						w.line("log := log ++ [" + x.opnd() + "]")
						w.line("if !(yield log) then")
						w.ind++
						w.line("return log")
						w.ind--
						return
					}
				}
			}
		}
	}
	if u, ok := v.Cond.(*ast.UnaryExpr); ok && u.Op == token.NOT && g.rdKind == "lines" && g.rdCall(u.X) == "Scan" && kw == "if " {
		k := g.nScan
		g.nScan++
		w.line(fmt.Sprintf("let (ok%d, cur%d, lines%d) := scan cur lines", k, k, k))
		w.line(fmt.Sprintf("cur := cur%d", k))
		w.line(fmt.Sprintf("lines := lines%d", k))
		w.line(fmt.Sprintf("if !ok%d then", k))
	} else {
		w.line(kw + g.expr(v.Cond).opnd() + " then")
	}
	w.ind++
	g.block(w, v.Body.List)
	w.ind--
	switch e := v.Else.(type) {
	case nil:
	case *ast.BlockStmt:
		w.line("else")
		w.ind++
		g.block(w, e.List)
		w.ind--
	case *ast.IfStmt:
		g.ifStmt(w, e, "else if ")
	default:
		g.die(v, "else")
	}
}

func (g *gl) switchStmt(w *wr, v *ast.SwitchStmt) {
	if v.Init != nil || v.Tag == nil {
		g.die(v, "switch form")
	}
	tag := g.expr(v.Tag)
	if tag.act {
		// the tag is evaluated once, before any case
		t := g.tmp()
		w.line(bindText("let ", t, tag))
		tag = atomE(t)
	}
	var def []ast.Stmt
	hasDef := false
	first := true
	g.loops = append(g.loops, "switch")
	defer func() { g.loops = g.loops[:len(g.loops)-1] }()
	for _, st := range v.Body.List {
		cc := st.(*ast.CaseClause)
		if cc.List == nil {
			def, hasDef = cc.Body, true
			continue
		}
		var conds []string
		for _, ce := range cc.List {
			conds = append(conds, tag.arg()+" == "+caseExpr(g, ce))
		}
		kw := "else if "
		if first {
			kw, first = "if ", false
		}
		w.line(kw + strings.Join(conds, " || ") + " then")
		w.ind++
		g.block(w, cc.Body)
		w.ind--
	}
	if hasDef && !first {
		w.line("else")
		w.ind++
		g.block(w, def)
		w.ind--
	} else if hasDef {
		g.block(w, def)
	}
}

// for b, err = r.r.ReadByte(); err == nil; b, err = r.r.ReadByte() { … }
func (g *gl) readByteLoop(w *wr, v *ast.ForStmt) bool {
	hdr := func(s ast.Stmt) (string, string, bool) {
		a, ok := s.(*ast.AssignStmt)
		if !ok || a.Tok != token.ASSIGN || len(a.Lhs) != 2 || len(a.Rhs) != 1 || g.rdCall(a.Rhs[0]) != "ReadByte" {
			return "", "", false
		}
		b, ok1 := a.Lhs[0].(*ast.Ident)
		e, ok2 := a.Lhs[1].(*ast.Ident)
		if !ok1 || !ok2 {
			return "", "", false
		}
		return b.Name, e.Name, true
	}
	if g.rdKind != "bytes" || v.Init == nil || v.Post == nil {
		return false
	}
	b1, e1, ok1 := hdr(v.Init)
	b2, e2, ok2 := hdr(v.Post)
	c, ok3 := v.Cond.(*ast.BinaryExpr)
	if !ok1 || !ok2 || !ok3 || b1 != b2 || e1 != e2 || c.Op != token.EQL {
		return false
	}
	cx, okx := c.X.(*ast.Ident)
	cy, oky := c.Y.(*ast.Ident)
	if !okx || !oky || cx.Name != e1 || cy.Name != "nil" {
		return false
	}
	w.line("let mut pos : Nat := 0")
	w.line("let mut broke := false")
	w.line("for " + b1 + " in src do")
	w.ind++
	w.line("pos := pos + 1")
	g.block(w, v.Body.List)
	w.ind--
	w.line("if !broke then")
	w.ind++
	w.line(e1 + " := endErr ending")
	w.ind--
	return true
}

func (g *gl) forStmt(w *wr, v *ast.ForStmt) {
	if g.readByteLoop(w, v) {
		return
	}
	if g.scanObj != nil && v.Init == nil && v.Post == nil && g.scanCall(v.Cond) == "Scan" {
		// for sc.Scan() { body }: one iteration per remaining token, in order.  The body may leave early (return,
		// break) but never advances the scanner itself, and nothing scans after the loop (checked: one loop, no
		// other Scan call), so the tokens not consumed are never looked at.
		if g.scanLoops > 0 || g.pendLabel != "" {
			g.die(v, "second scan loop")
		}
		g.scanLoops++
		ast.Inspect(v.Body, func(n ast.Node) bool {
			if e, ok := n.(ast.Expr); ok && g.scanCall(e) == "Scan" {
				g.die(v, "Scan inside the scan loop")
			}
			return true
		})
		g.scanTok = g.nameOf(g.scanObj) + "_tok"
		w.line("for " + g.scanTok + " in " + g.nameOf(g.scanObj) + ".lines do")
		w.ind++
		g.loops = append(g.loops, "for:@")
		g.block(w, v.Body.List)
		g.loops = g.loops[:len(g.loops)-1]
		w.ind--
		g.scanTok = ""
		return
	}
	label := g.pendLabel
	g.pendLabel = ""
	if v.Init == nil && v.Post == nil && v.Cond == nil && g.rdKind == "" && (g.yieldT == "" || (g.yieldName != "" && g.yieldName != "yield") || g.yield2) {
		// for { … }: at most `fuel` iterations, out of fuel = `none` (no claim)
		hasBreak := false
		var scan func(n ast.Node, direct bool)
		scan = func(n ast.Node, direct bool) {
			ast.Inspect(n, func(x ast.Node) bool {
				switch y := x.(type) {
				case *ast.FuncLit:
					return false
				case *ast.ForStmt:
					if x != n {
						scan(y.Body, false)
						return false
					}
				case *ast.RangeStmt:
					scan(y.Body, false)
					return false
				case *ast.SwitchStmt:
					scan(y.Body, false)
					return false
				case *ast.SelectStmt:
					return false
				case *ast.BranchStmt:
					if y.Tok == token.BREAK && ((y.Label == nil && direct) || (y.Label != nil && label != "" && y.Label.Name == label)) {
						hasBreak = true
					}
				}
				return true
			})
		}
		scan(v.Body, true)
		g.usesFuel = true
		if hasBreak {
			g.nWhile++
			k := fmt.Sprintf("%d", g.nWhile)
			w.line("let mut done_" + k + " := false")
			w.line("for _ in List.range fuel do")
			w.ind++
			g.loops = append(g.loops, "while:"+k+":@"+label)
			g.block(w, v.Body.List)
			g.loops = g.loops[:len(g.loops)-1]
			w.ind--
			w.line("if !done_" + k + " then")
			w.ind++
			w.line("(none : Option Unit)")
			w.ind--
			return
		}
		w.line("for _ in List.range fuel do")
		w.ind++
		g.loops = append(g.loops, "for:@"+label)
		g.block(w, v.Body.List)
		g.loops = g.loops[:len(g.loops)-1]
		w.ind--
		w.line("none")
		return
	}
	if v.Init == nil && v.Post == nil && v.Cond != nil && g.rdKind == "" {
		// for cond { … }: at most `fuel` iterations; running out of fuel is `none` (no claim)
		g.usesFuel = true
		g.nWhile++
		k := fmt.Sprintf("%d", g.nWhile)
		w.line("let mut done_" + k + " := false")
		w.line("for _ in List.range fuel do")
		w.ind++
		w.line("if !(" + g.expr(v.Cond).opnd() + ") then")
		w.ind++
		w.line("done_" + k + " := true")
		w.line("break")
		w.ind--
		g.loops = append(g.loops, "while:"+k+":@"+label)
		g.block(w, v.Body.List)
		g.loops = g.loops[:len(g.loops)-1]
		w.ind--
		w.line("if !done_" + k + " then")
		w.ind++
		w.line("(none : Option Unit)")
		w.ind--
		return
	}
	// for i := A; i < B; i++ / i += c      and      for i := E; i >= 0; i--
	init, ok := v.Init.(*ast.AssignStmt)
	if !ok || init.Tok != token.DEFINE || len(init.Lhs) != 1 {
		g.die(v, "for init")
	}
	iv := init.Lhs[0].(*ast.Ident)
	cond, ok := v.Cond.(*ast.BinaryExpr)
	if !ok {
		g.die(v, "for condition")
	}
	cx, ok := cond.X.(*ast.Ident)
	if !ok || cx.Name != iv.Name {
		g.die(v, "for condition variable")
	}
	if g.mut[g.objOf(iv)] {
		g.die(v, "loop variable assigned in the body")
	}
	var rng string
	zero := func(e ast.Expr) bool {
		tv, ok := g.info.Types[e]
		return ok && tv.Value != nil && constant.Sign(tv.Value) == 0
	}
	switch post := v.Post.(type) {
	case *ast.IncDecStmt:
		pid, ok := post.X.(*ast.Ident)
		if !ok || pid.Name != iv.Name {
			g.die(v, "for post")
		}
		if post.Tok == token.INC && cond.Op == token.LSS && zero(init.Rhs[0]) {
			rng = "upTo " + g.expr(cond.Y).arg()
		} else if post.Tok == token.DEC && cond.Op == token.GEQ && zero(cond.Y) {
			rng = "downFrom " + g.expr(init.Rhs[0]).arg()
		}
	case *ast.AssignStmt:
		pid, ok := post.Lhs[0].(*ast.Ident)
		if ok && pid.Name == iv.Name && post.Tok == token.ADD_ASSIGN && cond.Op == token.LSS && zero(init.Rhs[0]) {
			if tv, ok := g.info.Types[post.Rhs[0]]; ok && tv.Value != nil && constant.Sign(tv.Value) > 0 {
				rng = "upToStep " + g.expr(cond.Y).arg() + " " + g.expr(post.Rhs[0]).arg()
			}
		}
	}
	if rng == "" {
		g.die(v, "for loop shape")
	}
	// Go re-evaluates the condition on every iteration; the translation evaluates the bound once
	wr := writtenIn(v.Body)
	whole := writtenWhole(v.Body)
	outside := identsOutsideLen(cond.Y)
	for n := range identsIn(cond.Y) {
		// a bound that uses n only as len(n) is unaffected by element writes n[i] = …
		if wr[n] && (whole[n] || outside[n]) {
			g.die(v, "loop bound depends on "+n+", which the body writes")
		}
	}
	w.line("for " + g.nameOf(g.objOf(iv)) + " in " + rng + " do")
	w.ind++
	g.loops = append(g.loops, "for")
	g.block(w, v.Body.List)
	g.loops = g.loops[:len(g.loops)-1]
	w.ind--
}

func (g *gl) rangeStmt(w *wr, v *ast.RangeStmt) {
	if v.Tok != token.DEFINE || v.Key == nil {
		g.die(v, "range form")
	}
	if g.rangeFunc(w, v) {
		return
	}
	if c, ok := v.X.(*ast.CallExpr); ok && g.xIter != nil && v.Value == nil && v.Tok == token.DEFINE {
		// for b := range otherpkg.Iter(args): the items the (translated) iterator hands to a consumer that never
		// stops; the body must not leave the loop early (then the consumer's answer would matter)
		if sel, ok := c.Fun.(*ast.SelectorExpr); ok {
			if pk, ok := sel.X.(*ast.Ident); ok {
				if pn, ok := g.info.Uses[pk].(*types.PkgName); ok {
					if it, ok := g.xIter[pn.Imported().Name()+"."+sel.Sel.Name]; ok {
						early := false
						ast.Inspect(v.Body, func(n ast.Node) bool {
							switch y := n.(type) {
							case *ast.ReturnStmt:
								early = true
							case *ast.BranchStmt:
								if y.Tok == token.BREAK || y.Tok == token.GOTO {
									early = true
								}
							case *ast.FuncLit:
								return false
							}
							return true
						})
						if early {
							g.die(v, "range over an iterator with an early exit")
						}
						parts := []string{it[0]}
						if it[1] != "" {
							parts = append(parts, it[1])
							for _, gv := range strings.Fields(it[1]) {
								g.xGlobals[gv] = true
							}
						}
						for _, a := range c.Args {
							parts = append(parts, g.expr(a).arg())
						}
						t := g.tmp()
						w.line("let " + t + " ← " + strings.Join(parts, " ") + " (fun _ => true)")
						kn := g.nameOf(g.objOf(v.Key.(*ast.Ident)))
						w.line("for " + kn + " in " + t + " do")
						w.ind++
						g.loops = append(g.loops, "for")
						g.block(w, v.Body.List)
						g.loops = g.loops[:len(g.loops)-1]
						w.ind--
						return
					}
				}
			}
		}
	}
	xt := g.typeOf(v.X)
	x := g.expr(v.X) // before the loop variables are named: they are not in scope here
	if x.act && (g.heapT != "" || g.ioReaderScan) {
		// the ranged expression reads the heap (x.m) or may panic (s[1:]): it is evaluated once, before the loop
		t := g.tmp()
		w.line("let " + t + " ← " + x.text)
		x = atomE(t)
	}
	k := &ast.Ident{Name: "_"}
	if kid := v.Key.(*ast.Ident); kid.Name != "_" {
		k.Name = g.nameOf(g.objOf(kid))
	}
	if x.act {
		g.die(v, "range over an expression with effects")
	}
	_, isMap := xt.Underlying().(*types.Map)
	if bt, ok := xt.Underlying().(*types.Basic); ok && bt.Kind() == types.String {
		// for i, c := range s visits RUNES.  When c is only ever compared (==, !=) with ASCII constants, a byte loop
		// is equivalent: i is the byte offset of each rune, an ASCII constant equals c only at that very byte,
		// and no byte of a multi-byte (or invalid) sequence is below 0x80
		vid, okV := v.Value.(*ast.Ident)
		if !okV || v.Value == nil || !g.asciiCompareOnly(v.Body, g.objOf(vid)) {
			g.die(v, "range over a string (runes)")
		}
		g.runeAsByte[g.objOf(vid)] = true
		val := g.nameOf(g.objOf(vid))
		if k.Name == "_" {
			w.line("for " + val + " in " + x.opnd() + " do")
		} else {
			w.line("for (" + k.Name + ", " + val + ") in enum " + x.arg() + " do")
		}
		w.ind++
		g.loops = append(g.loops, "for")
		g.block(w, v.Body.List)
		g.loops = g.loops[:len(g.loops)-1]
		w.ind--
		return
	}
	{
		// Go reads slice elements live and skips map entries deleted during the loop; the translation
		// iterates a snapshot, so the body must not write the ranged variable
		wr := writtenIn(v.Body)
		_, isArr := xt.Underlying().(*types.Array)
		for n := range identsIn(v.X) {
			if wr[n] && !isArr && (v.Value != nil || isMap) {
				g.die(v, "the loop body writes "+n+", which is being ranged over")
			}
		}
	}
	switch {
	case isMap && v.Value == nil && !isEmptyStruct(xt.Underlying().(*types.Map).Elem()):
		// keys of a map with values: the association list in list order (every order is covered by quantifying
		// over every list that represents the map)
		w.line("for (" + k.Name + ", _) in " + x.opnd() + " do")
	case isMap && v.Value == nil:
		// Go ranges over a map in an unspecified order; the translation uses ascending key order, which is
		// only meaningful for order-insensitive bodies (the translated code sorts what it collects)
		w.line("for " + k.Name + " in " + x.opnd() + " do")
	case isMap && v.Value != nil && !isEmptyStruct(xt.Underlying().(*types.Map).Elem()):
		// a map is kept as an association list and ranged over in list order: a theorem about every list that
		// represents the map covers every iteration order Go may choose
		val := &ast.Ident{Name: "_"}
		if vid := v.Value.(*ast.Ident); vid.Name != "_" {
			val.Name = g.nameOf(g.objOf(vid))
		}
		w.line("for (" + k.Name + ", " + val.Name + ") in " + x.opnd() + " do")
	case isInt(xt) && v.Value == nil:
		w.line("for " + k.Name + " in upTo " + x.arg() + " do")
	case isList(xt) && v.Value == nil:
		w.line("for " + k.Name + " in upTo (len " + x.arg() + ") do")
	case isList(xt):
		if _, isStr := xt.Underlying().(*types.Basic); isStr {
			g.die(v, "range over a string (runes)")
		}
		val := &ast.Ident{Name: "_"}
		if vid := v.Value.(*ast.Ident); vid.Name != "_" {
			val.Name = g.nameOf(g.objOf(vid))
		}
		if k.Name == "_" {
			w.line("for " + val.Name + " in " + x.opnd() + " do")
		} else {
			w.line("for (" + k.Name + ", " + val.Name + ") in enum " + x.arg() + " do")
		}
	default:
		g.die(v, "range operand")
	}
	w.ind++
	g.loops = append(g.loops, "for")
	g.block(w, v.Body.List)
	g.loops = g.loops[:len(g.loops)-1]
	w.ind--
}

// names (root identifiers) written anywhere in a subtree: x = …, x[i] = …, x op= …, x++, copy(x…), delete(x, …)
func writtenIn(n ast.Node) map[string]bool {
	out := map[string]bool{}
	root := func(e ast.Expr) {
		for {
			switch x := e.(type) {
			case *ast.IndexExpr:
				e = x.X
				continue
			case *ast.SliceExpr:
				e = x.X
				continue
			case *ast.SelectorExpr:
				e = x.X
				continue
			case *ast.ParenExpr:
				e = x.X
				continue
			case *ast.Ident:
				out[x.Name] = true
			}
			return
		}
	}
	ast.Inspect(n, func(n ast.Node) bool {
		switch v := n.(type) {
		case *ast.AssignStmt:
			for _, l := range v.Lhs {
				root(l)
			}
		case *ast.IncDecStmt:
			root(v.X)
		case *ast.CallExpr:
			if id, ok := v.Fun.(*ast.Ident); ok && (id.Name == "copy" || id.Name == "delete") && len(v.Args) >= 1 {
				root(v.Args[0])
			}
		}
		return true
	})
	return out
}

// names written other than element-wise (x = …, x op= …, x++, copy(x…), delete(x, …), x.f = …)
func writtenWhole(n ast.Node) map[string]bool {
	out := map[string]bool{}
	root := func(e ast.Expr) {
		elem := false
		for {
			switch x := e.(type) {
			case *ast.IndexExpr:
				e, elem = x.X, true
				continue
			case *ast.SliceExpr:
				e, elem = x.X, false
				continue
			case *ast.SelectorExpr:
				e = x.X
				continue
			case *ast.ParenExpr:
				e = x.X
				continue
			case *ast.Ident:
				if !elem {
					out[x.Name] = true
				}
			}
			return
		}
	}
	ast.Inspect(n, func(n ast.Node) bool {
		switch v := n.(type) {
		case *ast.AssignStmt:
			for _, l := range v.Lhs {
				root(l)
			}
		case *ast.IncDecStmt:
			root(v.X)
		case *ast.CallExpr:
			if id, ok := v.Fun.(*ast.Ident); ok && (id.Name == "copy" || id.Name == "delete") && len(v.Args) >= 1 {
				for k := range identsIn(v.Args[0]) {
					out[k] = true
				}
			}
		}
		return true
	})
	return out
}

// identifiers of an expression that occur anywhere but as the sole argument of len(…)
func identsOutsideLen(e ast.Node) map[string]bool {
	out := map[string]bool{}
	ast.Inspect(e, func(n ast.Node) bool {
		if c, ok := n.(*ast.CallExpr); ok {
			if id, ok := c.Fun.(*ast.Ident); ok && id.Name == "len" && len(c.Args) == 1 {
				if _, ok := c.Args[0].(*ast.Ident); ok {
					return false
				}
			}
		}
		if id, ok := n.(*ast.Ident); ok {
			out[id.Name] = true
		}
		return true
	})
	return out
}

func identsIn(e ast.Node) map[string]bool {
	out := map[string]bool{}
	ast.Inspect(e, func(n ast.Node) bool {
		if id, ok := n.(*ast.Ident); ok {
			out[id.Name] = true
		}
		return true
	})
	return out
}

// checkAliasing: slices are values in the translation.  A function in which one slice variable is
// assigned from another variable or from a slice expression AND one of the two has its ELEMENTS written
// (x[i] = …, copy(x, …)) could observe sharing; such functions are not translated.
func (g *gl) checkAliasing(body ast.Node) {
	aliased := map[string]bool{}
	elemWritten := map[string]bool{}
	rootName := func(e ast.Expr) string {
		for {
			switch x := e.(type) {
			case *ast.SliceExpr:
				e = x.X
				continue
			case *ast.ParenExpr:
				e = x.X
				continue
			case *ast.Ident:
				return x.Name
			}
			return ""
		}
	}
	ast.Inspect(body, func(n ast.Node) bool {
		switch v := n.(type) {
		case *ast.AssignStmt:
			if len(v.Lhs) == len(v.Rhs) {
				for i, r := range v.Rhs {
					tv, ok := g.info.Types[r]
					if !ok || tv.Type == nil {
						continue
					}
					if _, isSl := tv.Type.Underlying().(*types.Slice); !isSl {
						continue
					}
					switch r.(type) {
					case *ast.Ident, *ast.SliceExpr:
						if rn := rootName(r); rn != "" && rn != "nil" {
							if l, ok := v.Lhs[i].(*ast.Ident); ok && l.Name == rn {
								continue // x = x[a:b]: the same variable, nothing is shared
							}
							aliased[rn] = true
							if l, ok := v.Lhs[i].(*ast.Ident); ok {
								aliased[l.Name] = true
							}
						}
					}
				}
			}
			for _, l := range v.Lhs {
				if ie, ok := l.(*ast.IndexExpr); ok {
					if tv, ok := g.info.Types[ie.X]; ok && tv.Type != nil {
						if _, isSl := tv.Type.Underlying().(*types.Slice); isSl {
							elemWritten[rootName(ie.X)] = true
						}
					}
				}
			}
		case *ast.CallExpr:
			if id, ok := v.Fun.(*ast.Ident); ok && id.Name == "copy" && len(v.Args) == 2 {
				if tv, ok := g.info.Types[v.Args[0]]; ok && tv.Type != nil {
					if _, isSl := tv.Type.Underlying().(*types.Slice); isSl {
						if _, isSE := v.Args[0].(*ast.SliceExpr); !isSE { // copy(arr[:], …) writes an array, a value
							elemWritten[rootName(v.Args[0])] = true
						}
					}
				}
			}
		}
		return true
	})
	for n := range aliased {
		if elemWritten[n] {
			g.die(body, "slice "+n+" is both shared with another variable and written element-wise (aliasing is not modelled)")
		}
	}
}

// variables (locals and parameters) assigned after their declaration
func (g *gl) findMutated(body ast.Node) {
	g.mut = map[types.Object]bool{}
	g.declared = map[string]bool{}
	g.names = map[types.Object]string{}
	if g.bufLocals == nil {
		g.bufLocals = map[types.Object]bool{}
	}
	g.runeAsByte = map[types.Object]bool{}
	g.takenMut = map[string]bool{}
	g.nTmp, g.nWhile, g.loops = 0, 0, nil
	g.checkAliasing(body)
	mark := func(e ast.Expr) {
		for {
			switch x := e.(type) {
			case *ast.IndexExpr:
				e = x.X
				continue
			case *ast.SliceExpr:
				e = x.X
				continue
			case *ast.SelectorExpr:
				e = x.X
				continue
			case *ast.ParenExpr:
				e = x.X
				continue
			case *ast.Ident:
				if o := g.info.Uses[x]; o != nil {
					g.mut[o] = true
				}
			}
			return
		}
	}
	posts := map[ast.Stmt]bool{} // the post statements of for loops do not count
	ast.Inspect(body, func(n ast.Node) bool {
		if f, ok := n.(*ast.ForStmt); ok && f.Post != nil {
			posts[f.Post] = true
		}
		return true
	})
	ast.Inspect(body, func(n ast.Node) bool {
		if st, ok := n.(ast.Stmt); ok && posts[st] {
			return false
		}
		switch v := n.(type) {
		case *ast.AssignStmt:
			if v.Tok != token.DEFINE {
				for _, l := range v.Lhs {
					mark(l)
				}
			}
		case *ast.IncDecStmt:
			mark(v.X)
		case *ast.CallExpr:
			if id, ok := v.Fun.(*ast.Ident); ok && id.Name == "copy" && len(v.Args) == 2 {
				mark(v.Args[0])
			}
		}
		return true
	})
}

// ---- top level -------------------------------------------------------------

// definitions whose generated Lean text was rejected by Lean on an earlier attempt of this run
var skipDefs = map[string]bool{}

func (g *gl) guarded(name, placeholder string, f func() (string, []string)) {
	fn := &glFunc{name: name, sig: placeholder}
	g.funcs[name] = fn
	g.order = append(g.order, name)
	g.globals = map[string]bool{}
	if skipDefs[name] {
		fn.found = false
		fn.text = fmt.Sprintf("def %s_Found : Bool := false -- not translated: the generated Lean text did not compile\n%s\n", name, placeholder)
		return
	}
	defer func() {
		if r := recover(); r != nil {
			b, ok := r.(bail)
			if !ok {
				panic(r)
			}
			fn.found = false
			fn.text = fmt.Sprintf("def %s_Found : Bool := false -- not translated: %s\n%s\n", name, b.why, placeholder)
		}
	}()
	text, globals := f()
	// the theorems are stated against the signature of the placeholder: a translation of another type
	// (the source now builds different tables, takes other parameters, …) is "not translated"
	if want, got := defHeader(placeholder, name), defHeader(text, name); want != got {
		panic(bail{"signature changed: " + got + " (expected " + want + ")"})
	}
	fn.text, fn.globals, fn.found = text, globals, true
}

// "def <name> <params> : <type>" of the definition called name inside a generated text, whitespace-normalised
func defHeader(text, name string) string {
	for _, l := range strings.Split(text, "\n") {
		if strings.HasPrefix(l, "def "+name+" ") {
			h := l
			if i := strings.LastIndex(h, " :="); i >= 0 {
				h = h[:i]
			}
			return strings.Join(strings.Fields(strings.NewReplacer("(", " ( ", ")", " ) ").Replace(h)), " ")
		}
	}
	return ""
}

func (g *gl) globalParams(names []string) string {
	var ps []string
	for _, n := range names {
		obj := g.pkg.Scope().Lookup(n)
		ps = append(ps, "(g_"+n+" : "+g.leanType(obj.Type())+")")
	}
	return strings.Join(ps, " ")
}

// globals in order of declaration in the package (stable)
func (g *gl) sortedGlobals() []string {
	var names []string
	for n := range g.globals {
		names = append(names, n)
	}
	sort.Slice(names, func(i, j int) bool {
		return g.pkg.Scope().Lookup(names[i]).Pos() < g.pkg.Scope().Lookup(names[j]).Pos()
	})
	return names
}

func (g *gl) findFunc(name string, nth int) (*ast.FuncDecl, string) {
	k := 0
	for _, f := range g.files {
		for _, d := range f.Decls {
			if fd, ok := d.(*ast.FuncDecl); ok && fd.Name.Name == name && fd.Recv == nil {
				if k == nth {
					return fd, filepath.Base(g.fset.Position(fd.Pos()).Filename)
				}
				k++
			}
		}
	}
	return nil, ""
}

func (g *gl) function(name, rel, placeholder string) { g.funcOrMethod("", name, name, rel, placeholder) }

// method translates `func (r *T) name(...)` of a plain struct T: the receiver's fields become parameters r_<Field>.
func (g *gl) method(recvType, name, lname, rel, placeholder string) {
	g.funcOrMethod(recvType, name, lname, rel, placeholder)
}

func (g *gl) funcOrMethod(recvType, goName, name, rel, placeholder string) {
	g.guarded(name, placeholder, func() (string, []string) {
		var fd *ast.FuncDecl
		file := ""
		if recvType == "" {
			fd, file = g.findFunc(goName, 0)
		} else {
			for _, f := range g.files {
				for _, d := range f.Decls {
					if x, ok := d.(*ast.FuncDecl); ok && x.Name.Name == goName && x.Recv != nil && len(x.Recv.List) == 1 && len(x.Recv.List[0].Names) == 1 {
						t := x.Recv.List[0].Type
						if st, ok := t.(*ast.StarExpr); ok {
							t = st.X
						}
						if id, ok := t.(*ast.Ident); ok && id.Name == recvType {
							fd, file = x, filepath.Base(g.fset.Position(x.Pos()).Filename)
						}
					}
				}
			}
		}
		if fd == nil || fd.Body == nil {
			g.die(nil, "function not found")
		}
		g.findMutated(fd.Body)
		g.yieldT = ""
		g.curFunc, g.lits = name, nil
		g.curBody, g.scanObj, g.scanTok, g.scanLoops, g.reLocals = fd.Body, nil, "", 0, nil
		g.usesRoom = false
		g.structLoc = map[types.Object][]string{}
		defer func() { g.curFunc = "" }()
		sig := fd.Type
		var params []string
		var shadow []string
		var recvTypes []string
		var accNames []string
		g.selfRec = false
		g.retSuffix = nil
		g.extUsed = map[string]bool{}
		g.recLocal = map[types.Object]bool{}
		if recvType != "" {
			rn := fd.Recv.List[0].Names[0]
			robj := g.info.Defs[rn]
			rt := robj.Type()
			if p, ok := rt.Underlying().(*types.Pointer); ok {
				rt = p.Elem()
			}
			st, ok := rt.Underlying().(*types.Struct)
			if g.opaqueName(robj.Type()) != "" || g.isHeapPtr(robj.Type()) {
				ok = false // an opaque record / a pointer into the heap: one parameter
			}
			if !ok {
				// a method of a named non-struct type (a map, a slice, …): the receiver is an ordinary parameter
				params = append(params, "("+g.nameOf(robj)+" : "+g.leanType(robj.Type())+")")
				if g.mut[robj] {
					shadow = append(shadow, g.nameOf(robj))
				}
			} else {
				var fs []string
				for i := 0; i < st.NumFields(); i++ {
					f := st.Field(i)
					fs = append(fs, f.Name())
					params = append(params, "("+rn.Name+"_"+f.Name()+" : "+g.leanType(f.Type())+")")
					if g.recT != nil {
						// records mode: the receiver's fields are state, handed back with every result
						g.funcs[name].recvState = append(g.funcs[name].recvState, f.Name())
						shadow = append(shadow, rn.Name+"_"+f.Name())
						g.retSuffix = append(g.retSuffix, rn.Name+"_"+f.Name())
						recvTypes = append(recvTypes, paren(g.leanType(f.Type())))
					}
				}
				g.structLoc[robj] = fs
			}
		}
		cbT := ""
		g.yieldName = ""
		for _, fl := range sig.Params.List {
			for _, pn := range fl.Names {
				if fs, ok := g.info.Defs[pn].Type().Underlying().(*types.Signature); ok {
					// a consumer callback f func(T) bool of a function without results: the function becomes the log of
					// items handed to f (f is asked about the whole history, the current item last)
					if fs.Params().Len() != 1 || fs.Results().Len() != 1 || !isBoolT(fs.Results().At(0).Type()) || (sig.Results != nil && len(sig.Results.List) > 0) {
						g.die(fd, "function-typed parameter")
					}
					cbT = g.leanType(fs.Params().At(0).Type())
					g.yieldName = g.nameOf(g.info.Defs[pn])
					params = append(params, "("+g.yieldName+" : List "+paren(cbT)+" → Bool)")
					continue
				}
				params = append(params, "("+g.nameOf(g.info.Defs[pn])+" : "+g.leanType(g.info.Defs[pn].Type())+")")
				if g.isOutList(g.info.Defs[pn].Type()) {
					// pointers to the caller's ints: the pointee values, copied in and handed back with every result
					g.mut[g.info.Defs[pn]] = true
					g.retSuffix = append(g.retSuffix, g.nameOf(g.info.Defs[pn]))
					recvTypes = append(recvTypes, "(List Int)")
					g.funcs[name].outLists++
				}
				if isAccum(g.info.Defs[pn].Type()) {
					// an accumulator passed by pointer: written through, so handed back
					g.mut[g.info.Defs[pn]] = true
					accNames = append(accNames, g.nameOf(g.info.Defs[pn]))
				}
				if g.mut[g.info.Defs[pn]] {
					shadow = append(shadow, g.nameOf(g.info.Defs[pn]))
				}
			}
		}
		if (sig.Results == nil || len(sig.Results.List) == 0) && g.heapT == "" && len(accNames) == 0 && cbT == "" {
			g.die(fd, "result list")
		}
		g.funcs[name].accParams = accNames
		g.heapUse, g.heapWr = false, false
		if g.heapT != "" {
			g.heapUse = g.heapUses(fd)
			if g.heapUse {
				g.heapWr = g.heapWrites(fd.Body)
				g.heapFuncs[name] = g.heapWr
			}
		}
		g.usesFuel = false
		g.results, g.namedRes = nil, false
		{
			fo, _ := g.info.Defs[fd.Name].(*types.Func)
			if fo == nil {
				g.die(fd, "function object")
			}
			rs := fo.Type().(*types.Signature).Results()
			for i := 0; i < rs.Len(); i++ {
				g.results = append(g.results, rs.At(i))
				if rs.At(i).Name() != "" && rs.At(i).Name() != "_" {
					g.namedRes = true
				}
			}
			if g.namedRes {
				for i := 0; i < rs.Len(); i++ {
					if rs.At(i).Name() == "" || rs.At(i).Name() == "_" {
						g.die(fd, "partly named result list")
					}
				}
			}
		}
		body := fd.Body.List
		w := &wr{b: &bytes.Buffer{}, ind: 1}
		resT := ""
		doc := ""
		var rt types.Type
		if len(g.results) > 0 {
			rt = g.info.Types[sig.Results.List[0].Type].Type
		}
		if len(g.results) > 1 {
			var ts []string
			for _, r := range g.results {
				ts = append(ts, paren(g.leanType(r.Type())))
			}
			resT = "(" + strings.Join(append(ts, recvTypes...), " × ") + ")"
		}
		if rt == nil && cbT != "" {
			g.yieldT = cbT
			resT = "List " + paren(cbT)
			w.line("let mut log : " + resT + " := []")
			doc = "; `" + g.yieldName + "` is the consumer callback -- ANY deterministic consumer: it is given the list of all items handed to it so far, the current one last -- and the result is the log of items handed to it"
		} else if rt == nil {
			resT = "Unit"
		} else if named, ok := rt.(*types.Named); ok && named.Obj().Pkg() != nil && named.Obj().Pkg().Path() == "iter" && named.Obj().Name() == "Seq2" {
			// return func(yield func(A, B) bool) { … }: the items are pairs
			if len(body) != 1 {
				g.die(fd, "iter.Seq2 function body")
			}
			r, ok := body[0].(*ast.ReturnStmt)
			if !ok || len(r.Results) != 1 {
				g.die(fd, "iter.Seq2 function body")
			}
			fl, ok := r.Results[0].(*ast.FuncLit)
			if !ok || len(fl.Type.Params.List) != 1 || len(fl.Type.Params.List[0].Names) != 1 || fl.Type.Params.List[0].Names[0].Name != "yield" {
				g.die(fd, "iter.Seq2 closure")
			}
			g.yield2, g.yield2T = true, [2]types.Type{named.TypeArgs().At(0), named.TypeArgs().At(1)}
			defer func() { g.yield2 = false }()
			g.yieldT = "(" + paren(g.leanType(g.yield2T[0])) + " × " + paren(g.leanType(g.yield2T[1])) + ")"
			g.yieldName = "yield"
			g.iterFuncs[name] = true
			g.funcs[name].itemT = g.yieldT
			if len(fl.Body.List) > 0 {
				g.closureLast = fl.Body.List[len(fl.Body.List)-1]
			}
			params = append(params, "(yield : List "+g.yieldT+" → Bool)")
			resT = "List " + g.yieldT
			g.findMutated(fl.Body)
			w.line("let mut log : " + resT + " := []")
			body = fl.Body.List
			doc = "; `yield` is the consumer -- ANY deterministic consumer, stateful ones included: it is given the list of all (item, error) pairs handed to it so far, the current one last -- and the result is the log of pairs handed to it"
		} else if named, ok := rt.(*types.Named); ok && named.Obj().Pkg() != nil && named.Obj().Pkg().Path() == "iter" && named.Obj().Name() == "Seq" {
			// return func(yield func(T) bool) { ... }
			if len(body) != 1 {
				g.die(fd, "iter.Seq function body")
			}
			r, ok := body[0].(*ast.ReturnStmt)
			if !ok || len(r.Results) != 1 {
				g.die(fd, "iter.Seq function body")
			}
			elem := named.TypeArgs().At(0)
			if dc, isCall := r.Results[0].(*ast.CallExpr); isCall {
				// return x.other(args): the iterator of another translated iter.Seq method, handed on unchanged
				sel, ok := dc.Fun.(*ast.SelectorExpr)
				if !ok {
					g.die(fd, "iter.Seq delegation")
				}
				fn, ok := g.info.Uses[sel.Sel].(*types.Func)
				if !ok || fn.Pkg() != g.pkg {
					g.die(fd, "iter.Seq delegation")
				}
				rcv := fn.Type().(*types.Signature).Recv()
				if rcv == nil {
					g.die(fd, "iter.Seq delegation")
				}
				lname, ok := g.methodNames[g.opaqueName(rcv.Type())+"."+fn.Name()]
				callee := g.funcs[lname]
				if !ok || callee == nil || !callee.found || !g.iterFuncs[lname] {
					g.die(fd, "delegation to an untranslated iterator")
				}
				parts := []string{lname}
				if callee.fuel {
					g.usesFuel = true
					parts = append(parts, "fuel")
				}
				parts = append(parts, g.expr(sel.X).arg())
				for _, a := range dc.Args {
					parts = append(parts, g.expr(a).arg())
				}
				parts = append(parts, "yield")
				yt := g.leanType(elem)
				params = append(params, "(yield : List "+paren(yt)+" → Bool)")
				if g.usesFuel {
					params = append([]string{"(fuel : Nat)"}, params...)
					g.funcs[name].fuel = true
				}
				g.iterFuncs[name] = true
				src := "(" + recvType + ")." + goName
				text := fmt.Sprintf("def %s_Found : Bool := true\n/-- translated from %s in %s/%s: the iterator of %s, unchanged -/\ndef %s %s : Option (List %s) := do\n  return (← %s)\n",
					name, src, rel, file, lname, name, strings.Join(params, " "), paren(yt), strings.Join(parts, " "))
				return text, nil
			}
			fl, ok := r.Results[0].(*ast.FuncLit)
			if !ok || len(fl.Type.Params.List) != 1 || len(fl.Type.Params.List[0].Names) != 1 || fl.Type.Params.List[0].Names[0].Name != "yield" {
				g.die(fd, "iter.Seq closure")
			}
			g.yieldT = g.leanType(elem)
			g.iterFuncs[name] = true
			params = append(params, "(yield : List "+paren(g.yieldT)+" → Bool)")
			resT = "List " + paren(g.yieldT)
			g.findMutated(fl.Body)
			w.line("let mut log : " + resT + " := []")
			body = fl.Body.List
			doc = "; `yield` is the consumer -- ANY deterministic consumer, stateful ones included: it is given the list of all items handed to it so far, the current one last -- and the result is the log of yielded items"
		} else if len(g.results) == 1 {
			resT = g.leanType(rt)
			if len(recvTypes) > 0 {
				resT = "(" + strings.Join(append([]string{paren(resT)}, recvTypes...), " × ") + ")"
			}
		}
		for _, s := range shadow {
			g.takenMut[s] = true
			w.line("let mut " + s + " := " + s)
		}
		if g.namedRes && g.yieldT == "" {
			// named results are variables, zero-initialised
			for _, r := range g.results {
				g.mut[r] = true
				w.line("let mut " + g.nameOf(r) + " : " + g.leanType(r.Type()) + " := " + bareZero(g.zero(r.Type())))
			}
		}
		if g.heapT != "" && g.heapUse && g.heapWr {
			w.line("let mut heap := heap")
		}
		if g.usesLHeap(fd) {
			w.line("let mut lheap : List " + paren(g.leanType(g.lheapStruct())) + " := []")
		}
		g.block(w, body)
		if g.yieldT != "" {
			w.line("return log")
		}
		if g.yield2 && g.heapT != "" && g.heapUse && g.heapWr {
			// the closure allocates: the heap it leaves behind is handed back next to the log
			s := strings.ReplaceAll(w.b.String(), "return log\n", "return (log, heap)\n")
			w.b.Reset()
			w.b.WriteString(s)
		}
		if rt == nil && len(accNames) > 0 && !(g.heapT != "" && g.heapUse) {
			// no result of its own: the accumulators it was given are what it returns
			if len(accNames) == 1 {
				w.line("return " + accNames[0])
				resT = "List UInt8"
			} else {
				w.line("return (" + strings.Join(accNames, ", ") + ")")
				var ts []string
				for range accNames {
					ts = append(ts, "(List UInt8)")
				}
				resT = "(" + strings.Join(ts, " × ") + ")"
			}
			doc += "; the *bytes.Buffer parameter is the bytes written so far, handed back as the result"
		}
		if g.heapT != "" && g.heapUse {
			hl := g.heapLeanT()
			if rt == nil && cbT != "" {
				if g.heapWr {
					g.die(fd, "a callback iterator that writes the heap")
				}
			} else if rt == nil {
				if g.heapWr {
					w.line("return heap")
					resT = hl
				} else {
					w.line("return ()")
				}
			} else if g.heapWr && len(g.results) == 1 {
				resT = "(" + paren(resT) + " × " + hl + ")"
			} else if g.heapWr {
				// several results: (results…, heap, receiver state…)
				var ts []string
				for _, r := range g.results {
					ts = append(ts, paren(g.leanType(r.Type())))
				}
				resT = "(" + strings.Join(append(append(ts, paren(hl)), recvTypes...), " × ") + ")"
			}
			params = append([]string{"(heap : " + hl + ")"}, params...)
			if g.heapStruct().NumFields() == 1 {
				doc += "; `heap` is the list of the map fields of all " + g.heapT + " nodes allocated so far, a *" + g.heapT + " is an index into it (nil = -1)"
			} else {
				doc += "; `heap` is the list of all " + g.heapT + " cells allocated so far (each the tuple of its fields), a *" + g.heapT + " is an index into it (nil = -1)"
			}
		}
		g.yieldT = ""
		globals := g.sortedGlobals()
		if g.usesRoom {
			params = append([]string{"(room : Nat)"}, params...)
			doc += "; the *bytes.Buffer handed to the writer method is the Wr with `room` bytes of room (a Buffer never refuses bytes: theorems take `room` at least the bytes written)"
		}
		if g.usesFuel {
			params = append([]string{"(fuel : Nat)"}, params...)
			g.funcs[name].fuel = true
			doc += "; `fuel` bounds every `for cond { }` loop (out of fuel = `none`, no claim)"
		}
		if len(g.extUsed) > 0 {
			var ks []string
			for k := range g.extUsed {
				ks = append(ks, k)
			}
			sort.Strings(ks)
			g.funcs[name].exts = ks
			var eps []string
			for _, k := range ks {
				eps = append(eps, "("+g.extFuncs[k].param+" : "+g.extFuncs[k].typ+")")
				doc += "; `" + g.extFuncs[k].param + "` stands for " + k + " (a parameter: nothing is assumed about it here)"
			}
			params = append(eps, params...)
		}
		all := strings.TrimSpace(g.globalParams(globals) + " " + strings.Join(params, " "))
		src := goName
		if recvType != "" {
			src = "(" + recvType + ")." + goName
		}
		bodyText, intro := w.b.String(), "do\n"
		if g.selfRec {
			// recursion: structural on `fuel` (out of fuel = `none`, no claim)
			var ls []string
			for _, l := range strings.Split(strings.TrimRight(bodyText, "\n"), "\n") {
				ls = append(ls, "  "+l)
			}
			bodyText = strings.Join(ls, "\n") + "\n"
			intro = "match fuel with\n  | 0 => none\n  | fuel + 1 => do\n"
			doc += "; the function calls itself: each call consumes one unit of `fuel`"
			if len(g.selfExts) != len(g.extUsed) {
				g.die(fd, "a recursive function must declare the stdlib parameters it uses")
			}
		}
		text := fmt.Sprintf("def %s_Found : Bool := true\n%s/-- translated from %s in %s/%s%s -/\ndef %s %s : Option %s := %s%s",
			name, strings.Join(g.lits, ""), src, rel, file, doc, name, all, paren(resT), intro, bodyText)
		return text, globals
	})
}

// extObjFunction translates a function that drives EXTERNAL objects (mash.Add: a *minhash.MinHash and a murmur3
// hasher) and returns nothing: the external object parameter is an abstract state `σ` whose methods are
// parameters, the hasher is the bytes written since Reset and a hash parameter, iterators of other translated
// packages are called with the consumer that never stops.  The result is the object's final state.
func (g *gl) extObjFunction(name, rel, placeholder string, opOrder, hashOrder, extOrder []string, xGlobalT map[string]string) {
	g.guarded(name, placeholder, func() (string, []string) {
		fd, file := g.findFunc(name, 0)
		if fd == nil || fd.Body == nil {
			g.die(nil, "function not found")
		}
		if fd.Type.Results != nil && len(fd.Type.Results.List) > 0 {
			g.die(fd, "extObjFunction with results")
		}
		g.findMutated(fd.Body)
		g.yieldT, g.curFunc, g.lits = "", name, nil
		defer func() { g.curFunc = "" }()
		g.structLoc = map[types.Object][]string{}
		g.retSuffix, g.results, g.namedRes = nil, nil, false
		g.extUsed, g.extObjUsed, g.hashUsed, g.xGlobals = map[string]bool{}, map[string]bool{}, map[string]bool{}, map[string]bool{}
		g.hashLocals, g.hashKind = map[types.Object]string{}, map[types.Object]string{}
		g.recLocal = map[types.Object]bool{}
		g.usesFuel = false
		var params, objs []string
		for _, fl := range fd.Type.Params.List {
			for _, pn := range fl.Names {
				o := g.info.Defs[pn]
				if g.extObjs[pn.Name] {
					params = append(params, "("+pn.Name+" : σ)")
					objs = append(objs, pn.Name)
					continue
				}
				params = append(params, "("+g.nameOf(o)+" : "+g.leanType(o.Type())+")")
				if g.mut[o] {
					g.die(fd, "a plain parameter is written")
				}
			}
		}
		if len(objs) != 1 {
			g.die(fd, "exactly one external object parameter expected")
		}
		w := &wr{b: &bytes.Buffer{}, ind: 1}
		w.line("let mut " + objs[0] + " := " + objs[0])
		g.block(w, fd.Body.List)
		w.line("return " + objs[0])
		if g.usesFuel {
			g.die(fd, "fuel in an extObjFunction")
		}
		var lead []string
		for _, gv := range g.sortedGlobals() {
			lead = append(lead, "(g_"+gv+" : "+g.leanType(g.pkg.Scope().Lookup(gv).Type())+")")
		}
		var xg []string
		for k := range g.xGlobals {
			xg = append(xg, k)
		}
		sort.Strings(xg)
		for _, k := range xg {
			lead = append(lead, "("+k+" : "+xGlobalT[k]+")")
		}
		for _, k := range extOrder {
			if g.extUsed[k] {
				lead = append(lead, "("+g.extFuncs[k].param+" : "+g.extFuncs[k].typ+")")
			}
		}
		for _, h := range hashOrder {
			if g.hashUsed[h] {
				lead = append(lead, "("+h+" : UInt32 → List UInt8 → UInt64)")
			}
		}
		for _, op := range opOrder {
			if g.extObjUsed[op] {
				lead = append(lead, "("+op+" : "+g.extObjOps[op]+")")
			}
		}
		all := strings.Join(append(lead, params...), " ")
		text := fmt.Sprintf("def %s_Found : Bool := true\n/-- translated from %s in %s/%s; the external object is an abstract state `σ`, its methods and the hash function are parameters (nothing is assumed about them), the result is the object's final state -/\ndef %s {σ : Type} %s : Option σ := do\n%s",
			name, name, rel, file, name, all, w.b.String())
		return text, nil
	})
}

// readerMethod translates the `read` method of a format reader whose only state is a
// bufio.Reader used through ReadByte/UnreadByte (kind "bytes": the function takes the
// remaining input bytes and how the source ends, and hands back the unread rest) or a
// bufio.Scanner with the default line splitter (kind "lines": remaining tokens instead).
// The result is ((record or none, error), remaining input).
func (g *gl) readerMethod(lname, recvType, method, field, kind, rel, recT, placeholder string) {
	g.guarded(lname, placeholder, func() (string, []string) {
		var fd *ast.FuncDecl
		file := ""
		for _, f := range g.files {
			for _, d := range f.Decls {
				if x, ok := d.(*ast.FuncDecl); ok && x.Name.Name == method && x.Recv != nil && len(x.Recv.List) == 1 && len(x.Recv.List[0].Names) == 1 {
					if st, ok := x.Recv.List[0].Type.(*ast.StarExpr); ok {
						if id, ok := st.X.(*ast.Ident); ok && id.Name == recvType {
							fd, file = x, filepath.Base(g.fset.Position(x.Pos()).Filename)
						}
					}
				}
			}
		}
		if fd == nil || fd.Body == nil {
			g.die(nil, "method not found")
		}
		g.findMutated(fd.Body)
		g.yieldT, g.curFunc, g.lits = "", lname, nil
		synthActive = true
		defer func() { synthActive = false }()
		g.rdKind, g.rdRecv, g.rdField, g.rdLabel, g.nScan = kind, fd.Recv.List[0].Names[0].Name, field, "", 0
		g.structLoc = map[types.Object][]string{}
		defer func() { g.rdKind, g.curFunc = "", "" }()
		g.rdLoopVar = ""
		ast.Inspect(fd.Body, func(n ast.Node) bool {
			if f, ok := n.(*ast.ForStmt); ok && f.Init != nil {
				if a, ok := f.Init.(*ast.AssignStmt); ok && len(a.Lhs) == 2 && len(a.Rhs) == 1 && g.rdCall(a.Rhs[0]) == "ReadByte" {
					if id, ok := a.Lhs[0].(*ast.Ident); ok {
						g.rdLoopVar = id.Name
					}
				}
			}
			return true
		})
		w := &wr{b: &bytes.Buffer{}, ind: 1}
		params := "(src : List UInt8) (ending : Ending)"
		stT := "List UInt8"
		g.rdState = "src.drop pos"
		if kind == "lines" {
			params = "(lines : List (List UInt8)) (ending : Ending)"
			stT = "List (List UInt8)"
			g.rdState = "lines"
			w.line("let mut lines := lines")
			w.line("let mut cur : List UInt8 := []")
		}
		g.block(w, fd.Body.List)
		if len(g.globals) != 0 {
			g.die(fd, "reader method uses package-level variables")
		}
		text := fmt.Sprintf("def %s_Found : Bool := true\n/-- translated from (*%s).%s in %s/%s; the bufio state is the remaining input -/\ndef %s %s : Option ((Option (%s) × GoErr) × %s) := do\n%s",
			lname, recvType, method, rel, file, lname, params, recT, stT, w.b.String())
		return text, nil
	})
}

// fprintfBytes turns the arguments of fmt.Fprintf(w, "literal %s %d …", args…) into the Lean term for
// the bytes of that ONE Write call.  Only the verbs whose output the model can state exactly.
func (g *gl) fprintfBytes(c *ast.CallExpr) string {
	tv, ok := g.info.Types[c.Args[1]]
	if ok && tv.Value == nil && len(c.Args) == 3 {
		// a format computed at run time, with one operand: `sprintf1` (defined for formats with the single verb %v)
		if bt, isB := tv.Type.Underlying().(*types.Basic); isB && bt.Kind() == types.String {
			a := c.Args[2]
			at := g.typeOf(a)
			x := g.expr(a)
			var txt string
			switch {
			case isInt(at) && !isFloat(at):
				txt = "(itoa " + x.arg() + ")"
			case isByte(at):
				txt = "(itoa (" + x.arg() + ".toNat : Int))"
			case isList(at) && func() bool { b, ok := at.Underlying().(*types.Basic); return ok && b.Kind() == types.String }():
				txt = x.arg()
			default:
				g.die(c, "Fprintf operand type with a computed format")
			}
			return "(← sprintf1 " + g.expr(c.Args[1]).arg() + " " + txt + ")"
		}
	}
	if !ok || tv.Value == nil || tv.Value.Kind() != constant.String {
		g.die(c, "Fprintf with a non-constant format")
	}
	format := constant.StringVal(tv.Value)
	args := c.Args[2:]
	var parts []string
	lit := []byte{}
	flush := func() {
		if len(lit) > 0 {
			parts = append(parts, bytesLit(lit))
			lit = []byte{}
		}
	}
	ai := 0
	for i := 0; i < len(format); i++ {
		ch := format[i]
		if ch != '%' {
			lit = append(lit, ch)
			continue
		}
		i++
		if i >= len(format) {
			g.die(c, "format ends in %")
		}
		if format[i] == '%' {
			lit = append(lit, '%')
			continue
		}
		if ai >= len(args) {
			g.die(c, "too few Fprintf arguments")
		}
		a := args[ai]
		ai++
		at := g.typeOf(a)
		x := g.expr(a)
		switch verb := format[i]; {
		case (verb == 's') && isList(at):
			flush()
			parts = append(parts, x.arg())
		case verb == 'v' && isList(at) && func() bool { b, ok := at.Underlying().(*types.Basic); return ok && b.Kind() == types.String }():
			flush()
			parts = append(parts, x.arg())
		case (verb == 'v' || verb == 'd') && isInt(at):
			flush()
			parts = append(parts, "itoa "+x.arg())
		case (verb == 'v' || verb == 'd') && isByte(at):
			flush()
			parts = append(parts, "itoa ("+x.arg()+".toNat : Int)")
		default:
			g.die(c, fmt.Sprintf("Fprintf verb %%%c with %s", verb, at))
		}
	}
	flush()
	if ai != len(args) {
		g.die(c, "too many Fprintf arguments")
	}
	if len(parts) == 0 {
		return "[]"
	}
	return strings.Join(parts, " ++ ")
}

// `_, err := fmt.Fprintf(w, …)` / `if _, err := fmt.Fprintf(w, …); err != nil {…}`: the call, as the Lean lines
// that perform the write on the mutable writer `w`; returns the name bound to the error.
func (g *gl) fprintfStmt(w *wr, a *ast.AssignStmt) (string, bool) {
	if g.wrParam == "" || a.Tok != token.DEFINE || len(a.Lhs) != 2 || len(a.Rhs) != 1 {
		return "", false
	}
	c, ok := a.Rhs[0].(*ast.CallExpr)
	if !ok || len(c.Args) < 2 {
		return "", false
	}
	sel, ok := c.Fun.(*ast.SelectorExpr)
	if !ok || sel.Sel.Name != "Fprintf" {
		return "", false
	}
	pk, ok := sel.X.(*ast.Ident)
	if !ok {
		return "", false
	}
	if pn, ok := g.info.Uses[pk].(*types.PkgName); !ok || pn.Imported().Path() != "fmt" {
		return "", false
	}
	if id, ok := c.Args[0].(*ast.Ident); !ok || id.Name != g.wrParam {
		g.die(c, "Fprintf to something other than the writer parameter")
	}
	n, ok1 := a.Lhs[0].(*ast.Ident)
	e, ok2 := a.Lhs[1].(*ast.Ident)
	if !ok1 || !ok2 || n.Name != "_" {
		g.die(a, "Fprintf result list")
	}
	k := g.nScan
	g.nScan++
	w.line(fmt.Sprintf("let (w%d, %s) := wrWrite %s (%s)", k, e.Name, g.wrParam, g.fprintfBytes(c)))
	w.line(fmt.Sprintf("%s := w%d", g.wrParam, k))
	return e.Name, true
}

// writerMethod translates `func (f *T) Write(w io.Writer) error` of a record type: the receiver's fields
// become parameters `f_<Field>`, the writer the abstract `Wr`; the result is (error, writer afterwards).
func (g *gl) writerMethod(lname, recvType, method, rel, placeholder string, opaque map[string][2]string) {
	g.guarded(lname, placeholder, func() (string, []string) {
		g.opaque, g.opaqueUsed = map[string]string{}, map[string]bool{}
		for fn, p := range opaque {
			g.opaque[fn] = p[0]
		}
		defer func() { g.opaque = nil }()
		var fd *ast.FuncDecl
		file := ""
		for _, f := range g.files {
			for _, d := range f.Decls {
				if x, ok := d.(*ast.FuncDecl); ok && x.Name.Name == method && x.Recv != nil && len(x.Recv.List) == 1 && len(x.Recv.List[0].Names) == 1 {
					if st, ok := x.Recv.List[0].Type.(*ast.StarExpr); ok {
						if id, ok := st.X.(*ast.Ident); ok && id.Name == recvType {
							fd, file = x, filepath.Base(g.fset.Position(x.Pos()).Filename)
						}
					}
				}
			}
		}
		if fd == nil || fd.Body == nil || len(fd.Type.Params.List) != 1 || len(fd.Type.Params.List[0].Names) != 1 {
			g.die(nil, "method not found")
		}
		g.findMutated(fd.Body)
		g.yieldT, g.curFunc, g.lits, g.nScan = "", lname, nil, 0
		synthActive = true
		defer func() { synthActive = false }()
		g.rdKind = "write"
		g.wrParam = ln(fd.Type.Params.List[0].Names[0].Name)
		g.rdState = g.wrParam
		defer func() { g.rdKind, g.curFunc, g.wrParam = "", "", "" }()
		g.structLoc = map[types.Object][]string{}
		rn := fd.Recv.List[0].Names[0]
		robj := g.info.Defs[rn]
		st, ok := robj.Type().(*types.Pointer).Elem().Underlying().(*types.Struct)
		if !ok {
			g.die(fd, "receiver is not a struct pointer")
		}
		var fs, params []string
		for i := 0; i < st.NumFields(); i++ {
			f := st.Field(i)
			lt, ok := func() (t string, ok bool) {
				defer func() {
					if r := recover(); r != nil {
						if _, isBail := r.(bail); !isBail {
							panic(r)
						}
						ok = false
					}
				}()
				return g.leanType(f.Type()), true
			}()
			if !ok {
				continue // a field of a type the translation cannot express: usable only through an opaque call
			}
			fs = append(fs, f.Name())
			params = append(params, "("+rn.Name+"_"+f.Name()+" : "+lt+")")
		}
		g.structLoc[robj] = fs
		w := &wr{b: &bytes.Buffer{}, ind: 1}
		w.line("let mut " + g.wrParam + " := " + g.wrParam)
		g.block(w, fd.Body.List)
		globals := g.sortedGlobals()
		doc := ""
		var ofs []string
		for fn := range g.opaqueUsed {
			ofs = append(ofs, fn)
		}
		sort.Strings(ofs)
		for _, fn := range ofs {
			params = append(params, "("+opaque[fn][0]+" : "+opaque[fn][1]+")")
			doc += "; `" + opaque[fn][0] + "` stands for the value of " + fn + "(…)"
		}
		all := strings.TrimSpace(g.globalParams(globals) + " " + strings.Join(params, " ") + " (" + g.wrParam + " : Wr)")
		text := fmt.Sprintf("def %s_Found : Bool := true\n%s/-- translated from (*%s).%s in %s/%s; the io.Writer accepts `room` more bytes, then fails"+doc+" -/\ndef %s %s : Option (GoErr × Wr) := do\n%s",
			lname, strings.Join(g.lits, ""), recvType, method, rel, file, lname, all, w.b.String())
		return text, globals
	})
}

// iterMethod translates `func (r *reader) iter() iter.Seq2[*T, error]` whose closure is an unbounded
// `for { x, err := r.read(); … }` loop around the (already translated) read method.  The loop gets a
// fuel parameter; running out of fuel is `none` (no claim), so theorems must show the fuel suffices.
// The result is the log of (record-or-none, error) pairs handed to the consumer `yield`.
func (g *gl) iterMethod(lname, readName, recvType, method, kind, rel, recT, placeholder string) {
	g.guarded(lname, placeholder, func() (string, []string) {
		rd, ok := g.funcs[readName]
		if !ok || !rd.found {
			g.die(nil, "the read method was not translated")
		}
		var fd *ast.FuncDecl
		file := ""
		for _, f := range g.files {
			for _, d := range f.Decls {
				if x, ok := d.(*ast.FuncDecl); ok && x.Name.Name == method && x.Recv != nil && len(x.Recv.List) == 1 && len(x.Recv.List[0].Names) == 1 {
					if st, ok := x.Recv.List[0].Type.(*ast.StarExpr); ok {
						if id, ok := st.X.(*ast.Ident); ok && id.Name == recvType {
							fd, file = x, filepath.Base(g.fset.Position(x.Pos()).Filename)
						}
					}
				}
			}
		}
		if fd == nil || fd.Body == nil || len(fd.Body.List) != 1 {
			g.die(nil, "method not found")
		}
		ret, ok := fd.Body.List[0].(*ast.ReturnStmt)
		if !ok || len(ret.Results) != 1 {
			g.die(fd, "iter body")
		}
		fl, ok := ret.Results[0].(*ast.FuncLit)
		if !ok || len(fl.Type.Params.List) != 1 || len(fl.Type.Params.List[0].Names) != 1 || fl.Type.Params.List[0].Names[0].Name != "yield" || len(fl.Body.List) != 1 {
			g.die(fd, "iter closure")
		}
		loop, ok := fl.Body.List[0].(*ast.ForStmt)
		if !ok || loop.Init != nil || loop.Cond != nil || loop.Post != nil {
			g.die(fd, "iter loop")
		}
		g.findMutated(fl.Body)
		g.yieldT, g.curFunc, g.lits, g.nScan = "", lname, nil, 0
		synthActive = true
		defer func() { synthActive = false }()
		g.rdKind, g.rdRecv = "iter", fd.Recv.List[0].Names[0].Name
		g.iterRead, g.iterRec = readName, "Option ("+recT+") × GoErr"
		g.structLoc = map[types.Object][]string{}
		defer func() { g.rdKind, g.curFunc = "", "" }()
		st, stT := "src", "List UInt8"
		if kind == "lines" {
			st, stT = "lines", "List (List UInt8)"
		}
		g.rdState = st
		w := &wr{b: &bytes.Buffer{}, ind: 1}
		w.line("let mut log : List (" + g.iterRec + ") := []")
		w.line("let mut " + st + " := " + st)
		w.line("let mut outOfFuel := true")
		w.line("for _ in List.range fuel do")
		w.ind++
		g.block(w, loop.Body.List)
		w.ind--
		w.line("if outOfFuel then")
		w.ind++
		w.line("(none : Option Unit)")
		w.ind--
		w.line("return log")
		g.funcs[lname].itemT, g.funcs[lname].fuel = "("+g.iterRec+")", true
		g.iterFuncs[lname] = true
		text := fmt.Sprintf("def %s_Found : Bool := true\n/-- translated from (*%s).%s in %s/%s; `fuel` bounds the `for {}` loop (out of fuel = `none`), `yield` is the consumer (given all items handed to it so far, the current one last; so stateful consumers are covered), the result the log of items handed to it -/\ndef %s (fuel : Nat) (%s : %s) (ending : Ending) (yield : List (%s) → Bool) : Option (List (%s)) := do\n%s",
			lname, recvType, method, rel, file, lname, st, stT, g.iterRec, g.iterRec, w.b.String())
		return text, nil
	})
}

// in an iter closure: `x, err := r.read()`, `yield(a, b)`, `break`, `return`
func (g *gl) iterStmt(w *wr, s ast.Stmt) bool {
	if g.rdKind != "iter" {
		return false
	}
	yieldArgs := func(c *ast.CallExpr) (string, bool) {
		id, ok := c.Fun.(*ast.Ident)
		if !ok || id.Name != "yield" || len(c.Args) != 2 {
			return "", false
		}
		rec := ""
		if a, ok := c.Args[0].(*ast.Ident); ok {
			if a.Name == "nil" {
				rec = "none"
			} else {
				rec = a.Name
			}
		}
		if rec == "" {
			g.die(c, "yield argument")
		}
		return "(" + rec + ", " + g.expr(c.Args[1]).opnd() + ")", true
	}
	switch v := s.(type) {
	case *ast.AssignStmt:
		if v.Tok == token.DEFINE && len(v.Lhs) == 2 && len(v.Rhs) == 1 {
			if c, ok := v.Rhs[0].(*ast.CallExpr); ok && len(c.Args) == 0 {
				if sel, ok := c.Fun.(*ast.SelectorExpr); ok && sel.Sel.Name == "read" {
					if id, ok := sel.X.(*ast.Ident); ok && id.Name == g.rdRecv {
						a, b := v.Lhs[0].(*ast.Ident).Name, v.Lhs[1].(*ast.Ident).Name
						k := g.nScan
						g.nScan++
						w.line(fmt.Sprintf("let ((%s, %s), st%d) ← %s %s ending", a, b, k, g.iterRead, g.rdState))
						w.line(fmt.Sprintf("%s := st%d", g.rdState, k))
						return true
					}
				}
			}
		}
	case *ast.ExprStmt:
		if c, ok := v.X.(*ast.CallExpr); ok {
			if item, ok := yieldArgs(c); ok { // result ignored by the Go code
				w.line("log := log ++ [" + item + "]")
				w.line("let _ := yield log")
				return true
			}
		}
	case *ast.BranchStmt:
		if v.Tok == token.BREAK && v.Label == nil {
			w.line("outOfFuel := false")
			w.line("break")
			return true
		}
	case *ast.ReturnStmt:
		if len(v.Results) == 0 {
			w.line("return log")
			return true
		}
	case *ast.IfStmt:
		if u, ok := v.Cond.(*ast.UnaryExpr); ok && u.Op == token.NOT && v.Init == nil && v.Else == nil {
			if c, ok := u.X.(*ast.CallExpr); ok {
				if item, ok := yieldArgs(c); ok {
					w.line("log := log ++ [" + item + "]")
					w.line("if !(yield log) then")
					w.ind++
					g.block(w, v.Body.List)
					w.ind--
					return true
				}
			}
		}
	}
	return false
}

// an init function: the package-level variables it assigns become its result
func (g *gl) initFunc(nth int, rel, placeholder string) {
	name := fmt.Sprintf("init_%d", nth)
	g.guarded(name, placeholder, func() (string, []string) {
		fd, file := g.findFunc("init", nth)
		if fd == nil {
			g.die(nil, "init not found")
		}
		g.findMutated(fd.Body)
		g.yieldT = ""
		// package-level variables written by this function, in order of first write
		var built []string
		seen := map[string]bool{}
		note := func(e ast.Expr) {
			for {
				switch x := e.(type) {
				case *ast.IndexExpr:
					e = x.X
					continue
				case *ast.SliceExpr:
					e = x.X
					continue
				case *ast.Ident:
					if o, ok := g.info.Uses[x].(*types.Var); ok && o.Parent() == g.pkg.Scope() && !seen[o.Name()] {
						seen[o.Name()] = true
						built = append(built, o.Name())
					}
				}
				return
			}
		}
		ast.Inspect(fd.Body, func(n ast.Node) bool {
			switch v := n.(type) {
			case *ast.AssignStmt:
				if v.Tok != token.DEFINE {
					for _, l := range v.Lhs {
						note(l)
					}
				}
			case *ast.CallExpr:
				if id, ok := v.Fun.(*ast.Ident); ok && id.Name == "copy" && len(v.Args) == 2 {
					note(v.Args[0])
				}
			}
			return true
		})
		if len(built) == 0 {
			g.die(fd, "init builds nothing")
		}
		w := &wr{b: &bytes.Buffer{}, ind: 1}
		withInit := false
		var types_ []string
		for _, n := range built {
			obj := g.pkg.Scope().Lookup(n)
			t := g.leanType(obj.Type())
			types_ = append(types_, t)
			initText := "[]"
			if iv := g.varInitialiser(n); iv != nil {
				e := g.expr(iv)
				if e.act {
					g.die(iv, "initialiser with effects")
				}
				initText, withInit = e.text, true
			}
			w.line("let mut g_" + n + " : " + t + " := " + initText)
		}
		g.block(w, fd.Body.List)
		res := "g_" + built[0]
		rt := types_[0]
		if len(built) > 1 {
			res = "(g_" + strings.Join(built, ", g_") + ")"
			rt = strings.Join(types_, " × ")
		}
		w.line("return " + res)
		extra := ""
		if withInit {
			extra = " (with the initialiser of " + strings.Join(built, ", ") + ")"
		}
		// an init function must not read other package-level variables
		for gv := range g.globals {
			if !seen[gv] {
				g.die(fd, "init reads package-level variable "+gv)
			}
		}
		text := fmt.Sprintf("def %s_Found : Bool := true\n/-- translated from init #%d in %s/%s%s; result = %s -/\ndef %s : Option %s := do\n%s",
			name, nth, rel, file, extra, strings.ReplaceAll(res, "g_", ""), name, paren(rt), w.b.String())
		return text, nil
	})
}

func (g *gl) varInitialiser(name string) ast.Expr {
	for _, f := range g.files {
		for _, d := range f.Decls {
			gd, ok := d.(*ast.GenDecl)
			if !ok || gd.Tok != token.VAR {
				continue
			}
			for _, sp := range gd.Specs {
				vs := sp.(*ast.ValueSpec)
				for i, n := range vs.Names {
					if n.Name == name && i < len(vs.Values) {
						return vs.Values[i]
					}
				}
			}
		}
	}
	return nil
}

// a package-level map literal with constant keys and values
func (g *gl) mapLiteral(name, rel, placeholder string) {
	lname := "g_" + name
	g.guarded(lname, placeholder, func() (string, []string) {
		iv := g.varInitialiser(name)
		cl, ok := iv.(*ast.CompositeLit)
		if !ok {
			g.die(nil, "map literal not found")
		}
		obj := g.pkg.Scope().Lookup(name)
		var ents []string
		for _, el := range cl.Elts {
			kv, ok := el.(*ast.KeyValueExpr)
			if !ok {
				g.die(el, "map element")
			}
			var key string
			if kl, ok := kv.Key.(*ast.CompositeLit); ok {
				var ks []string
				for _, x := range kl.Elts {
					c, ok := g.constant(x)
					if !ok {
						g.die(x, "non-constant key")
					}
					ks = append(ks, c.text)
				}
				key = "[" + strings.Join(ks, ", ") + "]"
			} else if c, ok := g.constant(kv.Key); ok {
				key = c.text
			} else {
				g.die(kv.Key, "map key")
			}
			var vtext string
			if vl, ok := kv.Value.(*ast.CompositeLit); ok {
				var vs []string
				for _, x := range vl.Elts {
					c, ok := g.constant(x)
					if !ok {
						g.die(x, "non-constant value")
					}
					vs = append(vs, c.text)
				}
				vtext = "[" + strings.Join(vs, ", ") + "]"
			} else {
				v, ok := g.constant(kv.Value)
				if !ok {
					g.die(kv.Value, "non-constant value")
				}
				vtext = v.text
			}
			ents = append(ents, "("+key+", "+vtext+")")
		}
		file := filepath.Base(g.fset.Position(cl.Pos()).Filename)
		text := fmt.Sprintf("def %s_Found : Bool := true\n/-- map literal `%s` (%s/%s) -/\ndef %s : %s := [%s]\n",
			lname, name, rel, file, lname, g.leanType(obj.Type()), strings.Join(ents, ",\n  "))
		return text, nil
	})
}

func loadPkg(dir string) *gl {
	fset := token.NewFileSet()
	pkgs, err := parser.ParseDir(fset, dir, func(fi os.FileInfo) bool { return !strings.HasSuffix(fi.Name(), "_test.go") }, 0)
	if err != nil || len(pkgs) != 1 {
		fmt.Fprintln(os.Stderr, "golean: cannot parse", dir, err)
		os.Exit(2)
	}
	g := &gl{fset: fset, funcs: map[string]*glFunc{}, iterFuncs: map[string]bool{}, heapFuncs: map[string]bool{}, methodNames: map[string]string{}}
	for _, p := range pkgs {
		var names []string
		for n := range p.Files {
			names = append(names, n)
		}
		sort.Strings(names)
		for _, n := range names {
			g.files = append(g.files, p.Files[n])
		}
		g.info = &types.Info{Types: map[ast.Expr]types.TypeAndValue{}, Defs: map[*ast.Ident]types.Object{}, Uses: map[*ast.Ident]types.Object{}, Implicits: map[ast.Node]types.Object{}}
		conf := types.Config{Importer: importer.ForCompiler(fset, "source", nil), Error: func(error) {}}
		g.pkg, _ = conf.Check(p.Name, fset, g.files, g.info)
	}
	return g
}

func goLean(repo, out string) {
	w := &bytes.Buffer{}
	fmt.Fprintln(w, "-- GENERATED by harness/cmd/translate -go from the Go source text of /repo on every run. Do not edit.")
	fmt.Fprintln(w, "import Bio.Model.GoRt")
	fmt.Fprintln(w, "import Bio.Model.GoRtNewick")
	fmt.Fprintln(w, "import Bio.Model.Sam")
	fmt.Fprintln(w, "namespace Bio.Generated.GoSrc")
	fmt.Fprintln(w, "open Bio Bio.GoRt")
	fmt.Fprintln(w)
	g := loadPkg(filepath.Join(repo, "sequtil"))
	const B, BB = "List UInt8", "List (List UInt8)"
	g.mapLiteral("codonToAmino", "sequtil", "def g_codonToAmino : List (List UInt8 × UInt8) := []")
	g.initFunc(0, "sequtil", "def init_0 : Option (List Int × List UInt8) := none")
	g.function("Ntoi", "sequtil", "def Ntoi (g_ntoi : List Int) (nuc : UInt8) : Option Int := none")
	g.function("Iton", "sequtil", "def Iton (num : Int) : Option UInt8 := none")
	g.function("complementByte", "sequtil", "def complementByte (g_complementBytes : "+B+") (b : UInt8) : Option UInt8 := none")
	g.function("ReverseComplement", "sequtil", "def ReverseComplement (g_complementBytes : "+B+") (dst : "+B+") (src : "+B+") : Option ("+B+") := none")
	g.function("DNATo2Bit", "sequtil", "def DNATo2Bit (g_ntoi : List Int) (dst : "+B+") (src : "+B+") : Option ("+B+") := none")
	g.function("DNAFrom2Bit", "sequtil", "def DNAFrom2Bit (g_dnaFrom2bit : "+BB+") (dst : "+B+") (src : "+B+") : Option ("+B+") := none")
	g.initFunc(1, "sequtil", "def init_1 : Option ("+BB+") := none")
	g.function("CanonicalSubsequences", "sequtil", "def CanonicalSubsequences (g_complementBytes : "+B+") (seq : "+B+") (k : Int) (yield : "+BB+" → Bool) : Option ("+BB+") := none")
	g.function("Translate", "sequtil", "def Translate (g_codonToAmino : List (List UInt8 × UInt8)) (dst : "+B+") (src : "+B+") : Option ("+B+") := none")
	g.function("TranslateReadingFrames", "sequtil", "def TranslateReadingFrames (g_codonToAmino : List (List UInt8 × UInt8)) (seq : "+B+") : Option ("+BB+") := none")
	g.mapLiteral("aminoToName", "sequtil", "def g_aminoToName : List (UInt8 × List (List UInt8)) := []")
	g.function("AminoName", "sequtil", "def AminoName (g_aminoToName : List (UInt8 × List (List UInt8))) (aa : UInt8) : Option (("+B+") × ("+B+")) := none")
	g.function("ReverseComplementString", "sequtil", "def ReverseComplementString (g_complementBytes : "+B+") (s : "+B+") : Option ("+B+") := none")
	for _, n := range g.order {
		w.WriteString(g.funcs[n].text)
		w.WriteString("\n")
	}
	// formats/newick: the name codec
	g2 := loadPkg(filepath.Join(repo, "formats", "newick"))
	g2.function("quoted", "formats/newick", "def quoted (s : "+B+") : Option Bool := none")
	g2.function("nameFromText", "formats/newick", "def nameFromText (s : "+B+") : Option ("+B+") := none")
	g2.function("nameToText", "formats/newick", "def nameToText_lit0 : List UInt8 := []\ndef nameToText (s : "+B+") : Option ("+B+") := none")
	for _, n := range g2.order {
		w.WriteString(g2.funcs[n].text)
		w.WriteString("\n")
	}
	// formats/fasta and formats/fastq: the `read` methods (one record from the remaining input)
	g3 := loadPkg(filepath.Join(repo, "formats", "fasta"))
	g3.readerMethod("fasta_read", "reader", "read", "r", "bytes", "formats/fasta", B+" × "+B,
		"def fasta_read (src : "+B+") (ending : Ending) : Option ((Option ("+B+" × "+B+") × GoErr) × "+B+") := none")
	w.WriteString(g3.funcs["fasta_read"].text + "\n")
	g4 := loadPkg(filepath.Join(repo, "formats", "fastq"))
	g4.readerMethod("fastq_read", "reader", "read", "s", "lines", "formats/fastq", B+" × "+B+" × "+B,
		"def fastq_read (lines : "+BB+") (ending : Ending) : Option ((Option ("+B+" × "+B+" × "+B+") × GoErr) × "+BB+") := none")
	w.WriteString(g4.funcs["fastq_read"].text + "\n")
	g3.iterMethod("fasta_iter", "fasta_read", "reader", "iter", "bytes", "formats/fasta", B+" × "+B,
		"def fasta_iter (fuel : Nat) (src : "+B+") (ending : Ending) (yield : List (Option ("+B+" × "+B+") × GoErr) → Bool) : Option (List (Option ("+B+" × "+B+") × GoErr)) := none")
	w.WriteString(g3.funcs["fasta_iter"].text + "\n")
	g4.iterMethod("fastq_iter", "fastq_read", "reader", "iter", "lines", "formats/fastq", B+" × "+B+" × "+B,
		"def fastq_iter (fuel : Nat) (lines : "+BB+") (ending : Ending) (yield : List (Option ("+B+" × "+B+" × "+B+") × GoErr) → Bool) : Option (List (Option ("+B+" × "+B+" × "+B+") × GoErr)) := none")
	w.WriteString(g4.funcs["fastq_iter"].text + "\n")
	// the Write methods of the two record types
	g3.writerMethod("fasta_Write", "Fasta", "Write", "formats/fasta",
		"def fasta_Write (f_Name : "+B+") (f_Sequence : "+B+") (w : Wr) : Option (GoErr × Wr) := none", nil)
	w.WriteString(g3.funcs["fasta_Write"].text + "\n")
	g4.writerMethod("fastq_Write", "Fastq", "Write", "formats/fastq",
		"def fastq_Write (f_Name : "+B+") (f_Sequence : "+B+") (f_Quals : "+B+") (w : Wr) : Option (GoErr × Wr) := none", nil)
	w.WriteString(g4.funcs["fastq_Write"].text + "\n")
	// MarshalText of both: the pre-computed length, the Write into a *bytes.Buffer, the self-check that panics on a mismatch
	g3.wrMethods = map[string]string{"Fasta.Write": "fasta_Write"}
	g3.method("Fasta", "MarshalText", "fasta_MarshalText", "formats/fasta", "def fasta_MarshalText (room : Nat) (f_Name : "+B+") (f_Sequence : "+B+") : Option (("+B+") × GoErr) := none")
	w.WriteString(g3.funcs["fasta_MarshalText"].text + "\n")
	g4.wrMethods = map[string]string{"Fastq.Write": "fastq_Write"}
	g4.method("Fastq", "MarshalText", "fastq_MarshalText", "formats/fastq", "def fastq_MarshalText (room : Nat) (f_Name : "+B+") (f_Sequence : "+B+") (f_Quals : "+B+") : Option (("+B+") × GoErr) := none")
	w.WriteString(g4.funcs["fastq_MarshalText"].text + "\n")
	// Reader and File of both: range-over-func loops that forward every item of the inner iterator; the io.Reader /
	// the opened file is the pair (remaining bytes or line tokens, ending) the translated read methods work on
	const FAIT, FQIT = "((Option (("+B+") × ("+B+"))) × GoErr)", "((Option (("+B+") × ("+B+") × ("+B+"))) × GoErr)"
	g3.ioReaderSrc, g3.recT = "bytes", map[string]bool{"Fasta": true}
	g3.methodNames = map[string]string{"reader.iter": "fasta_iter"}
	g3.wrMethods = nil
	g3.funcOrMethod("", "Reader", "fasta_Reader", "formats/fasta", "def fasta_Reader (fuel : Nat) (r : ("+B+" × Ending)) (yield : List "+FAIT+" → Bool) : Option (List "+FAIT+") := none")
	g3.extFuncs = map[string]extFunc{"github.com/fluhus/gostuff/aio.Open": {"aio_Open", B+" → ("+B+" × Ending) × GoErr"}}
	g3.funcAlias = map[string]string{"Reader": "fasta_Reader"}
	g3.funcOrMethod("", "File", "fasta_File", "formats/fasta", "def fasta_File (aio_Open : "+B+" → ("+B+" × Ending) × GoErr) (fuel : Nat) (file : "+B+") (yield : List "+FAIT+" → Bool) : Option (List "+FAIT+") := none")
	w.WriteString(g3.funcs["fasta_Reader"].text + "\n" + g3.funcs["fasta_File"].text + "\n")
	g4.ioReaderSrc, g4.recT = "lines", map[string]bool{"Fastq": true}
	g4.methodNames = map[string]string{"reader.iter": "fastq_iter"}
	g4.wrMethods = nil
	g4.funcOrMethod("", "Reader", "fastq_Reader", "formats/fastq", "def fastq_Reader (fuel : Nat) (r : ("+BB+" × Ending)) (yield : List "+FQIT+" → Bool) : Option (List "+FQIT+") := none")
	g4.extFuncs = map[string]extFunc{"github.com/fluhus/gostuff/aio.Open": {"aio_Open", B+" → ("+BB+" × Ending) × GoErr"}}
	g4.funcAlias = map[string]string{"Reader": "fastq_Reader"}
	g4.funcOrMethod("", "File", "fastq_File", "formats/fastq", "def fastq_File (aio_Open : "+B+" → ("+BB+" × Ending) × GoErr) (fuel : Nat) (file : "+B+") (yield : List "+FQIT+" → Bool) : Option (List "+FQIT+") := none")
	w.WriteString(g4.funcs["fastq_Reader"].text + "\n" + g4.funcs["fastq_File"].text + "\n")
	// regions: the whole package
	g6 := loadPkg(filepath.Join(repo, "regions"))
	const EV, IV = "(Int × Int × Bool)", "(Int × (List Int))"
	g6.function("eventLess", "regions", "def eventLess (a : "+EV+") (b : "+EV+") : Option Bool := none")
	g6.function("keys", "regions", "def keys (m : List Int) : Option (List Int) := none")
	g6.function("cp", "regions", "def cp (a : List Int) : Option (List Int) := none")
	g6.function("NewIndex", "regions", "def NewIndex (starts : List Int) (ends : List Int) : Option (List "+IV+") := none")
	g6.method("Index", "At", "Index_At", "regions", "def Index_At (idx_idx : List "+IV+") (i : Int) : Option (List Int) := none")
	for _, n := range g6.order {
		w.WriteString(g6.funcs[n].text)
		w.WriteString("\n")
	}
	g5 := loadPkg(filepath.Join(repo, "formats", "sam"))
	g5.writerMethod("sam_Write", "SAM", "Write", "formats/sam",
		"def sam_Write (s_Qname : "+B+") (s_Flag : Int) (s_Rname : "+B+") (s_Pos : Int) (s_Mapq : Int) (s_Cigar : "+B+") (s_Rnext : "+B+") (s_Pnext : Int) (s_Tlen : Int) (s_Seq : "+B+") (s_Qual : "+B+") (s_TagTexts : "+BB+") (w : Wr) : Option (GoErr × Wr) := none",
		map[string][2]string{"tagsToText": {"s_TagTexts", BB}})
	w.WriteString(g5.funcs["sam_Write"].text + "\n")
	// align: the substitution-matrix lookup and both dynamic programmes with their tracebacks.
	// float64 scores are translated as Int (the declared abstraction of the hand model too: scores are
	// integers below 2^53, for which float64 addition and comparison are exact; DESIGN §15.2)
	g7 := loadPkg(filepath.Join(repo, "align"))
	g7.floatInt, floatAsInt = true, true
	const MT, BL = "List (List UInt8 × Int)", "List (Int × UInt8)"
	g7.methodNames = map[string]string{"SubstitutionMatrix.Get": "Matrix_Get"}
	g7.method("SubstitutionMatrix", "Get", "Matrix_Get", "align", "def Matrix_Get (m : "+MT+") (a : UInt8) (b : UInt8) : Option Int := none")
	g7.function("decideOnStep", "align", "def decideOnStep (mch : Int) (del : Int) (ins : Int) : Option (Int × UInt8) := none")
	g7.function("traceAlignmentSteps", "align", "def traceAlignmentSteps (fuel : Nat) (blocks : "+BL+") (bn : Int) : Option (("+B+") × Int) := none")
	g7.function("Global", "align", "def Global (fuel : Nat) (a : "+B+") (b : "+B+") (m : "+MT+") : Option (("+B+") × Int) := none")
	g7.function("argmax", "align", "def argmax (blocks : "+BL+") : Option Int := none")
	g7.function("traceAlignmentStepsLocal", "align", "def traceAlignmentStepsLocal (fuel : Nat) (blocks : "+BL+") (bn : Int) : Option (("+B+") × Int × Int) := none")
	g7.function("Local", "align", "def Local (fuel : Nat) (a : "+B+") (b : "+B+") (m : "+MT+") : Option (("+B+") × Int × Int × Int) := none")
	g7.methodNames["SubstitutionMatrix.Symmetrical"] = "Matrix_Symmetrical"
	g7.method("SubstitutionMatrix", "Symmetrical", "Matrix_Symmetrical", "align", "def Matrix_Symmetrical (m : "+MT+") : Option ("+MT+") := none")
	g7.initFunc(3, "align", "def init_3 : Option ("+MT+") := none")
	floatAsInt = false
	for _, n := range g7.order {
		w.WriteString(g7.funcs[n].text)
		w.WriteString("\n")
	}
	// formats/newick: the explicit-stack traversal.  *Node is the hand model's tree (`Newick.Tree`, never written
	// by this code), `n.Children` its list of children (`kidsOf`, Bio/Model/GoRtNewick.lean)
	g2.opaqueT = map[string]string{"Node": "Newick.Tree"}
	g2.opaqueF = map[string]string{"Node.Children": "kidsOf"}
	g2.methodNames = map[string]string{"Node.traverse": "traverse", "Node.PreOrder": "PreOrder", "Node.PostOrder": "PostOrder"}
	g2.method("Node", "traverse", "traverse", "formats/newick", "def traverse (fuel : Nat) (n : Newick.Tree) (pre : Bool) (yield : List Newick.Tree → Bool) : Option (List Newick.Tree) := none")
	g2.method("Node", "PreOrder", "PreOrder", "formats/newick", "def PreOrder (fuel : Nat) (n : Newick.Tree) (yield : List Newick.Tree → Bool) : Option (List Newick.Tree) := none")
	g2.method("Node", "PostOrder", "PostOrder", "formats/newick", "def PostOrder (fuel : Nat) (n : Newick.Tree) (yield : List Newick.Tree → Bool) : Option (List Newick.Tree) := none")
	for _, n := range []string{"traverse", "PreOrder", "PostOrder"} {
		w.WriteString(g2.funcs[n].text)
		w.WriteString("\n")
	}
	// trie: New, Add, Has, Delete over an explicit heap
	g9 := loadPkg(filepath.Join(repo, "trie"))
	g9.heapT = "Trie"
	const HP = heapLean
	g9.methodNames = map[string]string{"Trie.Add": "Trie_Add", "Trie.Has": "Trie_Has", "Trie.Delete": "Trie_Delete"}
	g9.function("New", "trie", "def New (heap : "+HP+") : Option (Int × "+HP+") := none")
	g9.method("Trie", "Add", "Trie_Add", "trie", "def Trie_Add (fuel : Nat) (heap : "+HP+") (t : Int) (b : "+B+") : Option ("+HP+") := none")
	g9.method("Trie", "Has", "Trie_Has", "trie", "def Trie_Has (fuel : Nat) (heap : "+HP+") (t : Int) (b : "+B+") : Option Bool := none")
	g9.method("Trie", "Delete", "Trie_Delete", "trie", "def Trie_Delete (heap : "+HP+") (t : Int) (b : "+B+") : Option (Bool × "+HP+") := none")
	g9.lheapT = "forEachStep"
	g9.methodNames["Trie.keys"], g9.methodNames["Trie.ForEach"] = "Trie_keys", "Trie_ForEach"
	g9.method("Trie", "keys", "Trie_keys", "trie", "def Trie_keys (heap : "+HP+") (t : Int) : Option ("+B+") := none")
	g9.method("Trie", "ForEach", "Trie_ForEach", "trie", "def Trie_ForEach (fuel : Nat) (heap : "+HP+") (t : Int) (f : "+BB+" → Bool) : Option ("+BB+") := none")
	for _, n := range g9.order {
		w.WriteString(g9.funcs[n].text)
		w.WriteString("\n")
	}
	// formats/newick: the tokenizer.  The receiver's *bufio.Reader (ReadByte/UnreadByte) is the abstract ByteRd,
	// its *bytes.Buffer the bytes written so far; both are state handed back with the result
	g2.recT, g2.byteRd = map[string]bool{}, true
	g2.method("reader", "nextToken", "newick_nextToken", "formats/newick", "def newick_nextToken (fuel : Nat) (r_r : ByteRd) (r_b : "+B+") : Option (("+B+") × GoErr × ByteRd × ("+B+")) := none")
	g2.recT, g2.byteRd = nil, false
	w.WriteString(g2.funcs["newick_nextToken"].text + "\n")
	// formats/newick: the parser `(*reader).read` over an explicit heap of Node cells (name, distance, children);
	// float64 distances are the model's opaque `Dist` (none = 0), strconv.ParseFloat is a parameter
	g2b := loadPkg(filepath.Join(repo, "formats", "newick"))
	g2b.recT, g2b.byteRd = map[string]bool{}, true
	g2b.heapT, g2b.floatLean = "Node", "Newick.Dist"
	const PFLOAT = "List UInt8 → Int → Newick.Dist × GoErr"
	const NHEAP = "List ((List UInt8) × Newick.Dist × (List Int))"
	g2b.extFuncs = map[string]extFunc{"strconv.ParseFloat": {"strconv_ParseFloat", PFLOAT}}
	g2b.methodNames = map[string]string{"reader.nextToken": "newick_nextToken", "reader.read": "newick_read"}
	g2b.function("quoted", "formats/newick", "def quoted (s : "+B+") : Option Bool := none")
	g2b.function("nameFromText", "formats/newick", "def nameFromText (s : "+B+") : Option ("+B+") := none")
	g2b.method("reader", "nextToken", "newick_nextToken", "formats/newick", "def newick_nextToken (fuel : Nat) (r_r : ByteRd) (r_b : "+B+") : Option (("+B+") × GoErr × ByteRd × ("+B+")) := none")
	g2b.method("reader", "read", "newick_read", "formats/newick", "def newick_read (strconv_ParseFloat : "+PFLOAT+") (fuel : Nat) (heap : "+NHEAP+") (r_r : ByteRd) (r_b : "+B+") : Option (Int × GoErr × ("+NHEAP+") × ByteRd × ("+B+")) := none")
	w.WriteString(g2b.funcs["newick_read"].text + "\n")
	// newick.Reader: the iter.Seq2 closure around newReader + read; the items are pointers into the heap handed back
	g2b.ioReaderBuf = true
	g2b.funcOrMethod("", "Reader", "newick_Reader", "formats/newick", "def newick_Reader (strconv_ParseFloat : "+PFLOAT+") (fuel : Nat) (heap : "+NHEAP+") (r : ByteRd) (yield : List (Int × GoErr) → Bool) : Option ((List (Int × GoErr)) × "+NHEAP+") := none")
	const NOPEN = "List UInt8 → ByteRd × GoErr"
	g2b.extFuncs["github.com/fluhus/gostuff/aio.Open"] = extFunc{"aio_Open", NOPEN}
	g2b.funcAlias = map[string]string{"Reader": "newick_Reader"}
	g2b.funcOrMethod("", "File", "newick_File", "formats/newick", "def newick_File (aio_Open : "+NOPEN+") (strconv_ParseFloat : "+PFLOAT+") (fuel : Nat) (heap : "+NHEAP+") (file : "+B+") (yield : List (Int × GoErr) → Bool) : Option ((List (Int × GoErr)) × "+NHEAP+") := none")
	g2b.ioReaderBuf = false
	w.WriteString(g2b.funcs["newick_Reader"].text + "\n")
	w.WriteString(g2b.funcs["newick_File"].text + "\n")
	// formats/newick: the recursive writer.  The tree is only read: *Node is the model's `Newick.Tree`; the
	// *bytes.Buffer is the bytes written so far; `%v` of a float64 distance is the parameter `fmt_float`
	g2c := loadPkg(filepath.Join(repo, "formats", "newick"))
	g2c.opaqueT = map[string]string{"Node": "Newick.Tree"}
	g2c.opaqueF = map[string]string{"Node.Children": "kidsOf", "Node.Name": "Newick.Tree.name", "Node.Distance": "Newick.Tree.dist"}
	g2c.floatLean = "Newick.Dist"
	g2c.recT = map[string]bool{}
	g2c.extFuncs = map[string]extFunc{"fmt.float": {"fmt_float", "Newick.Dist → List UInt8"}}
	g2c.selfExts = []string{"fmt.float"}
	g2c.methodNames = map[string]string{"Node.newick": "Node_newick", "Node.MarshalText": "Node_MarshalText"}
	g2c.function("nameToText", "formats/newick", "def nameToText_lit0 : List UInt8 := []\ndef nameToText (s : "+B+") : Option ("+B+") := none")
	g2c.method("Node", "newick", "Node_newick", "formats/newick", "def Node_newick (fmt_float : Newick.Dist → List UInt8) (fuel : Nat) (n : Newick.Tree) (buf : "+B+") : Option ("+B+") := none")
	g2c.method("Node", "MarshalText", "Node_MarshalText", "formats/newick", "def Node_MarshalText (fmt_float : Newick.Dist → List UInt8) (fuel : Nat) (n : Newick.Tree) : Option (("+B+") × GoErr) := none")
	w.WriteString(g2c.funcs["Node_newick"].text + "\n")
	w.WriteString(g2c.funcs["Node_MarshalText"].text + "\n")
	// mash.Add: the loop that feeds canonical k-mers to the hasher and the hashes to the sketch
	g10 := loadPkg(filepath.Join(repo, "mash"))
	g10.extObjs = map[string]bool{"mh": true}
	g10.extObjOps = map[string]string{"mh_Push": "σ → UInt64 → σ", "mh_Sort": "σ → σ"}
	g10.hashers = map[string]string{"murmur3.New64WithSeed": "hash64"}
	g10.extFuncs = map[string]extFunc{"bytes.ToUpper": {"bytes_ToUpper", "List UInt8 → List UInt8"}}
	g10.xIter = map[string][2]string{"sequtil.CanonicalSubsequences": {"CanonicalSubsequences", "g_complementBytes"}}
	g10.extObjFunction("Add", "mash", "def Add {σ : Type} (g_Seed : UInt32) (g_complementBytes : "+B+") (bytes_ToUpper : "+B+" → "+B+") (hash64 : UInt32 → "+B+" → UInt64) (mh_Push : σ → UInt64 → σ) (mh_Sort : σ → σ) (mh : σ) (k : Int) (seqs : "+BB+") : Option σ := none",
		[]string{"mh_Push", "mh_Sort"}, []string{"hash64"}, []string{"bytes.ToUpper"}, map[string]string{"g_complementBytes": B})
	w.WriteString(strings.Replace(g10.funcs["Add"].text, "def Add", "def mash_Add", -1) + "\n")
	// formats/sam: the line parser.  `any` tag values are the model's sum type Sam.TagVal (injected by the static type
	// of the stored value), float64 is the canonical text (ParseFloat a parameter), parseInts' `...*int` are copied
	// in and handed back, snm.At is GoRt's atIdx, *SAM is an Option tuple
	g5b := loadPkg(filepath.Join(repo, "formats", "sam"))
	g5b.recT = map[string]bool{"SAM": true}
	g5b.outParams = true
	g5b.anyLean = "Sam.TagVal"
	g5b.anyCtor = map[string]string{"byte": "Sam.TagVal.A", "int": "Sam.TagVal.I", "float64": "Sam.TagVal.F", "string": "Sam.TagVal.Z", "[]byte": "Sam.TagVal.H"}
	g5b.floatLean = "List UInt8"
	g5b.extFuncs = map[string]extFunc{"strconv.Atoi": {"strconv_Atoi", "List UInt8 → Int × GoErr"},
		"strconv.ParseFloat": {"strconv_ParseFloat", "List UInt8 → Int → List UInt8 × GoErr"},
		"encoding/hex.DecodeString": {"hex_DecodeString", "List UInt8 → List UInt8 × GoErr"}}
	g5b.extVocab = map[string]string{"snm.At": "atIdx"}
	const TAGS = "List (List UInt8 × Sam.TagVal)"
	g5b.function("splitTag", "formats/sam", "def splitTag (tag : "+B+") : Option (("+BB+") × GoErr) := none")
	const SATOI, SPF, SHEX = "List UInt8 → Int × GoErr", "List UInt8 → Int → List UInt8 × GoErr", "List UInt8 → List UInt8 × GoErr"
	g5b.function("parseTags", "formats/sam", "def parseTags (hex_DecodeString : "+SHEX+") (strconv_Atoi : "+SATOI+") (strconv_ParseFloat : "+SPF+") (values : "+BB+") : Option (("+TAGS+") × GoErr) := none")
	g5b.function("parseInts", "formats/sam", "def parseInts (strconv_Atoi : "+SATOI+") (strs : "+BB+") (p : List Int) : Option (GoErr × (List Int)) := none")
	const SAMT = "((List UInt8) × Int × (List UInt8) × Int × Int × (List UInt8) × (List UInt8) × Int × Int × (List UInt8) × (List UInt8) × ("+TAGS+"))"
	g5b.funcOrMethod("", "parseLine", "sam_parseLine", "formats/sam", "def sam_parseLine (hex_DecodeString : "+SHEX+") (strconv_Atoi : "+SATOI+") (strconv_ParseFloat : "+SPF+") (line : "+BB+") : Option ((Option "+SAMT+") × GoErr) := none")
	g5b.extPure = map[string]string{"strconv.Itoa": "itoa", "encoding/hex.EncodeToString": "hexEnc"}
	g5b.extFuncs["strconv.FormatFloat"] = extFunc{"strconv_FormatFloat", "List UInt8 → UInt8 → Int → Int → List UInt8"}
	const SFF = "List UInt8 → UInt8 → Int → Int → List UInt8"
	g5b.function("tagToText", "formats/sam", "def tagToText (strconv_FormatFloat : "+SFF+") (tag : "+B+") (val : Sam.TagVal) : Option ("+B+") := none")
	g5b.function("tagsToText", "formats/sam", "def tagsToText (strconv_FormatFloat : "+SFF+") (tags : "+TAGS+") : Option ("+BB+") := none")
	g5b.ioReaderBuf = true
	g5b.funcAlias = map[string]string{"parseLine": "sam_parseLine"}
	const SHT = "(((Option (List UInt8)) × (Option "+SAMT+")) × GoErr)"
	g5b.funcOrMethod("", "ReaderHeader", "sam_ReaderHeader", "formats/sam", "def sam_ReaderHeader (hex_DecodeString : "+SHEX+") (strconv_Atoi : "+SATOI+") (strconv_ParseFloat : "+SPF+") (fuel : Nat) (r : BufRd) (yield : List "+SHT+" → Bool) : Option (List "+SHT+") := none")
	// sam.Reader: ranges over ReaderHeader (range-over-func), forwards records and errors, drops header lines
	const SIT = "((Option "+SAMT+") × GoErr)"
	g5b.funcAlias["ReaderHeader"] = "sam_ReaderHeader"
	g5b.funcOrMethod("", "Reader", "sam_Reader", "formats/sam", "def sam_Reader (hex_DecodeString : "+SHEX+") (strconv_Atoi : "+SATOI+") (strconv_ParseFloat : "+SPF+") (fuel : Nat) (r : BufRd) (yield : List "+SIT+" → Bool) : Option (List "+SIT+") := none")
	const SOPEN = "List UInt8 → BufRd × GoErr"
	g5b.extFuncs["github.com/fluhus/gostuff/aio.Open"] = extFunc{"aio_Open", SOPEN}
	g5b.funcAlias["Reader"] = "sam_Reader"
	g5b.funcOrMethod("", "File", "sam_File", "formats/sam", "def sam_File (hex_DecodeString : "+SHEX+") (aio_Open : "+SOPEN+") (strconv_Atoi : "+SATOI+") (strconv_ParseFloat : "+SPF+") (fuel : Nat) (file : "+B+") (yield : List "+SIT+" → Bool) : Option (List "+SIT+") := none")
	g5b.funcOrMethod("", "FileHeader", "sam_FileHeader", "formats/sam", "def sam_FileHeader (hex_DecodeString : "+SHEX+") (aio_Open : "+SOPEN+") (strconv_Atoi : "+SATOI+") (strconv_ParseFloat : "+SPF+") (fuel : Nat) (file : "+B+") (yield : List "+SHT+" → Bool) : Option (List "+SHT+") := none")
	for _, n := range g5b.order {
		w.WriteString(g5b.funcs[n].text)
		w.WriteString("\n")
	}
	_ = TAGS
	g8 := loadPkg(filepath.Join(repo, "formats", "bed"))
	// the read side: parseLine and (*reader).read.  *BED is an Option tuple, *bufio.Reader the abstract BufRd,
	// strconv.Atoi / strconv.ParseUint are parameters
	const BEDT = "(Int × (List UInt8) × Int × Int × (List UInt8) × Int × (List UInt8) × Int × Int × (List UInt8) × Int × (List Int) × (List Int))"
	const ATOI, PUINT = "List UInt8 → Int × GoErr", "List UInt8 → Int → Int → Int × GoErr"
	g8.recT = map[string]bool{"BED": true}
	g8.u64AsInt = true
	g8.extFuncs = map[string]extFunc{"strconv.Atoi": {"strconv_Atoi", ATOI}, "strconv.ParseUint": {"strconv_ParseUint", PUINT}}
	g8.function("parseLine", "formats/bed", "def parseLine (strconv_Atoi : "+ATOI+") (strconv_ParseUint : "+PUINT+") (fields : "+BB+") : Option ((Option "+BEDT+") × GoErr) := none")
	g8.method("reader", "read", "bed_read", "formats/bed", "def bed_read (strconv_Atoi : "+ATOI+") (strconv_ParseUint : "+PUINT+") (fuel : Nat) (r_r : BufRd) (r_nfields : Int) : Option ((Option "+BEDT+") × GoErr × BufRd × Int) := none")
	// bed.Reader: the iter.Seq2 closure around newReader + read
	g8.ioReaderBuf = true
	g8.methodNames = map[string]string{"reader.read": "bed_read"}
	const BIT = "((Option "+BEDT+") × GoErr)"
	g8.funcOrMethod("", "Reader", "bed_Reader", "formats/bed", "def bed_Reader (strconv_Atoi : "+ATOI+") (strconv_ParseUint : "+PUINT+") (fuel : Nat) (r : BufRd) (yield : List "+BIT+" → Bool) : Option (List "+BIT+") := none")
	// bed.File: aio.Open (a parameter: the opened, possibly decompressed, file as reader state, or an error), then a
	// range-over-func loop over Reader that forwards every item
	const AOPEN = "List UInt8 → BufRd × GoErr"
	g8.extFuncs["github.com/fluhus/gostuff/aio.Open"] = extFunc{"aio_Open", AOPEN}
	g8.funcAlias = map[string]string{"Reader": "bed_Reader"}
	g8.funcOrMethod("", "File", "bed_File", "formats/bed", "def bed_File (aio_Open : "+AOPEN+") (strconv_Atoi : "+ATOI+") (strconv_ParseUint : "+PUINT+") (fuel : Nat) (file : "+B+") (yield : List "+BIT+" → Bool) : Option (List "+BIT+") := none")
	g8.ioReaderBuf = false
	g8.recT, g8.extFuncs = nil, nil
	for _, n := range []string{"parseLine", "bed_read", "bed_Reader", "bed_File"} {
		w.WriteString(g8.funcs[n].text)
		w.WriteString("\n")
	}
	g8.writerMethod("bed_Write", "BED", "Write", "formats/bed",
		"def bed_Write (b_N : Int) (b_Chrom : "+B+") (b_ChromStart : Int) (b_ChromEnd : Int) (b_Name : "+B+") (b_Score : Int) (b_Strand : "+B+") (b_ThickStart : Int) (b_ThickEnd : Int) (b_ItemRGB : "+B+") (b_BlockCount : Int) (b_BlockSizes : List Int) (b_BlockStarts : List Int) (w : Wr) : Option (GoErr × Wr) := none", nil)
	w.WriteString(g8.funcs["bed_Write"].text + "\n")
	// formats/smtext: ReadNCBI and extractSingleChar.  The io.Reader wrapped by bufio.NewScanner is the abstract ScanRd
	// (remaining line tokens + how the source ends), the regexp \S+ is GoRt.nonSpaceFields, float64 scores are Int as in
	// package align, strconv.ParseFloat is a parameter
	g11 := loadPkg(filepath.Join(repo, "formats", "smtext"))
	g11.floatInt, floatAsInt = true, true
	g11.ioReaderScan = true
	g11.recT = map[string]bool{}
	const PFI = "List UInt8 → Int → Int × GoErr"
	g11.extFuncs = map[string]extFunc{"strconv.ParseFloat": {"strconv_ParseFloat", PFI}}
	g11.function("extractSingleChar", "formats/smtext", "def extractSingleChar (s : "+B+") : Option (UInt8 × GoErr) := none")
	g11.funcOrMethod("", "ReadNCBI", "smtext_ReadNCBI", "formats/smtext", "def smtext_ReadNCBI (strconv_ParseFloat : "+PFI+") (r : ScanRd) : Option (("+MT+") × GoErr) := none")
	floatAsInt = false
	for _, n := range g11.order {
		w.WriteString(g11.funcs[n].text)
		w.WriteString("\n")
	}
	fmt.Fprintln(w, "end Bio.Generated.GoSrc")
	os.Remove(out)
	if err := os.WriteFile(out, w.Bytes(), 0o644); err != nil {
		fmt.Fprintln(os.Stderr, err)
		os.Exit(2)
	}
}
