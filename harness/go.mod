module verif/harness

go 1.23

require github.com/fluhus/biostuff v0.0.0

require (
	github.com/fluhus/gostuff v1.0.1 // indirect
	github.com/klauspost/compress v1.17.9 // indirect
)

replace github.com/fluhus/biostuff => /repo
