module verif/harness

go 1.23

require (
	github.com/fluhus/biostuff v0.0.0
	github.com/fluhus/gostuff v1.0.1
)

require (
	github.com/klauspost/compress v1.17.9 // indirect
	github.com/spaolacci/murmur3 v1.1.0 // indirect
	golang.org/x/exp v0.0.0-20240604190554-fc45aab8b7f8 // indirect
)

replace github.com/fluhus/biostuff => /repo
