#!/bin/sh
# Run every property's check (tier $1, default quick); print one line each.
tier=${1:-quick}
rc=0
for i in 01 02 03 04 05 06 07 08 09 10 11 12 13 14 15 16 17 18 19 20; do
  out=$(./check C$i --tier $tier 2>&1); r=$?
  echo "$out" | grep -E "^(OK|VIOLATION|KNOWN-FINDING|no longer|failing)" | cut -c1-300
  [ $r -ne 0 ] && rc=1
done
exit $rc
